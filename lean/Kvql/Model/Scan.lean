/-
  filter_optimizer.go (with the C02/C18 repairs of /verif/patches/scan-*.patch applied),
  function by function: the inference of a scan type (key region) from a WHERE tree.

  `Scan` is Go's `ScanType{scanTp, keys}`; every construction site gives MGET a key list,
  PREFIX one key and RANGE two keys, so the `len(keys)` guards (the `[ALRET]` branches) never
  fire and the datatype carries exactly what is reachable.  `Option Bytes` is a `[]byte` that
  may be `nil` (`[]byte("")` is `some []`); `bv` is what `bytes.Compare/HasPrefix/Equal` and
  `string(·)` see of it.  MGET keys are never nil in the repaired code (each comes from a
  literal or from a non-nil bound), so they are plain `Bytes`.

  Map iteration order (`intersectionMget`, `unionMget`) is modelled canonically: the key *set*
  in byte order without duplicates; nothing downstream depends on the order and
  `NewMultiGetPlan` sorts.  Tie to the code: SCAN correspondence group.

  "CHANGED" comments mark the repaired places; `ScanUnpatched.lean` is the code as found.
-/
import Kvql.Model.Expr
import Kvql.Model.ByteOrder

namespace Kvql.Scan

open Kvql Generated

/-- a Go `[]byte` that may be nil -/
abbrev OB := Option Bytes

def bv : OB → Bytes
  | none => []
  | some b => b

inductive Scan
  | empty
  | mget (ks : List Bytes)
  | pre (p : Bytes)
  | range (lo hi : OB)
  | full
deriving Repr, Inhabited, DecidableEq

/-- `scanTp`, with the priorities of the Go constant block (regenerated) -/
def Scan.tp : Scan → Nat
  | .empty => scanEMPTY | .mget _ => scanMGET | .pre _ => scanPREFIX
  | .range .. => scanRANGE | .full => scanFULL

/-- `inRange(start, end, val, isEnd)` (unchanged).  In the repaired code every caller passes a
    non-nil `val`; the nil branches are kept as they are in the source. -/
def inRange (s e v : OB) (isEnd : Bool) : Bool :=
  if s.isNone && e.isSome then
    if v.isNone && !isEnd then true
    else if v.isNone && isEnd then false
    else Bytes.le (bv v) (bv e)
  else if s.isSome && e.isNone then
    if v.isNone && !isEnd then false
    else if v.isNone && isEnd then true
    else Bytes.le (bv s) (bv v)
  else Bytes.le (bv s) (bv v) && Bytes.le (bv v) (bv e)

/-- `intersectionMget` (unchanged): keys of `l` (one per string) that are in `r` -/
def intersectionMget (l r : List Bytes) : Scan :=
  let keys := Bytes.sort ((Bytes.dedup l).filter (fun k => r.contains k))
  if keys.isEmpty then .empty else .mget keys

/-- `unionMget` (unchanged): one entry per string of `l` and `r` -/
def unionMget (l r : List Bytes) : Scan :=
  let keys := Bytes.sort (Bytes.dedup (l ++ r))
  if keys.isEmpty then .empty else .mget keys

/-- `intersectionMgetAndPrefix` (unchanged) -/
def intersectionMgetAndPrefix (ks : List Bytes) (p : Bytes) : Scan :=
  let ikeys := ks.filter (fun k => Bytes.isPrefix p k)
  if ikeys.isEmpty then .empty else .mget ikeys

/-- `unionMgetAndPrefix` (unchanged) -/
def unionMgetAndPrefix (ks : List Bytes) (p : Bytes) : Scan :=
  if ks.any (fun k => !Bytes.isPrefix p k) then .full else .pre p

/-- `intersectionPrefix` (unchanged) -/
def intersectionPrefix (l r : Bytes) : Scan :=
  if l == r then .pre l
  else if Bytes.lt l r && Bytes.isPrefix l r then .pre r
  else if Bytes.lt r l && Bytes.isPrefix r l then .pre l
  else .empty

/-- `unionPrefix` (unchanged) -/
def unionPrefix (l r : Bytes) : Scan :=
  if l == r then .pre l
  else if Bytes.lt l r && Bytes.isPrefix l r then .pre l
  else if Bytes.lt r l && Bytes.isPrefix r l then .pre r
  else .full

/-- the swap at the top of `intersectionRange` / `unionRange` (unchanged; a no-op on the ranges
    the repaired code builds, which all have start ≤ end) -/
def swapBounds (s e : OB) : OB × OB :=
  if s.isSome && e.isSome && Bytes.lt (bv e) (bv s) then (e, s) else (s, e)

/-- the body of `intersectionRange` after the swap -/
def intersectionBounds (ls le rs re : OB) : Scan :=
  let ns := if ls.isNone || (rs.isSome && Bytes.lt (bv ls) (bv rs)) then rs else ls
  let ne := if le.isNone || (re.isSome && Bytes.lt (bv re) (bv le)) then re else le
  if ns.isNone && ne.isNone then .full
  else if ns.isSome && ne.isSome && Bytes.lt (bv ne) (bv ns) then .empty
  else if ns.isSome && ne.isSome && Bytes.eq (bv ns) (bv ne) then .mget [bv ns]
  else .range ns ne

/-- the body of `unionRange` after the swap -/
def unionBounds (ls le rs re : OB) : Scan :=
  let ns := if rs.isNone || (ls.isSome && Bytes.lt (bv rs) (bv ls)) then rs else ls
  let ne := if re.isNone || (le.isSome && Bytes.lt (bv le) (bv re)) then re else le
  if ns.isNone && ne.isNone then .full
  else if ns.isSome && ne.isSome && Bytes.eq (bv ns) (bv ne) then .mget [bv ns]
  else .range ns ne

/-- `intersectionRange`.  CHANGED: the `inRange` case chain (which treated a nil bound as `""`
    in its both-bounded branch and fell through to FULL) is replaced by "greater start, smaller
    end"; start > end is EMPTY; start == end is MGET only when both are present. -/
def intersectionRange (ls0 le0 rs0 re0 : OB) : Scan :=
  let l := swapBounds ls0 le0
  let r := swapBounds rs0 re0
  intersectionBounds l.1 l.2 r.1 r.2

/-- `unionRange`.  CHANGED: the case chain (wrong for disjoint half-bounded ranges, and its
    "same range" test read nil as `""`) is replaced by the covering range "smaller start, greater
    end"; start == end is MGET only when both are present. -/
def unionRange (ls0 le0 rs0 re0 : OB) : Scan :=
  let l := swapBounds ls0 le0
  let r := swapBounds rs0 re0
  unionBounds l.1 l.2 r.1 r.2

/-- `intersectionMgetAndRange` (unchanged) -/
def intersectionMgetAndRange (ks : List Bytes) (rs re : OB) : Scan :=
  let ikeys := ks.filter (fun k => inRange rs re (some k) false)
  if ikeys.isEmpty then .empty else .mget ikeys

/-- `intersectionPrefixAndRange`.  CHANGED: `HasPrefix(rend, pstart)` is asked only of a
    non-nil `rend` (a nil end has the empty prefix as prefix and `Equal`s it). -/
def intersectionPrefixAndRange (p : Bytes) (rs re : OB) : Scan :=
  if inRange rs re (some p) false then
    if re.isSome && Bytes.isPrefix p (bv re) then
      if Bytes.eq p (bv re) then .mget [p] else .range (some p) re
    else .pre p
  else
    if rs.isSome && Bytes.isPrefix p (bv rs) then .range rs re
    else if re.isSome && Bytes.lt (bv re) p then .empty
    else if rs.isSome && Bytes.lt p (bv rs) then .empty
    else .full

/-- `unionMgetAndRange` (unchanged) -/
def unionMgetAndRange (ks : List Bytes) (rs re : OB) : Scan :=
  if ks.any (fun k => !inRange rs re (some k) false) then
    match ks with
    | [mkey] =>
      if rs.isSome && Bytes.lt mkey (bv rs) then .range (some mkey) re
      else if re.isSome && Bytes.lt (bv re) mkey then .range rs (some mkey)
      else .full
    | _ => .full
  else .range rs re

/-- `unionPrefixAndRange`.  CHANGED: "range start → nil" is FULL when the start is nil too
    (it used to build RANGE{nil, nil}, which `inRange` reads as the single key `""`). -/
def unionPrefixAndRange (p : Bytes) (rs re : OB) : Scan :=
  if inRange rs re (some p) false then
    if re.isSome && Bytes.isPrefix p (bv re) then
      if rs.isNone then .full else .range rs none
    else if re.isNone then .range rs re
    else if re.isSome && !Bytes.isPrefix p (bv re) then .range rs re
    else .full
  else
    if rs.isSome && Bytes.lt p (bv rs) && !Bytes.isPrefix p (bv rs) then
      if Bytes.eq p (bv re) then .mget [p] else .range (some p) re
    else if rs.isSome && re.isSome && Bytes.isPrefix p (bv rs) && !Bytes.isPrefix p (bv re) then
      if Bytes.eq p (bv re) then .mget [p] else .range (some p) re
    else if rs.isSome && re.isSome && Bytes.isPrefix p (bv rs) && Bytes.isPrefix p (bv re) then .pre p
    else if re.isSome && Bytes.lt (bv re) p then
      if rs.isNone then .full else .range rs none
    else .full

/-- `optimizeAndExpr` after both operands are inferred -/
def andScan (l r : Scan) : Scan :=
  if l.tp == r.tp then
    match l, r with
    | .mget a, .mget b => intersectionMget a b
    | .pre a, .pre b => intersectionPrefix a b
    | .range a b, .range c d => intersectionRange a b c d
    | _, _ => l
  else
    let (lp, hp) := if l.tp < r.tp then (l, r) else (r, l)
    match lp, hp with
    | .mget ks, .pre p => intersectionMgetAndPrefix ks p
    | .mget ks, .range s e => intersectionMgetAndRange ks s e
    | .pre p, .range s e => intersectionPrefixAndRange p s e
    | _, _ => lp

/-- `optimizeOrExpr` after both operands are inferred -/
def orScan (l r : Scan) : Scan :=
  if l.tp == r.tp then
    match l, r with
    | .mget a, .mget b => unionMget a b
    | .pre a, .pre b => unionPrefix a b
    | .range a b, .range c d => unionRange a b c d
    | _, _ => l
  else
    let (lp, hp) := if l.tp < r.tp then (l, r) else (r, l)
    match lp, hp with
    | .mget ks, .pre p => unionMgetAndPrefix ks p
    | .mget ks, .range s e => unionMgetAndRange ks s e
    | .pre p, .range s e => unionPrefixAndRange p s e
    | _, _ => hp

/-- the two `switch`es every comparison atom starts with: (field, key) -/
def operands (l r : Expr) : KW × OB :=
  let (field, key) : KW × OB := match l with
    | .str _ d => (.value, some d)
    | .field _ f => (f, none)
    | _ => (.value, none)
  match r with
  | .str _ d => (field, some d)
  | .field _ f => (f, key)
  | _ => (field, key)

def leftField : Expr → KW
  | .field _ f => f
  | _ => .value

/-- `optimizeEqualExpr` (unchanged) -/
def optimizeEqualExpr (l r : Expr) : Scan :=
  match operands l r with
  | (.key, some k) => .mget [k]
  | _ => .full

/-- `optimizePrefixMatchExpr`.  CHANGED: a string literal on the left (`'lit' ^= key`: the key
    is a prefix of the literal) is FULL; it used to be taken for `key ^= 'lit'`. -/
def optimizePrefixMatchExpr (l r : Expr) : Scan :=
  match l with
  | .str .. => .full
  | _ =>
    match operands l r with
    | (.key, some k) => .pre k
    | _ => .full

/-- `optimizeGtGteExpr` (unchanged; see `optimizeExpr` for who calls it) -/
def optimizeGtGteExpr (l r : Expr) : Scan :=
  match operands l r with
  | (.key, some k) => if k.isEmpty then .full else .range (some k) none
  | _ => .full

/-- `optimizeLtLteExpr`.  CHANGED: with the literal `''` only the strict forms (`e.Op` is
    `<`, or `>` with the literal on the left) are EMPTY; `key <= ''` is MGET{""}. -/
def optimizeLtLteExpr (op : Op) (l r : Expr) : Scan :=
  match operands l r with
  | (.key, some k) =>
    if k.isEmpty then
      if op == .lt || op == .gt then .empty else .mget [k]
    else .range none (some k)
  | _ => .full

/-- the string items of the list and whether every item was a string -/
def stringItems : List Expr → List Bytes × Bool
  | [] => ([], true)
  | .str _ d :: rest => let (ks, ok) := stringItems rest; (d :: ks, ok)
  | _ :: rest => let (ks, _) := stringItems rest; (ks, false)

def optimizeInExpr (l r : Expr) : Scan :=
  let field := leftField l
  let (keys, can) : List Bytes × Bool := match r with
    | .list _ items => stringItems items
    | _ => ([], false)
  if field == .key && !keys.isEmpty && can then .mget keys else .full

/-- `optimizeBetweenExpr`.  CHANGED: bounds given in the wrong order are swapped here, so that
    every RANGE has start ≤ end (the helpers other than the two that swapped relied on it). -/
def optimizeBetweenExpr (l r : Expr) : Scan :=
  let field := leftField l
  match r with
  | .list _ [.str _ lo, .str _ hi] =>
    if field == .key then
      if Bytes.lt hi lo then .range (some hi) (some lo) else .range (some lo) (some hi)
    else .full
  | _ => .full

def isStr : Expr → Bool
  | .str .. => true
  | _ => false

/-- `scanTp == EMPTY` -/
def Scan.isEmpty : Scan → Bool
  | .empty => true
  | _ => false

/-- the double loop of `optimizeAndExpr`: do two of the conjuncts' scan types (an earlier and a
    later one) intersect to EMPTY -/
def emptyPair : List Scan → Bool
  | [] => false
  | s :: rest => rest.any (fun t => (andScan s t).isEmpty) || emptyPair rest

/-- what the optimizer computes of a tree on its way along a chain of `&` / `and`:
    `whole` = `optimizeExpr`; `leaves` = `conjunctScanTypes` (the scan types of the conjuncts —
    the operands of the whole chain, however nested — left to right); `tree` =
    `intersectConjuncts` (the conjuncts combined along the tree, as before the change).
    For a node that is not `&`/`and` the three coincide (`single`). -/
structure Conj where
  whole : Scan
  tree : Scan
  leaves : List Scan

def Conj.single (s : Scan) : Conj := ⟨s, s, [s]⟩

/-- `optimizeExpr`, together with `conjunctScanTypes` and `intersectConjuncts`.
    CHANGED (`optimizeAndExpr`): a conjunction two of whose conjuncts cannot hold together
    (their scan types intersect to EMPTY) is EMPTY wherever the two are nested; it used to
    depend on the pairwise combination along the tree, where PREFIX ∩ RANGE may keep only the
    range and so hide an incompatible prefix (`key ^= 'c' & (key ^= 'b' & key >= 'ba')`). -/
def infer : Expr → Conj
  | .binop _ op l r =>
    match op with
    | .and | .kwAnd =>
      let leaves := (infer l).leaves ++ (infer r).leaves
      let tree := andScan (infer l).tree (infer r).tree
      ⟨if emptyPair leaves then .empty else tree, tree, leaves⟩
    | .or | .kwOr => .single (orScan (infer l).whole (infer r).whole)
    | .prefixMatch => .single (optimizePrefixMatchExpr l r)
    | .eq => .single (optimizeEqualExpr l r)
    -- CHANGED: with the string literal on the left the comparison is mirrored
    | .gt | .gte => .single (if isStr l then optimizeLtLteExpr op l r else optimizeGtGteExpr l r)
    | .lt | .lte => .single (if isStr l then optimizeGtGteExpr l r else optimizeLtLteExpr op l r)
    | .in_ => .single (optimizeInExpr l r)
    | .between => .single (optimizeBetweenExpr l r)
    | _ => .single .full
  | .bool _ _ b => .single (if b then .full else .empty)
  | _ => .single .full

/-- `optimizeExpr` -/
def optimizeExpr (e : Expr) : Scan := (infer e).whole

def showOB : OB → String
  | none => "nil"
  | some b => Bytes.toHex b

/-- `Optimize()`: the plan node built from the scan type.  `NewMultiGetPlan` sorts its keys
    (`sort.Strings`) and keeps one of each (CHANGED by scan_plan.go's repair
    `plans-01`: a key listed twice in an IN list was read and returned twice). -/
def plan : Scan → Scan
  | .mget ks => .mget (Bytes.sort (Bytes.dedup ks))
  | s => s

/-- canonical rendering of a plan node for the SCAN protocol line -/
def render : Scan → String
  | .empty => "EMPTY"
  | .mget ks => "MGET " ++ ",".intercalate (ks.map Bytes.toHex)
  | .pre p => "PREFIX " ++ Bytes.toHex p
  | .range lo hi => "RANGE " ++ showOB lo ++ " " ++ showOB hi
  | .full => "FULL"

/-- does the plan node read key `k` (scan_plan.go: MultiGet reads the listed keys, PrefixScan the
    keys with the prefix, RangeScan the keys between the present bounds inclusive) -/
def Scan.contains (k : Bytes) : Scan → Bool
  | .empty => false
  | .mget ks => ks.contains k
  | .pre p => Bytes.isPrefix p k
  | .range lo hi =>
    (match lo with | none => true | some l => Bytes.le l k) &&
    (match hi with | none => true | some h => Bytes.le k h)
  | .full => true

/-- `Optimize()` on a WHERE tree -/
def optimize (e : Expr) : Scan := plan (optimizeExpr e)

/-! ### optimizer.go: the DELETE shortcut -/

mutual
  /-- the `Walk` of `canOptimizeDeletePlanToRemovePlan`: is there an `&` / `and` node anywhere in
      the filter (walker.go descends into both operands, `!`, call names and arguments, list
      items, field accesses and alias targets; a `cycle` marker is where Go would not return) -/
  def hasAndOp : Expr → Bool
    | .binop _ op l r => op == .and || op == .kwAnd || hasAndOp l || hasAndOp r
    | .not _ r => hasAndOp r
    | .call _ n args => hasAndOp n || hasAndOpList args
    | .ref _ _ t => hasAndOp t
    | .list _ items => hasAndOpList items
    | .access _ l f => hasAndOp l || hasAndOp f
    | _ => false
  def hasAndOpList : List Expr → Bool
    | [] => false
    | e :: es => hasAndOp e || hasAndOpList es
end

/-- what `buildDeletePlan` does with the scan plan of a DELETE without LIMIT -/
inductive DeletePlan
  | deleteEmpty                  -- DeletePlan over EmptyResultPlan
  | remove (ks : List Bytes)     -- RemovePlan with the keys of the MultiGetPlan
  | delete (scan : Scan)         -- DeletePlan over the scan plan
deriving Repr, DecidableEq

def buildDeletePlan (e : Expr) : DeletePlan :=
  match optimize e with
  | .empty => .deleteEmpty
  | .mget ks => if hasAndOp e then .delete (.mget ks) else .remove ks
  | s => .delete s

def renderDelete : DeletePlan → String
  | .deleteEmpty => "DELETE EMPTY"
  | .remove ks => "REMOVE " ++ ",".intercalate (ks.map Bytes.toHex)
  | .delete s => "DELETE " ++ render s

end Kvql.Scan
