/-
  C11  DELETE removes exactly the pairs its WHERE (and LIMIT) selects, nothing else.

  Model: `DeletePlan.loop` (= `DeletePlan.execute`: Batch of the child, BatchDelete of its keys,
  until the child is dry), over a scan plan or over `LimitPlan` over a scan plan, built by
  `buildPlan` (double `Init`, delete → remove shortcut), against the storage machine with SNAPSHOT
  cursors (Kvql/Model/Storage.lean, Kvql/Model/Plans.lean).  Parametric in the filter; the scan
  node is what the planner hands over.  Tie to the code: groups PLAN / FAULT / POLL.

  `selected node filter store` is what `select * where P` returns on the store (theorem
  `Kvql.Proofs.Scan.scan_rows`, both modes): the stored pairs of the node's region on which the
  filter is true, in key order.  LIMIT: C08 (`Kvql.Limit` = `take count ∘ drop start`) composed
  through `limit_produces` (the LimitPlan over a storage child is the list machine of C08 applied
  to the child's chunks).

  Hypotheses: the store is strictly ordered (an invariant of the storage machine); a MultiGet key
  list is strictly ascending (what `NewMultiGetPlan` produces: `newMultiGetKeys_sorted`); the filter
  evaluates on the stored pairs of the region (the property's domain); PlanBatchSize ≥ 1.
-/
import Kvql.Proofs.PlanProofsLimit
import Kvql.Proofs.PlanProofsNoPut

namespace Kvql.Properties.C11

open Kvql Kvql.Storage Kvql.Plans Kvql.Proofs.Plan Kvql.Proofs.Scan Kvql.Proofs.Delete

/-- scan-and-delete strategy, no LIMIT: every scan kind (full, prefix, range, point reads with an
    `&` in the filter, empty), both poll modes, every batch size ≥ 1: the statement reports the
    number of selected pairs and leaves the store minus exactly their keys. -/
theorem delete_correct (node : ScanNode) (hwf : ScanNode.WellFormed node) (filter : Filter) (hasAnd : Bool)
    (hstrategy : ∀ ks, node = .mget ks → hasAnd = true)
    (store : Store) (hs : store.Sorted) (hev : ∀ p ∈ store, node.inRegion p.1 = true → Evaluable filter p)
    (kind : PollKind) (bs : Nat) (hbs : 1 ≤ bs) :
    (run (.delete node filter hasAnd none) kind bs none store).1 =
        ⟨.ok, [[.count (selected node filter store).length]]⟩ ∧
    (run (.delete node filter hasAnd none) kind bs none store).2.store =
        store.eraseMany ((selected node filter store).map (·.1)) :=
  delete_scan_run node hwf filter hasAnd hstrategy store hs hev kind bs hbs

/-- with LIMIT start, count: exactly rows `start … start+count-1` of the selected pairs go -/
theorem delete_limit_correct (node : ScanNode) (hwf : ScanNode.WellFormed node) (filter : Filter) (hasAnd : Bool)
    (start count : Nat) (store : Store) (hs : store.Sorted)
    (hev : ∀ p ∈ store, node.inRegion p.1 = true → Evaluable filter p)
    (kind : PollKind) (bs : Nat) (hbs : 1 ≤ bs) :
    (run (.delete node filter hasAnd (some (start, count))) kind bs none store).1 =
        ⟨.ok, [[.count (((selected node filter store).drop start).take count).length]]⟩ ∧
    (run (.delete node filter hasAnd (some (start, count))) kind bs none store).2.store =
        store.eraseMany ((((selected node filter store).drop start).take count).map (·.1)) :=
  delete_limit_run node hwf filter hasAnd start count store hs hev kind bs hbs

/-- direct-removal strategy (`delete where key = … | key in (…)`, no `&`, no LIMIT): the keys are
    removed without being read.  Correct when the filter accepts every stored pair whose key is
    listed — the exactness condition under which the planner may choose this strategy. -/
theorem delete_shortcut_correct (ks : List Bytes) (filter : Filter) (store : Store)
    (hexact : ∀ p ∈ store, p.1 ∈ ks → filter p = .ok true) (kind : PollKind) (bs : Nat) :
    (run (.delete (.mget ks) filter false none) kind bs none store).1 = ⟨.ok, [[.count ks.length]]⟩ ∧
    (run (.delete (.mget ks) filter false none) kind bs none store).2.store =
        store.eraseMany ((selected (.mget ks) filter store).map (·.1)) :=
  delete_shortcut_run ks filter store hexact kind bs

/-- "store minus keys": every other pair keeps its key and value, in order -/
theorem delete_keeps_the_rest (store : Store) (ks : List Bytes) :
    store.eraseMany ks = store.filter (fun p => p.1 ∉ ks) := Kvql.Proofs.Store.eraseMany_eq_filter store ks

/-- no pair is written: a DELETE (any strategy, any scan node, limit or not, any fault, any batch
    size, whether or not the filter evaluates) never issues `Put` / `BatchPut` -/
theorem delete_no_put (node : ScanNode) (filter : Filter) (hasAnd : Bool) (limit : Option (Nat × Nat))
    (kind : PollKind) (bs : Nat) (f : Option Nat) (store : Store) :
    ∀ e ∈ (run (.delete node filter hasAnd limit) kind bs f store).2.log, e.call.isPut = false := by
  obtain ⟨ext, hl, hp, _⟩ := (em_run_notPut (.delete node filter hasAnd limit) rfl kind bs).out f { store := store }
  intro e he
  simp only [run] at he
  rw [hl] at he
  simp only [List.nil_append] at he
  exact hp e he

/-- the child of a DELETE is polled against a changing store; what it returns is what it would
    return on the prior state, because cursors are snapshots and point reads never return to a key:
    the general statement behind the three theorems above -/
theorem delete_loop_correct' {σ : Type} {c : Child σ} {bs : Nat} {fp : σ → Bytes → Prop} {ref : Store}
    {s : σ} {cs : List (List Pair)} (hp : Produces c bs fp ref s cs)
    (fuel count : Nat) (w : World) (hfuel : cs.length < fuel) (hag : Agree fp ref s w) :
    ∃ s' w', DeletePlan.loop c bs fuel count s none w =
        (((.ok (count + cs.flatten.length), count + cs.flatten.length), s'), w') ∧
      w'.store = w.store.eraseMany (cs.flatten.map (·.1)) :=
  delete_loop_correct hp fuel count w hfuel hag

/-! non-vacuity -/

/-- `delete where key ^= 'a' & value = 'x' limit 1, 1` at batch size 1 over five pairs: the second
    selected pair goes -/
example :
    let store : Store := [([97], [120]), ([97, 49], [121]), ([97, 50], [120]), ([97, 51], [120]), ([98], [120])]
    let filter : Filter := fun p => .ok (p.2 == [120])
    store.Sorted ∧ ScanNode.WellFormed (.prefix [97]) ∧
    (∀ p ∈ store, (ScanNode.prefix [97]).inRegion p.1 = true → Evaluable filter p) ∧
    (run (.delete (.prefix [97]) filter true (some (1, 1))) .batch 1 none store).2.store =
      [([97], [120]), ([97, 49], [121]), ([97, 51], [120]), ([98], [120])] := by
  refine ⟨by decide, trivial, fun p _ _ => ⟨_, rfl⟩, by decide⟩

example : ∀ p ∈ ([([97], [120]), ([98], [121])] : Store), p.1 ∈ [[97], [99]] → (fun _ => Except.ok true : Filter) p = .ok true :=
  fun _ _ _ => rfl

end Kvql.Properties.C11
