/-
  C14  Statically wrong statements are rejected before any storage access; accepted statements
       do not fail with operand-type errors.

  Models.  `Parser.Parse` (parser.go + checker.go + statement.go), `PlanCheck.planStage`
  (optimizer.go: Parse → plan-time function-call validation → shape errors of buildFinalPlan →
  aggregate constructors; everything `BuildPlan` decides before its first storage call),
  `PlanCheck.runQuery` (the plan layer of Model/Plans.lean started from an accepted statement),
  `exec` / `execBatch` (the two evaluators), `kindOf` (the README typing, Proofs/ExecTyping.lean).
  Tie to the code: correspondence groups PARSE (Parse), PLANCHECK (planStage, incl. the zero-
  storage-call oracle), EVAL (evaluators), STATIC (engine-only template oracle).

  The models are those of the REPAIRED engine (repairs 0009–0013: `=`/`!=` on lists and JSON;
  `in` with a Boolean / name / JSON left operand; static argument types of substr/split/join at
  plan time; aggregates outside the places the aggregation plan looks at; select fields checked
  before the filter).  Each repair is a counter-example of the statements below on the code before it.

  FIRST HALF   `fault_rejected`, `reject_before_storage`, `faulty_statement_touches_nothing`
  SECOND HALF  `check_sound` (checker ⊆ README typing, with the exact side condition),
               `accepted_*` (composition with progress: no operand-type error),
               `check_complete_partial` (README typing ⊆ checker on a core sub-language)
-/
import Kvql.Proofs.TypingFaultAll
import Kvql.Proofs.TypingComplete
import Kvql.Proofs.TypingAcceptedFull

namespace Kvql.Properties.C14

open Kvql Kvql.Generated Kvql.PlanCheck Kvql.Parser Kvql.Storage Kvql.Proofs.Typing

/-! ### first half -/

/-- A statement with a statically detectable fault — an operator applied to operand types it does
    not support (`RootFault`: the README operator table, `in`, `between`), `!` on a non-Boolean, a
    filter that is not Boolean, `key` / `value` where the statement form forbids them, an unknown
    function or a wrong argument count — at any position (`Ctxt`: under `!`, under any binary
    operator, in a function argument, an IN list, a BETWEEN bound, a field-access operand) of the
    filter of a SELECT or DELETE, of a select field, of a PUT key or value, of a REMOVE key
    (`Faulty`), is rejected by what `BuildPlan` decides before it touches the storage. -/
theorem fault_rejected (pf : Bytes → F64) (toks : Toks) (h : Faulty pf toks) :
    Rejects (planStage pf toks) :=
  Kvql.Proofs.Typing.fault_rejected h

/-- Whatever `planStage` does not accept leaves the call log empty and the store untouched —
    for every store, fault index, iteration mode and batch size: `planStage` is a function of the
    token list alone, and the plan layer (whose `Init` issues the first storage call) is only
    started from its `ok` result. -/
theorem reject_before_storage (compile : Stmt → Plans.Stmt) (pf : Bytes → F64) (toks : Toks)
    (kind : Plans.PollKind) (bs : Nat) (fault : Option Nat) (store : Store)
    (h : Rejects (planStage pf toks)) :
    (runQuery compile pf toks kind bs fault store).1 = none ∧
    (runQuery compile pf toks kind bs fault store).2.log = [] ∧
    (runQuery compile pf toks kind bs fault store).2.store = store :=
  Kvql.Proofs.Typing.reject_before_storage compile pf toks kind bs fault store h

/-- the two together: a faulty statement issues no storage call, whatever the store contains -/
theorem faulty_statement_touches_nothing (compile : Stmt → Plans.Stmt) (pf : Bytes → F64) (toks : Toks)
    (kind : Plans.PollKind) (bs : Nat) (fault : Option Nat) (store : Store) (h : Faulty pf toks) :
    (runQuery compile pf toks kind bs fault store).2.log = [] ∧
    (runQuery compile pf toks kind bs fault store).2.store = store :=
  (reject_before_storage compile pf toks kind bs fault store (fault_rejected pf toks h)).2

/-- rejection propagates outward through every context: "the checker recurses everywhere" -/
theorem rejection_propagates (ctx : CheckCtx) (c : Ctxt) (e : Expr) (h : Rejects (ctx.check e)) :
    Rejects (ctx.check (plug c e)) :=
  plug_rejects ctx c e h

/-! instances -/

def pf0 : Bytes → F64 := fun _ => F64.zero

/-- the tokens of `where !(key ^= 1)` -/
def tWhere : Token := ⟨tkWHERE, asciiBytes "where", 0⟩
def restNot : Toks := [⟨tkOPERATOR, asciiBytes "!", 6⟩, ⟨tkLPAREN, asciiBytes "(", 7⟩,
  ⟨tkKEY, asciiBytes "key", 8⟩, ⟨tkOPERATOR, asciiBytes "^=", 12⟩, ⟨tkNUMBER, asciiBytes "1", 15⟩,
  ⟨tkRPAREN, asciiBytes ")", 16⟩]
example : Lexer.split (asciiBytes "where !(key ^= 1)") = tWhere :: restNot := by decide

/-- `where !(key ^= 1)` — `^=` applied to a number, under `!` (accepted before repair 0003) —
    is `Faulty`, hence rejected, hence touches nothing -/
theorem faulty_not_prefix : Faulty pf0 (tWhere :: restNot) :=
  Faulty.bareWhere tWhere restNot []
    (plug (.notC 6 .hole) (.binop 12 .prefixMatch (.field 8 .key) (Expr.newNumber 15 [49])))
    (by decide) (by decide) (by rfl)
    (ExprFault.hole _ _ (.root (.opMismatch _ _ _ _ (by decide) (by decide) (by decide) (by decide) (by decide))))

example : Rejects (planStage pf0 (tWhere :: restNot)) := fault_rejected pf0 _ faulty_not_prefix

/-- `select nosuch(key) where key = 'a'` — an unknown function in a select field (found only at
    execution before repair 26aa0c9) -/
def tSel : Token := ⟨tkSELECT, asciiBytes "select", 0⟩
def restNosuch : Toks := [⟨tkNAME, asciiBytes "nosuch", 7⟩, ⟨tkLPAREN, asciiBytes "(", 13⟩,
  ⟨tkKEY, asciiBytes "key", 14⟩, ⟨tkRPAREN, asciiBytes ")", 17⟩, ⟨tkWHERE, asciiBytes "where", 19⟩,
  ⟨tkKEY, asciiBytes "key", 25⟩, ⟨tkOPERATOR, asciiBytes "=", 29⟩, ⟨tkSTRING, asciiBytes "a", 31⟩]
def fldNosuch : Expr := .call 7 (.name 7 (asciiBytes "nosuch")) [.field 14 .key]

theorem faulty_unknown_function : Faulty pf0 (tSel :: restNosuch) :=
  Faulty.selectField tSel restNosuch 0 ⟨false, [fldNosuch], [asciiBytes "nosuch(KEY)"], [tyTUNKNOWN]⟩
    ⟨tkWHERE, asciiBytes "where", 19⟩
    [⟨tkKEY, asciiBytes "key", 25⟩, ⟨tkOPERATOR, asciiBytes "=", 29⟩, ⟨tkSTRING, asciiBytes "a", 31⟩]
    0 (asciiBytes "nosuch(KEY)") (plug .hole fldNosuch)
    (by decide) (by decide) (by rfl) (by rfl)
    (ExprFault.badCall .hole 7 (.name 7 (asciiBytes "nosuch")) [.field 14 .key] (by decide))

example (compile : Stmt → Plans.Stmt) (store : Store) :
    (runQuery compile pf0 (tSel :: restNosuch) .batch 32 none store).2.log = [] :=
  (faulty_statement_touches_nothing compile pf0 _ .batch 32 none store faulty_unknown_function).1

/-! ### second half -/

/-- SOUNDNESS of the checker for the README typing.  If `Check` accepts `e` (a tree of the parser)
    in a context whose select fields are sound (`TblSound`; vacuous without a select list), every
    call of the result `e'` passes the plan-time validation, and `e'` stays within `sideOk` —
    the exact list of places where the engine's rules are laxer than the README: dynamically typed
    field access (`x['f']`, `x[n]`: exempt in C14), the argument types of functions (the engine
    converts any argument), the element kind of a list-valued call after `in` (the engine has one
    list type), names that are no alias (evaluated as their own text) — then `e'` is well-kinded
    by `kindOf`, its kind is the engine's static `ReturnType()`, and the checker's own type
    computation yields that type. -/
theorem check_sound (ctx : CheckCtx) (ht : TblSound ctx) (e e' : Expr) (hrf : refFree e = true)
    (h : ctx.check e = .ok e') (hc : callsOk e') (hs : sideOk e' = true) :
    ∃ k, kindOf e' = some k ∧ k.code = e'.retType ∧ ctx.rt e' = .ok k.code :=
  Kvql.Proofs.Typing.check_sound ctx ht e e' hrf h hc hs

/-- … for an accepted tree without alias references no assumption on the select list or on the
    input is needed -/
theorem check_sound_refFree (ctx : CheckCtx) (e e' : Expr)
    (h : ctx.check e = .ok e') (hc : callsOk e') (hs : sideOk e' = true) (hrf' : refFree e' = true) :
    ∃ k, kindOf e' = some k ∧ k.code = e'.retType ∧ ctx.rt e' = .ok k.code :=
  check_sound_out_refFree ctx e e' h hc hs hrf'

/-- instance: `strlen(key) + 2 > 1 & !(value ^= 'a')` satisfies every hypothesis of `check_sound` -/
example : ({} : CheckCtx).check exampleExpr = .ok exampleExpr := by rfl
example : callsOk exampleExpr := by unfold callsOk; rfl
example : refFree exampleExpr = true ∧ sideOk exampleExpr = true ∧ kindOf exampleExpr = some .bool := by decide

/-- ACCEPTED ⇒ NO OPERAND-TYPE ERROR, filter of a SELECT: for a statement `BuildPlan` accepts, the
    WHERE expression — without alias references, within `sideOk` — evaluated on any pair
    (`Execute`) or any chunk (`ExecuteBatch`), cache off, never fails with an operand-type error
    and yields Booleans. -/
theorem accepted_select_where_partial (pf : Bytes → F64) (toks : Toks) (s : SelectS)
    (h : planStage pf toks = .ok (.select s))
    (ha : aliasFree s.where_ = true) (hs : sideOk s.where_ = true) : NoOperandTypeError s.where_ .bool :=
  Kvql.Proofs.Typing.accepted_select_where toks s h ha hs

/-- … every select field that is not an aggregate yields values of its static type -/
theorem accepted_select_field_partial (pf : Bytes → F64) (toks : Toks) (s : SelectS)
    (h : planStage pf toks = .ok (.select s))
    (f : Expr) (hf : f ∈ s.fields) (ha : aliasFree f = true) (hs : sideOk f = true)
    (hn : noSiteAggr f = true) : ∃ k, k.code = f.retType ∧ NoOperandTypeError f k :=
  Kvql.Proofs.Typing.accepted_select_field toks s h f hf ha hs hn

/-- … the filter of a DELETE (no select list: no hypothesis about alias references) -/
theorem accepted_delete_where (pf : Bytes → F64) (toks : Toks) (pos wpos : Nat) (w : Expr)
    (lim : Option LimitS) (h : planStage pf toks = .ok (.delete pos wpos w lim))
    (hs : sideOk w = true) : NoOperandTypeError w .bool :=
  accepted_delete_where_full toks pos wpos w lim h hs

/-- … the filter of a statement without select list (`where …`) -/
theorem accepted_bare_where (pf : Bytes → F64) (toks : Toks) (s : SelectS)
    (h : planStage pf toks = .ok (.select s)) (hnf : s.fields = [])
    (hs : sideOk s.where_ = true) : NoOperandTypeError s.where_ .bool :=
  accepted_bare_where_full toks s h hnf hs

/-- the trees the parser hands to `Check` contain no alias reference: the hypothesis `refFree e`
    of `check_sound` holds for every parsed expression -/
theorem parsed_refFree (pf : Bytes → F64) (efuel : Nat) (ts rest : Toks) (x : Expr)
    (h : parseExpr pf efuel ts = .ok (x, rest)) : refFree x = true :=
  refFree_of_aliasFree x (parseExpr_aliasFree pf h)

/-- COMPLETENESS on a core sub-language: what the README typing allows is accepted by `Check`,
    unchanged.  Excluded (`core`; the engine is stricter there): `!…` as an operand of a
    comparison, `key`/`value` compared with itself, a literal zero divisor, an empty IN list, alias
    references; and `key` / `value` where the statement form forbids them. -/
theorem check_complete_partial (ctx : CheckCtx) (hk : ctx.notAllowKey = false) (hv : ctx.notAllowValue = false)
    (e : Expr) (k : Kind) (h : kindOf e = some k) (hc : core e = true) : ctx.check e = .ok e :=
  Kvql.Proofs.Typing.check_complete_partial ctx hk hv e k h hc

example : kindOf exampleExpr = some .bool ∧ core exampleExpr = true := by decide

end Kvql.Properties.C14
