/-
  E2EFoldVec  Constant folding against the VECTOR evaluator and against the static typing, and what that
  does to the whole-statement theorems.  Closes the component gaps recorded in E2E / E2EFields / E2EAggr /
  E2EWrite / C14Alias ("no batch analogue of C04", "folding preserves kinds").

  Models (unchanged): `Fold.optimize` / `optimizeNode` (expression_optimizer.go), `execBatch`
  (expression_exec_vec.go), `kindOf` (the README typing of C14), `Run.runQuery`.
  Lemmas: Kvql/Proofs/FoldVec*.lean.  ONE induction over the optimizer (Proofs/FoldVecGen.lean: an
  abstract pair of relations closed under the rewriting steps) is instantiated five times: row values
  (C04 itself), BATCH values, KINDS, the static side condition `vecOk`, and "folding never looks into an
  alias reference"; ONE induction over re-pointing (Proofs/FoldVecRes.lean) lifts each of them from
  expressions to the folded statement.

  (a) THE BATCH ANALOGUE OF C04 — `fold_preserves_batch`: for every tree `e` and every NON-EMPTY chunk, cache
      off: where `ExecuteBatch e` succeeds with the column `vs`, `ExecuteBatch (Optimize e)` succeeds with a
      column that is `vs` value by value — the same value, or the same text as `[]byte` where the un-folded
      tree yields a Go string (`Kvql.Rel`, as in C04) — and the context is untouched.  NO static side
      condition (not even `vecOk`), no typing, every node kind and function.  As in C04 the direction is
      original ⇒ folded only: `X & false => false` succeeds where `X` fails.  `fold_preserves_batch_where`
      (Boolean columns: identical), `_node` (the node alias references point at), `fold_preserves_vecOk`,
      one lemma per rewrite (`foldBinary_ok_batch`, `foldCall_ok_batch`, `andOr_simplify_ok_batch`,
      `reassociate_ok_batch`).
  (b) FOLDING PRESERVES KINDS — `fold_preserves_static_kind`: `kindOf e = some k ⇒ kindOf (Optimize e) = some k`
      (and for the node).  Hence C14's soundness holds for the folded trees the plans evaluate:
      `folded_no_operand_type_error`, `accepted_folded_where_kind` / `_field_kind` (alias references
      allowed: folding never looks into one).  END TO END over `runQuery`:
      `run_no_operand_type_error`  an accepted non-aggregate SELECT without alias references (`afStmt`),
          within `sideOkD` / `noSiteAggr` (the side conditions of C14Alias), NEVER ends with
          `exec "operand-type"` nor with `exec "where-not-bool"`: row mode on every store, batch mode on
          every sorted store, every batch size ≥ 1, field cache on or off;
      `run_no_operand_type_error_alias_partial`  with alias references: the same, judged on the FOLDED
          statement (decidable: `aliasOKb s f`, and the kinds of the folded, re-pointed trees);
      `run_delete_no_operand_type_error`  an accepted DELETE within `sideOk`: both polling modes.
  (c) RE-POINTING AFTER FOLDING — `folded_statement_refines_parsed`: for an accepted SELECT the folded
      statement of `Run.foldSelect` (WHERE and fields folded, every alias reference — nested ones included —
      re-pointed at the folded node of its field by `Parser.resolveTop`) has, WHERE against WHERE and field
      against field, the row values, the batch values, the kinds and the `vecOk` of the parsed statement.
      Side condition `plainStmt` (decidable): alias references as operands of binary operators, under `!`,
      as call arguments, nested in copies — not inside an IN / BETWEEN list or under a field access.
      Lifts, judged on the PARSED WHERE and fields: `run_fields_correct_alias_parsed_partial` (E2EFields
      `run_fields_correct_alias_partial` / `run_fields_order_limit_alias_partial`),
      `run_fields_batch_alias_parsed_partial`, `run_no_operand_type_error_alias_parsed_partial`.  They keep
      `aliasOKb s f` (the alias hypotheses of C05 on the folded statement), which is NOT a consequence of
      acceptance: in `select 'a'+'b' as x, x` the field is folded to a `[]byte` literal while the node the
      reference points at still yields a Go string.
  (d) THE BATCH-MODE STATEMENT THEOREMS JUDGED ON THE PARSED STATEMENT (hypotheses `vecOk` and "the vector
      evaluator is defined on every stored pair" now on `s.where_` / `s.fields`, not on the folded trees;
      still `_partial`: batch mode evaluates both operands of `&` / `|`, so "defined" cannot be derived
      from the row evaluator or the reference):
      `run_star_modes_agree_parsed_partial`, `run_star_limit_parsed_partial` (E2E (b)),
      `run_fields_batch_parsed_partial`, `run_fields_modes_agree_parsed_partial` (E2EFields, alias-free),
      `run_aggr_modes_agree_parsed_partial` (E2EAggr (3): the WHERE on the parsed statement).
-/
import Kvql.Proofs.FoldVecRunAlias
import Kvql.Properties.E2EFields
import Kvql.Properties.E2EAggr
import Kvql.Properties.C14Alias

namespace Kvql.Properties.E2EFoldVec
open Kvql Kvql.Run Kvql.Plans Kvql.Storage Kvql.Generated Kvql.Proofs.Typing Kvql.Proofs.RunFields
open Kvql.Proofs.FoldVecRun Kvql.Fold
open Kvql.PlanCheck (planStage finalPlanCheck)

/-! ## (a) folding preserves the batch value -/

/-- **THE BATCH ANALOGUE OF C04.**  `Optimize()` returns `e'` for `e`; the chunk is not empty; the context
    has the field cache off (nil context included); `ExecuteBatch e` succeeds on the chunk with the column
    `vs`.  Then the context is untouched and `ExecuteBatch e'` succeeds on the chunk with a column `vs'`
    of the same length whose i-th value is `Rel`-related to the i-th value of `vs`. -/
theorem fold_preserves_batch {e e' : Expr} (h : Fold.optimize e = .ok e') {chunk : List Pair} (hne : chunk ≠ [])
    {c c' : Ctx} (hc : c.enable = false) {vs : List Value} (hv : execBatch e chunk c = (.ok vs, c')) :
    c' = c ∧ ∃ vs', execBatch e' chunk c = (.ok vs', c) ∧ Rows (fun v' v => Rel v' v) vs' vs :=
  (Fold.optimize_semB h).chunk hne hc hv

/-- … of the same kind: integer, float, Boolean unchanged; text the same bytes (`Value.norm` only
    identifies the two text kinds) -/
theorem fold_preserves_batch_kind {e e' : Expr} (h : Fold.optimize e = .ok e') {chunk : List Pair} (hne : chunk ≠ [])
    {c c' : Ctx} (hc : c.enable = false) {vs : List Value} (hv : execBatch e chunk c = (.ok vs, c')) :
    ∃ vs', execBatch e' chunk c = (.ok vs', c) ∧ vs'.map Value.norm = vs.map Value.norm := by
  obtain ⟨_, vs', h1, h2⟩ := fold_preserves_batch h hne hc hv
  refine ⟨vs', h1, ?_⟩
  clear h1 hv
  induction h2 with
  | nil => rfl
  | cons hp _ ih => simp only [List.map_cons, ih, Fold.Rel.same_kind hp]

theorem rows_rel_bool : ∀ {vs' : List Value} (bs : List Bool),
    Rows (fun v' v => Rel v' v) vs' (bs.map Value.bool) → vs' = bs.map Value.bool
  | _, [], h => by cases h; rfl
  | _, b :: bs, h => by
    cases h with
    | cons hp hr =>
      rw [rows_rel_bool bs hr]
      rcases hp with rfl | ⟨x, _, hx⟩
      · rfl
      · cases hx

/-- a WHERE clause keeps its verdicts: a Boolean column is the SAME column -/
theorem fold_preserves_batch_where {e e' : Expr} (h : Fold.optimize e = .ok e') {chunk : List Pair} (hne : chunk ≠ [])
    {c c' : Ctx} (hc : c.enable = false) {bs : List Bool}
    (hv : execBatch e chunk c = (.ok (bs.map Value.bool), c')) :
    execBatch e' chunk c = (.ok (bs.map Value.bool), c) := by
  obtain ⟨_, vs', h1, h2⟩ := fold_preserves_batch h hne hc hv
  rw [← rows_rel_bool bs h2]; exact h1

/-- the node that was the root (the target of alias references and of `GroupByField.Expr`) is left in a
    state that has the batch value of the original too -/
theorem fold_preserves_batch_node {e n : Expr} (h : Fold.optimizeNode e = .ok n) {chunk : List Pair} (hne : chunk ≠ [])
    {c c' : Ctx} (hc : c.enable = false) {vs : List Value} (hv : execBatch e chunk c = (.ok vs, c')) :
    c' = c ∧ ∃ vs', execBatch n chunk c = (.ok vs', c) ∧ Rows (fun v' v => Rel v' v) vs' vs :=
  (Fold.optimizeNode_relB h).semB.chunk hne hc hv

/-- the static side condition of C03 `vec_eq_map` (`x in f(..)` / `x in alias` has a statically
    list-typed right operand) survives folding -/
theorem fold_preserves_vecOk {e e' : Expr} (h : Fold.optimize e = .ok e') (hv : e.vecOk = true) : e'.vecOk = true :=
  Fold.optimize_vecOk h hv

/-! ### one lemma per rewrite (on a chunk of one pair; C03 `batch_pairwise` extends them to every chunk) -/

/-- tryOptimizeBinaryOpExecute: a node whose operands are literals, replaced by the literal `k` of its
    ROW value on the empty pair -/
theorem foldBinary_ok_batch {p : Nat} {op : Op} {l r k : Expr} (hl : Fold.isLit4 l = true) (hr : Fold.isLit4 r = true)
    (h : Fold.foldBinary (.binop p op l r) = .ok (some k)) {kv : Pair} {c : Ctx} (hc : c.enable = false) {v : Value}
    (hv : execBatch (.binop p op l r) [kv] c = (.ok [v], c)) :
    ∃ v', execBatch k [kv] c = (.ok [v'], c) ∧ Rel v' v :=
  (Fold.foldBinaryB_ok hl hr h).semB kv c hc v hv

/-- tryOptimizeFunctionCall: a scalar call whose arguments are literals, replaced by the literal `k` -/
theorem foldCall_ok_batch {p : Nat} {nm : Expr} {args : List Expr} {k : Expr} (hl : args.all Fold.isLit4 = true)
    (h : Fold.foldCall (.call p nm args) = .ok (some k)) {kv : Pair} {c : Ctx} (hc : c.enable = false) {v : Value}
    (hv : execBatch (.call p nm args) [kv] c = (.ok [v], c)) :
    ∃ v', execBatch k [kv] c = (.ok [v'], c) ∧ Rel v' v :=
  (Fold.foldCallB_ok hl h).semB kv c hc v hv

/-- tryOptimizeAndOr: `true & X => X`, `X & false => false`, … — in batch mode BOTH operands are evaluated,
    so the original succeeds only if `X` does; dropping `X` is a refinement -/
theorem andOr_simplify_ok_batch (e : Expr) {kv : Pair} {c : Ctx} (hc : c.enable = false) {v : Value}
    (hv : execBatch e [kv] c = (.ok [v], c)) :
    ∃ v', execBatch (Fold.andOr e).1 [kv] c = (.ok [v'], c) ∧ Rel v' v :=
  Fold.andOrB_ok e kv c hc v hv

/-- tryReorderBinaryOp: `(x op c1) op c2 => x op (c1 op c2)` under `canReassociate` -/
theorem reassociate_ok_batch (p q : Nat) {op : Op} (hop : op = .add ∨ op = .mul) {x c1 c2 : Expr}
    (h : Fold.canReassociate op x c1 c2 = true) {kv : Pair} {c : Ctx} (hc : c.enable = false) {v : Value}
    (hv : execBatch (.binop p op (.binop q op x c1) c2) [kv] c = (.ok [v], c)) :
    ∃ v', execBatch (.binop p op x (.binop p op c1 c2)) [kv] c = (.ok [v'], c) ∧ Rel v' v :=
  (Fold.assocB_ok p q hop h).semB kv c hc v hv

/-! ### non-vacuity of (a): `(key + 'a') + 'b'` on the chunk {k1, k2} -/

def exConcat : Expr := .binop 12 .add (.binop 4 .add (.field 0 .key) (.str 6 [97])) (.str 14 [98])
def exChunk : List Pair := [⟨[107, 49], [49]⟩, ⟨[107, 50], [50]⟩]

/-- every hypothesis of `fold_preserves_batch` holds for it (`fold_total`: `Optimize()` returns a tree),
    hence the folded tree evaluates on the chunk to the same two texts -/
example : ∃ e' vs', Fold.optimize exConcat = .ok e' ∧ execBatch e' exChunk Ctx.off = (.ok vs', Ctx.off) ∧
    Rows (fun v' v => Rel v' v) vs' [.bytes [107, 49, 97, 98], .bytes [107, 50, 97, 98]] := by
  obtain ⟨e', n, hb⟩ := Kvql.Properties.C04.fold_total exConcat
  have h : Fold.optimize exConcat = .ok e' := by simp [Fold.optimize, hb, Except.map]
  have hv : execBatch exConcat exChunk Ctx.off = (.ok [.bytes [107, 49, 97, 98], .bytes [107, 50, 97, 98]], Ctx.off) := by rfl
  obtain ⟨_, vs', h1, h2⟩ := fold_preserves_batch h (by simp [exChunk]) rfl hv
  exact ⟨e', vs', h, h1, h2⟩

/-- the re-association is allowed here, and is a rewrite of this very tree -/
example : Fold.canReassociate .add (.field 0 .key) (.str 6 [97]) (.str 14 [98]) = true := by decide
example : Fold.reorder exConcat = .binop 12 .add (.field 0 .key) (.binop 12 .add (.str 6 [97]) (.str 14 [98])) := by
  simp [exConcat, Fold.reorder, Fold.isLit3, Fold.rightIsValues]
  decide
/-- `'a' + 'b'` is folded to the text literal `ab` (`foldBinary_ok_batch`) -/
example : Fold.foldBinary (.binop 12 .add (.str 6 [97]) (.str 14 [98])) = .ok (some (.str 6 [97, 98])) := by rfl
/-- `true & (key > 'a')`: the asymmetry — `tryOptimizeAndOr` hands back the right operand -/
example : (Fold.andOr (.binop 5 .and (.bool 0 [] true) (.binop 9 .gt (.field 7 .key) (.str 11 [97])))).1 =
    .binop 9 .gt (.field 7 .key) (.str 11 [97]) := by rfl

/-! ## (b) folding preserves kinds -/

/-- **FOLDING PRESERVES KINDS.**  A tree that is well-kinded by the README typing with kind `k` is
    rewritten by `Optimize()` to a tree that is well-kinded with kind `k`. -/
theorem fold_preserves_static_kind {e e' : Expr} (h : Fold.optimize e = .ok e') {k : Kind} (hk : kindOf e = some k) :
    kindOf e' = some k := Fold.optimize_kind h hk

/-- … and so is the node that was the root (alias references point at it) -/
theorem fold_node_static_kind {e n : Expr} (h : Fold.optimizeNode e = .ok n) {k : Kind} (hk : kindOf e = some k) :
    kindOf n = some k := Fold.optimizeNode_kind h hk

/-- … hence its static `ReturnType()` is still the code of that kind (`fold_node_type` of C04 for the node;
    for the returned root this needs the typing: `true & key` is rewritten to `key`) -/
theorem fold_preserves_return_type {e e' : Expr} (h : Fold.optimize e = .ok e') {k : Kind} (hk : kindOf e = some k) :
    retType e' = retType e := by
  rw [retType_of_kind e' k (fold_preserves_static_kind h hk), retType_of_kind e k hk]

/-- C14's soundness carries over to the FOLDED tree: never an operand-type error, row by row and on any
    chunk, cache off; values of kind `k` -/
theorem folded_no_operand_type_error {e e' : Expr} (h : Fold.optimize e = .ok e') {k : Kind} (hk : kindOf e = some k) :
    NoOperandTypeError e' k := noOperandTypeError_of_kind (fold_preserves_static_kind h hk)

/-- ACCEPTED ⇒ the folded filter is Boolean by the README typing (alias references allowed: `Optimize()`
    never looks into one, `kindOf` types a reference through the copy it carries) -/
theorem accepted_folded_where_kind (pf : Bytes → F64) (toks : Toks) (s : SelectS)
    (hplan : planStage pf toks = .ok (.select s)) (hs : sideOkD s.where_ = true) {fw : Expr}
    (hfw : Fold.optimize s.where_ = .ok fw) : kindOf fw = some .bool ∧ NoOperandTypeError fw .bool := by
  have hk := fold_preserves_static_kind hfw (accepted_select_where_kind_alias hplan hs)
  exact ⟨hk, noOperandTypeError_of_kind hk⟩

/-- … and every folded select field that is not an aggregate keeps its kind, which is its static type -/
theorem accepted_folded_field_kind (pf : Bytes → F64) (toks : Toks) (s : SelectS)
    (hplan : planStage pf toks = .ok (.select s)) (e : Expr) (he : e ∈ s.fields) (hs : sideOkD e = true)
    (hn : noSiteAggr e = true) {e' : Expr} (hopt : Fold.optimize e = .ok e') :
    ∃ k, kindOf e' = some k ∧ k.code = e.retType ∧ NoOperandTypeError e' k := by
  obtain ⟨k, hk, hc⟩ := accepted_select_field_kind_alias hplan e he hs hn
  have hk' := fold_preserves_static_kind hopt hk
  exact ⟨k, hk', hc, noOperandTypeError_of_kind hk'⟩

/-- **ACCEPTED ⇒ NO OPERAND-TYPE FAILURE, END TO END** (statements without alias references).
    The text is accepted by `planStage` as the non-aggregate SELECT `s`; neither its WHERE nor its fields
    carry an alias reference (`afStmt`, decidable); WHERE and fields stay within `sideOkD`, no field is an
    aggregate call site (`noSiteAggr`) — the side conditions of C14Alias.  Then, in row mode on EVERY store
    and in batch mode on every sorted store, at every batch size ≥ 1, field cache on or off, the statement
    does not end with the failure class `operand-type`, nor with `where-not-bool`. -/
theorem run_no_operand_type_error (query : Bytes) (pf : Bytes → F64) (s : SelectS)
    (hplan : planStage pf (Lexer.split query) = .ok (.select s)) (hnoaggr : finalPlanCheck s = .ok false)
    (haf : afStmt s = true) (hsw : sideOkD s.where_ = true)
    (hsf : ∀ e ∈ s.fields, sideOkD e = true ∧ noSiteAggr e = true)
    (store : Store) (kind : PollKind) (hk : kind = .next ∨ store.Sorted) (bs : Nat) (hbs : 1 ≤ bs) (cache : Bool) :
    (runQuery query pf store kind bs cache).fail ≠ some (.exec "operand-type") ∧
    (runQuery query pf store kind bs cache).fail ≠ some (.exec "where-not-bool") := by
  rw [runQuery_stmt query pf store kind bs cache hplan]
  exact ⟨fun h => runStmt_no_ot_af hplan hnoaggr haf hsw hsf store kind hk bs hbs cache _ h (.inl rfl),
    fun h => runStmt_no_ot_af hplan hnoaggr haf hsw hsf store kind hk bs hbs cache _ h (.inr rfl)⟩

/-- the kinds of the folded statement as a check: the folded, re-pointed WHERE is Boolean and every folded
    select field is well-kinded -/
def foldedKindsB (s : SelectS) (f : FoldedSelect) : Bool :=
  (kindOf f.where_ == some .bool) && (selFields s f).all (fun g => (kindOf g.expr).isSome)

/-- **… with alias references — partial**: judged on the FOLDED statement `f` (`foldSelect s = ok f`: the
    trees the plan evaluates, alias references re-pointed at the folded field nodes): `aliasOKb s f` (the
    alias hypotheses of C05, decidable) and `foldedKindsB s f` (decidable), no restriction on where the
    references sit.  `run_no_operand_type_error_alias_parsed_partial` (section (c)) DERIVES `foldedKindsB` from
    acceptance for statements within `plainStmt`. -/
theorem run_no_operand_type_error_alias_partial (query : Bytes) (pf : Bytes → F64) (s : SelectS)
    (hplan : planStage pf (Lexer.split query) = .ok (.select s)) (hnoaggr : finalPlanCheck s = .ok false)
    (f : FoldedSelect) (hf : foldSelect s = .ok f) (hA : aliasOKb s f = true) (hK : foldedKindsB s f = true)
    (store : Store) (kind : PollKind) (hk : kind = .next ∨ store.Sorted) (bs : Nat) (hbs : 1 ≤ bs) (cache : Bool) :
    (runQuery query pf store kind bs cache).fail ≠ some (.exec "operand-type") ∧
    (runQuery query pf store kind bs cache).fail ≠ some (.exec "where-not-bool") := by
  rw [runQuery_stmt query pf store kind bs cache hplan]
  simp only [foldedKindsB, Bool.and_eq_true, beq_iff_eq, List.all_eq_true] at hK
  have hkf : ∀ g ∈ selFields s f, ∃ k, kindOf g.expr = some k := fun g hg => Option.isSome_iff_exists.mp (hK.2 g hg)
  exact ⟨fun h => runStmt_no_ot_of_kinds hnoaggr hf (aliasOK_of_check hA) hK.1 hkf store kind hk bs hbs cache _ h (.inl rfl),
    fun h => runStmt_no_ot_of_kinds hnoaggr hf (aliasOK_of_check hA) hK.1 hkf store kind hk bs hbs cache _ h (.inr rfl)⟩

/-- **DELETE**: the text is accepted as `delete where w [limit …]`, `w` within `sideOk` (a DELETE has no
    alias references).  In either polling mode (the filter goes through `ExecuteBatch` in both), at every
    batch size, cache on or off, on every store, the statement does not end with `operand-type` nor with
    `where-not-bool`. -/
theorem run_delete_no_operand_type_error (query : Bytes) (pf : Bytes → F64) (pos wpos : Nat) (w : Expr)
    (lim : Option LimitS) (hplan : planStage pf (Lexer.split query) = .ok (.delete pos wpos w lim))
    (hside : sideOk w = true) (store : Store) (kind : PollKind) (bs : Nat) (cache : Bool) :
    (runQuery query pf store kind bs cache).fail ≠ some (.exec "operand-type") ∧
    (runQuery query pf store kind bs cache).fail ≠ some (.exec "where-not-bool") := by
  rw [runQuery_stmt query pf store kind bs cache hplan]
  exact ⟨fun h => runStmt_delete_no_ot hplan hside store kind bs cache _ h (.inl rfl),
    fun h => runStmt_delete_no_ot hplan hside store kind bs cache _ h (.inr rfl)⟩

/-! ### non-vacuity of (b) -/

/-- `int(value) + (1 + 1) > 3`: Boolean; its folded form too -/
def exFoldable : Expr :=
  .binop 20 .gt (.binop 11 .add (.call 0 (.name 0 (asciiBytes "int")) [.field 4 .value])
    (.binop 15 .add (.num 13 [49] 1) (.num 17 [49] 1))) (.num 22 [51] 3)

example : ∃ e', Fold.optimize exFoldable = .ok e' ∧ kindOf e' = some .bool ∧ NoOperandTypeError e' .bool := by
  obtain ⟨e', n, hb⟩ := Kvql.Properties.C04.fold_total exFoldable
  have h : Fold.optimize exFoldable = .ok e' := by simp [Fold.optimize, hb, Except.map]
  have hk : kindOf exFoldable = some .bool := by decide
  exact ⟨e', h, fold_preserves_static_kind h hk, folded_no_operand_type_error h hk⟩

/-- (a) again, on `exFoldable` over the chunk {k1=1, k2=2}: the hypotheses of `fold_preserves_batch_where`,
    `_kind`, `_node` and `fold_preserves_vecOk` hold, hence the folded tree and the folded node give the same
    verdicts `[false, true]` and are `vecOk` -/
example : ∃ e' n, Fold.optimize exFoldable = .ok e' ∧ Fold.optimizeNode exFoldable = .ok n ∧ e'.vecOk = true ∧
    execBatch e' exChunk Ctx.off = (.ok [.bool false, .bool true], Ctx.off) ∧
    (∃ vs', execBatch e' exChunk Ctx.off = (.ok vs', Ctx.off) ∧
      vs'.map Value.norm = [Value.bool false, Value.bool true].map Value.norm) ∧
    (∃ vs', execBatch n exChunk Ctx.off = (.ok vs', Ctx.off) ∧
      Rows (fun v' v => Rel v' v) vs' [.bool false, .bool true]) := by
  obtain ⟨e', n, hb⟩ := Kvql.Properties.C04.fold_total exFoldable
  have h : Fold.optimize exFoldable = .ok e' := by simp [Fold.optimize, hb, Except.map]
  have hn : Fold.optimizeNode exFoldable = .ok n := by simp [Fold.optimizeNode, hb, Except.map]
  have hne : exChunk ≠ [] := by simp [exChunk]
  have hv : execBatch exFoldable exChunk Ctx.off = (.ok ([false, true].map Value.bool), Ctx.off) := by rfl
  have hok : exFoldable.vecOk = true := by decide
  obtain ⟨_, vs', n1, n2⟩ := fold_preserves_batch_node hn hne rfl hv
  exact ⟨e', n, h, hn, fold_preserves_vecOk h hok, fold_preserves_batch_where h hne rfl hv,
    fold_preserves_batch_kind h hne rfl hv, vs', n1, n2⟩

/-- `foldCall_ok_batch`: `upper('a')` is folded to the text literal `A` -/
example : Fold.foldCall (.call 0 (.name 0 (asciiBytes "upper")) [.str 6 [97]]) = .ok (some (.str 0 [65])) := by rfl

/-- `reassociate_ok_batch` and `andOr_simplify_ok_batch` applied to concrete trees on the pair (k1, 1) -/
example : ∃ v', execBatch (.binop 12 .add (.field 0 .key) (.binop 12 .add (.str 6 [97]) (.str 14 [98]))) [⟨[107, 49], [49]⟩]
    Ctx.off = (.ok [v'], Ctx.off) ∧ Rel v' (.bytes [107, 49, 97, 98]) :=
  reassociate_ok_batch 12 4 (.inl rfl) (x := .field 0 .key) (c1 := .str 6 [97]) (c2 := .str 14 [98]) (by decide) rfl
    (by rfl)
example : ∃ v', execBatch (Fold.andOr (.binop 5 .and (.bool 0 [] true) (.binop 9 .gt (.field 7 .key) (.str 11 [97])))).1
    [⟨[107, 49], [49]⟩] Ctx.off = (.ok [v'], Ctx.off) ∧ Rel v' (.bool true) :=
  andOr_simplify_ok_batch _ rfl (by rfl)

def pf0 : Bytes → F64 := fun _ => F64.zero
abbrev st0 : Store := Select.exStore
theorem st0_sorted : st0.Sorted := by decide

/-- a statement whose WHERE and field are folded: `1 + 1` becomes `2` -/
def qF : Bytes := asciiBytes "select key, int(value) + (1 + 1) where key > 'a' & int(value) + (1 + 1) > 3"

/-- every hypothesis of `run_no_operand_type_error` as one check of the text (kernel evaluation of lexer,
    parser, checker, plan-time validation) -/
theorem qF_hyps : stmtCheck (fun s => noAggrB s && afStmt s && sideOkD s.where_ &&
    s.fields.all (fun e => sideOkD e && noSiteAggr e)) (planStage pf0 (Lexer.split qF)) = true := by decide +kernel

example (store : Store) (hs : store.Sorted) :
    (runQuery qF pf0 store .next 3 true).fail ≠ some (.exec "operand-type") ∧
    (runQuery qF pf0 store .batch 2 true).fail ≠ some (.exec "operand-type") := by
  obtain ⟨s, hplan, h⟩ := stmtCheck_sound qF_hyps
  simp only [Bool.and_eq_true, List.all_eq_true] at h
  obtain ⟨⟨⟨h1, h2⟩, h3⟩, h4⟩ := h
  exact ⟨(run_no_operand_type_error qF pf0 s hplan (noAggrB_sound h1) h2 h3 h4 store .next (.inl rfl) 3 (by decide) true).1,
    (run_no_operand_type_error qF pf0 s hplan (noAggrB_sound h1) h2 h3 h4 store .batch (.inr hs) 2 (by decide) true).1⟩

/-- `accepted_folded_where_kind` / `accepted_folded_field_kind` on `qF`: whatever `Optimize()` returns for its
    filter is Boolean, for each of its fields well-kinded -/
example : ∃ s, planStage pf0 (Lexer.split qF) = .ok (.select s) ∧
    (∃ fw, Fold.optimize s.where_ = .ok fw ∧ kindOf fw = some .bool) ∧
    (∀ e ∈ s.fields, ∃ e' k, Fold.optimize e = .ok e' ∧ kindOf e' = some k ∧ k.code = e.retType) := by
  obtain ⟨s, hplan, h⟩ := stmtCheck_sound qF_hyps
  simp only [Bool.and_eq_true, List.all_eq_true] at h
  obtain ⟨⟨⟨_, _⟩, h3⟩, h4⟩ := h
  refine ⟨s, hplan, ?_, fun e he => ?_⟩
  · obtain ⟨fw, n, hb⟩ := Kvql.Properties.C04.fold_total s.where_
    have hfw : Fold.optimize s.where_ = .ok fw := Kvql.Proofs.Run.optimize_of_both hb
    exact ⟨fw, hfw, (accepted_folded_where_kind pf0 _ s hplan h3 hfw).1⟩
  · obtain ⟨e', n, hb⟩ := Kvql.Properties.C04.fold_total e
    have hopt : Fold.optimize e = .ok e' := Kvql.Proofs.Run.optimize_of_both hb
    obtain ⟨k, hk, hc, _⟩ := accepted_folded_field_kind pf0 _ s hplan e he (h4 e he).1 (h4 e he).2 hopt
    exact ⟨e', k, hopt, hk, hc⟩

/-- `select key as k, value where k > 'a'` (E2EFields `qK`): an alias reference; the hypotheses of
    `run_no_operand_type_error_alias_partial` hold for its folded form `kF` -/
example : (runQuery E2EFields.qK pf0 st0 .batch 2 true).fail ≠ some (.exec "operand-type") := by
  obtain ⟨s, hplan, _, _, _, h4, _, hf, hA, _, hn⟩ := E2EFields.qK_inv
  have hK : foldedKindsB s E2EFields.kF = true := by
    have : foldedKindsB E2EFields.kS E2EFields.kF = true := by decide
    unfold foldedKindsB selFields at this ⊢
    rw [hn]; exact this
  exact (run_no_operand_type_error_alias_partial E2EFields.qK pf0 s hplan h4 E2EFields.kF hf hA hK st0 .batch
    (.inr st0_sorted) 2 (by decide) true).1

/-- a DELETE: `delete where key > 'a' & int(value) + (1 + 1) > 3` -/
def qD : Bytes := asciiBytes "delete where key > 'a' & int(value) + (1 + 1) > 3"

theorem qD_hyps : (match planStage pf0 (Lexer.split qD) with
    | .ok (.delete _ _ w _) => sideOk w
    | _ => false) = true := by decide +kernel

example (store : Store) : (runQuery qD pf0 store .next 2 false).fail ≠ some (.exec "operand-type") := by
  have h := qD_hyps
  split at h
  · rename_i pos wpos w lim hplan
    exact (run_delete_no_operand_type_error qD pf0 pos wpos w lim hplan h store .next 2 false).1
  · cases h

/-! ## (d) the batch-mode statement theorems, judged on the parsed statement -/

/-- **E2E (b), `select *`, judged on the PARSED WHERE — partial.**  As E2E `run_star_modes_agree_partial`
    with `vecOk` and "the vector evaluator yields a Boolean on every stored pair (as a chunk of its own)"
    asked of the WHERE the user wrote, not of its folded form; the rows are the stored pairs the row
    evaluator accepts under the PARSED WHERE.  Still partial: that hypothesis is genuinely about the vector
    evaluator (it evaluates both operands of `&` / `|`). -/
theorem run_star_modes_agree_parsed_partial (query : Bytes) (pf : Bytes → F64) (s : SelectS)
    (hplan : planStage pf (Lexer.split query) = .ok (.select s))
    (hstar : s.allFields = true) (hord : s.order = none) (hlim : s.limit = none)
    (hnoaggr : finalPlanCheck s = .ok false) (haf : aliasFree s.where_ = true)
    (store : Store) (hs : store.Sorted) (hok : s.where_.vecOk = true)
    (hbatch : ∀ p ∈ store, ∃ b, (execBatch s.where_ [⟨p.1, p.2⟩] Ctx.off).1 = .ok [.bool b])
    (bs bs' : Nat) (hbs : 1 ≤ bs) (hbs' : 1 ≤ bs') (cache cache' : Bool) :
    (runQuery query pf store .batch bs cache).fail = none ∧
    (runQuery query pf store .next bs' cache').fail = none ∧
    (runQuery query pf store .next bs' cache').rows = (runQuery query pf store .batch bs cache).rows ∧
    (runQuery query pf store .batch bs cache).rows = (store.filter (Select.accepted s.where_)).map pairRow ∧
    (runQuery query pf store .next bs' cache').world.store = store ∧
    (runQuery query pf store .batch bs cache).world.store = store := by
  obtain ⟨fw, n, hb⟩ := Kvql.Properties.C04.fold_total s.where_
  have hfw := Kvql.Proofs.Run.optimize_of_both hb
  obtain ⟨h1, h2, h3⟩ := where_batch_fold hfw hok hbatch
  obtain ⟨r1, r2, r3, r4, r5, r6⟩ := E2E.run_star_modes_agree_partial query pf s hplan hstar hord hlim hnoaggr haf
    store hs fw hfw h1 h2 bs bs' hbs hbs' cache cache'
  refine ⟨r1, r2, r3, ?_, r5, r6⟩
  rw [r4, List.filter_congr h3]

/-- **E2E (b), `select * … limit s, n`, judged on the parsed WHERE — partial.** -/
theorem run_star_limit_parsed_partial (query : Bytes) (pf : Bytes → F64) (s : SelectS)
    (hplan : planStage pf (Lexer.split query) = .ok (.select s))
    (hstar : s.allFields = true) (hord : s.order = none) (l : LimitS) (hlim : s.limit = some l)
    (hnoaggr : finalPlanCheck s = .ok false) (haf : aliasFree s.where_ = true)
    (store : Store) (hs : store.Sorted) (hok : s.where_.vecOk = true)
    (hbatch : ∀ p ∈ store, ∃ b, (execBatch s.where_ [⟨p.1, p.2⟩] Ctx.off).1 = .ok [.bool b])
    (kind : PollKind) (bs : Nat) (hbs : 1 ≤ bs) (cache : Bool) :
    (runQuery query pf store kind bs cache).fail = none ∧
    (runQuery query pf store kind bs cache).rows =
      (((store.filter (Select.accepted s.where_)).map pairRow).drop l.start.toInt.toNat).take l.count.toInt.toNat := by
  obtain ⟨fw, n, hb⟩ := Kvql.Properties.C04.fold_total s.where_
  have hfw := Kvql.Proofs.Run.optimize_of_both hb
  obtain ⟨h1, h2, h3⟩ := where_batch_fold hfw hok hbatch
  obtain ⟨r1, r2⟩ := E2E.run_star_limit_partial query pf s hplan hstar hord l hlim hnoaggr haf store hs fw hfw h1 h2
    kind bs hbs cache
  exact ⟨r1, by rw [r2, List.filter_congr h3]⟩

/-- **E2EFields, batch mode, field list without alias references, judged on the PARSED statement — partial.**
    `BatchExecOK s store` (decidable, `batchExecOKb`): cache off, `ExecuteBatch` on each stored pair as a chunk
    of its own gives a Boolean for `s.where_`, and a value for every field of `s.fields` on the pairs the
    row evaluator accepts; `s.where_.vecOk`.  Then batch mode succeeds and returns — after LIMIT — one row
    per stored pair the PARSED WHERE accepts, in key order; column j of the row of `p` is the vector
    evaluator's value of parsed field j on `p`, up to `Rel` (`RowOfB`). -/
theorem run_fields_batch_parsed_partial (query : Bytes) (pf : Bytes → F64) (s : SelectS)
    (hplan : planStage pf (Lexer.split query) = .ok (.select s))
    (hnf : s.allFields = false) (hord : s.order = none) (hnoaggr : finalPlanCheck s = .ok false)
    (haf : afStmt s = true) (hnames : s.fieldNames.length = s.fields.length) (hok : s.where_.vecOk = true)
    (store : Store) (hs : store.Sorted) (hev : BatchExecOK s store) (bs : Nat) (hbs : 1 ≤ bs) (cache : Bool) :
    ∃ row : SPair → List Value,
      (∀ p ∈ store, Select.accepted s.where_ p = true → RowOfB s p (row p)) ∧
      (runQuery query pf store .batch bs cache).fail = none ∧
      (runQuery query pf store .batch bs cache).rows =
        sliceOf s.limit ((store.filter (Select.accepted s.where_)).map row) ∧
      (s.limit = none → (runQuery query pf store .batch bs cache).world.store = store) := by
  obtain ⟨f, hf⟩ := foldSelect_total s
  obtain ⟨h1, h2, h3, h4⟩ := folded_of_batchExecOK haf hf hnames hok hev
  have ho : OrderHyp s (specRowsB s f store) := by unfold OrderHyp; rw [hord]; trivial
  rw [runQuery_stmt query pf store .batch bs cache hplan]
  obtain ⟨R', r1, r2, r3, r4⟩ := runStmt_fields_rows_batch hnf hnoaggr hf (aliasOK_of_af haf hf) h1 hs h2 ho bs hbs cache
  unfold OrderedBy at r1
  rw [hord] at r1
  simp only at r1
  subst r1
  refine ⟨batchRow (selFields s f), h4, r2, ?_, r4⟩
  rw [r3]
  unfold specRowsB
  rw [List.filter_congr h3]

/-- **E2EFields, row mode and batch mode, alias-free field list without ORDER BY / LIMIT, judged on the
    PARSED statement — partial**: under the hypotheses of both modes on the parsed statement (`ExecOK`,
    `BatchExecOK`, WHERE and fields `vecOk`) both modes succeed, for the same stored pairs, with rows that
    agree column by column by content (any two batch sizes, cache on or off on either side). -/
theorem run_fields_modes_agree_parsed_partial (query : Bytes) (pf : Bytes → F64) (s : SelectS)
    (hplan : planStage pf (Lexer.split query) = .ok (.select s))
    (hnf : s.allFields = false) (hord : s.order = none) (hlim : s.limit = none)
    (hnoaggr : finalPlanCheck s = .ok false)
    (haf : afStmt s = true) (hnames : s.fieldNames.length = s.fields.length)
    (hok : s.where_.vecOk = true) (hvf : ∀ e ∈ s.fields, e.vecOk = true)
    (store : Store) (hs : store.Sorted) (hevN : ExecOK s store) (hevB : BatchExecOK s store)
    (bs bs' : Nat) (hbs : 1 ≤ bs) (hbs' : 1 ≤ bs') (cache cache' : Bool) :
    (runQuery query pf store .batch bs cache).fail = none ∧
    (runQuery query pf store .next bs' cache').fail = none ∧
    Rows (fun rb rn => Rows (fun (vb vr : Value) => Value.contentEq vb vr) rb rn)
      (runQuery query pf store .batch bs cache).rows (runQuery query pf store .next bs' cache').rows := by
  obtain ⟨f, hf⟩ := foldSelect_total s
  have hA := aliasOK_of_af haf hf
  obtain ⟨hEN, _, _⟩ := folded_of_execOK haf hf hnames hevN
  obtain ⟨hokf, hEB, _, _⟩ := folded_of_batchExecOK haf hf hnames hok hevB
  have hvf' := selFields_vecOk_af haf hf hvf
  have hoB : OrderHyp s (specRowsB s f store) := by unfold OrderHyp; rw [hord]; trivial
  have hoN : OrderHyp s (specRows s f store) := by unfold OrderHyp; rw [hord]; trivial
  rw [runQuery_stmt query pf store .batch bs cache hplan, runQuery_stmt query pf store .next bs' cache' hplan]
  obtain ⟨RB, b1, b2, b3, _⟩ := runStmt_fields_rows_batch hnf hnoaggr hf hA hokf hs hEB hoB bs hbs cache
  obtain ⟨RN, n1, n2, n3, _⟩ := runStmt_fields_rows hnf hnoaggr hf hA hs hEN hoN bs' hbs' cache'
  unfold OrderedBy at b1 n1
  rw [hord] at b1 n1
  simp only at b1 n1
  subst b1 n1
  refine ⟨b2, n2, ?_⟩
  rw [b3, n3]
  unfold sliceOf
  rw [hlim]
  exact specRows_content hvf' hEB

/-- **E2EAggr (3), the WHERE judged on the PARSED statement — partial.**  As E2EAggr
    `run_aggr_modes_agree_partial`, with the hypotheses on the filter — no alias reference, `vecOk`, the vector
    evaluator yields a Boolean on every stored pair — asked of `s.where_`, and the selection taken by the
    row evaluator under `s.where_`.  GROUP BY expressions and fields are still those of the folded
    statement `f` (the aggregate specification `E2EAggr.specRows` is stated over them). -/
theorem run_aggr_modes_agree_parsed_partial (query : Bytes) (pf : Bytes → F64) (s : SelectS)
    (hplan : planStage pf (Lexer.split query) = .ok (.select s)) (hagg : finalPlanCheck s = .ok true)
    (f : FoldedSelect) (hfold : foldSelect s = .ok f) (hord : s.order = none) (hlim : s.limit = none)
    (groups : List Expr) (hg : groupExprs s f = some groups)
    (hcov : E2EAggr.covered f.fields = true)
    (hafw : aliasFree s.where_ = true) (hafe : E2EAggr.aliasFreeAll (groups ++ f.fields) = true)
    (store : Store) (hs : store.Sorted)
    (hokw : s.where_.vecOk = true)
    (hbatchw : ∀ p ∈ store, ∃ b, (execBatch s.where_ [⟨p.1, p.2⟩] Ctx.off).1 = .ok [.bool b])
    (hokg : ∀ e ∈ groups, e.vecOk = true)
    (hbatchg : ∀ p ∈ store.filter (Select.accepted s.where_), E2EAggr.batchDefinedOn groups p = true)
    (hev : ∀ p ∈ store.filter (Select.accepted s.where_), E2EAggr.evaluableOn groups f.fields p = true)
    (out : List (List Aggr.AVal))
    (hspec : E2EAggr.specRows groups f.fields (store.filter (Select.accepted s.where_)) = .ok out)
    (kind kind' : PollKind) (bs bs' : Nat) (hbs : 1 ≤ bs) (hbs' : 1 ≤ bs') (cache cache' : Bool) :
    (runQuery query pf store kind bs cache).fail = none ∧
    (runQuery query pf store kind bs cache).rows = out.map (List.map E2EAggr.toValue) ∧
    (runQuery query pf store kind' bs' cache').rows = (runQuery query pf store kind bs cache).rows ∧
    (runQuery query pf store kind bs cache).world.store = store ∧
    (∀ e ∈ (runQuery query pf store kind bs cache).world.log, e.call.isRead = true) := by
  obtain ⟨fw, n, fs, hw, _, e1, _⟩ := foldSelect_inv hfold
  have hafw' := Kvql.Proofs.RunFold.optimizeBoth_af hafw hw
  rw [Kvql.Proofs.RunFold.resolveTop_of_af _ fw hafw'] at e1
  have hfw : Fold.optimize s.where_ = .ok f.where_ := by rw [e1]; exact Kvql.Proofs.Run.optimize_of_both hw
  obtain ⟨h1, h2, h3⟩ := where_batch_fold hfw hokw hbatchw
  have hfilter : store.filter (Select.accepted f.where_) = store.filter (Select.accepted s.where_) :=
    List.filter_congr h3
  have hafe' : E2EAggr.aliasFreeAll (f.where_ :: groups ++ f.fields) = true := by
    unfold E2EAggr.aliasFreeAll at hafe ⊢
    simp only [List.cons_append, List.all_cons, Bool.and_eq_true]
    exact ⟨by rw [e1]; exact hafw', hafe⟩
  exact E2EAggr.run_aggr_modes_agree_partial query pf s hplan hagg f hfold hord hlim groups hg hcov hafe' store hs h1 h2
    hokg (by rw [hfilter]; exact hbatchg) (by rw [hfilter]; exact hev) out (by rw [hfilter]; exact hspec)
    kind kind' bs bs' hbs hbs' cache cache'

/-! ### non-vacuity of (d) -/

/-- `select * where key > 'a' & int(value) + (1 + 1) > 3`: the hypotheses of the two `select *` theorems, on
    the PARSED statement (the WHERE is folded by the plan: `1 + 1 => 2`) -/
def qS : Bytes := asciiBytes "select * where key > 'a' & int(value) + (1 + 1) > 3"
def qSL : Bytes := asciiBytes "select * where key > 'a' & int(value) + (1 + 1) > 3 limit 1, 1"

def starParsedHyps (s : SelectS) : Bool :=
  s.allFields && s.order.isNone && noAggrB s && aliasFree s.where_ && s.where_.vecOk && batchBoolOnW s.where_ st0

theorem qS_hyps : stmtCheck (fun s => starParsedHyps s && s.limit.isNone) (planStage pf0 (Lexer.split qS)) = true := by
  decide +kernel
theorem qSL_hyps : stmtCheck (fun s => starParsedHyps s && s.limit.isSome) (planStage pf0 (Lexer.split qSL)) = true := by
  decide +kernel

example : (runQuery qS pf0 st0 .next 1 false).rows = (runQuery qS pf0 st0 .batch 2 true).rows := by
  obtain ⟨s, hplan, h⟩ := stmtCheck_sound qS_hyps
  simp only [starParsedHyps, Bool.and_eq_true, Option.isNone_iff_eq_none] at h
  obtain ⟨⟨⟨⟨⟨⟨h1, h2⟩, h3⟩, h4⟩, h5⟩, h6⟩, h7⟩ := h
  exact (run_star_modes_agree_parsed_partial qS pf0 s hplan h1 h2 h7 (noAggrB_sound h3) h4 st0 st0_sorted h5
    (batchBoolOnW_sound h6) 2 1 (by decide) (by decide) true false).2.2.1

example : (runQuery qSL pf0 st0 .batch 2 true).fail = none := by
  obtain ⟨s, hplan, h⟩ := stmtCheck_sound qSL_hyps
  simp only [starParsedHyps, Bool.and_eq_true, Option.isNone_iff_eq_none] at h
  obtain ⟨⟨⟨⟨⟨⟨h1, h2⟩, h3⟩, h4⟩, h5⟩, h6⟩, h7⟩ := h
  obtain ⟨l, hl⟩ := Option.isSome_iff_exists.mp h7
  exact (run_star_limit_parsed_partial qSL pf0 s hplan h1 h2 l hl (noAggrB_sound h3) h4 st0 st0_sorted h5
    (batchBoolOnW_sound h6) .batch 2 (by decide) true).1

/-- `qF` (field list; WHERE and field folded by the plan): the hypotheses of the two field-list theorems on
    the parsed statement -/
theorem qF_batch_hyps : stmtCheck (fun s => !s.allFields && s.order.isNone && s.limit.isNone && noAggrB s && afStmt s &&
    (s.fieldNames.length == s.fields.length) && s.where_.vecOk && s.fields.all Expr.vecOk &&
    execOKb s st0 && batchExecOKb s st0) (planStage pf0 (Lexer.split qF)) = true := by decide +kernel

example : (runQuery qF pf0 st0 .batch 2 true).fail = none ∧
    Rows (fun rb rn => Rows (fun (vb vr : Value) => Value.contentEq vb vr) rb rn)
      (runQuery qF pf0 st0 .batch 2 true).rows (runQuery qF pf0 st0 .next 1 false).rows := by
  obtain ⟨s, hplan, h⟩ := stmtCheck_sound qF_batch_hyps
  simp only [Bool.and_eq_true, Bool.not_eq_true', Option.isNone_iff_eq_none, beq_iff_eq, List.all_eq_true] at h
  obtain ⟨⟨⟨⟨⟨⟨⟨⟨⟨h1, h2⟩, h3⟩, h4⟩, h5⟩, h6⟩, h7⟩, h8⟩, h9⟩, h10⟩ := h
  obtain ⟨row, _, b2, _⟩ := run_fields_batch_parsed_partial qF pf0 s hplan h1 h2 (noAggrB_sound h4) h5 h6 h7 st0
    st0_sorted (batchExecOK_of_check h10) 2 (by decide) true
  obtain ⟨_, _, m3⟩ := run_fields_modes_agree_parsed_partial qF pf0 s hplan h1 h2 h3 (noAggrB_sound h4) h5 h6 h7 h8 st0
    st0_sorted (execOK_of_check h9) (batchExecOK_of_check h10) 2 1 (by decide) (by decide) true false
  exact ⟨b2, m3⟩

/-! ## (c) re-pointing after folding: statements with alias references, judged on the PARSED statement -/

/-- **THE FOLDED, RE-POINTED STATEMENT AGAINST THE PARSED ONE.**  `planStage` accepts the SELECT `s`;
    `plainStmt s` (decidable): every field has a name, and alias references sit as operands of binary
    operators, under `!`, as call arguments or inside the copies references carry — not inside an IN /
    BETWEEN list, not under a field access.  `foldSelect s = ok f`: WHERE and fields folded, every alias
    reference (nested ones included) re-pointed at the folded node of its field (`Parser.resolveTop`).
    Then `FoldedOf s.where_ f.where_` and, field by field, `FoldedOf s.fields[i] f.fields[i]`:
      `row`    cache off, where the parsed tree has a value under `exec`, the folded one has it (`Rel`);
      `batch`  the same under `execBatch` on one-pair chunks (hence on every non-empty chunk);
      `kind`   the README kind is kept;      `vec`  `vecOk` is kept. -/
theorem folded_statement_refines_parsed (pf : Bytes → F64) (toks : Toks) (s : SelectS)
    (hplan : planStage pf toks = .ok (.select s)) (hpl : plainStmt s = true) (f : FoldedSelect)
    (hf : foldSelect s = .ok f) : FoldedOf s.where_ f.where_ ∧ Rows FoldedOf s.fields f.fields :=
  folded_refines_parsed hplan hpl hf

/-- … spelled out for the filter: its row value and its batch value on any pair / non-empty chunk -/
theorem folded_where_refines_parsed (pf : Bytes → F64) (toks : Toks) (s : SelectS)
    (hplan : planStage pf toks = .ok (.select s)) (hpl : plainStmt s = true) (f : FoldedSelect)
    (hf : foldSelect s = .ok f) {c : Ctx} (hc : c.enable = false) :
    (∀ kv v c', exec s.where_ kv c = (.ok v, c') → ∃ v', exec f.where_ kv c = (.ok v', c') ∧ Rel v' v) ∧
    (∀ chunk vs c', chunk ≠ [] → execBatch s.where_ chunk c = (.ok vs, c') →
      c' = c ∧ ∃ vs', execBatch f.where_ chunk c = (.ok vs', c) ∧ Rows (fun v' v => Rel v' v) vs' vs) := by
  obtain ⟨hw, _⟩ := folded_refines_parsed hplan hpl hf
  exact ⟨fun kv v c' hv => Fold.sem_exec hw.row hc hv, fun chunk vs c' hne hv => hw.batch.chunk hne hc hv⟩

/-- **E2EFields (1) + (3) + (4), ROW MODE, alias references allowed, judged on the PARSED statement — partial.**
    Lifts `run_fields_correct_alias_partial` / `run_fields_order_limit_alias_partial`: the hypotheses on the
    evaluators are `ExecOK s store` (and `OrderHypParsed s store` for a sorting ORDER BY) on the PARSED WHERE and
    fields; `R'` is what ORDER BY makes of `map row` over the stored pairs the PARSED WHERE accepts, the
    statement returns the slice LIMIT asks for; column j of `row p` is the `exec` value of parsed field j on
    `p` up to `Rel` (`RowOf`).  Still partial: `aliasOKb s f` (the alias hypotheses of C05 on the folded
    statement — they can fail for an accepted statement) and `plainStmt s`. -/
theorem run_fields_correct_alias_parsed_partial (query : Bytes) (pf : Bytes → F64) (s : SelectS)
    (hplan : planStage pf (Lexer.split query) = .ok (.select s))
    (hnf : s.allFields = false) (hnoaggr : finalPlanCheck s = .ok false)
    (f : FoldedSelect) (hf : foldSelect s = .ok f) (hA : aliasOKb s f = true) (hpl : plainStmt s = true)
    (store : Store) (hs : store.Sorted) (hev : ExecOK s store) (ho : OrderHypParsed s store)
    (bs : Nat) (hbs : 1 ≤ bs) (cache : Bool) :
    ∃ (row : SPair → List Value) (R' : List (List Value)),
      (∀ p ∈ store, Select.accepted s.where_ p = true → RowOf s p (row p)) ∧
      OrderedBy s ((store.filter (Select.accepted s.where_)).map row) R' ∧
      (runQuery query pf store .next bs cache).fail = none ∧
      (runQuery query pf store .next bs cache).rows = sliceOf s.limit R' ∧
      (s.limit = none → (runQuery query pf store .next bs cache).world.store = store) := by
  obtain ⟨hE, hacc, hrows⟩ := folded_of_execOK_alias hplan hpl hf hev
  rw [runQuery_stmt query pf store .next bs cache hplan]
  obtain ⟨R', r1, r2, r3, r4⟩ := runStmt_fields_rows hnf hnoaggr hf (aliasOK_of_check hA) hs hE
    (orderHyp_of_parsed_alias hplan hpl hf hev ho) bs hbs cache
  refine ⟨fun p => (selFields s f).map (fun (g : Project.Field) => colVal g.expr p), R', hrows, ?_, r2, r3, r4⟩
  have : specRows s f store =
      (store.filter (Select.accepted s.where_)).map (fun p => (selFields s f).map (fun g => colVal g.expr p)) := by
    unfold specRows
    rw [List.filter_congr hacc]
  rw [← this]
  exact r1

/-- **E2EFields, BATCH MODE, alias references allowed, judged on the PARSED statement — partial.** -/
theorem run_fields_batch_alias_parsed_partial (query : Bytes) (pf : Bytes → F64) (s : SelectS)
    (hplan : planStage pf (Lexer.split query) = .ok (.select s))
    (hnf : s.allFields = false) (hord : s.order = none) (hnoaggr : finalPlanCheck s = .ok false)
    (f : FoldedSelect) (hf : foldSelect s = .ok f) (hA : aliasOKb s f = true) (hpl : plainStmt s = true)
    (hok : s.where_.vecOk = true)
    (store : Store) (hs : store.Sorted) (hev : BatchExecOK s store) (bs : Nat) (hbs : 1 ≤ bs) (cache : Bool) :
    ∃ row : SPair → List Value,
      (∀ p ∈ store, Select.accepted s.where_ p = true → RowOfB s p (row p)) ∧
      (runQuery query pf store .batch bs cache).fail = none ∧
      (runQuery query pf store .batch bs cache).rows =
        sliceOf s.limit ((store.filter (Select.accepted s.where_)).map row) ∧
      (s.limit = none → (runQuery query pf store .batch bs cache).world.store = store) := by
  obtain ⟨h1, h2, h3, h4⟩ := folded_of_batchExecOK_alias hplan hpl hf hok hev
  have ho : OrderHyp s (specRowsB s f store) := by unfold OrderHyp; rw [hord]; trivial
  rw [runQuery_stmt query pf store .batch bs cache hplan]
  obtain ⟨R', r1, r2, r3, r4⟩ := runStmt_fields_rows_batch hnf hnoaggr hf (aliasOK_of_check hA) h1 hs h2 ho bs hbs cache
  unfold OrderedBy at r1
  rw [hord] at r1
  simp only at r1
  subst r1
  refine ⟨batchRow (selFields s f), h4, r2, ?_, r4⟩
  rw [r3]
  unfold specRowsB
  rw [List.filter_congr h3]

/-- **ACCEPTED ⇒ NO OPERAND-TYPE FAILURE, END TO END, alias references allowed — partial.**  As
    `run_no_operand_type_error` without `afStmt`: the kinds of the folded, re-pointed trees are DERIVED from
    acceptance (C14Alias for the parsed trees, `folded_statement_refines_parsed` across folding and
    re-pointing).  Still partial: `aliasOKb s f` (needed to equate the cache-driven projection with its
    cache-free specification, C05) and `plainStmt s`. -/
theorem run_no_operand_type_error_alias_parsed_partial (query : Bytes) (pf : Bytes → F64) (s : SelectS)
    (hplan : planStage pf (Lexer.split query) = .ok (.select s)) (hnoaggr : finalPlanCheck s = .ok false)
    (hpl : plainStmt s = true) (hsw : sideOkD s.where_ = true)
    (hsf : ∀ e ∈ s.fields, sideOkD e = true ∧ noSiteAggr e = true)
    (f : FoldedSelect) (hf : foldSelect s = .ok f) (hA : aliasOKb s f = true)
    (store : Store) (kind : PollKind) (hk : kind = .next ∨ store.Sorted) (bs : Nat) (hbs : 1 ≤ bs) (cache : Bool) :
    (runQuery query pf store kind bs cache).fail ≠ some (.exec "operand-type") ∧
    (runQuery query pf store kind bs cache).fail ≠ some (.exec "where-not-bool") := by
  rw [runQuery_stmt query pf store kind bs cache hplan]
  exact ⟨fun h => runStmt_no_ot_alias hplan hnoaggr hpl hsw hsf hf (aliasOK_of_check hA) store kind hk bs hbs cache _ h (.inl rfl),
    fun h => runStmt_no_ot_alias hplan hnoaggr hpl hsw hsf hf (aliasOK_of_check hA) store kind hk bs hbs cache _ h (.inr rfl)⟩

/-! ### non-vacuity of (c) -/

/-- a chain of alias references (`m → n`), one under `!`, a field that is folded (`1 + 1`) -/
def qC : Bytes := asciiBytes "select int(value) + (1 + 1) as n, n * 2 as m, key where m > 10 & !(n = 3)"

theorem qC_hyps : stmtCheck (fun s => plainStmt s && !afStmt s) (planStage pf0 (Lexer.split qC)) = true := by
  decide +kernel

/-- `folded_statement_refines_parsed` applies to it: its folded, re-pointed filter keeps the kind Boolean -/
example : ∃ s f, planStage pf0 (Lexer.split qC) = .ok (.select s) ∧ foldSelect s = .ok f ∧
    FoldedOf s.where_ f.where_ ∧ Rows FoldedOf s.fields f.fields := by
  obtain ⟨s, hplan, h⟩ := stmtCheck_sound qC_hyps
  simp only [Bool.and_eq_true] at h
  obtain ⟨f, hf⟩ := foldSelect_total s
  exact ⟨s, f, hplan, hf, folded_statement_refines_parsed pf0 _ s hplan h.1 f hf⟩

/-- `select key as k, value where k > 'a'` (E2EFields `qK`): every hypothesis of the three statement
    theorems of (c), on the parsed statement -/
theorem qK_hyps : stmtCheck (fun s => !s.allFields && s.order.isNone && noAggrB s && plainStmt s && execOKb s st0 &&
    batchExecOKb s st0 && s.where_.vecOk && sideOkD s.where_ && s.fields.all (fun e => sideOkD e && noSiteAggr e))
    (planStage E2EFields.pf0 (Lexer.split E2EFields.qK)) = true := by decide +kernel

example : (runQuery E2EFields.qK E2EFields.pf0 st0 .next 2 true).fail = none ∧
    (runQuery E2EFields.qK E2EFields.pf0 st0 .batch 2 true).fail = none ∧
    (runQuery E2EFields.qK E2EFields.pf0 st0 .batch 2 true).fail ≠ some (.exec "operand-type") := by
  obtain ⟨s, hplan, h⟩ := stmtCheck_sound qK_hyps
  simp only [Bool.and_eq_true, Bool.not_eq_true', Option.isNone_iff_eq_none, List.all_eq_true] at h
  obtain ⟨⟨⟨⟨⟨⟨⟨⟨h1, h2⟩, h3⟩, h4⟩, h5⟩, h6⟩, h7⟩, h8⟩, h9⟩ := h
  obtain ⟨s', hplan', _, _, _, _, _, hf', hA', _, _⟩ := E2EFields.qK_inv
  have e0 : (Res.ok (Stmt.select s') : Res Stmt) = Res.ok (Stmt.select s) := hplan'.symm.trans hplan
  have hs : s' = s := Stmt.select.inj (Res.ok.inj e0)
  subst hs
  have hop : OrderHypParsed s' st0 := by unfold OrderHypParsed; rw [h2]; trivial
  obtain ⟨_, _, _, _, r1, _⟩ := run_fields_correct_alias_parsed_partial E2EFields.qK E2EFields.pf0 s' hplan h1
    (noAggrB_sound h3) E2EFields.kF hf' hA' h4 st0 st0_sorted (execOK_of_check h5) hop 2 (by decide) true
  obtain ⟨_, _, r2, _⟩ := run_fields_batch_alias_parsed_partial E2EFields.qK E2EFields.pf0 s' hplan h1 h2
    (noAggrB_sound h3) E2EFields.kF hf' hA' h4 h7 st0 st0_sorted (batchExecOK_of_check h6) 2 (by decide) true
  exact ⟨r1, r2, (run_no_operand_type_error_alias_parsed_partial E2EFields.qK E2EFields.pf0 s' hplan (noAggrB_sound h3)
    h4 h8 h9 E2EFields.kF hf' hA' st0 .batch (.inr st0_sorted) 2 (by decide) true).1⟩

/-- the hypotheses of `run_aggr_modes_agree_parsed_partial` as one check of the text -/
def aggrParsedHyps (r : Res Stmt) (f : FoldedSelect) (store : Store) (expected : List (List Aggr.AVal)) : Bool :=
  match r with
  | .ok (.select s) =>
    (match finalPlanCheck s with | .ok true => true | _ => false) &&
    s.order.isNone && s.limit.isNone &&
    aliasFree s.where_ && s.where_.vecOk && batchBoolOnW s.where_ store &&
    (match groupExprs s f with
     | some groups =>
       E2EAggr.covered f.fields && E2EAggr.aliasFreeAll (groups ++ f.fields) && groups.all (·.vecOk) &&
       (store.filter (Select.accepted s.where_)).all (E2EAggr.batchDefinedOn groups) &&
       (store.filter (Select.accepted s.where_)).all (E2EAggr.evaluableOn groups f.fields) &&
       (match E2EAggr.specRows groups f.fields (store.filter (Select.accepted s.where_)) with
        | .ok out => out == expected
        | .error _ => false)
     | none => false)
  | _ => false

/-- E2EAggr `exQuery3` (all seven aggregate functions over {a=9, ab=5, b=1, c=7} where key > 'a') meets them -/
theorem exQuery3_parsed_hyps : aggrParsedHyps (planStage E2EAggr.pf0 (Lexer.split E2EAggr.exQuery3))
    ⟨E2EAggr.exW3, E2EAggr.exFs3, E2EAggr.exFs3⟩ Select.exStore E2EAggr.exRows3 = true := by decide +kernel

example : (runQuery E2EAggr.exQuery3 E2EAggr.pf0 Select.exStore .batch 3 false).rows =
    E2EAggr.exRows3.map (List.map E2EAggr.toValue) ∧
    (runQuery E2EAggr.exQuery3 E2EAggr.pf0 Select.exStore .next 1 true).rows =
      (runQuery E2EAggr.exQuery3 E2EAggr.pf0 Select.exStore .batch 3 false).rows := by
  have h := exQuery3_parsed_hyps
  unfold aggrParsedHyps at h
  split at h
  · rename_i s hplan
    simp only [Bool.and_eq_true, Option.isNone_iff_eq_none] at h
    obtain ⟨⟨⟨⟨⟨⟨h1, h2⟩, h3⟩, h4⟩, h5⟩, h6⟩, h8⟩ := h
    have h1' : finalPlanCheck s = .ok true := by
      split at h1
      · assumption
      · cases h1
    split at h8
    · rename_i groups hg
      simp only [Bool.and_eq_true, List.all_eq_true] at h8
      obtain ⟨⟨⟨⟨⟨g1, g2⟩, g5⟩, g6⟩, g7⟩, g8⟩ := h8
      split at g8
      · rename_i out hspec
        have hout : out = E2EAggr.exRows3 := eq_of_beq g8
        rw [hout] at hspec
        obtain ⟨_, r2, r3, _⟩ := run_aggr_modes_agree_parsed_partial E2EAggr.exQuery3 E2EAggr.pf0 s hplan h1' _
          (E2EAggr.exQuery3_fold s hplan) h2 h3 groups hg g1 h4 g2 Select.exStore (by decide) h5 (batchBoolOnW_sound h6)
          g5 g6 g7 _ hspec .batch .next 3 1 (by decide) (by decide) false true
        exact ⟨r2, r3⟩
      · cases g8
    · cases h8
  · cases h

end Kvql.Properties.E2EFoldVec
