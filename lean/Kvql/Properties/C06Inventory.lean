/-
  C06 drift detector (NOT a proof obligation of the property; see DESIGN.md §14.8).

  `Kvql.Generated.partialTotals` is regenerated from /repo on every run: the number of index, slice,
  non-comma-ok type-assertion and `/ %` expressions of the whole package that no syntactic pattern
  shows to be safe (`args[<literal>]` is covered by `funcTable_arity`; `x[i]` under `for i := range x`
  or `for …; i < len(x); …`; lookups in identifiers declared as maps).  The numbers below are the state
  of the source the panic-freedom theorems were proved against.  When the source has MORE of them, this
  module stops building and `check` runs the enlarged crash search of C06; it reports a violation only
  for a concrete crash.  Moving code between functions, extracting helpers, merging duplicated
  branches or replacing index loops by range loops never increases the totals.
  Re-pin with tools/pin_partial_ops.py after a reviewed change of /repo.
-/
import Kvql.Generated.Inventory

namespace Kvql.Properties.C06Inventory
open Kvql.Generated

def expectedPartialTotals : Nat × Nat × Nat × Nat := (287, 28, 8, 6)

theorem partial_ops_bounded :
    partialTotals.1 ≤ expectedPartialTotals.1 ∧ partialTotals.2.1 ≤ expectedPartialTotals.2.1 ∧
    partialTotals.2.2.1 ≤ expectedPartialTotals.2.2.1 ∧ partialTotals.2.2.2 ≤ expectedPartialTotals.2.2.2 := by
  decide

end Kvql.Properties.C06Inventory
