/-
  C14, strengthened: alias references, the exclusions of completeness, rejection at statement level.

  Models (unchanged): `Parser.Parse` / `CheckCtx.check` (checker.go, statement.go: alias resolution
  `rewrite`, cycle detection `closesCycle`, the two passes of `ValidateFields`, `Parser.resolveTop`),
  `PlanCheck.planStage`, the evaluators `exec` / `execBatch` with the field caches of `Ctx`,
  `Run.runQuery` (end-to-end).  Lemmas: Kvql/Proofs/TypingAlias*.lean.

  (1)/(2) SOUNDNESS THROUGH ALIASES.  For a SELECT `planStage` accepts, the filter and every select
      field that is not an aggregate — referring to select fields by name: backward, forward, chains —
      are well-kinded by the README typing `kindOf` (a reference is typed through the field it resolves
      to) with their static `ReturnType()` as kind; so neither `Execute` nor `ExecuteBatch` fails with
      an operand-type error and the values have the static type: cache off (`NoOperandTypeError`) and
      cache on (`NoOperandTypeErrorCacheOn`, `accepted_*_cache_on`: C05's cache invariants; the
      hypothesis `Functional` of C05 is PROVED for accepted statements: `accepted_functional`).
      The only hypothesis besides acceptance is `sideOkD`, the side condition of `check_sound`
      followed into the fields the references resolve to (and `noSiteAggr` for fields).
      The invariant: `resolved_self_contained` — over a table that is a fixpoint of the checker, the
      resolved tree passes every test of the checker WITHOUT a table, and its static type is the type
      the checker found through the table; by induction on the resolution depth.
      Cycles: `accepted_no_cycle`.
  (3) COMPLETENESS.  The four exclusions of `check_complete_partial` are rejections of the engine
      (`rejects_*`), so a README-typable tree without alias references is accepted iff it is in `core`
      (`check_complete_exact`, `check_accepts_iff_core`); with alias references: `check_complete_alias`.
  (4) REJECTION BEFORE STORAGE: `fault_anywhere_rejected` over the end-to-end model.
-/
import Kvql.Proofs.TypingAliasFunctional
import Kvql.Proofs.TypingAliasProject
import Kvql.Proofs.TypingAliasComplete
import Kvql.Properties.C14
import Kvql.Properties.E2E

namespace Kvql.Properties.C14Alias

open Kvql Kvql.Generated Kvql.PlanCheck Kvql.Parser Kvql.Storage Kvql.Proofs.Typing

/-! ### (1)/(2) soundness through alias references -/

/-- THE INVARIANT behind soundness through aliases, for any select-field table that is a fixpoint of
    the checker (`TblOK`: every node of every entry passes the checker's test of its operator over
    the table, every reference names a field — true of the table of an accepted SELECT,
    `accepted_select_table`).  A tree `e` whose nodes pass the tests over that table and whose
    references name fields resolves (`Parser.resolveTop`: every reference gets a copy of its field,
    resolved in turn) — unless a cycle marker appears — to a tree all of whose nodes, those of the
    copies included, pass the same tests over the EMPTY table, and whose static type is the type the
    checker computed for `e` through the table (`RtImp`, for every fuel).  Induction on the resolution
    depth (`rg_gok`), inside it on the tree (`mapRefs_deep`). -/
theorem resolved_self_contained (ctx : CheckCtx) (hok : TblOK ctx.tbl) (e : Expr) (h : NodeOK ctx false e)
    (hf : Found ctx.tbl e = true) (hn : noCyc (resolveTop ctx.tbl e) = true) :
    NodeOK ctx0 true (resolveTop ctx.tbl e) ∧
    (∀ n t, rtF ctx.tbl n e = some t → (resolveTop ctx.tbl e).retType = t) := by
  obtain ⟨h1, h2⟩ := resolveTop_deep ctx hok e h hf hn
  exact ⟨h1, h2.rtImp⟩

/-- … and a self-contained tree all of whose nodes pass the checker's tests, within the side condition
    `sideOkD` (that of `check_sound`, followed into the copies) and with all calls validated, is
    well-kinded by the README typing, its kind being its static type -/
theorem self_contained_sound (e : Expr) (h : NodeOK ctx0 true e) (hs : sideOkD e = true) (hc : callsOk e) :
    ∃ k, kindOf e = some k ∧ k.code = e.retType :=
  deep0_sound e h hs hc

/-- what `Parse` establishes: the table of an accepted SELECT is a fixpoint of the checker (the second
    pass of `ValidateFields` changes nothing: `validateFields_pass2`), the filter passed every test over
    it and is Boolean, the statement carries the resolved forms, all calls are validated -/
theorem accepted_table (pf : Bytes → F64) (toks : Toks) (s : SelectS) (h : planStage pf toks = .ok (.select s)) :
    ∃ (tbl' : Tbl) (expr' : Expr), TblOK tbl' ∧
      NodeOK { tbl := tbl' } false expr' ∧ Found tbl' expr' = true ∧
      ({ tbl := tbl' } : CheckCtx).rt expr' = .ok tyTBOOL ∧
      s.where_ = resolveTop tbl' expr' ∧
      s.fields = tbl'.map (fun p => resolveTop tbl' p.2) ∧
      callsOk s.where_ ∧ walkFields s.fields = .ok () ∧
      s.fieldNames.zip s.fields = tbl'.map (fun p => (p.1, resolveTop tbl' p.2)) :=
  accepted_select_table h

/-- CYCLES ARE REJECTED: no tree of an accepted SELECT carries a cycle marker, however deep in the
    copies of its references -/
theorem accepted_no_cycle (pf : Bytes → F64) (toks : Toks) (s : SelectS) (h : planStage pf toks = .ok (.select s)) :
    noCyc s.where_ = true ∧ ∀ f ∈ s.fields, noCyc f = true :=
  Kvql.Proofs.Typing.accepted_no_cycle h

/-- ACCEPTED ⇒ WELL-KINDED, filter of a SELECT with alias references: Boolean by the README typing -/
theorem accepted_select_where_kind (pf : Bytes → F64) (toks : Toks) (s : SelectS)
    (h : planStage pf toks = .ok (.select s)) (hs : sideOkD s.where_ = true) : kindOf s.where_ = some .bool :=
  accepted_select_where_kind_alias h hs

/-- ACCEPTED ⇒ NO OPERAND-TYPE ERROR, filter of a SELECT, alias references allowed.  Hypotheses:
    `planStage` accepts the statement; its filter stays within `sideOkD`.  Then on any pair (`exec`) and
    any chunk (`execBatch`): cache off (`NoOperandTypeError`: any context with the cache disabled), and
    cache on (`NoOperandTypeErrorCacheOn`: any alias table with one target per name containing the
    filter's references, any context satisfying C05's `CacheOK` resp. `BInv`) the evaluation never fails
    with an operand-type error and yields Booleans (one per pair of the chunk). -/
theorem accepted_select_where_alias (pf : Bytes → F64) (toks : Toks) (s : SelectS)
    (h : planStage pf toks = .ok (.select s)) (hs : sideOkD s.where_ = true) :
    NoOperandTypeError s.where_ .bool ∧ NoOperandTypeErrorCacheOn s.where_ .bool :=
  Kvql.Proofs.Typing.accepted_select_where_alias toks s h hs

/-- … every select field that is not an aggregate yields values of its static type -/
theorem accepted_select_field_alias (pf : Bytes → F64) (toks : Toks) (s : SelectS)
    (h : planStage pf toks = .ok (.select s)) (f : Expr) (hf : f ∈ s.fields) (hs : sideOkD f = true)
    (hn : noSiteAggr f = true) :
    ∃ k, k.code = f.retType ∧ NoOperandTypeError f k ∧ NoOperandTypeErrorCacheOn f k :=
  Kvql.Proofs.Typing.accepted_select_field_alias toks s h f hf hs hn

/-- ONE TARGET PER NAME: the alias table of an accepted SELECT (`stmtRefs`: the references of filter and
    fields, nested ones included) is `Functional` and contains the references of the filter and of each
    field — the hypotheses `Functional`, `WF`, `FieldsWF` of C05's cache theorems are facts about
    accepted statements -/
theorem accepted_functional (pf : Bytes → F64) (toks : Toks) (s : SelectS) (h : planStage pf toks = .ok (.select s)) :
    Kvql.Cache.Functional (stmtRefs s) ∧ Kvql.Cache.WF (stmtRefs s) s.where_ ∧
      ∀ f ∈ s.fields, Kvql.Cache.WF (stmtRefs s) f :=
  Kvql.Proofs.Typing.accepted_functional h

/-- … hence, FIELD CACHE ON, row evaluator, no hypothesis about the alias table: from a context whose
    cache is on and satisfies C05's `CacheOK` for the statement's alias table on the current pair (a
    cleared context does), the filter yields a Boolean or fails with another error than an
    operand-type error, and leaves such a context (so the fields can be evaluated next) -/
theorem accepted_select_where_cache_on (pf : Bytes → F64) (toks : Toks) (s : SelectS)
    (h : planStage pf toks = .ok (.select s)) (hs : sideOkD s.where_ = true) (kv : Pair) (c : Ctx)
    (hon : Kvql.Cache.CtxOn c) (hok : Kvql.Cache.CacheOK (stmtRefs s) c kv) :
    (∀ v, (exec s.where_ kv c).1 = .ok v → v.hasKind .bool = true) ∧
    (exec s.where_ kv c).1 ≠ .error .operandType ∧
    Kvql.Cache.CtxOn (exec s.where_ kv c).2 ∧ Kvql.Cache.CacheOK (stmtRefs s) (exec s.where_ kv c).2 kv :=
  Kvql.Proofs.Typing.accepted_select_where_cache_on toks s h hs kv c hon hok

/-- … a select field that is not an aggregate, in such a context (e.g. the one the filter left) -/
theorem accepted_select_field_cache_on (pf : Bytes → F64) (toks : Toks) (s : SelectS)
    (h : planStage pf toks = .ok (.select s)) (f : Expr) (hf : f ∈ s.fields) (hs : sideOkD f = true)
    (hn : noSiteAggr f = true) (kv : Pair) (c : Ctx) (hon : Kvql.Cache.CtxOn c)
    (hok : Kvql.Cache.CacheOK (stmtRefs s) c kv) :
    ∃ k, k.code = f.retType ∧
      (∀ v, (exec f kv c).1 = .ok v → v.hasKind k = true) ∧
      (exec f kv c).1 ≠ .error .operandType ∧
      Kvql.Cache.CtxOn (exec f kv c).2 ∧ Kvql.Cache.CacheOK (stmtRefs s) (exec f kv c).2 kv :=
  Kvql.Proofs.Typing.accepted_select_field_cache_on toks s h f hf hs hn kv c hon hok

/-- … the batch evaluator with the chunk cache on (C05's chunk environment, its `Functional` field
    discharged) -/
theorem accepted_select_where_cache_on_batch (pf : Bytes → F64) (toks : Toks) (s : SelectS)
    (h : planStage pf toks = .ok (.select s)) (hs : sideOkD s.where_ = true) (E : Kvql.Cache.BEnv)
    (hA : E.A = stmtRefs s) (hne : E.ch ≠ []) (hmem : E.ch ∈ E.V)
    (huniq : ∀ ch' ∈ E.V, Kvql.Cache.fk ch' = Kvql.Cache.fk E.ch → ch' = E.ch)
    (c : Ctx) (hinv : Kvql.Cache.BInv E c) :
    (∀ vs, (execBatch s.where_ E.ch c).1 = .ok vs → vs.length = E.ch.length ∧ ∀ v ∈ vs, v.hasKind .bool = true) ∧
    (execBatch s.where_ E.ch c).1 ≠ .error .operandType :=
  Kvql.Proofs.Typing.accepted_select_where_cache_on_batch toks s h hs E hA hne hmem huniq c hinv

/-- the four hypotheses of C05's projection theorems (`Functional`, `WF`, `FieldsWF`, `FieldsAgree`) hold
    for the alias table `stmtRefs s` and the select list `projFields s` of an accepted SELECT -/
theorem accepted_c05_hyps (pf : Bytes → F64) (toks : Toks) (s : SelectS) (h : planStage pf toks = .ok (.select s)) :
    Kvql.Cache.Functional (stmtRefs s) ∧ Kvql.Cache.WF (stmtRefs s) s.where_ ∧
      Kvql.Cache.FieldsWF (stmtRefs s) (projFields s) ∧ Kvql.Cache.FieldsAgree (stmtRefs s) (projFields s) :=
  let ⟨h1, h2, h3, h4, _⟩ := Kvql.Proofs.Typing.accepted_c05_hyps h
  ⟨h1, h2, h3, h4⟩

/-- ACCEPTED ⇒ THE ROW-MODE PROJECTION PLAN NEVER ENDS WITH AN OPERAND-TYPE ERROR, field cache on or
    off (Model/Project.lean: per pair `Clear`, the filter, for an accepted pair the fields, read through
    the field cache).  Hypotheses: `planStage` accepts the SELECT; filter and fields (alias references
    allowed) within `sideOkD`; no field is an aggregate; the context's cache is on or off.  Then the
    drain over ANY list of pairs ends neither with an operand-type error of the filter or of a field nor
    with "where expression result is not boolean". -/
theorem accepted_row_drain (pf : Bytes → F64) (toks : Toks) (s : SelectS) (h : planStage pf toks = .ok (.select s))
    (hsw : sideOkD s.where_ = true) (hsf : ∀ f ∈ s.fields, sideOkD f = true ∧ noSiteAggr f = true)
    (pairs : List Pair) (c : Ctx) (hc : Kvql.Cache.CtxOn c ∨ c.enable = false) :
    (Project.drainRow s.where_ (projFields s) pairs c).1.err ≠ some (.eval .operandType) ∧
    (Project.drainRow s.where_ (projFields s) pairs c).1.err ≠ some .whereNotBool :=
  Kvql.Proofs.Typing.accepted_row_drain toks s h hsw hsf pairs c hc

/-- … and the BATCH-MODE projection plan, chunk cache on (inner chunks starting with different keys, as
    a cursor yields them) or off: whatever error ends the drain is no operand-type failure (`OpErr`: an
    operand-type error of the filter or a field, or a filter result that is not Boolean) -/
theorem accepted_batch_drain (pf : Bytes → F64) (toks : Toks) (s : SelectS) (h : planStage pf toks = .ok (.select s))
    (hsw : sideOkD s.where_ = true) (hsf : ∀ f ∈ s.fields, sideOkD f = true ∧ noSiteAggr f = true)
    (bs : Nat) (chunks : List (List Pair)) (c : Ctx)
    (hc : (Kvql.Cache.CtxOn c ∧ Kvql.Cache.DistinctFk chunks) ∨ c.enable = false)
    (e : Project.PErr) (he : (Project.drainBatchChunks s.where_ (projFields s) bs chunks c).1.err = some e) :
    ¬ OpErr e :=
  Kvql.Proofs.Typing.accepted_batch_drain toks s h hsw hsf bs chunks c hc e he

/-! non-vacuity: `select k + 1 as j, m * 2 as k, int(value) as m where j > 2 & m < 10 & k in (2, 4)` —
    forward references, a chain of depth three (`j → k → m`), references in the filter and inside an
    IN expression -/

def pf0 : Bytes → F64 := fun _ => F64.zero

def exAlias : Bytes :=
  asciiBytes "select k + 1 as j, m * 2 as k, int(value) as m where j > 2 & m < 10 & k in (2, 4)"

/-- every hypothesis of the theorems above, as one computable check of the statement -/
def aliasHyps (r : Res Stmt) : Bool :=
  match r with
  | .ok (.select s) =>
    sideOkD s.where_ && !aliasFree s.where_ && s.fields.all (fun f => sideOkD f && noSiteAggr f) &&
      s.fields.any (fun f => !aliasFree f)
  | _ => false

/-- the statement is accepted, filter and fields are within `sideOkD`, no field is an aggregate — and
    both the filter and some field do go through alias references (kernel evaluation of the models) -/
theorem exAlias_hyps : aliasHyps (planStage pf0 (Lexer.split exAlias)) = true := by decide +kernel

/-- … hence its filter never fails with an operand-type error, cache off or on, and its row-mode
    projection over any pairs, cache on, never ends with an operand-type failure -/
example : ∃ s, planStage pf0 (Lexer.split exAlias) = .ok (.select s) ∧
    NoOperandTypeError s.where_ .bool ∧ NoOperandTypeErrorCacheOn s.where_ .bool ∧
    Kvql.Cache.Functional (stmtRefs s) ∧
    ∀ pairs, (Project.drainRow s.where_ (projFields s) pairs (Ctx.new true)).1.err ≠ some (.eval .operandType) := by
  have h := exAlias_hyps
  unfold aliasHyps at h
  split at h
  · rename_i s hplan
    simp only [Bool.and_eq_true, List.all_eq_true] at h
    exact ⟨s, hplan, (accepted_select_where_alias pf0 _ s hplan h.1.1.1).1,
      (accepted_select_where_alias pf0 _ s hplan h.1.1.1).2, (accepted_functional pf0 _ s hplan).1,
      fun pairs => (accepted_row_drain pf0 _ s hplan h.1.1.1 h.1.2 pairs (Ctx.new true) (.inl ⟨rfl, rfl⟩)).1⟩
  · cases h

/-- … with the cache ON, from a fresh context (`NewExecuteCtx`, cache enabled: it satisfies `CtxOn` and
    `CacheOK`, resp. `BInv` for a one-chunk environment), on every pair resp. one-pair chunk -/
example : ∃ s, planStage pf0 (Lexer.split exAlias) = .ok (.select s) ∧
    (∀ kv, (exec s.where_ kv (Ctx.new true)).1 ≠ .error .operandType) ∧
    (∀ kv, (execBatch s.where_ [kv] (Ctx.new true)).1 ≠ .error .operandType) := by
  have h := exAlias_hyps
  unfold aliasHyps at h
  split at h
  · rename_i s hplan
    simp only [Bool.and_eq_true, List.all_eq_true] at h
    refine ⟨s, hplan, fun kv => ?_, fun kv => ?_⟩
    · exact (accepted_select_where_cache_on pf0 _ s hplan h.1.1.1 kv (Ctx.new true) ⟨rfl, rfl⟩
        (Kvql.Cache.CacheOK.of_empty rfl)).2.1
    · let E : Kvql.Cache.BEnv := { A := stmtRefs s, ch := [kv], V := [[kv]], C0 := fun _ => none }
      have hinv : Kvql.Cache.BInv E (Ctx.new true) := by
        refine ⟨⟨rfl, rfl⟩, ?_, ?_⟩
        · intro ckey col hc
          simp [Ctx.new, assocGet] at hc
        · intro n
          simp [Ctx.new, assocGet, E]
      exact (accepted_select_where_cache_on_batch pf0 _ s hplan h.1.1.1 E rfl (by simp [E]) (by simp [E])
        (by intro ch' hch' _; simpa [E] using hch') (Ctx.new true) hinv).2
  · cases h

/-- … and the batch-mode projection drain (cache off here; cache on needs chunks with distinct first keys) -/
example : ∃ s, planStage pf0 (Lexer.split exAlias) = .ok (.select s) ∧
    ∀ bs chunks e, (Project.drainBatchChunks s.where_ (projFields s) bs chunks Ctx.off).1.err = some e → ¬ OpErr e := by
  have h := exAlias_hyps
  unfold aliasHyps at h
  split at h
  · rename_i s hplan
    simp only [Bool.and_eq_true, List.all_eq_true] at h
    exact ⟨s, hplan, fun bs chunks e he =>
      accepted_batch_drain pf0 _ s hplan h.1.1.1 h.1.2 bs chunks Ctx.off (.inr rfl) e he⟩
  · cases h

/-- instance of the invariant and of `self_contained_sound`: the tree `strlen(key) + 2 > 1 & !(value ^= 'a')`
    over the empty table (every hypothesis holds; `Check` accepts it: `check_nodeOK`) -/
example : ∃ k, kindOf (resolveTop ctx0.tbl exampleExpr) = some k ∧ k.code = (resolveTop ctx0.tbl exampleExpr).retType := by
  have hok : TblOK ctx0.tbl := fun j nm f hj => by simp [ctx0] at hj
  have hnode : NodeOK ctx0 false exampleExpr := check_nodeOK ctx0 exampleExpr exampleExpr (by rfl)
  obtain ⟨h1, _⟩ := resolved_self_contained ctx0 hok exampleExpr hnode (by decide) (by decide)
  exact self_contained_sound _ h1 (by decide) (by unfold callsOk; rfl)

/-! ### (3) completeness -/

/-- the hypotheses of the four `rejects_*` theorems are satisfiable -/
example : isCompareOp .eq = true ∧ isNotNode (.not 0 (.bool 0 [] true)) = true ∧
    sameField (.field 0 .key) (.field 5 .key) = true ∧ zeroLit (.num 0 [48] 0) = true := by decide


/-- EXCLUSION 1 of `check_complete_partial` is a fact about the engine: `!…` as an operand of a
    comparison is rejected in every context, whatever the other operand -/
theorem rejects_compare_not (ctx : CheckCtx) (pos : Nat) (op : Op) (l r : Expr) (hop : isCompareOp op = true)
    (hn : isNotNode l = true ∨ isNotNode r = true) : Rejects (ctx.check (.binop pos op l r)) :=
  Kvql.Proofs.Typing.rejects_compare_not ctx pos op l r hop hn

/-- EXCLUSION 2: `key` compared with `key`, `value` with `value` is rejected -/
theorem rejects_same_field (ctx : CheckCtx) (pos : Nat) (op : Op) (l r : Expr) (hop : isCompareOp op = true)
    (hs : sameField l r = true) : Rejects (ctx.check (.binop pos op l r)) :=
  Kvql.Proofs.Typing.rejects_same_field ctx pos op l r hop hs

/-- EXCLUSION 3: a literal zero divisor is rejected -/
theorem rejects_zero_divisor (ctx : CheckCtx) (pos : Nat) (l r : Expr) (hz : zeroLit r = true) :
    Rejects (ctx.check (.binop pos .div l r)) :=
  Kvql.Proofs.Typing.rejects_zero_divisor ctx pos l r hz

/-- EXCLUSION 4: an empty list is rejected, in particular `x in ()` -/
theorem rejects_empty_list (ctx : CheckCtx) (pos q : Nat) (op : Op) (l : Expr) :
    Rejects (ctx.check (.list q [])) ∧ Rejects (ctx.check (.binop pos op l (.list q []))) :=
  ⟨Kvql.Proofs.Typing.rejects_empty_list ctx q, rejects_in_empty ctx pos q op l⟩

/-- the places where a field name is NOT resolved (so that its use there is rejected although the
    field it names has the right type): directly under `!`, as an item of an IN list, as a bound of
    BETWEEN -/
theorem rejects_unresolved_name (ctx : CheckCtx) (pos q p : Nat) (d : Bytes) (l : Expr) (items : List Expr)
    (hm : .name p d ∈ items) :
    Rejects (ctx.check (.not pos (.name p d))) ∧
    Rejects (ctx.check (.binop pos .in_ l (.list q items))) ∧
    Rejects (ctx.check (.binop pos .between l (.list q items))) :=
  ⟨rejects_not_name ctx pos p d, rejects_in_name_item ctx pos q p d l items hm,
   rejects_between_name_bound ctx pos q p d l items hm⟩

/-- COMPLETENESS, exact on the node kinds of `core`: a README-typable tree built from literals,
    `key`/`value`, `!`, calls by name and binary operators (lists only to the right of `in`/`between`)
    — `coreShape`, no reference to the four exclusions — is accepted, unchanged, by `Check` in a context
    that allows `key` and `value` IF AND ONLY IF it has none of the four excluded forms at any position
    (`core`); if it has one it is rejected. -/
theorem check_accepts_iff_core (ctx : CheckCtx) (hk : ctx.notAllowKey = false) (hv : ctx.notAllowValue = false)
    (e : Expr) (k : Kind) (h : kindOf e = some k) (hs : coreShape e = true) :
    (ctx.check e = .ok e ↔ core e = true) ∧ (core e = false → Rejects (ctx.check e)) :=
  Kvql.Proofs.Typing.check_accepts_iff_core ctx hk hv e k h hs

/-- COMPLETENESS, EXACT, on everything the README typing allows without alias references
    (`check_complete_partial` with its exclusions turned into the other direction): a README-typable tree
    (`kindOf e = some k`) without alias reference is accepted, unchanged, by `Check` in a context that
    allows `key` and `value` IF AND ONLY IF it has, at no position, one of the four forms on which the
    engine is stricter than the README — `!…` as an operand of a comparison, `key`/`value` compared with
    itself, a literal zero divisor, an empty IN list (`core`); if it has one it is rejected. -/
theorem check_complete_exact (ctx : CheckCtx) (hk : ctx.notAllowKey = false) (hv : ctx.notAllowValue = false)
    (e : Expr) (k : Kind) (h : kindOf e = some k) (hrf : refFree e = true) :
    (ctx.check e = .ok e ↔ core e = true) ∧ (core e = false → Rejects (ctx.check e)) :=
  Kvql.Proofs.Typing.check_complete_exact ctx hk hv e k h hrf

example : coreShape exampleExpr = true ∧ core exampleExpr = true := by decide
/-- `!(key = 'a') = true`: README-typable, of the right node kinds, not in `core` — rejected -/
example : let e : Expr := .binop 0 .eq (.not 0 (.binop 0 .eq (.field 0 .key) (.str 0 [97]))) (.bool 0 [] true)
    kindOf e = some .bool ∧ refFree e = true ∧ coreShape e = true ∧ core e = false := by decide
example : kindOf exampleExpr = some .bool ∧ refFree exampleExpr = true := by decide

/-- COMPLETENESS WITH ALIAS REFERENCES.  `e` has alias references only where `Check` creates them
    (operands of binary operators, arguments of calls: `coreA`), is well-kinded by the README typing
    (references typed through the copies they carry), and every reference is consistent with the
    select list of the context (`RefsCons`: it carries the current entry of that name, creating it
    closes no cycle, the checker's type of the entry is the entry's static type).  Then `Check` accepts
    what the user wrote — `unref e`, every reference put back to its name — and returns `e`. -/
theorem check_complete_alias (ctx : CheckCtx) (hk : ctx.notAllowKey = false) (hv : ctx.notAllowValue = false)
    (e : Expr) (k : Kind) (h : kindOf e = some k) (hc : coreA e = true) (hr : RefsCons ctx e) :
    ctx.check (unref e) = .ok e :=
  Kvql.Proofs.Typing.check_complete_alias ctx hk hv e k h hc hr

/-- instance: select list `int(value) as n`, filter `n + 1 > 2 & upper(key) = 'A'` -/
def exTgt : Expr := .call 7 (.name 7 (asciiBytes "int")) [.field 11 .value]
def exCtx : CheckCtx := { tbl := [(asciiBytes "n", exTgt)] }
def exRefTree : Expr :=
  .binop 40 .and
    (.binop 30 .gt (.binop 26 .add (.ref 24 (asciiBytes "n") exTgt) (.num 28 [49] 1)) (.num 32 [50] 2))
    (.binop 50 .eq (.call 42 (.name 42 (asciiBytes "upper")) [.field 48 .key]) (.str 52 [65]))

example : kindOf exRefTree = some .bool ∧ coreA exRefTree = true := by decide
theorem exRefs : RefsCons exCtx exRefTree := by
  simp only [RefsCons, exRefTree, RefsConsList, _root_.and_true]
  exact ⟨⟨0, rfl, rfl⟩, rt_selfTyped exCtx (e := exTgt) rfl⟩
example : exCtx.check (unref exRefTree) = .ok exRefTree :=
  check_complete_alias exCtx rfl rfl exRefTree .bool (by decide) (by decide) exRefs

/-! ### (4) rejection before storage, at statement level, over the end-to-end model -/

/-- FAULT ANYWHERE ⇒ REJECTED, NOTHING TOUCHED.  The statement TEXT `query` has a statically detectable
    fault (`Faulty`, of the tokens `Lexer.split query`): an operator applied to operand types it does
    not support, `!` on a non-Boolean, a filter that is not Boolean, `key`/`value` where the statement
    form forbids them (PUT: `value`; REMOVE: both), an unknown function or a wrong argument count — in
    the hole of ANY one-hole context `Ctxt` (under `!`, under any binary operator, in a function
    argument, an IN list, a BETWEEN bound, a field-access operand, nested at any depth; proved by
    induction over the context: `plug_rejects`, `plug_keeps_bad`) of the filter of a SELECT, a bare
    `where` or a DELETE, of a select field, of a PUT key or value, of a REMOVE key.  Then the
    end-to-end model `Run.runQuery` reports a failure, returns no row, issues NO storage call and
    leaves the store as it was — for every store, mode, batch size and cache setting. -/
theorem fault_anywhere_rejected (query : Bytes) (pf : Bytes → F64) (hfault : Faulty pf (Lexer.split query))
    (store : Store) (kind : Plans.PollKind) (bs : Nat) (cache : Bool) :
    (Run.runQuery query pf store kind bs cache).fail.isSome = true ∧
    (Run.runQuery query pf store kind bs cache).rows = [] ∧
    (Run.runQuery query pf store kind bs cache).world.log = [] ∧
    (Run.runQuery query pf store kind bs cache).world.store = store :=
  Kvql.Properties.E2E.run_rejected_touches_nothing query pf store kind bs cache (fault_rejected hfault)

/-- THE SAME FROM THE OTHER SIDE, faults reached THROUGH ALIAS REFERENCES included.  For every statement
    text, store, mode, batch size and cache setting: EITHER the end-to-end model issues no storage call,
    OR `planStage` accepted the statement and — for a SELECT — its filter is Boolean by the README typing
    and every non-aggregate field is well-kinded with its static type as kind, the alias references typed
    through the fields they resolve to (within the side condition `sideOkD`).  So an ill-kinded filter
    or field, wherever the ill-kinded node sits and through however many alias references it is reached,
    never gets as far as the storage. -/
theorem storage_touched_only_if_well_kinded (query : Bytes) (pf : Bytes → F64) (store : Store)
    (kind : Plans.PollKind) (bs : Nat) (cache : Bool) :
    (Run.runQuery query pf store kind bs cache).world.log = [] ∨
    ∃ stmt, planStage pf (Lexer.split query) = .ok stmt ∧
      ∀ s, stmt = .select s →
        (sideOkD s.where_ = true → kindOf s.where_ = some .bool) ∧
        (∀ f ∈ s.fields, sideOkD f = true → noSiteAggr f = true → ∃ k, kindOf f = some k ∧ k.code = f.retType) := by
  cases hp : planStage pf (Lexer.split query) with
  | ok stmt =>
    right
    refine ⟨stmt, rfl, fun s hs => ?_⟩
    subst hs
    exact ⟨fun hside => accepted_select_where_kind_alias hp hside,
      fun f hf hside hn => accepted_select_field_kind_alias hp f hf hside hn⟩
  | _ =>
    left
    refine (Kvql.Properties.E2E.run_rejected_touches_nothing query pf store kind bs cache ?_).2.2.1
    intro a ha
    rw [hp] at ha
    cases ha

/-- both alternatives occur: the faulty text below takes the first, `exAlias` (accepted, `exAlias_hyps`)
    can only take the second once a storage call is made -/
example : ∃ stmt, planStage pf0 (Lexer.split exAlias) = .ok stmt := by
  have h := exAlias_hyps
  unfold aliasHyps at h
  split at h
  · rename_i s hplan; exact ⟨_, hplan⟩
  · cases h

/-- instance: the text `where !(key ^= 1)` — `^=` applied to a number, under `!` — touches nothing,
    whatever the store -/
example (store : Store) :
    (Run.runQuery (asciiBytes "where !(key ^= 1)") Kvql.Properties.C14.pf0 store .batch 32 true).world.log = [] := by
  have hsplit : Lexer.split (asciiBytes "where !(key ^= 1)") = Kvql.Properties.C14.tWhere :: Kvql.Properties.C14.restNot := by
    decide
  have hf : Faulty Kvql.Properties.C14.pf0 (Lexer.split (asciiBytes "where !(key ^= 1)")) := by
    rw [hsplit]; exact Kvql.Properties.C14.faulty_not_prefix
  exact (fault_anywhere_rejected _ _ hf store .batch 32 true).2.2.1

end Kvql.Properties.C14Alias
