/-
  C07  ORDER BY returns a sorted permutation of the unordered result — the sorting machinery.

  `Kvql.Order` (Model/Order.lean) is order_plan.go function by function: `FinalOrderPlan`
  pushes every row of its child on a binary heap (Go's `container/heap`: `up`, `down`, `Push`,
  `Pop`, copied line by line) and pops `total` rows, one per `Next` or up to `PlanBatchSize`
  per `Batch`; rows are compared by `orderColumnsRow.Less` (`less`), a lexicographic
  comparison over the order fields whose per-field `compare` switches on the declared type
  and converts each operand on its own (`orderBytes`, `orderNumber`, `orderBool` — the code
  after patches 01/02; before them the right operand was type-asserted to the left one's
  dynamic type and a number column mixing int64 and float64 panicked).
  Tie to the code: ORDERPLAN correspondence group (a real `FinalOrderPlan` over a stub child,
  exact output order and batch boundaries compared with `drainNext`/`drainBatch`).

  The theorems hold for ALL row lists, order lists and batch sizes ≥ 1.
    (a) `heap_inv`, (b) `heap_sort`, (c) `order_next_eq_batch`: generic in the row type and in
        the comparison, which must be a strict weak order on the rows (`SWO`);
    (d) `less_swo`: the model's `less` is one — and is the documented comparator — on rows
        that hold, per order field, values of a kind fitting the declared type
        (`Spec.Order.RowOK`): text ([]byte, string, mixed), integers (int64, int), non-NaN
        float64, numbers mixing integers below 2^53 in magnitude with floats (what
        `sum`/`min`/`max` produce over groups), bool;
    (e) `order_sorted_perm`: hence the plan's output is a sorted permutation of its input;
    (f) `compare_never_panics`, `less_never_panics`: no column value makes the comparison panic.
-/
import Kvql.Proofs.OrderProofs
import Kvql.Proofs.OrderCmp
import Kvql.Proofs.OrderConv

namespace Kvql.Properties.C07

open Kvql Kvql.Order Kvql.Spec.Order Kvql.Proofs.Order

variable {α : Type} {P : α → Prop} {less : α → α → Bool} {lessR : α → α → Res Bool}

/-- (a) `heap.Push` and `heap.Pop` keep the heap invariant (no element is less than its
    parent) and the multiset of elements; `Pop` returns an element that no element of the heap
    is less than. -/
theorem heap_inv (hs : SWO P less) (hl : LessOK P lessR less) (h : Array α)
    (hP : ∀ y ∈ h, P y) (hinv : HeapInv less h h.size) :
    (∀ x, P x → ∃ h', push lessR h x = .ok h' ∧ h'.Perm (h.push x) ∧ HeapInv less h' h'.size) ∧
    (0 < h.size → ∃ x h', pop lessR h = .ok (x, h') ∧ (h'.push x).Perm h ∧
      HeapInv less h' h'.size ∧ ∀ y ∈ h, less y x = false) :=
  ⟨fun _ hx => push_spec hs hl hP hx hinv, fun hpos => pop_spec hs hl hP hpos hinv⟩

/-- (b) heap sort: pushing all rows (`prepare`) and popping `total` times yields a sorted
    permutation of the rows and leaves the heap empty. -/
theorem heap_sort (hs : SWO P less) (hl : LessOK P lessR less) (rows : List α) (hR : ∀ y ∈ rows, P y) :
    ∃ st out, pushAll lessR {} rows = .ok st ∧ st.total = rows.length ∧ st.pos = 0 ∧
      popN lessR st.total st.sorted = .ok (out, #[]) ∧ out.Perm rows ∧
      out.Pairwise (fun a b => less b a = false) :=
  Proofs.Order.heap_sort hs hl rows hR

/-- (c) draining by `Batch` (any batch size ≥ 1, any cutting of the child's rows into non-empty
    chunks) and by `Next` give the same sequence — or both panic.  No hypothesis on the
    comparison. -/
theorem order_next_eq_batch (bs : Nat) (hbs : 1 ≤ bs) (chunks : List (List α)) (hne : ∀ c ∈ chunks, c ≠ [])
    (fuel fuel' : Nat) (hf : chunks.flatten.length < fuel) (hf' : chunks.flatten.length < fuel') :
    (drainBatch lessR bs fuel {} chunks).map List.flatten = drainNext lessR fuel' {} chunks.flatten :=
  next_eq_batch bs hbs chunks hne fuel fuel' hf hf'

/-- integers that float64 represents exactly -/
def SmallInt (i : Int) : Prop := -2^53 < i ∧ i < 2^53

/-- (d) on rows whose order columns hold, per order field, values of a kind that fits the
    declared type (TSTR: []byte and string; TNUMBER: int64, int, non-NaN float64, or a mix of
    them with the integers below 2^53 in magnitude; TBOOL: bool) `orderColumnsRow.Less` never
    panics, equals the documented comparator (lexicographic over the fields, asc/desc,
    byte-wise / numeric / false < true) and is a strict weak order. -/
theorem less_swo (keys : List Key) (kinds : List Kind) :
    (∀ l r, RowOK SmallInt keys kinds l → RowOK SmallInt keys kinds r →
      Order.less keys l r = .ok (rowLess keys l r)) ∧
    SWO (RowOK SmallInt keys kinds) (rowLess keys) :=
  Proofs.OrderCmp.less_swo Proofs.OrderConv.convOK_small keys kinds

/-- (e) row mode: under (d)'s hypothesis the plan returns a permutation of the child's rows in
    which no row is (documented-order) less than an earlier one. -/
theorem order_sorted_perm (keys : List Key) (kinds : List Kind) (rows : List Row)
    (hR : ∀ r ∈ rows, RowOK SmallInt keys kinds r) (fuel : Nat) (hf : rows.length < fuel) :
    ∃ out, drainNext (Order.less keys) fuel {} rows = .ok out ∧ out.Perm rows ∧
      out.Pairwise (fun a b => rowLess keys b a = false) :=
  let ⟨hl, hs⟩ := Proofs.OrderCmp.less_swo Proofs.OrderConv.convOK_small keys kinds
  plan_sorted_next hs hl rows hR fuel hf

/-- (e) batch mode: the concatenated batches, for every batch size ≥ 1 and every chunking. -/
theorem order_sorted_perm_batch (keys : List Key) (kinds : List Kind) (bs : Nat) (hbs : 1 ≤ bs)
    (chunks : List (List Row)) (hne : ∀ c ∈ chunks, c ≠ [])
    (hR : ∀ r ∈ chunks.flatten, RowOK SmallInt keys kinds r) (fuel : Nat) (hf : chunks.flatten.length < fuel) :
    ∃ out, (drainBatch (Order.less keys) bs fuel {} chunks).map List.flatten = .ok out ∧
      out.Perm chunks.flatten ∧ out.Pairwise (fun a b => rowLess keys b a = false) :=
  let ⟨hl, hs⟩ := Proofs.OrderCmp.less_swo Proofs.OrderConv.convOK_small keys kinds
  plan_sorted_batch hs hl bs hbs chunks hne hR fuel hf

/-- (f) no pair of column values, of whatever dynamic types, makes `compare` panic -/
theorem compare_never_panics (tp : Nat) (l r : Col) (rev : Bool) : ∃ c, Order.compare tp l r rev = .ok c := by
  unfold Order.compare compareBytes compareNumber compareBool
  split
  · split <;> exact ⟨_, rfl⟩
  · split
    · split <;> exact ⟨_, rfl⟩
    · split
      · split <;> exact ⟨_, rfl⟩
      · exact ⟨_, rfl⟩

/-- (f) `Less` panics only on a row shorter than an order position (excluded by `Init`) -/
theorem less_never_panics : ∀ (keys : List Key) (l r : Row),
    (∀ o ∈ keys, o.pos < l.length ∧ o.pos < r.length) → ∃ b, Order.less keys l r = .ok b
  | [], _, _, _ => ⟨false, rfl⟩
  | o :: keys, l, r, h => by
    have ⟨h1, h2⟩ := h o (by simp)
    obtain ⟨c, hc⟩ := compare_never_panics o.tp l[o.pos] r[o.pos] o.desc
    obtain ⟨b, hb⟩ := less_never_panics keys l r (fun o' ho' => h o' (by simp [ho']))
    simp only [Order.less, List.getElem?_eq_getElem h1, List.getElem?_eq_getElem h2, hc, hb]
    split
    · exact ⟨_, rfl⟩
    · split <;> exact ⟨_, rfl⟩

/-! non-vacuity -/

/-- the hypothesis of (d)/(e) is satisfiable: the column that used to panic (int64 and float64
    mixed, descending) and a text column -/
example : RowOK SmallInt [⟨0, Generated.tyTNUMBER, true⟩, ⟨1, Generated.tyTSTR, false⟩] [.num, .text]
      [.int 3, .bytes [97]] ∧
    RowOK SmallInt [⟨0, Generated.tyTNUMBER, true⟩, ⟨1, Generated.tyTSTR, false⟩] [.num, .text]
      [.float ⟨0x3ff8000000000000⟩, .str [98]] := by
  simp [RowOK, Kind.fits, Kind.holds, SmallInt, f64IsNaN]
  decide

end Kvql.Properties.C07
