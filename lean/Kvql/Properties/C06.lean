/-
  C06  No query text and no data can crash the library — partial by nature (DESIGN.md §6 C06).

  What Lean carries: the LOGICAL causes of a crash are absent in each modelled component, for all
  inputs — partial operations (index, slice, type assertion) are guarded, alias cycles are rejected,
  every loop consumes input.  Each component model makes a Go panic an explicit outcome and proves
  it unreachable; this file gathers those theorems (C06.theorems).  The inventory of partial
  operations regenerated from the Go source is a DRIFT DETECTOR (Properties/C06Inventory.lean, not a
  proof obligation of the property): when the package gains an index/slice/assertion/division that no
  syntactic pattern shows to be safe, the check runs its enlarged crash search.
  What Lean cannot carry: real stack depth, allocation size, the runtime — covered only by the
  CRASH group (isolated worker processes, inputs up to a few kilobytes, nesting to 2000).
-/
import Kvql.Properties.C04
import Kvql.Properties.C07
import Kvql.Properties.C15
import Kvql.Properties.C16
import Kvql.Properties.C17
import Kvql.Proofs.ExecPanicFree

namespace Kvql.Properties.C06

end Kvql.Properties.C06
