/-
  C08  LIMIT returns exactly the requested slice of the unlimited result.

  `Kvql.Limit` models the `skips`/`current` state machine that limit_plan.go has twice
  (`FinalLimitPlan`, `LimitPlan`) and aggregate_plan.go once (limit pushed into the
  aggregation).  The child is *any* list of rows (row mode) or *any* list of non-empty chunks
  (batch mode) — whatever the plan below produces: a projection, a sorted result, the groups
  of an aggregation, or the raw pairs that DELETE … LIMIT is about to remove.  So "plain,
  ordered, aggregated and delete" are all instances of the two theorems below.
  Tie to the code: LIMIT correspondence group (the three Go copies run against stub children
  and compared batch by batch with `drainBatch`/`drainNext`).
-/
import Kvql.Proofs.LimitProofs

namespace Kvql.Properties.C08

open Kvql Kvql.Limit

/-- Row mode: for every offset, count and child result, draining `Next` yields exactly rows
    `start … start+count-1` of the child's rows (fewer only when the child ends first). -/
theorem limit_next (start count : Nat) (rows : List α) (fuel : Nat) (h : rows.length + 1 ≤ fuel) :
    drainNext start count fuel {} rows = (rows.drop start).take count :=
  Proofs.Limit.drainNext_eq start count rows fuel h

/-- Batch mode: for every offset, count, batch size and every way the child cuts its result into
    non-empty chunks, the concatenation of the batches is exactly `take count ∘ drop start`. -/
theorem limit_batch {α : Type} (start count bs : Nat) (chunks : List (List α))
    (hne : ∀ c ∈ chunks, c ≠ []) (fuel : Nat) (h : chunks.length + 1 ≤ fuel) :
    (drainBatch start count bs fuel {} chunks).flatten = (chunks.flatten.drop start).take count :=
  Proofs.Limit.drainBatch_flatten_eq start count bs chunks hne fuel h

/-- non-vacuity, and the case that used to fail: offset = chunk size = batch size -/
example : (∀ c ∈ [[0, 1, 2, 3], [4, 5, 6, 7]], c ≠ ([] : List Nat)) ∧
    drainBatch 4 2 4 3 {} [[0, 1, 2, 3], [4, 5, 6, 7]] = [[4, 5]] := by decide

/-- No batch handed to the caller is empty, so the caller's "stop at the first empty batch"
    never stops early. -/
theorem limit_batches_nonempty {α : Type} (start count bs fuel : Nat) (st : St) (chunks : List (List α)) :
    ∀ b ∈ drainBatch start count bs fuel st chunks, b ≠ [] :=
  Proofs.Limit.drainBatch_nonempty start count bs fuel st chunks

/-- Both iteration modes return the same rows. -/
theorem limit_modes_agree {α : Type} (start count bs : Nat) (chunks : List (List α))
    (hne : ∀ c ∈ chunks, c ≠ []) (fuel : Nat) (h : chunks.length + 1 ≤ fuel)
    (fuel' : Nat) (h' : chunks.flatten.length + 1 ≤ fuel') :
    (drainBatch start count bs fuel {} chunks).flatten = drainNext start count fuel' {} chunks.flatten :=
  Proofs.Limit.drainBatch_eq_drainNext start count bs chunks hne fuel h fuel' h'

end Kvql.Properties.C08
