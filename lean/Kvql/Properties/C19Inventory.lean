/-
  C19 drift detector (NOT a proof obligation of the property; see DESIGN.md §14.8).

  The package-level variables of /repo, regenerated on every run, are the known ones (tables, two
  configuration knobs, the default aggregation key).  A new package-level variable is harmless when it
  is a read-only table and dangerous when it is a cache, a pool or a counter that statement execution
  mutates through method calls (which `no_shared_writes` cannot see syntactically).  When the list
  differs this module stops building and `check` runs the enlarged RACE search of C19; it reports a
  violation only for a detected race or a concurrent-vs-alone difference.
-/
import Kvql.Generated.Inventory

namespace Kvql.Properties.C19Inventory
open Kvql.Generated

theorem package_vars_known :
    packageVars.map (·.1) = ["DefaultErrorPadding", "EnableFieldCache", "KVKeywordToString",
      "OperatorToString", "PlanBatchSize", "StringToOperator", "TokenTypeToString", "aggrFuncMap",
      "defaultAggrKey", "funcMap"] := by decide

end Kvql.Properties.C19Inventory
