/-
  C05  The field cache is invisible; every row has the announced shape.

  Model: `Kvql.Project` (Model/Project.lean) — the code that drives the cache: the scan plans' filter
  loops (`Next`: Clear, filter, stop at the first accepted pair; `Batch`: inner chunks of ≤ bs pairs,
  `FilterBatch`, `chooseIdxes`, `AdjustChunkCache`) and `ProjectionPlan` (`Clear`, `processProjection` /
  `processProjectionBatch` reading the cache by field name), over the evaluator models `exec` /
  `execBatch` and the `ExecuteCtx` model — for the PATCHED code (patches 01 02 03 05 of the cache
  component, 09 of the evaluator component).  Tie to the code: correspondence group PROJECT.

  A statement is given to the theorems as
    w        the WHERE expression the scan's filter holds,
    fields   the select list: (FieldNames[i], Fields[i]),
    A        the alias table: the (name, target) pairs of the alias references (`refs`),
  under the hypotheses
    `Functional A`      one target per name          (`GetNamedExpr` returns the first field of a name)
    `WF A w`, `FieldsWF A fields`   every alias reference of the filter and of the fields, nested ones
                        included, is an entry of A
    `FieldsAgree A fields`  the first field of a name evaluates, cache off, like the target(s) A has for
                        that name (they are the same node unless constant folding replaced the field's
                        root: C04)
  and, in batch mode,
    `DistinctFk chunks` the non-empty inner chunks of a `Batch` call start with different keys — true
                        of every cursor whose keys are distinct (`distinctFk_chunksOf`).
  No hypothesis on the data, on which pairs the filter rejects, or on errors: an evaluation error is
  the same error, at the same row, with the cache on and off.
-/
import Kvql.Proofs.CacheRowMode
import Kvql.Proofs.CacheBatchShape

namespace Kvql.Properties.C05
open Kvql Kvql.Project Kvql.Cache

/-- (a) Under `CacheOK` — whatever is cached under a name is the cache-free value, on the current pair,
    of that name's target — `Execute` with the cache on returns what it returns with the cache off,
    value or error, and re-establishes `CacheOK`.  `Clear` establishes `CacheOK` for any pair. -/
theorem row_cache_ok {A : Aliases} (hfun : Functional A) (e : Expr) (hw : WF A e) (kv : Pair) (c : Ctx)
    (hon : CtxOn c) (hok : CacheOK A c kv) :
    (exec e kv c).1 = nocache e kv ∧ CtxOn (exec e kv c).2 ∧ CacheOK A (exec e kv c).2 kv :=
  Cache.row_cache_ok hfun e hw kv c hon hok

theorem row_cache_ok_cleared {A : Aliases} (hfun : Functional A) (e : Expr) (hw : WF A e) (kv : Pair) (c : Ctx)
    (hon : CtxOn c) :
    (exec e kv c.clear).1 = nocache e kv ∧ CtxOn (exec e kv c.clear).2 ∧ CacheOK A (exec e kv c.clear).2 kv :=
  Cache.row_cache_ok_cleared hfun e hw kv c hon

/-- (b) Row mode: the drain of `ProjectionPlan.Next` over a scan returns the same rows and the same
    error with the cache on and off, for EVERY list of pairs the cursor yields — whatever pairs the
    filter rejects in between. -/
theorem row_mode_cache_invisible {A : Aliases} (hfun : Functional A) {w : Expr} (hw : WF A w) {fields : List Field}
    (hwf : FieldsWF A fields) (hag : FieldsAgree A fields) (pairs : List Pair) {con coff : Ctx}
    (hon : CtxOn con) (hoff : coff.enable = false) :
    (drainRow w fields pairs con).1 = (drainRow w fields pairs coff).1 :=
  Cache.row_mode_cache_invisible hfun hw hwf hag pairs hon hoff

/-- (b) …and both are the cache-free specification: the accepted pairs in order, each projected, up to
    the first failure. -/
theorem row_mode_eq_spec {A : Aliases} (hfun : Functional A) {w : Expr} (hw : WF A w) {fields : List Field}
    (hwf : FieldsWF A fields) (hag : FieldsAgree A fields) (pairs : List Pair) {c : Ctx} (hon : CtxOn c) :
    (drainRow w fields pairs c).1 = rowsSpec w fields pairs :=
  Cache.drainRow_on_eq_spec hfun hw hwf hag pairs hon

/-- (b) Without the `Clear` in `FilterExec.Filter` (the code before commit 374dfd6) the statement fails:
    `select key as k where k = 'b'` over (a,1), (b,2) returns nothing with the cache on and (b) with it
    off — although the statement meets every hypothesis. -/
theorem row_mode_needs_clear :
    (drainRowNoClear cexWhere cexFields cexPairs (Ctx.new true)).1.rows.length = 0 ∧
    (drainRowNoClear cexWhere cexFields cexPairs (Ctx.new false)).1.rows.length = 1 ∧
    (drainRow cexWhere cexFields cexPairs (Ctx.new true)).1.rows.length = 1 :=
  Cache.noClear_counterexample

/-- (c) Batch mode, any list of inner chunks (a cursor scan's, or `MultiGetPlan`'s): same rows, same error
    with the cache on and off, at every batch size. -/
theorem batch_cache_invisible_chunks {A : Aliases} (hfun : Functional A) {w : Expr} (hw : WF A w)
    {fields : List Field} (hwf : FieldsWF A fields) (hag : FieldsAgree A fields) (bs : Nat)
    (chunks : List (List Pair)) (hd : DistinctFk chunks) {con coff : Ctx} (hon : CtxOn con) (hoff : coff.enable = false) :
    (drainBatchChunks w fields bs chunks con).1 = (drainBatchChunks w fields bs chunks coff).1 :=
  Cache.batch_cache_invisible_chunks hfun hw hwf hag bs chunks hd hon hoff

/-- (c) Batch mode over the pairs a cursor yields: keys distinct (true of any `Storage`), `PlanBatchSize ≥ 1`. -/
theorem batch_cache_invisible {A : Aliases} (hfun : Functional A) {w : Expr} (hw : WF A w) {fields : List Field}
    (hwf : FieldsWF A fields) (hag : FieldsAgree A fields) {bs : Nat} (hbs : 1 ≤ bs) {pairs : List Pair}
    (hnd : (pairs.map (·.key)).Nodup) {con coff : Ctx} (hon : CtxOn con) (hoff : coff.enable = false) :
    (drainBatch w fields bs pairs con).1 = (drainBatch w fields bs pairs coff).1 :=
  Cache.batch_cache_invisible hfun hw hwf hag hbs hnd hon hoff

/-- (c) The key of the per-chunk cache, `chunkCacheKey(name, key)`, determines name and key… -/
theorem chunk_key_injective {n n' k k' : Bytes} (e : Ctx.chunkKey n k = Ctx.chunkKey n' k') : n = n' ∧ k = k' :=
  Cache.chunkKey_inj e

/-- (c) …which the key before the repair (`name-key`) did not: `a`,`b-k1` and `a-b`,`k1`. -/
theorem chunk_key_unpatched_collides :
    Ctx.chunkKeyUnpatched [97] [98, 45, 107, 49] = Ctx.chunkKeyUnpatched [97, 45, 98] [107, 49] :=
  Cache.chunkKeyUnpatched_collision

/-- (d) Row mode: every returned row belongs to a pair of the scan that the filter accepts, has exactly
    one column per announced field, in the announced order, and column j is the value of field j's
    expression on that pair. -/
theorem row_shape {A : Aliases} (hfun : Functional A) {w : Expr} (hw : WF A w) {fields : List Field}
    (hwf : FieldsWF A fields) (hag : FieldsAgree A fields) (pairs : List Pair) {c : Ctx} (hon : CtxOn c)
    {row : Row} (hrow : row ∈ (drainRow w fields pairs c).1.rows) :
    ∃ kv ∈ pairs, nocache w kv = .ok (.bool true) ∧ row.length = fields.length ∧
      ∀ (j : Nat) (hj : j < fields.length), ∃ v, row[j]? = some v ∧ nocache (fields[j]).expr kv = .ok v := by
  obtain ⟨kv, h1, h2, h3, h4⟩ := Cache.row_shape hfun hw hwf hag pairs hon hrow
  exact ⟨kv, h1, h2, h3, h4.get⟩

/-- (d) Batch mode: the same, column j being the batch value of field j on that pair (the pair as a chunk
    of its own, cache off)… -/
theorem batch_row_shape {A : Aliases} (hfun : Functional A) {w : Expr} (hw : WF A w) {fields : List Field}
    (hwf : FieldsWF A fields) (hag : FieldsAgree A fields) (bs : Nat) (chunks : List (List Pair)) (hd : DistinctFk chunks)
    {c : Ctx} (hon : CtxOn c) {row : Row} (hrow : row ∈ (drainBatchChunks w fields bs chunks c).1.rows) :
    ∃ kv ∈ chunks.flatten, PairVal w (.bool true) kv ∧ row.length = fields.length ∧
      ∀ (j : Nat) (hj : j < fields.length), ∃ v, row[j]? = some v ∧ PairVal (fields[j]).expr v kv := by
  obtain ⟨kv, h1, h2, h3, h4⟩ := Cache.batch_row_shape hfun hw hwf hag bs chunks hd hon hrow
  refine ⟨kv, h1, h2, h3, fun j hj => ?_⟩
  exact Kvql.Rows.get h4 j hj

/-- (d) …which is, by content, the row value of the expression (`vec_eq_map` of C03). -/
theorem batch_value_is_row_value {e : Expr} (hok : e.vecOk = true) {v : Value} {kv : Pair} (h : PairVal e v kv) :
    ∃ vr, nocache e kv = .ok vr ∧ Value.contentEq v vr :=
  Cache.single_row_value hok h

end Kvql.Properties.C05
