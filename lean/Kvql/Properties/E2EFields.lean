/-
  E2EFields  Whole SELECT statements WITH A FIELD LIST (statement kind (2) of E2E.lean: the projection
  driven by the field cache), with ORDER BY and LIMIT, over the end-to-end model
  `Kvql.Run.runQuery` / `Kvql.Run.runStmt` (Model/Run.lean).

  Setting of every theorem: a statement text `query` that `BuildPlan` accepts (`planStage`) as the
  SELECT `s`, without aggregate (`finalPlanCheck s = ok false`).  `{ s with order := none }` is the same
  statement without its ORDER BY clause, `{ s with limit := none }` without its LIMIT clause.

  (1) ROW MODE, every batch size ≥ 1, cache on or off — `run_fields_correct`, `run_fields_correct_spec`:
      for a statement WITHOUT ALIAS REFERENCES (`afStmt`) the rows are `map row` over exactly the stored
      pairs on which the WHERE holds, in key order; `row p` has one column per announced field
      (`projNames`) and column j is the value of select field j on `p`.  WHERE and fields are those of the
      PARSED statement, judged by the row evaluator `exec` with an empty cache (`ExecOK`; C04 carries the
      values across constant folding: a column is the value, or the same text as `[]byte` where the
      un-folded expression holds a Go string — `Kvql.Rel`), or, on the `core` sub-language, by the
      REFERENCE evaluator `Spec.eval` (`SpecOK`; C01 `exec_refines_spec`, C14 for the kinds).
      With alias references — `run_fields_correct_alias_partial`: the same, judged by `exec` with an empty
      cache on the FOLDED statement (`foldSelect s = ok f`: what the plan evaluates), under the decidable
      alias check `aliasOKb s f` (the hypotheses `Functional` / `FieldsAgree` of C05).  Missing for full
      strength: that the folded, re-pointed alias targets have the values of the parsed ones (C04 speaks of
      one expression; no component theorem covers `Parser.resolveTop` after folding).
  (2) CACHE INVISIBLE — `run_cache_invisible` (+ `_alias_free`): cache on and cache off give the same
      `Outcome` (failure, rows, final store, call log), errors included, for every non-aggregate SELECT
      (`select *` too, any ORDER BY / LIMIT): row mode on every store; batch mode on a sorted store.
      Hypothesis: `aliasOKb s f` — no hypothesis at all for a statement without alias references.
  (3) ORDER BY — `run_order_of_unordered` (either mode, relative to the statement without ORDER BY),
      `run_fields_order` (row mode, everything derived from `ExecOK`): a permutation of the rows of the
      same statement without ORDER BY in which no row is less than an earlier one under the keys (C07;
      hypothesis `RowOK` of C07 (d) on the rows).  `run_fields_order_elided`: `order by key asc` on the
      select field `key` builds no sort — the statement IS the statement without ORDER BY, and its rows are
      in key order because the scan yields key order.
  (4) LIMIT — `run_limit_of_unlimited` (either mode, every non-aggregate SELECT): if the statement
      without LIMIT succeeds, rows = `take n (drop s (rows without LIMIT))`; `run_fields_limit` (row mode,
      the success derived from `ExecOK`); `run_limit_modes_agree_partial`: both modes agree under LIMIT
      when they do without it.

  BATCH MODE for (1), (3), (4) — `run_fields_batch_partial`, `run_fields_modes_agree_partial`:
      `Run.projTrace` lays the evaluation side (`Project.drainBatchFuel`) over the storage side (`Plans`)
      and CHECKS that both hand out the same number of rows at every `Batch` call (`zipProj`).  That check
      is discharged (Proofs/RunFieldsLock*.lean: both sides take inner chunks until `PlanBatchSize` pairs
      are accepted — `pollsOf`).  The rows are judged by the VECTOR evaluator on the folded statement
      (`BatchEvalOK`: `ExecuteBatch` on each stored pair as a chunk of its own; C03 `batch_pairwise` extends
      it to every chunk), with the static side condition `vecOk` of C03 `vec_eq_map` on the folded WHERE (so
      that the batch verdict is the row evaluator's and C02 applies): one batch row per accepted stored pair,
      in key order, then ORDER BY / LIMIT as in row mode.  Batch and row values of a field agree BY CONTENT
      only (C03), so the two modes return rows that are content-equal column by column
      (`run_fields_modes_agree_partial`), not equal `Value`s.  Missing for full strength: the batch analogue
      of C04 (folding preserves `ExecuteBatch`) and of C01 `exec_refines_spec`, which would let the batch
      hypotheses be stated on the parsed statement / against the reference.
-/
import Kvql.Proofs.RunFieldsBatchThms
import Kvql.Properties.E2E

namespace Kvql.Properties.E2EFields
open Kvql Kvql.Run Kvql.Plans Kvql.Storage Kvql.Proofs.Typing Kvql.Proofs.RunFields
open Kvql.PlanCheck (planStage finalPlanCheck)
open Kvql.Refine

/-! ### (1) row mode -/

/-- **(1), alias-free statements, judged by `exec` on the parsed statement.** -/
theorem run_fields_correct (query : Bytes) (pf : Bytes → F64) (s : SelectS)
    (hplan : planStage pf (Lexer.split query) = .ok (.select s))
    (hnf : s.allFields = false) (hord : s.order = none) (hlim : s.limit = none)
    (hnoaggr : finalPlanCheck s = .ok false)
    (haf : afStmt s = true) (hnames : s.fieldNames.length = s.fields.length)
    (store : Store) (hs : store.Sorted) (hev : ExecOK s store) (bs : Nat) (hbs : 1 ≤ bs) (cache : Bool) :
    (runQuery query pf store .next bs cache).fail = none ∧
    (runQuery query pf store .next bs cache).world.store = store ∧
    ∃ row : SPair → List Value,
      (runQuery query pf store .next bs cache).rows = (store.filter (Select.accepted s.where_)).map row ∧
      ∀ p ∈ store, Select.accepted s.where_ p = true →
        (row p).length = (projNames s).length ∧ RowOf s p (row p) := by
  rw [runQuery_stmt query pf store .next bs cache hplan]
  have ho : OrderHypParsed s store := by unfold OrderHypParsed; rw [hord]; trivial
  obtain ⟨row, R', h0, h1, h2, h3, h4⟩ := runStmt_fields_parsed hnf hnoaggr haf hnames hs hev ho bs hbs cache
  unfold OrderedBy at h1
  rw [hord] at h1
  simp only at h1
  subst h1
  refine ⟨h2, h4 hlim, row, ?_, fun p hp ha => ⟨(h0 p hp ha).length hnames, h0 p hp ha⟩⟩
  rw [h3]; unfold sliceOf; rw [hlim]

/-- **(1), alias-free statements, judged by the reference evaluator** (the `core` sub-language). -/
theorem run_fields_correct_spec (query : Bytes) (pf : Bytes → F64) (s : SelectS)
    (hplan : planStage pf (Lexer.split query) = .ok (.select s))
    (hnf : s.allFields = false) (hord : s.order = none) (hlim : s.limit = none)
    (hnoaggr : finalPlanCheck s = .ok false)
    (haf : afStmt s = true) (hnames : s.fieldNames.length = s.fields.length)
    (store : Store) (hs : store.Sorted) (hsp : SpecOK s store) (bs : Nat) (hbs : 1 ≤ bs) (cache : Bool) :
    (runQuery query pf store .next bs cache).fail = none ∧
    (runQuery query pf store .next bs cache).world.store = store ∧
    ∃ row : SPair → List Value,
      (runQuery query pf store .next bs cache).rows =
        (store.filter (fun p => Spec.holds s.where_ ⟨p.1, p.2⟩)).map row ∧
      ∀ p ∈ store, Spec.holds s.where_ ⟨p.1, p.2⟩ = true →
        (row p).length = (projNames s).length ∧ RowOfSpec s p (row p) := by
  rw [runQuery_stmt query pf store .next bs cache hplan]
  have ho : OrderHypParsed s store := by unfold OrderHypParsed; rw [hord]; trivial
  obtain ⟨row, R', h0, h1, h2, h3, h4⟩ := runStmt_fields_spec hplan hnf hnoaggr haf hnames hs hsp ho bs hbs cache
  unfold OrderedBy at h1
  rw [hord] at h1
  simp only at h1
  subst h1
  refine ⟨h2, h4 hlim, row, ?_, fun p hp ha => ⟨?_, h0 p hp ha⟩⟩
  · rw [h3]; unfold sliceOf; rw [hlim]
  · rw [Rows.length_eq (h0 p hp ha), projNames, hnames]

/-- **(1), alias references allowed — partial**: judged by `exec` with an empty cache on the FOLDED
    statement `f`; `aliasOKb s f` is the decidable form of the alias hypotheses of C05. -/
theorem run_fields_correct_alias_partial (query : Bytes) (pf : Bytes → F64) (s : SelectS)
    (hplan : planStage pf (Lexer.split query) = .ok (.select s))
    (hnf : s.allFields = false) (hord : s.order = none) (hlim : s.limit = none)
    (hnoaggr : finalPlanCheck s = .ok false)
    (f : FoldedSelect) (hf : foldSelect s = .ok f) (hA : aliasOKb s f = true)
    (hnames : s.fieldNames.length = s.fields.length)
    (store : Store) (hs : store.Sorted) (hev : EvalOK s f store) (bs : Nat) (hbs : 1 ≤ bs) (cache : Bool) :
    (runQuery query pf store .next bs cache).fail = none ∧
    (runQuery query pf store .next bs cache).world.store = store ∧
    (runQuery query pf store .next bs cache).rows =
      (store.filter (Select.accepted f.where_)).map
        (fun p => (selFields s f).map (fun g => colVal g.expr p)) ∧
    ∀ r ∈ (runQuery query pf store .next bs cache).rows, r.length = (projNames s).length := by
  rw [runQuery_stmt query pf store .next bs cache hplan]
  have ho : OrderHyp s (specRows s f store) := by unfold OrderHyp; rw [hord]; trivial
  obtain ⟨R', h1, h2, h3, h4⟩ := runStmt_fields_rows hnf hnoaggr hf (aliasOK_of_check hA) hs hev ho bs hbs cache
  unfold OrderedBy at h1
  rw [hord] at h1
  simp only at h1
  subst h1
  have hr : (runStmt (.select s) store .next bs cache).rows = specRows s f store := by
    rw [h3]; unfold sliceOf; rw [hlim]
  refine ⟨h2, h4 hlim, hr, ?_⟩
  rw [hr]
  exact specRows_length hf hnames store

/-! ### (2) the field cache is invisible -/

/-- **(2)** cache on / off: the same `Outcome` — every non-aggregate SELECT, errors included. -/
theorem run_cache_invisible (query : Bytes) (pf : Bytes → F64) (s : SelectS)
    (hplan : planStage pf (Lexer.split query) = .ok (.select s)) (hnoaggr : finalPlanCheck s = .ok false)
    (f : FoldedSelect) (hf : foldSelect s = .ok f) (hA : aliasOKb s f = true)
    (store : Store) (kind : PollKind) (bs : Nat) (hbs : 1 ≤ bs) (hk : kind = .next ∨ store.Sorted) :
    runQuery query pf store kind bs true = runQuery query pf store kind bs false := by
  rw [runQuery_stmt query pf store kind bs true hplan, runQuery_stmt query pf store kind bs false hplan]
  exact runStmt_cache_invisible s hnoaggr hf (aliasOK_of_check hA) store kind bs hbs hk

/-- **(2)** for a statement without alias references: no further hypothesis. -/
theorem run_cache_invisible_alias_free (query : Bytes) (pf : Bytes → F64) (s : SelectS)
    (hplan : planStage pf (Lexer.split query) = .ok (.select s)) (hnoaggr : finalPlanCheck s = .ok false)
    (haf : afStmt s = true)
    (store : Store) (kind : PollKind) (bs : Nat) (hbs : 1 ≤ bs) (hk : kind = .next ∨ store.Sorted) :
    runQuery query pf store kind bs true = runQuery query pf store kind bs false := by
  obtain ⟨f, hf⟩ := foldSelect_total s
  rw [runQuery_stmt query pf store kind bs true hplan, runQuery_stmt query pf store kind bs false hplan]
  exact runStmt_cache_invisible s hnoaggr hf (aliasOK_of_af haf hf) store kind bs hbs hk

/-! ### (3) ORDER BY -/

/-- **(3), either mode, relative to the statement without ORDER BY** (C07 at statement level). -/
theorem run_order_of_unordered (query : Bytes) (pf : Bytes → F64) (s : SelectS)
    (hplan : planStage pf (Lexer.split query) = .ok (.select s)) (hnoaggr : finalPlanCheck s = .ok false)
    (o : OrderS) (ho : s.order = some o) (hne : elideOrder s o = false) (hlim : s.limit = none)
    (keys : List Order.Key) (hk : orderKeys (projNames s) (projTypes s) o = some keys)
    (store : Store) (kind : PollKind) (bs : Nat) (hbs : 1 ≤ bs) (cache : Bool)
    (hok : (runStmt (.select { s with order := none }) store kind bs cache).fail = none)
    (kinds : List Spec.Order.Kind)
    (hR : ∀ r ∈ (runStmt (.select { s with order := none }) store kind bs cache).rows, RowOKV keys kinds r) :
    (runQuery query pf store kind bs cache).fail = none ∧
    (runQuery query pf store kind bs cache).rows.Perm
      (runStmt (.select { s with order := none }) store kind bs cache).rows ∧
    (runQuery query pf store kind bs cache).rows.Pairwise (fun a b => lessV keys b a = false) := by
  rw [runQuery_stmt query pf store kind bs cache hplan]
  obtain ⟨h1, h2, h3, _⟩ := runStmt_order hnoaggr ho hne hlim hk store kind bs hbs cache hok kinds hR
  exact ⟨h1, h2, h3⟩

/-- **(3), row mode, alias-free statements**: everything derived from `ExecOK` and the kinds of the
    parsed fields' values (`OrderHypParsed`). -/
theorem run_fields_order (query : Bytes) (pf : Bytes → F64) (s : SelectS)
    (hplan : planStage pf (Lexer.split query) = .ok (.select s))
    (hnf : s.allFields = false) (hnoaggr : finalPlanCheck s = .ok false)
    (o : OrderS) (ho : s.order = some o) (hne : elideOrder s o = false) (hlim : s.limit = none)
    (keys : List Order.Key) (hk : orderKeys (projNames s) (projTypes s) o = some keys)
    (haf : afStmt s = true) (hnames : s.fieldNames.length = s.fields.length)
    (store : Store) (hs : store.Sorted) (hev : ExecOK s store)
    (kinds : List Spec.Order.Kind) (hst : kinds.all stableKind = true)
    (hR : ∀ p ∈ store, Select.accepted s.where_ p = true → RowOKV keys kinds (s.fields.map (colVal · p)))
    (bs : Nat) (hbs : 1 ≤ bs) (cache : Bool) :
    (runQuery query pf store .next bs cache).fail = none ∧
    (runQuery query pf store .next bs cache).rows.Perm
      (runStmt (.select { s with order := none }) store .next bs cache).rows ∧
    (runQuery query pf store .next bs cache).rows.Pairwise (fun a b => lessV keys b a = false) ∧
    -- the hypotheses of `run_order_of_unordered`, derived:
    (runStmt (.select { s with order := none }) store .next bs cache).fail = none ∧
    (∀ r ∈ (runStmt (.select { s with order := none }) store .next bs cache).rows, RowOKV keys kinds r) := by
  obtain ⟨f, hf⟩ := foldSelect_total s
  obtain ⟨hE, _, _⟩ := folded_of_execOK haf hf hnames hev
  -- the statement without ORDER BY
  have hW : OrderHyp { s with order := none } (specRows s f store) := trivial
  have hA := aliasOK_of_af haf hf
  obtain ⟨R', w1, w2, w3, _⟩ := runStmt_fields_rows (s := { s with order := none }) hnf hnoaggr hf
    ⟨hA.1, hA.2⟩ hs ⟨hE.1, hE.2⟩ hW bs hbs cache
  have w1' : R' = specRows s f store := w1
  subst w1'
  have w3' : (runStmt (.select { s with order := none }) store .next bs cache).rows = specRows s f store := by
    rw [w3]; unfold sliceOf; simp only [hlim]
  have hR' : ∀ r ∈ (runStmt (.select { s with order := none }) store .next bs cache).rows, RowOKV keys kinds r := by
    rw [w3']; exact specRows_rowOK_of_parsed haf hf hnames hev hst hR
  obtain ⟨h1, h2, h3⟩ := run_order_of_unordered query pf s hplan hnoaggr o ho hne hlim keys hk store .next bs hbs
    cache w2 kinds hR'
  exact ⟨h1, h2, h3, w2, hR'⟩

/-- **(3), the elided ORDER BY**: `order by key asc` on the select field `key`.  The statement is the
    statement without ORDER BY (every store, mode, batch size, cache setting) … -/
theorem run_fields_order_elided (query : Bytes) (pf : Bytes → F64) (s : SelectS)
    (hplan : planStage pf (Lexer.split query) = .ok (.select s)) (hnoaggr : finalPlanCheck s = .ok false)
    (o : OrderS) (ho : s.order = some o) (he : elideOrder s o = true)
    (store : Store) (kind : PollKind) (bs : Nat) (cache : Bool) :
    runQuery query pf store kind bs cache = runStmt (.select { s with order := none }) store kind bs cache := by
  rw [runQuery_stmt query pf store kind bs cache hplan]
  exact runStmt_elide hnoaggr ho he store kind bs cache

/-- … and its rows ARE sorted under the keys of the clause, because the scan yields key order (row mode,
    alias-free statements). -/
theorem run_fields_order_elided_sorted (query : Bytes) (pf : Bytes → F64) (s : SelectS)
    (hplan : planStage pf (Lexer.split query) = .ok (.select s))
    (hnf : s.allFields = false) (hnoaggr : finalPlanCheck s = .ok false)
    (o : OrderS) (ho : s.order = some o) (he : elideOrder s o = true) (hlim : s.limit = none)
    (keys : List Order.Key) (hk : orderKeys (projNames s) (projTypes s) o = some keys)
    (haf : afStmt s = true) (hnames : s.fieldNames.length = s.fields.length)
    (store : Store) (hs : store.Sorted) (hev : ExecOK s store) (bs : Nat) (hbs : 1 ≤ bs) (cache : Bool) :
    (runQuery query pf store .next bs cache).fail = none ∧
    (runQuery query pf store .next bs cache).rows.Pairwise (fun a b => lessV keys b a = false) := by
  rw [runQuery_stmt query pf store .next bs cache hplan]
  obtain ⟨f, hf⟩ := foldSelect_total s
  obtain ⟨hE, _, _⟩ := folded_of_execOK haf hf hnames hev
  have hoh : OrderHyp s (specRows s f store) := by unfold OrderHyp; rw [ho]; exact .inl he
  obtain ⟨R', w1, w2, w3, _⟩ := runStmt_fields_rows hnf hnoaggr hf (aliasOK_of_af haf hf) hs hE hoh bs hbs cache
  unfold OrderedBy at w1
  rw [ho] at w1
  simp only [he, if_true] at w1
  subst w1
  refine ⟨w2, ?_⟩
  rw [w3]; unfold sliceOf; rw [hlim]
  exact specRows_sorted_elide hf hs he hk

/-! ### (4) LIMIT -/

/-- **(4), either mode, every non-aggregate SELECT** (C08 at statement level): if the statement without
    LIMIT succeeds, the statement returns rows `start … start+count-1` of its rows. -/
theorem run_limit_of_unlimited (query : Bytes) (pf : Bytes → F64) (s : SelectS)
    (hplan : planStage pf (Lexer.split query) = .ok (.select s)) (hnoaggr : finalPlanCheck s = .ok false)
    (l : LimitS) (hl : s.limit = some l)
    (store : Store) (kind : PollKind) (bs : Nat) (hbs : 1 ≤ bs) (cache : Bool)
    (hok : (runStmt (.select { s with limit := none }) store kind bs cache).fail = none) :
    (runQuery query pf store kind bs cache).fail = none ∧
    (runQuery query pf store kind bs cache).rows =
      ((runStmt (.select { s with limit := none }) store kind bs cache).rows.drop l.start.toInt.toNat).take
        l.count.toInt.toNat := by
  rw [runQuery_stmt query pf store kind bs cache hplan]
  exact runStmt_limit hnoaggr hl store kind bs hbs cache hok

/-- **(4), row mode, alias-free statements** (with or without ORDER BY): the success of the statement
    without LIMIT is derived from `ExecOK` (and `OrderHypParsed` when there is a sorting ORDER BY). -/
theorem run_fields_limit (query : Bytes) (pf : Bytes → F64) (s : SelectS)
    (hplan : planStage pf (Lexer.split query) = .ok (.select s))
    (hnf : s.allFields = false) (hnoaggr : finalPlanCheck s = .ok false)
    (l : LimitS) (hl : s.limit = some l)
    (haf : afStmt s = true) (hnames : s.fieldNames.length = s.fields.length)
    (store : Store) (hs : store.Sorted) (hev : ExecOK s store) (ho : OrderHypParsed s store)
    (bs : Nat) (hbs : 1 ≤ bs) (cache : Bool) :
    (runQuery query pf store .next bs cache).fail = none ∧
    (runStmt (.select { s with limit := none }) store .next bs cache).fail = none ∧
    (runQuery query pf store .next bs cache).rows =
      ((runStmt (.select { s with limit := none }) store .next bs cache).rows.drop l.start.toInt.toNat).take
        l.count.toInt.toNat := by
  have hV : OrderHypParsed { s with limit := none } store := ho
  obtain ⟨_, _, _, _, v2, _, _⟩ := runStmt_fields_parsed (s := { s with limit := none }) hnf hnoaggr haf hnames hs
    ⟨hev.1, hev.2⟩ hV bs hbs cache
  obtain ⟨h1, h2⟩ := run_limit_of_unlimited query pf s hplan hnoaggr l hl store .next bs hbs cache v2
  exact ⟨h1, v2, h2⟩

/-- **(4), both modes — partial**: if the statement without LIMIT succeeds in row mode and in batch
    mode with the same rows, so does the statement with LIMIT.  (That the two modes agree without LIMIT is
    E2E `run_star_modes_agree_partial` for `select *`; for a field list batch and row values agree by
    content only, C03.) -/
theorem run_limit_modes_agree_partial (query : Bytes) (pf : Bytes → F64) (s : SelectS)
    (hplan : planStage pf (Lexer.split query) = .ok (.select s)) (hnoaggr : finalPlanCheck s = .ok false)
    (l : LimitS) (hl : s.limit = some l)
    (store : Store) (bs bs' : Nat) (hbs : 1 ≤ bs) (hbs' : 1 ≤ bs') (cache cache' : Bool)
    (hokN : (runStmt (.select { s with limit := none }) store .next bs' cache').fail = none)
    (hokB : (runStmt (.select { s with limit := none }) store .batch bs cache).fail = none)
    (heq : (runStmt (.select { s with limit := none }) store .next bs' cache').rows =
      (runStmt (.select { s with limit := none }) store .batch bs cache).rows) :
    (runQuery query pf store .next bs' cache').fail = none ∧
    (runQuery query pf store .batch bs cache).fail = none ∧
    (runQuery query pf store .next bs' cache').rows = (runQuery query pf store .batch bs cache).rows := by
  rw [runQuery_stmt query pf store .next bs' cache' hplan, runQuery_stmt query pf store .batch bs cache hplan]
  exact runStmt_limit_modes_agree hnoaggr hl store bs bs' hbs hbs' cache cache' hokN hokB heq

/-- **(1) + (3) + (4), row mode, alias references allowed — partial**: judged on the folded statement.
    `R'` is what ORDER BY makes of the projected accepted pairs (`OrderedBy`: the rows themselves, or a
    sorted permutation), the statement returns the slice of `R'` that LIMIT asks for. -/
theorem run_fields_order_limit_alias_partial (query : Bytes) (pf : Bytes → F64) (s : SelectS)
    (hplan : planStage pf (Lexer.split query) = .ok (.select s))
    (hnf : s.allFields = false) (hnoaggr : finalPlanCheck s = .ok false)
    (f : FoldedSelect) (hf : foldSelect s = .ok f) (hA : aliasOKb s f = true)
    (store : Store) (hs : store.Sorted) (hev : EvalOK s f store) (ho : OrderHyp s (specRows s f store))
    (bs : Nat) (hbs : 1 ≤ bs) (cache : Bool) :
    ∃ R', OrderedBy s (specRows s f store) R' ∧
      (runQuery query pf store .next bs cache).fail = none ∧
      (runQuery query pf store .next bs cache).rows = sliceOf s.limit R' := by
  rw [runQuery_stmt query pf store .next bs cache hplan]
  obtain ⟨R', h1, h2, h3, _⟩ := runStmt_fields_rows hnf hnoaggr hf (aliasOK_of_check hA) hs hev ho bs hbs cache
  exact ⟨R', h1, h2, h3⟩

/-! ### batch mode -/

/-- **(1) + (3) + (4), batch mode — partial**: judged by the vector evaluator on the folded statement.
    `specRowsB s f store` = one batch row (`batchRow`: per field its `ExecuteBatch` value on the pair) per
    stored pair the WHERE accepts, in key order; `R'` is what ORDER BY makes of them, the statement returns
    the slice LIMIT asks for. -/
theorem run_fields_batch_partial (query : Bytes) (pf : Bytes → F64) (s : SelectS)
    (hplan : planStage pf (Lexer.split query) = .ok (.select s))
    (hnf : s.allFields = false) (hnoaggr : finalPlanCheck s = .ok false)
    (f : FoldedSelect) (hf : foldSelect s = .ok f) (hA : aliasOKb s f = true) (hok : f.where_.vecOk = true)
    (store : Store) (hs : store.Sorted) (hev : BatchEvalOK s f store) (ho : OrderHyp s (specRowsB s f store))
    (bs : Nat) (hbs : 1 ≤ bs) (cache : Bool) :
    ∃ R', OrderedBy s (specRowsB s f store) R' ∧
      (runQuery query pf store .batch bs cache).fail = none ∧
      (runQuery query pf store .batch bs cache).rows = sliceOf s.limit R' ∧
      (s.limit = none → (runQuery query pf store .batch bs cache).world.store = store) := by
  rw [runQuery_stmt query pf store .batch bs cache hplan]
  exact runStmt_fields_rows_batch hnf hnoaggr hf (aliasOK_of_check hA) hok hs hev ho bs hbs cache

/-- **row mode and batch mode — partial**: a statement without ORDER BY / LIMIT under the hypotheses of
    both modes, all fields `vecOk`: both succeed, for the same stored pairs, with rows that agree column by
    column by content (any two batch sizes, cache on or off on either side). -/
theorem run_fields_modes_agree_partial (query : Bytes) (pf : Bytes → F64) (s : SelectS)
    (hplan : planStage pf (Lexer.split query) = .ok (.select s))
    (hnf : s.allFields = false) (hord : s.order = none) (hlim : s.limit = none)
    (hnoaggr : finalPlanCheck s = .ok false)
    (f : FoldedSelect) (hf : foldSelect s = .ok f) (hA : aliasOKb s f = true)
    (hok : f.where_.vecOk = true) (hvf : ∀ g ∈ selFields s f, g.expr.vecOk = true)
    (store : Store) (hs : store.Sorted) (hevN : EvalOK s f store) (hevB : BatchEvalOK s f store)
    (bs bs' : Nat) (hbs : 1 ≤ bs) (hbs' : 1 ≤ bs') (cache cache' : Bool) :
    (runQuery query pf store .batch bs cache).fail = none ∧
    (runQuery query pf store .next bs' cache').fail = none ∧
    Rows (fun rb rn => Rows (fun (vb vr : Value) => Value.contentEq vb vr) rb rn)
      (runQuery query pf store .batch bs cache).rows (runQuery query pf store .next bs' cache').rows := by
  have hoB : OrderHyp s (specRowsB s f store) := by unfold OrderHyp; rw [hord]; trivial
  have hoN : OrderHyp s (specRows s f store) := by unfold OrderHyp; rw [hord]; trivial
  obtain ⟨RB, b1, b2, b3, _⟩ := run_fields_batch_partial query pf s hplan hnf hnoaggr f hf hA hok store hs hevB hoB bs
    hbs cache
  obtain ⟨RN, n1, n2, n3⟩ := run_fields_order_limit_alias_partial query pf s hplan hnf hnoaggr f hf hA store hs hevN hoN
    bs' hbs' cache'
  unfold OrderedBy at b1 n1
  rw [hord] at b1 n1
  simp only at b1 n1
  subst b1 n1
  refine ⟨b2, n2, ?_⟩
  rw [b3, n3]
  unfold sliceOf
  rw [hlim]
  exact specRows_content hvf hevB

/-! ### non-vacuity: statement texts over the store {a=9, ab=5, b=1, c=7} (`Select.exStore`)

Every hypothesis of every theorem above is checked BY COMPUTATION on the text (kernel evaluation of the
lexer, the parser, the checker, the plan-time validation and the evaluators), then the theorem is applied. -/

def pf0 : Bytes → F64 := fun _ => F64.zero
abbrev st0 : Store := Select.exStore
theorem st0_sorted : st0.Sorted := by decide

/-! #### `select key, int(value) + 1 where key > 'a'` -/

def qA : Bytes := asciiBytes "select key, int(value) + 1 where key > 'a'"

/-- the hypotheses of `run_fields_correct` and of `run_fields_correct_spec` -/
def hypsA (s : SelectS) : Bool :=
  !s.allFields && s.order.isNone && s.limit.isNone && noAggrB s && afStmt s &&
  (s.fieldNames.length == s.fields.length) && execOKb s st0 && specOKb s st0

theorem qA_hyps : stmtCheck hypsA (planStage pf0 (Lexer.split qA)) = true := by decide +kernel

theorem qA_inv : ∃ s, planStage pf0 (Lexer.split qA) = .ok (.select s) ∧ s.allFields = false ∧ s.order = none ∧
    s.limit = none ∧ finalPlanCheck s = .ok false ∧ afStmt s = true ∧ s.fieldNames.length = s.fields.length ∧
    ExecOK s st0 ∧ SpecOK s st0 := by
  obtain ⟨s, hplan, h⟩ := stmtCheck_sound qA_hyps
  simp only [hypsA, Bool.and_eq_true, Bool.not_eq_true', Option.isNone_iff_eq_none, beq_iff_eq] at h
  obtain ⟨⟨⟨⟨⟨⟨⟨h1, h2⟩, h3⟩, h4⟩, h5⟩, h6⟩, h7⟩, h8⟩ := h
  exact ⟨s, hplan, h1, h2, h3, noAggrB_sound h4, h5, h6, execOK_of_check h7, specOK_of_check h8⟩

/-- `run_fields_correct`: row mode, batch size 3, cache on — the rows are `map row` over the stored pairs
    with `key > 'a'` -/
example : ∃ s, planStage pf0 (Lexer.split qA) = .ok (.select s) ∧
    (runQuery qA pf0 st0 .next 3 true).fail = none ∧
    ∃ row : SPair → List Value,
      (runQuery qA pf0 st0 .next 3 true).rows = (st0.filter (Select.accepted s.where_)).map row := by
  obtain ⟨s, hplan, h1, h2, h3, h4, h5, h6, h7, _⟩ := qA_inv
  obtain ⟨r1, _, row, r3, _⟩ := run_fields_correct qA pf0 s hplan h1 h2 h3 h4 h5 h6 st0 st0_sorted h7 3 (by decide) true
  exact ⟨s, hplan, r1, row, r3⟩

/-- `run_fields_correct_spec`: … against the reference evaluator -/
example : ∃ s, planStage pf0 (Lexer.split qA) = .ok (.select s) ∧
    ∃ row : SPair → List Value,
      (runQuery qA pf0 st0 .next 1 false).rows = (st0.filter (fun p => Spec.holds s.where_ ⟨p.1, p.2⟩)).map row ∧
      ∀ p ∈ st0, Spec.holds s.where_ ⟨p.1, p.2⟩ = true → RowOfSpec s p (row p) := by
  obtain ⟨s, hplan, h1, h2, h3, h4, h5, h6, _, h8⟩ := qA_inv
  obtain ⟨_, _, row, r3, r4⟩ := run_fields_correct_spec qA pf0 s hplan h1 h2 h3 h4 h5 h6 st0 st0_sorted h8 1
    (by decide) false
  exact ⟨s, hplan, row, r3, fun p hp hh => (r4 p hp hh).2⟩

/-- `run_cache_invisible_alias_free`: batch mode, batch size 2 -/
example : runQuery qA pf0 st0 .batch 2 true = runQuery qA pf0 st0 .batch 2 false := by
  obtain ⟨s, hplan, _, _, _, h4, h5, _⟩ := qA_inv
  exact run_cache_invisible_alias_free qA pf0 s hplan h4 h5 st0 .batch 2 (by decide) (.inr st0_sorted)

/-! #### `select key, int(value) + 1 as n where key > 'a' order by n desc` (and `… limit 1, 2`) -/

def qO : Bytes := asciiBytes "select key, int(value) + 1 as n where key > 'a' order by n desc"
def qL : Bytes := asciiBytes "select key, int(value) + 1 as n where key > 'a' order by n desc limit 1, 2"

/-- the hypotheses of `run_fields_order` (column `n` holds int64 values: kind `int`) -/
def hypsO (s : SelectS) : Bool :=
  !s.allFields && noAggrB s && afStmt s && (s.fieldNames.length == s.fields.length) && execOKb s st0 &&
  orderCheck s st0 [.int]

theorem qO_hyps : stmtCheck (fun s => hypsO s && s.limit.isNone) (planStage pf0 (Lexer.split qO)) = true := by
  decide +kernel
theorem qL_hyps : stmtCheck (fun s => hypsO s && s.limit.isSome) (planStage pf0 (Lexer.split qL)) = true := by
  decide +kernel

theorem hypsO_sound {s : SelectS} (h : hypsO s = true) :
    s.allFields = false ∧ finalPlanCheck s = .ok false ∧ afStmt s = true ∧ s.fieldNames.length = s.fields.length ∧
    ExecOK s st0 ∧ ∃ o keys, s.order = some o ∧ elideOrder s o = false ∧
      orderKeys (projNames s) (projTypes s) o = some keys ∧
      ∀ p ∈ st0, Select.accepted s.where_ p = true → RowOKV keys [.int] (s.fields.map (colVal · p)) := by
  simp only [hypsO, Bool.and_eq_true, Bool.not_eq_true', beq_iff_eq] at h
  obtain ⟨⟨⟨⟨⟨h1, h2⟩, h3⟩, h4⟩, h5⟩, h6⟩ := h
  obtain ⟨o, keys, o1, o2, o3, _, o5⟩ := orderCheck_sound h6
  exact ⟨h1, noAggrB_sound h2, h3, h4, execOK_of_check h5, o, keys, o1, o2, o3, o5⟩

/-- `run_fields_order` (and with it the hypotheses of `run_order_of_unordered`, row mode): a sorted
    permutation of the rows of the statement without ORDER BY -/
example : ∃ s, planStage pf0 (Lexer.split qO) = .ok (.select s) ∧
    (runQuery qO pf0 st0 .next 2 true).fail = none ∧
    (runQuery qO pf0 st0 .next 2 true).rows.Perm (runStmt (.select { s with order := none }) st0 .next 2 true).rows := by
  obtain ⟨s, hplan, h⟩ := stmtCheck_sound qO_hyps
  simp only [Bool.and_eq_true, Option.isNone_iff_eq_none] at h
  obtain ⟨h1, h2, h3, h4, h5, o, keys, o1, o2, o3, o5⟩ := hypsO_sound h.1
  obtain ⟨r1, r2, _⟩ := run_fields_order qO pf0 s hplan h1 h2 o o1 o2 h.2 keys o3 h3 h4 st0 st0_sorted h5 [.int]
    (by decide) o5 2 (by decide) true
  exact ⟨s, hplan, r1, r2⟩

/-- `run_order_of_unordered`: its two hypotheses about the statement without ORDER BY hold here (they are
    the last two conclusions of `run_fields_order`) -/
example : ∃ s o keys, planStage pf0 (Lexer.split qO) = .ok (.select s) ∧ s.order = some o ∧
    orderKeys (projNames s) (projTypes s) o = some keys ∧
    (runStmt (.select { s with order := none }) st0 .next 2 true).fail = none ∧
    (∀ r ∈ (runStmt (.select { s with order := none }) st0 .next 2 true).rows, RowOKV keys [.int] r) ∧
    (runQuery qO pf0 st0 .next 2 true).rows.Pairwise (fun a b => lessV keys b a = false) := by
  obtain ⟨s, hplan, h⟩ := stmtCheck_sound qO_hyps
  simp only [Bool.and_eq_true, Option.isNone_iff_eq_none] at h
  obtain ⟨h1, h2, h3, h4, h5, o, keys, o1, o2, o3, o5⟩ := hypsO_sound h.1
  obtain ⟨_, _, _, w1, w2⟩ := run_fields_order qO pf0 s hplan h1 h2 o o1 o2 h.2 keys o3 h3 h4 st0 st0_sorted h5 [.int]
    (by decide) o5 2 (by decide) true
  obtain ⟨_, _, r3⟩ := run_order_of_unordered qO pf0 s hplan h2 o o1 o2 h.2 keys o3 st0 .next 2 (by decide) true w1
    [.int] w2
  exact ⟨s, o, keys, hplan, o1, o3, w1, w2, r3⟩

/-- `run_fields_limit` and `run_limit_of_unlimited`: `… order by n desc limit 1, 2` returns rows 1 and 2 of
    the statement without LIMIT -/
example : ∃ s l, planStage pf0 (Lexer.split qL) = .ok (.select s) ∧ s.limit = some l ∧
    (runQuery qL pf0 st0 .next 2 false).fail = none ∧
    (runStmt (.select { s with limit := none }) st0 .next 2 false).fail = none ∧
    (runQuery qL pf0 st0 .next 2 false).rows =
      ((runStmt (.select { s with limit := none }) st0 .next 2 false).rows.drop l.start.toInt.toNat).take
        l.count.toInt.toNat := by
  obtain ⟨s, hplan, h⟩ := stmtCheck_sound qL_hyps
  simp only [Bool.and_eq_true] at h
  obtain ⟨l, hl⟩ := Option.isSome_iff_exists.mp h.2
  obtain ⟨h1, h2, h3, h4, h5, o, keys, o1, o2, o3, o5⟩ := hypsO_sound h.1
  have hop : OrderHypParsed s st0 := by
    unfold OrderHypParsed; rw [o1]; exact .inr ⟨keys, [.int], o3, by decide, o5⟩
  obtain ⟨r1, r2, r3⟩ := run_fields_limit qL pf0 s hplan h1 h2 l hl h3 h4 st0 st0_sorted h5 hop 2 (by decide) false
  -- the same through the mode-independent theorem
  have := run_limit_of_unlimited qL pf0 s hplan h2 l hl st0 .next 2 (by decide) false r2
  exact ⟨s, l, hplan, hl, r1, r2, r3⟩

/-! #### `select key, int(value) + 1 where key > 'a' order by key asc`: the elided ORDER BY -/

def qE : Bytes := asciiBytes "select key, int(value) + 1 where key > 'a' order by key asc"

theorem qE_hyps : stmtCheck (fun s => !s.allFields && noAggrB s && afStmt s &&
    (s.fieldNames.length == s.fields.length) && execOKb s st0 && elideCheck s && s.limit.isNone)
    (planStage pf0 (Lexer.split qE)) = true := by decide +kernel

/-- `run_fields_order_elided`, `run_fields_order_elided_sorted` -/
example : ∃ s keys, planStage pf0 (Lexer.split qE) = .ok (.select s) ∧
    runQuery qE pf0 st0 .batch 2 true = runStmt (.select { s with order := none }) st0 .batch 2 true ∧
    (runQuery qE pf0 st0 .next 2 true).rows.Pairwise (fun a b => lessV keys b a = false) := by
  obtain ⟨s, hplan, h⟩ := stmtCheck_sound qE_hyps
  simp only [Bool.and_eq_true, Bool.not_eq_true', beq_iff_eq, Option.isNone_iff_eq_none] at h
  obtain ⟨⟨⟨⟨⟨⟨h1, h2⟩, h3⟩, h4⟩, h5⟩, h6⟩, h7⟩ := h
  obtain ⟨o, keys, o1, o2, o3⟩ := elideCheck_sound h6
  have e1 := run_fields_order_elided qE pf0 s hplan (noAggrB_sound h2) o o1 o2 st0 .batch 2 true
  obtain ⟨_, e2⟩ := run_fields_order_elided_sorted qE pf0 s hplan h1 (noAggrB_sound h2) o o1 o2 h7 keys o3 h3 h4 st0
    st0_sorted (execOK_of_check h5) 2 (by decide) true
  exact ⟨s, keys, hplan, e1, e2⟩

/-! #### `select key as k, value where k > 'a'`: an alias reference in the WHERE -/

def qK : Bytes := asciiBytes "select key as k, value where k > 'a'"

/-- the trees of `qK` as the parser and the checker leave them -/
def kW : Expr := .binop 31 .gt (.ref 29 [107] (.field 7 .key)) (.str 33 [97])
def kFs : List Expr := [.field 7 .key, .field 17 .value]
def kNs : List Bytes := [[107], [86, 65, 76, 85, 69]]
/-- … and folded: nothing to fold, the reference re-pointed at the same target -/
def kF : FoldedSelect := { where_ := kW, fields := kFs, nodes := kFs }
/-- a statement with the field names of `qK` (the alias checks look at the names only) -/
def kS : SelectS :=
  { where_ := kW, pos := 0, allFields := false, fields := kFs, fieldNames := kNs, fieldTypes := [], wherePos := 0,
    order := none, groupBy := none, limit := none }

theorem qK_hyps : stmtCheck (fun s => !s.allFields && s.order.isNone && s.limit.isNone && noAggrB s &&
    (s.fieldNames.length == s.fields.length) && Expr.same s.where_ kW && Expr.sameList s.fields kFs &&
    (s.fieldNames == kNs)) (planStage pf0 (Lexer.split qK)) = true := by decide +kernel

theorem foldSelect_k (s : SelectS) (hw : s.where_ = kW) (hfs : s.fields = kFs) (hn : s.fieldNames = kNs) :
    foldSelect s = .ok kF := by
  unfold foldSelect
  rw [hw, hfs, hn]
  simp [kW, kFs, kNs, kF, Fold.optimizeBoth, Fold.pass, Fold.reorder, Fold.binExec, Fold.operand, Fold.andOr,
    bind, Except.bind, pure, Except.pure, Parser.resolveTop, Parser.resolve, Parser.mapRefs, Tbl.find, Tbl.find.go]

theorem kS_checks : aliasOKb kS kF = true ∧ evalOKb kS kF st0 = true := by
  constructor <;> decide +kernel

theorem qK_inv : ∃ s, planStage pf0 (Lexer.split qK) = .ok (.select s) ∧ s.allFields = false ∧ s.order = none ∧
    s.limit = none ∧ finalPlanCheck s = .ok false ∧ s.fieldNames.length = s.fields.length ∧
    foldSelect s = .ok kF ∧ aliasOKb s kF = true ∧ EvalOK s kF st0 ∧ s.fieldNames = kNs := by
  obtain ⟨s, hplan, h⟩ := stmtCheck_sound qK_hyps
  simp only [Bool.and_eq_true, Bool.not_eq_true', Option.isNone_iff_eq_none, beq_iff_eq] at h
  obtain ⟨⟨⟨⟨⟨⟨⟨h1, h2⟩, h3⟩, h4⟩, h5⟩, h6⟩, h7⟩, h8⟩ := h
  have hw := Expr.eq_of_same _ _ h6
  have hfs := Expr.eq_of_sameList _ _ h7
  have hn : s.fieldNames = kS.fieldNames := h8
  refine ⟨s, hplan, h1, h2, h3, noAggrB_sound h4, h5, foldSelect_k s hw hfs h8, ?_, ?_, h8⟩
  · rw [aliasOKb_congr hn]; exact kS_checks.1
  · apply evalOK_of_check; rw [evalOKb_congr hn]; exact kS_checks.2

/-- `run_fields_correct_alias_partial` -/
example : (runQuery qK pf0 st0 .next 2 true).fail = none ∧
    ∀ r ∈ (runQuery qK pf0 st0 .next 2 true).rows, r.length = 2 := by
  obtain ⟨s, hplan, h1, h2, h3, h4, h5, hf, hA, hE, hn⟩ := qK_inv
  have h12 : 1 ≤ 2 := by decide
  obtain ⟨r1, _, _, r4⟩ := run_fields_correct_alias_partial qK pf0 s hplan h1 h2 h3 h4 kF hf hA h5 st0 st0_sorted hE 2
    h12 true
  refine ⟨r1, fun r hr => ?_⟩
  have hl : (projNames s).length = 2 := by rw [projNames, hn]; rfl
  rw [r4 r hr, hl]

/-- `run_cache_invisible` with an alias reference: row mode and batch mode -/
example : runQuery qK pf0 st0 .next 1 true = runQuery qK pf0 st0 .next 1 false ∧
    runQuery qK pf0 st0 .batch 3 true = runQuery qK pf0 st0 .batch 3 false := by
  obtain ⟨s, hplan, _, _, _, h4, _, hf, hA, _, _⟩ := qK_inv
  exact ⟨run_cache_invisible qK pf0 s hplan h4 kF hf hA st0 .next 1 (by decide) (.inl rfl),
    run_cache_invisible qK pf0 s hplan h4 kF hf hA st0 .batch 3 (by decide) (.inr st0_sorted)⟩

/-- `run_fields_order_limit_alias_partial` (no ORDER BY / LIMIT in `qK`: `R'` is the projection itself) -/
example : ∃ s, planStage pf0 (Lexer.split qK) = .ok (.select s) ∧
    (runQuery qK pf0 st0 .next 2 false).rows = specRows s kF st0 := by
  obtain ⟨s, hplan, h1, h2, h3, h4, _, hf, hA, hE, _⟩ := qK_inv
  have ho : OrderHyp s (specRows s kF st0) := by unfold OrderHyp; rw [h2]; trivial
  obtain ⟨R', r1, _, r3⟩ := run_fields_order_limit_alias_partial qK pf0 s hplan h1 h4 kF hf hA st0 st0_sorted hE ho 2
    (by decide) false
  unfold OrderedBy at r1
  rw [h2] at r1
  simp only at r1
  subst r1
  refine ⟨s, hplan, ?_⟩
  rw [r3]; unfold sliceOf; rw [h3]

theorem kS_batch : kW.vecOk = true ∧ kFs.all Expr.vecOk = true ∧ batchEvalOKb kS kF st0 = true := by
  refine ⟨by decide, by decide, by decide +kernel⟩

/-- `run_fields_batch_partial` and `run_fields_modes_agree_partial` on `qK`: batch mode (batch size 2, cache
    on) succeeds, and its rows agree by content with those of row mode (batch size 1, cache off) -/
example : (runQuery qK pf0 st0 .batch 2 true).fail = none ∧
    Rows (fun rb rn => Rows (fun (vb vr : Value) => Value.contentEq vb vr) rb rn)
      (runQuery qK pf0 st0 .batch 2 true).rows (runQuery qK pf0 st0 .next 1 false).rows := by
  obtain ⟨s, hplan, h1, h2, h3, h4, _, hf, hA, hE, hn⟩ := qK_inv
  have hn' : s.fieldNames = kS.fieldNames := hn
  have hB : BatchEvalOK s kF st0 := by
    apply batchEvalOK_of_check; rw [batchEvalOKb_congr hn']; exact kS_batch.2.2
  have hvf : ∀ g ∈ selFields s kF, g.expr.vecOk = true := by
    intro g hg
    unfold selFields at hg
    obtain ⟨⟨nm, e⟩, hp, rfl⟩ := List.mem_map.mp hg
    have he : e ∈ kFs := (List.of_mem_zip hp).2
    exact List.all_eq_true.mp kS_batch.2.1 e he
  have hoB : OrderHyp s (specRowsB s kF st0) := by unfold OrderHyp; rw [h2]; trivial
  have h12 : 1 ≤ 2 := by decide
  have h11 : 1 ≤ 1 := by decide
  obtain ⟨_, _, b2, _⟩ := run_fields_batch_partial qK pf0 s hplan h1 h4 kF hf hA kS_batch.1 st0 st0_sorted hB hoB 2 h12
    true
  obtain ⟨_, _, m3⟩ := run_fields_modes_agree_partial qK pf0 s hplan h1 h2 h3 h4 kF hf hA kS_batch.1 hvf st0 st0_sorted
    hE hB 2 1 h12 h11 true false
  exact ⟨b2, m3⟩

/-! #### `select * where key > 'a' & int(value) + 1 > 2 limit 1, 1` (E2E `exQueryL`): both modes under LIMIT -/

theorem exQueryL_where : stmtCheck (fun s => s.allFields && s.order.isNone && s.limit.isSome && noAggrB s &&
    aliasFree s.where_ && Expr.same s.where_ E2E.exW) (planStage E2E.pf0 (Lexer.split E2E.exQueryL)) = true := by
  decide +kernel

/-- `run_limit_modes_agree_partial`: its hypotheses about the statement without LIMIT hold (by
    `runStmt_star_noLimit`, the form of E2E `run_star_modes_agree_partial` at `runStmt` level), hence row
    mode (batch size 1, cache off) and batch mode (batch size 2, cache on) return the same rows -/
example : (runQuery E2E.exQueryL E2E.pf0 st0 .next 1 false).rows = (runQuery E2E.exQueryL E2E.pf0 st0 .batch 2 true).rows := by
  obtain ⟨s, hplan, h⟩ := stmtCheck_sound exQueryL_where
  simp only [Bool.and_eq_true, Option.isNone_iff_eq_none] at h
  obtain ⟨⟨⟨⟨⟨h1, h2⟩, h3⟩, h4⟩, h5⟩, h6⟩ := h
  obtain ⟨l, hl⟩ := Option.isSome_iff_exists.mp h3
  have hw : s.where_ = E2E.exW := Expr.eq_of_same _ _ h6
  have hfw : Fold.optimize s.where_ = .ok E2E.exW := by rw [hw]; exact E2E.fold_exW
  have hb := Kvql.Proofs.Run.batchBoolOn_sound E2E.exW_batch.2
  obtain ⟨n1, n2⟩ := runStmt_star_noLimit (noAggrB_sound h4) h1 h2 h5 st0_sorted hfw E2E.exW_batch.1 hb .next 1
    (by decide) false
  obtain ⟨b1, b2⟩ := runStmt_star_noLimit (noAggrB_sound h4) h1 h2 h5 st0_sorted hfw E2E.exW_batch.1 hb .batch 2
    (by decide) true
  exact (run_limit_modes_agree_partial E2E.exQueryL E2E.pf0 s hplan (noAggrB_sound h4) l hl st0 2 1 (by decide)
    (by decide) true false n1 b1 (by rw [n2, b2])).2.2

end Kvql.Properties.E2EFields
