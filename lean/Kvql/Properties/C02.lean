/-
  C02  Scan narrowing never loses a row: every access path covers the filter.

  `Kvql.Scan` models filter_optimizer.go (with the repairs of patches/scan-*.patch) function by
  function: the bottom-up inference of a scan type — EMPTY, MGET keys, PREFIX p, RANGE lo hi
  (a missing bound = Go nil = unbounded), FULL — from a WHERE tree, intersecting for `&`/`and`
  and uniting for `|`/`or`.  `region s k` says that the plan node built from `s` reads key `k`
  (scan_plan.go: point reads of the listed keys, the keys with the prefix, the keys between the
  bounds inclusive, everything).  Each scan plan re-applies the complete filter to what it reads,
  so "the region contains every key on which the filter can hold" is exactly "the statement
  returns what a full scan filtered pair by pair returns".
  Tie to the code: SCAN correspondence group (`SCAN`, `SCANDEL` lines) and its spec differential.
-/
import Kvql.Proofs.ScanSound
import Kvql.Proofs.ScanExact
import Kvql.Proofs.ScanWitness

namespace Kvql.Properties.C02

open Kvql Kvql.Scan

/-- For every WHERE tree (any nesting of `&`, `and`, `|`, `or` over key equalities, prefix tests,
    `<  <=  >  >=` with the literal on either side, IN lists, BETWEEN, and arbitrary other
    predicates), every evaluator that is bounded by the documented meaning of those atoms
    (`Sem`: everything else is unconstrained), and every key: if the filter can hold on the key,
    the inferred scan type covers the key. -/
theorem scan_sound {ev : Expr → Bytes → Bool} (S : Sem ev) (e : Expr) (k : Bytes)
    (h : ev e k = true) : region (optimizeExpr e) k :=
  Scan.scan_sound S e k h

/-- the same for the plan node `Optimize()` builds (`NewMultiGetPlan` sorts the keys and drops repeats) -/
theorem scan_plan_sound {ev : Expr → Bytes → Bool} (S : Sem ev) (e : Expr) (k : Bytes)
    (h : ev e k = true) : region (optimize e) k := by
  have := Scan.scan_sound S e k h
  unfold optimize
  cases hs : optimizeExpr e <;> rw [hs] at this <;> simp only [plan] <;> try exact this
  exact mem_sort.mpr (mem_dedup.mpr this)

/-- the hypothesis `Sem ev` is satisfiable: the reference meaning `Spec.canHold` is such an
    evaluator -/
example : Sem Spec.canHold := canHold_sem

/-- an input that used to lose rows: `'b' > key` (planned as `key >= 'b'` before the repair) now
    gets RANGE[nil, "b"], and `key <= ''` gets the point read of the empty key -/
example : optimizeExpr (.binop 0 .gt (.str 0 [98]) (.field 0 .key)) = .range none (some [98]) := by
  simp [optimizeExpr, infer, Conj.single, isStr, optimizeLtLteExpr, operands]

example : optimizeExpr (.binop 0 .lte (.field 0 .key) (.str 0 [])) = .mget [[]] := by
  simp [optimizeExpr, infer, Conj.single, isStr, optimizeLtLteExpr, operands]

/-- The invariant every helper relies on holds for every tree: a RANGE has at least one bound,
    and start ≤ end when it has both. -/
theorem wf_scan (e : Expr) : WF (optimizeExpr e) := wf_optimizeExpr e

/-- AND: a key in both operands' regions is in the combined region. -/
theorem inter_sound {l r : Scan} {k : Bytes} (wl : WF l) (wr : WF r)
    (h1 : region l k) (h2 : region r k) : region (andScan l r) k :=
  Scan.inter_sound wl wr h1 h2

/-- OR: a key in either operand's region is in the combined region. -/
theorem union_sound {l r : Scan} {k : Bytes} (wl : WF l) (wr : WF r)
    (h : region l k ∨ region r k) : region (orScan l r) k :=
  Scan.union_sound wl wr h

/-- the former counter-example of OR: `key > 'b' | key < 'ab'` (RANGE["b","ab"] before) is FULL -/
example : orScan (.range (some [98]) none) (.range none (some [97, 98])) = .full := by decide

/-- The DELETE shortcut is exact: when no `&`/`and` is on the way down and the inferred type is
    MGET, the filter holds on a key iff the key is listed (for evaluators that are exact on `|`,
    key equality, IN, `<=`, BETWEEN: `SemExact`). -/
theorem delete_shortcut_exact {ev : Expr → Bytes → Bool} (S : SemExact ev) (e : Expr)
    (h : noAndSpine e = true) (ks : List Bytes) (hm : optimizeExpr e = .mget ks) (k : Bytes) :
    ev e k = true ↔ k ∈ ks :=
  Scan.delete_shortcut_exact S e h ks hm k

/-- … and so is the RemovePlan that `buildDeletePlan` substitutes for DELETE (its condition is
    `canOptimizeDeletePlanToRemovePlan`: no `&`/`and` anywhere in the filter). -/
theorem removePlan_exact {ev : Expr → Bytes → Bool} (S : SemExact ev) (e : Expr) (ks : List Bytes)
    (h : buildDeletePlan e = .remove ks) (k : Bytes) : ev e k = true ↔ k ∈ ks :=
  Scan.removePlan_exact S e ks h k

/-- satisfiable: `Spec.canHold` is exact, and `delete where key = 'a' | key in ('c','b')` is
    planned as the removal of a, b, c -/
example : SemExact Spec.canHold := canHold_semExact

example : buildDeletePlan (.binop 0 .or (.binop 0 .eq (.field 0 .key) (.str 0 [97]))
    (.binop 0 .in_ (.field 0 .key) (.list 0 [.str 0 [99], .str 0 [98]]))) = .remove [[97], [98], [99]] := by
  decide

end Kvql.Properties.C02
