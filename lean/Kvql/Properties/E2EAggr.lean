/-
  E2EAggr  Whole AGGREGATED SELECT statements, given as TEXT, over the end-to-end model
  `Kvql.Run.runQuery` (Model/Run.lean: `runAggrSelect`, `aggrEval`, `aggrField`, `groupExprs`,
  `aggrInner` composed with the component model Model/Aggregate.lean).  Attached to C09 (and to C01,
  C03, C05, C13 for the parts they contribute).

  THE SPECIFICATION (`specRows`, below, ~60 lines, no loop of the plan model in it):
      sel      the stored pairs satisfying the WHERE, in key order
      tuple    of a pair: the GROUP BY expressions' values, each as `convertToBytes` renders it
      groups   one per DISTINCT TUPLE (compared as tuples of byte strings), in order of first
               occurrence; the pairs of a group in key order                      (`groupsOf`)
      row      of a group: a field WITH an aggregate call is the field expression with every call
               replaced by its definition over the group's argument values (`aggDef`: count = number
               of pairs, sum / avg over `convertToNumber` with the int→float switch, min / max = the
               least / greatest by `lesser` / `greater`, group_concat = join with the separator,
               json_arrayagg = the JSON array), `+ - * /` around the calls by `executeMathOp`,
               sub-expressions without a call evaluated on the empty pair; a field WITHOUT aggregate
               call shows its value on the FIRST pair of the group (`rowOf`, `fieldDef`)
  Expressions are valued by the row evaluator with the cache off, on the statement AFTER constant
  folding (`foldSelect s = ok f`; `f` is a function of the accepted statement, folding is total).

  THEOREMS (statement text accepted by `planStage` as `select s`, `finalPlanCheck s = ok true`)
  (1)+(4) `run_aggr_select_correct`        row mode, every batch size ≥ 1, cache on or off: the rows are
            `specRows` over the pairs on which the REFERENCE evaluator says the WHERE holds; no failure;
            the store is unchanged and every logged storage call is a read.
          `run_aggr_select_exec`           the same with the WHERE judged by the row evaluator.
  (2)     `spec_no_group_by`, `run_aggr_all_correct`   without GROUP BY: no row on an empty selection
            (NOT one row of zeros: that is what the engine does), otherwise exactly one row over all
            selected pairs.
  (3)     `run_aggr_modes_agree_partial`   row and batch mode, any batch sizes, cache on or off on either
            side: the same rows (= `specRows`), under the hypotheses C03 / C09 need for batch mode.
  LIMIT   `run_aggr_limit_correct`, `run_aggr_limit_modes_partial`   with `limit s, n` (no ORDER BY; the
            limit is pushed into the AggregatePlan): rows `s … s+n-1` of the rows of the specification, in
            either mode (C08 for the whole aggregated statement).
  (5)     `run_aggr_checked`, `run_aggr_modes_checked`, `run_aggr_limit_checked`   every hypothesis as one
            computable check on the text (non-vacuity: five statement texts, kernel-evaluated).
  Readability of the spec: `groups_cover`, `groups_distinct`, `group_key_constant`, `aggDef_*_int`,
  `aggDef_is_accumulator`.

  HYPOTHESES THAT REMAIN (all decidable on the statement / the store; see each theorem):
    * no ORDER BY (`s.order = none`): `orderTrace` over the aggregate rows is not covered; (1)–(3) are
      stated for `s.limit = none`, the LIMIT theorems for `s.limit = some l`;
    * `groupExprs s f = some groups` (every GROUP BY name is a select field or `key` / `value`);
    * `covered f.fields`: the aggregate model describes every field (no `quantile`, aggregate calls at
      the top of a field or under `+ - * /` only, `group_concat` separator a constant);
    * no alias reference inside the (folded) GROUP BY expressions and fields (`aliasFreeAll`); a GROUP BY
      item that NAMES a select field is fine — it is the field's expression;
    * `evaluableOn`: on every selected pair the GROUP BY expressions and non-aggregate fields evaluate to
      something `convertToBytes` renders, the first argument of every aggregate call evaluates;
    * the spec is defined (`specRows … = ok out`): no division by zero / non-numeric operand in the
      arithmetic around calls, no NaN / Inf in `json_arrayagg`;
    * WHERE: as in E2E `run_select_star_correct` (`aliasFree`, `sideOk`, `core`, reference-evaluable on
      every stored pair); batch mode: `vecOk` + the vector evaluator defined (C03 proves batch ⇒ row only).
-/
import Kvql.Proofs.RunAggrLimit
import Kvql.Proofs.RunExprEq
import Kvql.Properties.C09

set_option linter.unusedSimpArgs false

namespace Kvql.Properties.E2EAggr
open Kvql Kvql.Run Kvql.Plans Kvql.Storage Kvql.Proofs.Typing
open Kvql.PlanCheck (planStage finalPlanCheck listAggrCalls)
open Kvql.Aggr (AVal convertToNumber convertToBytes toStr JItem jsonArray)

/-! ## THE SPECIFICATION -/

/-- the value of an expression on a stored pair: the row evaluator with the field cache off -/
def valueOf (e : Expr) (p : SPair) : AVal :=
  match (exec e ⟨p.1, p.2⟩ Ctx.off).1 with
  | .ok v => toAVal v
  | .error _ => .nil

/-- a value as a GROUP BY key part / key column shows it (`convertToBytes`) -/
def render (v : AVal) : Bytes :=
  match convertToBytes v with
  | .ok b => b
  | .error _ => []

/-- an expression without aggregate call inside an aggregate field: evaluated on the empty pair -/
def constant (e : Expr) : Except Aggr.Err AVal := valA (exec e emptyKv Ctx.off).1

/-- the distinct elements, in order of first occurrence -/
def distinct {α : Type} [DecidableEq α] : List α → List α
  | [] => []
  | a :: as => a :: (distinct as).filter (fun b => decide (b ≠ a))

/-- the tuple of GROUP BY values of a pair -/
def tupleOf (groups : List Expr) (p : SPair) : List Bytes := groups.map (fun e => render (valueOf e p))

/-- one group per distinct tuple, in order of first occurrence; its pairs in key order -/
def groupsOf (groups : List Expr) (sel : List SPair) : List (List SPair) :=
  (distinct (sel.map (tupleOf groups))).map (fun t => sel.filter (fun p => decide (tupleOf groups p = t)))

/-- a number as `convertToNumber` reads a value: (as int64, as float64, is it a float?) -/
abbrev Num := Int64 × F64 × Bool

def numOut (n : Num) : AVal := if n.2.2 then .float n.2.1 else .int n.1

/-- the lesser of the number held so far and the next one: compared as floats if the one held is a
    float, as integers otherwise; the one held stays on a tie -/
def lesser (a b : Num) : Num :=
  if a.2.2 then (if F64.lt b.2.1 a.2.1 then b else a) else (if b.1 < a.1 then b else a)

def greater (a b : Num) : Num :=
  if a.2.2 then (if F64.lt a.2.1 b.2.1 then b else a) else (if a.1 < b.1 then b else a)

/-- the DEFINITION of every aggregate function over the values of its argument on the pairs of a
    group, in key order -/
def aggDef : Aggr.Kind → List AVal → Except Aggr.Err AVal
  | .count, vs => .ok (.int (Int64.ofNat vs.length))
  | .sum, vs =>
    let ns := vs.map convertToNumber
    .ok (if ns.any (·.2.2) then .float (ns.foldl (fun a n => F64.add a n.2.1) F64.zero)
         else .int (ns.map (·.1)).sum)
  | .avg, vs =>
    let ns := vs.map convertToNumber
    let cnt := F64.ofInt (Int64.ofNat vs.length)
    .ok (.float (if ns.any (·.2.2) then F64.div (ns.foldl (fun a n => F64.add a n.2.1) F64.zero) cnt
                 else F64.div (F64.ofInt (ns.map (·.1)).sum) cnt))
  | .min, vs =>
    match vs.map convertToNumber with
    | [] => .ok (.int 0)
    | n :: ns => .ok (numOut (ns.foldl lesser n))
  | .max, vs =>
    match vs.map convertToNumber with
    | [] => .ok (.int 0)
    | n :: ns => .ok (numOut (ns.foldl greater n))
  | .concat sep, vs => .ok (.str (List.intercalate sep (vs.map toStr)))
  | .arrayagg, vs =>
    match jsonArray (vs.map JItem.ofVal) with
    | some b => .ok (.str b)
    | none => .error .marshal

/-- an aggregate field over the pairs of a group: every aggregate call replaced by its definition,
    `+ - * /` around them as the engine computes them, anything without a call a constant -/
def fieldDef (grp : List SPair) : Expr → Except Aggr.Err AVal
  | .binop p op l r =>
    if (listAggrCalls (.binop p op l r)).isEmpty then constant (.binop p op l r)
    else
      match mathOpA op with
      | none => .error .malformed
      | some mop => do
        let lv ← fieldDef grp l
        let rv ← fieldDef grp r
        if op == .add && retType l == Generated.tyTSTR then pure (.str (toStr lv ++ toStr rv))
        else Aggr.executeMathOp mop r.pos lv rv
  | .call p (.name q d) args =>
    if PlanCheck.isAggr (toLower d) then
      match Run.kindOf (toLower d) args, args with
      | some k, a :: _ => aggDef k (grp.map (valueOf a))
      | _, _ => .error .malformed
    else constant (.call p (.name q d) args)
  | e => constant e

/-- does the select field contain an aggregate call (where `AggregatePlan.Init` looks)? -/
def isAggrField (fe : Expr) : Bool := !(listAggrCalls fe).isEmpty

/-- the row of a group: an aggregate field by `fieldDef`, any other field as its value on the FIRST
    pair of the group shows -/
def rowOf (fields : List Expr) (grp : List SPair) : Except Aggr.Err (List AVal) :=
  fields.mapM (fun fe =>
    if isAggrField fe then fieldDef grp fe
    else match grp with
      | p :: _ => .ok (.bytes (render (valueOf fe p)))
      | [] => .error .malformed)

/-- **the specification**: the rows of an aggregated SELECT over the selected pairs `sel` -/
def specRows (groups fields : List Expr) (sel : List SPair) : Except Aggr.Err (List (List AVal)) :=
  (groupsOf groups sel).mapM (rowOf fields)

/-- a column value of the aggregation machinery as the caller receives it (`other` — a list or JSON
    object — never occurs in a row of the specification: `Proofs.RunAggr.specRows_convertible`) -/
def toValue : AVal → Value
  | .bytes b => .bytes b
  | .str b => .str b
  | .int i => .int i
  | .goInt i => .goInt i
  | .float f => .float f
  | .bool b => .bool b
  | .nil => .nil
  | .other => .nil

/-! ### the hypotheses on statement and store, as computable checks -/

/-- the expression evaluates on the pair (row evaluator, cache off) -/
def evaluates (e : Expr) (p : SPair) : Bool :=
  match (exec e ⟨p.1, p.2⟩ Ctx.off).1 with
  | .ok _ => true
  | .error _ => false

/-- … to a value `convertToBytes` renders (anything but a list / JSON object) -/
def renders (e : Expr) (p : SPair) : Bool :=
  match (exec e ⟨p.1, p.2⟩ Ctx.off).1 with
  | .ok v => (match convertToBytes (toAVal v) with | .ok _ => true | .error _ => false)
  | .error _ => false

/-- on the pair: GROUP BY expressions and non-aggregate fields render, the first argument of every
    aggregate call evaluates (`count` does not evaluate its argument; asking for it is harmless) -/
def evaluableOn (groups fields : List Expr) (p : SPair) : Bool :=
  groups.all (fun e => renders e p) &&
  fields.all (fun fe =>
    if isAggrField fe then
      (listAggrCalls fe).all (fun c => match c.2 with | a :: _ => evaluates a p | [] => false)
    else renders fe p)

/-- no alias reference in any of the expressions -/
def aliasFreeAll (es : List Expr) : Bool := es.all aliasFree

/-- the aggregate model describes every field: no `quantile`, aggregate calls at the top of a field or
    under `+ - * /` only, the separator of `group_concat` evaluates when the plan is built -/
def covered (fields : List Expr) : Bool := (fields.mapM (aggrField Ctx.off)).isSome

/-- batch mode: the vector evaluator is defined on the pair (as a chunk of its own) for every GROUP BY
    expression -/
def batchDefinedOn (groups : List Expr) (p : SPair) : Bool :=
  groups.all (fun e => match (execBatch e [⟨p.1, p.2⟩] Ctx.off).1 with | .ok [_] => true | _ => false)

/-! ### the two copies of the specification are the same (the lemmas are proved about the copy in
    Proofs/RunAggrSpec.lean) -/

theorem valueOf_agrees : valueOf = Kvql.Proofs.RunAggr.valueOf := rfl
theorem render_agrees : render = Kvql.Proofs.RunAggr.render := rfl
theorem constant_agrees : constant = Kvql.Proofs.RunAggr.constant := rfl
theorem aggDef_agrees : aggDef = Kvql.Proofs.RunAggr.aggDef := rfl
theorem toValue_agrees : toValue = Kvql.Proofs.RunAggr.toValue := rfl
theorem isAggrField_agrees : isAggrField = Kvql.Proofs.RunAggr.isAggrField := rfl

theorem distinct_agrees {α : Type} [DecidableEq α] (l : List α) : distinct l = Kvql.Proofs.RunAggr.distinct l := by
  induction l with
  | nil => rfl
  | cons a as ih => simp only [distinct, Kvql.Proofs.RunAggr.distinct, ih]

theorem groupsOf_agrees (groups : List Expr) (sel : List SPair) :
    groupsOf groups sel = Kvql.Proofs.RunAggr.groupsOf groups sel := by
  unfold groupsOf Kvql.Proofs.RunAggr.groupsOf
  rw [distinct_agrees]
  rfl

theorem fieldDef_agrees (grp : List SPair) : ∀ e : Expr, fieldDef grp e = Kvql.Proofs.RunAggr.fieldDef grp e
  | .binop p op l r => by
    rw [fieldDef.eq_def, Kvql.Proofs.RunAggr.fieldDef.eq_def]
    simp only [fieldDef_agrees grp l, fieldDef_agrees grp r]
    rfl
  | .call p nm args => by
    rw [fieldDef.eq_def, Kvql.Proofs.RunAggr.fieldDef.eq_def]
    cases nm <;> rfl
  | .field .. | .str .. | .not .. | .name .. | .ref .. | .cycle | .num .. | .float .. | .bool .. | .list ..
  | .access .. => by
    rw [fieldDef.eq_def, Kvql.Proofs.RunAggr.fieldDef.eq_def]
    rfl

theorem rowOf_agrees (fields : List Expr) (grp : List SPair) : rowOf fields grp = Kvql.Proofs.RunAggr.rowOf fields grp := by
  unfold rowOf Kvql.Proofs.RunAggr.rowOf
  simp only [fieldDef_agrees]
  rfl

theorem specRows_agrees (groups fields : List Expr) (sel : List SPair) :
    specRows groups fields sel = Kvql.Proofs.RunAggr.specRows groups fields sel := by
  unfold specRows Kvql.Proofs.RunAggr.specRows
  rw [groupsOf_agrees]
  congr 1
  funext grp
  exact rowOf_agrees fields grp

/-! ### soundness of the computable checks -/

theorem aliasFreeAll_sound {es : List Expr} (h : aliasFreeAll es = true) : ∀ e ∈ es, aliasFree e = true := by
  simpa [aliasFreeAll, List.all_eq_true] using h

theorem covered_sound {fields : List Expr} (h : covered fields = true) :
    ∃ afields, fields.mapM (aggrField Ctx.off) = some afields :=
  Option.isSome_iff_exists.mp h

theorem evaluableOn_sound {groups fields : List Expr} {p : SPair} (h : evaluableOn groups fields p = true) :
    Kvql.Proofs.RunAggr.Evaluable groups fields p := by
  simp only [evaluableOn, Bool.and_eq_true, List.all_eq_true] at h
  obtain ⟨hg, hf⟩ := h
  have hrend : ∀ e, renders e p = true →
      ∃ v b, (exec e ⟨p.1, p.2⟩ Ctx.off).1 = .ok v ∧ convertToBytes (toAVal v) = .ok b := by
    intro e he
    unfold renders at he
    split at he
    · rename_i v hv
      split at he
      · rename_i b hb; exact ⟨v, b, hv, hb⟩
      · cases he
    · cases he
  refine ⟨fun e he => hrend e (hg e he), ?_, ?_⟩
  · intro fe hfe hna
    have := hf fe hfe
    rw [show isAggrField fe = Kvql.Proofs.RunAggr.isAggrField fe from rfl, hna] at this
    exact hrend fe (by simpa using this)
  · intro fe hfe c hc
    have := hf fe hfe
    have hagg : isAggrField fe = true := by
      unfold isAggrField
      cases hl : listAggrCalls fe with
      | nil => rw [hl] at hc; cases hc
      | cons x xs => rfl
    rw [hagg] at this
    simp only [if_true, List.all_eq_true] at this
    have hc' := this c hc
    split at hc'
    · rename_i a rest hargs
      unfold evaluates at hc'
      split at hc'
      · rename_i v hv; exact ⟨a, rest, v, hargs, hv⟩
      · cases hc'
    · cases hc'

theorem batchDefinedOn_sound {groups : List Expr} {p : SPair} (h : batchDefinedOn groups p = true) :
    ∀ e ∈ groups, ∃ v, (execBatch e [⟨p.1, p.2⟩] Ctx.off).1 = .ok [v] := by
  intro e he
  simp only [batchDefinedOn, List.all_eq_true] at h
  have := h e he
  split at this
  · rename_i v hv; exact ⟨v, hv⟩
  · cases this

/-! ## (1) + (4): the rows of an aggregated SELECT are the rows of the specification -/

/-- **(1)+(4), row mode.**  Let `query` be a statement text that `BuildPlan` accepts (`planStage`) as a
    SELECT for which it builds an AggregatePlan (`finalPlanCheck s = ok true`: GROUP BY and/or aggregate
    calls), without ORDER BY / LIMIT; `f` the statement after constant folding; `groups` the GROUP BY
    expressions (`[]` without GROUP BY).  WHERE as in E2E `run_select_star_correct` (no alias reference,
    `sideOk`, `core`, reference-evaluable on every stored pair).  If the aggregate model covers the fields,
    the folded GROUP BY expressions and fields hold no alias reference, they are evaluable on every
    selected pair (`evaluableOn`) and the specification is defined (`= ok out`), then — row mode, every
    batch size ≥ 1, field cache on or off — the statement succeeds and returns EXACTLY the rows of the
    specification over the stored pairs on which the REFERENCE evaluator says the WHERE holds: one row
    per distinct tuple of GROUP BY values, in order of first occurrence in key order, every aggregate
    equal to its definition over the group's pairs in key order.  The store is unchanged and every
    storage call logged is a read (no Put / Delete / BatchPut / BatchDelete). -/
theorem run_aggr_select_correct (query : Bytes) (pf : Bytes → F64) (s : SelectS)
    (hplan : planStage pf (Lexer.split query) = .ok (.select s)) (hagg : finalPlanCheck s = .ok true)
    (f : FoldedSelect) (hfold : foldSelect s = .ok f) (hord : s.order = none) (hlim : s.limit = none)
    (haf : aliasFree s.where_ = true) (hside : sideOk s.where_ = true) (hcore : Refine.core s.where_ = true)
    (groups : List Expr) (hg : groupExprs s f = some groups)
    (hcov : covered f.fields = true) (hafe : aliasFreeAll (groups ++ f.fields) = true)
    (store : Store) (hs : store.Sorted)
    (hevw : ∀ p ∈ store, Spec.evaluable s.where_ ⟨p.1, p.2⟩ = true)
    (hev : ∀ p ∈ store.filter (fun p => Spec.holds s.where_ ⟨p.1, p.2⟩), evaluableOn groups f.fields p = true)
    (out : List (List AVal))
    (hspec : specRows groups f.fields (store.filter (fun p => Spec.holds s.where_ ⟨p.1, p.2⟩)) = .ok out)
    (bs : Nat) (hbs : 1 ≤ bs) (cache : Bool) :
    (runQuery query pf store .next bs cache).fail = none ∧
    (runQuery query pf store .next bs cache).rows = out.map (List.map toValue) ∧
    (runQuery query pf store .next bs cache).world.store = store ∧
    (∀ e ∈ (runQuery query pf store .next bs cache).world.log, e.call.isRead = true) := by
  have haf' := aliasFreeAll_sound hafe
  rw [specRows_agrees] at hspec
  exact Kvql.Proofs.RunAggr.run_aggr_next_ref hplan hagg hfold hord hlim haf hside hcore hg (covered_sound hcov)
    (fun e he => haf' e (List.mem_append_left _ he)) (fun e he => haf' e (List.mem_append_right _ he))
    store hs hevw (fun p hp => evaluableOn_sound (hev p hp)) hspec bs hbs cache

/-- (1)+(4) with the WHERE judged by the row evaluator on the folded WHERE (`g`): no hypothesis on the
    WHERE but that it yields a Boolean on every stored pair. -/
theorem run_aggr_select_exec (query : Bytes) (pf : Bytes → F64) (s : SelectS)
    (hplan : planStage pf (Lexer.split query) = .ok (.select s)) (hagg : finalPlanCheck s = .ok true)
    (f : FoldedSelect) (hfold : foldSelect s = .ok f) (hord : s.order = none) (hlim : s.limit = none)
    (groups : List Expr) (hg : groupExprs s f = some groups)
    (hcov : covered f.fields = true) (hafe : aliasFreeAll (groups ++ f.fields) = true)
    (store : Store) (hs : store.Sorted)
    (g : SPair → Bool) (hx : ∀ p ∈ store, exec f.where_ ⟨p.1, p.2⟩ Ctx.off = (.ok (.bool (g p)), Ctx.off))
    (hev : ∀ p ∈ store.filter g, evaluableOn groups f.fields p = true)
    (out : List (List AVal)) (hspec : specRows groups f.fields (store.filter g) = .ok out)
    (bs : Nat) (hbs : 1 ≤ bs) (cache : Bool) :
    (runQuery query pf store .next bs cache).fail = none ∧
    (runQuery query pf store .next bs cache).rows = out.map (List.map toValue) ∧
    (runQuery query pf store .next bs cache).world.store = store ∧
    (∀ e ∈ (runQuery query pf store .next bs cache).world.log, e.call.isRead = true) := by
  have haf' := aliasFreeAll_sound hafe
  rw [specRows_agrees] at hspec
  exact Kvql.Proofs.RunAggr.run_aggr_next_exec hplan hagg hfold hord hlim hg (covered_sound hcov)
    (fun e he => haf' e (List.mem_append_left _ he)) (fun e he => haf' e (List.mem_append_right _ he))
    store hs g hx (fun p hp => evaluableOn_sound (hev p hp)) hspec bs hbs cache

/-! ## (2) without GROUP BY -/

/-- the specification without GROUP BY expressions: NO row over an empty selection, otherwise exactly
    one row over all the selected pairs -/
theorem spec_no_group_by (fields : List Expr) (sel : List SPair) :
    specRows [] fields sel = if sel = [] then .ok [] else (rowOf fields sel).map (fun r => [r]) := by
  have hd : distinct (sel.map (tupleOf [])) = if sel = [] then [] else [[]] := by
    rw [distinct_agrees, Kvql.Proofs.RunAggr.distinct_eq_firsts,
      Kvql.Proofs.Aggr.firsts_const ([] : List Bytes) _ (by intro x hx; obtain ⟨_, _, rfl⟩ := List.mem_map.mp hx; rfl)]
    cases sel <;> simp
  unfold specRows groupsOf
  rw [hd]
  by_cases h : sel = []
  · simp [h]
  · simp only [h, if_false, List.map_cons, List.map_nil, List.mapM_cons, List.mapM_nil]
    have : sel.filter (fun p => decide (tupleOf [] p = [])) = sel := by
      rw [List.filter_eq_self]; intro p _; simp [tupleOf]
    rw [this]
    cases rowOf fields sel <;> rfl

/-- **(2)** an accepted aggregated SELECT WITHOUT GROUP BY (row mode, under the hypotheses of (1)): no
    row when no stored pair satisfies the WHERE — the engine does not return a row of zeros —, otherwise
    exactly one row: every field over ALL the selected pairs. -/
theorem run_aggr_all_correct (query : Bytes) (pf : Bytes → F64) (s : SelectS)
    (hplan : planStage pf (Lexer.split query) = .ok (.select s)) (hagg : finalPlanCheck s = .ok true)
    (f : FoldedSelect) (hfold : foldSelect s = .ok f) (hord : s.order = none) (hlim : s.limit = none)
    (hgb : s.groupBy = none)
    (haf : aliasFree s.where_ = true) (hside : sideOk s.where_ = true) (hcore : Refine.core s.where_ = true)
    (hcov : covered f.fields = true) (hafe : aliasFreeAll f.fields = true)
    (store : Store) (hs : store.Sorted)
    (hevw : ∀ p ∈ store, Spec.evaluable s.where_ ⟨p.1, p.2⟩ = true)
    (hev : ∀ p ∈ store.filter (fun p => Spec.holds s.where_ ⟨p.1, p.2⟩), evaluableOn [] f.fields p = true)
    (row : List AVal)
    (hrow : store.filter (fun p => Spec.holds s.where_ ⟨p.1, p.2⟩) ≠ [] →
      rowOf f.fields (store.filter (fun p => Spec.holds s.where_ ⟨p.1, p.2⟩)) = .ok row)
    (bs : Nat) (hbs : 1 ≤ bs) (cache : Bool) :
    (runQuery query pf store .next bs cache).fail = none ∧
    (runQuery query pf store .next bs cache).rows =
      (if store.filter (fun p => Spec.holds s.where_ ⟨p.1, p.2⟩) = [] then [] else [row.map toValue]) := by
  have hg : groupExprs s f = some [] := by simp [groupExprs, hgb]
  by_cases hsel : store.filter (fun p => Spec.holds s.where_ ⟨p.1, p.2⟩) = []
  · have hspec : specRows [] f.fields (store.filter (fun p => Spec.holds s.where_ ⟨p.1, p.2⟩)) = .ok [] := by
      rw [spec_no_group_by, if_pos hsel]
    obtain ⟨h1, h2, _⟩ := run_aggr_select_correct query pf s hplan hagg f hfold hord hlim haf hside hcore [] hg hcov
      (by simpa using hafe) store hs hevw hev [] hspec bs hbs cache
    exact ⟨h1, by rw [h2, if_pos hsel]; rfl⟩
  · have hspec : specRows [] f.fields (store.filter (fun p => Spec.holds s.where_ ⟨p.1, p.2⟩)) = .ok [row] := by
      rw [spec_no_group_by, if_neg hsel, hrow hsel]; rfl
    obtain ⟨h1, h2, _⟩ := run_aggr_select_correct query pf s hplan hagg f hfold hord hlim haf hside hcore [] hg hcov
      (by simpa using hafe) store hs hevw hev [row] hspec bs hbs cache
    exact ⟨h1, by rw [h2, if_neg hsel]; rfl⟩

/-! ## (3) row mode and batch mode agree; cache on = cache off -/

/-- **(3), partial.**  The same statement in ANY mode (`kind`, `kind'` ∈ {row, batch}), at any two batch
    sizes ≥ 1, field cache on or off on either side: no failure, the SAME rows — the rows of the
    specification over the stored pairs the row evaluator accepts (`Select.accepted f.where_`) —, store
    unchanged, read calls only.
    EXTRA hypotheses (hence `_partial`; they are what C03 `vec_eq_map` / `batch_pairwise` and C09
    `aggr_modes_agree` need, and C03 proves batch ⇒ row only): the folded WHERE and the GROUP BY
    expressions satisfy the static side condition `vecOk`; the VECTOR evaluator is defined on every
    stored pair (taken as a chunk of its own) for the folded WHERE, with a Boolean, and on every selected
    pair for the GROUP BY expressions (`batchDefinedOn`).  Aggregate arguments and key fields go through
    `Execute` in either mode (`createAggrRow`, `Update`), so nothing is asked of them beyond (1). -/
theorem run_aggr_modes_agree_partial (query : Bytes) (pf : Bytes → F64) (s : SelectS)
    (hplan : planStage pf (Lexer.split query) = .ok (.select s)) (hagg : finalPlanCheck s = .ok true)
    (f : FoldedSelect) (hfold : foldSelect s = .ok f) (hord : s.order = none) (hlim : s.limit = none)
    (groups : List Expr) (hg : groupExprs s f = some groups)
    (hcov : covered f.fields = true) (hafe : aliasFreeAll (f.where_ :: groups ++ f.fields) = true)
    (store : Store) (hs : store.Sorted)
    (hokw : f.where_.vecOk = true)
    (hbatchw : ∀ p ∈ store, ∃ b, (execBatch f.where_ [⟨p.1, p.2⟩] Ctx.off).1 = .ok [.bool b])
    (hokg : ∀ e ∈ groups, e.vecOk = true)
    (hbatchg : ∀ p ∈ store.filter (Select.accepted f.where_), batchDefinedOn groups p = true)
    (hev : ∀ p ∈ store.filter (Select.accepted f.where_), evaluableOn groups f.fields p = true)
    (out : List (List AVal)) (hspec : specRows groups f.fields (store.filter (Select.accepted f.where_)) = .ok out)
    (kind kind' : PollKind) (bs bs' : Nat) (hbs : 1 ≤ bs) (hbs' : 1 ≤ bs') (cache cache' : Bool) :
    (runQuery query pf store kind bs cache).fail = none ∧
    (runQuery query pf store kind bs cache).rows = out.map (List.map toValue) ∧
    (runQuery query pf store kind' bs' cache').rows = (runQuery query pf store kind bs cache).rows ∧
    (runQuery query pf store kind bs cache).world.store = store ∧
    (∀ e ∈ (runQuery query pf store kind bs cache).world.log, e.call.isRead = true) := by
  have haf' := aliasFreeAll_sound hafe
  rw [specRows_agrees] at hspec
  exact Kvql.Proofs.RunAggr.run_aggr_modes_agree hplan hagg hfold hord hlim hg (covered_sound hcov)
    (haf' _ (by simp))
    (fun e he => haf' e (by simp [he])) (fun e he => haf' e (by simp [he]))
    store hs hokw hbatchw hokg (fun p hp => batchDefinedOn_sound (hbatchg p hp))
    (fun p hp => evaluableOn_sound (hev p hp)) hspec kind kind' bs bs' hbs hbs' cache cache'

/-! ## LIMIT without ORDER BY (the limit is pushed into the AggregatePlan) -/

/-- **LIMIT, row mode** (hypotheses of `run_aggr_select_correct` with `s.limit = some l`): the statement
    returns rows `start … start+count-1` of the rows of the specification — C08 for the whole aggregated
    statement; store unchanged, read calls only. -/
theorem run_aggr_limit_correct (query : Bytes) (pf : Bytes → F64) (s : SelectS)
    (hplan : planStage pf (Lexer.split query) = .ok (.select s)) (hagg : finalPlanCheck s = .ok true)
    (f : FoldedSelect) (hfold : foldSelect s = .ok f) (hord : s.order = none) (l : LimitS) (hlim : s.limit = some l)
    (haf : aliasFree s.where_ = true) (hside : sideOk s.where_ = true) (hcore : Refine.core s.where_ = true)
    (groups : List Expr) (hg : groupExprs s f = some groups)
    (hcov : covered f.fields = true) (hafe : aliasFreeAll (groups ++ f.fields) = true)
    (store : Store) (hs : store.Sorted)
    (hevw : ∀ p ∈ store, Spec.evaluable s.where_ ⟨p.1, p.2⟩ = true)
    (hev : ∀ p ∈ store.filter (fun p => Spec.holds s.where_ ⟨p.1, p.2⟩), evaluableOn groups f.fields p = true)
    (out : List (List AVal))
    (hspec : specRows groups f.fields (store.filter (fun p => Spec.holds s.where_ ⟨p.1, p.2⟩)) = .ok out)
    (bs : Nat) (hbs : 1 ≤ bs) (cache : Bool) :
    (runQuery query pf store .next bs cache).fail = none ∧
    (runQuery query pf store .next bs cache).rows =
      ((out.map (List.map toValue)).drop l.start.toInt.toNat).take l.count.toInt.toNat ∧
    (runQuery query pf store .next bs cache).world.store = store ∧
    (∀ e ∈ (runQuery query pf store .next bs cache).world.log, e.call.isRead = true) := by
  have haf' := aliasFreeAll_sound hafe
  rw [specRows_agrees] at hspec
  exact Kvql.Proofs.RunAggr.run_aggr_limit_ref hplan hagg hfold hord hlim haf hside hcore hg (covered_sound hcov)
    (fun e he => haf' e (List.mem_append_left _ he)) (fun e he => haf' e (List.mem_append_right _ he))
    store hs hevw (fun p hp => evaluableOn_sound (hev p hp)) hspec bs hbs cache

/-- **LIMIT, either mode — partial** (hypotheses of `run_aggr_modes_agree_partial`): in row mode and in
    batch mode, at every batch size ≥ 1, cache on or off, the same slice of the rows of the specification;
    hence both modes agree with LIMIT too. -/
theorem run_aggr_limit_modes_partial (query : Bytes) (pf : Bytes → F64) (s : SelectS)
    (hplan : planStage pf (Lexer.split query) = .ok (.select s)) (hagg : finalPlanCheck s = .ok true)
    (f : FoldedSelect) (hfold : foldSelect s = .ok f) (hord : s.order = none) (l : LimitS) (hlim : s.limit = some l)
    (groups : List Expr) (hg : groupExprs s f = some groups)
    (hcov : covered f.fields = true) (hafe : aliasFreeAll (f.where_ :: groups ++ f.fields) = true)
    (store : Store) (hs : store.Sorted)
    (hokw : f.where_.vecOk = true)
    (hbatchw : ∀ p ∈ store, ∃ b, (execBatch f.where_ [⟨p.1, p.2⟩] Ctx.off).1 = .ok [.bool b])
    (hokg : ∀ e ∈ groups, e.vecOk = true)
    (hbatchg : ∀ p ∈ store.filter (Select.accepted f.where_), batchDefinedOn groups p = true)
    (hev : ∀ p ∈ store.filter (Select.accepted f.where_), evaluableOn groups f.fields p = true)
    (out : List (List AVal)) (hspec : specRows groups f.fields (store.filter (Select.accepted f.where_)) = .ok out)
    (kind : PollKind) (bs : Nat) (hbs : 1 ≤ bs) (cache : Bool) :
    (runQuery query pf store kind bs cache).fail = none ∧
    (runQuery query pf store kind bs cache).rows =
      ((out.map (List.map toValue)).drop l.start.toInt.toNat).take l.count.toInt.toNat ∧
    (runQuery query pf store kind bs cache).world.store = store ∧
    (∀ e ∈ (runQuery query pf store kind bs cache).world.log, e.call.isRead = true) := by
  have haf' := aliasFreeAll_sound hafe
  rw [specRows_agrees] at hspec
  exact Kvql.Proofs.RunAggr.run_aggr_limit hplan hagg hfold hord hlim hg (covered_sound hcov)
    (haf' _ (by simp))
    (fun e he => haf' e (by simp [he])) (fun e he => haf' e (by simp [he]))
    store hs hokw hbatchw hokg (fun p hp => batchDefinedOn_sound (hbatchg p hp))
    (fun p hp => evaluableOn_sound (hev p hp)) hspec kind bs hbs cache

/-! ## reading the specification -/

/-- every selected pair is in the group of its tuple -/
theorem groups_cover (groups : List Expr) (sel : List SPair) {p : SPair} (hp : p ∈ sel) :
    sel.filter (fun q => decide (tupleOf groups q = tupleOf groups p)) ∈ groupsOf groups sel := by
  unfold groupsOf
  apply List.mem_map.mpr
  refine ⟨tupleOf groups p, ?_, rfl⟩
  rw [distinct_agrees, Kvql.Proofs.RunAggr.distinct_eq_firsts, Kvql.Proofs.Aggr.mem_firsts]
  exact List.mem_map.mpr ⟨p, hp, rfl⟩

/-- no tuple has two groups: the tuples of the groups are pairwise different — ('b','12') and ('b1','2')
    are different tuples, hence different groups -/
theorem groups_distinct (groups : List Expr) (sel : List SPair) :
    (distinct (sel.map (tupleOf groups))).Nodup := by
  rw [distinct_agrees, Kvql.Proofs.RunAggr.distinct_eq_firsts]
  exact Kvql.Proofs.Aggr.firsts_nodup _

/-- every group is non-empty and all its pairs have the same tuple of GROUP BY values; in particular a
    select field that IS a GROUP BY expression shows "the group's value": it renders alike on every
    pair of the group, not only on the first -/
theorem group_key_constant (groups : List Expr) (sel : List SPair) {grp : List SPair}
    (hgrp : grp ∈ groupsOf groups sel) :
    grp ≠ [] ∧ ∀ p ∈ grp, ∀ q ∈ grp, ∀ e ∈ groups, render (valueOf e p) = render (valueOf e q) := by
  unfold groupsOf at hgrp
  obtain ⟨t, ht, rfl⟩ := List.mem_map.mp hgrp
  rw [distinct_agrees, Kvql.Proofs.RunAggr.distinct_eq_firsts, Kvql.Proofs.Aggr.mem_firsts] at ht
  obtain ⟨x, hx, rfl⟩ := List.mem_map.mp ht
  constructor
  · intro h
    have : x ∈ sel.filter (fun q => decide (tupleOf groups q = tupleOf groups x)) := by
      simp [List.mem_filter, hx]
    rw [h] at this
    cases this
  · intro p hp q hq e he
    have h1 : tupleOf groups p = tupleOf groups x := by simpa using (List.mem_filter.mp hp).2
    have h2 : tupleOf groups q = tupleOf groups x := by simpa using (List.mem_filter.mp hq).2
    have h3 : tupleOf groups p = tupleOf groups q := h1.trans h2.symm
    unfold tupleOf at h3
    exact List.map_inj_left.mp h3 e he

/-- the definitions, on integer-kinded arguments: sum is the `Int64` sum -/
theorem aggDef_sum_int (xs : List Int64) : aggDef .sum (xs.map AVal.int) = .ok (.int xs.sum) := by
  rw [aggDef_agrees, ← Kvql.Proofs.RunAggr.complete_fold]; exact Kvql.Properties.C09.acc_sum xs

/-- … avg is float64(sum) / float64(count) -/
theorem aggDef_avg_int (xs : List Int64) :
    aggDef .avg (xs.map AVal.int) = .ok (.float (F64.div (F64.ofInt xs.sum) (F64.ofInt (Int64.ofNat xs.length)))) := by
  rw [aggDef_agrees, ← Kvql.Proofs.RunAggr.complete_fold]; exact Kvql.Properties.C09.acc_avg xs

/-- … min is the LEAST argument, max the GREATEST -/
theorem aggDef_min_int (x : Int64) (xs : List Int64) :
    ∃ m, aggDef .min ((x :: xs).map AVal.int) = .ok (.int m) ∧ m ∈ x :: xs ∧ ∀ y ∈ x :: xs, m ≤ y := by
  rw [aggDef_agrees, ← Kvql.Proofs.RunAggr.complete_fold]; exact Kvql.Properties.C09.acc_min x xs

theorem aggDef_max_int (x : Int64) (xs : List Int64) :
    ∃ m, aggDef .max ((x :: xs).map AVal.int) = .ok (.int m) ∧ m ∈ x :: xs ∧ ∀ y ∈ x :: xs, y ≤ m := by
  rw [aggDef_agrees, ← Kvql.Proofs.RunAggr.complete_fold]; exact Kvql.Properties.C09.acc_max x xs

/-- … and the accumulators of aggr_func.go compute the definitions for ARBITRARY argument values
    (mixed integers, floats, texts): `Update` folded over the values, then `Complete` -/
theorem aggDef_is_accumulator (k : Aggr.Kind) (vs : List AVal) :
    (vs.foldl Aggr.Acc.update k.init).complete = aggDef k vs := by
  rw [aggDef_agrees]; exact Kvql.Proofs.RunAggr.complete_fold k vs

/-! ## (5) every hypothesis as one computable check on the statement text; non-vacuity -/

/-- ALL the hypotheses of `run_aggr_select_correct` about the accepted statement, its folded form `f` and
    the store, together with the rows the specification gives (`expected`), as a computable check on what
    `planStage` returns.  (`foldSelect` itself is defined by well-founded recursion and does not reduce
    in the kernel; `f` is therefore handed over and `foldSelect s = ok f` is a separate hypothesis.) -/
def aggrHyps (r : Res Stmt) (f : FoldedSelect) (store : Store) (expected : List (List AVal)) : Bool :=
  match r with
  | .ok (.select s) =>
    (match finalPlanCheck s with | .ok true => true | _ => false) &&
    s.order.isNone && s.limit.isNone &&
    aliasFree s.where_ && sideOk s.where_ && Refine.core s.where_ &&
    store.all (fun p => Spec.evaluable s.where_ ⟨p.1, p.2⟩) &&
    (match groupExprs s f with
     | some groups =>
       covered f.fields && aliasFreeAll (groups ++ f.fields) &&
       (store.filter (fun p => Spec.holds s.where_ ⟨p.1, p.2⟩)).all (evaluableOn groups f.fields) &&
       (match specRows groups f.fields (store.filter (fun p => Spec.holds s.where_ ⟨p.1, p.2⟩)) with
        | .ok out => out == expected
        | .error _ => false)
     | none => false)
  | _ => false

/-- **(5)** for every statement text and sorted store that pass `aggrHyps … expected`, the end-to-end
    model in row mode (every batch size ≥ 1, cache on or off) succeeds with exactly the rows `expected`,
    leaves the store as it was and issues read calls only -/
theorem run_aggr_checked (query : Bytes) (pf : Bytes → F64) (store : Store) (hs : store.Sorted)
    (f : FoldedSelect) (expected : List (List AVal))
    (h : aggrHyps (planStage pf (Lexer.split query)) f store expected = true)
    (hfold : ∀ s, planStage pf (Lexer.split query) = .ok (.select s) → foldSelect s = .ok f)
    (bs : Nat) (hbs : 1 ≤ bs) (cache : Bool) :
    (runQuery query pf store .next bs cache).fail = none ∧
    (runQuery query pf store .next bs cache).rows = expected.map (List.map toValue) ∧
    (runQuery query pf store .next bs cache).world.store = store ∧
    (∀ e ∈ (runQuery query pf store .next bs cache).world.log, e.call.isRead = true) := by
  unfold aggrHyps at h
  split at h
  · rename_i s hplan
    simp only [Bool.and_eq_true, Option.isNone_iff_eq_none, List.all_eq_true] at h
    obtain ⟨⟨⟨⟨⟨⟨⟨h1, h2⟩, h3⟩, h4⟩, h5⟩, h6⟩, h7⟩, h8⟩ := h
    have h1' : finalPlanCheck s = .ok true := by
      split at h1
      · assumption
      · cases h1
    split at h8
    · rename_i groups hg
      simp only [Bool.and_eq_true, List.all_eq_true] at h8
      obtain ⟨⟨⟨g1, g2⟩, g3⟩, g4⟩ := h8
      split at g4
      · rename_i out hspec
        have : out = expected := eq_of_beq g4
        subst this
        exact run_aggr_select_correct query pf s hplan h1' f (hfold s hplan) h2 h3 h4 h5 h6 groups hg g1 g2 store hs
          h7 g3 out hspec bs hbs cache
      · cases g4
    · cases h8
  · cases h

/-- the hypotheses of `run_aggr_modes_agree_partial`, likewise -/
def aggrBatchHyps (r : Res Stmt) (f : FoldedSelect) (store : Store) (expected : List (List AVal)) : Bool :=
  match r with
  | .ok (.select s) =>
    (match finalPlanCheck s with | .ok true => true | _ => false) &&
    s.order.isNone && s.limit.isNone &&
    (match groupExprs s f with
     | some groups =>
       covered f.fields && aliasFreeAll (f.where_ :: groups ++ f.fields) &&
       f.where_.vecOk && Kvql.Proofs.Run.batchBoolOn f.where_ store && groups.all (·.vecOk) &&
       (store.filter (Select.accepted f.where_)).all (batchDefinedOn groups) &&
       (store.filter (Select.accepted f.where_)).all (evaluableOn groups f.fields) &&
       (match specRows groups f.fields (store.filter (Select.accepted f.where_)) with
        | .ok out => out == expected
        | .error _ => false)
     | none => false)
  | _ => false

theorem run_aggr_modes_checked (query : Bytes) (pf : Bytes → F64) (store : Store) (hs : store.Sorted)
    (f : FoldedSelect) (expected : List (List AVal))
    (h : aggrBatchHyps (planStage pf (Lexer.split query)) f store expected = true)
    (hfold : ∀ s, planStage pf (Lexer.split query) = .ok (.select s) → foldSelect s = .ok f)
    (kind kind' : PollKind) (bs bs' : Nat) (hbs : 1 ≤ bs) (hbs' : 1 ≤ bs') (cache cache' : Bool) :
    (runQuery query pf store kind bs cache).fail = none ∧
    (runQuery query pf store kind bs cache).rows = expected.map (List.map toValue) ∧
    (runQuery query pf store kind' bs' cache').rows = (runQuery query pf store kind bs cache).rows := by
  unfold aggrBatchHyps at h
  split at h
  · rename_i s hplan
    simp only [Bool.and_eq_true, Option.isNone_iff_eq_none] at h
    obtain ⟨⟨⟨h1, h2⟩, h3⟩, h8⟩ := h
    have h1' : finalPlanCheck s = .ok true := by
      split at h1
      · assumption
      · cases h1
    split at h8
    · rename_i groups hg
      simp only [Bool.and_eq_true, List.all_eq_true] at h8
      obtain ⟨⟨⟨⟨⟨⟨⟨g1, g2⟩, g3⟩, g4⟩, g5⟩, g6⟩, g7⟩, g8⟩ := h8
      split at g8
      · rename_i out hspec
        have : out = expected := eq_of_beq g8
        subst this
        obtain ⟨r1, r2, r3, _⟩ := run_aggr_modes_agree_partial query pf s hplan h1' f (hfold s hplan) h2 h3 groups hg
          g1 g2 store hs g3 (Kvql.Proofs.Run.batchBoolOn_sound g4) g5 g6 g7 out hspec kind kind' bs bs' hbs hbs'
          cache cache'
        exact ⟨r1, r2, r3⟩
      · cases g8
    · cases h8
  · cases h

/-! ### non-vacuity: statement TEXTS that meet every hypothesis.  Kernel evaluation of lexer, parser,
    checker, plan-time validation, the reference and the engine evaluators and the specification;
    constant folding (well-founded recursion) by rewriting: it leaves these statements as they are. -/

/-- a statement whose WHERE and fields are the trees `w`, `fs` and that folding leaves alone -/
theorem foldSelect_id {s : SelectS} {w : Expr} {fs : List Expr} (hw : s.where_ = w) (hf : s.fields = fs)
    (hfw : Fold.optimizeBoth w = .ok (w, w)) (hffs : fs.mapM Fold.optimizeBoth = .ok (fs.map (fun e => (e, e))))
    (haf : aliasFreeAll (w :: fs) = true) : foldSelect s = .ok ⟨w, fs, fs⟩ := by
  have haf' := aliasFreeAll_sound haf
  have hmap : ∀ tbl, fs.map (fun e => Parser.resolveTop tbl e) = fs := by
    intro tbl
    conv => rhs; rw [← List.map_id fs]
    apply List.map_congr_left
    intro e he
    exact Kvql.Proofs.RunFold.resolveTop_of_af tbl e (haf' e (by simp [he]))
  unfold foldSelect
  rw [hw, hf, hfw, hffs]
  simp only [bind, Except.bind, pure, Except.pure, List.map_map, Function.comp_def, hmap,
    Kvql.Proofs.RunFold.resolveTop_of_af _ w (haf' w (by simp))]

/-- what `planStage` returns for the text has the WHERE `w` and the fields `fs` (kernel-checkable) -/
def parsedAs (r : Res Stmt) (w : Expr) (fs : List Expr) : Bool :=
  match r with
  | .ok (.select s) => Expr.same s.where_ w && Expr.sameList s.fields fs
  | _ => false

theorem parsedAs_sound {r : Res Stmt} {w : Expr} {fs : List Expr} (h : parsedAs r w fs = true) {s : SelectS}
    (hs : r = .ok (.select s)) : s.where_ = w ∧ s.fields = fs := by
  subst hs
  simp only [parsedAs, Bool.and_eq_true] at h
  exact ⟨Expr.eq_of_same _ _ h.1, Expr.eq_of_sameList _ _ h.2⟩

def pf0 : Bytes → F64 := fun _ => F64.zero

/-- {a1=2, a2=12, b1=2, b12=x, c=7} -/
def exStore : Store :=
  [(asciiBytes "a1", asciiBytes "2"), (asciiBytes "a2", asciiBytes "12"), (asciiBytes "b1", asciiBytes "2"),
   (asciiBytes "b12", asciiBytes "x"), (asciiBytes "c", asciiBytes "7")]

/-- GROUP BY an alias, arithmetic around two aggregate calls, `group_concat` -/
def exQuery : Bytes := asciiBytes
  "select substr(key, 0, 1) as k, count(1) * 2 + sum(int(value)), group_concat(value, '-') where key >= 'a' & value != 'x' group by k"

def exW : Expr :=
  .binop 105 .and (.binop 98 .gte (.field 94 .key) (.str 101 [97])) (.binop 113 .neq (.field 107 .value) (.str 116 [120]))
def exF1 : Expr := .call 7 (.name 7 [115, 117, 98, 115, 116, 114]) [.field 14 .key, .num 19 [48] 0, .num 22 [49] 1]
def exF2 : Expr :=
  .binop 44 .add
    (.binop 40 .mul (.call 31 (.name 31 [99, 111, 117, 110, 116]) [.num 37 [49] 1]) (.num 42 [50] 2))
    (.call 46 (.name 46 [115, 117, 109]) [.call 50 (.name 50 [105, 110, 116]) [.field 54 .value]])
def exF3 : Expr :=
  .call 63 (.name 63 [103, 114, 111, 117, 112, 95, 99, 111, 110, 99, 97, 116]) [.field 76 .value, .str 83 [45]]
def exF : FoldedSelect := ⟨exW, [exF1, exF2, exF3], [exF1, exF2, exF3]⟩

def exRows : List (List AVal) :=
  [[.bytes (asciiBytes "a"), .int 18, .str (asciiBytes "2-12")],
   [.bytes (asciiBytes "b"), .int 4, .str (asciiBytes "2")],
   [.bytes (asciiBytes "c"), .int 9, .str (asciiBytes "7")]]

theorem exQuery_parsed : parsedAs (planStage pf0 (Lexer.split exQuery)) exW [exF1, exF2, exF3] = true := by decide +kernel

/-- `count`, `sum`, … are not scalar functions: `tryOptimizeFunctionCall` leaves the calls alone -/
theorem notScalar_count (p : Nat) : Fold.isScalarFunc (.name p [99, 111, 117, 110, 116]) = false := by rfl
theorem notScalar_sum (p : Nat) : Fold.isScalarFunc (.name p [115, 117, 109]) = false := by rfl
theorem notScalar_avg (p : Nat) : Fold.isScalarFunc (.name p [97, 118, 103]) = false := by rfl
theorem notScalar_min (p : Nat) : Fold.isScalarFunc (.name p [109, 105, 110]) = false := by rfl
theorem notScalar_max (p : Nat) : Fold.isScalarFunc (.name p [109, 97, 120]) = false := by rfl
theorem notScalar_group_concat (p : Nat) :
    Fold.isScalarFunc (.name p [103, 114, 111, 117, 112, 95, 99, 111, 110, 99, 97, 116]) = false := by rfl
theorem notScalar_json_arrayagg (p : Nat) :
    Fold.isScalarFunc (.name p [106, 115, 111, 110, 95, 97, 114, 114, 97, 121, 97, 103, 103]) = false := by rfl

theorem exQuery_fold (s : SelectS) (h : planStage pf0 (Lexer.split exQuery) = .ok (.select s)) :
    foldSelect s = .ok exF := by
  obtain ⟨hw, hf⟩ := parsedAs_sound exQuery_parsed h
  refine foldSelect_id hw hf ?_ ?_ (by decide)
  · simp [exW, Fold.optimizeBoth, Fold.pass, Fold.reorder, Fold.binExec, Fold.operand, Fold.andOr,
      Fold.callFold, Fold.optArgs, Fold.isLit4, bind, Except.bind, Except.map, pure, Except.pure]
  · simp [exF1, exF2, exF3, Fold.optimizeBoth, Fold.pass, Fold.reorder, Fold.binExec, Fold.operand, Fold.andOr,
      Fold.callFold, Fold.optArgs, Fold.isLit4, bind, Except.bind, Except.map, pure, Except.pure, Fold.canReassociate,
      notScalar_count, notScalar_sum, notScalar_group_concat]

theorem exQuery_hyps : aggrHyps (planStage pf0 (Lexer.split exQuery)) exF exStore exRows = true := by decide +kernel

/-- … hence the end-to-end model returns those three rows: row mode, batch size 2, cache on -/
example : (runQuery exQuery pf0 exStore .next 2 true).rows = exRows.map (List.map toValue) :=
  (run_aggr_checked exQuery pf0 exStore (by decide) exF exRows exQuery_hyps exQuery_fold 2 (by decide) true).2.1

theorem exQuery_batch_hyps : aggrBatchHyps (planStage pf0 (Lexer.split exQuery)) exF exStore exRows = true := by
  decide +kernel

/-- … and (3): batch mode (batch size 2, cache on) and row mode (batch size 1, cache off) return the same rows -/
example : (runQuery exQuery pf0 exStore .next 1 false).rows = (runQuery exQuery pf0 exStore .batch 2 true).rows :=
  (run_aggr_modes_checked exQuery pf0 exStore (by decide) exF exRows exQuery_batch_hyps exQuery_fold .batch .next 2 1
    (by decide) (by decide) true false).2.2

/-- tuples are compared as tuples: over {b=12, b1=2}, `group by key, value` has the two groups
    ('b','12') and ('b1','2') — their plain concatenations coincide -/
def exQuery2 : Bytes := asciiBytes "select key, value, count(1) where key >= 'a' group by key, value"
def exStore2 : Store := [(asciiBytes "b", asciiBytes "12"), (asciiBytes "b1", asciiBytes "2")]
def exW2 : Expr := .binop 38 .gte (.field 34 .key) (.str 41 [97])
def exFs2 : List Expr := [.field 7 .key, .field 12 .value, .call 19 (.name 19 [99, 111, 117, 110, 116]) [.num 25 [49] 1]]
def exRows2 : List (List AVal) :=
  [[.bytes (asciiBytes "b"), .bytes (asciiBytes "12"), .int 1], [.bytes (asciiBytes "b1"), .bytes (asciiBytes "2"), .int 1]]

theorem exQuery2_parsed : parsedAs (planStage pf0 (Lexer.split exQuery2)) exW2 exFs2 = true := by decide +kernel

theorem exQuery2_fold (s : SelectS) (h : planStage pf0 (Lexer.split exQuery2) = .ok (.select s)) :
    foldSelect s = .ok ⟨exW2, exFs2, exFs2⟩ := by
  obtain ⟨hw, hf⟩ := parsedAs_sound exQuery2_parsed h
  refine foldSelect_id hw hf ?_ ?_ (by decide)
  · simp [exW2, Fold.optimizeBoth, Fold.pass, Fold.reorder, Fold.binExec, Fold.operand, Fold.andOr,
      Fold.callFold, Fold.optArgs, Fold.isLit4, bind, Except.bind, Except.map, pure, Except.pure]
  · simp [exFs2, Fold.optimizeBoth, Fold.pass, Fold.reorder, Fold.binExec, Fold.operand, Fold.andOr,
      Fold.callFold, Fold.optArgs, Fold.isLit4, bind, Except.bind, Except.map, pure, Except.pure, notScalar_count]

theorem exQuery2_hyps : aggrHyps (planStage pf0 (Lexer.split exQuery2)) ⟨exW2, exFs2, exFs2⟩ exStore2 exRows2 = true := by
  decide +kernel

example : (runQuery exQuery2 pf0 exStore2 .next 3 false).rows = exRows2.map (List.map toValue) :=
  (run_aggr_checked exQuery2 pf0 exStore2 (by decide) _ exRows2 exQuery2_hyps exQuery2_fold 3 (by decide) false).2.1

/-- (2) all seven aggregate functions, no GROUP BY, over {a=9, ab=5, b=1, c=7} where key > 'a':
    one row — count 3, sum 13, avg 13/3, min 1, max 7, 'ab,b,c', '["5","1","7"]' -/
def exQuery3 : Bytes := asciiBytes
  "select count(1), sum(int(value)), avg(int(value)), min(int(value)), max(int(value)), group_concat(key, ','), json_arrayagg(value) where key > 'a'"
def exW3 : Expr := .binop 140 .gt (.field 136 .key) (.str 142 [97])
def exFs3 : List Expr :=
  [.call 7 (.name 7 [99, 111, 117, 110, 116]) [.num 13 [49] 1],
   .call 17 (.name 17 [115, 117, 109]) [.call 21 (.name 21 [105, 110, 116]) [.field 25 .value]],
   .call 34 (.name 34 [97, 118, 103]) [.call 38 (.name 38 [105, 110, 116]) [.field 42 .value]],
   .call 51 (.name 51 [109, 105, 110]) [.call 55 (.name 55 [105, 110, 116]) [.field 59 .value]],
   .call 68 (.name 68 [109, 97, 120]) [.call 72 (.name 72 [105, 110, 116]) [.field 76 .value]],
   .call 85 (.name 85 [103, 114, 111, 117, 112, 95, 99, 111, 110, 99, 97, 116]) [.field 98 .key, .str 103 [44]],
   .call 109 (.name 109 [106, 115, 111, 110, 95, 97, 114, 114, 97, 121, 97, 103, 103]) [.field 123 .value]]
def exRows3 : List (List AVal) :=
  [[.int 3, .int 13, .float ⟨0x4011555555555555⟩, .int 1, .int 7, .str (asciiBytes "ab,b,c"),
    .str (asciiBytes "[\"5\",\"1\",\"7\"]")]]

theorem exQuery3_parsed : parsedAs (planStage pf0 (Lexer.split exQuery3)) exW3 exFs3 = true := by decide +kernel

theorem exQuery3_fold (s : SelectS) (h : planStage pf0 (Lexer.split exQuery3) = .ok (.select s)) :
    foldSelect s = .ok ⟨exW3, exFs3, exFs3⟩ := by
  obtain ⟨hw, hf⟩ := parsedAs_sound exQuery3_parsed h
  refine foldSelect_id hw hf ?_ ?_ (by decide)
  · simp [exW3, Fold.optimizeBoth, Fold.pass, Fold.reorder, Fold.binExec, Fold.operand, Fold.andOr,
      Fold.callFold, Fold.optArgs, Fold.isLit4, bind, Except.bind, Except.map, pure, Except.pure]
  · simp [exFs3, Fold.optimizeBoth, Fold.pass, Fold.reorder, Fold.binExec, Fold.operand, Fold.andOr,
      Fold.callFold, Fold.optArgs, Fold.isLit4, bind, Except.bind, Except.map, pure, Except.pure, notScalar_count,
      notScalar_sum, notScalar_avg, notScalar_min, notScalar_max, notScalar_group_concat, notScalar_json_arrayagg]

theorem exQuery3_hyps :
    aggrHyps (planStage pf0 (Lexer.split exQuery3)) ⟨exW3, exFs3, exFs3⟩ Select.exStore exRows3 = true := by
  decide +kernel

example : (runQuery exQuery3 pf0 Select.exStore .next 2 true).rows = exRows3.map (List.map toValue) :=
  (run_aggr_checked exQuery3 pf0 Select.exStore (by decide) _ exRows3 exQuery3_hyps exQuery3_fold 2 (by decide) true).2.1

/-- … the same statement in both modes (every hypothesis of `run_aggr_modes_agree_partial` holds for it) -/
theorem exQuery3_batch_hyps :
    aggrBatchHyps (planStage pf0 (Lexer.split exQuery3)) ⟨exW3, exFs3, exFs3⟩ Select.exStore exRows3 = true := by
  decide +kernel

example : (runQuery exQuery3 pf0 Select.exStore .batch 3 false).rows = exRows3.map (List.map toValue) :=
  (run_aggr_modes_checked exQuery3 pf0 Select.exStore (by decide) _ exRows3 exQuery3_batch_hyps exQuery3_fold .batch .next
    3 1 (by decide) (by decide) false true).2.1

/-- (2) on an EMPTY selection the engine returns NO row (not a row with count 0) -/
def exQuery4 : Bytes := asciiBytes "select count(1) where key > 'z'"
def exW4 : Expr := .binop 26 .gt (.field 22 .key) (.str 28 [122])
def exFs4 : List Expr := [.call 7 (.name 7 [99, 111, 117, 110, 116]) [.num 13 [49] 1]]

theorem exQuery4_parsed : parsedAs (planStage pf0 (Lexer.split exQuery4)) exW4 exFs4 = true := by decide +kernel

theorem exQuery4_fold (s : SelectS) (h : planStage pf0 (Lexer.split exQuery4) = .ok (.select s)) :
    foldSelect s = .ok ⟨exW4, exFs4, exFs4⟩ := by
  obtain ⟨hw, hf⟩ := parsedAs_sound exQuery4_parsed h
  refine foldSelect_id hw hf ?_ ?_ (by decide)
  · simp [exW4, Fold.optimizeBoth, Fold.pass, Fold.reorder, Fold.binExec, Fold.operand, Fold.andOr,
      Fold.callFold, Fold.optArgs, Fold.isLit4, bind, Except.bind, Except.map, pure, Except.pure]
  · simp [exFs4, Fold.optimizeBoth, Fold.pass, Fold.reorder, Fold.binExec, Fold.operand, Fold.andOr,
      Fold.callFold, Fold.optArgs, Fold.isLit4, bind, Except.bind, Except.map, pure, Except.pure, notScalar_count]

theorem exQuery4_hyps : aggrHyps (planStage pf0 (Lexer.split exQuery4)) ⟨exW4, exFs4, exFs4⟩ Select.exStore [] = true := by
  decide +kernel

example : (runQuery exQuery4 pf0 Select.exStore .next 2 true).rows = [] :=
  (run_aggr_checked exQuery4 pf0 Select.exStore (by decide) _ [] exQuery4_hyps exQuery4_fold 2 (by decide) true).2.1

/-- (4) for `exQuery`: the store is unchanged and no logged call mutates -/
example : (runQuery exQuery pf0 exStore .next 2 true).world.store = exStore ∧
    ∀ e ∈ (runQuery exQuery pf0 exStore .next 2 true).world.log, e.call.isRead = true :=
  (run_aggr_checked exQuery pf0 exStore (by decide) exF exRows exQuery_hyps exQuery_fold 2 (by decide) true).2.2

/-- LIMIT: `exQuery` with `limit 1, 1` returns row 1 (the group 'b') of the three rows -/
def exQueryL : Bytes := asciiBytes
  "select substr(key, 0, 1) as k, count(1) * 2 + sum(int(value)), group_concat(value, '-') where key >= 'a' & value != 'x' group by k limit 1, 1"

/-- the hypotheses of `run_aggr_limit_correct`, with the LIMIT clause pinned to `(start, count)` -/
def aggrLimitHyps (r : Res Stmt) (f : FoldedSelect) (store : Store) (expected : List (List AVal)) (start count : Nat) :
    Bool :=
  match r with
  | .ok (.select s) =>
    (match finalPlanCheck s with | .ok true => true | _ => false) &&
    s.order.isNone &&
    (match s.limit with | some l => l.start.toInt.toNat == start && l.count.toInt.toNat == count | none => false) &&
    aliasFree s.where_ && sideOk s.where_ && Refine.core s.where_ &&
    store.all (fun p => Spec.evaluable s.where_ ⟨p.1, p.2⟩) &&
    (match groupExprs s f with
     | some groups =>
       covered f.fields && aliasFreeAll (groups ++ f.fields) &&
       (store.filter (fun p => Spec.holds s.where_ ⟨p.1, p.2⟩)).all (evaluableOn groups f.fields) &&
       (match specRows groups f.fields (store.filter (fun p => Spec.holds s.where_ ⟨p.1, p.2⟩)) with
        | .ok out => out == expected
        | .error _ => false)
     | none => false)
  | _ => false

theorem run_aggr_limit_checked (query : Bytes) (pf : Bytes → F64) (store : Store) (hs : store.Sorted)
    (f : FoldedSelect) (expected : List (List AVal)) (start count : Nat)
    (h : aggrLimitHyps (planStage pf (Lexer.split query)) f store expected start count = true)
    (hfold : ∀ s, planStage pf (Lexer.split query) = .ok (.select s) → foldSelect s = .ok f)
    (bs : Nat) (hbs : 1 ≤ bs) (cache : Bool) :
    (runQuery query pf store .next bs cache).fail = none ∧
    (runQuery query pf store .next bs cache).rows = ((expected.map (List.map toValue)).drop start).take count := by
  unfold aggrLimitHyps at h
  split at h
  · rename_i s hplan
    simp only [Bool.and_eq_true, Option.isNone_iff_eq_none, List.all_eq_true] at h
    obtain ⟨⟨⟨⟨⟨⟨⟨h1, h2⟩, h3⟩, h4⟩, h5⟩, h6⟩, h7⟩, h8⟩ := h
    have h1' : finalPlanCheck s = .ok true := by
      split at h1
      · assumption
      · cases h1
    split at h3
    · rename_i l hl
      simp only [Bool.and_eq_true, beq_iff_eq] at h3
      split at h8
      · rename_i groups hg
        simp only [Bool.and_eq_true, List.all_eq_true] at h8
        obtain ⟨⟨⟨g1, g2⟩, g3⟩, g4⟩ := h8
        split at g4
        · rename_i out hspec
          have : out = expected := eq_of_beq g4
          subst this
          obtain ⟨r1, r2, _⟩ := run_aggr_limit_correct query pf s hplan h1' f (hfold s hplan) h2 l hl h4 h5 h6 groups hg
            g1 g2 store hs h7 g3 out hspec bs hbs cache
          exact ⟨r1, by rw [r2, h3.1, h3.2]⟩
        · cases g4
      · cases h8
    · cases h3
  · cases h

theorem exQueryL_parsed : parsedAs (planStage pf0 (Lexer.split exQueryL)) exW [exF1, exF2, exF3] = true := by
  decide +kernel

theorem exQueryL_fold (s : SelectS) (h : planStage pf0 (Lexer.split exQueryL) = .ok (.select s)) :
    foldSelect s = .ok exF := by
  obtain ⟨hw, hf⟩ := parsedAs_sound exQueryL_parsed h
  refine foldSelect_id hw hf ?_ ?_ (by decide)
  · simp [exW, Fold.optimizeBoth, Fold.pass, Fold.reorder, Fold.binExec, Fold.operand, Fold.andOr,
      Fold.callFold, Fold.optArgs, Fold.isLit4, bind, Except.bind, Except.map, pure, Except.pure]
  · simp [exF1, exF2, exF3, Fold.optimizeBoth, Fold.pass, Fold.reorder, Fold.binExec, Fold.operand, Fold.andOr,
      Fold.callFold, Fold.optArgs, Fold.isLit4, bind, Except.bind, Except.map, pure, Except.pure, Fold.canReassociate,
      notScalar_count, notScalar_sum, notScalar_group_concat]

theorem exQueryL_hyps : aggrLimitHyps (planStage pf0 (Lexer.split exQueryL)) exF exStore exRows 1 1 = true := by
  decide +kernel

example : (runQuery exQueryL pf0 exStore .next 2 true).rows =
    [[.bytes (asciiBytes "b"), .int 4, .str (asciiBytes "2")]] :=
  (run_aggr_limit_checked exQueryL pf0 exStore (by decide) exF exRows 1 1 exQueryL_hyps exQueryL_fold 2 (by decide)
    true).2

end Kvql.Properties.E2EAggr
