/-
  E2E  Whole statements, given as TEXT, over ONE executable model of the library.

  `Kvql.Run.runQuery : (query : Bytes) → (pf : float oracle) → Store → mode → bs → cache → Outcome`
  (Model/Run.lean) composes the component models exactly the way optimizer.go composes the Go plans:
  Lexer.split → PlanCheck.planStage (Parse, checker, plan-time validation) → Fold.optimizeBoth on WHERE
  and fields → Scan.optimize → Plans (scan / LIMIT / DELETE / PUT / REMOVE over the storage machine with
  its call log) with filter := exec / execBatch through the field cache (Project) → ProjectionPlan →
  Order → Limit, or Aggregate with its tables := exec.  Tied to the code by the RUNQ correspondence
  group (harness/runq.go): statements as text, outcome class, rows, final store and call log of the
  real engine against this model; no table computed by the engine crosses the wire.

  The theorems below are the whole-statement forms of C01 (4), C03 (3) and C13/C14's
  "rejected statements touch nothing"; they are attached to C01 / C03.

  (a) `run_select_star_correct`  C01 for a statement text: `select * where P` returns exactly the stored
       pairs on which the REFERENCE evaluator says P is true, in key order (row mode, every batch size,
       cache on or off).  The two explicit hypotheses of C01 `select_star_correct` are discharged:
       `FoldPreserves` by C04 `fold_preserves_where` (+ `fold_total`, + folding creates no alias
       reference), the well-kindedness half of `CoreLang` by C14 (`accepted_select_where_kind`, i.e.
       `check_sound` through the accepted statement).  Kept, all decidable on the statement: `core`
       (the sub-language the reference evaluator covers), `sideOk` and `aliasFree` (hypotheses of
       `check_sound`), `finalPlanCheck s = ok false`.
       `run_select_star_correct_batch_partial`: batch mode, with the hypothesis that the vector
       evaluator is defined on every stored pair (C03 proves batch ⇒ row only).
  (b) `run_star_modes_agree_partial`  row and batch mode, any two batch sizes, cache on or off on
       either side: the same rows — statement kind (1).  `run_star_limit_partial`: kind (3) on
       `select *`: with LIMIT s, n either mode returns rows s … s+n-1 of the unlimited result (C08 for
       the whole statement), hence both modes agree; `run_select_star_limit_correct`: the same against
       the reference evaluator, row mode.  Kind (2) (select fields, cache-driven projection): RUNQ
       correspondence + the component theorems of C05 — no theorem over `runQuery`.
  (c) `run_rejected_touches_nothing`  whatever `planStage` rejects has no row, an empty call log and
       the store unchanged.
-/
import Kvql.Proofs.RunProofs
import Kvql.Proofs.RunExprEq

namespace Kvql.Properties.E2E
open Kvql Kvql.Run Kvql.Plans Kvql.Storage Kvql.Proofs.Typing
open Kvql.PlanCheck (planStage finalPlanCheck)

/-- (c) REJECTED ⇒ NOTHING TOUCHED, through the composition. -/
theorem run_rejected_touches_nothing (query : Bytes) (pf : Bytes → F64) (store : Store) (kind : PollKind)
    (bs : Nat) (cache : Bool) (h : Rejects (planStage pf (Lexer.split query))) :
    (runQuery query pf store kind bs cache).fail.isSome = true ∧
    (runQuery query pf store kind bs cache).rows = [] ∧
    (runQuery query pf store kind bs cache).world.log = [] ∧
    (runQuery query pf store kind bs cache).world.store = store :=
  Kvql.Proofs.Run.run_rejected_touches_nothing query pf store kind bs cache h

/-- (a) **C01 over the end-to-end model** (row mode; every batch size ≥ 1; cache on or off). -/
theorem run_select_star_correct (query : Bytes) (pf : Bytes → F64) (s : SelectS)
    (hplan : planStage pf (Lexer.split query) = .ok (.select s))
    (hstar : s.allFields = true) (hord : s.order = none) (hlim : s.limit = none)
    (hnoaggr : finalPlanCheck s = .ok false)
    (haf : aliasFree s.where_ = true) (hside : sideOk s.where_ = true) (hcore : Refine.core s.where_ = true)
    (store : Store) (hs : store.Sorted)
    (hev : ∀ p ∈ store, Spec.evaluable s.where_ ⟨p.1, p.2⟩ = true)
    (bs : Nat) (hbs : 1 ≤ bs) (cache : Bool) :
    (runQuery query pf store .next bs cache).fail = none ∧
    (runQuery query pf store .next bs cache).rows =
      (store.filter (fun p => Spec.holds s.where_ ⟨p.1, p.2⟩)).map pairRow ∧
    (runQuery query pf store .next bs cache).world.store = store :=
  Kvql.Proofs.Run.run_select_star_correct query pf s hplan hstar hord hlim hnoaggr haf hside hcore store hs hev bs hbs cache

/-- (a), batch mode — partial: extra hypotheses `fw.vecOk` and `hbatch` on the folded WHERE. -/
theorem run_select_star_correct_batch_partial (query : Bytes) (pf : Bytes → F64) (s : SelectS)
    (hplan : planStage pf (Lexer.split query) = .ok (.select s))
    (hstar : s.allFields = true) (hord : s.order = none) (hlim : s.limit = none)
    (hnoaggr : finalPlanCheck s = .ok false)
    (haf : aliasFree s.where_ = true) (hside : sideOk s.where_ = true) (hcore : Refine.core s.where_ = true)
    (store : Store) (hs : store.Sorted)
    (hev : ∀ p ∈ store, Spec.evaluable s.where_ ⟨p.1, p.2⟩ = true)
    (fw : Expr) (hfw : Fold.optimize s.where_ = .ok fw) (hok : fw.vecOk = true)
    (hbatch : ∀ p ∈ store, ∃ v, (execBatch fw [⟨p.1, p.2⟩] Ctx.off).1 = .ok [v])
    (bs : Nat) (hbs : 1 ≤ bs) (cache : Bool) :
    (runQuery query pf store .batch bs cache).fail = none ∧
    (runQuery query pf store .batch bs cache).rows =
      (store.filter (fun p => Spec.holds s.where_ ⟨p.1, p.2⟩)).map pairRow ∧
    (runQuery query pf store .batch bs cache).world.store = store :=
  Kvql.Proofs.Run.run_select_star_correct_batch_partial query pf s hplan hstar hord hlim hnoaggr haf hside hcore
    store hs hev fw hfw hok hbatch bs hbs cache

/-- (a) with every hypothesis about statement and store as ONE computable check on the text. -/
theorem run_select_star_checked (query : Bytes) (pf : Bytes → F64) (store : Store) (hs : store.Sorted)
    (h : Kvql.Proofs.Run.starHyps (planStage pf (Lexer.split query)) store = true) (bs : Nat) (hbs : 1 ≤ bs)
    (cache : Bool) :
    ∃ s, planStage pf (Lexer.split query) = .ok (.select s) ∧
      (runQuery query pf store .next bs cache).fail = none ∧
      (runQuery query pf store .next bs cache).rows =
        (store.filter (fun p => Spec.holds s.where_ ⟨p.1, p.2⟩)).map pairRow ∧
      (runQuery query pf store .next bs cache).world.store = store :=
  Kvql.Proofs.Run.run_select_star_checked query pf store hs h bs hbs cache

/-- (b) **row and batch iteration agree**, statement kind (1) — partial (see the header). -/
theorem run_star_modes_agree_partial (query : Bytes) (pf : Bytes → F64) (s : SelectS)
    (hplan : planStage pf (Lexer.split query) = .ok (.select s))
    (hstar : s.allFields = true) (hord : s.order = none) (hlim : s.limit = none)
    (hnoaggr : finalPlanCheck s = .ok false) (haf : aliasFree s.where_ = true)
    (store : Store) (hs : store.Sorted)
    (fw : Expr) (hfw : Fold.optimize s.where_ = .ok fw) (hok : fw.vecOk = true)
    (hbatch : ∀ p ∈ store, ∃ b, (execBatch fw [⟨p.1, p.2⟩] Ctx.off).1 = .ok [.bool b])
    (bs bs' : Nat) (hbs : 1 ≤ bs) (hbs' : 1 ≤ bs') (cache cache' : Bool) :
    (runQuery query pf store .batch bs cache).fail = none ∧
    (runQuery query pf store .next bs' cache').fail = none ∧
    (runQuery query pf store .next bs' cache').rows = (runQuery query pf store .batch bs cache).rows ∧
    (runQuery query pf store .batch bs cache).rows = (store.filter (Select.accepted fw)).map pairRow ∧
    (runQuery query pf store .next bs' cache').world.store = store ∧
    (runQuery query pf store .batch bs cache).world.store = store :=
  Kvql.Proofs.Run.run_star_modes_agree_partial query pf s hplan hstar hord hlim hnoaggr haf store hs fw hfw hok hbatch
    bs bs' hbs hbs' cache cache'

/-- (b), kind (3) on `select *` — partial: LIMIT is `take n ∘ drop s` of the unlimited result, in either mode. -/
theorem run_star_limit_partial (query : Bytes) (pf : Bytes → F64) (s : SelectS)
    (hplan : planStage pf (Lexer.split query) = .ok (.select s))
    (hstar : s.allFields = true) (hord : s.order = none) (l : LimitS) (hlim : s.limit = some l)
    (hnoaggr : finalPlanCheck s = .ok false) (haf : aliasFree s.where_ = true)
    (store : Store) (hs : store.Sorted)
    (fw : Expr) (hfw : Fold.optimize s.where_ = .ok fw) (hok : fw.vecOk = true)
    (hbatch : ∀ p ∈ store, ∃ b, (execBatch fw [⟨p.1, p.2⟩] Ctx.off).1 = .ok [.bool b])
    (kind : PollKind) (bs : Nat) (hbs : 1 ≤ bs) (cache : Bool) :
    (runQuery query pf store kind bs cache).fail = none ∧
    (runQuery query pf store kind bs cache).rows =
      (((store.filter (Select.accepted fw)).map pairRow).drop l.start.toInt.toNat).take l.count.toInt.toNat :=
  Kvql.Proofs.Run.run_star_limit_partial query pf s hplan hstar hord l hlim hnoaggr haf store hs fw hfw hok hbatch
    kind bs hbs cache

/-- **C01 + C08 over the end-to-end model** (row mode): `select * where P limit s, n` returns rows
    `s … s+n-1` of the reference's selection. -/
theorem run_select_star_limit_correct (query : Bytes) (pf : Bytes → F64) (s : SelectS)
    (hplan : planStage pf (Lexer.split query) = .ok (.select s))
    (hstar : s.allFields = true) (hord : s.order = none) (l : LimitS) (hlim : s.limit = some l)
    (hnoaggr : finalPlanCheck s = .ok false)
    (haf : aliasFree s.where_ = true) (hside : sideOk s.where_ = true) (hcore : Refine.core s.where_ = true)
    (store : Store) (hs : store.Sorted)
    (hev : ∀ p ∈ store, Spec.evaluable s.where_ ⟨p.1, p.2⟩ = true)
    (bs : Nat) (hbs : 1 ≤ bs) (cache : Bool) :
    (runQuery query pf store .next bs cache).fail = none ∧
    (runQuery query pf store .next bs cache).rows =
      (((store.filter (fun p => Spec.holds s.where_ ⟨p.1, p.2⟩)).map pairRow).drop l.start.toInt.toNat).take
        l.count.toInt.toNat :=
  Kvql.Proofs.Run.run_select_star_limit_correct query pf s hplan hstar hord l hlim hnoaggr haf hside hcore store hs hev
    bs hbs cache

/-! ### non-vacuity: the text `select * where key > 'a' & int(value) + 1 > 2` over {a=9, ab=5, b=1, c=7} -/

def pf0 : Bytes → F64 := fun _ => F64.zero
def exQuery : Bytes := asciiBytes "select * where key > 'a' & int(value) + 1 > 2"

/-- EVERY hypothesis of (a) holds for this text and store: the lexer, the parser, the checker and the
    plan-time validation accept it as a `select *` without clauses, the WHERE has no alias reference,
    is within `sideOk` and `core`, and the reference evaluates it on all four pairs
    (kernel evaluation of the models on the text) -/
theorem exQuery_hyps : Kvql.Proofs.Run.starHyps (planStage pf0 (Lexer.split exQuery)) Select.exStore = true := by
  decide +kernel

/-- … hence the end-to-end model, row mode, any batch size, cache on, returns the reference's selection -/
example : ∃ s, planStage pf0 (Lexer.split exQuery) = .ok (.select s) ∧
    (runQuery exQuery pf0 Select.exStore .next 3 true).fail = none ∧
    (runQuery exQuery pf0 Select.exStore .next 3 true).rows =
      (Select.exStore.filter (fun p => Spec.holds s.where_ ⟨p.1, p.2⟩)).map pairRow :=
  let ⟨s, h1, h2, h3, _⟩ := run_select_star_checked exQuery pf0 Select.exStore (by decide) exQuery_hyps 3 (by decide) true
  ⟨s, h1, h2, h3⟩

/-- the WHERE tree of `exQuery` as the parser and the checker leave it (positions = byte offsets) -/
def exW : Expr :=
  .binop 25 .and (.binop 19 .gt (.field 15 .key) (.str 21 [97]))
    (.binop 42 .gt (.binop 38 .add (.call 27 (.name 27 [105, 110, 116]) [.field 31 .value]) (.num 40 [49] 1)) (.num 44 [50] 2))

/-- `planStage` on the text returns that tree (kernel evaluation) -/
theorem exQuery_where : (match planStage pf0 (Lexer.split exQuery) with
    | .ok (.select s) => Expr.same s.where_ exW
    | _ => false) = true := by decide +kernel

/-- nothing to fold in it: `Optimize()` returns it unchanged -/
theorem fold_exW : Fold.optimize exW = .ok exW := by
  simp [exW, Fold.optimize, Fold.optimizeBoth, Fold.pass, Fold.reorder, Fold.binExec, Fold.operand, Fold.andOr,
    Fold.callFold, Fold.optArgs, Fold.isLit4, bind, Except.bind, Except.map, pure, Except.pure]

/-- the extra hypotheses of the batch-mode theorems hold for it: `vecOk`, and the vector evaluator
    yields a Boolean on each of the four pairs -/
theorem exW_batch : exW.vecOk = true ∧ Kvql.Proofs.Run.batchBoolOn exW Select.exStore = true := by
  constructor <;> decide +kernel

/-- … hence (b): row mode (batch size 1, cache off) and batch mode (batch size 2, cache on) return the
    same rows for the TEXT `exQuery` -/
example : (runQuery exQuery pf0 Select.exStore .next 1 false).rows = (runQuery exQuery pf0 Select.exStore .batch 2 true).rows := by
  obtain ⟨s, hplan, h1, h2, h3, h4, h5, _, _, _⟩ := Kvql.Proofs.Run.starHyps_sound exQuery_hyps
  have hw := exQuery_where
  rw [hplan] at hw
  have hwe : s.where_ = exW := Expr.eq_of_same _ _ hw
  have hfw : Fold.optimize s.where_ = .ok exW := by rw [hwe]; exact fold_exW
  exact (run_star_modes_agree_partial exQuery pf0 s hplan h1 h2 h3 h4 h5 Select.exStore (by decide) exW hfw exW_batch.1
    (Kvql.Proofs.Run.batchBoolOn_sound exW_batch.2) 2 1 (by decide) (by decide) true false).2.2.1

/-- the same text with `limit 1, 1`: every hypothesis of `run_select_star_limit_correct` holds -/
def exQueryL : Bytes := asciiBytes "select * where key > 'a' & int(value) + 1 > 2 limit 1, 1"

def limitHyps (r : Res Stmt) (store : Store) : Bool :=
  match r with
  | .ok (.select s) =>
    s.allFields && s.order.isNone && s.limit.isSome &&
    (match finalPlanCheck s with | .ok false => true | _ => false) &&
    aliasFree s.where_ && sideOk s.where_ && Refine.core s.where_ &&
    store.all (fun p => Spec.evaluable s.where_ ⟨p.1, p.2⟩)
  | _ => false

/-- the count of its LIMIT clause is 1 (kernel evaluation) -/
theorem exQueryL_count : (match planStage pf0 (Lexer.split exQueryL) with
    | .ok (.select s) => (match s.limit with | some l => decide (l.count.toInt.toNat = 1) | none => false)
    | _ => false) = true := by decide +kernel

theorem exQueryL_hyps : limitHyps (planStage pf0 (Lexer.split exQueryL)) Select.exStore = true := by decide +kernel

/-- … hence it succeeds in row mode with at most one row: row 1 of the reference's selection -/
example : (runQuery exQueryL pf0 Select.exStore .next 2 true).fail = none ∧
    (runQuery exQueryL pf0 Select.exStore .next 2 true).rows.length ≤ 1 := by
  have h := exQueryL_hyps
  unfold limitHyps at h
  split at h
  · rename_i s hplan
    simp only [Bool.and_eq_true, Option.isNone_iff_eq_none, List.all_eq_true] at h
    obtain ⟨⟨⟨⟨⟨⟨⟨h1, h2⟩, h3⟩, h4⟩, h5⟩, h6⟩, h7⟩, h8⟩ := h
    obtain ⟨l, hl⟩ := Option.isSome_iff_exists.mp h3
    have h4' : finalPlanCheck s = .ok false := by
      split at h4
      · assumption
      · cases h4
    have hc : l.count.toInt.toNat = 1 := by
      have hq := exQueryL_count
      rw [hplan] at hq
      simp only [hl] at hq
      exact of_decide_eq_true hq
    obtain ⟨r1, r2⟩ := run_select_star_limit_correct exQueryL pf0 s hplan h1 h2 l hl h4' h5 h6 h7 Select.exStore
      (by decide) h8 2 (by decide) true
    refine ⟨r1, ?_⟩
    rw [r2, hc]
    exact List.length_take_le _ _
  · cases h

/-- a computable form of `Rejects` -/
def isRejected {α : Type} : Res α → Bool
  | .ok _ => false
  | _ => true

theorem rejects_of_isRejected {α : Type} {r : Res α} (h : isRejected r = true) : Rejects r := by
  intro a ha; rw [ha] at h; cases h

/-- (c): `select nosuch(key) where key = 'a'` — an unknown function — is rejected by `planStage`
    (kernel evaluation), hence no row, no storage call, store unchanged, whatever the store -/
example (store : Store) :
    (runQuery (asciiBytes "select nosuch(key) where key = 'a'") pf0 store .batch 2 true).world.log = [] :=
  (run_rejected_touches_nothing _ pf0 store .batch 2 true
    (rejects_of_isRejected (by decide +kernel))).2.2.1

end Kvql.Properties.E2E
