/-
  C03  Row-at-a-time and batch iteration give the same result at any batch size.

  The property is the conjunction of (1) the evaluators agree: the vector evaluator on a chunk
  returns, pair by pair, what the row evaluator returns (by content), and a chunk's result does not
  depend on how pairs are grouped into chunks; (2) every plan node drains to the same rows in both
  modes for every batch size ≥ 1.  Each part is proved over the model of the component concerned;
  this file gathers them (the statements live in the component's property/proof files, listed in
  C03.theorems).  There is no single theorem over one monolithic `run` (DESIGN.md §14.1): the
  whole-statement agreement is checked end to end by the MODES and SLIMIT groups on the engine.
  "Whenever batch iteration completes without error, row iteration completes too" is the
  direction `vec_eq_map` proves; the converse is not claimed (batch evaluates both operands of &/|).
-/
import Kvql.Proofs.C03Exec
import Kvql.Proofs.ScanTraffic
import Kvql.Properties.C05
import Kvql.Properties.C07
import Kvql.Properties.C08
import Kvql.Properties.C09
import Kvql.Properties.C11

namespace Kvql.Properties.C03

/-- the six per-component mode-agreement theorems this property rests on (names only; see the files) -/
def components : List String :=
  ["Kvql.Proofs.C03.vec_eq_map", "Kvql.Proofs.C03.batch_pairwise", "Kvql.Proofs.Scan.scan_rows_eq_filter",
   "Kvql.Properties.C05.batch_value_is_row_value", "Kvql.Properties.C08.limit_modes_agree",
   "Kvql.Properties.C07.order_next_eq_batch", "Kvql.Properties.C09.aggr_modes_agree"]

end Kvql.Properties.C03
