/-
  C17 (positions), strengthened: where the positions of PLAN-time and EXECUTION-time errors come from.

  `C17.parse_err_pos` covers the errors `Parse` returns.  This file covers the rest of the property's
  first sentence ("every positional error returned for a query carries -1 or a byte offset inside the
  query text"):

  (1) `parse_positions…`      every `Pos` field stored anywhere in the statement `Parse` returns is the
                              offset of one of the query's tokens — with exactly two synthesised
                              exceptions, both the zero value of a Go struct field and both only in an
                              `AllFields` statement: the KEY / VALUE field nodes `parseSelect` builds for
                              `select *` (and their copies inside alias references), and
                              `SelectStmt.Pos` of a bare `where …`.
  (2) `evaluated_positions…`  the same for the trees the end-to-end model EVALUATES (`evalTrees`): after
                              the checker's alias resolution, constant folding (a folded literal takes
                              the position of the LEFT operand, resp. of the call: `folded_binary_pos`,
                              `folded_call_pos`) and the re-pointing of alias references.
  (3) `plan_err_pos…`         every error `PlanCheck.planStage` returns — `Parse`, the function-call
                              validation, `buildFinalPlan`, the aggregate constructors — carries -1, 0 or
                              a token offset.
  (4) `run_error_positions`   any `Fail.plan e` of `Run.runQuery` satisfies the position clause, and lies
                              inside the query text; `exec_error_position_inside` is the tree-level
                              statement for execution-time errors.

  THE MODELLED-NOT-VERIFIED LINK for execution-time errors.  The evaluator models `exec` / `execBatch`
  classify errors but do not carry positions.  In the Go code every `NewExecuteError(pos, …)` is raised
  with `pos = X.GetPos()` for a node `X` of the expression being evaluated (`e`, `e.Left`, `e.Right`,
  `args[i]`, `p.Fields[i]`, …), or with the literal 0 (aggregate_plan.go, twice).  ASSUMPTION (checked
  differentially by the harness group ERRPOS, not proved): the position of an execution-time error of a
  statement is `GetPos()` of a node of one of the trees `evalTrees stmt`, i.e. a member of
  `e.positions` for some `e ∈ evalTrees stmt`, or 0.  Under that assumption
  `exec_error_position_inside` is the execution-time half of C17's position clause.

  Everything is over the models `Parser.Parse`, `PlanCheck.planStage`, `Fold`, `Run.foldSelect`,
  `Run.runQuery` (tied to the Go code by the PARSE / PLAN / FOLD / RUN correspondences), for every
  query text and every value of `strconv.ParseFloat` (`pf`).
-/
import Kvql.Properties.C17
import Kvql.Proofs.ErrPosTrees

namespace Kvql.Properties.C17Pos

open Kvql Kvql.Proofs.ErrPos

/-- the offsets of the tokens of the query -/
def tokenOffsets (q : Bytes) : List Nat := (Lexer.split q).map (·.pos)

theorem mem_tokenOffsets {q : Bytes} {p : Nat} : p ∈ tokenOffsets q ↔ ∃ t ∈ Lexer.split q, t.pos = p := by
  simp [tokenOffsets]

/-- a token offset is a byte offset inside the query text (by C16 the offset at which the token's
    text starts) -/
theorem tokenOffset_inside (q : Bytes) (p : Nat) (h : p ∈ tokenOffsets q) : p < q.length :=
  tokOff_inside q (mem_tokenOffsets.mp h)

/-! ### (1) positions in the tree are token offsets -/

/-- **(1), exact form.**  In the statement `Parse` returns for the tokens of `q`:
    * every node other than a KEY / VALUE field node carries the offset of a token;
    * a KEY / VALUE field node carries the offset of a token, or 0 in an `AllFields` statement
      (the two nodes `select *` synthesises, and copies of them in alias references);
    * the clause positions (`WHERE`, `ORDER`, `GROUP`, `LIMIT`) are token offsets;
    * the statement's own position is a token offset, or 0 in an `AllFields` statement
      (a bare `where …`). -/
theorem parse_positions_exact (pf : Bytes → F64) (q : Bytes) (s : Stmt)
    (h : Parser.Parse pf (Lexer.split q) = .ok s) :
    (∀ e ∈ s.exprs, ∀ p ∈ e.nodePositions, p ∈ tokenOffsets q) ∧
    (∀ e ∈ s.exprs, ∀ p ∈ e.fieldPositions, p ∈ tokenOffsets q ∨ (p = 0 ∧ s.isAll = true)) ∧
    (∀ p ∈ s.clausePositions, p ∈ tokenOffsets q) ∧
    (s.pos ∈ tokenOffsets q ∨ (s.pos = 0 ∧ s.isAll = true)) := by
  have hs : StmtOK (TokOff (Lexer.split q)) (Fq (TokOff (Lexer.split q)) s.isAll) s :=
    (parse_ok (TokOff (Lexer.split q)) pf (tokS_tokOff _)).of_eq h
  refine ⟨?_, ?_, ?_, ?_⟩
  · intro e he p hp
    exact mem_tokenOffsets.mpr (((nodeOK_iff _ _ e).mp (hs.exprs e he)).1 p hp)
  · intro e he p hp
    rcases ((nodeOK_iff _ _ e).mp (hs.exprs e he)).2 p hp with h1 | h1
    · exact Or.inl (mem_tokenOffsets.mpr h1)
    · exact Or.inr h1
  · intro p hp
    exact mem_tokenOffsets.mpr (hs.clauses p hp)
  · rcases hs.pos (Fq.of _) with h1 | h1
    · exact Or.inl (mem_tokenOffsets.mpr h1)
    · exact Or.inr h1

/-- **(1)**: EVERY `Pos` field occurring anywhere in the statement is the offset of one of the
    query's tokens, or the synthesised 0 of an `AllFields` statement -/
theorem parse_positions (pf : Bytes → F64) (q : Bytes) (s : Stmt)
    (h : Parser.Parse pf (Lexer.split q) = .ok s) :
    ∀ p ∈ s.positions, p ∈ tokenOffsets q ∨ (p = 0 ∧ s.isAll = true) := by
  have hs : StmtOK (TokOff (Lexer.split q)) (Fq (TokOff (Lexer.split q)) s.isAll) s :=
    (parse_ok (TokOff (Lexer.split q)) pf (tokS_tokOff _)).of_eq h
  intro p hp
  rcases hs.positions (Fq.of _) p hp with h1 | h1
  · exact Or.inl (mem_tokenOffsets.mpr h1)
  · exact Or.inr h1

/-- … so without `AllFields` (every PUT, REMOVE, DELETE and every SELECT with a field list) all
    positions are token offsets, none synthesised -/
theorem parse_positions_strict (pf : Bytes → F64) (q : Bytes) (s : Stmt)
    (h : Parser.Parse pf (Lexer.split q) = .ok s) (hall : s.isAll = false) :
    ∀ p ∈ s.positions, p ∈ tokenOffsets q := by
  intro p hp
  rcases parse_positions pf q s h p hp with h1 | ⟨_, h1⟩
  · exact h1
  · rw [hall] at h1; cases h1

/-- … and every position is a byte offset inside the query text -/
theorem parse_positions_inside (pf : Bytes → F64) (q : Bytes) (s : Stmt)
    (h : Parser.Parse pf (Lexer.split q) = .ok s) : ∀ p ∈ s.positions, p < q.length := by
  intro p hp
  rcases parse_positions pf q s h p hp with h1 | ⟨rfl, _⟩
  · exact tokenOffset_inside q p h1
  · apply zero_inside q
    intro hn
    rw [hn] at h
    cases h

/-- the positions of the statement a query parses to (`[]` when it does not parse) -/
def posOf (r : Res Stmt) : List Nat :=
  match r with
  | .ok s => s.positions
  | _ => []

/-- a query with leading blanks, an alias, a call, ORDER BY and LIMIT -/
def exQuery : Bytes :=
  Bytes.ofAscii "  select key, upper(value) as u where key ^= 'a' & u != 'B' order by u limit 5"

/-- `select *` with a leading blank: 0 is not a token offset -/
def exStar : Bytes := Bytes.ofAscii " select * where key = 'a' + 'b'"

/-- non-vacuity of (1): the query parses; its 18 positions (statement, WHERE, ORDER, LIMIT, the nodes of
    the filter with the copy of `upper(value)` inside the reference `u`, the fields) are among the 22
    token offsets -/
example : posOf (Parser.Parse C17.pf0 (Lexer.split exQuery)) =
    [2, 32, 60, 71, 49, 42, 45, 53, 51, 14, 14, 56, 38, 20, 9, 14, 14, 20] := by decide +kernel
example : tokenOffsets exQuery =
    [2, 9, 12, 14, 19, 20, 25, 27, 30, 32, 38, 42, 45, 49, 51, 53, 56, 60, 66, 69, 71, 77] := by decide +kernel

/-- the exception is real: the two field nodes of `select *` carry 0, which is not a token offset here -/
example : posOf (Parser.Parse C17.pf0 (Lexer.split exStar)) = [1, 10, 20, 26, 22, 28, 16, 0, 0] ∧
    0 ∉ tokenOffsets exStar := by decide +kernel

/-! ### (2) after alias resolution, constant folding and re-pointing -/

/-- a literal that replaces `l op r` carries `l`'s position (`e.Left.GetPos()`), not the operator's -/
theorem folded_binary_pos {p : Nat} {op : Op} {l r k : Expr}
    (h : Fold.foldBinary (.binop p op l r) = .ok (some k)) : k.pos = l.pos := foldBinary_pos h

/-- a literal that replaces a call carries the call's position -/
theorem folded_call_pos {p : Nat} {nm : Expr} {args : List Expr} {k : Expr}
    (h : Fold.foldCall (.call p nm args) = .ok (some k)) : k.pos = p := foldCall_pos h

/-- `'a' + 'b'` at offsets 22, 26, 28 folds to the literal `'ab'` at 22; `upper('a')` at 19 to `'A'` at 19 -/
example : Fold.foldBinary (.binop 26 .add (.str 22 [97]) (.str 28 [98])) = .ok (some (.str 22 [97, 98])) := by rfl
example : Fold.foldCall (.call 19 (.name 19 (asciiBytes "upper")) [.str 25 [97]]) = .ok (some (.str 19 [65])) := by rfl

/-- constant folding introduces no position: what `Optimize()` returns, and the state in which it
    leaves the old root, carry only positions of the tree it was given (stated for an arbitrary pair of
    predicates on the positions of ordinary nodes and of KEY / VALUE nodes) -/
theorem fold_positions (T F : Nat → Prop) {e r n : Expr} (h : Fold.optimizeBoth e = .ok (r, n))
    (hn : ∀ p ∈ e.nodePositions, T p) (hf : ∀ p ∈ e.fieldPositions, F p) :
    ((∀ p ∈ r.nodePositions, T p) ∧ ∀ p ∈ r.fieldPositions, F p) ∧
    ((∀ p ∈ n.nodePositions, T p) ∧ ∀ p ∈ n.fieldPositions, F p) := by
  have := optimizeBoth_ok T F h ((nodeOK_iff T F e).mpr ⟨hn, hf⟩)
  exact ⟨(nodeOK_iff T F r).mp this.1, (nodeOK_iff T F n).mp this.2⟩

/-- **(2), exact form**: in every tree the end-to-end model evaluates for an accepted statement —
    folded WHERE, folded select fields, the nodes alias references and GROUP BY fields point at, the
    folded DELETE filter, PUT pairs and REMOVE keys — an ordinary node carries a token offset, a
    KEY / VALUE node a token offset or the 0 of an `AllFields` statement -/
theorem evaluated_positions_exact (pf : Bytes → F64) (q : Bytes) (stmt : Stmt)
    (h : PlanCheck.planStage pf (Lexer.split q) = .ok stmt) (ts : List Expr)
    (ht : evalTrees stmt = .ok ts) :
    ∀ e ∈ ts, (∀ p ∈ e.nodePositions, p ∈ tokenOffsets q) ∧
      (∀ p ∈ e.fieldPositions, p ∈ tokenOffsets q ∨ (p = 0 ∧ stmt.isAll = true)) := by
  have hp := (Proofs.Typing.planStage_ok_iff.mp h).1
  have hs : StmtOK (TokOff (Lexer.split q)) (Fq (TokOff (Lexer.split q)) stmt.isAll) stmt :=
    (parse_ok (TokOff (Lexer.split q)) pf (tokS_tokOff _)).of_eq hp
  intro e he
  have hn := (nodeOK_iff _ _ e).mp (evalTrees_ok hs ht e he)
  refine ⟨fun p hp' => mem_tokenOffsets.mpr (hn.1 p hp'), ?_⟩
  intro p hp'
  rcases hn.2 p hp' with h1 | h1
  · exact Or.inl (mem_tokenOffsets.mpr h1)
  · exact Or.inr h1

/-- **(2)**: every position of every evaluated tree is a token offset of the ORIGINAL query, or the
    synthesised 0 of an `AllFields` statement -/
theorem evaluated_positions (pf : Bytes → F64) (q : Bytes) (stmt : Stmt)
    (h : PlanCheck.planStage pf (Lexer.split q) = .ok stmt) (ts : List Expr)
    (ht : evalTrees stmt = .ok ts) :
    ∀ e ∈ ts, ∀ p ∈ e.positions, p ∈ tokenOffsets q ∨ (p = 0 ∧ stmt.isAll = true) := by
  intro e he p hp
  obtain ⟨h1, h2⟩ := evaluated_positions_exact pf q stmt h ts ht e he
  rcases List.mem_append.mp hp with hp | hp
  · exact Or.inl (h1 p hp)
  · exact h2 p hp

/-- `evalTrees` is defined for every statement (the expression optimizer never panics: C04) -/
theorem evaluated_trees_exist (stmt : Stmt) : ∃ ts, evalTrees stmt = .ok ts := evalTrees_total stmt

/-- is the result a statement? -/
def accepted (r : Res Stmt) : Bool :=
  match r with
  | .ok _ => true
  | _ => false

/-- non-vacuity of (2): both example queries are accepted by `planStage` (and `evalTrees` is total) -/
example : accepted (PlanCheck.planStage C17.pf0 (Lexer.split exQuery)) = true ∧
    accepted (PlanCheck.planStage C17.pf0 (Lexer.split exStar)) = true := by decide +kernel

example : ∃ stmt ts, PlanCheck.planStage C17.pf0 (Lexer.split exStar) = .ok stmt ∧ evalTrees stmt = .ok ts := by
  have h : accepted (PlanCheck.planStage C17.pf0 (Lexer.split exStar)) = true := by decide +kernel
  cases hp : PlanCheck.planStage C17.pf0 (Lexer.split exStar) with
  | ok stmt =>
    obtain ⟨ts, ht⟩ := evalTrees_total stmt
    exact ⟨stmt, ts, rfl, ht⟩
  | _ => rw [hp] at h; cases h

/-- the GROUP BY expressions the aggregation plan evaluates (`Run.groupExprs`) are among `evalTrees` -/
theorem group_exprs_evaluated (s : SelectS) (f : Run.FoldedSelect) (hf : Run.foldSelect s = .ok f)
    (gs : List Expr) (hg : Run.groupExprs s f = some gs) :
    ∃ ts, evalTrees (.select s) = .ok ts ∧ ∀ e ∈ gs, e ∈ ts := by
  refine ⟨_, by simp only [evalTrees, hf]; rfl, ?_⟩
  intro e he
  rcases groupExprs_sub s f gs hg e he with h1 | ⟨g, hg', h1⟩
  · simp [h1]
  · rw [hg']; simp only [List.mem_cons, List.mem_append]; exact Or.inr (Or.inr h1)

/-! ### (3) plan-time errors -/

/-- **(3)**: every error `planStage` returns — by `Parse`, by the plan-time validation of function
    calls and argument types, by `buildFinalPlan` ("No aggregate fields…", "Missing aggregate fields
    in group by", "Missing group by statement" = -1), by an aggregate constructor — carries -1, 0 or
    the offset of one of the query's tokens -/
theorem plan_err_pos (pf : Bytes → F64) (q : Bytes) (e : PErr)
    (h : PlanCheck.planStage pf (Lexer.split q) = .err e) : C17.ErrPosOK q e := by
  have := planStage_both pf (Lexer.split q)
  rw [h] at this
  cases e with
  | «syntax» p =>
    cases p with
    | none => trivial
    | some p => simpa [C17.ErrPosOK, Proofs.ParserPos.EOK, ErrOff, TokOff] using this
  | cycle p => simpa [C17.ErrPosOK, Proofs.ParserPos.EOK, ErrOff, TokOff] using this
  | nest => trivial

/-- non-vacuity of (3), one example per source of plan-time errors: an unknown function (at the call,
    offset 7); a static argument type (`substr`'s second argument, offset 26); "Missing aggregate fields
    in group by statement" (at GROUP, offset 45); "Missing group by statement" (-1) -/
example : C17.errOf (PlanCheck.planStage C17.pf0
    (Lexer.split (Bytes.ofAscii "select nosuch(key) where key = 'a'"))) = some (.syntax (some 7)) := by
  decide +kernel
example : C17.errOf (PlanCheck.planStage C17.pf0
    (Lexer.split (Bytes.ofAscii "select key, substr(value, 'x', 2) where key ^= 'a'"))) =
    some (.syntax (some 26)) := by decide +kernel
example : C17.errOf (PlanCheck.planStage C17.pf0
    (Lexer.split (Bytes.ofAscii "select key, value, count(1) where key ^= 'a' group by key"))) =
    some (.syntax (some 45)) := by decide +kernel
example : C17.errOf (PlanCheck.planStage C17.pf0
    (Lexer.split (Bytes.ofAscii "select key, count(1) where key ^= 'a'"))) = some (.syntax none) := by
  decide +kernel

/-- the position an error carries, if it is positional (`none`: -1, or the non-positional
    "exceed max nesting depth") -/
def errPos : PErr → Option Nat
  | .syntax p => p
  | .cycle p => some p
  | .nest => none

/-- … and a positional plan-time error lies inside the query text -/
theorem plan_err_pos_inside (pf : Bytes → F64) (q : Bytes) (e : PErr) (p : Nat)
    (h : PlanCheck.planStage pf (Lexer.split q) = .err e) (hp : errPos e = some p) : p < q.length := by
  have hne : Lexer.split q ≠ [] := by
    intro hn
    rw [hn, planStage_nil] at h
    cases h
    cases hp
  have := planStage_both pf (Lexer.split q)
  rw [h] at this
  cases e with
  | «syntax» p' =>
    cases p' with
    | none => cases hp
    | some p' => cases hp; exact errOff_inside q hne this
  | cycle p' => cases hp; exact errOff_inside q hne this
  | nest => cases hp

/-- in particular `C17.parse_err_pos_inside` without its `p = 0` alternative: a positional error of
    `Parse` lies inside the query text (a query that yields one has a token, so offset 0 is inside) -/
theorem parse_err_pos_inside (pf : Bytes → F64) (q : Bytes) (e : PErr) (p : Nat)
    (h : Parser.Parse pf (Lexer.split q) = .err e) (hp : errPos e = some p) : p < q.length := by
  apply plan_err_pos_inside pf q e p _ hp
  simp [PlanCheck.planStage, PlanCheck.frontStage, h]

/-! ### (4) the statement level -/

/-- **`run_error_positions`**: for every query text, store, polling mode, batch size and cache setting,
    a failure the end-to-end model reports BEFORE execution (`Fail.plan e`) satisfies C17's position
    clause: `e` carries -1, or 0, or the offset of one of the query's tokens; and a position it
    carries is a byte offset inside the query text -/
theorem run_error_positions (q : Bytes) (pf : Bytes → F64) (store : Storage.Store)
    (kind : Plans.PollKind) (bs : Nat) (cache : Bool) (e : PErr)
    (h : (Run.runQuery q pf store kind bs cache).fail = some (.plan e)) :
    C17.ErrPosOK q e ∧ ∀ p, errPos e = some p → p < q.length := by
  have hp := (runQuery_plan_iff q pf store kind bs cache e).mp h
  exact ⟨plan_err_pos pf q e hp, fun p hpp => plan_err_pos_inside pf q e p hp hpp⟩

/-- non-vacuity of (4): on any store, in any mode, the end-to-end model rejects the query with the
    unknown function at offset 7 -/
example (store : Storage.Store) (kind : Plans.PollKind) (bs : Nat) (cache : Bool) :
    (Run.runQuery (Bytes.ofAscii "select nosuch(key) where key = 'a'") C17.pf0 store kind bs cache).fail =
      some (.plan (.syntax (some 7))) := by
  apply (runQuery_plan_iff _ _ store kind bs cache _).mpr
  have h : C17.errOf (PlanCheck.planStage C17.pf0
      (Lexer.split (Bytes.ofAscii "select nosuch(key) where key = 'a'"))) = some (.syntax (some 7)) := by
    decide +kernel
  cases hp : PlanCheck.planStage C17.pf0 (Lexer.split (Bytes.ofAscii "select nosuch(key) where key = 'a'")) <;>
    rw [hp] at h <;> simp [C17.errOf] at h
  rw [h]

/-- a `Fail.plan` of the end-to-end model is an error of `planStage`, nothing else: no plan, trace or
    consumer manufactures one while the statement executes -/
theorem run_plan_fail_iff (q : Bytes) (pf : Bytes → F64) (store : Storage.Store)
    (kind : Plans.PollKind) (bs : Nat) (cache : Bool) (e : PErr) :
    (Run.runQuery q pf store kind bs cache).fail = some (.plan e) ↔
      PlanCheck.planStage pf (Lexer.split q) = .err e :=
  runQuery_plan_iff q pf store kind bs cache e

/-- **the tree-level theorem for execution-time errors.**  For a statement the front end accepts,
    `GetPos()` of ANY node of ANY tree the model evaluates — and the literal 0 two sites of
    aggregate_plan.go use — is a byte offset inside the query text, and is the offset of one of its
    tokens or the synthesised 0 of an `AllFields` statement.  With the ASSUMPTION stated in the header
    (an execution-time error carries `GetPos()` of such a node, or 0) this is C17's position clause for
    execution-time errors. -/
theorem exec_error_position_inside (pf : Bytes → F64) (q : Bytes) (stmt : Stmt)
    (h : PlanCheck.planStage pf (Lexer.split q) = .ok stmt) (ts : List Expr)
    (ht : evalTrees stmt = .ok ts) :
    0 < q.length ∧
    ∀ e ∈ ts, ∀ p ∈ e.positions,
      p < q.length ∧ (p ∈ tokenOffsets q ∨ (p = 0 ∧ stmt.isAll = true)) := by
  have h0 : 0 < q.length := zero_inside q (split_ne_nil_of_ok h)
  refine ⟨h0, ?_⟩
  intro e he p hp
  have := evaluated_positions pf q stmt h ts ht e he p hp
  refine ⟨?_, this⟩
  rcases this with h1 | ⟨rfl, _⟩
  · exact tokenOffset_inside q p h1
  · exact h0

/-- `GetPos()` of the root of a tree is one of its positions (`cycle`, the marker of a reference back
    into itself, has none and is never evaluated to an error value: `exec` runs out of fuel on it) -/
theorem root_pos_mem (e : Expr) (h : e ≠ .cycle) : e.pos ∈ e.positions := pos_mem_positions h

end Kvql.Properties.C17Pos
