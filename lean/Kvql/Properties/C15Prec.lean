/-
  C15 (precedence part, completed)  Parsing follows the documented precedence, left
  associatively, with parentheses overriding — for arbitrary sub-expressions.

  The statements are about `Kvql.Parser.parseExpr`, the model of parser.go's expression parser
  (`parseBinaryExpr` … `parseBetween`), over token lists.  They replace the one partial theorem
  of Properties/C15.lean (`parse_precedence_partial`: binary operators other than `in`/`between`
  over single-token operands) by theorems over every tree the parser can return.

  Vocabulary
  * `Syn` — concrete syntax: the tree plus explicit parenthesis nodes; `Syn.toks` prints it as it
    stands, `Syn.strip` forgets the parentheses, `Syn.ok` (decidable) says that the parentheses
    present suffice.  Strengths: `|,or` 1 < `&,and` 2 < comparisons, `in`, `between` 3 < `+ -` 4 <
    `* /` 5 < `!`, call, index, parenthesised 7; a left operand may stay bare when it is at least
    as strong as the operator, a right operand when it is stronger (left associativity); the
    bounds of `between` are read at the level of `+`; the right operand of `l in r` cannot take
    parentheses (`in (` opens a list) and must be at the level of `+` or tighter.
  * `WellFormed e` (decidable) — the trees of the parser's image: lists only to the right of
    `in` / `between` (two items), `!` never binary, single-token callees, literals carrying the
    value of their text, no alias reference (those are made by `Check`, after parsing).
  * `printMin e` — tokens of `e` with parentheses only where the strengths require them;
    `printFull e` — parentheses around every operand.
  * `canonPos e` — `e` with the three derived positions (list of `in`/`between` = operator's,
    call = callee's) as the parser sets them; `erasePos` forgets all positions.

  Documented vs. code (README.md / spec.md give the grammar `Expression Operator Expression |
  Expression BETWEEN Expression AND Expression | Expression IN ( … ) | Expression IN FunctionCall`
  and no precedence table; the table is the one of lexer.go `Token.Precedence`, restated by
  C15.documented_precedence):
  * `in` / `between` sit at the comparison level (3) and associate to the left with the
    comparisons (`in_expr_then_op`, `between_then_op`).
  * `in_list_then_op`: after `a in ( … )` the loop of `parseBinaryExpr` goes on with *any* binary
    operator, also a tighter one: `a in (b) * c` is `(a in (b)) * c`.  With the table alone one
    would read `(b) * c` as the right operand.  (Proved as the code's behaviour.)
  * the right operand of `in` that is not a parenthesised list is any expression of level ≥ 4
    (`a in b + c` is `a in (b + c)`), not only a function call.
  * `between`: the bounds are read at level 4, the separator is any operator token (the printer
    writes `and`); a following `and` therefore closes the `between`.
  * there is no unary minus in the grammar (`parseOperand` rejects `-`); `!` is the only prefix
    operator and binds tighter than every binary operator.

  Beyond renderings of trees (sections "stability" and "positions / text"):
  * `parse_result_stable`, `parseExpr_fuel_irrelevant`: for any token list, a successful parse
    is independent of the fuel (once sufficient), of the nesting level it is entered at, and of a
    continuation that cannot continue an expression; `redundant_parens_any_tokens`: any accepted
    token list enclosed in n pairs of parentheses gives exactly the same tree.
  * `parser_ignores_positions`: the parser never looks at a `pos` field.
  * `print_min_text_reparse`: the minimal token list written as text (a blank around each
    token) is lexed (`Lexer.split`) and parsed back to the tree, modulo positions.

  Size: each statement asks `8·|tokens| + 8 ≤ MaxNestLevel` (12 499 tokens), below which the
  nesting guard of parser.go cannot fire (C15.nest_guard_unreachable).

  Not covered: statement level (`Parse`: select lists, clauses — only `parseExpr`, with the
  `_rest` forms for use inside statements); a compact text without blanks; token lists that
  are accepted but are not renderings (`f(a,)`, `in (a b)`, `between x = y`) appear only in
  the stability / image theorems, not in the round trips.
-/
import Kvql.Properties.C15
import Kvql.Proofs.ParsePrecImage
import Kvql.Proofs.ParsePrecText
import Kvql.Proofs.ParsePrecStable

namespace Kvql.Properties.C15Prec

open Kvql Kvql.Parser Kvql.Proofs.PrintParse

/-- concrete syntax: the tree plus parenthesis nodes -/
abbrev Syn := Proofs.ParsePrec.Syn
/-- the parentheses present in `s` suffice (decidable) -/
abbrev Syn.OK (pf : Bytes → F64) (s : Syn) : Prop := Proofs.ParsePrec.Syn.ok pf s = true
/-- the trees of the expression parser's image (decidable) -/
abbrev WellFormed (pf : Bytes → F64) (e : Expr) : Prop := Proofs.ParsePrec.wf pf e = true
/-- tokens of `e`, parenthesised only where precedence / associativity require it -/
abbrev printMin (pf : Bytes → F64) (e : Expr) : Toks := Proofs.ParsePrec.printMin pf e
/-- tokens of `e`, every operand parenthesised -/
abbrev printFull (pf : Bytes → F64) (e : Expr) : Toks := Proofs.ParsePrec.printFull pf e
/-- `e` with the derived positions as the parser sets them -/
abbrev canonPos : Expr → Expr := Proofs.ParsePrec.canonPos
/-- `n` pairs of parentheses around a token list -/
abbrev wrapN : Nat → Toks → Toks := Proofs.ParsePrec.wrapN
/-- an operand: anything but a bare binary form (so: literal, name, call, index, `!x`, `( … )`) -/
abbrev Operand (pf : Bytes → F64) (s : Syn) : Prop := Proofs.ParsePrec.Operand pf s
abbrev opTok : Op → Nat → Token := Proofs.ParsePrec.opTok
abbrev LP : Token := Proofs.ParsePrec.LP
abbrev RP : Token := Proofs.ParsePrec.RP

/-! ### (1) minimal parenthesisation parses back, for every tree of the parser's image -/

/-- Minimal parenthesisation of any well-formed tree parses back to exactly that tree (with the
    derived positions canonical). -/
theorem print_min_reparse (pf : Bytes → F64) (e : Expr) (h : WellFormed pf e)
    (hsize : 8 * (printMin pf e).length + 8 ≤ Generated.maxNestLevel) :
    parseExpr pf (exprFuel (printMin pf e)) (printMin pf e) = .ok (canonPos e, []) :=
  Proofs.ParsePrec.print_min_parse pf e h hsize

/-- … with a continuation: whatever follows, as long as it does not continue an expression (no
    `(`, `[`, binary operator), is left untouched; any nesting level and any fuel from
    `8·|tokens| + 4` on. -/
theorem print_min_reparse_rest (pf : Bytes → F64) (e : Expr) (h : WellFormed pf e) (fuel lev : Nat)
    (rest : Toks) (hstop : StopB 1 rest) (hf : 8 * (printMin pf e).length + 4 ≤ fuel)
    (hl : lev + fuel ≤ Generated.maxNestLevel) :
    parseBinaryExpr pf fuel lev 1 (printMin pf e ++ rest) = .ok (canonPos e, rest) :=
  Proofs.ParsePrec.print_min_parse_rest pf e h fuel lev rest hstop hf hl

/-- `canonPos` touches positions only: the round trip holds modulo positions for any positions -/
theorem canonPos_erase (e : Expr) : C15.erasePos (canonPos e) = C15.erasePos e :=
  Proofs.ParsePrec.erasePos_canonPos e

/-- The class contains the parser's image: whatever `parseExpr` returns, on any token list with
    any fuel, is well formed and has canonical positions. -/
theorem wellFormed_contains_image (pf : Bytes → F64) (fuel : Nat) (ts rest : Toks) (x : Expr)
    (h : parseExpr pf fuel ts = .ok (x, rest)) : WellFormed pf x ∧ canonPos x = x :=
  Proofs.ParsePrec.parseExpr_image pf h

/-- `parseExpr ∘ printMin` is the identity on the parser's image. -/
theorem reparse_image (pf : Bytes → F64) (fuel : Nat) (ts rest : Toks) (x : Expr)
    (h : parseExpr pf fuel ts = .ok (x, rest))
    (hsize : 8 * (printMin pf x).length + 8 ≤ Generated.maxNestLevel) :
    parseExpr pf (exprFuel (printMin pf x)) (printMin pf x) = .ok (x, []) :=
  Proofs.ParsePrec.reparse_image pf h hsize

/-- On the fragment of `C15.parse_precedence_partial` (binary operators other than `in`,
    `between` over single-token operands) `printMin` is that theorem's renderer: the new theorem
    extends the old one. -/
theorem printMin_extends_renderMinimal (pf : Bytes → F64) (e : Expr) (h : C15.InFragment pf e) :
    WellFormed pf e ∧ printMin pf e = C15.renderMinimal pf e :=
  Proofs.ParsePrec.frag_facts pf e h

/-! ### (4) parentheses override, and redundant parentheses change nothing -/

/-- Any placement of parentheses that suffices: the tokens of `s` parse to `s` without its
    parenthesis nodes.  Two texts that differ only in redundant parentheses — anywhere in the
    tree, nested to any depth — therefore give the same tree. -/
theorem parse_any_parens (pf : Bytes → F64) (s : Syn) (h : Syn.OK pf s)
    (hsize : 8 * (s.toks pf).length + 8 ≤ Generated.maxNestLevel) :
    parseExpr pf (exprFuel (s.toks pf)) (s.toks pf) = .ok (s.strip, []) :=
  Proofs.ParsePrec.parse_syn pf s h hsize

theorem redundant_parens_same_tree (pf : Bytes → F64) (s1 s2 : Syn) (h1 : Syn.OK pf s1) (h2 : Syn.OK pf s2)
    (hs : s1.strip = s2.strip)
    (hz1 : 8 * (s1.toks pf).length + 8 ≤ Generated.maxNestLevel)
    (hz2 : 8 * (s2.toks pf).length + 8 ≤ Generated.maxNestLevel) :
    parseExpr pf (exprFuel (s1.toks pf)) (s1.toks pf) = parseExpr pf (exprFuel (s2.toks pf)) (s2.toks pf) := by
  rw [parse_any_parens pf s1 h1 hz1, parse_any_parens pf s2 h2 hz2, hs]

/-- a parenthesis node may be added around any sub-expression but the right operand of `l in r`:
    `( s )` is an operand that suffices whenever `s` does -/
theorem paren_ok (pf : Bytes → F64) (s : Syn) : Syn.OK pf (.paren s) ↔ Syn.OK pf s := by
  simp [Proofs.ParsePrec.Syn.ok]

/-- `n` redundant pairs of parentheses around a whole well-formed expression -/
theorem redundant_parens_nested (pf : Bytes → F64) (e : Expr) (h : WellFormed pf e) (n : Nat)
    (hsize : 8 * ((printMin pf e).length + 2 * n) + 8 ≤ Generated.maxNestLevel) :
    parseExpr pf (exprFuel (wrapN n (printMin pf e))) (wrapN n (printMin pf e)) = .ok (canonPos e, []) := by
  have f := Proofs.ParsePrec.facts pf e h
  have := Proofs.ParsePrec.parse_wrapN pf _ f.ok n hsize
  rw [f.st] at this
  exact this

/-- full parenthesisation gives the same tree as the minimal one -/
theorem print_full_reparse (pf : Bytes → F64) (e : Expr) (h : WellFormed pf e)
    (hsize : 8 * (printFull pf e).length + 8 ≤ Generated.maxNestLevel) :
    parseExpr pf (exprFuel (printFull pf e)) (printFull pf e) = .ok (canonPos e, []) :=
  Proofs.ParsePrec.print_full_parse pf e h hsize

/-! ### (3) levels and left associativity over arbitrary operands -/

/-- `a op1 b op2 c` for operands `a b c` (anything but a bare binary form: in particular any
    parenthesised expression) and binary operators other than `in`, `between`: when `op2` is of the
    same level as `op1` or a weaker one, the tree is `(a op1 b) op2 c` (left associativity; the
    tighter one binds first); when `op2` binds more tightly, `a op1 (b op2 c)`. -/
theorem assoc_levels (pf : Bytes → F64) (a b c : Syn) (op1 op2 : Op) (p1 p2 : Nat) (ha : Operand pf a)
    (hb : Operand pf b) (hc : Operand pf c) (h1 : Proofs.Prec.opOK op1 = true) (h2 : Proofs.Prec.opOK op2 = true)
    (hsize : 8 * ((a.toks pf).length + (b.toks pf).length + (c.toks pf).length + 2) + 8 ≤
      Generated.maxNestLevel) :
    let ts := a.toks pf ++ opTok op1 p1 :: (b.toks pf ++ opTok op2 p2 :: c.toks pf)
    parseExpr pf (exprFuel ts) ts =
      .ok (if C15.opPrec op2 ≤ C15.opPrec op1 then .binop p2 op2 (.binop p1 op1 a.strip b.strip) c.strip
           else .binop p1 op1 a.strip (.binop p2 op2 b.strip c.strip), []) :=
  Proofs.ParsePrec.assoc_levels pf a b c op1 op2 p1 p2 ha hb hc h1 h2 hsize

/-- The general left-operand rule.  `x.rpr`, the strength of `x` seen from the right, is 7 for an
    operand and for `l in ( … )`, the operator's level for `l op r`, 3 for `l in r` and
    `l between lo and hi`; `r.lpr`, the strength seen from the left, is 7 for an operand and for a
    bare binary form the minimum of its operator's level and of `lpr` of its bare left operand.
    Whatever `x` stands to the left of `op`, if `x.rpr` is at least the level of `op` then all of
    `x` is the left operand; the right operand is any `r` with `r.lpr` above that level. -/
theorem then_op (pf : Bytes → F64) (x r : Syn) (op : Op) (p : Nat) (hx : Syn.OK pf x) (hr : Syn.OK pf r)
    (hop : Proofs.Prec.opOK op = true) (hxr : C15.opPrec op ≤ x.rpr) (hrl : C15.opPrec op + 1 ≤ r.lpr)
    (hsize : 8 * ((x.toks pf).length + (r.toks pf).length + 1) + 8 ≤ Generated.maxNestLevel) :
    let ts := x.toks pf ++ opTok op p :: r.toks pf
    parseExpr pf (exprFuel ts) ts = .ok (.binop p op x.strip r.strip, []) :=
  Proofs.ParsePrec.then_op pf x r op p hx hr hop hxr hrl hsize

/-- … for `in ( items )`: level 3 -/
theorem then_in_list (pf : Bytes → F64) (x : Syn) (items : List Syn) (p : Nat) (hx : Syn.OK pf x)
    (hi : Proofs.ParsePrec.Syn.okList pf items = true) (hxr : 3 ≤ x.rpr)
    (hsize : 8 * ((x.toks pf).length + (Proofs.ParsePrec.Syn.toksList pf items).length + 3) + 8 ≤
      Generated.maxNestLevel) :
    let ts := x.toks pf ++ opTok .in_ p :: LP :: (Proofs.ParsePrec.Syn.toksList pf items ++ [RP])
    parseExpr pf (exprFuel ts) ts =
      .ok (.binop p .in_ x.strip (.list p (Proofs.ParsePrec.Syn.stripList items)), []) :=
  Proofs.ParsePrec.then_in_list pf x items p hx hi hxr hsize

/-- … for `in r`: level 3, `r` of level ≥ 4 whose text does not start with `(` -/
theorem then_in_expr (pf : Bytes → F64) (x r : Syn) (p : Nat) (hx : Syn.OK pf x) (hr : Syn.OK pf r)
    (hxr : 3 ≤ x.rpr) (hrl : 4 ≤ r.lpr) (hnp : r.headParen = false)
    (hsize : 8 * ((x.toks pf).length + (r.toks pf).length + 1) + 8 ≤ Generated.maxNestLevel) :
    let ts := x.toks pf ++ opTok .in_ p :: r.toks pf
    parseExpr pf (exprFuel ts) ts = .ok (.binop p .in_ x.strip r.strip, []) :=
  Proofs.ParsePrec.then_in_expr pf x r p hx hr hxr hrl hnp hsize

/-- … for `between lo and hi`: level 3, bounds of level ≥ 4 -/
theorem then_between (pf : Bytes → F64) (x lo hi : Syn) (p : Nat) (hx : Syn.OK pf x) (hlo : Syn.OK pf lo)
    (hhi : Syn.OK pf hi) (hxr : 3 ≤ x.rpr) (hlo4 : 4 ≤ lo.lpr) (hhi4 : 4 ≤ hi.lpr)
    (hsize : 8 * ((x.toks pf).length + (lo.toks pf).length + (hi.toks pf).length + 2) + 8 ≤
      Generated.maxNestLevel) :
    let ts := x.toks pf ++ opTok .between p :: (lo.toks pf ++ opTok .kwAnd 0 :: hi.toks pf)
    parseExpr pf (exprFuel ts) ts = .ok (.binop p .between x.strip (.list p [lo.strip, hi.strip]), []) :=
  Proofs.ParsePrec.then_between pf x lo hi p hx hlo hhi hxr hlo4 hhi4 hsize

/-! ### (2) `in` and `between` -/

/-- `a in ( items ) op c` is `(a in (items)) op c` for every binary operator `op`, also `+`, `*`. -/
theorem in_list_then_op (pf : Bytes → F64) (a c : Syn) (items : List Syn) (op : Op) (p1 p2 : Nat)
    (ha : Operand pf a) (hc : Operand pf c) (hi : Proofs.ParsePrec.Syn.okList pf items = true)
    (h2 : Proofs.Prec.opOK op = true)
    (hsize : 8 * ((a.toks pf).length + (Proofs.ParsePrec.Syn.toksList pf items).length + (c.toks pf).length + 4)
      + 8 ≤ Generated.maxNestLevel) :
    let ts := a.toks pf ++ opTok .in_ p1 :: LP ::
      (Proofs.ParsePrec.Syn.toksList pf items ++ RP :: opTok op p2 :: c.toks pf)
    parseExpr pf (exprFuel ts) ts =
      .ok (.binop p2 op (.binop p1 .in_ a.strip (.list p1 (Proofs.ParsePrec.Syn.stripList items))) c.strip, []) :=
  Proofs.ParsePrec.in_list_then_op pf a c items op p1 p2 ha hc hi h2 hsize

/-- `a in b op c`, `b` not starting with `(`: a comparison / logical `op` closes the `in`
    (left associative at level 3), an arithmetic `op` belongs to the right operand. -/
theorem in_expr_then_op (pf : Bytes → F64) (a b c : Syn) (op : Op) (p1 p2 : Nat) (ha : Operand pf a)
    (hb : Operand pf b) (hc : Operand pf c) (hnp : b.headParen = false) (h2 : Proofs.Prec.opOK op = true)
    (hsize : 8 * ((a.toks pf).length + (b.toks pf).length + (c.toks pf).length + 2) + 8 ≤
      Generated.maxNestLevel) :
    let ts := a.toks pf ++ opTok .in_ p1 :: (b.toks pf ++ opTok op p2 :: c.toks pf)
    parseExpr pf (exprFuel ts) ts =
      .ok (if C15.opPrec op ≤ 3 then .binop p2 op (.binop p1 .in_ a.strip b.strip) c.strip
           else .binop p1 .in_ a.strip (.binop p2 op b.strip c.strip), []) :=
  Proofs.ParsePrec.in_expr_then_op pf a b c op p1 p2 ha hb hc hnp h2 hsize

/-- `a between lo and hi op c` (`lo` any expression of level ≥ 4): a comparison / logical `op` — in
    particular a second `and` — closes the `between`, an arithmetic `op` belongs to the upper bound. -/
theorem between_then_op (pf : Bytes → F64) (a lo hi c : Syn) (op : Op) (p1 p2 : Nat) (ha : Operand pf a)
    (hlo : Syn.OK pf lo) (hlo4 : 4 ≤ lo.lpr) (hhi : Operand pf hi) (hc : Operand pf c)
    (h2 : Proofs.Prec.opOK op = true)
    (hsize : 8 * ((a.toks pf).length + (lo.toks pf).length + (hi.toks pf).length + (c.toks pf).length + 3) + 8 ≤
      Generated.maxNestLevel) :
    let ts := a.toks pf ++ opTok .between p1 ::
      (lo.toks pf ++ opTok .kwAnd 0 :: (hi.toks pf ++ opTok op p2 :: c.toks pf))
    parseExpr pf (exprFuel ts) ts =
      .ok (if C15.opPrec op ≤ 3 then
             .binop p2 op (.binop p1 .between a.strip (.list p1 [lo.strip, hi.strip])) c.strip
           else .binop p1 .between a.strip (.list p1 [lo.strip, .binop p2 op hi.strip c.strip]), []) :=
  Proofs.ParsePrec.between_then_op pf a lo hi c op p1 p2 ha hlo hlo4 hhi hc h2 hsize

/-! ### stability: fuel, nesting level, continuation — and parentheses around any accepted tokens -/

/-- A successful run of `parseBinaryExpr` (any tokens) gives the same tree with any larger fuel,
    entered at any nesting level that leaves room, and with any continuation appended that cannot
    continue an expression; the remainder is the old one followed by the continuation. -/
theorem parse_result_stable (pf : Bytes → F64) (fuel lev prec : Nat) (ts rest : Toks) (x : Expr)
    (h : parseBinaryExpr pf fuel lev prec ts = .ok (x, rest)) (hp : 1 ≤ prec) (fuel' lev' : Nat) (sfx : Toks)
    (hf : fuel ≤ fuel') (hl : lev' + fuel ≤ Generated.maxNestLevel) (hs : StopB 1 sfx) :
    parseBinaryExpr pf fuel' lev' prec (ts ++ sfx) = .ok (x, rest ++ sfx) :=
  Proofs.ParsePrec.parseBinaryExpr_stable pf h hp fuel' lev' sfx hf hl hs

/-- the result of `parseExpr` does not depend on the fuel, once it suffices -/
theorem parseExpr_fuel_irrelevant (pf : Bytes → F64) (fuel fuel' : Nat) (ts rest : Toks) (x : Expr)
    (h : parseExpr pf fuel ts = .ok (x, rest)) (hf : fuel ≤ fuel') (hl : fuel ≤ Generated.maxNestLevel) :
    parseExpr pf fuel' ts = .ok (x, rest) :=
  Proofs.ParsePrec.parseExpr_fuel_mono pf h hf hl

/-- Redundant parentheses around *any* accepted token list (not only a rendering of a tree): if
    `parseExpr` reads `ts` completely as `x`, it reads `ts` enclosed in `n` pairs of parentheses as
    exactly `x`, positions included. -/
theorem redundant_parens_any_tokens (pf : Bytes → F64) (ts : Toks) (x : Expr)
    (h : parseExpr pf (exprFuel ts) ts = .ok (x, [])) (n : Nat)
    (hsize : 8 * (ts.length + 2 * n) + 8 ≤ Generated.maxNestLevel) :
    parseExpr pf (exprFuel (wrapN n ts)) (wrapN n ts) = .ok (x, []) :=
  Proofs.ParsePrec.parens_tokens_nested pf h n hsize

/-! ### positions, and the round trip at the level of text -/

/-- equal up to the `pos` fields of the tokens -/
abbrev TokensEqUpToPos (a b : Toks) : Prop := Proofs.ParsePrec.TEq a b

/-- The expression parser never looks at a position: if it succeeds on `ts` it succeeds on every
    token list that differs from `ts` only in positions, with the same tree up to positions (and
    remainders equal up to positions). -/
theorem parser_ignores_positions (pf : Bytes → F64) (fuel : Nat) (ts ts' rest : Toks) (x : Expr)
    (h : TokensEqUpToPos ts ts') (hp : parseExpr pf fuel ts = .ok (x, rest)) :
    ∃ x' rest', parseExpr pf fuel ts' = .ok (x', rest') ∧ C15.erasePos x = C15.erasePos x' ∧
      TokensEqUpToPos rest rest' :=
  Proofs.ParsePrec.parseExpr_pos_invariant pf h hp

/-- the minimal text of `e`: the tokens of `printMin e`, one blank before and after each, string
    literals between single quotes -/
abbrev printMinText (pf : Bytes → F64) (e : Expr) : Bytes := Proofs.ParsePrec.printMinText pf e

/-- every token of `printMin e` is what the lexer makes of its own text (decidable): string
    literals without the quote character, names / numbers lower-case words of their kind -/
abbrev Lexable (pf : Bytes → F64) (e : Expr) : Prop := Proofs.ParsePrec.lexable pf e = true

/-- Minimal parenthesisation as text: `Lexer.split` (= the reference tokenizer, C16) and then
    `parseExpr` give the tree back, modulo positions. -/
theorem print_min_text_reparse (pf : Bytes → F64) (e : Expr) (hw : WellFormed pf e) (hl : Lexable pf e)
    (hsize : 8 * (Lexer.split (printMinText pf e)).length + 8 ≤ Generated.maxNestLevel) :
    ∃ e', parseExpr pf (exprFuel (Lexer.split (printMinText pf e))) (Lexer.split (printMinText pf e)) =
        .ok (e', []) ∧ C15.erasePos e' = C15.erasePos e :=
  Proofs.ParsePrec.print_min_text_reparse pf e hw hl hsize

/-! ### non-vacuity -/

def pf0 : Bytes → F64 := fun _ => ⟨0⟩
def nm (s : String) (p : Nat) : Expr := .name p (Bytes.ofAscii s)
def num (s : String) (v : Int64) (p : Nat) : Expr := .num p (Bytes.ofAscii s) v

/-- `!(a | b) & f(x, y + 1)[i] in (1, 2) * c | d between lo - 1 and hi * 2 & e in g(z) + 1`
    — every node kind, mixed levels, the `in ( … ) *` quirk, `between` bounds, `in` with an
    arithmetic right operand -/
def exampleTree : Expr :=
  .binop 30 .or
    (.binop 10 .and
      (.not 0 (.binop 3 .or (nm "a" 2) (nm "b" 4)))
      (.binop 24 .mul
        (.binop 17 .in_
          (.access 15 (.call 11 (nm "f" 11) [nm "x" 12, .binop 14 .add (nm "y" 13) (num "1" 1 15)]) (nm "i" 16))
          (.list 17 [num "1" 1 18, num "2" 2 19]))
        (nm "c" 25)))
    (.binop 40 .and
      (.binop 32 .between (nm "d" 31)
        (.list 32 [.binop 34 .sub (nm "lo" 33) (num "1" 1 35), .binop 37 .mul (nm "hi" 36) (num "2" 2 38)]))
      (.binop 42 .in_ (nm "e" 41)
        (.binop 46 .add (.call 43 (nm "g" 43) [nm "z" 44]) (num "1" 1 47))))

/-- the hypotheses of `print_min_reparse` / `redundant_parens_nested` / `print_full_reparse` hold of
    `exampleTree`, whose positions are canonical; its minimal text
    `! ( a | b ) & ( f ( x , y + 1 ) [ i ] in ( 1 , 2 ) ) * c | d between lo - 1 and hi * 2 & e in g ( z ) + 1`
    has 47 tokens, 5 of them `(`: two grouping pairs, two calls, one list -/
example : WellFormed pf0 exampleTree ∧ canonPos exampleTree = exampleTree ∧
    (printMin pf0 exampleTree).length = 47 ∧
    ((printMin pf0 exampleTree).filter (fun t => t.tp == Generated.tkLPAREN)).length = 5 ∧
    8 * ((printMin pf0 exampleTree).length + 2 * 100) + 8 ≤ Generated.maxNestLevel ∧
    8 * (printFull pf0 exampleTree).length + 8 ≤ Generated.maxNestLevel := by
  refine ⟨by decide +kernel, rfl, by decide +kernel, by decide +kernel, by decide +kernel, by decide +kernel⟩

/-- the hypotheses of `print_min_text_reparse` hold of `exampleTree`; its minimal text is
    ` ! ( a | b ) & ( f ( x , y + 1 ) [ i ] in ( 1 , 2 ) ) * c | d between lo - 1 and hi * 2 & e in g ( z ) + 1 ` -/
example : Lexable pf0 exampleTree ∧
    8 * (Lexer.split (printMinText pf0 exampleTree)).length + 8 ≤ Generated.maxNestLevel := by
  refine ⟨by decide +kernel, by decide +kernel⟩

/-- `parser_ignores_positions`: two token lists that differ in positions only -/
example : TokensEqUpToPos (printMin pf0 exampleTree) (Lexer.split (printMinText pf0 exampleTree)) ∧
    printMin pf0 exampleTree ≠ Lexer.split (printMinText pf0 exampleTree) := by
  refine ⟨?_, by decide +kernel⟩
  show List.map Proofs.ParsePrec.er _ = List.map Proofs.ParsePrec.er _
  decide +kernel

/-- `InFragment` trees exist (C15's example) -/
example : C15.InFragment pf0 C15.exampleClimb := by decide +kernel

/-- operands of every kind for `assoc_levels` etc.: a name, a parenthesised `a | b`, a call -/
def opA : Syn := .atom (nm "a" 0)
def opB : Syn := .paren (.bin 3 .or (.atom (nm "x" 2)) (.atom (nm "y" 4)))
def opC : Syn := .call (.atom (nm "f" 6)) [.atom (nm "z" 7)]

example : Operand pf0 opA ∧ Operand pf0 opB ∧ Operand pf0 opC ∧ opA.headParen = false ∧
    Proofs.Prec.opOK .add = true ∧ Proofs.Prec.opOK .mul = true ∧ Syn.OK pf0 opB ∧ 4 ≤ opB.lpr ∧
    Proofs.ParsePrec.Syn.okList pf0 [opA, opC] = true ∧
    8 * ((opA.toks pf0).length + (opB.toks pf0).length + (opC.toks pf0).length + (opA.toks pf0).length + 4) + 8 ≤
      Generated.maxNestLevel := by
  refine ⟨⟨by decide +kernel, rfl⟩, ⟨by decide +kernel, rfl⟩, ⟨by decide +kernel, rfl⟩, rfl, rfl, rfl,
    by decide +kernel, by decide +kernel, by decide +kernel, by decide +kernel⟩

/-- left operands for `then_op` … `then_between` that are bare binary forms of level 3:
    `a in z` and `a between z and z`, and a bare `a + z` as a bound / right operand of `in` -/
def xIn : Syn := .inExpr 1 opA (.atom (nm "z" 2))
def xBt : Syn := .between 1 opA (.atom (nm "z" 2)) (.atom (nm "z" 4))
def rAdd : Syn := .bin 7 .add opA (.atom (nm "z" 8))

example : Syn.OK pf0 xIn ∧ Syn.OK pf0 xBt ∧ Syn.OK pf0 rAdd ∧ 3 ≤ xIn.rpr ∧ 3 ≤ xBt.rpr ∧
    C15.opPrec .eq ≤ xIn.rpr ∧ C15.opPrec .eq + 1 ≤ rAdd.lpr ∧ 4 ≤ rAdd.lpr ∧ rAdd.headParen = false := by
  refine ⟨by decide +kernel, by decide +kernel, by decide +kernel, by decide +kernel, by decide +kernel,
    by decide +kernel, by decide +kernel, by decide +kernel, rfl⟩

/-- `redundant_parens_any_tokens` / `parse_result_stable` are not vacuous: the lexed minimal text of
    `exampleTree` (47 tokens with the lexer's own positions) is read completely -/
example : ∃ x, parseExpr pf0 (exprFuel (Lexer.split (printMinText pf0 exampleTree)))
    (Lexer.split (printMinText pf0 exampleTree)) = .ok (x, []) := by
  obtain ⟨e', h, _⟩ := print_min_text_reparse pf0 exampleTree (by decide +kernel) (by decide +kernel)
    (by decide +kernel)
  exact ⟨e', h⟩

/-- the image theorem is not vacuous: the parser accepts the minimal text of `exampleTree` -/
example : ∃ x, parseExpr pf0 (exprFuel (printMin pf0 exampleTree)) (printMin pf0 exampleTree) = .ok (x, []) :=
  ⟨_, print_min_reparse pf0 exampleTree (by decide +kernel) (by decide +kernel)⟩

end Kvql.Properties.C15Prec
