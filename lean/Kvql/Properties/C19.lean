/-
  C19  Independent statements can run concurrently without races or interference.

  What a theorem can carry here (DESIGN.md §6 C19, "partial by nature"):
  1. facts over the REGENERATED inventories of /repo's source: the library has no package-level
     mutable state that statement execution writes — every write to a package-level variable sits
     in a registration function or in `init` (the LIST of package-level variables is a drift
     detector, Properties/C19Inventory.lean: a new global, e.g. a cache or a pool, makes the check
     run its enlarged race search);
  2. `noninterference` (Proofs/Noninterference.lean): in an interleaving semantics of N
     machines with private state, read-only access to the library's tables and atomic storage
     operations, every interleaving gives each statement the result of running it alone when
     the storage footprints are independent.
  The Go memory model is not modelled: data races below the level of this inventory are visible
  only to the RACE group (the harness built with -race, 2–16 goroutines, several GOMAXPROCS).
-/
import Kvql.Generated.Inventory
import Kvql.Proofs.Noninterference

namespace Kvql.Properties.C19

open Kvql.Generated

/-- functions that may write package-level state: registration API and `init` -/
def registrationFns : List String := ["AddScalarFunction", "AddAggrFunction", "init"]

/-- Every write to (or address-of) a package-level variable, anywhere in the library, is in a
    registration function or `init` — none is on the parse/plan/execute path. -/
theorem no_shared_writes : ∀ w ∈ globalWrites, w.1 ∈ registrationFns := by decide

/-- The only package-level variables that are ever written are the two function tables (by the
    registration API, before queries run) and `EnableFieldCache` (by `init`). -/
theorem written_globals : ∀ w ∈ globalWrites, w.2.1 ∈ ["funcMap", "aggrFuncMap", "EnableFieldCache"] := by
  decide

open Kvql.Proofs.Noninterference

variable {Key Val Resp S : Type} [DecidableEq Key] {n : Nat}

/-- Interleavings cannot matter without shared mutable state: under independent storage
    footprints each statement's private state after ANY schedule is its state after running alone
    the same number of steps, and the store it can observe is its solo store. -/
theorem interleaving_irrelevant {T : Fin n → Thread Key Val Resp S} {W : Fin n → Key → Prop}
    (ind : Independent T W) (cfg : Config n Key Val S) (sch : List (Fin n)) (j : Fin n) :
    (run T cfg sch).priv j = (solo T j cfg (sch.count j)).2
    ∧ (∀ k, ¬ Others W j k → (run T cfg sch).store k = (solo T j cfg (sch.count j)).1 k)
    ∧ (∀ k, W j k → (run T cfg sch).store k = (solo T j cfg (sch.count j)).1 k) :=
  noninterference ind cfg sch j

/-- Statements that only read (any set of SELECTs): every interleaving gives every statement its
    solo result and leaves the store unchanged. -/
theorem read_only_statements (T : Fin n → Thread Key Val Resp S)
    (hr : ∀ i s, (∃ f, (T i).next s = some (.read f)) ∨ (T i).next s = none)
    (cfg : Config n Key Val S) (sch : List (Fin n)) :
    (∀ j, (run T cfg sch).priv j = (solo T j cfg (sch.count j)).2)
    ∧ (run T cfg sch).store = cfg.store :=
  read_only_threads T hr cfg sch

/-- Only the number of steps each statement got matters, not their order. -/
theorem schedule_order_irrelevant {T : Fin n → Thread Key Val Resp S} {W : Fin n → Key → Prop}
    (ind : Independent T W) (cfg : Config n Key Val S) (sch sch' : List (Fin n))
    (hcount : ∀ j, sch.count j = sch'.count j) (j : Fin n) :
    (run T cfg sch).priv j = (run T cfg sch').priv j :=
  Kvql.Proofs.Noninterference.schedule_irrelevant ind cfg sch sch' hcount j

/-- non-vacuity: two statements, each writing and reading its own key, are independent -/
example : Independent Example.T Example.W := Example.independent

end Kvql.Properties.C19
