/-
  C10  Scalar functions and list/JSON indexing compute their documented values.

  The model (`Kvql.rowBody` = Go `Function.Body`, `Kvql.vecBody` = Go `Function.BodyVec`,
  `Kvql.exec` / `Kvql.execBatch` for the indexing nodes) is the code of scalar_func.go,
  scalar_func_vec.go, func.go and expression_exec*.go AFTER patches 01–07 (substr end position, len
  over every list kind, `[n]` on typed lists row by row, list() per pair in batch, …), tied to
  the engine by the EVAL correspondence.  For every entry of the regenerated `funcTable` there is
  a statement for the row body and one for the vector body; `funcTable_covered` breaks the build
  when a function is added to `funcMap` without them.

  Reading the statements: `exec a kv c = (.ok v, c')` says "argument `a` evaluates to `v` on the
  pair"; the conclusion gives the value of the call.  The documented value is then a fact about
  plain bytes / integers: the ASCII case map, the decimal round trip, the split/join laws, …
  Floats are IEEE binary64 carried through `F64`, whose operations the statements leave
  uninterpreted (distances = formula over `F64.add/sub/mul/div/sqrt`).
-/
import Kvql.Proofs.ExecFuncs

namespace Kvql.Properties.C10
open Kvql Kvql.Generated

/-! ### the table is covered -/

/-- every registered function has a modelled row body and a modelled vector twin with lemmas below -/
theorem funcTable_covered : ∀ f ∈ funcTable, f.1 ∈ coveredNames := Kvql.funcTable_covered

theorem funcTable_bodies_covered :
    ∀ f ∈ funcTable, ∃ b ∈ coveredBodies, (FuncInfo.ofEntry f).body = some b ∧ (FuncInfo.ofEntry f).vecIsTwin = true :=
  Kvql.funcTable_bodies_covered

/-! ### lower upper int float str is_int is_float strlen (one argument, never fail) -/

/-- `Body`: the documented function of the argument's value (`unaryOf` names it) -/
theorem unary_row {b : Body} {f : Value → Value} {a : Expr} {rest : List Expr} {kv : Pair} {c c' : Ctx} {v : Value}
    (hb : unaryOf b = some f) (ha : exec a kv c = (.ok v, c')) :
    rowBody b (a :: rest) kv c = (.ok (f v), c') := row_unary hb ha

/-- `BodyVec`: the same function, pair by pair -/
theorem unary_vec {b : Body} {f : Value → Value} {a : Expr} {rest : List Expr} {chunk : List Pair} {c c' : Ctx}
    {vs : List Value} (hb : unaryOf b = some f) (ha : execBatch a chunk c = (.ok vs, c'))
    (hl : vs.length = chunk.length) :
    vecBody b (a :: rest) chunk c = (.ok (vs.map f), c') := vec_unary hb ha hl

/-- upper / lower map ASCII case, byte by byte, and leave every other byte alone -/
theorem upper_lower_ascii (b : Bytes) :
    unaryOf .upper = some (fun v => .str (toUpper (toStringV v))) ∧
    unaryOf .lower = some (fun v => .str (toLower (toStringV v))) ∧
    toStringV (.bytes b) = b ∧ toStringV (.str b) = b ∧
    toUpper b = b.map (fun c => if 97 ≤ c ∧ c ≤ 122 then c - 32 else c) ∧
    toLower b = b.map (fun c => if 65 ≤ c ∧ c ≤ 90 then c + 32 else c) :=
  ⟨rfl, rfl, rfl, rfl, rfl, rfl⟩

/-- strlen counts bytes -/
theorem strlen_bytes (b : Bytes) :
    unaryOf .strlen = some (fun v => .int (Int64.ofNat (toStringV v).length)) ∧ (toStringV (.bytes b)).length = b.length :=
  ⟨rfl, rfl⟩

/-- str renders an integer in decimal and int reads it back: `int(str(n)) = n` for every int64 -/
theorem int_str (n : Int64) :
    unaryOf .toStr = some (fun v => .str (toStringV v)) ∧ unaryOf .toInt = some (fun v => .int (toIntV v 0)) ∧
    toIntV (.str (toStringV (.int n))) 0 = n :=
  ⟨rfl, rfl, int_str_roundtrip n 0⟩

/-- the decimal text `%d` writes is read back by `strconv.ParseInt` -/
theorem parseInt_formatInt (n : Int64) : parseInt? (formatInt n) = some n.toInt := Kvql.parseInt_formatInt n

/-- is_int / is_float tell whether the reading that int() / float() perform succeeds, and then
    int() / float() return the number read -/
theorem is_int_iff (b : Bytes) :
    unaryOf .isInt = some (fun v => .bool (isIntV v)) ∧ isIntV (.bytes b) = (parseInt? b).isSome ∧
    (∀ n, parseInt? b = some n → toIntV (.bytes b) 0 = Int64.ofInt n) :=
  ⟨rfl, rfl, fun _ h => (toIntV_of_parseInt h 0).1⟩

theorem is_float_iff (b : Bytes) :
    unaryOf .isFloat = some (fun v => .bool (isFloatV v)) ∧ isFloatV (.bytes b) = (parseFloat? b).isSome ∧
    (∀ f, parseFloat? b = some f → toFloatV (.bytes b) F64.zero = f) :=
  ⟨rfl, rfl, fun _ h => (toFloatV_of_parseFloat h F64.zero).1⟩

/-! ### split / join -/

theorem split_row {a0 a1 : Expr} {rest : List Expr} {kv : Pair} {c c0 c1 : Ctx} {v sp : Value}
    (h0 : exec a0 kv c = (.ok v, c0)) (t1 : retType a1 = tyTSTR) (h1 : exec a1 kv c0 = (.ok sp, c1)) :
    rowBody .split (a0 :: a1 :: rest) kv c = (.ok (.strList (splitBytes (toStringV v) (toStringV sp))), c1) :=
  row_split h0 t1 h1

theorem split_vec {a0 a1 : Expr} {rest : List Expr} {chunk : List Pair} {c c0 c1 : Ctx} {vs sps : List Value}
    (t1 : retType a1 = tyTSTR) (h0 : execBatch a0 chunk c = (.ok vs, c0)) (h1 : execBatch a1 chunk c0 = (.ok sps, c1))
    (l0 : vs.length = chunk.length) (l1 : sps.length = chunk.length) :
    vecBody .split (a0 :: a1 :: rest) chunk c =
      (.ok (List.zipWith (fun v sp => .strList (splitBytes (toStringV v) (toStringV sp))) vs sps), c1) :=
  vec_split t1 h0 h1 l0 l1

theorem join_row {a0 : Expr} {rest : List Expr} {kv : Pair} {c c0 c1 : Ctx} {sep : Value} {vals : List Value}
    (t0 : retType a0 = tyTSTR) (h0 : exec a0 kv c = (.ok sep, c0)) (h1 : execArgs rest kv c0 = (.ok vals, c1)) :
    rowBody .join (a0 :: rest) kv c = (.ok (.str (joinBytes (toStringV sep) (vals.map toStringV))), c1) :=
  row_join t0 h0 h1

/-- join / list / int_list / float_list in batch ARE the row body applied pair by pair (with a nil
    context: the chunk's context is neither read nor written) -/
theorem rowwise_vec (b : Body) (hb : b = .join ∨ b = .toList ∨ b = .intList ∨ b = .floatList)
    (args : List Expr) (chunk : List Pair) : vecBody b args chunk = rowWiseNoCtx (rowBody b args) chunk :=
  vec_rowwise b hb args chunk

/-- split and join are mutual inverses: `join(sep, split(s, sep)) = s` for every non-empty separator … -/
theorem join_split (s sep : Bytes) (hsep : sep ≠ []) : joinBytes sep (splitBytes s sep) = s :=
  Kvql.join_split s sep hsep

/-- … and `split(join(c, parts), c) = parts` for a (one-byte) separator that does not occur in the
    parts.  (For longer separators "does not occur in the parts" is not enough for ANY
    implementation: `join("aa", ["a","b"]) = "aaab" = join("aa", ["", "ab"])`.) -/
theorem split_join (c : UInt8) (ps : List Bytes) (hne : ps ≠ []) (h : ∀ p ∈ ps, c ∉ p) :
    splitBytes (joinBytes [c] ps) [c] = ps := split_join_single c ps hne h

example : splitBytes (joinBytes [44] [[97], [], [98, 99]]) [44] = [[97], [], [98, 99]] := by decide

/-! ### len, list builders -/

/-- len counts the elements of ANY list value -/
theorem len_any_list :
    (∀ l, getListLength (.strList l) = .ok (Int64.ofNat l.length)) ∧
    (∀ l, getListLength (.intList l) = .ok (Int64.ofNat l.length)) ∧
    (∀ l, getListLength (.floatList l) = .ok (Int64.ofNat l.length)) ∧
    (∀ l, getListLength (.anyList l) = .ok (Int64.ofNat l.length)) := getListLength_lists

theorem len_row {a : Expr} {rest : List Expr} {kv : Pair} {c c' : Ctx} {v : Value} {n : Int64}
    (ha : exec a kv c = (.ok v, c')) (hn : getListLength v = .ok n) :
    rowBody .len (a :: rest) kv c = (.ok (.goInt n), c') := row_len ha hn

theorem len_vec {a : Expr} {rest : List Expr} {chunk : List Pair} {c c' : Ctx} {vs : List Value} {g : Value → Int64}
    (ha : execBatch a chunk c = (.ok vs, c')) (hl : vs.length = chunk.length)
    (hn : ∀ v ∈ vs, getListLength v = .ok (g v)) :
    vecBody .len (a :: rest) chunk c = (.ok (vs.map fun v => .goInt (g v)), c') := vec_len ha hl hn

/-- int_list / float_list hold their arguments in order (integers as they are, floats as they are,
    an integer in a float list as its float) -/
theorem int_list_row {args : List Expr} {kv : Pair} {c c' : Ctx} {vals : List Value}
    (h : execArgs args kv c = (.ok vals, c')) :
    rowBody .intList args kv c = (.ok (.intList (vals.map (toIntV · 0))), c') := row_intList h

theorem float_list_row {args : List Expr} {kv : Pair} {c c' : Ctx} {vals : List Value}
    (h : execArgs args kv c = (.ok vals, c')) :
    rowBody .floatList args kv c = (.ok (.floatList (vals.map (toFloatV · F64.zero))), c') := row_floatList h

theorem held_as_is (i : Int64) (f : F64) :
    toIntV (.int i) 0 = i ∧ toFloatV (.float f) F64.zero = f ∧ toFloatV (.int i) F64.zero = F64.ofInt i :=
  ⟨rfl, rfl, rfl⟩

/-- list(e1, …): an integer list when the first element is an integer (or reads as one), else a float
    list; elements in order -/
theorem list_row_int {a : Expr} {rest : List Expr} {kv : Pair} {c c0 c1 c2 : Ctx} {first v : Value} {vs : List Value}
    (hf : exec a kv c = (.ok first, c0)) (hi : listUseInt first = true)
    (h0 : exec a kv c0 = (.ok v, c1)) (h1 : execArgs rest kv c1 = (.ok vs, c2)) :
    rowBody .toList (a :: rest) kv c = (.ok (.intList ((v :: vs).map (toIntV · 0))), c2) :=
  row_toList_int hf hi h0 h1

theorem list_row_float {a : Expr} {rest : List Expr} {kv : Pair} {c c0 c1 c2 : Ctx} {first v : Value} {vs : List Value}
    (hf : exec a kv c = (.ok first, c0)) (hi : listUseInt first = false)
    (h0 : exec a kv c0 = (.ok v, c1)) (h1 : execArgs rest kv c1 = (.ok vs, c2)) :
    rowBody .toList (a :: rest) kv c = (.ok (.floatList ((v :: vs).map (toFloatV · F64.zero))), c2) :=
  row_toList_float hf hi h0 h1

/-! ### distances -/

/-- l2_distance = √Σ|aᵢ−bᵢ|² summed left to right; different lengths are refused -/
theorem l2_formula (l r : List F64) :
    l2Distance l r = if l.length ≠ r.length then .error .data else .ok (sumSq l r).sqrt := l2Distance_spec l r

/-- cosine_distance = 1 − a·b / (√(a·a)·√(b·b)); different lengths are refused -/
theorem cosine_formula (l r : List F64) :
    cosineDistance l r = if l.length ≠ r.length then .error .data else
      .ok (F64.one.sub ((dot3 l r).1.div ((dot3 l r).2.1.sqrt.mul (dot3 l r).2.2.sqrt))) := cosineDistance_spec l r

theorem l2_row {a0 a1 : Expr} {rest : List Expr} {kv : Pair} {c c0 c1 : Ctx} {l r : Value} {lv rv : List F64}
    (h0 : exec a0 kv c = (.ok l, c0)) (h1 : exec a1 kv c0 = (.ok r, c1))
    (hl : toFloatList l = .ok lv) (hr : toFloatList r = .ok rv) :
    rowBody .l2 (a0 :: a1 :: rest) kv c = ((l2Distance lv rv).map Value.float, c1) := row_l2 h0 h1 hl hr

theorem cosine_row {a0 a1 : Expr} {rest : List Expr} {kv : Pair} {c c0 c1 : Ctx} {l r : Value} {lv rv : List F64}
    (h0 : exec a0 kv c = (.ok l, c0)) (h1 : exec a1 kv c0 = (.ok r, c1))
    (hl : toFloatList l = .ok lv) (hr : toFloatList r = .ok rv) :
    rowBody .cosine (a0 :: a1 :: rest) kv c = ((cosineDistance lv rv).map Value.float, c1) := row_cosine h0 h1 hl hr

/-- the vector bodies run the same per-pair computation (`distanceRow … = toFloatList both, then the formula`) -/
theorem l2_vec {a0 a1 : Expr} {rest : List Expr} {chunk : List Pair} {c c0 c1 : Ctx} {ls rs : List Value}
    (h0 : execBatch a0 chunk c = (.ok ls, c0)) (h1 : execBatch a1 chunk c0 = (.ok rs, c1))
    (hr : rs.length = chunk.length) :
    vecBody .l2 (a0 :: a1 :: rest) chunk c =
      (zipRows (fun l r => distanceRow l2Distance l (some r)) chunk.length ls rs, c1) := vec_l2 h0 h1 hr

theorem cosine_vec {a0 a1 : Expr} {rest : List Expr} {chunk : List Pair} {c c0 c1 : Ctx} {ls rs : List Value}
    (h0 : execBatch a0 chunk c = (.ok ls, c0)) (h1 : execBatch a1 chunk c0 = (.ok rs, c1))
    (hr : rs.length = chunk.length) :
    vecBody .cosine (a0 :: a1 :: rest) chunk c =
      (zipRows (fun l r => distanceRow cosineDistance l (some r)) chunk.length ls rs, c1) := vec_cosine h0 h1 hr

/-! ### substr -/

/-- substr(v, s, e) = the bytes of v from position s up to (not including) min(e, len v); empty when s
    is not below that bound; never a panic (`subString` is total) -/
theorem substr_value (val : Bytes) (s e : Int64) (hs : 0 ≤ s.toInt) :
    subString val s e =
      if s.toInt < min e.toInt val.length then (val.take (min e.toInt val.length).toNat).drop s.toInt.toNat else [] :=
  subString_spec val s e hs

theorem substr_row {a0 a1 a2 : Expr} {rest : List Expr} {kv : Pair} {c c0 c1 c2 : Ctx} {v s l : Value}
    (h0 : exec a0 kv c = (.ok v, c0)) (t1 : retType a1 = tyTNUMBER) (t2 : retType a2 = tyTNUMBER)
    (h1 : exec a1 kv c0 = (.ok s, c1)) (h2 : exec a2 kv c1 = (.ok l, c2)) :
    rowBody .subStr (a0 :: a1 :: a2 :: rest) kv c = (.ok (.str (subString (toStringV v) (toIntV s 0) (toIntV l 0))), c2) :=
  row_substr h0 t1 t2 h1 h2

theorem substr_vec {a0 a1 a2 : Expr} {rest : List Expr} {chunk : List Pair} {c c0 c1 c2 : Ctx} {vs ss ls : List Value}
    (t1 : retType a1 = tyTNUMBER) (t2 : retType a2 = tyTNUMBER)
    (h0 : execBatch a0 chunk c = (.ok vs, c0)) (h1 : execBatch a1 chunk c0 = (.ok ss, c1))
    (h2 : execBatch a2 chunk c1 = (.ok ls, c2))
    (l0 : vs.length = chunk.length) (l1 : ss.length = chunk.length) (l2 : ls.length = chunk.length) :
    vecBody .subStr (a0 :: a1 :: a2 :: rest) chunk c =
      (.ok (zipWith3V (fun v s l => .str (subString (toStringV v) (toIntV s 0) (toIntV l 0))) vs ss ls), c2) :=
  vec_substr t1 t2 h0 h1 h2 l0 l1 l2

example : subString [97, 98, 99, 100, 101, 102] 3 5 = [100, 101] ∧ subString [107, 95, 49, 50] 3 4 = [50] ∧
    subString [97, 98] 2 1 = [] := by decide

/-! ### `[n]` and JSON navigation, in both modes -/

/-- `[n]` returns element n (counting from 0) of ANY list value … -/
theorem index_any_list {n : Int64} (h0 : 0 ≤ n.toInt) :
    (∀ l : List Value, n.toInt.toNat < l.length → listAccess n (.anyList l) = .ok ((l[n.toInt.toNat]?).getD (.str []))) ∧
    (∀ l : List Bytes, n.toInt.toNat < l.length → listAccess n (.strList l) = .ok (((l[n.toInt.toNat]?).map .str).getD (.str []))) ∧
    (∀ l : List Int64, n.toInt.toNat < l.length → listAccess n (.intList l) = .ok (((l[n.toInt.toNat]?).map .int).getD (.str []))) ∧
    (∀ l : List F64, n.toInt.toNat < l.length → listAccess n (.floatList l) = .ok (((l[n.toInt.toNat]?).map .float).getD (.str []))) :=
  listAccess_nth h0

/-- … row by row … -/
theorem index_row {l : Expr} {p q : Nat} {d : Bytes} {n : Int64} {kv : Pair} {c c' : Ctx} {v : Value}
    (hl : exec l kv c = (.ok v, c')) :
    exec (.access p l (.num q d n)) kv c = (listAccess n v, c') := row_listAccess hl

/-- … and on a chunk: the same function applied to each pair's value -/
theorem index_vec {l : Expr} {p q : Nat} {d : Bytes} {n : Int64} {chunk : List Pair} {c c' : Ctx} {vs : List Value}
    (hl : execBatch l chunk c = (.ok vs, c')) :
    execBatch (.access p l (.num q d n)) chunk c = (mapRows (listAccess n) vs.length vs, c') := vec_listAccess hl

/-- `json(text)` parses the text (`parseJsonObject`: modelled, not verified) … -/
theorem json_row {a : Expr} {rest : List Expr} {kv : Pair} {c c' : Ctx} {v : Value} {b : Bytes}
    (ha : exec a kv c = (.ok v, c')) (hb : convertToByteArray v = some b) :
    rowBody .json (a :: rest) kv c = (.ok (.json (parseJsonObject b)), c') := row_json ha hb

theorem json_vec {a : Expr} {rest : List Expr} {chunk : List Pair} {c c' : Ctx} {vs : List Value} {g : Value → Bytes}
    (ha : execBatch a chunk c = (.ok vs, c')) (hl : vs.length = chunk.length)
    (hb : ∀ v ∈ vs, convertToByteArray v = some (g v)) :
    vecBody .json (a :: rest) chunk c = (.ok (vs.map fun v => .json (parseJsonObject (g v))), c') := vec_json ha hl hb

/-- … and `['name']` returns the addressed member (in both modes the same `dictAccess`) -/
theorem json_nav {m : List (Bytes × Value)} {k : Bytes} {v : Value} (h : assocGet m k = some v) :
    dictAccess k (.json m) = .ok v := dictAccess_member h

theorem json_nav_row {l : Expr} {p q : Nat} {d : Bytes} {kv : Pair} {c c' : Ctx} {v : Value}
    (hl : exec l kv c = (.ok v, c')) :
    exec (.access p l (.str q d)) kv c = (dictAccess d v, c') := row_dictAccess hl

theorem json_nav_vec {l : Expr} {p q : Nat} {d : Bytes} {chunk : List Pair} {c c' : Ctx} {vs : List Value}
    (hl : execBatch l chunk c = (.ok vs, c')) :
    execBatch (.access p l (.str q d)) chunk c = (mapRows (dictAccess d) vs.length vs, c') := vec_dictAccess hl

end Kvql.Properties.C10
