/-
  E2ENoPanic  C06 for WHOLE STATEMENTS over the end-to-end model
      `Kvql.Run.runQuery : (query : Bytes) → (pf : Bytes → F64) → Store → PollKind → (bs : Nat) → (cache : Bool) → Outcome`
  (Model/Run.lean): parsing, planning and executing ANY text over a store never panics, never recurses without
  bound, never loops for ever; it returns rows or an error VALUE.  In the model a Go panic is the explicit outcome
  `Fail.panic site`, unbounded recursion through a cyclic alias is `Fail.fuel`, a loop that does not end is
  `Fail.storageExec .diverge` (the plan layer) or `Fail.fuel`, a disagreement of two component models is
  `Fail.glue _`, and what the model does not speak about is `Fail.unsupported _`.

  THE THEOREMS (lemmas: Kvql/Proofs/RunNoPanic*.lean; no hypothesis says that anything evaluates: a failing
  evaluation of the WHERE, of a field, of a PUT expression, of an aggregate argument is a legitimate outcome
  `Fail.exec class`; the point is that it is never a panic).

  (0) FRONT END, new component results (C06 / C14 / C16):
      `rtFuel_sufficient`      the fuel `rtFuel` that `CheckCtx.rt` (= `ReturnType()`, followed through alias
                               references) gives itself suffices over every ACYCLIC select-field table — the
                               statement C14Alias noted "is never proved anywhere";
      `cycle_search_complete`  the depth-first search `CheckCtx.closesCycle` (checker.go `reaches`) finds EVERY
                               chain of alias references: a reference it lets through closes no cycle;
      `parse_never_panics`     hence the table is acyclic at every moment of `Parse`, no call of `ReturnType()`
                               runs out of fuel (the "cyclic alias" stack overflow of C06 is unreachable), and
                               with ParserTotalStmt `parse_safe` `Parse` never panics at all and never runs out
                               of its own fuel — on the tokens of the lexer;
      `plan_stage_never_panics` the same for everything `BuildPlan` decides before the storage: the walk of
                               `checkStatementFunctionCalls` never meets a cycle marker, `buildFinalPlan` has no
                               panic site, the aggregate constructors' `args[1]` is covered by the validated arity.
  (1) `run_never_panics`  for EVERY query text, float oracle, SORTED store, mode, batch size and cache setting
      the outcome is: no failure, a rejection by `BuildPlan` (`Fail.plan`), an evaluation error value
      (`Fail.exec`), or `Fail.unsupported` — never `panic`, `fuel`, `glue`, nor a failure of the storage machine
      (`storagePlan`, `storageExec`: no nil cursor, no divergence).  NO other hypothesis: row and batch mode,
      field cache on and off — in particular batch mode with the cache ON needs none of the alias hypotheses of
      C05 (`Functional`, `FieldsAgree`): RunNoPanicLockBatchOn.lean carries the LENGTH invariants of the chunk
      cache alone (a frame lemma for `ExecuteBatch` per first key, the static set `touch` of cached names).
        `run_never_panics_any_store`  every statement that is not a SELECT with a field list — rejected texts, PUT,
                                      REMOVE, DELETE, `select *` / bare `where` (with ORDER BY / LIMIT), aggregated
                                      SELECT — on ANY store (sorted or not), either mode, cache on or off.
      Per statement kind: `run_rejected_…`, `run_put_…`, `run_remove_…`, `run_delete_…`, `run_select_star_…`,
      `run_select_fields_…`, `run_aggregate_…` (all full).
      The sortedness hypothesis is necessary IN THE MODEL: `unsorted_store_glue` exhibits `Fail.glue` on a store
      with a repeated key (outside the model's domain: `Storage.Store` is "strictly ascending by key"; the verdict
      tables of the composition are keyed by key) — an artefact of the composition, not of kvql.
  (2) `run_total`  every fuel is sufficient: out-of-fuel outcomes (`Fail.fuel`, `storageExec diverge`, the
      model-fuel `glue "projection drain out of fuel"`) are unreachable under the hypothesis of (1) (sorted store).  Component
      statements: `rtFuel_sufficient` (alias resolution), `parse_never_panics` (parser fuels: ParserTotalStmt),
      `plan_layer_total` (all six loop fuels of Model/Plans.lean: `cursorBatchLoop`, `mgetBatchLoop`, `skipBatch`,
      `fillBatch`, `DeletePlan.loop`, `drain`), `batch_evaluator_never_panics` (ExecuteBatch, cache ON or OFF, no
      `vecOk`: strengthens the partial `execBatch_total`), the evaluators themselves are structurally recursive
      (a cycle marker would be `outOfFuel`: excluded by `accepted_well_formed`).
  (3) `run_unsupported_classified`  when the model answers `unsupported`: exactly (a) `planStage` says so — a call
      of a computed callee `(f + g)(x)`, a select field with root `&`/`|` containing an aggregate call, a
      `quantile` / `group_concat` whose second argument is not a plain literal — (b) `PlanBatchSize = 0`, (c) an
      aggregated SELECT with a field the aggregation model has no constructor for (`quantile`, an aggregate under a
      non-arithmetic operator; decidable on the folded statement: `aggrFieldsSupported`), (d) an aggregated SELECT
      one of whose output columns is of list kind (data dependent).  `unsupportedStatic` is the decidable part;
      for every statement that is not an aggregated SELECT and `bs ≥ 1` the model never answers `unsupported`.
-/
import Kvql.Proofs.RunNoPanicMain
import Kvql.Proofs.RunNoPanicParseE
import Kvql.Properties.E2E
import Kvql.Properties.E2EFields

namespace Kvql.Properties.E2ENoPanic

open Kvql Kvql.Run Kvql.Plans Kvql.Storage Kvql.Parser Kvql.Proofs.Typing Kvql.Proofs.RunNoPanic
open Kvql.PlanCheck (planStage finalPlanCheck)

/-! ### vocabulary -/

/-- the outcomes C06 excludes: a Go panic, unbounded recursion, a disagreement of the component models -/
abbrev Bad (f : Fail) : Prop := bad f = true

/-- **no crash**: no failure, or an error VALUE — rejected by `BuildPlan`, or an evaluation error — or outside
    the modelled fragment; in particular not `panic`, `fuel`, `glue`, `storagePlan`, `storageExec` -/
def Graceful (o : Run.Outcome) : Prop :=
  o.fail = none ∨ (∃ e, o.fail = some (Fail.plan e)) ∨ (∃ cls, o.fail = some (Fail.exec cls)) ∨
    (∃ w, o.fail = some (Fail.unsupported w))

theorem Graceful.not_bad {o : Run.Outcome} (h : Graceful o) :
    (∀ site, o.fail ≠ some (Fail.panic site)) ∧ o.fail ≠ some Fail.fuel ∧ (∀ g, o.fail ≠ some (Fail.glue g)) ∧
    (∀ e, o.fail ≠ some (Fail.storageExec e)) ∧ (∀ e, o.fail ≠ some (Fail.storagePlan e)) := by
  rcases h with h | ⟨e, h⟩ | ⟨c, h⟩ | ⟨w, h⟩ <;> simp [h]

/-- is the accepted statement a SELECT with a field list and without aggregates (the one statement kind whose
    theorem needs a sorted store)? -/
def isFieldSelect (r : Res Stmt) : Bool :=
  match r with
  | .ok (.select s) => !s.allFields && (match finalPlanCheck s with | .ok false => true | _ => false)
  | _ => false

/-! ### (0) the front end -/

/-- THE SUFFICIENCY OF `rtFuel`.  Over a select-field table whose alias graph is acyclic (`Acyclic`: a rank
    decreasing along every reference), all of whose references name fields and which carries no cycle marker,
    `ReturnType()` of such a tree, followed through the references with the fuel `rtFuel tbl e` the checker gives
    it, returns a type. -/
theorem rtFuel_sufficient {tbl : Tbl} (hac : Acyclic tbl)
    (hent : ∀ (j : Nat) (nm : Bytes) (f : Expr), tbl[j]? = some (nm, f) → Found tbl f = true ∧ noCyc f = true)
    {e : Expr} (hf : Found tbl e = true) (hn : noCyc e = true) :
    ∃ t, rtF tbl (rtFuel tbl e) e = some t :=
  Kvql.Proofs.RunNoPanic.rtF_sufficient hac hent hf hn

/-- THE CYCLE SEARCH IS COMPLETE: if `reaches` (fuel: number of fields + 1, empty visited list) answers "no",
    no chain of alias references leads from field `j` to field `target`. -/
theorem cycle_search_complete {tbl : Tbl} {target j : Nat} (hj : j < tbl.length)
    (h : (tbl.reaches target (tbl.length + 1) j []).1 = false) : ¬ Reach tbl j target :=
  Kvql.Proofs.RunNoPanic.reaches_complete hj h

/-- `Parse` ON THE TOKENS OF A TEXT NEVER PANICS AND NEVER RUNS OUT OF FUEL. -/
theorem parse_never_panics (query : Bytes) (pf : Bytes → F64) :
    (∀ site, Parse pf (Lexer.split query) ≠ .panic site) ∧ Parse pf (Lexer.split query) ≠ .outOfFuel :=
  ⟨fun site => parse_no_panic _ site (split_numToksOK query), parse_no_fuel _⟩

/-- EVERYTHING `BuildPlan` DECIDES BEFORE THE STORAGE NEVER PANICS AND NEVER RUNS OUT OF FUEL. -/
theorem plan_stage_never_panics (query : Bytes) (pf : Bytes → F64) :
    (∀ site, planStage pf (Lexer.split query) ≠ .panic site) ∧ planStage pf (Lexer.split query) ≠ .outOfFuel :=
  planStage_tame query

/-- WHAT IS ACCEPTED IS WELL FORMED for the evaluators: no cycle marker (cyclic aliases are rejected), list
    indices non-negative — the hypothesis `Expr.wf` of `exec_total` / `execBatch_total` discharged. -/
theorem accepted_well_formed (query : Bytes) (pf : Bytes → F64) (stmt : Stmt)
    (h : planStage pf (Lexer.split query) = .ok stmt) :
    match stmt with
    | .select s => s.where_.wf = true ∧ ∀ f ∈ s.fields, f.wf = true
    | .put _ pairs => ∀ kv ∈ pairs, kv.1.wf = true ∧ kv.2.wf = true
    | .remove _ keys => ∀ k ∈ keys, k.wf = true
    | .delete _ _ w _ => w.wf = true := by
  have hc := accepted_stmt_clean h
  cases stmt with
  | select s => exact ⟨wf_of_clean hc.1, fun f hf => wf_of_clean (hc.2 f hf)⟩
  | put _ pairs => exact fun kv hkv => ⟨wf_of_clean (hc kv hkv).1, wf_of_clean (hc kv hkv).2⟩
  | remove _ keys => exact fun k hk => wf_of_clean (hc k hk)
  | delete _ _ w _ => exact wf_of_clean hc

/-- THE BATCH EVALUATOR NEVER PANICS, field cache ON or OFF, without the side condition `vecOk`: one chunk
    (non-empty unless the context is nil) from a context whose cached columns have the chunk's length (a fresh
    context has none): as many values as pairs, or an error that is neither a panic nor unbounded recursion.
    Strengthens the partial `Kvql.Proofs.PanicFree.execBatch_total` of C06. -/
theorem batch_evaluator_never_panics (e : Expr) (hwf : e.wf = true) (chunk : List Pair) (c : Ctx)
    (hne : c.present = true → chunk ≠ []) (hcl : ColsLen c chunk.length) :
    (match (execBatch e chunk c).1 with
      | .ok vs => vs.length = chunk.length
      | .error err => err.isPanic = false ∧ err ≠ .outOfFuel) ∧
    ColsLen (execBatch e chunk c).2 chunk.length ∧
    (execBatch e chunk c).2.present = c.present ∧ (execBatch e chunk c).2.enable = c.enable :=
  execBatch_safe e hwf chunk c hne hcl

/-- THE PLAN LAYER IS TOTAL: without fault injection and with `PlanBatchSize ≥ 1`, every statement of the plan
    layer (whatever scan node, whatever evaluation tables that fail with `eval` only) ends `ok` or with the
    evaluation failure — never with a storage error, a nil cursor, or `diverge` (a loop fuel that ran out). -/
theorem plan_layer_total (stmt : Plans.Stmt) (hev : EvalOnly stmt) (kind : PollKind) (bs : Nat) (hbs : 1 ≤ bs)
    (store : Store) :
    (Plans.run stmt kind bs none store).1.outcome = .ok ∨
    (Plans.run stmt kind bs none store).1.outcome = .execErr .eval :=
  run_no_storage_error stmt hev kind bs hbs store

/-- `FinalOrderPlan` (container/heap on a slice) never panics when the row comparison does not -/
theorem order_plan_never_panics {α : Type} (lessR : α → α → Order.Res Bool) (rows : List α)
    (hless : ∀ a ∈ rows, ∀ b ∈ rows, ∃ r, lessR a b = .ok r) (fuel : Nat) :
    ∃ out, Order.drainNext lessR fuel {} rows = .ok out :=
  order_drainNext_no_panic lessR rows hless fuel

/-! ### (1) whole statements -/

theorem graceful_of_cases {o : Run.Outcome}
    (h : ∀ fl, o.fail = some fl → (∃ e, fl = Fail.plan e) ∨ isExec fl ∨ ∃ w, fl = Fail.unsupported w) : Graceful o := by
  unfold Graceful
  cases hf : o.fail with
  | none => exact .inl rfl
  | some fl =>
    rcases h fl hf with ⟨e, rfl⟩ | ⟨c, rfl⟩ | ⟨w, rfl⟩
    · exact .inr (.inl ⟨e, rfl⟩)
    · exact .inr (.inr (.inl ⟨c, rfl⟩))
    · exact .inr (.inr (.inr ⟨w, rfl⟩))

/-- (1) **NO QUERY TEXT AND NO DATA CAN CRASH THE LIBRARY** — whole statements, end to end: every text, every
    float oracle, every sorted store, row and batch mode, every batch size, field cache on and off. -/
theorem run_never_panics (query : Bytes) (pf : Bytes → F64) (store : Store) (hs : store.Sorted)
    (kind : PollKind) (bs : Nat) (cache : Bool) : Graceful (runQuery query pf store kind bs cache) :=
  graceful_of_cases (fun fl hfl =>
    runQuery_safe query pf store kind bs cache (fun _ _ _ _ _ _ => hs) fl hfl)

/-- (1), EVERY STATEMENT THAT IS NOT A SELECT WITH A FIELD LIST — full, on ANY store (sorted or not): rejected
    texts, PUT, REMOVE, DELETE, `select *` / bare `where` with ORDER BY / LIMIT, aggregated SELECT; either mode,
    every batch size, cache on or off. -/
theorem run_never_panics_any_store (query : Bytes) (pf : Bytes → F64) (store : Store) (kind : PollKind) (bs : Nat)
    (cache : Bool) (hkind : isFieldSelect (planStage pf (Lexer.split query)) = false) :
    Graceful (runQuery query pf store kind bs cache) := by
  apply graceful_of_cases
  intro fl hfl
  refine runQuery_safe query pf store kind bs cache ?_ fl hfl
  intro stmt hp s hs hnf hfp
  exfalso
  subst hs
  rw [hp] at hkind
  simp [isFieldSelect, hnf, hfp] at hkind

/-! #### per statement kind -/

/-- REJECTED TEXTS: whatever `BuildPlan` does not accept is answered with a `*SyntaxError` / plain error
    (`Fail.plan`) or is outside the modelled fragment — never a panic, never out of fuel. -/
theorem run_rejected_never_panics (query : Bytes) (pf : Bytes → F64) (store : Store) (kind : PollKind) (bs : Nat)
    (cache : Bool) (h : Rejects (planStage pf (Lexer.split query))) :
    (∃ e, (runQuery query pf store kind bs cache).fail = some (Fail.plan e)) ∨
    (∃ w, (runQuery query pf store kind bs cache).fail = some (Fail.unsupported w)) := by
  have ht := planStage_tame (pf := pf) query
  unfold runQuery
  cases hp : planStage pf (Lexer.split query) with
  | ok stmt => exact absurd hp (h stmt)
  | err e => exact .inl ⟨e, rfl⟩
  | panic site => exact absurd hp (ht.1 site)
  | outOfFuel => exact absurd hp ht.2
  | unsupported w => exact .inr ⟨w, rfl⟩

/-- an accepted statement of a given kind: the outcome is that of `runStmt`, never `plan` -/
theorem graceful_accepted {query : Bytes} {pf : Bytes → F64} {stmt : Stmt}
    (hp : planStage pf (Lexer.split query) = .ok stmt) (store : Store) (kind : PollKind) (bs : Nat) (cache : Bool)
    (hsorted : SortedSide stmt store) :
    (runQuery query pf store kind bs cache).fail = none ∨
    (∃ cls, (runQuery query pf store kind bs cache).fail = some (Fail.exec cls)) ∨
    (∃ w, (runQuery query pf store kind bs cache).fail = some (Fail.unsupported w)) := by
  rw [Kvql.Proofs.RunFields.runQuery_stmt query pf store kind bs cache hp]
  cases hf : (runStmt stmt store kind bs cache).fail with
  | none => exact .inl rfl
  | some fl =>
    rcases runStmt_safe hp store kind bs cache hsorted fl hf with ⟨c, rfl⟩ | ⟨w, rfl, _⟩
    · exact .inr (.inl ⟨c, rfl⟩)
    · exact .inr (.inr ⟨w, rfl⟩)

/-- PUT — full: any store, mode, batch size ≥ 1, cache: the pairs are written or an evaluation error value -/
theorem run_put_never_panics (query : Bytes) (pf : Bytes → F64) (pos : Nat) (pairs : List (Expr × Expr))
    (hp : planStage pf (Lexer.split query) = .ok (.put pos pairs))
    (store : Store) (kind : PollKind) (bs : Nat) (hbs : 1 ≤ bs) (cache : Bool) :
    (runQuery query pf store kind bs cache).fail = none ∨
    ∃ cls, (runQuery query pf store kind bs cache).fail = some (Fail.exec cls) := by
  rw [Kvql.Proofs.RunFields.runQuery_stmt query pf store kind bs cache hp]
  have hc := accepted_stmt_clean hp
  cases hf : (runStmt (.put pos pairs) store kind bs cache).fail with
  | none => exact .inl rfl
  | some fl =>
    obtain ⟨c, rfl⟩ := runStmt_put_safe (Kvql.Proofs.RunWrite.accepted_put_aliasFree hp)
      (fun kv hkv => ⟨wf_of_clean (hc kv hkv).1, wf_of_clean (hc kv hkv).2⟩) store kind hbs cache fl hf
    exact .inr ⟨c, rfl⟩

/-- REMOVE — full -/
theorem run_remove_never_panics (query : Bytes) (pf : Bytes → F64) (pos : Nat) (keys : List Expr)
    (hp : planStage pf (Lexer.split query) = .ok (.remove pos keys))
    (store : Store) (kind : PollKind) (bs : Nat) (hbs : 1 ≤ bs) (cache : Bool) :
    (runQuery query pf store kind bs cache).fail = none ∨
    ∃ cls, (runQuery query pf store kind bs cache).fail = some (Fail.exec cls) := by
  rw [Kvql.Proofs.RunFields.runQuery_stmt query pf store kind bs cache hp]
  have hc := accepted_stmt_clean hp
  cases hf : (runStmt (.remove pos keys) store kind bs cache).fail with
  | none => exact .inl rfl
  | some fl =>
    obtain ⟨c, rfl⟩ := runStmt_remove_safe (Kvql.Proofs.RunWrite.accepted_remove_aliasFree hp)
      (fun k hk => wf_of_clean (hc k hk)) store kind hbs cache fl hf
    exact .inr ⟨c, rfl⟩

/-- DELETE (with or without LIMIT, scan or remove shortcut) — full: the filter is evaluated chunk-wise in either
    mode, cache on or off; any store -/
theorem run_delete_never_panics (query : Bytes) (pf : Bytes → F64) (pos wpos : Nat) (w : Expr) (lim : Option LimitS)
    (hp : planStage pf (Lexer.split query) = .ok (.delete pos wpos w lim))
    (store : Store) (kind : PollKind) (bs : Nat) (hbs : 1 ≤ bs) (cache : Bool) :
    (runQuery query pf store kind bs cache).fail = none ∨
    ∃ cls, (runQuery query pf store kind bs cache).fail = some (Fail.exec cls) := by
  rw [Kvql.Proofs.RunFields.runQuery_stmt query pf store kind bs cache hp]
  cases hf : (runStmt (.delete pos wpos w lim) store kind bs cache).fail with
  | none => exact .inl rfl
  | some fl =>
    obtain ⟨c, rfl⟩ := runStmt_delete_safe (wf_of_clean (accepted_stmt_clean hp)) store kind hbs cache fl hf
    exact .inr ⟨c, rfl⟩

/-- plain SELECT: what is left of `runStmt_safe` once the statement is known not to be aggregated -/
theorem plain_select_exec {query : Bytes} {pf : Bytes → F64} {s : SelectS}
    (hp : planStage pf (Lexer.split query) = .ok (.select s)) (hnoaggr : finalPlanCheck s = .ok false)
    (store : Store) (kind : PollKind) (bs : Nat) (hbs : 1 ≤ bs) (cache : Bool)
    (hfields : s.allFields = false → store.Sorted) :
    (runQuery query pf store kind bs cache).fail = none ∨
    ∃ cls, (runQuery query pf store kind bs cache).fail = some (Fail.exec cls) := by
  rw [Kvql.Proofs.RunFields.runQuery_stmt query pf store kind bs cache hp]
  obtain ⟨f, hf⟩ := foldSelect_total s
  have hsh := accepted_select_shape hp hf
  have hbne : (bs == 0) = false := by
    cases bs with
    | zero => omega
    | succ k => rfl
  cases hfl : (runStmt (.select s) store kind bs cache).fail with
  | none => exact .inl rfl
  | some fl =>
    simp only [runStmt, hbne, Bool.false_eq_true, if_false, hnoaggr, hf] at hfl
    obtain ⟨c, rfl⟩ := runPlainSelect_safe s f hsh store kind bs hbs cache hfields fl hfl
    exact .inr ⟨c, rfl⟩

/-- `select * where P` / bare `where P`, with or without ORDER BY and LIMIT — full: ANY store, either mode, cache
    on or off (also when P refers to the fields `KEY` / `VALUE` by alias) -/
theorem run_select_star_never_panics (query : Bytes) (pf : Bytes → F64) (s : SelectS)
    (hp : planStage pf (Lexer.split query) = .ok (.select s)) (hstar : s.allFields = true)
    (hnoaggr : finalPlanCheck s = .ok false)
    (store : Store) (kind : PollKind) (bs : Nat) (hbs : 1 ≤ bs) (cache : Bool) :
    (runQuery query pf store kind bs cache).fail = none ∨
    ∃ cls, (runQuery query pf store kind bs cache).fail = some (Fail.exec cls) :=
  plain_select_exec hp hnoaggr store kind bs hbs cache (fun hnf => by rw [hstar] at hnf; cases hnf)

/-- SELECT WITH A FIELD LIST (alias references, forward references and chains allowed), with or without ORDER BY
    and LIMIT — full: sorted store, row and batch mode, cache on and off -/
theorem run_select_fields_never_panics (query : Bytes) (pf : Bytes → F64) (s : SelectS)
    (hp : planStage pf (Lexer.split query) = .ok (.select s)) (hnoaggr : finalPlanCheck s = .ok false)
    (store : Store) (hs : store.Sorted) (kind : PollKind) (bs : Nat) (hbs : 1 ≤ bs) (cache : Bool) :
    (runQuery query pf store kind bs cache).fail = none ∨
    ∃ cls, (runQuery query pf store kind bs cache).fail = some (Fail.exec cls) :=
  plain_select_exec hp hnoaggr store kind bs hbs cache (fun _ => hs)

/-- AGGREGATED SELECT (GROUP BY, aggregate functions, arithmetic over them, ORDER BY, LIMIT pushed or not) — full:
    ANY store, either mode, cache on or off: no failure, an evaluation error value, or `unsupported` -/
theorem run_aggregate_never_panics (query : Bytes) (pf : Bytes → F64) (s : SelectS)
    (hp : planStage pf (Lexer.split query) = .ok (.select s)) (haggr : finalPlanCheck s = .ok true)
    (store : Store) (kind : PollKind) (bs : Nat) (cache : Bool) :
    (runQuery query pf store kind bs cache).fail = none ∨
    (∃ cls, (runQuery query pf store kind bs cache).fail = some (Fail.exec cls)) ∨
    (∃ w, (runQuery query pf store kind bs cache).fail = some (Fail.unsupported w)) :=
  graceful_accepted hp store kind bs cache
    (fun s' hs' _ hfp => by cases hs'; rw [haggr] at hfp; cases hfp)

/-! ### (2) totality: no fuel runs out -/

/-- (2) **EVERY FUEL SUFFICES**: on a sorted store no out-of-fuel outcome is reachable — neither `Fail.fuel`
    (a cycle marker reached by an evaluator; `outOfFuel` of the parser or of `planStage`), nor the divergence of a
    plan loop, nor the model fuel of the projection drains (`glue`) -/
theorem run_total (query : Bytes) (pf : Bytes → F64) (store : Store) (hs : store.Sorted)
    (kind : PollKind) (bs : Nat) (cache : Bool) :
    (runQuery query pf store kind bs cache).fail ≠ some Fail.fuel ∧
    (runQuery query pf store kind bs cache).fail ≠ some (Fail.storageExec .diverge) ∧
    (∀ g, (runQuery query pf store kind bs cache).fail ≠ some (Fail.glue g)) :=
  let h := (run_never_panics query pf store hs kind bs cache).not_bad
  ⟨h.2.1, h.2.2.2.1 _, h.2.2.1⟩

/-! ### (3) when the model answers `unsupported` -/

/-- can the aggregation model describe every select field of the folded SELECT (no `quantile`, no aggregate under
    a non-arithmetic operator)?  Decidable on the folded statement; does not depend on the cache setting. -/
def aggrFieldsSupported (f : FoldedSelect) (cache : Bool) : Bool :=
  (f.fields.mapM (aggrField (Ctx.new cache))).isSome

/-- the STATIC causes of `unsupported`, computable from the statement text, the batch size and the cache flag -/
def unsupportedStatic (r : Res Stmt) (bs : Nat) (cache : Bool) : Option String :=
  match r with
  | .unsupported w => some w
  | .ok stmt =>
    if bs == 0 then some "PlanBatchSize = 0"
    else
      match stmt with
      | .select s =>
        (match finalPlanCheck s, foldSelect s with
         | .ok true, .ok f =>
           if aggrFieldsSupported f cache then none
           else some "aggregate field (quantile, or an aggregate under a non-arithmetic operator)"
         | _, _ => none)
      | _ => none
  | _ => none

/-- is the accepted statement an aggregated SELECT? -/
def isAggregated (r : Res Stmt) : Bool :=
  match r with
  | .ok (.select s) => (match finalPlanCheck s with | .ok true => true | _ => false)
  | _ => false

/-- (3) **WHEN THE MODEL ANSWERS `unsupported`** — any store, mode, batch size, cache; no side condition.
    Either one of the static causes applies (`unsupportedStatic`, computable from the text: `planStage` says so;
    `PlanBatchSize = 0`; an aggregate field without constructor in the aggregation model), or the statement is an
    aggregated SELECT one of whose output columns is of list kind (data dependent).  In particular a statement
    that is not an aggregated SELECT, accepted by `planStage`, with `bs ≥ 1`, is NEVER answered `unsupported`. -/
theorem run_unsupported_classified (query : Bytes) (pf : Bytes → F64) (store : Store) (kind : PollKind) (bs : Nat)
    (cache : Bool) (w : String) (h : (runQuery query pf store kind bs cache).fail = some (Fail.unsupported w)) :
    unsupportedStatic (planStage pf (Lexer.split query)) bs cache = some w ∨
    (isAggregated (planStage pf (Lexer.split query)) = true ∧ w = "aggregate column of list kind") := by
  rcases runQuery_unsupported query pf store kind bs cache w h with hp | ⟨stmt, hp, hw⟩
  · left; rw [hp]; rfl
  · rcases hw with ⟨hb, rfl⟩ | ⟨hb, s, f, rfl, hfp, hf, hc⟩
    · left; rw [hp, hb]; rfl
    · have hbne : (bs == 0) = false := by simpa using hb
      rcases hc with ⟨rfl, hnone⟩ | rfl
      · left
        rw [hp]
        simp [unsupportedStatic, hbne, hfp, hf, aggrFieldsSupported, hnone]
      · right
        rw [hp]
        exact ⟨by simp [isAggregated, hfp], rfl⟩

/-- … and the static causes are exact: whenever `unsupportedStatic` names a cause, that is the model's answer -/
theorem run_unsupported_static (query : Bytes) (pf : Bytes → F64) (store : Store) (kind : PollKind) (bs : Nat)
    (cache : Bool) (w : String) (h : unsupportedStatic (planStage pf (Lexer.split query)) bs cache = some w) :
    (runQuery query pf store kind bs cache).fail = some (Fail.unsupported w) := by
  unfold runQuery
  cases hp : planStage pf (Lexer.split query) with
  | ok stmt =>
    rw [hp] at h
    simp only [unsupportedStatic] at h
    by_cases hb : (bs == 0) = true
    · simp only [hb, if_true, Option.some.injEq] at h
      subst h
      simp [runStmt, hb, rejected]
    · simp only [hb, Bool.false_eq_true, if_false] at h
      cases stmt with
      | select s =>
        simp only at h
        split at h
        · rename_i f hfp hf
          split at h
          · cases h
          · rename_i hsup
            simp only [Option.some.injEq] at h
            subst h
            have hnone : f.fields.mapM (aggrField (Ctx.new cache)) = none := by
              simpa [aggrFieldsSupported] using hsup
            simp [runStmt, hb, hfp, hf, runAggrSelect, hnone, rejected]
        · cases h
      | put _ _ => cases h
      | remove _ _ => cases h
      | delete _ _ _ _ => cases h
  | err e => rw [hp] at h; cases h
  | panic site => rw [hp] at h; cases h
  | outOfFuel => rw [hp] at h; cases h
  | unsupported w' =>
    rw [hp] at h
    simp only [unsupportedStatic, Option.some.injEq] at h
    subst h
    rfl

/-- where `planStage` itself gives up: `Parse` (a call of a computed callee), `buildFinalPlan` (a select field
    with root `&` / `|` that contains an aggregate call: folding may drop it), or an aggregate constructor
    (`quantile` percent / `group_concat` separator that is evaluated when the plan is built) -/
theorem plan_stage_unsupported_cases (toks : Toks) (pf : Bytes → F64) (w : String)
    (h : planStage pf toks = .unsupported w) :
    (Parse pf toks = .unsupported w ∧ w = "call of a computed callee") ∨
    ∃ s, Parse pf toks = .ok (.select s) ∧
      (finalPlanCheck s = .unsupported w ∨ (finalPlanCheck s = .ok true ∧ PlanCheck.aggrInit s.fields = .unsupported w)) := by
  unfold planStage PlanCheck.frontStage at h
  cases hp : Parse pf toks with
  | ok stmt =>
    rw [hp] at h
    simp only [Res.bind_ok] at h
    cases hc : PlanCheck.checkStmtCalls stmt with
    | ok u =>
      rw [hc] at h
      simp only [Res.bind_ok, Res.pure_eq] at h
      cases stmt with
      | select s =>
        right
        refine ⟨s, rfl, ?_⟩
        simp only [PlanCheck.buildStage] at h
        cases hfp : finalPlanCheck s with
        | ok b =>
          rw [hfp] at h
          simp only [Res.bind_ok] at h
          cases b with
          | true =>
            simp only [if_true] at h
            cases hai : PlanCheck.aggrInit s.fields with
            | unsupported w' => rw [hai] at h; simp at h; subst h; exact .inr ⟨rfl, rfl⟩
            | ok _ => rw [hai] at h; simp at h
            | err _ => rw [hai] at h; simp at h
            | panic _ => rw [hai] at h; simp at h
            | outOfFuel => rw [hai] at h; simp at h
          | false => simp at h
        | unsupported w' => rw [hfp] at h; simp at h; subst h; exact .inl rfl
        | err _ => rw [hfp] at h; simp at h
        | panic _ => rw [hfp] at h; simp at h
        | outOfFuel => rw [hfp] at h; simp at h
      | put _ _ => simp [PlanCheck.buildStage] at h
      | remove _ _ => simp [PlanCheck.buildStage] at h
      | delete _ _ _ _ => simp [PlanCheck.buildStage] at h
    | unsupported w' =>
      -- the function-call validation never gives up
      exact absurd hc (checkStmtCalls_noUnsup stmt w')
    | err _ => rw [hc] at h; simp at h
    | panic _ => rw [hc] at h; simp at h
    | outOfFuel => rw [hc] at h; simp at h
  | unsupported w' => rw [hp] at h; simp at h; subst h; exact .inl ⟨rfl, parse_unsupported_site toks _ hp⟩
  | err _ => rw [hp] at h; simp at h
  | panic _ => rw [hp] at h; simp at h
  | outOfFuel => rw [hp] at h; simp at h

/-! ### the sortedness hypothesis is necessary in the model -/

def pf0 : Bytes → F64 := fun _ => F64.zero

/-- the statement `select key where int(value) > 2` as `planStage` and `foldSelect` leave it -/
def glueW : Expr := .binop 20 .gt (.call 11 (.name 11 [105, 110, 116]) [.field 15 .value]) (.num 24 [50] 2)
def glueS : SelectS :=
  { pos := 0, allFields := false, fields := [.field 7 .key], fieldNames := [[75, 69, 89]],
    fieldTypes := [Generated.tyTSTR], wherePos := 11, where_ := glueW, order := none, groupBy := none, limit := none }
def glueF : FoldedSelect := { where_ := glueW, fields := [.field 7 .key], nodes := [.field 7 .key] }

/-- ON A STORE WITH A REPEATED KEY (not a `Storage.Store` in the sense of the model: "strictly ascending by key")
    the composition answers `glue`: its verdict tables are keyed by key, so the second pair `a=5` is judged by the
    verdict of the first, `a=1`.  An artefact of `Run.projTrace`, not of kvql; `#eval` of
    `runQuery "select key where int(value) > 2"` on the same store gives the same outcome.  (Kernel evaluation of
    the plan of the folded statement.) -/
theorem unsorted_store_glue :
    (runPlainSelect glueS glueF [([97], [49]), ([97], [53])] .next 2 true).fail =
      some (Fail.glue "scan ends before the projection") := by
  decide +kernel

/-! ### non-vacuity: every hypothesis of every theorem above is satisfiable -/

/-- the kind of statement `planStage` makes of a text: 1 PUT, 2 REMOVE, 3 DELETE, 4 aggregated SELECT,
    5 `select *` / bare `where`, 6 SELECT with a field list, 7 rejected with an error value -/
def stmtKind (r : Res Stmt) : Nat :=
  match r with
  | .ok (.put ..) => 1
  | .ok (.remove ..) => 2
  | .ok (.delete ..) => 3
  | .ok (.select s) =>
    (match finalPlanCheck s with
     | .ok true => 4
     | .ok false => if s.allFields then 5 else 6
     | _ => 0)
  | .err _ => 7
  | _ => 0

theorem kind_put {r : Res Stmt} (h : stmtKind r = 1) : ∃ pos pairs, r = .ok (.put pos pairs) := by
  unfold stmtKind at h
  split at h
  · exact ⟨_, _, rfl⟩
  all_goals first | (simp at h; done) | ((repeat' split at h) <;> simp at h)

theorem kind_remove {r : Res Stmt} (h : stmtKind r = 2) : ∃ pos keys, r = .ok (.remove pos keys) := by
  unfold stmtKind at h
  split at h
  · simp at h
  · exact ⟨_, _, rfl⟩
  all_goals first | (simp at h; done) | ((repeat' split at h) <;> simp at h)

theorem kind_delete {r : Res Stmt} (h : stmtKind r = 3) : ∃ pos wpos w lim, r = .ok (.delete pos wpos w lim) := by
  unfold stmtKind at h
  split at h
  · simp at h
  · simp at h
  · exact ⟨_, _, _, _, rfl⟩
  all_goals first | (simp at h; done) | ((repeat' split at h) <;> simp at h)

theorem kind_select {r : Res Stmt} {k : Nat} (h : stmtKind r = k) (hk : k = 4 ∨ k = 5 ∨ k = 6) :
    ∃ s, r = .ok (.select s) ∧
      (k = 4 → finalPlanCheck s = .ok true) ∧
      (k = 5 → finalPlanCheck s = .ok false ∧ s.allFields = true) ∧
      (k = 6 → finalPlanCheck s = .ok false ∧ s.allFields = false) := by
  unfold stmtKind at h
  split at h
  · omega
  · omega
  · omega
  · rename_i s
    refine ⟨s, rfl, ?_⟩
    split at h
    · rename_i hfp
      exact ⟨fun _ => hfp, fun h5 => by omega, fun h6 => by omega⟩
    · rename_i hfp
      split at h
      · rename_i hall
        exact ⟨fun h4 => by omega, fun _ => ⟨hfp, hall⟩, fun h6 => by omega⟩
      · rename_i hall
        exact ⟨fun h4 => by omega, fun h5 => by omega, fun _ => ⟨hfp, by simpa using hall⟩⟩
    · omega
  · omega
  · omega

theorem kind_rejected {r : Res Stmt} (h : stmtKind r = 7) : Rejects r := by
  intro a ha
  subst ha
  unfold stmtKind at h
  cases a <;> simp at h
  rename_i s
  repeat' split at h
  all_goals simp at h

def qPut : Bytes := asciiBytes "put ('k' + '1', upper('v')), ('k2', key)"
def qRemove : Bytes := asciiBytes "remove 'a', 'b' + 'c'"
def qDelete : Bytes := asciiBytes "delete where key > 'a' & int(value) > 2 limit 1"
def qStar : Bytes := asciiBytes "select * where key > 'a' & int(value) / int(value) > 0 order by key desc limit 1, 2"
def qFields : Bytes := asciiBytes "select key, int(value) as n, n + 1 as m where m > 2 & key > '' order by m desc limit 2"
def qAggr : Bytes := asciiBytes "select key, count(1), sum(int(value)) * 2 as s where key > '' group by key order by s limit 2"
def qBad : Bytes := asciiBytes "select upper(u) as u where key = 'a'"

theorem kind_qPut : stmtKind (planStage pf0 (Lexer.split qPut)) = 1 := by decide +kernel
theorem kind_qRemove : stmtKind (planStage pf0 (Lexer.split qRemove)) = 2 := by decide +kernel
theorem kind_qDelete : stmtKind (planStage pf0 (Lexer.split qDelete)) = 3 := by decide +kernel
theorem kind_qAggr : stmtKind (planStage pf0 (Lexer.split qAggr)) = 4 := by decide +kernel
theorem kind_qStar : stmtKind (planStage pf0 (Lexer.split qStar)) = 5 := by decide +kernel
theorem kind_qFields : stmtKind (planStage pf0 (Lexer.split qFields)) = 6 := by decide +kernel
theorem kind_qBad : stmtKind (planStage pf0 (Lexer.split qBad)) = 7 := by decide +kernel

/-- PUT: the hypothesis of `run_put_never_panics` holds for `qPut` -/
example : ∃ pos pairs, planStage pf0 (Lexer.split qPut) = .ok (.put pos pairs) := kind_put kind_qPut

/-- REMOVE -/
example : ∃ pos keys, planStage pf0 (Lexer.split qRemove) = .ok (.remove pos keys) := kind_remove kind_qRemove

/-- DELETE with LIMIT -/
example : ∃ pos wpos w lim, planStage pf0 (Lexer.split qDelete) = .ok (.delete pos wpos w lim) :=
  kind_delete kind_qDelete

/-- `select *` with ORDER BY and LIMIT, whose filter FAILS on a value `0` ("Divide by zero"): the hypotheses of
    `run_select_star_never_panics` hold, on any store -/
example : ∃ s, planStage pf0 (Lexer.split qStar) = .ok (.select s) ∧ s.allFields = true ∧
    finalPlanCheck s = .ok false :=
  let ⟨s, h1, _, h5, _⟩ := kind_select kind_qStar (.inr (.inl rfl))
  ⟨s, h1, (h5 rfl).2, (h5 rfl).1⟩

/-- SELECT with a field list, forward alias references, ORDER BY, LIMIT: the hypotheses of
    `run_select_fields_never_panics` hold (the example store is sorted) -/
example : (∃ s, planStage pf0 (Lexer.split qFields) = .ok (.select s) ∧ finalPlanCheck s = .ok false) ∧
    Kvql.Properties.E2EFields.st0.Sorted :=
  let ⟨s, h1, _, _, h6⟩ := kind_select kind_qFields (.inr (.inr rfl))
  ⟨⟨s, h1, (h6 rfl).1⟩, Kvql.Properties.E2EFields.st0_sorted⟩

/-- aggregated SELECT with GROUP BY, arithmetic over an aggregate, ORDER BY, LIMIT: the hypotheses of
    `run_aggregate_never_panics` hold -/
example : ∃ s, planStage pf0 (Lexer.split qAggr) = .ok (.select s) ∧ finalPlanCheck s = .ok true :=
  let ⟨s, h1, h4, _, _⟩ := kind_select kind_qAggr (.inl rfl)
  ⟨s, h1, h4 rfl⟩

/-- a rejected text (an alias defined in terms of itself — the statement whose evaluation recursed until the Go
    runtime aborted the process): `run_rejected_never_panics` applies; it is answered with a `*SyntaxError` -/
example (store : Store) (kind : PollKind) (bs : Nat) (cache : Bool) :
    (∃ e, (runQuery qBad pf0 store kind bs cache).fail = some (Fail.plan e)) ∨
    (∃ w, (runQuery qBad pf0 store kind bs cache).fail = some (Fail.unsupported w)) :=
  run_rejected_never_panics qBad pf0 store kind bs cache (kind_rejected kind_qBad)

/-- BATCH mode with the cache ON, a statement with an alias reference in the WHERE (`select key as k, value where
    k > 'a'` of E2EFields), on the sorted example store: no crash -/
example : Graceful (runQuery Kvql.Properties.E2EFields.qK pf0 Kvql.Properties.E2EFields.st0 .batch 2 true) :=
  run_never_panics _ _ _ Kvql.Properties.E2EFields.st0_sorted _ _ _

/-- (3): `PlanBatchSize = 0` is a static cause -/
example (store : Store) (kind : PollKind) (cache : Bool) :
    (runQuery qPut pf0 store kind 0 cache).fail = some (Fail.unsupported "PlanBatchSize = 0") := by
  apply run_unsupported_static
  obtain ⟨pos, pairs, hp⟩ := kind_put kind_qPut
  rw [hp]
  rfl

/-! #### the component theorems of (0) -/

/-- a table with a forward reference and a chain — `n + 1 as m, int(value) as n` — and the tree `m` -/
def exTbl : Tbl :=
  [([109], .binop 9 .add (.ref 7 [110] (.call 20 (.name 20 [105, 110, 116]) [.field 24 .value])) (.num 11 [49] 1)),
   ([110], .call 20 (.name 20 [105, 110, 116]) [.field 24 .value])]

theorem exTbl_acyclic : Acyclic exTbl := by
  refine ⟨fun i => 2 - i, ?_⟩
  rintro a b ⟨nm, e, hget, hmem⟩
  match a, hget with
  | 0, hget =>
    simp only [exTbl, List.getElem?_cons_zero, Option.some.injEq, Prod.mk.injEq] at hget
    obtain ⟨_, rfl⟩ := hget
    have : b = 1 := by
      simpa [Expr.refIdx, Expr.refIdx.refIdxList, exTbl, Tbl.find, Tbl.find.go] using hmem
    subst this
    decide
  | 1, hget =>
    simp only [exTbl, List.getElem?_cons_succ, List.getElem?_cons_zero, Option.some.injEq, Prod.mk.injEq] at hget
    obtain ⟨_, rfl⟩ := hget
    simp [Expr.refIdx, Expr.refIdx.refIdxList] at hmem
  | n + 2, hget => simp [exTbl] at hget

/-- every hypothesis of `rtFuel_sufficient` holds for `exTbl` and a reference to `m` -/
example : ∃ t, rtF exTbl (rtFuel exTbl (.ref 30 [109] (.num 0 [] 0))) (.ref 30 [109] (.num 0 [] 0)) = some t := by
  refine rtFuel_sufficient exTbl_acyclic ?_ (by decide) (by decide)
  intro j nm f hj
  match j, hj with
  | 0, hj =>
    simp only [exTbl, List.getElem?_cons_zero, Option.some.injEq, Prod.mk.injEq] at hj
    obtain ⟨_, rfl⟩ := hj
    exact ⟨by decide, by decide⟩
  | 1, hj =>
    simp only [exTbl, List.getElem?_cons_succ, List.getElem?_cons_zero, Option.some.injEq, Prod.mk.injEq] at hj
    obtain ⟨_, rfl⟩ := hj
    exact ⟨by decide, by decide⟩
  | n + 2, hj => simp [exTbl] at hj

/-- `cycle_search_complete`: the search from `n` (field 1) for `m` (field 0) answers "no" -/
example : ¬ Reach exTbl 1 0 := cycle_search_complete (by decide) (by decide)

/-- `batch_evaluator_never_panics`: a fresh context with the cache ON satisfies `ColsLen` -/
example (chunk : List Pair) (hne : chunk ≠ []) :
    ColsLen (execBatch (.field 0 .key) chunk (Ctx.new true)).2 chunk.length :=
  (batch_evaluator_never_panics (.field 0 .key) rfl chunk (Ctx.new true) (fun _ => hne) (colsLen_new true _)).2.1

/-- `plan_layer_total`: the hypothesis `EvalOnly` holds for every statement whose tables are built by the
    end-to-end model, e.g. a scan with a verdict table -/
example (node : ScanNode) (v : Verdicts) : EvalOnly (.select node (filterOfV v)) :=
  fun p e he => filterOfV_evalOnly v p e he

/-- `run_never_panics_any_store`: its hypothesis holds for the aggregated and the `select *` example -/
example : isFieldSelect (planStage pf0 (Lexer.split qAggr)) = false ∧
    isFieldSelect (planStage pf0 (Lexer.split qStar)) = false := by
  constructor <;> decide +kernel

end Kvql.Properties.E2ENoPanic
