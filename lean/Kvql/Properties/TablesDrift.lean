/-
  Drift detector for the function tables (NOT a proof obligation of any property; DESIGN.md §14.8).

  `Kvql.Generated.funcTable` / `aggrTable` hold the entries of func.go whose names the models implement
  (extract/known_funcs.txt); every theorem about "all functions" quantifies over them, regenerated on
  every run, so a change of arity, flags, return type or body of a known function reaches the theorems.
  A function ADDED to the library has no model: statements that call it are outside what is modelled.
  It is listed in `funcTableExtra` / `aggrTableExtra`; when either is non-empty this module stops
  building and `check` runs the enlarged search of the property (C06, C10, C14) — a violation is reported
  only for a concrete failing input.
-/
import Kvql.Generated.Tables

namespace Kvql.Properties.TablesDrift
open Kvql.Generated

theorem function_tables_known : funcTableExtra = [] ∧ aggrTableExtra = [] := by decide

end Kvql.Properties.TablesDrift
