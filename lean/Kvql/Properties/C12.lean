/-
  C12  PUT and REMOVE apply exactly the stated writes, once, all-or-nothing.

  Model: `Kvql.Plans.PutPlan.execute` / `RemovePlan.execute`, the `executed` flag in
  `Plan.poll`, `buildPlan` (Kvql/Model/Plans.lean) over the storage machine of
  Kvql/Model/Storage.lean.  The model is parametric in evaluation: a PUT pair is the result of
  its key expression and — as a function of the evaluated key — of its value expression
  (`PutPair`); a REMOVE key is the result of its expression.  Tie to the code: groups PLAN and
  POLL (every poll's result, the complete call log and the final store compared with the model,
  the tables being computed by the real evaluator), and the harness' own oracle for the effect.
-/
import Kvql.Proofs.PlanProofsWrite

namespace Kvql.Properties.C12

open Kvql Kvql.Storage Kvql.Plans Kvql.Proofs.Plan Kvql.Proofs.Store

/-- PUT, effect: if every expression evaluates (to the pairs `kvps`, in order), a complete run
    (either mode, any batch size, any store) hands out the row `[n]`, issues exactly one call —
    `Put` for one pair, `BatchPut` for several, none for no pair — and leaves the prior store
    overwritten in order by the evaluated pairs. -/
theorem put_effect {pairs : List PutPair} {kvps : List Pair} (h : evalPairs pairs = .ok kvps)
    (kind : PollKind) (bs : Nat) (store : Store) :
    run (.put pairs) kind bs none store =
      (⟨.ok, [[.count kvps.length]]⟩,
        { store := store.insertMany kvps, log := (putCall kvps).map (⟨·, false⟩) }) :=
  run_put_ok h kind bs store

/-- … as a map: after the PUT a key holds the value of the LAST pair that names it, every other key
    holds what it held before; and the store stays strictly ordered. -/
theorem put_effect_map (store : Store) (kvps : List Pair) (k : Bytes) :
    (store.insertMany kvps).lookup k =
      (match lastWrite kvps k with
       | some v => some v
       | none => store.lookup k) :=
  lookup_insertMany store kvps k

theorem put_keeps_order {store : Store} (hs : store.Sorted) (kvps : List Pair) :
    (store.insertMany kvps).Sorted := sorted_insertMany hs kvps

/-- each value expression sees its own pair's evaluated key: the pairs written are, position by
    position, (result of the key expression, result of the value expression ON THAT KEY) -/
theorem put_value_sees_own_key {pairs : List PutPair} {kvps : List Pair} (h : evalPairs pairs = .ok kvps) :
    Forall2 (fun p kv => p.key = .ok kv.1 ∧ p.value kv.1 = .ok kv.2) pairs kvps :=
  evalPairs_forall2 pairs kvps h

/-- non-vacuity: `put ('b', 'x'), ('a', upper(key)), ('b', key + '!')` with the value functions
    standing for `upper(key)` and `key + '!'` -/
example :
    let pairs : List PutPair := [⟨.ok [98], fun _ => .ok [120]⟩, ⟨.ok [97], fun k => .ok (toUpper k)⟩,
      ⟨.ok [98], fun k => .ok (k ++ [33])⟩]
    evalPairs pairs = .ok [([98], [120]), ([97], [65]), ([98], [98, 33])] ∧
    (run (.put pairs) .next 2 none [([98], [0])]).2.store = [([97], [65]), ([98], [98, 33])] := by
  intro pairs; exact ⟨rfl, by decide⟩

/-- REMOVE, effect: if every key expression evaluates (to `ks`), a complete run hands out `[n]`,
    issues exactly one call (`Delete` for one key, `BatchDelete` for several) and leaves the prior
    store minus those keys. -/
theorem remove_effect {keys : List (Except Err Bytes)} {ks : List Bytes} (h : evalKeys keys = .ok ks)
    (kind : PollKind) (bs : Nat) (store : Store) :
    run (.remove keys) kind bs none store =
      (⟨.ok, [[.count ks.length]]⟩,
        { store := store.eraseMany ks, log := (removeCall ks).map (⟨·, false⟩) }) :=
  run_remove_ok h kind bs store

/-- … as a map and as a list: exactly the pairs whose key is not among `ks` remain, unchanged -/
theorem remove_effect_map (store : Store) (ks : List Bytes) (k : Bytes) :
    (store.eraseMany ks).lookup k = if k ∈ ks then none else store.lookup k :=
  lookup_eraseMany store ks k

theorem remove_effect_list (store : Store) (ks : List Bytes) :
    store.eraseMany ks = store.filter (fun p => p.1 ∉ ks) := eraseMany_eq_filter store ks

example : evalKeys [.ok [97], .ok [99]] = .ok [[97], [99]] ∧
    (run (.remove [.ok [97], .ok [99]]) .batch 1 none [([97], [1]), ([98], [2])]).2.store = [([98], [2])] :=
  ⟨rfl, by decide⟩

/-- EXACTLY ONCE: for a PUT, REMOVE or DELETE plan in any state, any fault index, any batch size:
    however the plan is polled after its first poll (any sequence of Next/Batch), the store and the
    call log stay exactly what the first poll left — no write is issued again — and every later
    poll hands out nothing. -/
theorem exactly_once (plan : Plan) (hw : Plan.isWrite plan = true) (bs : Nat) (f : Option Nat)
    (k : PollKind) (ks : List PollKind) (w : World) :
    pollSeq bs f (k :: ks) plan w [] =
      ([((plan.poll k bs f w).1.rows, (plan.poll k bs f w).1.err)] ++ ks.map (fun _ => ([], none)),
        (plan.poll k bs f w).2) :=
  pollSeq_after_first bs f k ks plan hw w

example : Plan.isWrite (.put [⟨.ok [97], fun _ => .ok [120]⟩] false) = true ∧
    (pollSeq 2 none [.next, .batch, .next] (.put [⟨.ok [97], fun _ => .ok [120]⟩] false) { store := [] } []).2.log.length = 1 := by
  decide

/-- ALL OR NOTHING (PUT): if any key expression fails, or any value expression fails on its own
    key, the run returns the error and issues no storage call at all; the store is untouched.
    Holds in either mode, for any batch size and any fault index. -/
theorem all_or_nothing {pairs : List PutPair} (hf : ∃ p ∈ pairs, PairFails p)
    (kind : PollKind) (bs : Nat) (f : Option Nat) (store : Store) :
    ∃ e, run (.put pairs) kind bs f store = (⟨.execErr e, [[.count 0]]⟩, { store := store, log := [] }) := by
  obtain ⟨e, he⟩ := evalPairs_error_of_fails pairs hf
  exact ⟨e, run_put_error he kind bs f store⟩

/-- ALL OR NOTHING (REMOVE) -/
theorem all_or_nothing_remove {keys : List (Except Err Bytes)} (hf : ∃ e, .error e ∈ keys)
    (kind : PollKind) (bs : Nat) (f : Option Nat) (store : Store) :
    ∃ e, run (.remove keys) kind bs f store = (⟨.execErr e, [[.count 0]]⟩, { store := store, log := [] }) := by
  obtain ⟨e, he⟩ := evalKeys_error_of_fails keys hf
  exact ⟨e, run_remove_error he kind bs f store⟩

example : ∃ p ∈ [(⟨.ok [97], fun _ => .ok [120]⟩ : PutPair), ⟨.ok [98], fun _ => .error .eval⟩], PairFails p :=
  ⟨_, List.mem_cons_of_mem _ (List.mem_cons_self), .inr ⟨[98], .eval, rfl, rfl⟩⟩

/-- PUT THEN GET: after the PUT, `Get k` returns the value of the last pair naming `k` … -/
theorem put_then_get (store : Store) (kvps : List Pair) (k v : Bytes) (h : lastWrite kvps k = some v)
    (log : List Entry) :
    (Storage.get k none { store := store.insertMany kvps, log := log }).1 = .ok (some v) := by
  simp [Storage.get, run_call_none, lookup_insertMany, h]

/-- … and the statement `select * where key = k` (a MultiGet of `k` with a filter that accepts the
    pair) returns exactly that pair, in both modes. -/
theorem put_then_select (store : Store) (kvps : List Pair) (k v : Bytes) (h : lastWrite kvps k = some v)
    (filter : Filter) (hfil : filter (k, v) = .ok true) (kind : PollKind) (bs : Nat) (hbs : 1 ≤ bs) :
    (run (.select (.mget [k]) filter) kind bs none (store.insertMany kvps)).1 = ⟨.ok, [[.pair (k, v)]]⟩ := by
  have hl : (store.insertMany kvps).lookup k = some v := by rw [lookup_insertMany, h]
  cases kind with
  | next =>
    simp [run, runG, buildPlan, buildPlan1, Plan.init, ScanNode.init, ScanNode.newState,
      drain, Plan.poll, ScanNode.next, mgetNext, Storage.get, run_call_none, hl, hfil]
  | batch =>
    match bs, hbs with
    | 1, _ =>
      simp [run, runG, buildPlan, buildPlan1, Plan.init, ScanNode.init, ScanNode.newState,
        drain, Plan.poll, ScanNode.batch, mgetBatchLoop, mgetReadChunk, filterChunk, selectMatches,
        Storage.get, run_call_none, hl, hfil]
    | n + 2, _ =>
      simp [run, runG, buildPlan, buildPlan1, Plan.init, ScanNode.init, ScanNode.newState,
        drain, Plan.poll, ScanNode.batch, mgetBatchLoop, mgetReadChunk, filterChunk, selectMatches,
        Storage.get, run_call_none, hl, hfil]

example : lastWrite [([98], [120]), ([97], [65]), ([98], [98, 33])] [98] = some [98, 33] := by decide

end Kvql.Properties.C12
