/-
  C17  Reported error positions lie inside the query and render with an aligned caret.

  Part 2 (rendering) is proved here in full over the model of errors.go
  (`Kvql.Errors.render`, tied to the Go code by the ERRFMT correspondence and by the
  regenerated window constants).  Part 1 (every position produced by the parser/checker is
  0, -1 or a token start) is stated over the parser model in `C17_positions` (see C15/C17
  parser section) — until that is proved it is listed as partial in C17.theorems and is
  decided only by the PARSE spec differential.
-/
import Kvql.Proofs.ErrRender

namespace Kvql.Properties.C17

open Kvql Kvql.Errors Kvql.Proofs.ErrRender

/-- The caret is under the character at the reported offset `p` of the bound query, for
    queries of any length and with any leading or trailing white space, for every padding.
    (`adjust` spaces are what the caller prints in front of the query line.) -/
theorem caret_under_offset (q : Bytes) (p adjust : Nat)
    (h1 : leadBlanks q ≤ p) (h2 : p < leadBlanks q + (trimSpace q).length) :
    let r := render q (some p) adjust
    adjust ≤ r.caret ∧ r.line1[r.caret - adjust]? = q[p]? :=
  render_caret_aligned q p adjust h1 h2

/-- non-vacuity: a query with 3 leading blanks, 90 bytes of text, trailing blanks, offset 50 -/
example : let q : Bytes := List.replicate 3 32 ++ List.replicate 90 65 ++ [32, 9]
    leadBlanks q ≤ 50 ∧ 50 < leadBlanks q + (trimSpace q).length := by decide

/-- For `-1` (end of input) the caret is one past the last character shown. -/
theorem caret_at_end (q : Bytes) (adjust : Nat) :
    let r := render q none adjust
    adjust ≤ r.caret ∧ r.caret - adjust = r.line1.length :=
  render_caret_end q adjust

/-- The rendered line is a stretch of the query, optionally decorated with `... ` / ` ...`. -/
theorem line_is_stretch_of_query (q : Bytes) (pos : Option Nat) (adjust : Nat) :
    ∃ a n pre suf, (render q pos adjust).line1 = pre ++ (q.drop a).take n ++ suf ∧
      (pre = [] ∨ pre = Bytes.ofString "... ") ∧ (suf = [] ∨ suf = Bytes.ofString " ...") ∧
      a + n ≤ q.length :=
  render_window_in_query q pos adjust

/-- The Go slice expression `tquery[trim : trim+restLen]` of the windowed branch is always in
    range (no panic while rendering; feeds C06). -/
theorem window_slice_in_range (q : Bytes) (pos : Option Nat)
    (h1 : (trimSpace q).length > winLen) (h2 : pos0 q pos > winLeft) :
    pos0 q pos - winLeft ≤ (trimSpace q).length ∧
    (pos0 q pos - winLeft) + min ((trimSpace q).length - (pos0 q pos - winLeft)) winLen
      ≤ (trimSpace q).length :=
  render_slices_in_range q pos h1 h2

/-- the window constants the proofs use are the ones in the Go source today -/
theorem window_constants : winLen = 70 ∧ winLeft = 35 := ⟨winLen_eq, winLeft_eq⟩

end Kvql.Properties.C17
