/-
  C17  Reported error positions lie inside the query and render with an aligned caret.

  Part 2 (rendering) is proved here in full over the model of errors.go
  (`Kvql.Errors.render`, tied to the Go code by the ERRFMT correspondence and by the
  regenerated window constants).  Part 1 (every position produced by the parser/checker is
  0, -1 or a token start) is `parse_err_pos` / `parse_err_pos_inside` below, proved over the
  model of parser.go + checker.go + statement.go (`Kvql.Parser.Parse`, tied to the Go code by
  the PARSE correspondence) through the invariant "every `Pos` stored in a produced node is 0
  or a token position" (Proofs/ParserPos*.lean).
-/
import Kvql.Proofs.ErrRender
import Kvql.Proofs.ParserPosStmt
import Kvql.Proofs.LexRefine
import Kvql.Proofs.LexSpec

namespace Kvql.Properties.C17

open Kvql Kvql.Errors Kvql.Proofs.ErrRender

/-- The caret is under the character at the reported offset `p` of the bound query, for
    queries of any length and with any leading or trailing white space, for every padding.
    (`adjust` spaces are what the caller prints in front of the query line.) -/
theorem caret_under_offset (q : Bytes) (p adjust : Nat)
    (h1 : leadBlanks q ≤ p) (h2 : p < leadBlanks q + (trimSpace q).length) :
    let r := render q (some p) adjust
    adjust ≤ r.caret ∧ r.line1[r.caret - adjust]? = q[p]? :=
  render_caret_aligned q p adjust h1 h2

/-- non-vacuity: a query with 3 leading blanks, 90 bytes of text, trailing blanks, offset 50 -/
example : let q : Bytes := List.replicate 3 32 ++ List.replicate 90 65 ++ [32, 9]
    leadBlanks q ≤ 50 ∧ 50 < leadBlanks q + (trimSpace q).length := by decide

/-- For `-1` (end of input) the caret is one past the last character shown. -/
theorem caret_at_end (q : Bytes) (adjust : Nat) :
    let r := render q none adjust
    adjust ≤ r.caret ∧ r.caret - adjust = r.line1.length :=
  render_caret_end q adjust

/-- The rendered line is a stretch of the query, optionally decorated with `... ` / ` ...`. -/
theorem line_is_stretch_of_query (q : Bytes) (pos : Option Nat) (adjust : Nat) :
    ∃ a n pre suf, (render q pos adjust).line1 = pre ++ (q.drop a).take n ++ suf ∧
      (pre = [] ∨ pre = Bytes.ofString "... ") ∧ (suf = [] ∨ suf = Bytes.ofString " ...") ∧
      a + n ≤ q.length :=
  render_window_in_query q pos adjust

/-- The Go slice expression `tquery[trim : trim+restLen]` of the windowed branch is always in
    range (no panic while rendering; feeds C06). -/
theorem window_slice_in_range (q : Bytes) (pos : Option Nat)
    (h1 : (trimSpace q).length > winLen) (h2 : pos0 q pos > winLeft) :
    pos0 q pos - winLeft ≤ (trimSpace q).length ∧
    (pos0 q pos - winLeft) + min ((trimSpace q).length - (pos0 q pos - winLeft)) winLen
      ≤ (trimSpace q).length :=
  render_slices_in_range q pos h1 h2

/-- the window constants the proofs use are the ones in the Go source today -/
theorem window_constants : winLen = 70 ∧ winLeft = 35 := ⟨winLen_eq, winLeft_eq⟩

/-! ### Part 1: positions of parse-time errors -/

/-- the positions a parse-time error of query `q` may carry: `-1` (`none`), `0`, or the offset
    of one of the tokens of `q` -/
def ErrPosOK (q : Bytes) : PErr → Prop
  | .syntax none => True
  | .syntax (some p) => p = 0 ∨ ∃ t ∈ Lexer.split q, t.pos = p
  | .cycle p => p = 0 ∨ ∃ t ∈ Lexer.split q, t.pos = p
  | .nest => True

/-- Every error returned while parsing and type-checking `q` (parser.go, checker.go,
    statement.go validators) carries -1, 0 or the start of one of the query's tokens — for
    every query text and every value of `strconv.ParseFloat` (`pf`). -/
theorem parse_err_pos (pf : Bytes → F64) (q : Bytes) (e : PErr)
    (h : Parser.Parse pf (Lexer.split q) = .err e) : ErrPosOK q e := by
  have := Proofs.ParserPos.parse_err_pos pf (Lexer.split q) e h
  cases e with
  | «syntax» p => cases p <;> simpa [ErrPosOK] using this
  | cycle p => simpa [ErrPosOK] using this
  | nest => trivial

/-- … and such a token start lies inside the query text (with C16: a token's offset is the
    offset of its first byte) -/
theorem parse_err_pos_inside (pf : Bytes → F64) (q : Bytes) (p : Nat)
    (h : Parser.Parse pf (Lexer.split q) = .err (.syntax (some p))) : p = 0 ∨ p < q.length := by
  rcases parse_err_pos pf q _ h with h0 | ⟨t, ht, hp⟩
  · exact Or.inl h0
  · right
    rw [Proofs.LexRefine.split_eq_spec] at ht
    rcases Proofs.LexSpec.spec_tokens_ok q t ht with ⟨qc, _, hq, _⟩ | ⟨hne, hlen, _⟩
    · have : t.pos < q.length := by
        rcases Nat.lt_or_ge t.pos q.length with h1 | h1
        · exact h1
        · rw [List.getElem?_eq_none h1] at hq; cases hq
      omega
    · have : 0 < t.data.length := List.length_pos_iff.mpr hne
      omega

/-- the error of a result, if it is one -/
def errOf {α : Type} : Res α → Option PErr
  | .err e => some e
  | _ => none

/-- some value of `strconv.ParseFloat` for the examples (they contain no FLOAT token) -/
def pf0 : Bytes → F64 := fun _ => ⟨0⟩

/-- non-vacuity: `select * where key = 'a' limit x` is rejected at offset 31, the start of the
    token `x` -/
example : errOf (Parser.Parse pf0
    (Lexer.split (Bytes.ofAscii "select * where key = 'a' limit x"))) = some (.syntax (some 31)) := by
  decide +kernel

end Kvql.Properties.C17
