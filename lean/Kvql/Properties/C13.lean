/-
  C13  SELECT is read-only; storage errors surface and stop the statement.

  Model: Kvql/Model/Storage.lean (the storage machine with call log and fault injection) and
  Kvql/Model/Plans.lean (scan plans, `select *` projection, LimitPlan, DeletePlan, PutPlan,
  RemovePlan, BuildPlan with its double Init).  `run stmt kind bs f store` builds the plan of the
  statement on `store` and polls it (`kind` = Next or Batch, `bs` = PlanBatchSize) until a poll
  returns nothing or fails; `f` is the index of the storage call that fails (`none`: no fault).
  Tie to the code: correspondence groups PLAN / FAULT / POLL (rows, outcome, complete call log and
  final store compared for every statement, store, mode, batch size and EVERY fault index).

  "A statement rejected at parse or plan time issues no storage call" is not a theorem of this
  file: rejection happens in the parser/checker, before any plan exists (see C14); the model's
  `buildPlan` starts from an accepted statement.  It is judged by the PLAN group's oracle.
-/
import Kvql.Proofs.PlanProofsSelect
import Kvql.Proofs.PlanProofsFault
import Kvql.Generated.Inventory

namespace Kvql.Properties.C13

open Kvql Kvql.Storage Kvql.Plans Kvql.Proofs.Plan

/-- SELECT is read-only: whatever the scan node, filter (failing or not), store, iteration mode,
    batch size and injected fault, every call the statement issues is a read (`Get`, `Cursor`,
    `Seek`, `Next`) and the store is left as it was. -/
theorem select_read_only (node : ScanNode) (filter : Filter) (kind : PollKind) (bs : Nat)
    (f : Option Nat) (store : Store) :
    (∀ e ∈ (run (.select node filter) kind bs f store).2.log, e.call.isRead = true) ∧
    (run (.select node filter) kind bs f store).2.store = store := by
  obtain ⟨ext, hl, hp, hs⟩ := (em_runSelect allowsReads_isRead node filter kind bs).out f { store := store }
  simp only [run]
  refine ⟨?_, ?_⟩
  · intro e he
    rw [hl] at he
    simp only [List.nil_append] at he
    exact hp e he
  · exact hs hp

/-- non-vacuity: a select over three pairs issues seven read calls -/
example : (run (.select (.prefix [97]) (fun _ => .ok true)) .batch 2 none
    [([97], [1]), ([97, 98], [2]), ([98], [3])]).2.log.length = 7 := by decide

/-- A storage fault SURFACES and STOPS the statement: for every statement (select over any scan
    node; delete by scan, by limited scan or by direct removal; put; remove), both modes, every
    batch size, every store, and every index `i` of a call of the fault-free run: with the fault
    injected at call `i` the run reports exactly that fault (from `BuildPlan` or from the poll) and
    call `i` is the last call issued. -/
theorem fault_propagates (stmt : Stmt) (kind : PollKind) (bs : Nat) (store : Store) (i : Nat)
    (hi : i < (run stmt kind bs none store).2.log.length) :
    ((run stmt kind bs (some i) store).1.outcome = .planErr (.storage i) ∨
      (run stmt kind bs (some i) store).1.outcome = .execErr (.storage i)) ∧
    (run stmt kind bs (some i) store).2.log.length = i + 1 :=
  (fs_runG stmt kind bs).fault { store := store } i (Nat.zero_le _) hi

/-- … and a fault index beyond the calls the statement makes changes nothing. -/
theorem fault_not_reached (stmt : Stmt) (kind : PollKind) (bs : Nat) (store : Store) (i : Nat)
    (hi : (run stmt kind bs none store).2.log.length ≤ i) :
    run stmt kind bs (some i) store = run stmt kind bs none store :=
  (fs_runG stmt kind bs).same { store := store } i (.inr hi)

/-- non-vacuity: a delete with a limit over a prefix scan, fault at its 6th call (`Next`) -/
example :
    let stmt := Stmt.delete (.prefix [97]) (fun _ => .ok true) false (some (0, 1))
    let store : Store := [([97], [1]), ([97, 98], [2]), ([98], [3])]
    5 < (run stmt .batch 2 none store).2.log.length ∧
    (run stmt .batch 2 (some 5) store).1.outcome = .execErr (.storage 5) := by decide

/-- The same for a plan that is polled in any prescribed way after it was built (one poll). -/
theorem fault_propagates_poll (plan : Plan) (kind : PollKind) (bs : Nat) (w : World) (i : Nat)
    (h0 : w.log.length ≤ i) (hi : i < (plan.poll kind bs none w).2.log.length) :
    (plan.poll kind bs (some i) w).1.err = some (.storage i) ∧
    (plan.poll kind bs (some i) w).2.log.length = i + 1 :=
  (fs_poll kind bs plan).fault w i h0 hi

/-! ### facts about the Go source, regenerated on every run (`Kvql.Generated.storageSites`) -/

open Kvql.Generated

/-- every call of a Storage / Cursor / child-plan method in the library has its error either
    checked by the next statement (`if err != nil { return … err }`) or returned directly -/
theorem storage_errors_handled :
    ∀ s ∈ storageSites, s.2.2.2 = "checked" ∨ s.2.2.2 = "returned" := by decide

def mutatingMethod (m : String) : Bool := m == "Put" || m == "BatchPut" || m == "Delete" || m == "BatchDelete"

/-- the only functions of the library that call a mutating Storage method are the `execute`
    methods of PutPlan, RemovePlan and DeletePlan -/
theorem mutating_sites :
    ∀ s ∈ storageSites, s.2.1 = "storage" → mutatingMethod s.2.2.1 = true →
      s.1 ∈ ["PutPlan.execute", "RemovePlan.execute", "DeletePlan.execute"] := by decide

/-- non-vacuity of `mutating_sites`: there are such sites -/
example : ∃ s ∈ storageSites, s.2.1 = "storage" ∧ mutatingMethod s.2.2.1 = true := by decide

end Kvql.Properties.C13
