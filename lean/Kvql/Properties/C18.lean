/-
  C18  Key-pinning filters read only the pinned keys or region — planner half.

  What is read from storage is decided in two steps: the filter optimizer infers a scan type
  (this file: the inferred region is within the region pinned by a conjunct, equalities and IN
  lists become point reads, face-unsatisfiable clauses become EMPTY), and the scan plan reads
  its region plus at most one key beyond its end (scan_plan.go; the storage-traffic half, proved in
  Proofs/ScanTraffic.lean over the storage/plan model: `Kvql.Proofs.Scan.scan_reads_region`,
  `select_traffic`, listed in C18.theorems; tied to scan_plan.go by the PLAN group's call logs).  `within s x` is `region s ⊆ region x`; `pinned s` is "not FULL";
  the conjuncts of a clause are the leaves of its `&`/`and` spine, in any nesting.
  A RANGE is inclusive at both ends, so `key > 'a'` pins the closed half-line from "a".
  Tie to the code: SCAN correspondence group and its C18 checks.
-/
import Kvql.Proofs.ScanUnsat
import Kvql.Proofs.ScanWitness
import Kvql.Proofs.ScanTraffic

namespace Kvql.Properties.C18

open Kvql Kvql.Scan
open Kvql.Bytes (Pre)

/-- AND narrows: when an operand pins the key, the combined region lies within the region of a
    pinning operand. -/
theorem and_narrows {l r : Scan} (wl : WF l) (wr : WF r) (h : pinned l ∨ pinned r) :
    ∃ x, (x = l ∨ x = r) ∧ pinned x ∧ within (andScan l r) x :=
  Scan.and_narrows wl wr h

/-- … hence, for a whole conjunction: if some conjunct pins the key, the region inferred for the
    clause lies within the region inferred for one pinning conjunct (which, by C02's atom lemmas,
    is the set/prefix/closed range that conjunct pins). -/
theorem and_narrows_conjuncts (e : Expr) (h : ∃ c ∈ conjuncts e, pinned (optimizeExpr c)) :
    ∃ c ∈ conjuncts e, pinned (optimizeExpr c) ∧ within (optimizeExpr e) (optimizeExpr c) :=
  Scan.and_narrows_conjuncts e h

/-- satisfiable and not trivial: `value = 'x' & key ^= 'a' & key < 'ab'` — the middle and last
    conjuncts pin, the clause is planned RANGE["a", "ab"] (within both) -/
example :
    let e : Expr := .binop 0 .and (.binop 0 .eq (.field 0 .value) (.str 0 [120]))
      (.binop 0 .and (.binop 0 .prefixMatch (.field 0 .key) (.str 0 [97]))
        (.binop 0 .lt (.field 0 .key) (.str 0 [97, 98])))
    (∃ c ∈ conjuncts e, pinned (optimizeExpr c)) ∧ optimizeExpr e = .range (some [97]) (some [97, 98]) := by
  refine ⟨⟨.binop 0 .prefixMatch (.field 0 .key) (.str 0 [97]), by simp [conjuncts], by unfold pinned; decide⟩, by decide⟩

/-- AND never gives up: under the invariant the combination is FULL only when both operands are. -/
theorem and_full_iff {l r : Scan} (wl : WF l) (wr : WF r) :
    andScan l r = .full ↔ l = .full ∧ r = .full :=
  Scan.andScan_full_iff wl wr

/-- A clause with a conjunct `key = lit`, `lit = key` or `key in (lits)` is planned as point reads
    (MGET) or as nothing (EMPTY), whatever the other conjuncts are. -/
theorem eq_in_point_reads {c e : Expr} (hc : Conjunct c e) (ha : PointAtom c) :
    pointKind (optimizeExpr e) :=
  Scan.eq_in_point_reads hc ha

example : Conjunct (.binop 0 .eq (.field 0 .key) (.str 0 [97]))
      (.binop 0 .kwAnd (.binop 0 .gt (.field 0 .key) (.str 0 [])) (.binop 0 .eq (.field 0 .key) (.str 0 [97]))) ∧
    PointAtom (.binop 0 .eq (.field 0 .key) (.str 0 [97])) :=
  ⟨.kwAndR .self, .eqR 0 0 0 [97]⟩

/-- `false` as a conjunct (or any conjunct that is itself inferred EMPTY): nothing is read. -/
theorem unsat_false {e : Expr} {p : Nat} {d : Bytes} (hc : Conjunct (.bool p d false) e) :
    optimizeExpr e = .empty :=
  Scan.unsat_false hc

theorem unsat_conjunct {c e : Expr} (hc : Conjunct c e) (h : optimizeExpr c = .empty) :
    optimizeExpr e = .empty :=
  Scan.unsat_conjunct hc h

/-- If two conjuncts of the flattened `&`/`and` spine — an earlier and a later one, anywhere in
    the nesting — have inferred scan types whose intersection is EMPTY, the whole conjunction
    is planned EMPTY, whatever the other conjuncts are and however they are nested. -/
theorem unsat_reads_nothing (e : Expr) {s1 s2 : Scan}
    (hk : [s1, s2].Sublist ((conjuncts e).map optimizeExpr)) (hu : andScan s1 s2 = .empty) :
    optimizeExpr e = .empty :=
  Scan.unsat_reads_nothing e hk hu

/-- the same, naming the two conjuncts -/
theorem unsat_conjunct_pair (e : Expr) {c1 c2 : Expr} (hk : [c1, c2].Sublist (conjuncts e))
    (hu : andScan (optimizeExpr c1) (optimizeExpr c2) = .empty) : optimizeExpr e = .empty :=
  Scan.unsat_conjunct_pair e hk hu

/-- In particular: two different equalities, two prefixes neither of which extends the other,
    two closed ranges one of which ends before the other starts (`FaceUnsat`). -/
theorem unsat_face (e : Expr) {s1 s2 : Scan}
    (hk : [s1, s2].Sublist ((conjuncts e).map optimizeExpr)) (hu : FaceUnsat s1 s2) :
    optimizeExpr e = .empty :=
  Scan.unsat_face e hk hu

/-- satisfiable, with a third key conjunct nested between the two: the clause that used to be
    planned PrefixScan "c" — `key ^= 'c' & (key ^= 'b' & key >= 'ba')` -/
example :
    let e : Expr := .binop 0 .and (.binop 0 .prefixMatch (.field 0 .key) (.str 0 [99]))
      (.binop 0 .and (.binop 0 .prefixMatch (.field 0 .key) (.str 0 [98]))
        (.binop 0 .gte (.field 0 .key) (.str 0 [98, 97])))
    [Scan.pre [99], Scan.pre [98]].Sublist ((conjuncts e).map optimizeExpr) ∧
      FaceUnsat (.pre [99]) (.pre [98]) ∧ optimizeExpr e = .empty := by
  refine ⟨?_, .prePre (by decide) (by decide), by decide⟩
  show [Scan.pre [99], Scan.pre [98]].Sublist [Scan.pre [99], Scan.pre [98], Scan.range (some [98, 97]) none]
  exact List.sublist_append_left [Scan.pre [99], Scan.pre [98]] [Scan.range (some [98, 97]) none]

/-- the three shapes, on the scan types themselves -/
theorem unsat_eq_eq {a b : Bytes} (h : a ≠ b) : andScan (.mget [a]) (.mget [b]) = .empty :=
  Scan.unsat_eq_eq h

theorem unsat_pre_pre {a b : Bytes} (h1 : ¬ Pre a b) (h2 : ¬ Pre b a) :
    andScan (.pre a) (.pre b) = .empty :=
  Scan.unsat_pre_pre h1 h2

theorem unsat_range_range {a b c d : OB} (wl : WF (.range a b)) (wr : WF (.range c d))
    (h : (∃ x y, b = some x ∧ c = some y ∧ x < y) ∨ (∃ x y, d = some x ∧ a = some y ∧ x < y)) :
    andScan (.range a b) (.range c d) = .empty :=
  Scan.unsat_range_range wl wr h

/-- satisfiable: `key < 'a'` and `key > 'b'` -/
example : WF (.range none (some [97])) ∧ WF (.range (some [98]) none) ∧
    ∃ x y, (some [97] : OB) = some x ∧ (some [98] : OB) = some y ∧ x < y :=
  ⟨by simp [WF], by simp [WF], [97], [98], rfl, rfl, by decide⟩

end Kvql.Properties.C18
