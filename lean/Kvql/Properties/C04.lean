/-
  C04  Constant folding and expression rewriting preserve every expression's value.

  The model `Kvql.Fold` (Model/Fold.lean) is expression_optimizer.go AFTER patches C04-01 (a folded
  literal takes the kind of the RESULT, not of the left operand) and C04-02 (re-association
  `(x op c1) op c2 => x op (c1 op c2)` only for text concatenation and for integer-only
  operands), tied to the engine by the FOLD correspondence; evaluation is the row evaluator
  `Kvql.exec` of the EVAL correspondence.

  Reading the statements.  `Fold.optimize e = .ok e'`: `ExpressionOptimizer{Root: e}.Optimize()`
  returns `e'` (`.error site` would be a Go panic: `fold_total` shows there is none).
  `exec e kv c = (.ok v, c')`: the ORIGINAL expression evaluates without error on the pair `kv`.
  Conclusion: the rewritten expression evaluates on that pair too, to `v'` with `Rel v' v`:
      v' = v,   or   v' = []byte b  where  v = Go string b.
  The second case is what "text stays text" allows and what cannot be avoided: a folded
  `'a' + 'b'` is a StringExpr, whose Execute returns []byte, while the un-folded `+` returns a Go
  string.  Integer stays integer, float stays float (bit for bit), Boolean stays Boolean, text
  stays the same bytes: `fold_preserves_kind` (`Value.norm` only identifies the two text kinds),
  and the value is EXACTLY the same whenever it is not a Go string (`fold_preserves_exact`,
  hence for every WHERE clause: `fold_preserves_where`).

  The only hypothesis is `c.enable = false`: a nil context or `EnableCache = false` (the cache is
  C05's concern).  No typing, no "accepted by Check", no cycle-freeness, no bound on depth: every
  `Expr`, every pair.  Alias references evaluate the node that was the root of a select field,
  which `Optimize()` mutates in place: `fold_preserves_node` is the same statement for that node.
-/
import Kvql.Proofs.FoldTotal

namespace Kvql.Properties.C04
open Kvql Kvql.Fold Kvql.Generated

/-! ### the hypothesis, with examples -/

/-- a nil `*ExecuteCtx` -/
example : Ctx.none.enable = false := rfl
/-- `NewExecuteCtx()` with `EnableCache = false` -/
example : Ctx.off.enable = false := rfl
/-- … and a context with the cache on is outside the statement -/
example : (Ctx.new true).enable ≠ false := by decide

/-! ### no panic -/

/-- none of the optimizer's type assertions (`ret.(string)`, `ret.(bool)`) can fail, on any tree
    (the kinds the built-in functions return are read off the regenerated `funcTable`) -/
theorem fold_total (e : Expr) : ∃ e' n, optimizeBoth e = .ok (e', n) := optimizeBoth_total e

/-! ### the property -/

/-- the rewritten expression has the value of the original on every pair on which the original has one -/
theorem fold_preserves {e e' : Expr} (h : optimize e = .ok e') {kv : Pair} {c c' : Ctx} {v : Value}
    (hc : c.enable = false) (hv : exec e kv c = (.ok v, c')) :
    ∃ v', exec e' kv c = (.ok v', c') ∧ Rel v' v := by
  simp only [optimize] at h
  cases hb : optimizeBoth e with
  | error s => rw [hb] at h; cases h
  | ok rn =>
    obtain ⟨r, n⟩ := rn
    rw [hb] at h
    cases h
    exact sem_exec (optimizeBoth_ok hb).1 hc hv

/-- … of the same kind: integer, float, Boolean unchanged; text the same bytes -/
theorem fold_preserves_kind {e e' : Expr} (h : optimize e = .ok e') {kv : Pair} {c c' : Ctx} {v : Value}
    (hc : c.enable = false) (hv : exec e kv c = (.ok v, c')) :
    ∃ v', exec e' kv c = (.ok v', c') ∧ v'.norm = v.norm := by
  obtain ⟨v', h1, h2⟩ := fold_preserves h hc hv
  exact ⟨v', h1, Fold.Rel.same_kind h2⟩

/-- … and exactly the same value unless that value is a Go string -/
theorem fold_preserves_exact {e e' : Expr} (h : optimize e = .ok e') {kv : Pair} {c c' : Ctx} {v : Value}
    (hc : c.enable = false) (hv : exec e kv c = (.ok v, c')) (hs : ∀ s, v ≠ .str s) :
    exec e' kv c = (.ok v, c') := by
  obtain ⟨v', h1, h2⟩ := fold_preserves h hc hv
  rw [← Fold.Rel.eq_of_not_str h2 hs]; exact h1

/-- a WHERE clause selects the same rows -/
theorem fold_preserves_where {e e' : Expr} (h : optimize e = .ok e') {kv : Pair} {c c' : Ctx} {b : Bool}
    (hc : c.enable = false) (hv : exec e kv c = (.ok (.bool b), c')) :
    exec e' kv c = (.ok (.bool b), c') :=
  fold_preserves_exact h hc hv (fun s hs => by cases hs)

/-- the node that was the root (the target of alias references) is left in a state that has the
    value of the original too … -/
theorem fold_preserves_node {e n : Expr} (h : optimizeNode e = .ok n) {kv : Pair} {c c' : Ctx} {v : Value}
    (hc : c.enable = false) (hv : exec e kv c = (.ok v, c')) :
    ∃ v', exec n kv c = (.ok v', c') ∧ Rel v' v := by
  simp only [optimizeNode] at h
  cases hb : optimizeBoth e with
  | error s => rw [hb] at h; cases h
  | ok rn =>
    obtain ⟨r, n'⟩ := rn
    rw [hb] at h
    cases h
    exact sem_exec (optimizeBoth_ok hb).2.sem hc hv

/-- … and keeps its static type (`ReturnType()`), which parents dispatch on -/
theorem fold_node_type {e n : Expr} (h : optimizeNode e = .ok n) : retType n = retType e := by
  simp only [optimizeNode] at h
  cases hb : optimizeBoth e with
  | error s => rw [hb] at h; cases h
  | ok rn =>
    obtain ⟨r, n'⟩ := rn
    rw [hb] at h
    cases h
    exact (optimizeBoth_ok hb).2.ty

/-! ### one lemma per rewrite -/

/-- tryOptimizeBinaryOpExecute: a node whose operands are literals, replaced by the literal `k` -/
theorem foldBinary_ok {p : Nat} {op : Op} {l r k : Expr} (hl : isLit4 l = true) (hr : isLit4 r = true)
    (h : foldBinary (.binop p op l r) = .ok (some k)) {kv : Pair} {c c' : Ctx} {v : Value}
    (hc : c.enable = false) (hv : exec (.binop p op l r) kv c = (.ok v, c')) :
    (∃ v', exec k kv c = (.ok v', c') ∧ Rel v' v) ∧ retType k = retType (.binop p op l r) :=
  ⟨sem_exec (Fold.foldBinary_ok hl hr h).1.sem hc hv, (Fold.foldBinary_ok hl hr h).1.ty⟩

/-- tryOptimizeFunctionCall: a scalar call whose arguments are literals, replaced by the literal `k` -/
theorem foldCall_ok {p : Nat} {nm : Expr} {args : List Expr} {k : Expr} (hl : args.all isLit4 = true)
    (h : foldCall (.call p nm args) = .ok (some k)) {kv : Pair} {c c' : Ctx} {v : Value}
    (hc : c.enable = false) (hv : exec (.call p nm args) kv c = (.ok v, c')) :
    (∃ v', exec k kv c = (.ok v', c') ∧ Rel v' v) ∧ retType k = retType (.call p nm args) :=
  ⟨sem_exec (Fold.foldCall_ok hl h).1.sem hc hv, (Fold.foldCall_ok hl h).1.ty⟩

/-- tryOptimizeAndOr: `true & X => X`, `X & false => false`, … (an operand that fails may be
    dropped: the statement only speaks of pairs on which the original evaluates) -/
theorem andOr_simplify_ok (e : Expr) {kv : Pair} {c c' : Ctx} {v : Value}
    (hc : c.enable = false) (hv : exec e kv c = (.ok v, c')) :
    ∃ v', exec (andOr e).1 kv c = (.ok v', c') ∧ Rel v' v :=
  sem_exec (andOr_ok e).sem hc hv

/-- tryReorderBinaryOp: `(x op c1) op c2 => x op (c1 op c2)` under `canReassociate`
    (associativity of byte-string concatenation and of wrapping Int64 `+` / `*`; floats never) -/
theorem reorder_ok (e : Expr) {kv : Pair} {c c' : Ctx} {v : Value}
    (hc : c.enable = false) (hv : exec e kv c = (.ok v, c')) :
    (∃ v', exec (reorder e) kv c = (.ok v', c') ∧ Rel v' v) ∧ retType (reorder e) = retType e :=
  ⟨sem_exec (Fold.reorder_ok e).sem hc hv, (Fold.reorder_ok e).ty⟩

/-- where the re-association is allowed the two trees have the same outcome, error or value -/
theorem reassociate_exact (p q : Nat) {op : Op} (hop : op = .add ∨ op = .mul) {x c1 c2 : Expr}
    (h : canReassociate op x c1 c2 = true) (kv : Pair) {c : Ctx} (hc : c.enable = false) :
    exec (.binop p op x (.binop p op c1 c2)) kv c = exec (.binop p op (.binop q op x c1) c2) kv c := by
  rw [exec_off _ kv hc, exec_off _ kv hc]
  simp only [canReassociate, Bool.or_eq_true, Bool.and_eq_true, beq_iff_eq] at h
  rcases h with ⟨⟨h0, hx⟩, h1⟩ | ⟨⟨hx, h1⟩, h2⟩
  · subst h0; rw [assoc_text p q c2 hx h1 kv hc]
  · rw [assoc_int p q hop hx h1 h2 kv hc]

/-! ### concrete instances -/

/-- `1 + 2` folds to the integer literal `3` (Data `%d` of 3) at the position of the left operand -/
example : foldBinary (.binop 5 .add (.num 3 [49] 1) (.num 7 [50] 2)) = .ok (some (.num 3 (formatInt 3) 3)) := by rfl

/-- `3 * 0.5` folds to a FLOAT literal, the product as the evaluator computes it (before patch
    C04-01: the integer literal 1) -/
example : foldBinary (.binop 5 .mul (.num 3 [51] 3) (.float 7 [48, 46, 53] ⟨0x3fe0000000000000⟩)) =
    .ok (some (.float 3 [] ((F64.ofInt 3).mul ⟨0x3fe0000000000000⟩))) := by rfl

/-- `(key + 'a') + 'b'` is re-associated: text on the left, text constants -/
example : canReassociate .add (.field 0 .key) (.str 6 [97]) (.str 12 [98]) = true := by decide
/-- `(float(value) + 1) + 2` is not: `float` is not known to be an integer -/
example : canReassociate .add (.call 0 (.name 0 (asciiBytes "float")) [.field 6 .value]) (.num 15 [49] 1) (.num 19 [50] 2)
    = false := by decide
/-- `(int(value) + 1) + 2` is: integers only -/
example : canReassociate .add (.call 0 (.name 0 (asciiBytes "int")) [.field 4 .value]) (.num 13 [49] 1) (.num 17 [50] 2)
    = true := by decide
/-- `(int(value) + 1) + 0.5` is not: the constant is a float -/
example : canReassociate .add (.call 0 (.name 0 (asciiBytes "int")) [.field 4 .value]) (.num 13 [49] 1)
    (.float 17 [48, 46, 53] ⟨0x3fe0000000000000⟩) = false := by decide

end Kvql.Properties.C04
