/-
  C16  Tokens carry their true offset and text; spacing between tokens is irrelevant.

  `Kvql.Lexer.split` is the line-by-line model of lexer.go `Split`/`buildToken` (index
  based, with `tokStart/tokLen/prev` state); `Kvql.Spec.lex` is the reference maximal-munch
  tokenizer.  `split_refines_spec` proves them equal on every input; the property statements
  are proved on the reference tokenizer and transported.  Tie to the Go code: LEX
  correspondence (all strings ≤ 4/6 over a 14-symbol alphabet + random), regenerated keyword
  table / token codes / blank-byte class.
-/
import Kvql.Proofs.LexRefine
import Kvql.Proofs.LexSpec

namespace Kvql.Properties.C16

open Kvql Kvql.Lexer Kvql.Spec Kvql.Generated Kvql.Proofs.LexSpec

/-- The Go lexer (model) and the reference tokenizer agree on every byte string. -/
theorem split_refines_spec (q : Bytes) : Lexer.split q = Spec.lex q :=
  Proofs.LexRefine.split_eq_spec q

/-- Every token reports the offset at which its text begins and carries exactly that text:
    a literal sits between two identical quotes at `pos` and its content is the bytes in
    between, byte for byte; every other token's data is the (ASCII-case-folded) query text at
    `[pos, pos+len)`.  (`TokOK` is defined in Proofs/LexSpec.lean.) -/
theorem tokens_true_offset_and_text (q : Bytes) : ∀ t ∈ Lexer.split q, TokOK q t := by
  rw [split_refines_spec]; exact spec_tokens_ok q

/-- Tokens come in strictly increasing, non-overlapping offsets. -/
theorem tokens_ordered (q : Bytes) :
    (Lexer.split q).Pairwise (fun a b => a.pos + a.data.length ≤ b.pos) ∧
    (Lexer.split q).Pairwise (fun a b => a.pos < b.pos) := by
  rw [split_refines_spec]; exact ⟨spec_tokens_ordered q, spec_tokens_strict q⟩

/-- A quoted literal is one token whose content is preserved byte for byte: never split,
    truncated or merged with neighbouring characters, whatever surrounds it. -/
theorem literal_preserved (pre body post : Bytes) (qc : UInt8)
    (hq : isQuote qc ∨ isBackquote qc) (hb : qc ∉ body) (ho : Outside pre) :
    ({ tp := if isQuote qc then tkSTRING else tkNAME, data := body, pos := pre.length } : Token)
      ∈ Lexer.split (pre ++ qc :: body ++ qc :: post) := by
  rw [split_refines_spec]; exact spec_literal_preserved pre body post qc hq hb ho

/-- non-vacuity: `abc'x y'and` — the prefix `abc` is outside any literal -/
example : Outside [97, 98, 99] := by decide

/-- `^= ~= != <= >=` are single tokens wherever they occur outside a literal. -/
theorem two_char_operator_single_token (pre post : Bytes) (c : UInt8) (hc : isOp2Lead c)
    (ho : Outside pre) :
    ({ tp := tkOPERATOR, data := [c, 61], pos := pre.length } : Token)
      ∈ Lexer.split (pre ++ c :: 61 :: post) := by
  rw [split_refines_spec]; exact spec_two_char_op pre post c hc ho

/-- Leading and trailing blanks do not change the sequence of token kinds and texts. -/
theorem leading_trailing_blanks (bs q : Bytes) (hbs : ∀ b ∈ bs, specBlank b) :
    kindsData (Lexer.split (bs ++ q)) = kindsData (Lexer.split q) ∧
    kindsData (Lexer.split (q ++ bs)) = kindsData (Lexer.split q) := by
  simp only [split_refines_spec]
  exact ⟨spec_leading_blanks bs q hbs, spec_trailing_blanks' bs q hbs⟩

/-- Any non-empty run of blanks between tokens is as good as one space. -/
theorem blank_run_is_one_space (pre bs post : Bytes) (ho : Outside pre) (hne : bs ≠ [])
    (hbs : ∀ b ∈ bs, specBlank b) :
    kindsData (Lexer.split (pre ++ bs ++ post)) = kindsData (Lexer.split (pre ++ 32 :: post)) := by
  simp only [split_refines_spec]; exact spec_blank_run pre bs post ho hne hbs

/-- A space between tokens is optional: removing it changes nothing unless it separates two word
    bytes or an operator byte from `=` (the only places where the language needs it). -/
theorem space_optional (pre post : Bytes) (ho : Outside pre)
    (hword : ¬ (pre.getLast?.any wordByte ∧ post.head?.any wordByte))
    (hop : ¬ (pre.getLast?.any isOpChar ∧ post.head? = some 61)) :
    kindsData (Lexer.split (pre ++ 32 :: post)) = kindsData (Lexer.split (pre ++ post)) := by
  simp only [split_refines_spec]; exact spec_space_optional pre post ho hword hop

/-- Words and keywords are case-insensitive. -/
theorem words_case_insensitive (w w' : Bytes) (p : Nat) (h : toLower w = toLower w') :
    wordTok w p = wordTok w' p := wordTok_case w w' p h

/-- The index arithmetic of `Split` never leaves the query: at every loop state
    `tokStart + tokLen` is the number of bytes consumed, so the Go slice expression
    `Query[tokStart : tokStart+min(tokLen, len-tokStart)]` cannot panic (feeds C06). -/
theorem split_slices_in_range (q : Bytes) (k : Nat) (s : Lexer.State)
    (hs : (Proofs.LexRefine.trace q {} 0 q)[k]? = some s) :
    s.tokStart + s.tokLen = k ∧ k ≤ q.length ∧ s.tokStart ≤ q.length :=
  Proofs.LexRefine.tokStart_le_all q k s hs

/-- every keyword of the regenerated table is lower-case ASCII letters only (so lower-casing the
    word before the table lookup makes keywords case-insensitive and no keyword contains a
    delimiter) -/
theorem keywords_lowercase_letters :
    ∀ kw ∈ keywordTable, kw.1.toList.all (fun c => 'a' ≤ c ∧ c ≤ 'z') = true := by decide

end Kvql.Properties.C16
