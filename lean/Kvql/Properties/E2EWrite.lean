/-
  E2EWrite  The WRITE statements as whole statements, given as TEXT, over the end-to-end model
  `Kvql.Run.runQuery` (Model/Run.lean): text → Lexer.split → PlanCheck.planStage → (DELETE: Fold.optimize,
  Scan.optimize, verdict table of the vector evaluator through the field cache) → the plan model of
  delete_plan.go / put_plan.go / remove_plan.go over the storage machine with its call log.
  Whole-statement forms of C11 (DELETE) and C12 (PUT / REMOVE), composed with C14 (accepted ⇒ well-kinded),
  C04 (folding), C01 (reference evaluator), C03 / C05 (vector evaluator, field cache), C02 / C18 (scan
  narrowing, exactness of the DELETE shortcut), C13 (nothing else is written).

  (1) DELETE.  `run_delete_correct`: `delete where P` accepted by `planStage`, `P` evaluable by the
      REFERENCE evaluator on every stored pair (hypotheses in the style of E2E `run_select_star_correct`:
      `sideOk`, `core` — decidable on the statement — sorted store, `Spec.evaluable`): `runQuery` succeeds,
      the final store is the prior store minus exactly the pairs on which the reference says `P` is true
      (the others keep key and value, in order), and no `Put` / `BatchPut` is in the call log — in row AND
      batch polling mode, at every batch size ≥ 1, field cache on or off.  BOTH planner strategies are
      covered by the one theorem: the general DeletePlan (scan, filter, BatchDelete chunk by chunk against
      snapshot cursors) and the shortcut (an MGET inferred from a filter without `&` / `and` is rewritten
      to a RemovePlan that removes the listed keys WITHOUT reading them — `shortcut_exact`: a listed key
      on which the filter evaluates is an accepted key).  The reported count is `reported`: the number
      of removed pairs, or on the shortcut the number of LISTED keys, stored or not.
      `run_delete_limit_correct`: with `limit s, n` / `limit n` exactly rows s … s+n−1 (key order) of
      the satisfying pairs are removed.
      `DeletePlan.execute` evaluates its filter through `ExecuteBatch` in either polling mode; the two
      components this needed beyond C01–C18 are proved here and stated below:
        `batch_refines_spec`  the batch analogue of C01 (1): on the core language, wherever the reference
                              gives a value, the VECTOR evaluator succeeds with a related value
                              (C03 proves batch ⇒ row only);
        `fold_keeps_core`     constant folding against the reference: `Optimize()` keeps a core-language
                              expression in the core language, with its kind, and reference-evaluable
                              (C04 proves value preservation for the row evaluator).
      With them batch-mode `select *` holds under the hypotheses of the row-mode theorem too:
      `run_select_star_correct_batch` (E2E (a) without its two extra hypotheses).
  (2) PUT / REMOVE.  `run_put_correct`: the store is the prior store overwritten in order by the
      evaluated pairs (`putEval`: each value expression sees ITS OWN evaluated key as `key`:
      `put_value_sees_own_key`), one `Put` / `BatchPut`, row `[n]`; `run_put_all_or_nothing`: if any key or
      value expression fails the store is unchanged and the call log is EMPTY; `run_put_correct_ref`: the
      same with the reference evaluator as the judge of the pairs.  `run_remove_correct`,
      `run_remove_all_or_nothing`, `run_remove_correct_ref` likewise.  Both modes, every batch size ≥ 1,
      cache on or off; no hypothesis on the statement beyond `planStage` accepting the text (that its
      expressions carry no alias reference is derived: `accepted_put_aliasFree`).  POLLING AGAIN:
      `runQuery` does not expose single polls — it drains the plan (`Plans.run`: poll until a poll hands
      out nothing), so the finished plan IS polled once more and the call log of the whole run is the
      ONE write call (`run_put_one_call`); arbitrary poll sequences are C12 `exactly_once` on the plan model.
  (3) `run_put_then_select`: after the PUT, the text `select * where key = 'k'` on the resulting store
      returns exactly the pair (k, last value written for k), in either mode — C12 `put_then_select` and
      E2E (a) composed.
-/
import Kvql.Proofs.RunWriteChecks
import Kvql.Proofs.RunExprEq
import Kvql.Properties.E2E

namespace Kvql.Properties.E2EWrite
open Kvql Kvql.Run Kvql.Plans Kvql.Storage Kvql.Proofs.Typing Kvql.Proofs.RunWrite Kvql.Proofs.Plan
open Kvql.Proofs.Store (lastWrite)
open Kvql.PlanCheck (planStage finalPlanCheck)

/-! ### (1) DELETE -/

/-- (1) **C11 over the end-to-end model**, no LIMIT, both planner strategies, both polling modes. -/
theorem run_delete_correct (query : Bytes) (pf : Bytes → F64) (pos wpos : Nat) (w : Expr)
    (hplan : planStage pf (Lexer.split query) = .ok (.delete pos wpos w none))
    (hside : sideOk w = true) (hcore : Refine.core w = true)
    (store : Store) (hs : store.Sorted)
    (hev : ∀ p ∈ store, Spec.evaluable w ⟨p.1, p.2⟩ = true)
    (kind : PollKind) (bs : Nat) (hbs : 1 ≤ bs) (cache : Bool) :
    (runQuery query pf store kind bs cache).fail = none ∧
    (∃ fw, Fold.optimize w = .ok fw ∧ (runQuery query pf store kind bs cache).rows =
      [[Value.goInt (Int64.ofNat (reported (nodeOf (Scan.optimize fw)) (Scan.hasAndOp fw)
        (store.filter (fun p => Spec.holds w ⟨p.1, p.2⟩)).length))]]) ∧
    (runQuery query pf store kind bs cache).world.store = store.filter (fun p => !Spec.holds w ⟨p.1, p.2⟩) ∧
    (∀ e ∈ (runQuery query pf store kind bs cache).world.log, e.call.isPut = false) := by
  have haf := accepted_delete_aliasFree hplan
  rw [runQuery_of_plan hplan]
  exact runStmt_delete_correct_full (accepted_delete_where_kind hplan haf hside) haf hcore store hs hev kind bs hbs cache

/-- (1) with `limit s, n` / `limit n`: rows s … s+n−1 of the satisfying pairs, in key order, go. -/
theorem run_delete_limit_correct (query : Bytes) (pf : Bytes → F64) (pos wpos : Nat) (w : Expr) (l : LimitS)
    (hplan : planStage pf (Lexer.split query) = .ok (.delete pos wpos w (some l)))
    (hside : sideOk w = true) (hcore : Refine.core w = true)
    (store : Store) (hs : store.Sorted)
    (hev : ∀ p ∈ store, Spec.evaluable w ⟨p.1, p.2⟩ = true)
    (kind : PollKind) (bs : Nat) (hbs : 1 ≤ bs) (cache : Bool) :
    (runQuery query pf store kind bs cache).fail = none ∧
    (runQuery query pf store kind bs cache).rows =
      [[Value.goInt (Int64.ofNat (((store.filter (fun p => Spec.holds w ⟨p.1, p.2⟩)).drop l.start.toInt.toNat).take
        l.count.toInt.toNat).length)]] ∧
    (runQuery query pf store kind bs cache).world.store =
      store.filter (fun p => decide (p ∉ ((store.filter (fun p => Spec.holds w ⟨p.1, p.2⟩)).drop l.start.toInt.toNat).take
        l.count.toInt.toNat)) ∧
    (∀ e ∈ (runQuery query pf store kind bs cache).world.log, e.call.isPut = false) := by
  have haf := accepted_delete_aliasFree hplan
  rw [runQuery_of_plan hplan]
  exact runStmt_delete_limit_correct_full l (accepted_delete_where_kind hplan haf hside) haf hcore store hs hev kind bs hbs cache

/-- … hence the final store does not depend on the polling mode, the batch size or the cache setting -/
theorem run_delete_modes_agree (query : Bytes) (pf : Bytes → F64) (pos wpos : Nat) (w : Expr) (lim : Option LimitS)
    (hplan : planStage pf (Lexer.split query) = .ok (.delete pos wpos w lim))
    (hside : sideOk w = true) (hcore : Refine.core w = true)
    (store : Store) (hs : store.Sorted)
    (hev : ∀ p ∈ store, Spec.evaluable w ⟨p.1, p.2⟩ = true)
    (kind kind' : PollKind) (bs bs' : Nat) (hbs : 1 ≤ bs) (hbs' : 1 ≤ bs') (cache cache' : Bool) :
    (runQuery query pf store kind bs cache).world.store = (runQuery query pf store kind' bs' cache').world.store := by
  cases lim with
  | none =>
    rw [(run_delete_correct query pf pos wpos w hplan hside hcore store hs hev kind bs hbs cache).2.2.1,
      (run_delete_correct query pf pos wpos w hplan hside hcore store hs hev kind' bs' hbs' cache').2.2.1]
  | some l =>
    rw [(run_delete_limit_correct query pf pos wpos w l hplan hside hcore store hs hev kind bs hbs cache).2.2.1,
      (run_delete_limit_correct query pf pos wpos w l hplan hside hcore store hs hev kind' bs' hbs' cache').2.2.1]

/-- the removed pairs are stored pairs; in terms of keys: `eraseMany` of their keys (C11's form) -/
theorem delete_store_as_erase (store : Store) (hs : store.Sorted) (L : List SPair) (hL : ∀ q ∈ L, q ∈ store) :
    store.filter (fun p => decide (p ∉ L)) = store.eraseMany (L.map (·.1)) :=
  (eraseMany_keys_of_sub hs L hL).symm

/-- the planner's shortcut is exact on the pairs the filter evaluates on (what makes the RemovePlan
    a correct DELETE): no `&` / `and` on the way down, MGET `ks` inferred, the engine's row evaluator
    gives the Boolean `b` on a pair whose key is listed — then `b = true`. -/
theorem shortcut_exact {f : Expr} (hna : Scan.noAndSpine f = true) {ks : List Bytes}
    (hm : Scan.optimizeExpr f = .mget ks) {k v : Bytes} (hk : k ∈ ks) {b : Bool}
    (hx : exec f ⟨k, v⟩ Ctx.off = (.ok (.bool b), Ctx.off)) : b = true :=
  shortcut_exact_on_evaluable hna hm hk hx

/-- **the batch analogue of C01 (1)** `exec_refines_spec`: on the core language, wherever the reference
    evaluator gives a value on a pair, `ExecuteBatch` (cache off) succeeds on the chunk made of that pair,
    with a related value (`≈` forgets `[]byte` / `string`, `int64` / `int`), context untouched. -/
theorem batch_refines_spec (e : Expr) (h : Refine.CoreLang e) (kv : Kvql.Pair) {s : Spec.SVal}
    (hs : Spec.eval e kv = some s) :
    ∃ v, execBatch e [kv] Ctx.off = (.ok [v], Ctx.off) ∧ Refine.Rel v s :=
  Refine.batch_refines_spec e h kv hs

/-- **constant folding against the reference evaluator**: the tree `Optimize()` returns for a
    core-language expression is in the core language (same README kind) and the reference evaluates it
    wherever it evaluates the original, to the same value. -/
theorem fold_keeps_core {w fw : Expr} (hw : Refine.CoreLang w) (h : Fold.optimize w = .ok fw) :
    Refine.CoreLang fw ∧ (∀ kv s, Spec.eval w kv = some s → Spec.eval fw kv = some s) := by
  obtain ⟨k, hk⟩ := Option.isSome_iff_exists.mp hw.2
  obtain ⟨h1, h2, h3⟩ := Kvql.Fold.Ref.optimize_fs h k hk hw.1
  exact ⟨⟨h2, by rw [h1]; rfl⟩, h3⟩

/-- **E2E (a) in batch mode**, under exactly the hypotheses of the row-mode `run_select_star_correct`. -/
theorem run_select_star_correct_batch (query : Bytes) (pf : Bytes → F64) (s : SelectS)
    (hplan : planStage pf (Lexer.split query) = .ok (.select s))
    (hstar : s.allFields = true) (hord : s.order = none) (hlim : s.limit = none)
    (hnoaggr : finalPlanCheck s = .ok false)
    (haf : aliasFree s.where_ = true) (hside : sideOk s.where_ = true) (hcore : Refine.core s.where_ = true)
    (store : Store) (hs : store.Sorted)
    (hev : ∀ p ∈ store, Spec.evaluable s.where_ ⟨p.1, p.2⟩ = true)
    (bs : Nat) (hbs : 1 ≤ bs) (cache : Bool) :
    (runQuery query pf store .batch bs cache).fail = none ∧
    (runQuery query pf store .batch bs cache).rows =
      (store.filter (fun p => Spec.holds s.where_ ⟨p.1, p.2⟩)).map pairRow ∧
    (runQuery query pf store .batch bs cache).world.store = store :=
  Kvql.Proofs.RunWrite.run_select_star_correct_batch query pf s hplan hstar hord hlim hnoaggr haf hside hcore store hs hev
    bs hbs cache

/-- (1) with the hypotheses about statement and store as ONE computable check on the text
    (`deleteHyps`: accepted as a DELETE, `sideOk`, `core`, reference-evaluable on every stored pair). -/
theorem run_delete_checked (query : Bytes) (pf : Bytes → F64) (store : Store) (hs : store.Sorted)
    (h : deleteHyps (planStage pf (Lexer.split query)) store = true)
    (hl : deleteLimit (planStage pf (Lexer.split query)) = none)
    (kind : PollKind) (bs : Nat) (hbs : 1 ≤ bs) (cache : Bool) :
    (runQuery query pf store kind bs cache).fail = none ∧
    (runQuery query pf store kind bs cache).world.store =
      store.filter (fun p => !Spec.holds (deleteWhere (planStage pf (Lexer.split query))) ⟨p.1, p.2⟩) ∧
    (∀ e ∈ (runQuery query pf store kind bs cache).world.log, e.call.isPut = false) := by
  obtain ⟨pos, wpos, w, lim, hplan, h2, h3, h4⟩ := deleteHyps_sound h
  rw [hplan] at hl ⊢
  simp only [deleteLimit] at hl
  simp only [deleteWhere]
  subst hl
  obtain ⟨r1, _, r3, r4⟩ := run_delete_correct query pf pos wpos w hplan h2 h3 store hs h4 kind bs hbs cache
  exact ⟨r1, r3, r4⟩

/-- (1), LIMIT, checked. -/
theorem run_delete_limit_checked (query : Bytes) (pf : Bytes → F64) (store : Store) (hs : store.Sorted)
    (h : deleteHyps (planStage pf (Lexer.split query)) store = true)
    (l : LimitS) (hl : deleteLimit (planStage pf (Lexer.split query)) = some l)
    (kind : PollKind) (bs : Nat) (hbs : 1 ≤ bs) (cache : Bool) :
    (runQuery query pf store kind bs cache).fail = none ∧
    (runQuery query pf store kind bs cache).world.store =
      store.filter (fun p => decide (p ∉ ((store.filter (fun p =>
        Spec.holds (deleteWhere (planStage pf (Lexer.split query))) ⟨p.1, p.2⟩)).drop l.start.toInt.toNat).take
          l.count.toInt.toNat)) ∧
    (∀ e ∈ (runQuery query pf store kind bs cache).world.log, e.call.isPut = false) := by
  obtain ⟨pos, wpos, w, lim, hplan, h2, h3, h4⟩ := deleteHyps_sound h
  rw [hplan] at hl ⊢
  simp only [deleteLimit] at hl
  simp only [deleteWhere]
  subst hl
  obtain ⟨r1, _, r3, r4⟩ := run_delete_limit_correct query pf pos wpos w l hplan h2 h3 store hs h4 kind bs hbs cache
  exact ⟨r1, r3, r4⟩

/-! ### (2) PUT / REMOVE -/

/-- (2) **C12 `put_effect` over the end-to-end model.**  `putEval` (Proofs/RunWritePut.lean) is the
    specification of the evaluated pairs: in order, the key expression on the empty pair, the value
    expression on the pair (its own evaluated key, ""), each `[]byte(toString(Execute(…)))`, cache off. -/
theorem run_put_correct (query : Bytes) (pf : Bytes → F64) (pos : Nat) (pairs : List (Expr × Expr))
    (hplan : planStage pf (Lexer.split query) = .ok (.put pos pairs))
    (kvps : List SPair) (h : putEval pairs = .ok kvps)
    (store : Store) (kind : PollKind) (bs : Nat) (hbs : 1 ≤ bs) (cache : Bool) :
    (runQuery query pf store kind bs cache).fail = none ∧
    (runQuery query pf store kind bs cache).rows = [[Value.goInt (Int64.ofNat kvps.length)]] ∧
    (runQuery query pf store kind bs cache).world.store = store.insertMany kvps ∧
    (runQuery query pf store kind bs cache).world.log = logOf (putCall kvps) := by
  rw [runQuery_of_plan hplan]
  exact runStmt_put_ok (accepted_put_aliasFree hplan) h store kind hbs cache

/-- each value expression sees its own pair's evaluated key -/
theorem put_value_sees_own_key (pairs : List (Expr × Expr)) (kvps : List SPair) (h : putEval pairs = .ok kvps) :
    Forall2 (fun (e : Expr × Expr) (kv : SPair) =>
      bytesOf e.1 emptyKv = .ok kv.1 ∧ bytesOf e.2 ⟨kv.1, []⟩ = .ok kv.2) pairs kvps :=
  putEval_forall2 pairs kvps h

/-- … and that is all `putEval` says -/
theorem put_eval_of_pairs (pairs : List (Expr × Expr)) (kvps : List SPair)
    (h : Forall2 (fun (e : Expr × Expr) (kv : SPair) =>
      bytesOf e.1 emptyKv = .ok kv.1 ∧ bytesOf e.2 ⟨kv.1, []⟩ = .ok kv.2) pairs kvps) : putEval pairs = .ok kvps :=
  putEval_of_forall2 pairs kvps h

/-- the resulting store as a map (C12 `put_effect_map`) -/
theorem put_store_map (store : Store) (kvps : List SPair) (k : Bytes) :
    (store.insertMany kvps).lookup k = (match lastWrite kvps k with | some v => some v | none => store.lookup k) :=
  Kvql.Proofs.Store.lookup_insertMany store kvps k

/-- at most one storage call in the whole run, the drain's closing poll of the finished plan included -/
theorem run_put_one_call (kvps : List SPair) : (logOf (putCall kvps)).length ≤ 1 := by
  unfold logOf; rw [List.length_map]; exact putCall_length_le kvps

/-- (2) ALL OR NOTHING: an evaluation failure (in order: the first one) fails the statement with its
    class; the store is unchanged and NO storage call was made. -/
theorem run_put_all_or_nothing (query : Bytes) (pf : Bytes → F64) (pos : Nat) (pairs : List (Expr × Expr))
    (hplan : planStage pf (Lexer.split query) = .ok (.put pos pairs))
    (e : Kvql.Err) (h : putEval pairs = .error e)
    (store : Store) (kind : PollKind) (bs : Nat) (hbs : 1 ≤ bs) (cache : Bool) :
    (runQuery query pf store kind bs cache).fail = some (errFail e) ∧
    (runQuery query pf store kind bs cache).rows = [] ∧
    (runQuery query pf store kind bs cache).world.store = store ∧
    (runQuery query pf store kind bs cache).world.log = [] := by
  rw [runQuery_of_plan hplan]
  exact runStmt_put_error (accepted_put_aliasFree hplan) h store kind hbs cache

/-- … in particular when ANY key expression fails, or any value expression fails on its own key -/
theorem run_put_any_failure (query : Bytes) (pf : Bytes → F64) (pos : Nat) (pairs : List (Expr × Expr))
    (hplan : planStage pf (Lexer.split query) = .ok (.put pos pairs))
    (hf : ∃ p ∈ pairs, PutPairFails p)
    (store : Store) (kind : PollKind) (bs : Nat) (hbs : 1 ≤ bs) (cache : Bool) :
    (runQuery query pf store kind bs cache).fail.isSome = true ∧
    (runQuery query pf store kind bs cache).rows = [] ∧
    (runQuery query pf store kind bs cache).world.store = store ∧
    (runQuery query pf store kind bs cache).world.log = [] := by
  obtain ⟨e, he⟩ := putEval_error_of_fails pairs hf
  obtain ⟨r1, r2, r3, r4⟩ := run_put_all_or_nothing query pf pos pairs hplan e he store kind bs hbs cache
  exact ⟨by rw [r1]; rfl, r2, r3, r4⟩

/-- (2) with the REFERENCE evaluator as the judge of the pairs: key and value expressions in the core
    language and well-kinded (`putCore`, decidable), `putSpec` = the reference's pairs (text form
    `Spec.toStr`: text, decimal numeral, `%f`). -/
theorem run_put_correct_ref (query : Bytes) (pf : Bytes → F64) (pos : Nat) (pairs : List (Expr × Expr))
    (hplan : planStage pf (Lexer.split query) = .ok (.put pos pairs))
    (hcore : putCore pairs) (kvps : List SPair) (h : putSpec pairs = some kvps)
    (store : Store) (kind : PollKind) (bs : Nat) (hbs : 1 ≤ bs) (cache : Bool) :
    (runQuery query pf store kind bs cache).fail = none ∧
    (runQuery query pf store kind bs cache).rows = [[Value.goInt (Int64.ofNat kvps.length)]] ∧
    (runQuery query pf store kind bs cache).world.store = store.insertMany kvps ∧
    (runQuery query pf store kind bs cache).world.log = logOf (putCall kvps) :=
  run_put_correct query pf pos pairs hplan kvps (putEval_of_spec pairs hcore kvps h) store kind bs hbs cache

/-- (2) **C12 `remove_effect` over the end-to-end model.** -/
theorem run_remove_correct (query : Bytes) (pf : Bytes → F64) (pos : Nat) (keys : List Expr)
    (hplan : planStage pf (Lexer.split query) = .ok (.remove pos keys))
    (ks : List Bytes) (h : removeEval keys = .ok ks)
    (store : Store) (kind : PollKind) (bs : Nat) (hbs : 1 ≤ bs) (cache : Bool) :
    (runQuery query pf store kind bs cache).fail = none ∧
    (runQuery query pf store kind bs cache).rows = [[Value.goInt (Int64.ofNat ks.length)]] ∧
    (runQuery query pf store kind bs cache).world.store = store.eraseMany ks ∧
    (runQuery query pf store kind bs cache).world.log = logOf (removeCall ks) := by
  rw [runQuery_of_plan hplan]
  exact runStmt_remove_ok (accepted_remove_aliasFree hplan) h store kind hbs cache

/-- the remaining pairs are exactly those whose key is not named, unchanged and in order -/
theorem remove_store_list (store : Store) (ks : List Bytes) :
    store.eraseMany ks = store.filter (fun p => p.1 ∉ ks) := Kvql.Proofs.Store.eraseMany_eq_filter store ks

theorem run_remove_one_call (ks : List Bytes) : (logOf (removeCall ks)).length ≤ 1 := by
  unfold logOf; rw [List.length_map]; exact removeCall_length_le ks

theorem run_remove_all_or_nothing (query : Bytes) (pf : Bytes → F64) (pos : Nat) (keys : List Expr)
    (hplan : planStage pf (Lexer.split query) = .ok (.remove pos keys))
    (e : Kvql.Err) (h : removeEval keys = .error e)
    (store : Store) (kind : PollKind) (bs : Nat) (hbs : 1 ≤ bs) (cache : Bool) :
    (runQuery query pf store kind bs cache).fail = some (errFail e) ∧
    (runQuery query pf store kind bs cache).rows = [] ∧
    (runQuery query pf store kind bs cache).world.store = store ∧
    (runQuery query pf store kind bs cache).world.log = [] := by
  rw [runQuery_of_plan hplan]
  exact runStmt_remove_error (accepted_remove_aliasFree hplan) h store kind hbs cache

theorem run_remove_any_failure (query : Bytes) (pf : Bytes → F64) (pos : Nat) (keys : List Expr)
    (hplan : planStage pf (Lexer.split query) = .ok (.remove pos keys))
    (hf : ∃ k ∈ keys, ∃ e, bytesOf k emptyKv = .error e)
    (store : Store) (kind : PollKind) (bs : Nat) (hbs : 1 ≤ bs) (cache : Bool) :
    (runQuery query pf store kind bs cache).fail.isSome = true ∧
    (runQuery query pf store kind bs cache).rows = [] ∧
    (runQuery query pf store kind bs cache).world.store = store ∧
    (runQuery query pf store kind bs cache).world.log = [] := by
  obtain ⟨e, he⟩ := removeEval_error_of_fails keys hf
  obtain ⟨r1, r2, r3, r4⟩ := run_remove_all_or_nothing query pf pos keys hplan e he store kind bs hbs cache
  exact ⟨by rw [r1]; rfl, r2, r3, r4⟩

theorem run_remove_correct_ref (query : Bytes) (pf : Bytes → F64) (pos : Nat) (keys : List Expr)
    (hplan : planStage pf (Lexer.split query) = .ok (.remove pos keys))
    (hcore : removeCore keys) (ks : List Bytes) (h : removeSpec keys = some ks)
    (store : Store) (kind : PollKind) (bs : Nat) (hbs : 1 ≤ bs) (cache : Bool) :
    (runQuery query pf store kind bs cache).fail = none ∧
    (runQuery query pf store kind bs cache).rows = [[Value.goInt (Int64.ofNat ks.length)]] ∧
    (runQuery query pf store kind bs cache).world.store = store.eraseMany ks ∧
    (runQuery query pf store kind bs cache).world.log = logOf (removeCall ks) :=
  run_remove_correct query pf pos keys hplan ks (removeEval_of_spec keys hcore ks h) store kind bs hbs cache

/-! ### (3) PUT, then `select * where key = 'k'` -/

/-- (3) the PUT text `q1` run on a sorted store in any mode, then the text `q2`, accepted as
    `select * where key = 'k'` (no ORDER BY / GROUP BY / LIMIT), run in either mode on the resulting
    store: it succeeds and returns exactly the pair (k, v), `v` the value of the LAST pair of the PUT
    that names `k`. -/
theorem run_put_then_select (q1 q2 : Bytes) (pf : Bytes → F64) (pos : Nat) (pairs : List (Expr × Expr))
    (hplan1 : planStage pf (Lexer.split q1) = .ok (.put pos pairs))
    (kvps : List SPair) (h : putEval pairs = .ok kvps)
    (k v : Bytes) (hlast : lastWrite kvps k = some v)
    (s : SelectS) (hplan2 : planStage pf (Lexer.split q2) = .ok (.select s))
    (hstar : s.allFields = true) (hord : s.order = none) (hlim : s.limit = none)
    (hnoaggr : finalPlanCheck s = .ok false)
    {p p1 p2 : Nat} (hw : s.where_ = .binop p .eq (.field p1 .key) (.str p2 k))
    (store : Store) (hs : store.Sorted) (kind1 : PollKind) (bs1 : Nat) (hbs1 : 1 ≤ bs1) (cache1 : Bool)
    (kind2 : PollKind) (bs2 : Nat) (hbs2 : 1 ≤ bs2) (cache2 : Bool) :
    (runQuery q2 pf (runQuery q1 pf store kind1 bs1 cache1).world.store kind2 bs2 cache2).fail = none ∧
    (runQuery q2 pf (runQuery q1 pf store kind1 bs1 cache1).world.store kind2 bs2 cache2).rows = [pairRow (k, v)] := by
  obtain ⟨_, _, r3, _⟩ := run_put_correct q1 pf pos pairs hplan1 kvps h store kind1 bs1 hbs1 cache1
  rw [r3]
  have hs' := Kvql.Proofs.Store.sorted_insertMany hs kvps
  have hl : (store.insertMany kvps).lookup k = some v := by rw [Kvql.Proofs.Store.lookup_insertMany, hlast]
  cases kind2 with
  | next =>
    obtain ⟨t1, t2, _⟩ := run_select_key_eq q2 pf s hplan2 hstar hord hlim hnoaggr hw (store.insertMany kvps) hs' hl bs2
      hbs2 cache2
    exact ⟨t1, t2⟩
  | batch =>
    obtain ⟨t1, t2, _⟩ := run_select_key_eq_batch q2 pf s hplan2 hstar hord hlim hnoaggr hw (store.insertMany kvps) hs' hl
      bs2 hbs2 cache2
    exact ⟨t1, t2⟩

/-! ### non-vacuity: statement TEXTS over the store {a=9, ab=5, b=1, c=7} (`Select.exStore`) -/

def pf0 : Bytes → F64 := fun _ => F64.zero

/-- the general DeletePlan path: a RANGE scan with a residual filter -/
def exDelete : Bytes := asciiBytes "delete where key > 'a' & int(value) + 1 > 2"

/-- its WHERE tree as the parser and the checker leave it (positions = byte offsets) -/
def exDW : Expr :=
  .binop 23 .and (.binop 17 .gt (.field 13 .key) (.str 19 [97]))
    (.binop 40 .gt (.binop 36 .add (.call 25 (.name 25 [105, 110, 116]) [.field 29 .value]) (.num 38 [49] 1)) (.num 42 [50] 2))

theorem exDelete_where : deleteWhere (planStage pf0 (Lexer.split exDelete)) = exDW :=
  Expr.eq_of_same _ _ (by decide +kernel)

/-- EVERY hypothesis of (1) holds for this text and store (kernel evaluation of lexer, parser, checker,
    plan-time validation and reference evaluator); there is no LIMIT -/
theorem exDelete_hyps : deleteHyps (planStage pf0 (Lexer.split exDelete)) Select.exStore = true ∧
    deleteLimit (planStage pf0 (Lexer.split exDelete)) = none := by
  constructor <;> decide +kernel

/-- the reference's verdict on the four pairs: ab and c satisfy the WHERE -/
theorem exDelete_rest : Select.exStore.filter (fun p => !Spec.holds exDW ⟨p.1, p.2⟩) = [([97], [57]), ([98], [49])] := by
  decide +kernel

/-- … hence in batch mode at batch size 2 with the cache on, and in row mode at batch size 1 with the
    cache off (and in every other mode), the statement leaves a=9, b=1 and writes nothing -/
example : (runQuery exDelete pf0 Select.exStore .batch 2 true).fail = none ∧
    (runQuery exDelete pf0 Select.exStore .batch 2 true).world.store = [([97], [57]), ([98], [49])] ∧
    (runQuery exDelete pf0 Select.exStore .next 1 false).world.store = [([97], [57]), ([98], [49])] := by
  obtain ⟨r1, r2, _⟩ := run_delete_checked exDelete pf0 Select.exStore (by decide) exDelete_hyps.1 exDelete_hyps.2
    .batch 2 (by decide) true
  obtain ⟨_, r2', _⟩ := run_delete_checked exDelete pf0 Select.exStore (by decide) exDelete_hyps.1 exDelete_hyps.2
    .next 1 (by decide) false
  rw [exDelete_where, exDelete_rest] at r2 r2'
  exact ⟨r1, r2, r2'⟩

/-- a WHERE in which constant folding DOES rewrite something (`1 + 1 + 2` becomes `4`): the hypotheses of (1)
    speak of the parsed WHERE only -/
def exDeleteFold : Bytes := asciiBytes "delete where int(value) > 1 + 1 + 2 & (true | key = 'zz')"

def exFW : Expr :=
  .binop 36 .and
    (.binop 24 .gt (.call 13 (.name 13 [105, 110, 116]) [.field 17 .value])
      (.binop 32 .add (.binop 28 .add (.num 26 [49] 1) (.num 30 [49] 1)) (.num 34 [50] 2)))
    (.binop 44 .or (.bool 39 [116, 114, 117, 101] true) (.binop 50 .eq (.field 46 .key) (.str 52 [122, 122])))

theorem exDeleteFold_where : deleteWhere (planStage pf0 (Lexer.split exDeleteFold)) = exFW :=
  Expr.eq_of_same _ _ (by decide +kernel)

theorem exDeleteFold_hyps : deleteHyps (planStage pf0 (Lexer.split exDeleteFold)) Select.exStore = true ∧
    deleteLimit (planStage pf0 (Lexer.split exDeleteFold)) = none := by
  constructor <;> decide +kernel

theorem exDeleteFold_rest : Select.exStore.filter (fun p => !Spec.holds exFW ⟨p.1, p.2⟩) = [([98], [49])] := by
  decide +kernel

/-- … only b=1 stays (9, 5, 7 are above 4) -/
example : (runQuery exDeleteFold pf0 Select.exStore .next 2 true).world.store = [([98], [49])] := by
  obtain ⟨_, r2, _⟩ := run_delete_checked exDeleteFold pf0 Select.exStore (by decide) exDeleteFold_hyps.1
    exDeleteFold_hyps.2 .next 2 (by decide) true
  rw [exDeleteFold_where, exDeleteFold_rest] at r2
  exact r2

/-- `batch_refines_spec` on the WHERE of `exDelete` and the pair (ab, 5): the reference says true, hence
    `ExecuteBatch` on the chunk [(ab, 5)] answers [true] -/
example : execBatch exDW [⟨[97, 98], [53]⟩] Ctx.off = (.ok [.bool true], Ctx.off) :=
  Refine.batch_refines_spec_bool exDW (by decide) _ (Refine.holds_iff.mp (by decide))

/-- `run_select_star_correct_batch` on the text of E2E (a): every hypothesis is the row-mode theorem's -/
example : (runQuery E2E.exQuery E2E.pf0 Select.exStore .batch 2 true).fail = none := by
  obtain ⟨s, hplan, h1, h2, h3, h4, h5, h6, h7, h8⟩ := Kvql.Proofs.Run.starHyps_sound E2E.exQuery_hyps
  exact (run_select_star_correct_batch E2E.exQuery E2E.pf0 s hplan h1 h2 h3 h4 h5 h6 h7 Select.exStore (by decide) h8 2
    (by decide) true).1

/-- the SHORTCUT path: no `&`, an MGET inferred, the statement becomes the removal of a, c, zz -/
def exDeleteShort : Bytes := asciiBytes "delete where key = 'a' | key in ('c', 'zz')"

def exSW : Expr :=
  .binop 23 .or (.binop 17 .eq (.field 13 .key) (.str 19 [97]))
    (.binop 29 .in_ (.field 25 .key) (.list 29 [.str 33 [99], .str 38 [122, 122]]))

theorem exDeleteShort_where : deleteWhere (planStage pf0 (Lexer.split exDeleteShort)) = exSW :=
  Expr.eq_of_same _ _ (by decide +kernel)

theorem exDeleteShort_hyps : deleteHyps (planStage pf0 (Lexer.split exDeleteShort)) Select.exStore = true ∧
    deleteLimit (planStage pf0 (Lexer.split exDeleteShort)) = none := by
  constructor <;> decide +kernel

theorem fold_exSW : Fold.optimize exSW = .ok exSW := by
  simp [exSW, Fold.optimize, Fold.optimizeBoth, Fold.pass, Fold.reorder, Fold.binExec, Fold.operand, Fold.andOr,
    bind, Except.bind, Except.map, pure, Except.pure]

/-- the planner does take the shortcut for it: nothing to fold, MGET a, c, zz, no `&` in the filter -/
theorem exDeleteShort_path : nodeOf (Scan.optimize exSW) = .mget [[97], [99], [122, 122]] ∧ Scan.hasAndOp exSW = false := by
  constructor <;> decide +kernel

theorem exDeleteShort_rest : Select.exStore.filter (fun p => !Spec.holds exSW ⟨p.1, p.2⟩) = [([97, 98], [53]), ([98], [49])] := by
  decide +kernel

/-- … a and c are gone, ab and b stay; the count it reports is 3, the number of LISTED keys -/
example : (runQuery exDeleteShort pf0 Select.exStore .next 3 true).world.store = [([97, 98], [53]), ([98], [49])] := by
  obtain ⟨_, r2, _⟩ := run_delete_checked exDeleteShort pf0 Select.exStore (by decide) exDeleteShort_hyps.1
    exDeleteShort_hyps.2 .next 3 (by decide) true
  rw [exDeleteShort_where, exDeleteShort_rest] at r2
  exact r2

example : reported (nodeOf (Scan.optimize exSW)) (Scan.hasAndOp exSW) 2 = 3 := by
  rw [exDeleteShort_path.1, exDeleteShort_path.2]; rfl

/-- LIMIT: of the three pairs above 'a' (ab, b, c) the second one goes -/
def exDeleteLimit : Bytes := asciiBytes "delete where key > 'a' limit 1, 1"

def exLW : Expr := .binop 17 .gt (.field 13 .key) (.str 19 [97])

theorem exDeleteLimit_where : deleteWhere (planStage pf0 (Lexer.split exDeleteLimit)) = exLW :=
  Expr.eq_of_same _ _ (by decide +kernel)

theorem exDeleteLimit_hyps : deleteHyps (planStage pf0 (Lexer.split exDeleteLimit)) Select.exStore = true := by
  decide +kernel

theorem exDeleteLimit_limit : (match deleteLimit (planStage pf0 (Lexer.split exDeleteLimit)) with
    | some l => decide (l.start.toInt.toNat = 1 ∧ l.count.toInt.toNat = 1)
    | none => false) = true := by decide +kernel

theorem exDeleteLimit_rest : Select.exStore.filter (fun p => decide (p ∉ ((Select.exStore.filter (fun p =>
    Spec.holds exLW ⟨p.1, p.2⟩)).drop 1).take 1)) = [([97], [57]), ([97, 98], [53]), ([99], [55])] := by decide +kernel

example : (runQuery exDeleteLimit pf0 Select.exStore .batch 1 true).world.store =
    [([97], [57]), ([97, 98], [53]), ([99], [55])] := by
  have hl := exDeleteLimit_limit
  split at hl
  · rename_i l hlim
    obtain ⟨h1, h2⟩ := of_decide_eq_true hl
    obtain ⟨_, r2, _⟩ := run_delete_limit_checked exDeleteLimit pf0 Select.exStore (by decide) exDeleteLimit_hyps l hlim
      .batch 1 (by decide) true
    rw [h1, h2, exDeleteLimit_where, exDeleteLimit_rest] at r2
    exact r2
  · cases hl

/-- PUT: `put ('b', 'x'), ('a', upper(key)), ('b', key + '!')` — a key named twice, values that read
    their own key -/
def exPut : Bytes := asciiBytes "put ('b', 'x'), ('a', upper(key)), ('b', key + '!')"

theorem exPut_hyps : isPut (planStage pf0 (Lexer.split exPut)) = true ∧
    putEvalIs (putPairsOf (planStage pf0 (Lexer.split exPut))) [([98], [120]), ([97], [65]), ([98], [98, 33])] = true := by
  refine ⟨?_, ?_⟩ <;> decide +kernel

/-- … leaves a=A, ab=5, b=b!, c=7 after ONE BatchPut -/
example : (runQuery exPut pf0 Select.exStore .next 1 true).fail = none ∧
    (runQuery exPut pf0 Select.exStore .next 1 true).world.store =
      [([97], [65]), ([97, 98], [53]), ([98], [98, 33]), ([99], [55])] ∧
    (runQuery exPut pf0 Select.exStore .next 1 true).world.log =
      [⟨.batchPut [([98], [120]), ([97], [65]), ([98], [98, 33])], false⟩] := by
  obtain ⟨h1, h3⟩ := exPut_hyps
  obtain ⟨pos, hplan⟩ := isPut_sound h1
  obtain ⟨r1, _, r3, r4⟩ := run_put_correct exPut pf0 pos _ hplan _ (putEvalIs_sound h3) Select.exStore .next 1 (by decide) true
  refine ⟨r1, ?_, ?_⟩
  · rw [r3]; decide
  · rw [r4]; rfl

/-- the reference evaluator gives the same pairs for it (hypotheses of `run_put_correct_ref`) -/
example : putCore (putPairsOf (planStage pf0 (Lexer.split exPut))) ∧
    (match putSpec (putPairsOf (planStage pf0 (Lexer.split exPut))) with
     | some l => l == [([98], [120]), ([97], [65]), ([98], [98, 33])]
     | none => false) = true := by
  constructor <;> decide +kernel

/-- a PUT that is accepted and fails while evaluating its SECOND pair (`10 / int('a')`: division by
    zero): nothing is written, not even the first pair -/
def exPutFail : Bytes := asciiBytes "put ('k', 'v'), ('a', 10 / int(key))"

theorem exPutFail_hyps : isPut (planStage pf0 (Lexer.split exPutFail)) = true ∧
    putEvalFails (putPairsOf (planStage pf0 (Lexer.split exPutFail))) = true := by
  refine ⟨?_, ?_⟩ <;> decide +kernel

example (store : Store) : (runQuery exPutFail pf0 store .batch 4 true).world.store = store ∧
    (runQuery exPutFail pf0 store .batch 4 true).world.log = [] := by
  obtain ⟨h1, h3⟩ := exPutFail_hyps
  obtain ⟨pos, hplan⟩ := isPut_sound h1
  obtain ⟨e, he⟩ := putEvalFails_sound h3
  obtain ⟨_, _, r3, r4⟩ := run_put_all_or_nothing exPutFail pf0 pos _ hplan e he store .batch 4 (by decide) true
  exact ⟨r3, r4⟩

/-- REMOVE -/
def exRemove : Bytes := asciiBytes "remove 'a', 'c'"

theorem exRemove_hyps : isRemove (planStage pf0 (Lexer.split exRemove)) = true ∧
    removeEvalIs (removeKeysOf (planStage pf0 (Lexer.split exRemove))) [[97], [99]] = true := by
  refine ⟨?_, ?_⟩ <;> decide +kernel

example : (runQuery exRemove pf0 Select.exStore .batch 2 false).world.store = [([97, 98], [53]), ([98], [49])] ∧
    (runQuery exRemove pf0 Select.exStore .batch 2 false).world.log = [⟨.batchDelete [[97], [99]], false⟩] := by
  obtain ⟨h1, h3⟩ := exRemove_hyps
  obtain ⟨pos, hplan⟩ := isRemove_sound h1
  obtain ⟨_, _, r3, r4⟩ := run_remove_correct exRemove pf0 pos _ hplan _ (removeEvalIs_sound h3) Select.exStore .batch 2
    (by decide) false
  refine ⟨?_, ?_⟩
  · rw [r3]; decide
  · rw [r4]; rfl

/-- a REMOVE whose second key expression fails (`1 / int('x')`: division by zero): nothing is removed -/
def exRemoveFail : Bytes := asciiBytes "remove 'a', str(1 / int('x'))"

def removeEvalFails (keys : List Expr) : Bool :=
  match removeEval keys with
  | .ok _ => false
  | .error _ => true

theorem exRemoveFail_hyps : isRemove (planStage pf0 (Lexer.split exRemoveFail)) = true ∧
    removeEvalFails (removeKeysOf (planStage pf0 (Lexer.split exRemoveFail))) = true := by
  refine ⟨?_, ?_⟩ <;> decide +kernel

example (store : Store) : (runQuery exRemoveFail pf0 store .next 1 false).world.store = store ∧
    (runQuery exRemoveFail pf0 store .next 1 false).world.log = [] := by
  obtain ⟨h1, h3⟩ := exRemoveFail_hyps
  obtain ⟨pos, hplan⟩ := isRemove_sound h1
  unfold removeEvalFails at h3
  split at h3
  · cases h3
  · rename_i e he
    obtain ⟨_, _, r3, r4⟩ := run_remove_all_or_nothing exRemoveFail pf0 pos _ hplan e he store .next 1 (by decide) false
    exact ⟨r3, r4⟩

/-- (3): after `exPut`, `select * where key = 'b'` returns the pair (b, b!) — the LAST value written for b -/
def exSelectB : Bytes := asciiBytes "select * where key = 'b'"

def selectKeyHyps (r : Res Stmt) (k : Bytes) : Bool :=
  match r with
  | .ok (.select s) =>
    s.allFields && s.order.isNone && s.limit.isNone &&
    (match finalPlanCheck s with | .ok false => true | _ => false) &&
    (match s.where_ with
     | .binop _ .eq (.field _ .key) (.str _ k') => k' == k
     | _ => false)
  | _ => false

theorem exSelectB_hyps : selectKeyHyps (planStage pf0 (Lexer.split exSelectB)) [98] = true := by decide +kernel

example : (runQuery exSelectB pf0 (runQuery exPut pf0 Select.exStore .batch 2 true).world.store .batch 3 false).rows =
    [pairRow ([98], [98, 33])] := by
  obtain ⟨h1, h3⟩ := exPut_hyps
  obtain ⟨pos, hplan1⟩ := isPut_sound h1
  have hsel := exSelectB_hyps
  unfold selectKeyHyps at hsel
  split at hsel
  · rename_i s hplan2
    simp only [Bool.and_eq_true, Option.isNone_iff_eq_none] at hsel
    obtain ⟨⟨⟨⟨g1, g2⟩, g3⟩, g4⟩, g5⟩ := hsel
    have g4' : finalPlanCheck s = .ok false := by
      split at g4
      · assumption
      · cases g4
    split at g5
    · rename_i pp p1 p2 k' hw
      have hk : k' = [98] := eq_of_beq g5
      subst hk
      exact (run_put_then_select exPut exSelectB pf0 pos _ hplan1 _ (putEvalIs_sound h3) [98] [98, 33] (by decide)
        s hplan2 g1 g2 g3 g4' hw Select.exStore (by decide) .batch 2 (by decide) true .batch 3 (by decide) false).2
    · cases g5
  · cases hsel

end Kvql.Properties.E2EWrite
