/-
  E2ERegion  C18 ("key-pinning filters read only the pinned region"), C02 and C13 ("SELECT is read-only")
  for WHOLE STATEMENTS, given as text, over the end-to-end model `Kvql.Run.runQuery` (Model/Run.lean):
  what the statement READS FROM STORAGE — the call log `(runQuery …).world.log` of the storage machine
  (Model/Storage.lean) — for every accepted SELECT (`*`, fields, ORDER BY, LIMIT, aggregates, GROUP BY)
  and every accepted DELETE (DeletePlan over a scan, DeletePlan over LimitPlan, RemovePlan shortcut), on
  every strictly ordered store, in both polling modes, at every batch size, with the cache on or off,
  whether the statement succeeds or fails while running.  No hypothesis on the statement beyond
  `planStage` accepting the text.

  Vocabulary (defined below, readably):
    `foldedWhere stmt`  the WHERE after `Optimize()` (constant folding; alias references re-pointed)
    `accessPath stmt`   the plan node built for it: EMPTY / MGET keys / PREFIX p / RANGE lo hi / FULL
    `Region node k`     the keys the node stands for
    `regionStart`       where `Seek` goes;  `regionKeys`: the stored keys of the region, in key order
    `firstBeyond`       the first stored key past the region (the one that tells the scan to stop)
    `script node store` the calls of a COMPLETE run: `Init` twice (`BuildPlan` initialises twice, and
                        only the second cursor is ever read), then `Next` of every stored key of the
                        region in order, then ONE more `Next` — `firstBeyond`, or `Next->end`;
                        for MGET `Get` of each listed key, once, in order; for EMPTY nothing.

  (4) `run_log_shape`         SELECT: the store is unchanged and the log is a PREFIX of `script` (un-faulted
                              entries); it is the WHOLE script when the statement has no LIMIT and does
                              not fail.  Hence: `Cursor; Seek?; Cursor; Seek?; Next*`, reads only
                              (`run_select_read_only`: C13 for every SELECT kind, any store), and after the
                              end of the scan was seen nothing more is read (`run_finished_scan_reads_no_more`).
  (1) `run_reads_only_region` SELECT, `run_delete_reads_only_region` DELETE: every key handed out by `Next`
                              is a stored key of the region or THE one key beyond it, the `Next` keys are
                              a prefix of `regionKeys ++ [firstBeyond]` (so at most one key beyond, last),
                              every `Get` asks a listed key and the `Get` keys are a prefix of the
                              (strictly ascending) list, `Seek` goes to the region's start, EMPTY reads
                              nothing.  `run_reads_whole_region`: without LIMIT and failure exactly these.
                              DELETE: every other entry is `Delete` / `BatchDelete`, and the RemovePlan
                              shortcut reads NOTHING (`run_delete_shortcut_reads_nothing`).
      `run_unsat_reads_nothing`  two conjuncts of the folded clause whose scan types intersect to EMPTY
                              (C18 `unsat_reads_nothing`): the log of the SELECT is empty.
  (2) `run_region_from_text`  relative to the WHERE as WRITTEN: for a conjunct `c` of the parsed WHERE that
                              is a key-pinning atom (`pinOf c = some R`; literal on either side): folding
                              keeps it, the access path is never FULL, its region lies within the region
                              inferred for ONE pinning conjunct of the folded clause (C18 `and_narrows`);
                              if `c` is an equality / IN atom the statement opens no cursor and reads only
                              keys of `c`'s own list (`run_point_reads_from_text`); if `c` is the only
                              pinning conjunct every key read lies in `R` or is the one key beyond
                              (`run_sole_pin_reads_from_text`).  "Within THE atom's own region" is false
                              for PREFIX / RANGE atoms in general: `key ^= 'k' & key between 'k1' and 'l8'`
                              is planned RANGE["k1","l8"] (pinned by TestOptimizers), which is why C18
                              says "one of its conjuncts".
                              `run_delete_point_reads_from_text`, `run_delete_sole_pin_reads_from_text`: DELETE.
  C02 `run_reads_cover_filter`  a SELECT without LIMIT that does not fail reads EVERY stored key on which its
                              folded WHERE can hold (any evaluator bounded by the documented meaning of the key
                              atoms, C02 `Sem`): with (1), it reads what it must and nothing outside the region.
                              (That the ROWS are the filtered store: E2E / E2EWrite / E2EFields / E2EAggr.)
  Statement kinds covered, all `full`: every SELECT kind, every DELETE path.  PUT / REMOVE have no WHERE
  (their logs: E2EWrite).  Not stated: the completeness half (`run_reads_whole_region`,
  `run_reads_cover_filter`) for DELETE and for SELECT with LIMIT (a LIMIT stops polling early: only the
  prefix statement holds, and `limit 0` reads nothing but the two `Init`s).
-/
import Kvql.Proofs.RunRegionMain
import Kvql.Proofs.RunRegionText
import Kvql.Properties.E2EWrite
import Kvql.Proofs.RunFieldsRow
import Kvql.Properties.C02

namespace Kvql.Properties.E2ERegion

open Kvql Kvql.Plans
open Kvql.Storage (Store Call Entry)
open Kvql.Run (runQuery runStmt foldSelect nodeOf)
open Kvql.PlanCheck (planStage)
open Kvql.Scan (Conjunct conjuncts pinned region optimizeExpr andScan KeyRegion pinOf)
open Kvql.Proofs
open Kvql.Proofs.RunRegion (IsDel readsOf nextKeys getKeys)

/-! ## the region of a statement -/

/-- the WHERE of a SELECT / DELETE after `Optimize()`; `none`: folding panics (the statement is refused) -/
def foldedWhere : Stmt → Option Expr
  | .select s => match foldSelect s with
    | .ok f => some f.where_
    | .error _ => none
  | .delete _ _ w _ => match Fold.optimize w with
    | .ok fw => some fw
    | .error _ => none
  | _ => none

/-- the access path: the plan node `buildScanPlan` builds from the scan type inferred for the folded WHERE -/
def accessPath (stmt : Stmt) : ScanNode :=
  match foldedWhere stmt with
  | some fw => nodeOf (Scan.optimize fw)
  | none => .empty

/-- the REGION of an access path: the keys it stands for -/
def Region : ScanNode → Bytes → Prop
  | .empty, _ => False
  | .mget ks, k => k ∈ ks
  | .prefix p, k => p <+: k
  | .range lo hi, k => (∀ l, lo = some l → l ≤ k) ∧ (∀ h, hi = some h → k ≤ h)
  | .full, _ => True

/-- where the scan starts: the key `Seek` goes to (`none`: no `Seek` — an unbounded start, or no cursor) -/
def regionStart : ScanNode → Option Bytes
  | .full => some []
  | .prefix p => some p
  | .range lo _ => lo
  | _ => none

/-- the stored keys of the region, in key order -/
def regionKeys (node : ScanNode) (store : Store) : List Bytes :=
  (store.filter (fun p => node.inRegion p.1)).map (·.1)

/-- the first stored key PAST the region: not before the start, outside the region -/
def firstBeyond (node : ScanNode) (store : Store) : Option Bytes :=
  (store.find? (fun p => ScanNode.aboveLow (regionStart node) p.1 && !node.inRegion p.1)).map (·.1)

/-- the keys a MultiGet lists -/
def listedKeys : ScanNode → List Bytes
  | .mget ks => ks
  | _ => []

/-- the calls of one `Init`: `Cursor`, then `Seek start` if there is a start -/
def initCalls (node : ScanNode) : List Call :=
  if node.isCursorScan then .cursor :: (match regionStart node with | some a => [.seek a] | none => []) else []

/-- the reads of a complete scan -/
def readCalls (node : ScanNode) (store : Store) : List Call :=
  match node with
  | .empty => []
  | .mget ks => ks.map .get
  | _ => (regionKeys node store).map (fun k => .next (some k)) ++ [.next (firstBeyond node store)]

/-- the complete script of a statement over an access path -/
def script (node : ScanNode) (store : Store) : List Call :=
  initCalls node ++ initCalls node ++ readCalls node store

/-- calls as un-faulted log entries -/
def called (cs : List Call) : List Entry := cs.map (fun c => ⟨c, false⟩)

/-! the definitions above are the ones the proofs use -/

theorem region_iff (node : ScanNode) (k : Bytes) : Region node k ↔ node.inRegion k = true := by
  cases node with
  | empty => simp [Region, ScanNode.inRegion]
  | mget ks => simp [Region, ScanNode.inRegion]
  | «prefix» p => simp [Region, ScanNode.inRegion, List.isPrefixOf_iff_prefix]
  | range lo hi => cases lo <;> cases hi <;> simp [Region, ScanNode.inRegion, ScanNode.aboveLow, ScanNode.belowHigh]
  | full => simp [Region, ScanNode.inRegion]

theorem accessPath_select (s : SelectS) : accessPath (.select s) = RunRegion.selectNode s := by
  cases h : foldSelect s <;> simp [accessPath, foldedWhere, RunRegion.selectNode, h]

theorem accessPath_delete (pos wpos : Nat) (w : Expr) (lim : Option LimitS) :
    accessPath (.delete pos wpos w lim) = RunRegion.deleteNode w := by
  cases h : Fold.optimize w <;> simp [accessPath, foldedWhere, RunRegion.deleteNode, h]

theorem foldedWhere_select {s : SelectS} {fw : Expr} (h : foldedWhere (.select s) = some fw) :
    ∃ f, foldSelect s = .ok f ∧ f.where_ = fw := by
  cases hf : foldSelect s with
  | error e => simp [foldedWhere, hf] at h
  | ok f => simp [foldedWhere, hf] at h; exact ⟨f, rfl, h⟩

theorem foldedWhere_delete {pos wpos : Nat} {w : Expr} {lim : Option LimitS} {fw : Expr}
    (h : foldedWhere (.delete pos wpos w lim) = some fw) : Fold.optimize w = .ok fw := by
  cases hf : Fold.optimize w with
  | error e => simp [foldedWhere, hf] at h
  | ok x => simp [foldedWhere, hf] at h; rw [h]

theorem regionStart_eq : regionStart = RunRegion.regionStart := by
  funext node; cases node <;> rfl

theorem firstBeyond_eq (node : ScanNode) (store : Store) : firstBeyond node store = RunRegion.firstBeyond node store := by
  unfold firstBeyond RunRegion.firstBeyond; rw [regionStart_eq]

theorem listedKeys_eq : listedKeys = RunRegion.listedKeys := by
  funext node; cases node <;> rfl

theorem script_eq (node : ScanNode) (store : Store) : script node store = RunRegion.script node store := by
  have h1 : initCalls node = RunRegion.initScript node := by
    cases node with
    | range a b => cases a <;> rfl
    | _ => rfl
  have h2 : readCalls node store = RunRegion.readScript node store := by
    cases node <;> simp only [readCalls, RunRegion.readScript, firstBeyond_eq] <;> rfl
  unfold script RunRegion.script
  rw [h1, h2]

theorem called_eq (cs : List Call) : called cs = RunRegion.entries cs := rfl

/-- the listed keys of an access path are strictly ascending: each key is listed once -/
theorem listedKeys_ascending (stmt : Stmt) : (listedKeys (accessPath stmt)).Pairwise (· < ·) := by
  unfold accessPath
  cases foldedWhere stmt with
  | none => simp [listedKeys]
  | some fw =>
    simp only
    have := Kvql.Proofs.RunFields.nodeOf_wf fw
    cases h : nodeOf (Scan.optimize fw) with
    | mget ks => rw [h] at this; exact this
    | _ => simp [listedKeys]

/-! ## (4) the call log of a SELECT -/

/-- (4) **the shape of the call log of every SELECT.** -/
theorem run_log_shape (query : Bytes) (pf : Bytes → F64) (s : SelectS)
    (hplan : planStage pf (Lexer.split query) = .ok (.select s))
    (store : Store) (hs : store.Sorted) (kind : PollKind) (bs : Nat) (cache : Bool) :
    (runQuery query pf store kind bs cache).world.store = store ∧
    (runQuery query pf store kind bs cache).world.log <+: called (script (accessPath (.select s)) store) ∧
    ((runQuery query pf store kind bs cache).fail = none → s.limit = none →
      (runQuery query pf store kind bs cache).world.log = called (script (accessPath (.select s)) store)) := by
  rw [Kvql.Proofs.RunWrite.runQuery_of_plan hplan, accessPath_select, script_eq, called_eq]
  exact RunRegion.select_log s hs kind bs cache

/-- (4) **C13 end to end: every SELECT is read-only** — on every store, sorted or not: the store is
    unchanged, every log entry is a read call that did not fail (no Put / BatchPut / Delete / BatchDelete). -/
theorem run_select_read_only (query : Bytes) (pf : Bytes → F64) (s : SelectS)
    (hplan : planStage pf (Lexer.split query) = .ok (.select s))
    (store : Store) (kind : PollKind) (bs : Nat) (cache : Bool) :
    (runQuery query pf store kind bs cache).world.store = store ∧
    ∀ e ∈ (runQuery query pf store kind bs cache).world.log, e.call.isRead = true ∧ e.fault = false := by
  rw [Kvql.Proofs.RunWrite.runQuery_of_plan hplan]
  exact RunRegion.select_read_only s store kind bs cache

/-- (4) **a finished scan issues no further read**: once the log contains the call that ends the scan —
    `Next` handing out the key beyond the region, or `Next->end` — the log is the whole script, of which
    that call is the last. -/
theorem run_finished_scan_reads_no_more (query : Bytes) (pf : Bytes → F64) (s : SelectS)
    (hplan : planStage pf (Lexer.split query) = .ok (.select s))
    (store : Store) (hs : store.Sorted) (kind : PollKind) (bs : Nat) (cache : Bool)
    (hend : (⟨.next (firstBeyond (accessPath (.select s)) store), false⟩ : Entry) ∈
      (runQuery query pf store kind bs cache).world.log) :
    (runQuery query pf store kind bs cache).world.log = called (script (accessPath (.select s)) store) ∧
    ∃ before, script (accessPath (.select s)) store = before ++ [.next (firstBeyond (accessPath (.select s)) store)] ∧
      Call.next (firstBeyond (accessPath (.select s)) store) ∉ before := by
  have hp := (run_log_shape query pf s hplan store hs kind bs cache).2.1
  rw [script_eq, called_eq] at hp ⊢
  rw [firstBeyond_eq] at hend ⊢
  have hall := RunRegion.finished_is_all hp hend
  refine ⟨hall, ?_⟩
  have hmem := List.IsPrefix.mem hend hp
  simp only [RunRegion.entries, List.mem_map, Entry.mk.injEq] at hmem
  obtain ⟨c, hc, hce, _⟩ := hmem
  subst hce
  have hcur : (accessPath (.select s)).isCursorScan = true := by
    rcases RunRegion.mem_script hc with h | ⟨a, h, _⟩ | ⟨k, _, h, _⟩ | h | ⟨k, h, _⟩
    · cases h.1
    · cases h
    · exact h
    · exact h.2.1
    · cases h
  exact RunRegion.script_marker _ store hcur

/-! ## (1) reads only the region -/

/-- what it means for a log to read only the region of `node` over `store` -/
structure ReadsOnlyRegion (node : ScanNode) (store : Store) (log : List Entry) : Prop where
  /-- a key handed out by `Next` is a stored key of the region, or the one key beyond it -/
  next : ∀ e ∈ log, ∀ k, e.call = .next (some k) → (Region node k ∨ firstBeyond node store = some k) ∧ k ∈ store.keys
  /-- in order, each once, at most ONE key beyond the region's end, and it comes last -/
  nextKeys : nextKeys log <+: regionKeys node store ++ (firstBeyond node store).toList
  /-- `Get` asks listed keys only … -/
  get : ∀ e ∈ log, ∀ k, e.call = .get k → k ∈ listedKeys node
  /-- … in the order of the (strictly ascending) list, each at most once -/
  getKeys : getKeys log <+: listedKeys node
  /-- `Seek` goes to the region's start -/
  seek : ∀ e ∈ log, ∀ a, e.call = .seek a → regionStart node = some a
  /-- cursor calls only for cursor scans (PREFIX / RANGE / FULL), `Get` only for MGET -/
  cursorCalls : ∀ e ∈ log, (e.call = .cursor ∨ (∃ a, e.call = .seek a) ∨ (∃ k, e.call = .next k)) →
    node.isCursorScan = true
  /-- no read call failed -/
  unfaulted : ∀ e ∈ log, e.call.isRead = true → e.fault = false
  /-- EMPTY: no read at all -/
  empty : node = .empty → ∀ e ∈ log, e.call.isRead = false

theorem readsOnlyRegion_of {node : ScanNode} {store : Store} {log : List Entry}
    (h : readsOf log <+: RunRegion.entries (RunRegion.script node store)) : ReadsOnlyRegion node store log := by
  obtain ⟨h1, h2, h3, h4, h5, h6, h7, h8⟩ := RunRegion.reads_within h
  refine ⟨?_, ?_, ?_, ?_, ?_, h4, h7, ?_⟩
  · intro e he k hk
    obtain ⟨a, b⟩ := h1 e he k hk
    rw [region_iff, firstBeyond_eq]
    exact ⟨a, b⟩
  · rw [firstBeyond_eq]; exact h5
  · rw [listedKeys_eq]; exact h2
  · rw [listedKeys_eq]; exact h6
  · rw [regionStart_eq]; exact h3
  · intro hn e he
    have := h8 hn
    cases hr : e.call.isRead with
    | false => rfl
    | true =>
      have hm : e ∈ readsOf log := List.mem_filter.mpr ⟨he, hr⟩
      rw [this] at hm; cases hm

/-- (1) **every SELECT reads only the region of its access path.** -/
theorem run_reads_only_region (query : Bytes) (pf : Bytes → F64) (s : SelectS)
    (hplan : planStage pf (Lexer.split query) = .ok (.select s))
    (store : Store) (hs : store.Sorted) (kind : PollKind) (bs : Nat) (cache : Bool) :
    ReadsOnlyRegion (accessPath (.select s)) store (runQuery query pf store kind bs cache).world.log := by
  rw [Kvql.Proofs.RunWrite.runQuery_of_plan hplan, accessPath_select]
  exact readsOnlyRegion_of (RunRegion.select_reads_prefix s hs kind bs cache)

/-- (1) … and a SELECT without LIMIT that does not fail reads EXACTLY that: every stored key of the
    region, once, in key order, then the one key beyond (if there is one); every listed key, once. -/
theorem run_reads_whole_region (query : Bytes) (pf : Bytes → F64) (s : SelectS)
    (hplan : planStage pf (Lexer.split query) = .ok (.select s))
    (store : Store) (hs : store.Sorted) (kind : PollKind) (bs : Nat) (cache : Bool)
    (hok : (runQuery query pf store kind bs cache).fail = none) (hlim : s.limit = none) :
    nextKeys (runQuery query pf store kind bs cache).world.log =
      (if (accessPath (.select s)).isCursorScan then
        regionKeys (accessPath (.select s)) store ++ (firstBeyond (accessPath (.select s)) store).toList else []) ∧
    getKeys (runQuery query pf store kind bs cache).world.log = listedKeys (accessPath (.select s)) := by
  rw [(run_log_shape query pf s hplan store hs kind bs cache).2.2 hok hlim, script_eq, called_eq,
    RunRegion.nextKeys_script, RunRegion.getKeys_script, firstBeyond_eq, listedKeys_eq]
  exact ⟨rfl, rfl⟩

/-- (1) **every DELETE reads only the region of its access path** (the cursors are snapshots: the region
    is over the store BEFORE the statement), and whatever else it calls is `Delete` / `BatchDelete`. -/
theorem run_delete_reads_only_region (query : Bytes) (pf : Bytes → F64) (pos wpos : Nat) (w : Expr)
    (lim : Option LimitS) (hplan : planStage pf (Lexer.split query) = .ok (.delete pos wpos w lim))
    (store : Store) (hs : store.Sorted) (kind : PollKind) (bs : Nat) (cache : Bool) :
    ReadsOnlyRegion (accessPath (.delete pos wpos w lim)) store (runQuery query pf store kind bs cache).world.log ∧
    ∀ e ∈ (runQuery query pf store kind bs cache).world.log, e.call.isRead = true ∨ IsDel e := by
  rw [Kvql.Proofs.RunWrite.runQuery_of_plan hplan, accessPath_delete]
  obtain ⟨h1, h2⟩ := RunRegion.delete_log pos wpos w lim hs kind bs cache
  exact ⟨readsOnlyRegion_of h1, h2⟩

/-- (3) **the RemovePlan shortcut reads nothing**: a DELETE without LIMIT whose folded WHERE has no
    `&` / `and` and is inferred MGET issues `Delete` / `BatchDelete` only (any store). -/
theorem run_delete_shortcut_reads_nothing (query : Bytes) (pf : Bytes → F64) (pos wpos : Nat) (w : Expr)
    (hplan : planStage pf (Lexer.split query) = .ok (.delete pos wpos w none))
    (fw : Expr) (hfw : foldedWhere (.delete pos wpos w none) = some fw) (hna : Scan.hasAndOp fw = false)
    (keys : List Bytes) (hm : accessPath (.delete pos wpos w none) = .mget keys)
    (store : Store) (kind : PollKind) (bs : Nat) (cache : Bool) :
    ∀ e ∈ (runQuery query pf store kind bs cache).world.log, IsDel e := by
  rw [Kvql.Proofs.RunWrite.runQuery_of_plan hplan]
  have hf : Fold.optimize w = .ok fw := foldedWhere_delete hfw
  have hn : nodeOf (Scan.optimize fw) = .mget keys := by
    rw [← hm]; unfold accessPath; rw [hfw]
  exact (RunRegion.runStmt_delete_world pos wpos w none store kind bs cache).2 fw keys hf hn rfl hna

/-- (1) **unsatisfiable key conditions read nothing** (C18 `unsat_reads_nothing`, end to end): two conjuncts
    of the folded clause — an earlier and a later one, anywhere in the nesting — whose inferred scan types
    intersect to EMPTY: the call log of the SELECT is empty. -/
theorem run_unsat_reads_nothing (query : Bytes) (pf : Bytes → F64) (s : SelectS)
    (hplan : planStage pf (Lexer.split query) = .ok (.select s))
    (fw : Expr) (hfw : foldedWhere (.select s) = some fw) {s1 s2 : Scan.Scan}
    (hk : [s1, s2].Sublist ((conjuncts fw).map optimizeExpr)) (hu : andScan s1 s2 = .empty)
    (store : Store) (hs : store.Sorted) (kind : PollKind) (bs : Nat) (cache : Bool) :
    accessPath (.select s) = .empty ∧ (runQuery query pf store kind bs cache).world.log = [] := by
  have he : accessPath (.select s) = .empty := by
    unfold accessPath; rw [hfw]
    exact RunRegion.nodeOf_empty (Kvql.Scan.unsat_reads_nothing fw hk hu)
  refine ⟨he, ?_⟩
  have := (run_log_shape query pf s hplan store hs kind bs cache).2.1
  rw [he] at this
  exact List.prefix_nil.mp this

/-! ## (2) relative to the WHERE as written -/

/-- `c` is a conjunct of the folded clause, or the clause folded to the literal `false` -/
def KeptByFolding (c fw : Expr) : Prop := Conjunct c fw ∨ ∃ p, fw = Fold.mkBool p false

/-- the parsed WHERE of a SELECT / DELETE -/
def parsedWhere : Stmt → Option Expr
  | .select s => some s.where_
  | .delete _ _ w _ => some w
  | _ => none

/-- (2) **the region relative to the text.**  `c`: a conjunct of the PARSED WHERE (any nesting of `&` /
    `and`) that is a key-pinning atom, `R = pinOf c` the set / prefix / closed range it stands for as
    written.  Then, for the folded clause `fw` and the access path built from it: -/
theorem run_region_from_text (stmt : Stmt) (w : Expr) (hw : parsedWhere stmt = some w)
    (c : Expr) (hc : Conjunct c w) (R : KeyRegion) (hR : pinOf c = some R)
    (fw : Expr) (hfw : foldedWhere stmt = some fw) :
    -- folding keeps the atom
    KeptByFolding c fw ∧
    -- the statement is narrowed: never a full scan
    accessPath stmt ≠ .full ∧
    -- AND narrows: the region lies within the region inferred for ONE pinning conjunct
    (∃ c' ∈ conjuncts fw, pinned (optimizeExpr c') ∧ ∀ k, Region (accessPath stmt) k → region (optimizeExpr c') k) ∧
    -- an equality / IN atom: point reads of ITS keys only
    (∀ ks, R = .keys ks → (accessPath stmt).isCursorScan = false ∧ ∀ k, Region (accessPath stmt) k → k ∈ ks) ∧
    -- the only pinning conjunct: within the region as written
    ((∀ c' ∈ conjuncts fw, c' ≠ c → optimizeExpr c' = .full) → ∀ k, Region (accessPath stmt) k → R.mem k) := by
  have hnode : accessPath stmt = nodeOf (Scan.optimize fw) := by unfold accessPath; rw [hfw]
  have ht : RunRegion.FromText c R fw := by
    cases stmt with
    | select s =>
      simp only [parsedWhere, Option.some.injEq] at hw
      subst hw
      obtain ⟨f, hf, rfl⟩ := foldedWhere_select hfw
      exact RunRegion.fromText_select hc hR hf
    | delete pos wpos w' lim =>
      simp only [parsedWhere, Option.some.injEq] at hw
      subst hw
      exact RunRegion.fromText_delete hc hR (foldedWhere_delete hfw)
    | put _ _ => cases hw
    | remove _ _ => cases hw
  rw [hnode]
  refine ⟨ht.kept, ht.narrowed, ?_, ?_, ?_⟩
  · obtain ⟨c', h1, h2, h3⟩ := ht.one
    exact ⟨c', h1, h2, fun k hk => h3 k ((region_iff _ _).mp hk)⟩
  · intro ks hks
    obtain ⟨h1, h2⟩ := ht.point ks hks
    exact ⟨h1, fun k hk => h2 k ((region_iff _ _).mp hk)⟩
  · intro hsole k hk
    exact ht.sole hsole k ((region_iff _ _).mp hk)

/-- (2) **a SELECT with a conjunct `key = 'k'` / `'k' = key` / `key in (…)` in its text** opens no cursor and
    `Get`-reads only keys of THAT conjunct's list (a prefix of the ascending list the plan keeps of them),
    whatever the other conjuncts are. -/
theorem run_point_reads_from_text (query : Bytes) (pf : Bytes → F64) (s : SelectS)
    (hplan : planStage pf (Lexer.split query) = .ok (.select s))
    (c : Expr) (hc : Conjunct c s.where_) (ks : List Bytes) (hR : pinOf c = some (.keys ks))
    (store : Store) (hs : store.Sorted) (kind : PollKind) (bs : Nat) (cache : Bool) :
    (∀ e ∈ (runQuery query pf store kind bs cache).world.log, ∃ k, e = ⟨.get k, false⟩ ∧ k ∈ ks) ∧
    getKeys (runQuery query pf store kind bs cache).world.log <+: listedKeys (accessPath (.select s)) ∧
    ∀ k ∈ listedKeys (accessPath (.select s)), k ∈ ks := by
  have hr := run_reads_only_region query pf s hplan store hs kind bs cache
  have hro := (run_select_read_only query pf s hplan store kind bs cache).2
  cases hfw : foldedWhere (.select s) with
  | none =>
    have he : accessPath (.select s) = .empty := by unfold accessPath; rw [hfw]
    refine ⟨fun e he' => ?_, hr.getKeys, by rw [he]; simp [listedKeys]⟩
    have := hr.empty he e he'
    rw [(hro e he').1] at this; cases this
  | some fw =>
    obtain ⟨_, _, _, hpoint, _⟩ := run_region_from_text (.select s) s.where_ rfl c hc (.keys ks) hR fw hfw
    obtain ⟨hnc, hin⟩ := hpoint ks rfl
    have hlist : ∀ k ∈ listedKeys (accessPath (.select s)), k ∈ ks := by
      intro k hk
      apply hin
      cases hn : accessPath (.select s) with
      | mget l => rw [hn] at hk; exact hk
      | _ => rw [hn] at hk; simp [listedKeys] at hk
    refine ⟨fun e he' => ?_, hr.getKeys, hlist⟩
    obtain ⟨hread, hfault⟩ := hro e he'
    cases hcall : e.call with
    | get k =>
      refine ⟨k, ?_, hlist k (hr.get e he' k hcall)⟩
      cases e; simp_all
    | cursor => have := hr.cursorCalls e he' (.inl hcall); rw [hnc] at this; cases this
    | seek a => have := hr.cursorCalls e he' (.inr (.inl ⟨a, hcall⟩)); rw [hnc] at this; cases this
    | next k => have := hr.cursorCalls e he' (.inr (.inr ⟨k, hcall⟩)); rw [hnc] at this; cases this
    | put k v => rw [hcall] at hread; cases hread
    | batchPut kvs => rw [hcall] at hread; cases hread
    | delete k => rw [hcall] at hread; cases hread
    | batchDelete l => rw [hcall] at hread; cases hread

/-- (2) **a SELECT whose text has ONE key-pinning conjunct** (every other conjunct of the folded clause is
    inferred FULL — predicates that do not constrain the key): every key handed out by `Next` lies in the
    region `R` the conjunct pins AS WRITTEN or is the one stored key beyond it; every `Get` key lies in `R`. -/
theorem run_sole_pin_reads_from_text (query : Bytes) (pf : Bytes → F64) (s : SelectS)
    (hplan : planStage pf (Lexer.split query) = .ok (.select s))
    (c : Expr) (hc : Conjunct c s.where_) (R : KeyRegion) (hR : pinOf c = some R)
    (fw : Expr) (hfw : foldedWhere (.select s) = some fw)
    (hsole : ∀ c' ∈ conjuncts fw, c' ≠ c → optimizeExpr c' = .full)
    (store : Store) (hs : store.Sorted) (kind : PollKind) (bs : Nat) (cache : Bool) :
    (∀ e ∈ (runQuery query pf store kind bs cache).world.log, ∀ k, e.call = .next (some k) →
      R.mem k ∨ firstBeyond (accessPath (.select s)) store = some k) ∧
    (∀ e ∈ (runQuery query pf store kind bs cache).world.log, ∀ k, e.call = .get k → R.mem k) := by
  have hr := run_reads_only_region query pf s hplan store hs kind bs cache
  obtain ⟨_, _, _, _, hs'⟩ := run_region_from_text (.select s) s.where_ rfl c hc R hR fw hfw
  have hin := hs' hsole
  refine ⟨fun e he k hk => ?_, fun e he k hk => ?_⟩
  · rcases (hr.next e he k hk).1 with h | h
    · exact .inl (hin k h)
    · exact .inr h
  · apply hin
    have := hr.get e he k hk
    cases hn : accessPath (.select s) with
    | mget l => rw [hn] at this; exact this
    | _ => rw [hn] at this; simp [listedKeys] at this

/-- (2), DELETE: the same two statements for a DELETE (its `Next` / `Get` entries). -/
theorem run_delete_sole_pin_reads_from_text (query : Bytes) (pf : Bytes → F64) (pos wpos : Nat) (w : Expr)
    (lim : Option LimitS) (hplan : planStage pf (Lexer.split query) = .ok (.delete pos wpos w lim))
    (c : Expr) (hc : Conjunct c w) (R : KeyRegion) (hR : pinOf c = some R)
    (fw : Expr) (hfw : foldedWhere (.delete pos wpos w lim) = some fw)
    (hsole : ∀ c' ∈ conjuncts fw, c' ≠ c → optimizeExpr c' = .full)
    (store : Store) (hs : store.Sorted) (kind : PollKind) (bs : Nat) (cache : Bool) :
    (∀ e ∈ (runQuery query pf store kind bs cache).world.log, ∀ k, e.call = .next (some k) →
      R.mem k ∨ firstBeyond (accessPath (.delete pos wpos w lim)) store = some k) ∧
    (∀ e ∈ (runQuery query pf store kind bs cache).world.log, ∀ k, e.call = .get k → R.mem k) := by
  have hr := (run_delete_reads_only_region query pf pos wpos w lim hplan store hs kind bs cache).1
  obtain ⟨_, _, _, _, hs'⟩ := run_region_from_text (.delete pos wpos w lim) w rfl c hc R hR fw hfw
  have hin := hs' hsole
  refine ⟨fun e he k hk => ?_, fun e he k hk => ?_⟩
  · rcases (hr.next e he k hk).1 with h | h
    · exact .inl (hin k h)
    · exact .inr h
  · apply hin
    have := hr.get e he k hk
    cases hn : accessPath (.delete pos wpos w lim) with
    | mget l => rw [hn] at this; exact this
    | _ => rw [hn] at this; simp [listedKeys] at this


/-- (2), DELETE with a conjunct `key = 'k'` / `'k' = key` / `key in (…)` in its text: no cursor is opened,
    every `Get` asks a key of THAT conjunct's list, everything else is `Delete` / `BatchDelete`. -/
theorem run_delete_point_reads_from_text (query : Bytes) (pf : Bytes → F64) (pos wpos : Nat) (w : Expr)
    (lim : Option LimitS) (hplan : planStage pf (Lexer.split query) = .ok (.delete pos wpos w lim))
    (c : Expr) (hc : Conjunct c w) (ks : List Bytes) (hR : pinOf c = some (.keys ks))
    (store : Store) (hs : store.Sorted) (kind : PollKind) (bs : Nat) (cache : Bool) :
    ∀ e ∈ (runQuery query pf store kind bs cache).world.log, (∃ k, e = ⟨.get k, false⟩ ∧ k ∈ ks) ∨ IsDel e := by
  obtain ⟨hr, hrest⟩ := run_delete_reads_only_region query pf pos wpos w lim hplan store hs kind bs cache
  intro e he
  rcases hrest e he with hread | hdel
  · left
    cases hfw : foldedWhere (.delete pos wpos w lim) with
    | none =>
      have hemp : accessPath (.delete pos wpos w lim) = .empty := by unfold accessPath; rw [hfw]
      have := hr.empty hemp e he
      rw [hread] at this; cases this
    | some fw =>
      obtain ⟨_, _, _, hpoint, _⟩ := run_region_from_text (.delete pos wpos w lim) w rfl c hc (.keys ks) hR fw hfw
      obtain ⟨hnc, hin⟩ := hpoint ks rfl
      have hlist : ∀ k ∈ listedKeys (accessPath (.delete pos wpos w lim)), k ∈ ks := by
        intro k hk
        apply hin
        cases hn : accessPath (.delete pos wpos w lim) with
        | mget l => rw [hn] at hk; exact hk
        | _ => rw [hn] at hk; simp [listedKeys] at hk
      have hfault := hr.unfaulted e he hread
      cases hcall : e.call with
      | get k =>
        refine ⟨k, ?_, hlist k (hr.get e he k hcall)⟩
        cases e; simp_all
      | cursor => have := hr.cursorCalls e he (.inl hcall); rw [hnc] at this; cases this
      | seek a => have := hr.cursorCalls e he (.inr (.inl ⟨a, hcall⟩)); rw [hnc] at this; cases this
      | next k => have := hr.cursorCalls e he (.inr (.inr ⟨k, hcall⟩)); rw [hnc] at this; cases this
      | put k v => rw [hcall] at hread; cases hread
      | batchPut kvs => rw [hcall] at hread; cases hread
      | delete k => rw [hcall] at hread; cases hread
      | batchDelete l => rw [hcall] at hread; cases hread
  · exact .inr hdel

/-! ## C02 at statement level: the reads cover the filter -/

/-- **C02 end to end**: a SELECT without LIMIT that does not fail READS every stored key on which its
    (folded) WHERE can hold — for every evaluator bounded by the documented meaning of the key atoms
    (`Scan.Sem`, C02; satisfied by the reference `Spec.canHold`): the key is handed out by `Next`, or asked
    for by `Get`.  With (1): the statement reads every key it has to, and only keys of the region. -/
theorem run_reads_cover_filter (query : Bytes) (pf : Bytes → F64) (s : SelectS)
    (hplan : planStage pf (Lexer.split query) = .ok (.select s))
    (fw : Expr) (hfw : foldedWhere (.select s) = some fw)
    {ev : Expr → Bytes → Bool} (S : Scan.Sem ev)
    (store : Store) (hs : store.Sorted) (kind : PollKind) (bs : Nat) (cache : Bool)
    (hok : (runQuery query pf store kind bs cache).fail = none) (hlim : s.limit = none) :
    ∀ p ∈ store, ev fw p.1 = true →
      p.1 ∈ nextKeys (runQuery query pf store kind bs cache).world.log ∨
      p.1 ∈ getKeys (runQuery query pf store kind bs cache).world.log := by
  obtain ⟨hn, hg⟩ := run_reads_whole_region query pf s hplan store hs kind bs cache hok hlim
  intro p hp hev
  have hreg : (accessPath (.select s)).inRegion p.1 = true := by
    have h1 := Kvql.Properties.C02.scan_plan_sound S fw p.1 hev
    have h2 := Select.inRegion_of_region h1
    unfold accessPath; rw [hfw, Kvql.Proofs.Run.nodeOf_eq]; exact h2
  rw [hn, hg]
  cases hnode : accessPath (.select s) with
  | empty => rw [hnode] at hreg; simp [ScanNode.inRegion] at hreg
  | mget ks =>
    right
    rw [hnode] at hreg
    simpa [ScanNode.inRegion, listedKeys] using hreg
  | full =>
    left
    rw [hnode] at hreg
    simp only [ScanNode.isCursorScan, if_true, List.mem_append]
    exact .inl (List.mem_map.mpr ⟨p, List.mem_filter.mpr ⟨hp, hreg⟩, rfl⟩)
  | «prefix» q =>
    left
    rw [hnode] at hreg
    simp only [ScanNode.isCursorScan, if_true, List.mem_append]
    exact .inl (List.mem_map.mpr ⟨p, List.mem_filter.mpr ⟨hp, hreg⟩, rfl⟩)
  | range a b =>
    left
    rw [hnode] at hreg
    simp only [ScanNode.isCursorScan, if_true, List.mem_append]
    exact .inl (List.mem_map.mpr ⟨p, List.mem_filter.mpr ⟨hp, hreg⟩, rfl⟩)

/-! ## non-vacuity: concrete texts and stores meeting every hypothesis -/

section examples
open Kvql.Properties.E2E (pf0 exQuery exW exQuery_hyps exQuery_where fold_exW)
open Kvql.Proofs.Typing (aliasFree)

/-- computable forms of "accepted as a SELECT / DELETE with this WHERE tree" -/
def selectWhereIs (r : Res Stmt) (w : Expr) : Bool :=
  match r with
  | .ok (.select s) => Expr.same s.where_ w
  | _ => false

def deleteWhereIs (r : Res Stmt) (w : Expr) (limited : Bool) : Bool :=
  match r with
  | .ok (.delete _ _ w' lim) => Expr.same w' w && (lim.isSome == limited)
  | _ => false

theorem selectWhereIs_sound {r : Res Stmt} {w : Expr} (h : selectWhereIs r w = true) :
    ∃ s, r = .ok (.select s) ∧ s.where_ = w := by
  unfold selectWhereIs at h
  split at h
  · rename_i s; exact ⟨s, rfl, Expr.eq_of_same _ _ h⟩
  · cases h

theorem deleteWhereIs_sound {r : Res Stmt} {w : Expr} {b : Bool} (h : deleteWhereIs r w b = true) :
    ∃ pos wpos lim, r = .ok (.delete pos wpos w lim) ∧ lim.isSome = b := by
  unfold deleteWhereIs at h
  split at h
  · rename_i pos wpos w' lim
    simp only [Bool.and_eq_true, beq_iff_eq] at h
    have := Expr.eq_of_same _ _ h.1
    subst this
    exact ⟨pos, wpos, lim, rfl, h.2⟩
  · cases h

/-- a WHERE that folding leaves alone and that has no alias reference is the folded WHERE -/
theorem foldedWhere_select_of_fold {s : SelectS} {fw : Expr} (hfold : Fold.optimize s.where_ = .ok fw)
    (haf : aliasFree fw = true) : foldedWhere (.select s) = some fw := by
  have hboth : ∃ n, Fold.optimizeBoth s.where_ = .ok (fw, n) := by
    unfold Fold.optimize at hfold
    cases hb : Fold.optimizeBoth s.where_ with
    | error e => rw [hb] at hfold; cases hfold
    | ok x =>
      obtain ⟨a, n⟩ := x
      rw [hb] at hfold
      simp only [Except.map, Except.ok.injEq] at hfold
      exact ⟨n, by rw [← hfold]⟩
  obtain ⟨n, hb⟩ := hboth
  obtain ⟨f, tbl, hf, hw⟩ := Kvql.Proofs.Run.foldSelect_ok s hb
  rw [Kvql.Proofs.RunFold.resolveTop_of_af tbl fw haf] at hw
  simp [foldedWhere, hf, hw]

theorem foldedWhere_delete_of_fold {pos wpos : Nat} {w fw : Expr} {lim : Option LimitS}
    (hfold : Fold.optimize w = .ok fw) : foldedWhere (.delete pos wpos w lim) = some fw := by
  simp [foldedWhere, hfold]

/-! ### A. `select * where key > 'a' & int(value) + 1 > 2` over {a=9, ab=5, b=1, c=7}: a RANGE scan -/

/-- the key-pinning conjunct of its text and the region it pins as written: the closed half-line from "a" -/
def exPin : Expr := .binop 19 .gt (.field 15 .key) (.str 21 [97])

example : Conjunct exPin exW ∧ pinOf exPin = some (.between (some [97]) none) := ⟨.andL .self, rfl⟩

/-- its access path, region and script (kernel evaluation of the definitions above) -/
theorem exA_script :
    nodeOf (Scan.optimize exW) = .range (some [97]) none ∧
    regionStart (.range (some [97]) none) = some [97] ∧
    regionKeys (.range (some [97]) none) Select.exStore = [[97], [97, 98], [98], [99]] ∧
    firstBeyond (.range (some [97]) none) Select.exStore = none ∧
    script (.range (some [97]) none) Select.exStore =
      [.cursor, .seek [97], .cursor, .seek [97],
       .next (some [97]), .next (some [97, 98]), .next (some [98]), .next (some [99]), .next none] := by
  refine ⟨by decide, rfl, by decide, by decide, by decide⟩

/-- every hypothesis of (4), (1) and (2) holds for the text, and the conclusions are the concrete log:
    in batch mode at batch size 2 with the cache on, and in row mode with the cache off, the statement
    leaves exactly `Cursor; Seek a; Cursor; Seek a; Next->a; Next->ab; Next->b; Next->c; Next->end` -/
example :
    (runQuery exQuery pf0 Select.exStore .batch 2 true).world.log =
      called [.cursor, .seek [97], .cursor, .seek [97],
        .next (some [97]), .next (some [97, 98]), .next (some [98]), .next (some [99]), .next none] ∧
    (runQuery exQuery pf0 Select.exStore .next 1 false).world.log =
      (runQuery exQuery pf0 Select.exStore .batch 2 true).world.log := by
  obtain ⟨s, hplan, h1, h2, h3, h4, h5, h6, h7, h8⟩ := Kvql.Proofs.Run.starHyps_sound exQuery_hyps
  have hw := exQuery_where
  rw [hplan] at hw
  have hwe : s.where_ = exW := Expr.eq_of_same _ _ hw
  have hfw : foldedWhere (.select s) = some exW :=
    foldedWhere_select_of_fold (by rw [hwe]; exact fold_exW) (by decide)
  have hnode : accessPath (.select s) = .range (some [97]) none := by
    unfold accessPath; rw [hfw]; exact exA_script.1
  have ok1 := (Kvql.Properties.E2EWrite.run_select_star_correct_batch exQuery pf0 s hplan h1 h2 h3 h4 h5 h6 h7
    Select.exStore (by decide) h8 2 (by decide) true).1
  have ok2 := (Kvql.Properties.E2E.run_select_star_correct exQuery pf0 s hplan h1 h2 h3 h4 h5 h6 h7
    Select.exStore (by decide) h8 1 (by decide) false).1
  have l1 := (run_log_shape exQuery pf0 s hplan Select.exStore (by decide) .batch 2 true).2.2 ok1 h3
  have l2 := (run_log_shape exQuery pf0 s hplan Select.exStore (by decide) .next 1 false).2.2 ok2 h3
  rw [hnode, exA_script.2.2.2.2] at l1 l2
  exact ⟨l1, by rw [l1, l2]⟩

/-- (2) on it: `key > 'a'` is the only conjunct that pins, so every key it reads is ≥ "a" (there is no
    key beyond the region: the range has no end) -/
example (kind : PollKind) (bs : Nat) (cache : Bool) :
    ∀ e ∈ (runQuery exQuery pf0 Select.exStore kind bs cache).world.log, ∀ k, e.call = .next (some k) → [97] ≤ k := by
  obtain ⟨s, hplan, _⟩ := Kvql.Proofs.Run.starHyps_sound exQuery_hyps
  have hw := exQuery_where
  rw [hplan] at hw
  have hwe : s.where_ = exW := Expr.eq_of_same _ _ hw
  have hfw : foldedWhere (.select s) = some exW :=
    foldedWhere_select_of_fold (by rw [hwe]; exact fold_exW) (by decide)
  have hnode : accessPath (.select s) = .range (some [97]) none := by
    unfold accessPath; rw [hfw]; exact exA_script.1
  have hsole : ∀ c' ∈ conjuncts exW, c' ≠ exPin → optimizeExpr c' = .full := by
    intro c' hc' hne
    simp only [exW, conjuncts, List.cons_append, List.nil_append, List.mem_cons, List.not_mem_nil, or_false] at hc'
    rcases hc' with h | h
    · exact absurd h hne
    · subst h; decide
  obtain ⟨hn, _⟩ := run_sole_pin_reads_from_text exQuery pf0 s hplan exPin (by rw [hwe]; exact .andL .self)
    (.between (some [97]) none) rfl exW hfw hsole Select.exStore (by decide) kind bs cache
  intro e he k hk
  rcases hn e he k hk with h | h
  · exact h.1 _ rfl
  · rw [hnode, exA_script.2.2.2.1] at h; cases h

/-- C02 on it: with the reference meaning `Spec.canHold` of the key atoms as the evaluator, the two stored
    keys on which the WHERE can hold for the key's sake (everything > "a": ab, b, c) are all read -/
example : ∀ p ∈ Select.exStore, Spec.canHold exW p.1 = true →
    p.1 ∈ nextKeys (runQuery exQuery pf0 Select.exStore .batch 2 true).world.log ∨
    p.1 ∈ getKeys (runQuery exQuery pf0 Select.exStore .batch 2 true).world.log := by
  obtain ⟨s, hplan, h1, h2, h3, h4, h5, h6, h7, h8⟩ := Kvql.Proofs.Run.starHyps_sound exQuery_hyps
  have hw := exQuery_where
  rw [hplan] at hw
  have hwe : s.where_ = exW := Expr.eq_of_same _ _ hw
  have hfw : foldedWhere (.select s) = some exW :=
    foldedWhere_select_of_fold (by rw [hwe]; exact fold_exW) (by decide)
  have ok1 := (Kvql.Properties.E2EWrite.run_select_star_correct_batch exQuery pf0 s hplan h1 h2 h3 h4 h5 h6 h7
    Select.exStore (by decide) h8 2 (by decide) true).1
  exact run_reads_cover_filter exQuery pf0 s hplan exW hfw Scan.canHold_sem Select.exStore (by decide) .batch 2 true ok1 h3

/-! ### B. `select * where key = 'b' & value = 'x'`: point read of `b`, nothing else -/

def exPointQ : Bytes := asciiBytes "select * where key = 'b' & value = 'x'"

def exPointW : Expr :=
  .binop 25 .and (.binop 19 .eq (.field 15 .key) (.str 21 [98])) (.binop 33 .eq (.field 27 .value) (.str 35 [120]))

theorem exPoint_accepted : selectWhereIs (planStage pf0 (Lexer.split exPointQ)) exPointW = true := by decide +kernel

example (store : Store) (hs : store.Sorted) (kind : PollKind) (bs : Nat) (cache : Bool) :
    ∀ e ∈ (runQuery exPointQ pf0 store kind bs cache).world.log, e = ⟨.get [98], false⟩ := by
  obtain ⟨s, hplan, hwe⟩ := selectWhereIs_sound exPoint_accepted
  obtain ⟨h, _⟩ := run_point_reads_from_text exPointQ pf0 s hplan (.binop 19 .eq (.field 15 .key) (.str 21 [98]))
    (by rw [hwe]; exact .andL .self) [[98]] rfl store hs kind bs cache
  intro e he
  obtain ⟨k, rfl, hk⟩ := h e he
  simp only [List.mem_singleton] at hk
  subst hk; rfl

/-! ### C. `select * where key = 'a' & key = 'b'`: unsatisfiable on its face, nothing is read -/

def exUnsatQ : Bytes := asciiBytes "select * where key = 'a' & key = 'b'"

def exUnsatW : Expr :=
  .binop 25 .and (.binop 19 .eq (.field 15 .key) (.str 21 [97])) (.binop 31 .eq (.field 27 .key) (.str 33 [98]))

theorem exUnsat_accepted : selectWhereIs (planStage pf0 (Lexer.split exUnsatQ)) exUnsatW = true := by decide +kernel

theorem fold_exUnsatW : Fold.optimize exUnsatW = .ok exUnsatW := by
  simp [exUnsatW, Fold.optimize, Fold.optimizeBoth, Fold.pass, Fold.reorder, Fold.binExec, Fold.operand, Fold.andOr,
    bind, Except.bind, Except.map, pure, Except.pure]

example (store : Store) (hs : store.Sorted) (kind : PollKind) (bs : Nat) (cache : Bool) :
    (runQuery exUnsatQ pf0 store kind bs cache).world.log = [] := by
  obtain ⟨s, hplan, hwe⟩ := selectWhereIs_sound exUnsat_accepted
  have hfw : foldedWhere (.select s) = some exUnsatW :=
    foldedWhere_select_of_fold (by rw [hwe]; exact fold_exUnsatW) (by decide)
  exact (run_unsat_reads_nothing exUnsatQ pf0 s hplan exUnsatW hfw (s1 := .mget [[97]]) (s2 := .mget [[98]])
    (by decide) (by decide) store hs kind bs cache).2

/-! ### D. DELETE: `delete where key > 'a' & int(value) + 1 > 2` (DeletePlan over a RANGE scan) and
    `delete where key in ('a', 'c')` (the RemovePlan shortcut) -/

example (kind : PollKind) (bs : Nat) (cache : Bool) :
    ReadsOnlyRegion (.range (some [97]) none) Select.exStore
      (runQuery Kvql.Properties.E2EWrite.exDelete pf0 Select.exStore kind bs cache).world.log := by
  obtain ⟨pos, wpos, w, lim, hplan, _⟩ := Kvql.Proofs.RunWrite.deleteHyps_sound Kvql.Properties.E2EWrite.exDelete_hyps.1
  have hw : w = Kvql.Properties.E2EWrite.exDW := by
    have := Kvql.Properties.E2EWrite.exDelete_where
    rw [hplan] at this
    exact this
  have hfold : Fold.optimize w = .ok Kvql.Properties.E2EWrite.exDW := by
    rw [hw]
    simp [Kvql.Properties.E2EWrite.exDW, Fold.optimize, Fold.optimizeBoth, Fold.pass, Fold.reorder, Fold.binExec,
      Fold.operand, Fold.andOr, Fold.callFold, Fold.optArgs, Fold.isLit4, bind, Except.bind, Except.map, pure, Except.pure]
  have hnode : accessPath (.delete pos wpos w lim) = .range (some [97]) none := by
    unfold accessPath; rw [foldedWhere_delete_of_fold hfold]; decide
  have := (run_delete_reads_only_region Kvql.Properties.E2EWrite.exDelete pf0 pos wpos w lim
    (by rw [← hplan]; rfl) Select.exStore (by decide) kind bs cache).1
  rw [hnode] at this
  exact this

def exShortcutQ : Bytes := asciiBytes "delete where key in ('a', 'c')"

def exShortcutW : Expr := .binop 17 .in_ (.field 13 .key) (.list 17 [.str 21 [97], .str 26 [99]])

theorem exShortcut_accepted : deleteWhereIs (planStage pf0 (Lexer.split exShortcutQ)) exShortcutW false = true := by
  decide +kernel

theorem fold_exShortcutW : Fold.optimize exShortcutW = .ok exShortcutW := by
  simp [exShortcutW, Fold.optimize, Fold.optimizeBoth, Fold.pass, Fold.reorder, Fold.binExec, Fold.operand, Fold.andOr,
    bind, Except.bind, Except.map, pure, Except.pure]

/-- the shortcut: on any store, in any mode, the log holds `Delete` / `BatchDelete` entries only -/
example (store : Store) (kind : PollKind) (bs : Nat) (cache : Bool) :
    ∀ e ∈ (runQuery exShortcutQ pf0 store kind bs cache).world.log, IsDel e := by
  obtain ⟨pos, wpos, lim, hplan, hl⟩ := deleteWhereIs_sound exShortcut_accepted
  have : lim = none := by cases lim <;> simp_all
  subst this
  have hfw := foldedWhere_delete_of_fold (pos := pos) (wpos := wpos) (lim := none) fold_exShortcutW
  refine run_delete_shortcut_reads_nothing exShortcutQ pf0 pos wpos exShortcutW hplan exShortcutW hfw (by decide)
    [[97], [99]] ?_ store kind bs cache
  unfold accessPath; rw [hfw]; decide

end examples

end Kvql.Properties.E2ERegion
