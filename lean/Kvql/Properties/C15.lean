/-
  C15  Parsing follows the documented precedence; the printed form re-parses identically.

  The statements are about `Kvql.Parser`, the model of parser.go / checker.go / statement.go
  (tied to the Go code by the PARSE correspondence: all operator sequences up to length 3/4 in
  three parenthesisation styles, random trees, generated statements and their corruptions; the
  precedence table, operator maps and function tables are regenerated from the Go source).

  Part 1 — `parse_precedence_partial`: a tree of binary operators (all but `in`, `between`)
  over single-token operands, written with parentheses only where the documented table
  (`|,or` < `&,and` < comparisons < `+ -` < `* /`, left associative) requires them, parses back
  to exactly that tree; `documented_precedence` says the table regenerated from lexer.go *is*
  that table.  Partial: `in`/`between` right-hand sides, unary `!`, calls and indexing are not
  in the fragment (they are covered, fully parenthesised, by Part 3, and by the PARSE
  differential: all operator sequences up to length 3/4 in three styles, random trees).
  The full statement (every tree of the parser's image, any redundant parenthesisation —
  DESIGN.md C15 items 1 and 2) needs a renderer for all node kinds; it is not stated in Lean yet.

  Part 3 — `print_reparse`: for every tree `e` the canonical text can express (`Printable`:
  what the parser produces — no alias references — with string literals free of the quote
  character and names / numbers whose text lexes as one token of that kind),
  `parseExpr (Lexer.split (Expr.toString e))` is `e` again, modulo positions.  The proof goes
  through the reference tokenizer (`Lexer.split = Spec.lex`, C16): the token list of each
  shape of canonical text is computed (Proofs/ParserPrintToks.lean) and the parser is run on
  it (Proofs/ParserPrintParse.lean).  The canonical form is fully parenthesised, so each
  climbing loop runs at most once per level.  Size: the statement asks for
  `8·|tokens| + 8 ≤ MaxNestLevel` (about 12 000 tokens): below that the nesting-depth guard of
  parser.go cannot fire, because every increment of `nestLev` is paid for by one unit of fuel.

  Part 4 (shared with C06) — `parse_total`, `parseExpr_total`: with the fuel it gives itself
  the parser never runs out of fuel and never reaches a nil-token `panic` branch, for every
  token list: every loop of parser.go consumes a token per iteration and no `p.tok.X` is
  evaluated on a nil `p.tok` (`parseOperand`, the one function without a nil test, is only
  called by `parseUnaryExpr` after its own test).
-/
import Kvql.Proofs.ParserTotalStmt
import Kvql.Proofs.ParserPrintMain
import Kvql.Proofs.ParserPrec
import Kvql.Proofs.ParserNest

namespace Kvql.Properties.C15

open Kvql Kvql.Parser

/-- the expression parser on any token list: never `outOfFuel`, never a `panic` -/
theorem parseExpr_total (pf : Bytes → F64) (toks : Toks) :
    parseExpr pf (exprFuel toks) toks ≠ .outOfFuel ∧
    ∀ s, parseExpr pf (exprFuel toks) toks ≠ .panic s := by
  have h := Proofs.ParserTotal.parseExpr_tot pf (exprFuel toks) toks (by simp [exprFuel])
  cases hr : parseExpr pf (exprFuel toks) toks <;> simp_all [Res.Holds]

/-- `Parse` on the tokens of any query text: never `outOfFuel`; the only `panic` site the
    model can name is `cyclicPanic` — Go's `ReturnType()` recursing through a cyclic alias,
    which since repair 0001 cannot be built (that fact is C05's `alias_acyclic`, not proved
    here) — never a nil-token dereference. -/
theorem parse_total (pf : Bytes → F64) (q : Bytes) :
    Parse pf (Lexer.split q) ≠ .outOfFuel ∧
    ∀ s, Parse pf (Lexer.split q) = .panic s → s = cyclicPanic := by
  have h := Proofs.ParserTotal.parse_safe pf (Lexer.split q)
  cases hr : Parse pf (Lexer.split q) <;> simp_all [Res.Holds]

/-! ### documented precedence and associativity -/

/-- the documented binding strength: `| or` 1, `& and` 2, comparisons / `in` / `between` 3,
    `+ -` 4, `* /` 5 -/
abbrev opPrec : Op → Nat := Proofs.PrintParse.opPrec

/-- `Token.Precedence()` (the table regenerated from lexer.go) gives every operator's token
    the documented strength -/
theorem documented_precedence (op : Op) (p : Nat) :
    (Proofs.PrintLex.tok Generated.tkOPERATOR (Expr.opText op) p).prec = opPrec op := by
  rw [Proofs.PrintParse.prec_tok, Proofs.PrintParse.precD_op]; rfl

/-- the fragment of `parse_precedence_partial`: binary operators other than `in`, `between`
    over single-token operands -/
abbrev InFragment (pf : Bytes → F64) (e : Expr) : Prop := Proofs.Prec.frag pf e = true

/-- the tokens of `e` with parentheses exactly where the table requires them: around a left
    operand that binds less tightly than the operator, around a right operand that does not
    bind more tightly (left associativity) -/
abbrev renderMinimal (pf : Bytes → F64) (e : Expr) : Toks := Proofs.Prec.rend pf e

/-- Minimal parenthesisation by the documented precedences parses back to the tree. -/
theorem parse_precedence_partial (pf : Bytes → F64) (e : Expr) (h : InFragment pf e)
    (hsize : 8 * (renderMinimal pf e).length + 8 ≤ Generated.maxNestLevel) :
    parseExpr pf (exprFuel (renderMinimal pf e)) (renderMinimal pf e) = .ok (e, []) :=
  Proofs.Prec.parse_precedence_partial pf e h hsize

/-! ### print → re-parse -/

/-- the side conditions of `print_reparse`, decidable: see Proofs/ParserPrintable.lean -/
abbrev Printable (pf : Bytes → F64) (e : Expr) : Prop := Proofs.PrintLex.printable pf e = true

/-- positions are ignored when trees are compared -/
abbrev erasePos : Expr → Expr := Proofs.PrintParse.erasePos

/-- Rendering a tree in the library's canonical, fully parenthesised form (`String()`), lexing
    and parsing that text gives the same tree, modulo positions. -/
theorem print_reparse (pf : Bytes → F64) (e : Expr) (h : Printable pf e)
    (hsize : 8 * (Lexer.split e.toString).length + 8 ≤ Generated.maxNestLevel) :
    ∃ e', parseExpr pf (exprFuel (Lexer.split e.toString)) (Lexer.split e.toString) = .ok (e', []) ∧
      erasePos e' = erasePos e :=
  Proofs.PrintParse.print_reparse pf e h hsize

/-- some value of `strconv.ParseFloat` for the examples -/
def pf0 : Bytes → F64 := fun _ => ⟨0⟩

/-- `((key = 'a') & !((int(value) between 1 and 10))) | (json(value)['x'] in ('p', 'q'))` -/
def exampleTree : Expr :=
  .binop 0 .or
    (.binop 0 .and
      (.binop 0 .eq (.field 0 .key) (.str 0 (Bytes.ofAscii "a")))
      (.not 0 (.binop 0 .between (.call 0 (.name 0 (Bytes.ofAscii "int")) [.field 0 .value])
        (.list 0 [.num 0 (Bytes.ofAscii "1") 1, .num 0 (Bytes.ofAscii "10") 10]))))
    (.binop 0 .in_ (.access 0 (.call 0 (.name 0 (Bytes.ofAscii "json")) [.field 0 .value]) (.str 0 (Bytes.ofAscii "x")))
      (.list 0 [.str 0 (Bytes.ofAscii "p"), .str 0 (Bytes.ofAscii "q")]))

/-- `a | b & c = d + e * f - g`, i.e. `a | (b & (c = ((d + (e * f)) - g)))`, and `(a | b) & c` -/
def nm (s : String) (p : Nat) : Expr := .name p (Bytes.ofAscii s)
def exampleClimb : Expr :=
  .binop 1 .or (nm "a" 0)
    (.binop 3 .and (nm "b" 2)
      (.binop 5 .eq (nm "c" 4)
        (.binop 11 .sub (.binop 7 .add (nm "d" 6) (.binop 9 .mul (nm "e" 8) (nm "f" 10))) (nm "g" 12))))
def exampleParen : Expr := .binop 3 .and (.binop 1 .or (nm "a" 0) (nm "b" 2)) (nm "c" 4)

/-- non-vacuity of `parse_precedence_partial`; the first tree needs no parenthesis (13 tokens),
    the second needs one pair (7 tokens) -/
example : InFragment pf0 exampleClimb ∧ InFragment pf0 exampleParen ∧
    (renderMinimal pf0 exampleClimb).length = 13 ∧ (renderMinimal pf0 exampleParen).length = 7 ∧
    8 * (renderMinimal pf0 exampleClimb).length + 8 ≤ Generated.maxNestLevel := by
  decide +kernel

/-- non-vacuity: the hypotheses of `print_reparse` hold of `exampleTree` -/
example : Printable pf0 exampleTree ∧
    8 * (Lexer.split exampleTree.toString).length + 8 ≤ Generated.maxNestLevel := by
  decide +kernel

/-- The nesting-depth guard (`MaxNestLevel`) is irrelevant below 12 500 tokens: `parseExpr`
    never answers "exceed max nesting depth" there. -/
theorem nest_guard_unreachable (pf : Bytes → F64) (toks : Toks)
    (h : 8 * toks.length + 8 ≤ Generated.maxNestLevel) :
    parseExpr pf (exprFuel toks) toks ≠ .err .nest :=
  Proofs.ParserNest.parseExpr_no_nest pf toks h

example : 8 * (Lexer.split (Bytes.ofAscii "key = 'a' & value ^= 'b'")).length + 8 ≤ Generated.maxNestLevel := by
  decide +kernel

/-- the fuel is linear in the number of tokens -/
theorem fuel_linear (toks : Toks) : exprFuel toks = 8 * toks.length + 8 ∧ loopFuel toks = toks.length + 2 :=
  ⟨rfl, rfl⟩

end Kvql.Properties.C15
