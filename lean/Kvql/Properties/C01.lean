/-
  C01  SELECT returns exactly the pairs satisfying WHERE, once each, in key order.

  The judge is the REFERENCE EVALUATOR `Kvql.Spec.eval` (Kvql/Spec/Eval.lean: ~200 lines written
  from README.md "Operators and Functions" and spec.md, strict, one text kind, one list kind).
  The engine is its models: `Kvql.exec` (expression_exec.go + scalar_func.go, row evaluator),
  `Kvql.Scan.optimizeExpr` (filter_optimizer.go), `Kvql.Plans` (scan_plan.go, projection of
  `select *`, optimizer.go BuildPlan) over the storage machine `Kvql.Storage`.

  Chain:   reference says "P evaluable on every stored pair"
        ⇒ (exec_refines_spec, C14 kinds)   `exec P` gives the reference's verdict on every pair
        ⇒ (hfold — the folding theorem C04, an explicit hypothesis here)   so does the folded `f`
        ⇒ (exec_is_sem + C02 scan_sound)   the scan node inferred from `f` covers every accepted pair
        ⇒ (scan_rows, C03 plan half)   both modes return (store ∩ region).filter f = store.filter f
  Tie to the code: correspondence groups EVAL (exec), SCAN (optimizeExpr), PLAN (plans); the
  SELECT group is the end-to-end differential of the real engine against `Spec.eval`.

  Not covered by a theorem: that the parser/checker produce a `CoreLang` tree for an accepted
  statement of the core language (C14/C15 static halves), and `hfold` (C04).
-/
import Kvql.Proofs.SelectCorrect

namespace Kvql.Properties.C01

open Kvql Kvql.Refine Kvql.Select Kvql.Plans Kvql.Proofs.Scan
open Kvql.Scan (optimizeExpr)

/-- (1) On the core language of C01 (`CoreLang`: key, value, literals, aliases, `! & | and or`,
    `= != < <= > >= ^= ~=`, `+ - * /`, `in (…)`, `between`, `upper lower int float str strlen
    is_int is_float substr`; well-kinded): wherever the reference evaluator gives a value, the
    engine's row evaluator (cache off) succeeds with the same value — up to Go's `[]byte`/`string`
    and `int64`/`int` — and leaves the context untouched. -/
theorem exec_refines_spec (e : Expr) (h : CoreLang e) (kv : Pair) {s : Spec.SVal}
    (hs : Spec.eval e kv = some s) : ∃ v, exec e kv Ctx.off = (.ok v, Ctx.off) ∧ Refine.Rel v s :=
  Refine.exec_refines_spec e h kv hs

/-- (2) The engine's evaluator, read as "the filter says true on the pair (k, v)", is bounded by the
    documented meaning of `&`, `|`, `false` and of every key atom (literal on either side, IN,
    BETWEEN): the hypothesis of C02's `scan_sound` holds for the real evaluator. -/
theorem exec_is_sem (v : Bytes) : Scan.Sem (execTrue v) := Select.exec_is_sem v

/-- (3) `select * where f` over a sorted store: the plan node inferred from `f`, filtering with
    `f`, returns in either mode and for every batch size ≥ 1 exactly the stored pairs on which
    `exec f` says true, in store (= key) order, provided `exec f` yields a Boolean on every stored
    pair; the run succeeds and the store is unchanged. -/
theorem select_star_rows (f : Expr) (store : Storage.Store) (hs : store.Sorted)
    (hev : ∀ p ∈ store, ∃ b, exec f ⟨p.1, p.2⟩ Ctx.off = (.ok (.bool b), Ctx.off))
    (kind : PollKind) (bs : Nat) (hbs : 1 ≤ bs) :
    (run (.select (nodeOf (optimizeExpr f)) (filterOf f)) kind bs none store).1.outcome = .ok ∧
    rowsOf (run (.select (nodeOf (optimizeExpr f)) (filterOf f)) kind bs none store) =
      (store.filter (accepted f)).map Row.pair ∧
    (run (.select (nodeOf (optimizeExpr f)) (filterOf f)) kind bs none store).2.store = store :=
  Select.select_star_rows f store hs hev kind bs hbs

/-- (4) **C01.**  `P` the parsed WHERE, `f` the folded WHERE the plan is built from
    (`hfold`: wherever `P` evaluates to a Boolean, `f` evaluates to the same Boolean — C04's
    `fold_preserves_where` at `Ctx.off`).  If `P` is in the core language and the reference evaluator
    finds it evaluable on every stored pair, then in either iteration mode, for every batch size
    ≥ 1: the statement succeeds, its rows are exactly the stored pairs on which the REFERENCE says
    `P` is true — every such pair, no other, with its stored value, in store order — and the
    store is unchanged. -/
theorem select_star_correct (P f : Expr) (hfold : FoldPreserves P f) (hP : CoreLang P)
    (store : Storage.Store) (hs : store.Sorted)
    (hev : ∀ p ∈ store, Spec.evaluable P ⟨p.1, p.2⟩ = true)
    (kind : PollKind) (bs : Nat) (hbs : 1 ≤ bs) :
    (run (.select (nodeOf (optimizeExpr f)) (filterOf f)) kind bs none store).1.outcome = .ok ∧
    rowsOf (run (.select (nodeOf (optimizeExpr f)) (filterOf f)) kind bs none store) =
      (store.filter (fun p => Spec.holds P ⟨p.1, p.2⟩)).map Row.pair ∧
    (run (.select (nodeOf (optimizeExpr f)) (filterOf f)) kind bs none store).2.store = store :=
  Select.select_star_correct P f hfold hP store hs hev kind bs hbs

/-- (5) … in strictly ascending byte-wise key order, hence each pair exactly once -/
theorem rows_ascending_once (P : Expr) (store : Storage.Store) (hs : store.Sorted) :
    (store.filter (fun p => Spec.holds P ⟨p.1, p.2⟩)).Pairwise (fun a b => a.1 < b.1) ∧
    (store.filter (fun p => Spec.holds P ⟨p.1, p.2⟩)).Nodup :=
  ⟨(Select.select_star_shape P store hs).1, (Select.select_star_shape P store hs).2.1⟩

/-- (6) … identically in both iteration modes and at any two batch sizes (a repetition is the same
    term: the model is a function) -/
theorem modes_agree (P f : Expr) (hfold : FoldPreserves P f) (hP : CoreLang P)
    (store : Storage.Store) (hs : store.Sorted) (hev : ∀ p ∈ store, Spec.evaluable P ⟨p.1, p.2⟩ = true)
    (bs bs' : Nat) (hbs : 1 ≤ bs) (hbs' : 1 ≤ bs') :
    rowsOf (run (.select (nodeOf (optimizeExpr f)) (filterOf f)) .next bs none store) =
    rowsOf (run (.select (nodeOf (optimizeExpr f)) (filterOf f)) .batch bs' none store) :=
  Select.select_star_modes_agree P f hfold hP store hs hev bs bs' hbs hbs'

/-! non-vacuity: `select * where key > 'a' & int(value) + 1 > 2` over {a=9, ab=5, b=1, c=7}:
    every hypothesis holds (`decide`), the planner picks RANGE["a", nil], the rejected pair `b`
    lies between the two accepted ones, and the rows are ab, c -/
example : CoreLang exP ∧ exStore.Sorted ∧ (∀ p ∈ exStore, Spec.evaluable exP ⟨p.1, p.2⟩ = true) ∧
    FoldPreserves exP exP := ⟨by decide, by decide, by decide, fun _ _ h => h⟩

example : rowsOf (run (.select (nodeOf (optimizeExpr exP)) (filterOf exP)) .next 1 none exStore) =
    [.pair ([97, 98], [53]), .pair ([99], [55])] :=
  (select_star_correct exP exP (fun _ _ h => h) (by decide) exStore (by decide) (by decide) .next 1 (by decide)).2.1

end Kvql.Properties.C01
