/-
  C09  GROUP BY partitions by value tuples and aggregates equal their definitions.

  `Kvql.Aggr` (Model/Aggregate.lean) models aggregate_plan.go (`prepare`, `prepareBatch`,
  `getAggrKey`, `batchGetAggrKeys`, `createAggrRow`, `updateRowAggrFunc`, `next`, `batch`) and the
  accumulators of aggr_func.go.  The model is parametric in expression evaluation: `ev : Eval P`
  says, for every arriving pair `p : P`, what every GROUP BY expression, key field and aggregate
  argument evaluates to (or which error).  So every theorem below holds for ALL stores, WHERE
  clauses, GROUP BY expressions and aggregate arguments — they only enter through `ev` and the list
  of arriving pairs — under the assumption (E1) that evaluating an expression on a pair depends on
  the pair alone, and (E2) that `ExecuteBatch` is `Execute` row by row.
  Tie to the code: AGGRPLAN correspondence group (the real `kvql.AggregatePlan` against the model,
  evaluation tables computed with the real evaluator); the unpatched engine violates (E1) through
  its field cache (patches 01, 02), which the group reports as a property finding.

  (c): "uniformly int-kinded" = `xs.map AVal.int` (`update_goInt`: an `int` argument behaves like
  the `int64` of the same value); float operations are uninterpreted; min/max over floats assume
  the values are strictly totally ordered by `<` (`FloatOrder`: no NaN).
-/
import Kvql.Proofs.AggrProofs

namespace Kvql.Properties.C09

open Kvql Kvql.Aggr Kvql.Proofs.Aggr

/-! ### (a) group identity -/

/-- Two tuples of byte strings with the same length-prefixed key are equal — for all byte strings,
    including ones that contain digits and colons. -/
theorem aggr_key_injective (vs ws : List Bytes) (h : aggrKeyOf vs = aggrKeyOf ws) : vs = ws :=
  aggrKeyOf_injective vs ws h

/-- `getAggrKey` is that key of the pair's GROUP BY values (or the first error among them). -/
theorem aggr_key_is_tuple_key {P : Type} (ev : Eval P) (pl : Plan) (hg : pl.aggrAll = false) (p : P) :
    getAggrKey ev pl p = aggrKeyOf <$> gtuple ev pl p :=
  getAggrKey_grouped ev pl hg p

/-- Hence two pairs share a group iff all their GROUP BY values are equal. -/
theorem aggr_same_group_iff {P : Type} (ev : Eval P) (pl : Plan) (hg : pl.aggrAll = false) {p q : P}
    {vs ws : List Bytes} (hp : gtuple ev pl p = .ok vs) (hq : gtuple ev pl q = .ok ws) :
    keyD ev pl p = keyD ev pl q ↔ vs = ws :=
  same_key_iff ev pl hg hp hq

/-! ### (b) partition -/

/-- After `prepare` has read the pairs (row mode) there is exactly one group per distinct key among
    them, in order of first occurrence (`firsts`), and the row of the group with key `k` is
    `groupRow` of exactly the pairs with key `k`, in arrival order: created from the first of them,
    then updated with each of them. -/
theorem aggr_partition {P : Type} (ev : Eval P) (pl : Plan) {pairs : List P} {gs : Groups}
    (h : prepare ev pl [] pairs = .ok gs) :
    (∀ p ∈ pairs, getAggrKey ev pl p = .ok (keyD ev pl p)) ∧
    gs.map Prod.fst = firsts (pairs.map (keyD ev pl)) ∧
    ∀ k row, (k, row) ∈ gs → groupRow ev pl (pairs.filter (fun q => keyD ev pl q == k)) = .ok row :=
  prepare_partition ev pl h

/-- `prepare` has no failure of its own: if the evaluator fails on no arriving pair (`EvalOk`), the
    groups are built. -/
theorem aggr_prepare_total {P : Type} (ev : Eval P) (pl : Plan) (pairs : List P)
    (h : ∀ p ∈ pairs, EvalOk ev p) : ∃ gs, prepare ev pl [] pairs = .ok gs :=
  prepare_ok ev pl pairs [] h

/-- `firsts`: no key twice, every key once. -/
theorem aggr_groups_distinct {α : Type} [DecidableEq α] (ks : List α) :
    (firsts ks).Nodup ∧ ∀ k, k ∈ firsts ks ↔ k ∈ ks :=
  ⟨firsts_nodup ks, fun k => mem_firsts k ks⟩

/-- Without GROUP BY: no row when no pair arrives, exactly one group (all the pairs) otherwise. -/
theorem aggr_all {P : Type} (ev : Eval P) (pl : Plan) (ha : pl.aggrAll = true) {pairs : List P} {gs : Groups}
    (h : prepare ev pl [] pairs = .ok gs) :
    (pairs = [] → gs = []) ∧
    (pairs ≠ [] → ∃ row, gs = [(defaultAggrKey, row)] ∧ groupRow ev pl pairs = .ok row) :=
  aggrAll_groups ev pl ha h

/-- Inside the row of a group with pairs `ps`: a count call has counted `ps`; every other call's
    accumulator is `fold kind` (= `foldl Update init`) of the values of its argument on `ps`, in
    order — and all those arguments did evaluate. -/
theorem aggr_group_accumulators {P : Type} (ev : Eval P) (pl : Plan) {ps : List P} {row : Row}
    (h : groupRow ev pl ps = .ok row) {n : Nat} {calls : List Kind} {e : AggExpr}
    (hf : pl.fields[n]? = some (Field.agg calls e)) :
    ∃ accs, row[n]? = some (Col.agg accs e) ∧ accs.length = calls.length ∧
      ∀ (m : Nat) (k : Kind), calls[m]? = some k →
        (k = .count → accs[m]? = some (.count (Int64.ofNat ps.length))) ∧
        (k ≠ .count → ∃ vs : List AVal, ps.map (fun q => ev.arg n m q) = vs.map Except.ok ∧
          accs[m]? = some (fold k vs)) :=
  groupRow_accs ev pl h hf

/-- What is handed out for a group: a key field's bytes; for an aggregate field the expression
    around the calls evaluated on the completed accumulators (`aggr_expr_subst`). -/
theorem aggr_row_out (row : Row) (out : List AVal) (h : finishRow row = .ok out) :
    out.length = row.length ∧
    (∀ (n : Nat) (b : Bytes), row[n]? = some (Col.key b) → out[n]? = some (AVal.bytes b)) ∧
    (∀ (n : Nat) (accs : List Acc) (e : AggExpr), row[n]? = some (Col.agg accs e) →
      ∃ res v, accs.mapM Acc.complete = .ok res ∧ e.eval res = .ok v ∧ out[n]? = some v) :=
  finishRow_spec row out h

/-- A successful row-mode run hands out, in order, the finished rows of the groups of `aggr_partition`. -/
theorem aggr_run {P : Type} (ev : Eval P) (pl : Plan) (pairs : List P) (outs : List (List AVal)) :
    runNext ev pl pairs = (outs, none) ↔
      ∃ gs, prepare ev pl [] pairs = .ok gs ∧ (rowsOf gs).mapM finishRow = .ok outs :=
  runNext_ok_iff ev pl pairs outs

/-! ### (c) the accumulators -/

/-- count = number of pairs (as an int64, i.e. modulo 2^64), whatever the arguments are. -/
theorem acc_count (vs : List AVal) : (fold .count vs).complete = .ok (.int (Int64.ofNat vs.length)) :=
  Proofs.Aggr.acc_count vs

theorem acc_sum (xs : List Int64) : (fold .sum (xs.map AVal.int)).complete = .ok (.int xs.sum) :=
  acc_sum_int xs

theorem acc_sum_float (fs : List F64) (h : fs ≠ []) :
    (fold .sum (fs.map AVal.float)).complete = .ok (.float (fs.foldl F64.add F64.zero)) :=
  Proofs.Aggr.acc_sum_float fs h

theorem acc_avg (xs : List Int64) :
    (fold .avg (xs.map AVal.int)).complete =
      .ok (.float (F64.div (F64.ofInt xs.sum) (F64.ofInt (Int64.ofNat xs.length)))) :=
  acc_avg_int xs

theorem acc_avg_float (fs : List F64) (h : fs ≠ []) :
    (fold .avg (fs.map AVal.float)).complete =
      .ok (.float (F64.div (fs.foldl F64.add F64.zero) (F64.ofInt (Int64.ofNat fs.length)))) :=
  Proofs.Aggr.acc_avg_float fs h

theorem acc_min (x : Int64) (xs : List Int64) :
    ∃ m, (fold .min ((x :: xs).map AVal.int)).complete = .ok (.int m) ∧ m ∈ x :: xs ∧ ∀ y ∈ x :: xs, m ≤ y :=
  acc_min_int x xs

theorem acc_max (x : Int64) (xs : List Int64) :
    ∃ m, (fold .max ((x :: xs).map AVal.int)).complete = .ok (.int m) ∧ m ∈ x :: xs ∧ ∀ y ∈ x :: xs, y ≤ m :=
  acc_max_int x xs

theorem acc_min_float (f : F64) (fs : List F64) (ho : FloatOrder (f :: fs)) :
    ∃ m, (fold .min ((f :: fs).map AVal.float)).complete = .ok (.float m) ∧ m ∈ f :: fs ∧
      ∀ y ∈ f :: fs, F64.le m y = true :=
  Proofs.Aggr.acc_min_float f fs ho

theorem acc_max_float (f : F64) (fs : List F64) (ho : FloatOrder (f :: fs)) :
    ∃ m, (fold .max ((f :: fs).map AVal.float)).complete = .ok (.float m) ∧ m ∈ f :: fs ∧
      ∀ y ∈ f :: fs, F64.le y m = true :=
  Proofs.Aggr.acc_max_float f fs ho

/-- group_concat = `strings.Join` of `toString` of the arguments in order — any arguments. -/
theorem acc_concat (sep : Bytes) (vs : List AVal) :
    (fold (.concat sep) vs).complete = .ok (.str (List.intercalate sep (vs.map toStr))) :=
  Proofs.Aggr.acc_concat sep vs

/-- json_arrayagg = `[` the JSON renderings of the arguments in order, comma separated `]` — any
    arguments; it fails iff one of them cannot be rendered (NaN, ±Inf). -/
theorem acc_arrayagg (vs : List AVal) :
    (fold .arrayagg vs).complete =
      match (vs.map JItem.ofVal).mapM JItem.render with
      | some rs => .ok (.str ([91] ++ List.intercalate [44] rs ++ [93]))
      | none => .error .marshal :=
  Proofs.Aggr.acc_arrayagg vs

theorem acc_arrayagg_int (xs : List Int64) :
    (fold .arrayagg (xs.map AVal.int)).complete =
      .ok (.str ([91] ++ List.intercalate [44] (xs.map int64Dec) ++ [93])) :=
  Proofs.Aggr.acc_arrayagg_int xs

/-- an `int` argument is treated exactly like the `int64` of the same value -/
theorem acc_goInt (a : Acc) (i : Int64) : a.update (.goInt i) = a.update (.int i) := update_goInt a i

/-! ### (d) row mode and batch mode -/

/-- `prepareBatch` over any chunking (an empty chunk ends the child's stream) builds exactly the
    groups `prepare` builds from the same pairs; one fails iff the other does. -/
theorem aggr_modes_agree_prepare {P : Type} (ev : Eval P) (pl : Plan) (gs gs' : Groups) (chunks : List (List P)) :
    prepareBatch ev pl gs chunks = .ok gs' ↔
      prepare ev pl gs (chunks.takeWhile (fun c => !c.isEmpty)).flatten = .ok gs' :=
  prepareBatch_iff ev pl gs gs' chunks

/-- Whole runs: `Next` until nil over the pairs succeeds with rows `outs` iff `Batch` until empty,
    over any chunking into non-empty chunks and any batch size ≥ 1, succeeds with batches whose
    concatenation is `outs`; no batch is empty or longer than the batch size. -/
theorem aggr_modes_agree {P : Type} (ev : Eval P) (pl : Plan) (bs : Nat) (hbs : 1 ≤ bs)
    (chunks : List (List P)) (hne : ∀ c ∈ chunks, c ≠ []) (outs : List (List AVal)) :
    runNext ev pl chunks.flatten = (outs, none) ↔
      ∃ bss, runBatch ev pl bs chunks = (bss, none) ∧ bss.flatten = outs ∧ ∀ b ∈ bss, b ≠ [] ∧ b.length ≤ bs :=
  modes_agree ev pl bs hbs chunks hne outs

/-- When a row fails while the groups are handed out, both modes report that error; batch mode has
    handed out a prefix of what row mode has (the batch in which the error occurs is lost). -/
theorem aggr_modes_agree_error {P : Type} (ev : Eval P) (pl : Plan) (bs : Nat) (hbs : 1 ≤ bs)
    (chunks : List (List P)) (hne : ∀ c ∈ chunks, c ≠ []) (gs : Groups)
    (hp : prepare ev pl [] chunks.flatten = .ok gs) :
    (runBatch ev pl bs chunks).2 = (runNext ev pl chunks.flatten).2 ∧
    (runBatch ev pl bs chunks).1.flatten <+: (runNext ev pl chunks.flatten).1 :=
  modes_agree_error ev pl bs hbs chunks hne gs hp

/-! ### (e) key fields -/

/-- A key field shows the value the field has on the first pair of the group. -/
theorem aggr_key_field_first {P : Type} (ev : Eval P) (pl : Plan) {p0 : P} {ps : List P} {row : Row}
    (h : groupRow ev pl (p0 :: ps) = .ok row) {n : Nat} (hf : pl.fields[n]? = some Field.key) :
    ∃ v b, ev.keyField n p0 = .ok v ∧ convertToBytes v = .ok b ∧ row[n]? = some (Col.key b) :=
  groupRow_key ev pl h hf

/-- When the field IS the j-th GROUP BY expression, that value is the value of the expression on
    every pair of the group. -/
theorem aggr_key_field_group_value {P : Type} (ev : Eval P) (pl : Plan) (hg : pl.aggrAll = false)
    {n j : Nat} (hj : j < pl.nGroups) (hsame : ∀ p, ev.keyField n p = ev.group j p)
    {p0 q : P} {b : Bytes} {v : AVal} (hv : ev.keyField n p0 = .ok v) (hb : convertToBytes v = .ok b)
    {k : Bytes} (hk0 : getAggrKey ev pl p0 = .ok k) (hkq : getAggrKey ev pl q = .ok k) :
    gbytes ev j q = .ok b :=
  key_field_is_group_value ev pl hg hj hsame hv hb hk0 hkq

/-! ### coverage of the regenerated function table -/

/-- func.go `aggrFuncMap`, regenerated on every run: exactly the seven modelled aggregate functions
    and `quantile` (external library, not modelled).  A new aggregate function breaks this. -/
theorem aggr_functions_covered :
    Generated.aggrTable.map (fun r => r.1) =
      ["count", "sum", "avg", "min", "max", "quantile", "json_arrayagg", "group_concat"] := by decide

/-! ### non-vacuity -/

/-- the collision of the old plain concatenation: ('1','12') and ('11','2') now have different keys -/
example : aggrKeyOf [[49], [49, 50]] ≠ aggrKeyOf [[49, 49], [50]] := by
  intro h
  have := aggr_key_injective _ _ h
  simp at this

private def evEx : Eval (Nat × Nat) where
  group _ p := .ok (.int (Int64.ofNat p.1))
  keyField _ p := .ok (.int (Int64.ofNat p.1))
  arg _ _ p := .ok (.int (Int64.ofNat p.2))

/-- `select count(1) + sum(v)` over two pairs, both modes -/
example : runNext evEx { aggrAll := true, nGroups := 0, fields := [.agg [.count, .sum] (.arith .add 0 (.call 0) (.call 1))] }
    [(1, 10), (2, 5)] = ([[.int 17]], none) := by decide

example : runBatch evEx { aggrAll := true, nGroups := 0, fields := [.agg [.count, .sum] (.arith .add 0 (.call 0) (.call 1))] }
    1 [[(1, 10)], [(2, 5)]] = ([[[.int 17]]], none) := by decide

end Kvql.Properties.C09
