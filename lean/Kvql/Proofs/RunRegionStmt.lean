/-
  C18 / C13 end to end, part 5: the statement.  `selectNode` / `deleteNode`: the scan node inferred
  for the folded WHERE of a SELECT / DELETE (`Scan.optimize`, then `nodeOf`).
  * every SELECT (any kind, mode, batch size, cache): store unchanged, log a prefix of the script;
    without LIMIT and without failure the whole script;
  * every DELETE (DeletePlan, DeletePlan over LimitPlan, RemovePlan shortcut): the reads are a prefix of
    the script, everything else is `Delete` / `BatchDelete`; the shortcut reads nothing.
-/
import Kvql.Proofs.RunRegionSelect
import Kvql.Proofs.RunRegionDelete

namespace Kvql.Proofs.RunRegion

open Kvql Kvql.Storage Kvql.Plans Kvql.Proofs.Plan
open Kvql.Run (nodeOf runPlainSelect runAggrSelect FoldedSelect rejected runStmt runQuery foldSelect runDelete writeOutcome)

/-- the scan node of a SELECT: inferred from the WHERE after constant folding -/
def selectNode (s : SelectS) : ScanNode :=
  match foldSelect s with
  | .ok f => nodeOf (Scan.optimize f.where_)
  | .error _ => .empty

/-- the scan node of a DELETE -/
def deleteNode (w : Expr) : ScanNode :=
  match Fold.optimize w with
  | .ok fw => nodeOf (Scan.optimize fw)
  | .error _ => .empty

/-- every SELECT -/
theorem runStmt_select_world (s : SelectS) (store : Store) (kind : PollKind) (bs : Nat) (cache : Bool) :
    Pre (selectNode s) store (runStmt (.select s) store kind bs cache).world ∧
    ((runStmt (.select s) store kind bs cache).fail = none → s.limit = none →
      Full (selectNode s) store (runStmt (.select s) store kind bs cache).world) := by
  have hrej : ∀ fl, Pre (selectNode s) store (rejected fl store).world ∧
      ((rejected fl store).fail = none → s.limit = none → Full (selectNode s) store (rejected fl store).world) :=
    fun fl => ⟨pre_initial _ _, fun h => by simp [rejected] at h⟩
  unfold runStmt
  by_cases hb : (bs == 0) = true
  · simp only [hb, if_true]; exact hrej _
  · have hbs : 1 ≤ bs := by
      cases bs with
      | zero => simp at hb
      | succ n => omega
    simp only [hb, Bool.false_eq_true, if_false]
    split
    · split
      · exact hrej _
      · rename_i f hf
        have : selectNode s = nodeOf (Scan.optimize f.where_) := by simp [selectNode, hf]
        rw [this]
        exact runPlainSelect_world s f store kind bs hbs cache
    · split
      · exact hrej _
      · rename_i f hf
        have : selectNode s = nodeOf (Scan.optimize f.where_) := by simp [selectNode, hf]
        rw [this]
        exact runAggrSelect_world s f store kind bs hbs cache
    · exact hrej _

/-! ### DELETE -/

theorem deleteWorld_initial (node : ScanNode) (store : Store) : DeleteWorld node store { store := store } :=
  ⟨List.nil_prefix, by simp⟩

theorem evalKeys_ok : ∀ ks : List Bytes, evalKeys (ks.map Except.ok) = .ok ks := by
  intro ks
  induction ks with
  | nil => rfl
  | cons k ks ih => simp [evalKeys, ih]

/-- the RemovePlan shortcut: writes only -/
theorem run_remove_shortcut (keys : List Bytes) (kind : PollKind) (bs : Nat) (store : Store) :
    ∀ e ∈ (drain kind bs 2 (.remove (keys.map .ok) false) [] none { store := store }).2.log, IsDel e := by
  cases keys with
  | nil => simp [drain, Plan.poll, writePoll, RemovePlan.execute, evalKeys]
  | cons k ks =>
    cases ks with
    | nil =>
      simp [drain, Plan.poll, writePoll, RemovePlan.execute, evalKeys, delete_run]
      exact .inl ⟨k, rfl⟩
    | cons k2 ks =>
      have he : evalKeys ((k :: k2 :: ks).map Except.ok) = .ok (k :: k2 :: ks) := evalKeys_ok _
      simp only [List.map_cons] at he
      simp [drain, Plan.poll, writePoll, RemovePlan.execute, he, batchDelete_run]
      exact .inr ⟨_, rfl⟩

theorem isDel_not_read {e : Entry} (h : IsDel e) : e.call.isRead = false := by
  rcases h with ⟨k, rfl⟩ | ⟨ks, rfl⟩ <;> rfl

theorem buildPlan_deleteScan (node : ScanNode) (filter : Filter) (st0 : ScanSt) (store : Store) :
    (do let p ← Plan.init (.deleteScan node filter false st0); Plan.init p : Storage.M Plan) none { store := store } =
      (.ok (.deleteScan node filter false (initState node (initState node st0 store) store)),
        { store := store, log := ([] ++ entries (initCalls node)) ++ entries (initCalls node) }) := by
  simp [Plan.init, init_run]

theorem buildPlan_deleteLimit (node : ScanNode) (filter : Filter) (a b : Nat) (st0 : ScanSt) (store : Store) :
    (do let p ← Plan.init (.deleteLimit node filter a b false { lim := {}, child := st0 }); Plan.init p : Storage.M Plan) none
        { store := store } =
      (.ok (.deleteLimit node filter a b false { lim := {}, child := initState node (initState node st0 store) store }),
        { store := store, log := ([] ++ entries (initCalls node)) ++ entries (initCalls node) }) := by
  simp [Plan.init, LimitPlan.init, ScanNode.child, init_run]

/-- the run of a DELETE over a scan node -/
theorem run_delete_world (node : ScanNode) (filter : Filter) (hasAnd : Bool) (limit : Option (Nat × Nat))
    (kind : PollKind) (bs : Nat) (store : Store) :
    DeleteWorld node store (Plans.run (.delete node filter hasAnd limit) kind bs none store).2 ∧
    (∀ keys, node = .mget keys → limit = none → hasAnd = false →
      ∀ e ∈ (Plans.run (.delete node filter hasAnd limit) kind bs none store).2.log, IsDel e) := by
  have scanCase : DeleteWorld node store
      (match (do let p ← Plan.init (.deleteScan node filter false node.newState); Plan.init p : Storage.M Plan) none { store := store } with
        | (.error e, w') => ((⟨.planErr e, []⟩ : RunOut), w')
        | (.ok plan, w') => drain kind bs (plan.size + 2) plan [] none w').2 := by
    rw [buildPlan_deleteScan]
    exact run_deleteScan node filter kind bs store
  have limitCase : ∀ a b, DeleteWorld node store
      (match (do let p ← Plan.init (.deleteLimit node filter a b false { lim := {}, child := node.newState }); Plan.init p : Storage.M Plan)
          none { store := store } with
        | (.error e, w') => ((⟨.planErr e, []⟩ : RunOut), w')
        | (.ok plan, w') => drain kind bs (plan.size + 2) plan [] none w').2 := by
    intro a b
    rw [buildPlan_deleteLimit]
    exact run_deleteLimit node filter a b kind bs store
  have key : ∀ ks, Plans.run (.delete (.mget ks) filter false none) kind bs none store =
      drain kind bs 2 (.remove (ks.map .ok) false) [] none { store := store } := by
    intro ks
    simp [Plans.run, runG, buildPlan, buildPlan1, Plan.init, Plan.size]
  cases node with
  | empty =>
    unfold Plans.run runG buildPlan
    refine ⟨?_, fun keys h => by cases h⟩
    cases limit <;> exact scanCase
  | mget ks =>
    cases limit with
    | some l =>
      unfold Plans.run runG buildPlan
      exact ⟨limitCase l.1 l.2, fun keys _ h => by cases h⟩
    | none =>
      cases hasAnd with
      | true =>
        unfold Plans.run runG buildPlan
        exact ⟨scanCase, fun keys _ _ h => by cases h⟩
      | false =>
        have hr := run_remove_shortcut ks kind bs store
        rw [key]
        refine ⟨⟨?_, fun e he => .inr (hr e he)⟩, fun _ _ _ _ => hr⟩
        have : readsOf (drain kind bs 2 (.remove (ks.map .ok) false) [] none { store := store }).2.log = [] := by
          unfold readsOf
          rw [List.filter_eq_nil_iff]
          intro e he
          simp [isDel_not_read (hr e he)]
        rw [this]
        exact List.nil_prefix
  | full =>
    unfold Plans.run runG buildPlan
    refine ⟨?_, fun keys h => by cases h⟩
    cases limit with
    | none => exact scanCase
    | some l => exact limitCase l.1 l.2
  | «prefix» p =>
    unfold Plans.run runG buildPlan
    refine ⟨?_, fun keys h => by cases h⟩
    cases limit with
    | none => exact scanCase
    | some l => exact limitCase l.1 l.2
  | range a b =>
    unfold Plans.run runG buildPlan
    refine ⟨?_, fun keys h => by cases h⟩
    cases limit with
    | none => exact scanCase
    | some l => exact limitCase l.1 l.2

theorem writeOutcome_world (cls : Option Run.Fail) (r : RunOut × World) : (writeOutcome cls r).world = r.2 := by
  unfold writeOutcome
  split <;> rfl

/-- every DELETE -/
theorem runStmt_delete_world (pos wpos : Nat) (w : Expr) (lim : Option LimitS) (store : Store) (kind : PollKind)
    (bs : Nat) (cache : Bool) :
    DeleteWorld (deleteNode w) store (runStmt (.delete pos wpos w lim) store kind bs cache).world ∧
    (∀ fw keys, Fold.optimize w = .ok fw → nodeOf (Scan.optimize fw) = .mget keys → lim = none →
      Scan.hasAndOp fw = false →
      ∀ e ∈ (runStmt (.delete pos wpos w lim) store kind bs cache).world.log, IsDel e) := by
  unfold runStmt
  by_cases hb : (bs == 0) = true
  · simp only [hb, if_true]
    exact ⟨deleteWorld_initial _ _, fun _ _ _ _ _ _ e he => by simp [rejected] at he⟩
  · simp only [hb, Bool.false_eq_true, if_false]
    unfold runDelete
    cases hf : Fold.optimize w with
    | error site => exact ⟨deleteWorld_initial _ _, fun _ _ h => by cases h⟩
    | ok fw =>
      simp only [writeOutcome_world]
      have hn : deleteNode w = nodeOf (Scan.optimize fw) := by simp [deleteNode, hf]
      rw [hn]
      obtain ⟨h1, h2⟩ := run_delete_world (nodeOf (Scan.optimize fw))
        (Run.filterOfV (Run.batchVerdicts fw (Ctx.new cache) (Run.innerChunks (nodeOf (Scan.optimize fw)) bs store)))
        (Scan.hasAndOp fw) (lim.map Run.limitNat) kind bs store
      refine ⟨h1, fun fw' keys hfw hk hl ha => ?_⟩
      simp only [Except.ok.injEq] at hfw
      subst hfw
      exact h2 keys hk (by rw [hl]; rfl) ha

end Kvql.Proofs.RunRegion
