import Kvql.Model.Limit

namespace Kvql.Proofs.Limit
open Kvql Kvql.Limit

/-! ### `Next` mode -/

theorem next_none {α} (start count : Nat) (st st' : St) (child child' : List α)
    (h : next start count st child = (none, st', child')) :
    (child.drop (start - st.skips)).take (count - st.current) = [] := by
  unfold next at h
  simp only [] at h
  split at h
  · rw [List.drop_of_length_le (by omega)]; simp
  · split at h
    · have : count - st.current = 0 := by simp at *; omega
      simp [this]
    · split at h
      · rename_i heq; simp [heq]
      · simp at h

theorem next_some {α} (start count : Nat) (st st' : St) (child child' : List α) (r : α)
    (h : next start count st child = (some r, st', child')) :
    child.drop (start - st.skips) = r :: child' ∧ st.current < count ∧
      start - st'.skips = 0 ∧ st'.current = st.current + 1 := by
  unfold next at h
  simp only [] at h
  split at h
  · simp at h
  · split at h
    · simp at h
    · split at h
      · simp at h
      · rename_i heq
        simp only [Prod.mk.injEq, Option.some.injEq] at h
        obtain ⟨rfl, rfl, rfl⟩ := h
        refine ⟨heq, ?_, ?_, ?_⟩ <;> simp at * <;> omega

theorem drainNext_gen {α} (start count fuel : Nat) : ∀ (st : St) (child : List α),
    child.length + 1 ≤ fuel →
    drainNext start count fuel st child
      = (child.drop (start - st.skips)).take (count - st.current) := by
  induction fuel with
  | zero => intro st child h; omega
  | succ fuel ih =>
    intro st child h
    unfold drainNext
    split
    · rename_i heq; exact (next_none _ _ _ _ _ _ heq).symm
    · rename_i r st' child' heq
      obtain ⟨h1, h2, h3, h4⟩ := next_some _ _ _ _ _ _ _ heq
      have hlen : child'.length + 1 ≤ fuel := by
        have := congrArg List.length h1
        simp at this; omega
      rw [ih st' child' hlen, h1, h3, h4]
      have : count - st.current = (count - (st.current + 1)) + 1 := by omega
      rw [this]; simp

theorem drainNext_eq {α} (start count : Nat) (child : List α) (fuel : Nat)
    (h : child.length + 1 ≤ fuel) :
    Limit.drainNext start count fuel {} child = (child.drop start).take count := by
  simpa using drainNext_gen start count fuel {} child h

/-! ### `Batch` mode -/

theorem skipPhase_exhausted {α : Type} (start : Nat) : ∀ (skips : Nat) (child : List (List α)) (s' : Nat),
    skipPhase start skips child = .exhausted s' → child.flatten.length < start - skips := by
  intro skips child
  fun_induction skipPhase start skips child with
  | case1 skips h => intro s' _; simp; omega
  | case2 skips h => intro s' h'; simp at h'
  | case3 skips rows child h restSkips hle ih =>
    intro s' h'
    have := ih s' h'
    simp [restSkips] at *; omega
  | case4 skips rows child h restSkips hle => intro s' h'; simp at h'
  | case5 skips rows child h => intro s' h'; simp at h'

theorem skipPhase_done {α : Type} (start : Nat) : ∀ (skips : Nat) (child : List (List α)) (s' : Nat)
    (rows : List α) (child1 : List (List α)),
    skipPhase start skips child = .done s' rows child1 →
      start - s' = 0 ∧ rows ++ child1.flatten = child.flatten.drop (start - skips) ∧
      (∀ c ∈ child1, c ∈ child) ∧
      ((rows = [] ∧ child1 = child) ∨ child1.length < child.length) := by
  intro skips child
  fun_induction skipPhase start skips child with
  | case1 skips h => intro s' rows child1 h'; simp at h'
  | case2 skips h =>
    intro s' rows child1 h'
    simp only [Skip.done.injEq] at h'
    obtain ⟨rfl, rfl, rfl⟩ := h'
    simp; omega
  | case3 skips rows child h restSkips hle ih =>
    intro s' rows' child1 h'
    obtain ⟨h1, h2, h3, h4⟩ := ih s' rows' child1 h'
    have hle' : rows.length ≤ start - skips := hle
    refine ⟨h1, ?_, ?_, ?_⟩
    · rw [h2, List.flatten_cons, List.drop_append, List.drop_of_length_le hle']
      simp only [List.nil_append]
      congr 1; omega
    · intro c hc; exact List.mem_cons_of_mem _ (h3 c hc)
    · right
      rcases h4 with ⟨_, rfl⟩ | h4
      · simp
      · simp; omega
  | case4 skips rows child h restSkips hle =>
    intro s' rows' child1 h'
    simp only [Skip.done.injEq] at h'
    obtain ⟨rfl, rfl, rfl⟩ := h'
    refine ⟨by omega, ?_, ?_, ?_⟩
    · rw [List.flatten_cons, List.drop_append]
      have : start - skips - rows.length = 0 := by omega
      simp [this, restSkips]
    · intro c hc; exact List.mem_cons_of_mem _ hc
    · right; simp
  | case5 skips rows child h =>
    intro s' rows' child1 h'
    simp only [Skip.done.injEq] at h'
    obtain ⟨rfl, rfl, rfl⟩ := h'
    have : start - skips = 0 := by omega
    simp [this]

theorem take_split {α} (rows rest : List α) (n : Nat) :
    rows.take n ++ rest.take (n - (rows.take n).length) = (rows ++ rest).take n := by
  rw [List.take_append, List.length_take]
  congr 2; omega

theorem fillPhase_spec {α : Type} (count bs : Nat) : ∀ (current cnt : Nat) (acc : List α)
    (child : List (List α)), (∀ c ∈ child, c ≠ []) → current < count →
    ∃ X, (fillPhase count bs current cnt acc child).1 = acc ++ X ∧
      (fillPhase count bs current cnt acc child).2.1 = current + X.length ∧
      X ++ (fillPhase count bs current cnt acc child).2.2.flatten.take
          (count - (fillPhase count bs current cnt acc child).2.1)
        = child.flatten.take (count - current) ∧
      (∀ c ∈ (fillPhase count bs current cnt acc child).2.2, c ∈ child) ∧
      (fillPhase count bs current cnt acc child).2.2.length ≤ child.length ∧
      ((child = [] ∧ X = []) ∨
        (X ≠ [] ∧ (fillPhase count bs current cnt acc child).2.2.length < child.length)) := by
  intro current cnt acc child
  fun_induction fillPhase count bs current cnt acc child with
  | case1 current cnt acc => intro _ _; exact ⟨[], by simp⟩
  | case2 current cnt acc rows child h =>
    intro hne; exfalso; exact hne rows (by simp) (by simpa using h)
  | case3 current cnt acc rows child h taken current' hge =>
    intro hne hlt
    have hrows : rows ≠ [] := by simpa using h
    have htaken : taken ≠ [] := by
      intro h0
      have := congrArg List.length h0
      simp only [taken, List.length_take, List.length_nil] at this
      have : 0 < rows.length := List.length_pos_iff.mpr hrows
      omega
    refine ⟨taken, rfl, rfl, ?_, ?_, ?_, ?_⟩
    · have := take_split rows child.flatten (count - current)
      simp only [List.flatten_cons, ← this]
      congr 2; simp only [current', taken]; omega
    · intro c hc; exact List.mem_cons_of_mem _ hc
    · simp
    · right; exact ⟨htaken, by simp⟩
  | case4 current cnt acc rows child h taken current' cnt' hlt' hge =>
    intro hne hlt
    have hrows : rows ≠ [] := by simpa using h
    have htaken : taken ≠ [] := by
      intro h0
      have := congrArg List.length h0
      simp only [taken, List.length_take, List.length_nil] at this
      have : 0 < rows.length := List.length_pos_iff.mpr hrows
      omega
    refine ⟨taken, rfl, rfl, ?_, ?_, ?_, ?_⟩
    · have := take_split rows child.flatten (count - current)
      simp only [List.flatten_cons, ← this]
      congr 2; simp only [current', taken]; omega
    · intro c hc; exact List.mem_cons_of_mem _ hc
    · simp
    · right; exact ⟨htaken, by simp⟩
  | case5 current cnt acc rows child h taken current' cnt' hlt' hge ih =>
    intro hne hlt
    obtain ⟨X, h1, h2, h3, h4, h6, h5⟩ :=
      ih (fun c hc => hne c (List.mem_cons_of_mem _ hc)) (by omega)
    have hrows : rows ≠ [] := by simpa using h
    have htaken : taken ≠ [] := by
      intro h0
      have := congrArg List.length h0
      simp only [taken, List.length_take, List.length_nil] at this
      have : 0 < rows.length := List.length_pos_iff.mpr hrows
      omega
    refine ⟨taken ++ X, ?_, ?_, ?_, ?_, ?_, ?_⟩
    · rw [h1]; simp
    · rw [h2]; simp [current']; omega
    · have := take_split rows child.flatten (count - current)
      simp only [List.flatten_cons, ← this, List.append_assoc, h3]
      congr 2; simp only [current', taken]; omega
    · intro c hc; exact List.mem_cons_of_mem _ (h4 c hc)
    · simp; omega
    · right; refine ⟨by simp [htaken], ?_⟩
      simp; omega

theorem batch_spec {α : Type} (start count bs : Nat) (st : St) (child : List (List α))
    (hne : ∀ c ∈ child, c ≠ []) (out : List α) (st' : St) (child' : List (List α))
    (hb : batch start count bs st child = (out, st', child')) :
    (out = [] → (child.flatten.drop (start - st.skips)).take (count - st.current) = []) ∧
    (out ≠ [] →
      out ++ (child'.flatten.drop (start - st'.skips)).take (count - st'.current)
        = (child.flatten.drop (start - st.skips)).take (count - st.current) ∧
      (∀ c ∈ child', c ∈ child) ∧ child'.length < child.length) := by
  unfold batch at hb
  split at hb
  · rename_i s' hs
    have := skipPhase_exhausted _ _ _ _ hs
    simp only [Prod.mk.injEq] at hb
    obtain ⟨rfl, rfl, rfl⟩ := hb
    refine ⟨fun _ => ?_, fun h => absurd rfl h⟩
    rw [List.drop_of_length_le (by omega)]; simp
  · rename_i s' rows child1 hs
    obtain ⟨e1, e2, e3, e4⟩ := skipPhase_done _ _ _ _ _ _ hs
    have tgt := take_split rows child1.flatten (count - st.current)
    rw [e2] at tgt
    rw [← tgt]
    simp only [] at hb
    split at hb
    · rename_i hge
      simp only [Prod.mk.injEq] at hb
      obtain ⟨rfl, rfl, rfl⟩ := hb
      have h0 : count - st.current - (List.take (count - st.current) rows).length = 0 := by omega
      refine ⟨fun h => ?_, fun h => ⟨?_, e3, ?_⟩⟩
      · rw [h0, h]; simp
      · have h1 : count - (st.current + (List.take (count - st.current) rows).length) = 0 := by
          omega
        simp only [h0, h1, List.take_zero]
      · rcases e4 with ⟨rfl, _⟩ | e4
        · simp at h
        · exact e4
    · rename_i hlt
      have hne1 : ∀ c ∈ child1, c ≠ [] := fun c hc => hne c (e3 c hc)
      obtain ⟨X, f1, f2, f3, f4, f6, f5⟩ := fillPhase_spec count bs
        (st.current + (List.take (count - st.current) rows).length)
        (List.take (count - st.current) rows).length (List.take (count - st.current) rows)
        child1 hne1 (by omega)
      generalize fillPhase count bs _ _ _ child1 = r at hb f1 f2 f3 f4 f5 f6
      obtain ⟨out2, current2, child2⟩ := r
      simp only [Prod.mk.injEq] at hb f1 f2 f3 f4 f5 f6
      obtain ⟨rfl, rfl, rfl⟩ := hb
      subst f1
      refine ⟨fun h => ?_, fun h => ⟨?_, fun c hc => e3 c (f4 c hc), ?_⟩⟩
      · simp only [List.append_eq_nil_iff] at h
        obtain ⟨ht, rfl⟩ := h
        rcases f5 with ⟨rfl, _⟩ | ⟨hx, _⟩
        · simp [ht]
        · exact absurd rfl hx
      · simp only [e1, List.drop_zero, List.append_assoc, f3]
        congr 2; omega
      · rcases e4 with ⟨rfl, rfl⟩ | e4
        · rcases f5 with ⟨_, rfl⟩ | ⟨_, hl⟩
          · simp at h
          · exact hl
        · omega

theorem drainBatch_gen {α : Type} (start count bs fuel : Nat) : ∀ (st : St) (chunks : List (List α)),
    (∀ c ∈ chunks, c ≠ []) → chunks.length + 1 ≤ fuel →
    (drainBatch start count bs fuel st chunks).flatten
      = (chunks.flatten.drop (start - st.skips)).take (count - st.current) := by
  induction fuel with
  | zero => intro st chunks _ h; omega
  | succ fuel ih =>
    intro st chunks hne h
    unfold drainBatch
    split
    · rename_i heq
      exact ((batch_spec _ _ _ _ _ hne _ _ _ heq).1 rfl).symm
    · rename_i out st' child' hnil heq
      have hout : out ≠ [] := hnil
      obtain ⟨h1, h2, h3⟩ := (batch_spec _ _ _ _ _ hne _ _ _ heq).2 hout
      rw [List.flatten_cons, ih st' child' (fun c hc => hne c (h2 c hc)) (by omega), h1]

/-- Property 2: the batches handed out by `Batch`, concatenated, are exactly
    `take count (drop start rows)`, for every offset, count, chunking and batch size
    (no hypothesis on `bs` is needed: `bs` only decides where batches are cut). -/
theorem drainBatch_flatten_eq {α : Type} (start count bs : Nat) (chunks : List (List α))
    (hne : ∀ c ∈ chunks, c ≠ []) (fuel : Nat) (h : chunks.length + 1 ≤ fuel) :
    (Limit.drainBatch start count bs fuel {} chunks).flatten
      = (chunks.flatten.drop start).take count := by
  simpa using drainBatch_gen start count bs fuel {} chunks hne h

/-- Property 3: every batch in the drained output is non-empty (any state, any child). -/
theorem drainBatch_nonempty {α : Type} (start count bs fuel : Nat) : ∀ (st : St)
    (chunks : List (List α)), ∀ b ∈ Limit.drainBatch start count bs fuel st chunks, b ≠ [] := by
  induction fuel with
  | zero => intro st chunks b hb; simp [drainBatch] at hb
  | succ fuel ih =>
    intro st chunks b hb
    unfold drainBatch at hb
    split at hb
    · simp at hb
    · rename_i out st' child' hnil heq
      rcases List.mem_cons.mp hb with rfl | hb
      · exact hnil
      · exact ih st' child' b hb

/-- Property 4: `Batch` mode and `Next` mode return the same rows. -/
theorem drainBatch_eq_drainNext {α : Type} (start count bs : Nat) (chunks : List (List α))
    (hne : ∀ c ∈ chunks, c ≠ []) (fuel : Nat) (h : chunks.length + 1 ≤ fuel)
    (fuel' : Nat) (h' : chunks.flatten.length + 1 ≤ fuel') :
    (Limit.drainBatch start count bs fuel {} chunks).flatten
      = Limit.drainNext start count fuel' {} chunks.flatten := by
  rw [drainBatch_flatten_eq start count bs chunks hne fuel h,
    drainNext_eq start count chunks.flatten fuel' h']

/-- the hypotheses of `drainBatch_flatten_eq` are satisfiable on a non-trivial instance
    (offset equal to a chunk size) -/
example :
    (∀ c ∈ [[0, 1, 2, 3], [4, 5, 6, 7]], c ≠ ([] : List Nat)) ∧
    [[0, 1, 2, 3], [4, 5, 6, 7]].length + 1 ≤ 3 ∧
    Limit.drainBatch 4 2 4 3 {} [[0, 1, 2, 3], [4, 5, 6, 7]] = [[4, 5]] := by
  decide

example : Limit.drainBatch 1 6 2 5 {} [[0, 1], [2, 3, 4], [5, 6, 7], [8]] = [[1, 2, 3, 4], [5, 6]] := by
  decide

end Kvql.Proofs.Limit
