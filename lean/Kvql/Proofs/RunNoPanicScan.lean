/-
  RunNoPanic, part 12: scans with their verdict tables.
    * `scanTrace_fin`        how a trace of `select *` ends, in terms of the outcome of `Plans.run`;
    * `rowVerdicts_good`, `batchVerdicts_good`  every failure recorded in a verdict table of a well-formed
                             filter is an error VALUE (row evaluator: `exec_total`; batch evaluator, cache on
                             or off: `execBatch_safe`), and the table covers the keys the scan yields;
    * `scanTrace_fin_exec`   hence a scan with such a table ends cleanly or with `Fail.exec _`.
-/
import Kvql.Proofs.RunNoPanicPlans
import Kvql.Proofs.RunNoPanicVec
import Kvql.Proofs.RunTables
import Kvql.Proofs.ExecPanicFree

namespace Kvql.Proofs.RunNoPanic

open Kvql Kvql.Run Kvql.Plans Kvql.Storage

/-- an evaluation failure reported as an error value -/
def isExec (f : Run.Fail) : Prop := ∃ cls, f = .exec cls

theorem mild_of_isExec {f : Run.Fail} (h : isExec f) : mild f = true := by
  obtain ⟨cls, rfl⟩ := h; rfl

theorem not_bad_of_isExec {f : Run.Fail} (h : isExec f) : bad f = false := not_bad_of_mild (mild_of_isExec h)

/-! ### errors that are error values -/

theorem okErr_eval {e : Err} (h : e.isPanic = false ∧ e ≠ .outOfFuel) : okErr (.eval e) := by
  unfold okErr perrFail
  cases e <;> simp_all [bad, Err.isPanic]

theorem okErr_whereNotBool : okErr .whereNotBool := by simp [okErr, perrFail, bad]
theorem okErr_resultType : okErr .resultType := by simp [okErr, perrFail, bad]

theorem isExec_of_okErr {pe : Project.PErr} (h : okErr pe) : isExec (perrFail pe) := by
  unfold okErr at h
  cases pe with
  | eval e => cases e <;> simp_all [perrFail, bad, isExec]
  | whereNotBool => exact ⟨_, rfl⟩
  | resultType => exact ⟨_, rfl⟩
  | colIndex => simp [perrFail, bad] at h
  | filterIndex => simp [perrFail, bad] at h
  | fuel => simp [perrFail, bad] at h

/-! ### a trace of `select *` ends as the run of the plan model does -/

def finOf (cls : Option Project.PErr) : Plans.Outcome → Option Run.Fail
  | .ok => none
  | .planErr e => some (.storagePlan e)
  | .execErr e => some (pollFail cls e)

theorem scanTraceLoop_fin (cls : Option Project.PErr) (kind : PollKind) (bs : Nat) (w0 : Storage.World) :
    ∀ (fuel : Nat) (plan : Plan) (w : Storage.World) (acc : List (List SPair × Storage.World)) (accR : List (List Row)),
      (scanTraceLoop cls kind bs w0 fuel plan w acc).fin.1 =
        finOf cls (drain kind bs fuel plan accR none w).1.outcome
  | 0, plan, w, acc, accR => by simp [drain, scanTraceLoop, finOf, pollFail]
  | fuel + 1, plan, w, acc, accR => by
    rcases hp : plan.poll kind bs none w with ⟨⟨rows, err, plan'⟩, w'⟩
    cases err with
    | some e => simp [drain, scanTraceLoop, hp, finOf]
    | none =>
      cases rows with
      | nil => simp [drain, scanTraceLoop, hp, finOf]
      | cons r rs =>
        have hd : drain kind bs (fuel + 1) plan accR none w = drain kind bs fuel plan' (accR ++ [r :: rs]) none w' := by
          simp [drain, hp]
        have ht : scanTraceLoop cls kind bs w0 (fuel + 1) plan w acc =
            scanTraceLoop cls kind bs w0 fuel plan' w' (acc ++ [(pairsOfRows (r :: rs), w')]) := by
          simp [scanTraceLoop, hp]
        rw [hd, ht]
        exact scanTraceLoop_fin cls kind bs w0 fuel plan' w' _ _

theorem scanTrace_fin (node : ScanNode) (v : Verdicts) (kind : PollKind) (bs : Nat) (store : Store) :
    (scanTrace node v kind bs store).fin.1 =
      finOf (firstErr v) (run (.select node (filterOfV v)) kind bs none store).1.outcome := by
  unfold scanTrace run runG
  rcases hb : buildPlan (.select node (filterOfV v)) none { store := store } with ⟨r, w⟩
  cases r with
  | error e => simp [Trace.failed, finOf]
  | ok plan => exact scanTraceLoop_fin (firstErr v) kind bs w (plan.size + 2) plan w [] []

theorem filterOfV_evalOnly (v : Verdicts) (p : SPair) (e : Storage.Err) (h : filterOfV v p = .error e) : e = .eval := by
  unfold filterOfV at h
  split at h
  · cases h
  · cases h; rfl

/-! ### verdict tables -/

/-- the table has a verdict for every key the scan yields, and every failure in it is an error value -/
structure VGood (v : Verdicts) (keys : List Bytes) : Prop where
  cover : ∀ k ∈ keys, (v.lookup k).isSome = true
  errs : ∀ k pe, (k, Except.error pe) ∈ v → okErr pe

theorem lookup_mem {β : Type} : ∀ {l : List (Bytes × β)} {k : Bytes} {x : β}, l.lookup k = some x → (k, x) ∈ l
  | [], _, _, h => by simp at h
  | (k', y) :: rest, k, x, h => by
    simp only [List.lookup] at h
    split at h
    · rename_i heq
      have : k = k' := by simpa using heq
      cases h; subst this; simp
    · exact List.mem_cons_of_mem _ (lookup_mem h)

theorem lookup_isSome_of_key {β : Type} : ∀ {l : List (Bytes × β)} {k : Bytes}, k ∈ l.map (·.1) → (l.lookup k).isSome = true
  | [], _, h => by simp at h
  | (k', y) :: rest, k, h => by
    simp only [List.lookup]
    split
    · rfl
    · rename_i hne
      simp only [List.map_cons, List.mem_cons] at h
      rcases h with h | h
      · subst h; simp at hne
      · exact lookup_isSome_of_key h

theorem firstErr_of_mem : ∀ {v : Verdicts} {k : Bytes} {pe : Project.PErr}, (k, Except.error pe) ∈ v →
    ∃ k' pe', firstErr v = some pe' ∧ (k', Except.error pe') ∈ v
  | [], _, _, h => by simp at h
  | (k0, x) :: rest, k, pe, h => by
    cases x with
    | error e0 => exact ⟨k0, e0, by simp [firstErr, List.findSome?], by simp⟩
    | ok b =>
      simp only [List.mem_cons] at h
      rcases h with h | h
      · cases h
      · obtain ⟨k', pe', h1, h2⟩ := firstErr_of_mem h
        refine ⟨k', pe', ?_, List.mem_cons_of_mem _ h2⟩
        simpa [firstErr, List.findSome?] using h1

/-- a failing verdict looked up for a covered key: the table's first failure exists and is an error value -/
theorem VGood.firstErr_exec {v : Verdicts} {keys : List Bytes} (hv : VGood v keys) {p : SPair} (hk : p.1 ∈ keys)
    (he : filterOfV v p = .error .eval) : ∃ pe, firstErr v = some pe ∧ okErr pe := by
  have hs := hv.cover p.1 hk
  unfold filterOfV at he
  cases hl : v.lookup p.1 with
  | none => rw [hl] at hs; cases hs
  | some x =>
    rw [hl] at he
    cases x with
    | ok b => simp at he
    | error pe =>
      obtain ⟨k', pe', h1, h2⟩ := firstErr_of_mem (lookup_mem hl)
      exact ⟨pe', h1, hv.errs k' pe' h2⟩

/-- **a scan with a good verdict table ends cleanly or with an evaluation error value** -/
theorem scanTrace_fin_exec (node : ScanNode) (v : Verdicts) (hv : VGood v ((yielded node store).map (·.1)))
    (kind : PollKind) (bs : Nat) (hbs : 1 ≤ bs) (fl : Run.Fail)
    (h : (scanTrace node v kind bs store).fin.1 = some fl) : isExec fl := by
  rw [scanTrace_fin] at h
  rcases run_no_storage_error (.select node (filterOfV v)) (fun p e he => filterOfV_evalOnly v p e he) kind bs hbs store
    with ho | ho
  · rw [ho] at h; cases h
  · rw [ho] at h
    obtain ⟨p, hp, he⟩ := select_evalErr_covered node (filterOfV v) kind bs store ho
    obtain ⟨pe, h1, h2⟩ := hv.firstErr_exec (List.mem_map_of_mem hp) he
    simp only [finOf, pollFail, h1, Option.some.injEq] at h
    subst h
    exact isExec_of_okErr h2

/-! ### the row table -/

theorem filterRowG_okErr {w : Expr} (hw : w.wf = true) (kv : Kvql.Pair) (c : Ctx) (pe : Project.PErr)
    (h : (Project.filterRowG true w kv c).1 = .error pe) : okErr pe := by
  unfold Project.filterRowG at h
  split at h
  · rename_i e c1 hx
    cases h
    exact okErr_eval (Kvql.Proofs.PanicFree.exec_total w hw kv _ hx)
  · cases h
  · cases h; exact okErr_whereNotBool

theorem rowVerdicts_good {w : Expr} (hw : w.wf = true) (c0 : Ctx) (ys : List SPair) :
    VGood (rowVerdicts w c0 ys) (ys.map (·.1)) := by
  constructor
  · intro k hk
    apply lookup_isSome_of_key
    simpa [rowVerdicts, List.map_map, Function.comp_def] using hk
  · intro k pe hm
    simp only [rowVerdicts, List.mem_map] at hm
    obtain ⟨p, _, hp⟩ := hm
    injection hp with _ hp2
    exact filterRowG_okErr hw _ _ pe hp2

/-! ### the batch table -/

theorem mapM_boolOf_length : ∀ (vs : List Value) (ms : List Bool), vs.mapM Project.boolOf? = some ms → ms.length = vs.length
  | [], ms, h => by simp at h; subst h; rfl
  | v :: vs, ms, h => by
    cases hv : Project.boolOf? v with
    | none => simp [List.mapM_cons, hv] at h
    | some b =>
      cases hvs : vs.mapM Project.boolOf? with
      | none => simp [List.mapM_cons, hv, hvs] at h
      | some bs =>
        simp [List.mapM_cons, hv, hvs] at h
        subst h
        simp [mapM_boolOf_length vs bs hvs]

/-- `FilterExec.FilterBatch` on one non-empty chunk from a fresh context, cache on or off: one Boolean per
    pair, or an error value -/
theorem filterChunk_good {w : Expr} (hw : w.wf = true) (chunk : List Kvql.Pair) (hne : chunk ≠ []) (cache : Bool) :
    match (Project.filterChunk w chunk (Ctx.new cache)).1 with
    | .ok ms => ms.length = chunk.length
    | .error pe => okErr pe := by
  have hs := execBatch_safe w hw chunk (Ctx.new cache) (fun _ => hne) (colsLen_new cache _)
  unfold Project.filterChunk
  rcases hx : execBatch w chunk (Ctx.new cache) with ⟨r, c1⟩
  rw [hx] at hs
  cases r with
  | error e => exact okErr_eval hs.1
  | ok vs =>
    simp only
    cases hm : vs.mapM Project.boolOf? with
    | none => exact okErr_whereNotBool
    | some ms =>
      simp only
      rw [mapM_boolOf_length vs ms hm]
      exact hs.1

theorem zipVerdicts_keys : ∀ (ch : List SPair) (ms : List Bool), (zipVerdicts ch ms).map (·.1) = ch.map (·.1)
  | [], _ => rfl
  | p :: ps, [] => by simp [zipVerdicts, zipVerdicts_keys ps []]
  | p :: ps, b :: bs => by simp [zipVerdicts, zipVerdicts_keys ps bs]

theorem zipVerdicts_ok : ∀ (ch : List SPair) (ms : List Bool) (k : Bytes) (pe : Project.PErr),
    (k, Except.error pe) ∉ zipVerdicts ch ms
  | [], _, _, _ => by simp [zipVerdicts]
  | p :: ps, [], k, pe => by simp [zipVerdicts, zipVerdicts_ok ps [] k pe]
  | p :: ps, b :: bs, k, pe => by simp [zipVerdicts, zipVerdicts_ok ps bs k pe]

theorem chunkVerdicts_keys (w : Expr) (c0 : Ctx) (ch : List SPair) :
    (chunkVerdicts w c0 ch).map (·.1) = ch.map (·.1) := by
  unfold chunkVerdicts
  split
  · simp [List.map_map, Function.comp_def]
  · split
    · simp [List.map_map, Function.comp_def]
    · exact zipVerdicts_keys _ _

theorem chunkVerdicts_errs {w : Expr} (hw : w.wf = true) (cache : Bool) (ch : List SPair) (k : Bytes) (pe : Project.PErr)
    (hm : (k, Except.error pe) ∈ chunkVerdicts w (Ctx.new cache) ch) : okErr pe := by
  cases hne : ch with
  | nil =>
    subst hne
    unfold chunkVerdicts at hm
    split at hm
    · simp at hm
    · split at hm
      · simp at hm
      · simp [zipVerdicts] at hm
  | cons p ps =>
    have hg := filterChunk_good hw (ch.map toKv) (by rw [hne]; simp) cache
    unfold chunkVerdicts at hm
    split at hm
    · rename_i e he
      rw [he] at hg
      simp only [List.mem_map] at hm
      obtain ⟨q, _, hq⟩ := hm
      injection hq with _ hq2
      injection hq2 with hq3
      subst hq3
      exact hg
    · rename_i ms he
      rw [he] at hg
      simp only [List.length_map] at hg
      split at hm
      · rename_i hany
        rw [List.drop_of_length_le (by omega)] at hany
        simp at hany
      · exact absurd hm (zipVerdicts_ok _ _ _ _)

theorem batchVerdicts_keys (w : Expr) (c0 : Ctx) : ∀ (chunks : List (List SPair)),
    (batchVerdicts w c0 chunks).map (·.1) = chunks.flatten.map (·.1)
  | [] => rfl
  | c :: cs => by
    have ih := batchVerdicts_keys w c0 cs
    unfold batchVerdicts at ih ⊢
    simp only [List.flatMap_cons, List.map_append, List.flatten_cons, chunkVerdicts_keys, ih]

theorem batchVerdicts_good {w : Expr} (hw : w.wf = true) (cache : Bool) (chunks : List (List SPair)) :
    VGood (batchVerdicts w (Ctx.new cache) chunks) (chunks.flatten.map (·.1)) := by
  constructor
  · intro k hk
    apply lookup_isSome_of_key
    rw [batchVerdicts_keys]; exact hk
  · intro k pe hm
    unfold batchVerdicts at hm
    obtain ⟨ch, _, hch⟩ := List.mem_flatMap.mp hm
    exact chunkVerdicts_errs hw cache ch k pe hch

end Kvql.Proofs.RunNoPanic
