/-
  Regions of the scan nodes and the position a scan starts from, over a strictly ordered store:
  "seek to the start, read while the end test does not fire" is "the pairs of the region".
  Byte-wise order facts (prefix ⇒ ≤, convexity of a prefix class) are proved here over core's
  lexicographic order of `List UInt8`.
-/
import Kvql.Model.Plans
import Kvql.Proofs.StoreLemmas

namespace Kvql.Plans.ScanNode

open Kvql Kvql.Storage

/-- `a ≤ k`, a missing bound being no bound -/
def aboveLow : Option Bytes → Bytes → Bool
  | none, _ => true
  | some a, k => decide (a ≤ k)

/-- `k ≤ b`, a missing bound being no bound -/
def belowHigh : Option Bytes → Bytes → Bool
  | none, _ => true
  | some b, k => decide (k ≤ b)

/-- the keys a scan node stands for -/
def inRegion : ScanNode → Bytes → Bool
  | .full, _ => true
  | .prefix p, k => p.isPrefixOf k
  | .range a b, k => aboveLow a k && belowHigh b k
  | .mget ks, k => decide (k ∈ ks)
  | .empty, _ => false

/-- where the cursor of a scan stands after `Init` on a store -/
def startRest : ScanNode → Store → List Pair
  | .full, s => s.seek []
  | .prefix p, s => s.seek p
  | .range (some a) _, s => s.seek a
  | .range none _, s => s
  | _, _ => []

end Kvql.Plans.ScanNode

namespace Kvql.Proofs.Scan

open Kvql Kvql.Storage Kvql.Plans Kvql.Proofs.Store

/-! ### byte-wise order -/

theorem prefix_le : ∀ (p k : Bytes), p.isPrefixOf k = true → p ≤ k := by
  intro p
  induction p with
  | nil => intro k _; exact List.nil_le k
  | cons x p ih =>
    intro k h
    cases k with
    | nil => simp [List.isPrefixOf] at h
    | cons y k =>
      simp only [List.isPrefixOf_cons_cons, Bool.and_eq_true, beq_iff_eq] at h
      rw [List.cons_le_cons_iff]
      exact .inr ⟨h.1, ih k h.2⟩

/-- the keys with a given prefix form an interval: between the prefix itself and a key that has
    it, every key has it -/
theorem prefix_convex : ∀ (p b c : Bytes), p.isPrefixOf c = true → p ≤ b → b ≤ c → p.isPrefixOf b = true := by
  intro p
  induction p with
  | nil => intro b c _ _ _; simp [List.isPrefixOf]
  | cons x p ih =>
    intro b c hc h1 h2
    cases c with
    | nil => simp [List.isPrefixOf] at hc
    | cons z c =>
      simp only [List.isPrefixOf_cons_cons, Bool.and_eq_true, beq_iff_eq] at hc
      obtain ⟨hxz, hpc⟩ := hc
      subst hxz
      cases b with
      | nil => simp [List.le_nil] at h1
      | cons y b =>
        rw [List.cons_le_cons_iff] at h1 h2
        simp only [List.isPrefixOf_cons_cons, Bool.and_eq_true, beq_iff_eq]
        rcases h1 with h1 | ⟨h1, h1'⟩
        · rcases h2 with h2 | ⟨h2, _⟩
          · exact absurd h2 (by intro h; exact absurd h1 (by
              have := UInt8.lt_asymm h; exact this))
          · subst h2; exact absurd h1 (UInt8.lt_irrefl _)
        · subst h1
          rcases h2 with h2 | ⟨_, h2'⟩
          · exact absurd h2 (UInt8.lt_irrefl _)
          · exact ⟨rfl, ih b c hpc h1' h2'⟩

theorem key_le_of_lt {a b : Bytes} (h : a < b) : a ≤ b := List.le_of_lt h

theorem key_le_trans {a b c : Bytes} (h1 : a ≤ b) (h2 : b ≤ c) : a ≤ c := List.le_trans h1 h2

theorem key_lt_of_lt_of_le {a b c : Bytes} (h1 : a < b) (h2 : b ≤ c) : a < c := by
  rcases List.le_iff_lt_or_eq.mp h2 with h | h
  · exact List.lt_trans h1 h
  · subst h; exact h1

/-! ### strictly ordered lists -/

/-- lower-bound seek on an ordered store: exactly the pairs with key ≥ `a` -/
theorem seek_eq_filter {s : Store} (hs : s.Sorted) (a : Bytes) :
    s.seek a = s.filter (fun p => decide (a ≤ p.1)) := by
  induction s with
  | nil => rfl
  | cons p r ih =>
    unfold Store.Sorted at hs
    rw [List.pairwise_cons] at hs
    simp only [Store.seek, List.dropWhile_cons, List.filter_cons]
    by_cases h : p.1 < a
    · have : ¬ a ≤ p.1 := List.not_le.mpr h
      simp only [h, decide_true, if_true, this, decide_false, Bool.false_eq_true, if_false]
      exact ih hs.2
    · have hle : a ≤ p.1 := List.not_lt.mp h
      simp only [h, decide_false, Bool.false_eq_true, if_false, hle, decide_true, if_true]
      congr 1
      symm
      rw [List.filter_eq_self]
      intro q hq
      exact decide_eq_true (key_le_trans hle (key_le_of_lt (hs.1 q hq)))

/-- if the end test, once it fires, fires for everything that follows, "read until it fires" is
    "the pairs on which it does not fire" -/
theorem takeWhile_eq_filter (stop : Bytes → Bool) : ∀ (l : List Pair),
    l.Pairwise (fun p q => stop p.1 = true → stop q.1 = true) →
    l.takeWhile (fun p => !stop p.1) = l.filter (fun p => !stop p.1) := by
  intro l
  induction l with
  | nil => intro _; rfl
  | cons p r ih =>
    intro h
    rw [List.pairwise_cons] at h
    simp only [List.takeWhile_cons, List.filter_cons]
    by_cases hp : stop p.1 = true
    · simp only [hp, Bool.not_true, Bool.false_eq_true, if_false]
      symm
      rw [List.filter_eq_nil_iff]
      intro q hq
      simp [h.1 q hq hp]
    · have hp' : stop p.1 = false := by simpa using hp
      simp only [hp', Bool.not_false, if_true]
      rw [ih h.2]

theorem sorted_sublist {s l : Store} (h : l.Sublist s) (hs : s.Sorted) : l.Sorted :=
  List.Pairwise.sublist h hs

/-- two strictly ordered lists with the same members are equal -/
theorem sorted_ext : ∀ (l1 l2 : Store), l1.Sorted → l2.Sorted → (∀ x, x ∈ l1 ↔ x ∈ l2) → l1 = l2 := by
  intro l1
  induction l1 with
  | nil =>
    intro l2 _ _ h
    cases l2 with
    | nil => rfl
    | cons y r => exact absurd ((h y).mpr List.mem_cons_self) (by simp)
  | cons x r ih =>
    intro l2 h1 h2 h
    cases l2 with
    | nil => exact absurd ((h x).mp List.mem_cons_self) (by simp)
    | cons y r2 =>
      unfold Store.Sorted at h1 h2
      rw [List.pairwise_cons] at h1 h2
      have hxy : x = y := by
        have hx := (h x).mp List.mem_cons_self
        have hy := (h y).mpr List.mem_cons_self
        rcases List.mem_cons.mp hx with e | hx'
        · exact e
        · rcases List.mem_cons.mp hy with e | hy'
          · exact e.symm
          · exact absurd (h1.1 y hy') (List.lt_asymm (h2.1 x hx'))
      subst hxy
      congr 1
      apply ih r2 h1.2 h2.2
      intro z
      constructor
      · intro hz
        rcases List.mem_cons.mp ((h z).mp (List.mem_cons_of_mem _ hz)) with e | hz'
        · subst e; exact absurd (h1.1 z hz) (key_lt_irrefl _)
        · exact hz'
      · intro hz
        rcases List.mem_cons.mp ((h z).mpr (List.mem_cons_of_mem _ hz)) with e | hz'
        · subst e; exact absurd (h2.1 z hz) (key_lt_irrefl _)
        · exact hz'

/-- in a strictly ordered store a pair is a member iff `lookup` finds it -/
theorem mem_iff_lookup {s : Store} (hs : s.Sorted) (k v : Bytes) : (k, v) ∈ s ↔ s.lookup k = some v := by
  induction s with
  | nil => simp [Store.lookup]
  | cons p r ih =>
    obtain ⟨k0, v0⟩ := p
    unfold Store.Sorted at hs
    rw [List.pairwise_cons] at hs
    simp only [Store.lookup, List.mem_cons]
    by_cases h : k0 = k
    · subst h
      simp only [if_true, Option.some.injEq]
      constructor
      · intro hm
        rcases hm with e | hm
        · cases e; rfl
        · exact absurd (hs.1 _ hm) (key_lt_irrefl _)
      · intro e; subst e; exact .inl rfl
    · simp only [h, if_false]
      rw [← ih hs.2]
      constructor
      · intro hm
        rcases hm with e | hm
        · cases e; exact absurd rfl h
        · exact hm
      · intro hm; exact .inr hm

/-! ### the region of a cursor scan is what "seek, then read until the end test fires" visits -/

theorem cursor_region_aux {s : Store} (hs : s.Sorted) (low stop reg : Bytes → Bool)
    (hmono : ∀ k k', low k = true → k < k' → stop k = true → stop k' = true)
    (hreg : ∀ k, reg k = (!stop k && low k)) :
    (s.filter (fun p => low p.1)).takeWhile (fun p => !stop p.1) = s.filter (fun p => reg p.1) := by
  have hsorted : Store.Sorted (s.filter (fun p => low p.1)) := List.Pairwise.filter _ hs
  have hpw : (s.filter (fun p => low p.1)).Pairwise (fun p q => stop p.1 = true → stop q.1 = true) := by
    refine List.Pairwise.imp_of_mem ?_ hsorted
    intro p q hp _ hlt
    exact hmono p.1 q.1 (by simpa using (List.mem_filter.mp hp).2) hlt
  rw [takeWhile_eq_filter stop _ hpw, List.filter_filter]
  congr 1
  funext p
  exact (hreg p.1).symm

theorem filter_true (s : Store) : s.filter (fun _ => true) = s := List.filter_eq_self.mpr (fun _ _ => rfl)

theorem region_of_cursor_scan (node : ScanNode) (hc : node.isCursorScan = true) {s : Store} (hs : s.Sorted) :
    (node.startRest s).takeWhile (fun p => !node.stop p.1) = s.filter (fun p => node.inRegion p.1) := by
  cases node with
  | mget ks => simp [ScanNode.isCursorScan] at hc
  | empty => simp [ScanNode.isCursorScan] at hc
  | full =>
    simp only [ScanNode.startRest]
    rw [seek_eq_filter hs]
    refine cursor_region_aux hs (fun k => decide ([] ≤ k)) _ _ ?_ ?_
    · intro k k' _ _ h; simp [ScanNode.stop] at h
    · intro k; simp [ScanNode.stop, ScanNode.inRegion, List.nil_le]
  | «prefix» pre =>
    simp only [ScanNode.startRest]
    rw [seek_eq_filter hs]
    refine cursor_region_aux hs (fun k => decide (pre ≤ k)) _ _ ?_ ?_
    · intro k k' hlow hlt h
      simp only [ScanNode.stop, Bool.not_eq_true'] at h ⊢
      cases h' : pre.isPrefixOf k' with
      | false => rfl
      | true =>
        have := prefix_convex pre k k' h' (of_decide_eq_true hlow) (key_le_of_lt hlt)
        rw [this] at h; cases h
    · intro k
      simp only [ScanNode.stop, ScanNode.inRegion, Bool.not_not]
      cases h : pre.isPrefixOf k with
      | false => rfl
      | true => simp [prefix_le pre k h]
  | range a b =>
    have hmono : ∀ (low : Bytes → Bool) k k', low k = true → k < k' →
        (ScanNode.range a b).stop k = true → (ScanNode.range a b).stop k' = true := by
      intro low k k' _ hlt h
      cases b with
      | none => simp [ScanNode.stop] at h
      | some e =>
        simp only [ScanNode.stop, decide_eq_true_eq] at h ⊢
        exact List.lt_trans h hlt
    have hstop : ∀ k, (!(ScanNode.range a b).stop k) = ScanNode.belowHigh b k := by
      intro k
      cases b with
      | none => rfl
      | some e =>
        simp only [ScanNode.stop]
        by_cases h : e < k
        · have : ¬ k ≤ e := List.not_le.mpr h
          simp [ScanNode.belowHigh, h, this]
        · have : k ≤ e := List.not_lt.mp h
          simp [ScanNode.belowHigh, h, this]
    cases a with
    | none =>
      simp only [ScanNode.startRest]
      have e : s = s.filter (fun p => (fun _ => true) p.1) := (filter_true s).symm
      conv => lhs; rw [e]
      refine cursor_region_aux hs (fun _ => true) _ _ (hmono _) ?_
      intro k
      rw [hstop]
      simp [ScanNode.inRegion, ScanNode.aboveLow]
    | some a =>
      simp only [ScanNode.startRest]
      rw [seek_eq_filter hs]
      refine cursor_region_aux hs (fun k => decide (a ≤ k)) _ _ (hmono _) ?_
      intro k
      rw [hstop]
      simp [ScanNode.inRegion, ScanNode.aboveLow, Bool.and_comm]

end Kvql.Proofs.Scan
