/-
  C04, `Optimize()` = two passes: the returned root and the node that was the root both keep the
  value of the original (`optimizeBoth_ok`), and the statement on `exec`.
-/
import Kvql.Proofs.FoldSpec
namespace Kvql
open Generated
namespace Fold

/-! ### `Optimize()`: two passes -/

theorem setLeft_rel {q : Nat} {op : Op} {l r l' : Expr} (h : FoldRel l l') :
    FoldRel (.binop q op l r) (setLeft (.binop q op l r) l') := FoldRel.binop q op h (.refl r)

theorem setRight_rel {q : Nat} {op : Op} {l r r' : Expr} (h : FoldRel r r') :
    FoldRel (.binop q op l r) (setRight (.binop q op l r) r') := FoldRel.binop q op (.refl l) h

/-- both results of `Optimize()`: the returned root has the value of the original wherever the
    original has one; the node that was the root is left in a state that does so too (and keeps
    its static type and the shape `in` / `between` inspect) -/
theorem optimizeBoth_ok {e r n : Expr} (h : optimizeBoth e = .ok (r, n)) : Sem e r ∧ FoldRel e n := by
  rw [optimizeBoth] at h
  obtain ⟨p1, h1, h⟩ := except_bind_ok h
  obtain ⟨p2, h2, h⟩ := except_bind_ok h
  have o1 := pass_ok e p1 h1
  have o2 := pass_ok p1.ret p2 h2
  cases h
  refine ⟨o1.sem.trans o2.sem, ?_⟩
  have hloc := o1.loc
  cases hw : p1.which <;> simp only [hw] at hloc ⊢
  · -- self
    rw [hloc] at o2
    exact o1.node.trans o2.node
  · -- left
    obtain ⟨q, op, l, r, hn, hr⟩ := hloc
    rw [hr] at o2
    have o1n := o1.node
    rw [hn] at o1n ⊢
    exact o1n.trans (setLeft_rel o2.node)
  · -- right
    obtain ⟨q, op, l, r, hn, hr⟩ := hloc
    rw [hr] at o2
    have o1n := o1.node
    rw [hn] at o1n ⊢
    exact o1n.trans (setRight_rel o2.node)
  · exact o1.node

/-! ### stated on `exec` -/

theorem sem_exec {e e' : Expr} (h : Sem e e') {kv : Pair} {c c' : Ctx} {v : Value} (hc : c.enable = false)
    (hv : exec e kv c = (.ok v, c')) : ∃ v', exec e' kv c = (.ok v', c') ∧ Rel v' v := by
  have he := exec_off e kv hc
  rw [hv] at he
  have hcc : c' = c := by simpa using congrArg Prod.snd he
  have hev : ev e kv c = .ok v := by simpa using (congrArg Prod.fst he).symm
  obtain ⟨v', hv', rv⟩ := h kv c hc v hev
  exact ⟨v', by rw [exec_off e' kv hc, hv', hcc], rv⟩

/-- `Rel` keeps the kind: the two values are the same, or the same text held as `[]byte` by the
    folded literal where the original `+` / function call held a Go string -/
theorem Rel.same_kind {v' v : Value} (h : Rel v' v) : v'.norm = v.norm := h.contentEq

/-- exactly the same value unless the original value is a Go string -/
theorem Rel.eq_of_not_str {v' v : Value} (h : Rel v' v) (hs : ∀ s, v ≠ .str s) : v' = v := by
  rcases h with rfl | ⟨b, _, rfl⟩
  · rfl
  · exact absurd rfl (hs b)

end Fold
end Kvql
