/-
  RunNoPanic, part 10b: batch mode with a field list — the STORAGE side (`Run.scanTrace` in batch mode with a
  filter that fails on every pair of a failing chunk) computes `pollsOfE`: the pairs it hands out call by call,
  and `some (pollFail cls .eval)` as terminal failure exactly when `pollsOfE` ends with a failure (never a
  failure of the storage machine).
-/
import Kvql.Proofs.RunNoPanicLockBatchA

namespace Kvql.Proofs.RunNoPanic.LockBatch

open Kvql Kvql.Run Kvql.Plans Kvql.Storage Kvql.Proofs.Scan Kvql.Proofs.Plan Kvql.Proofs.Store
open Kvql.Proofs.RunTables Kvql.Proofs.RunScan Kvql.Proofs.RunFields

/-- the plan filter agrees with the chunk verdicts `V` on the non-empty chunks of `chunks` -/
def FilterV (filter : Filter) (V : ChunkV) (chunks : List (List SPair)) : Prop :=
  ∀ c ∈ chunks, c ≠ [] →
    Plans.filterChunk filter c = (match V c with | .error _ => .error .eval | .ok ms => .ok ms)

theorem FilterV.sub {filter : Filter} {V : ChunkV} {A B : List (List SPair)} (h : FilterV filter V A)
    (hs : ∀ c ∈ B, c ∈ A) : FilterV filter V B := fun c hc hne => h c (hs c hc) hne

theorem pollLoopE_single_ok (bs : Nat) (V : ChunkV) (c ret : List SPair) (hne : c ≠ []) {ms : List Bool}
    (hv : V c = .ok ms) : pollLoopE bs V [c] ret = .ok (ret ++ selectMatches c ms, []) := by
  have hce : c.isEmpty = false := by cases c <;> simp_all
  rw [pollLoopE]
  simp only [hce, Bool.false_eq_true, if_false, hv]
  split <;> simp [pollLoopE]

/-- a cursor scan's `Batch` (not `done`) computes `pollLoopE` on the inner chunks of what is left -/
theorem cursorBatchLoop_pollE (stop : Bytes → Bool) (filter : Filter) (V : ChunkV) (bs : Nat) (hbs : 1 ≤ bs) :
    ∀ (fuel : Nat) (rest ret : List SPair), rest.length < fuel → ret.length < bs →
    FilterV filter V (Run.chunksOf bs (rest.takeWhile (fun p => !stop p.1))) →
    ∀ w, ∃ w',
      (∃ e, pollLoopE bs V (Run.chunksOf bs (rest.takeWhile (fun p => !stop p.1))) ret = .error e ∧
        cursorBatchLoop stop filter bs fuel rest ret none w = (.error .eval, w')) ∨
      (∃ X R r' d, pollLoopE bs V (Run.chunksOf bs (rest.takeWhile (fun p => !stop p.1))) ret = .ok (X, R) ∧
        cursorBatchLoop stop filter bs fuel rest ret none w = (.ok (X, r', d), w') ∧
        R = (if d then [] else Run.chunksOf bs (r'.takeWhile (fun p => !stop p.1))) ∧
        (d = false → r'.length < rest.length)) := by
  intro fuel
  induction fuel with
  | zero => intro rest ret h; omega
  | succ fuel ih =>
    intro rest ret hfuel hret hF w
    obtain ⟨w1, h1, _⟩ := readChunk_spec stop bs rest [] w
    obtain ⟨c1, c2, c3, c4, c5⟩ := pureChunk_spec stop bs rest
    have c6 := pureChunk_length_le stop bs rest
    simp only [cursorBatchLoop, run_bind, h1, List.nil_append]
    generalize pureChunk stop bs rest = x at *
    obtain ⟨chunk, fin, r1⟩ := x
    simp only at c1 c2 c3 c4 c5 c6 ⊢
    cases hce : chunk.isEmpty with
    | true =>
      have hc : chunk = [] := List.isEmpty_iff.mp hce
      subst hc
      have hfin : fin = true := by
        cases fin with
        | true => rfl
        | false => have := c3 rfl; simp at this; omega
      subst hfin
      simp only [if_true, List.nil_append] at c1
      simp only [if_true, run_pure, c1, chunksOf_nil, pollLoopE]
      exact ⟨w1, .inr ⟨ret, [], r1, true, rfl, rfl, rfl, fun h => by cases h⟩⟩
    | false =>
      have hne : chunk ≠ [] := by intro h; subst h; simp at hce
      have hlen : r1.length < rest.length := by
        have : 0 < chunk.length := List.length_pos_iff.mpr hne
        omega
      simp only [Bool.false_eq_true, if_false]
      cases fin with
      | true =>
        simp only [if_true, List.append_nil] at c1
        have hch : Run.chunksOf bs (rest.takeWhile (fun p => !stop p.1)) = [chunk] := by
          rw [c1]; exact chunksOf_short bs chunk hne c6
        rw [hch] at hF ⊢
        have hfc := hF chunk List.mem_cons_self hne
        cases hv : V chunk with
        | error e =>
          rw [hv] at hfc
          have hpl : pollLoopE bs V [chunk] ret = .error e := by
            rw [pollLoopE]; simp only [hce, Bool.false_eq_true, if_false, hv]
          simp only [hfc, run_ofExcept_error, run_bind, run_throw, hpl]
          exact ⟨w1, .inl ⟨e, rfl, rfl⟩⟩
        | ok ms =>
          rw [hv] at hfc
          simp only [hfc, run_ofExcept_ok, run_bind, run_pure, if_true, pollLoopE_single_ok bs V chunk ret hne hv]
          exact ⟨w1, .inr ⟨_, [], r1, true, rfl, rfl, rfl, fun h => by cases h⟩⟩
      | false =>
        simp only [Bool.false_eq_true, if_false] at c1
        have hcl : chunk.length = bs := c3 rfl
        have hch : Run.chunksOf bs (rest.takeWhile (fun p => !stop p.1)) =
            chunk :: Run.chunksOf bs (r1.takeWhile (fun p => !stop p.1)) := by
          rw [c1]; exact chunksOf_append bs hbs chunk _ hcl
        rw [hch] at hF ⊢
        have hfc := hF chunk List.mem_cons_self hne
        rw [pollLoopE]
        simp only [hce, Bool.false_eq_true, if_false]
        cases hv : V chunk with
        | error e =>
          rw [hv] at hfc
          simp only [hfc, run_ofExcept_error, run_bind, run_throw]
          exact ⟨w1, .inl ⟨e, rfl, rfl⟩⟩
        | ok ms =>
          rw [hv] at hfc
          simp only [hfc, run_ofExcept_ok, run_bind, run_pure]
          by_cases hfull : (ret ++ selectMatches chunk ms).length ≥ bs
          · simp only [hfull, if_true, run_pure]
            exact ⟨w1, .inr ⟨_, _, r1, false, rfl, rfl, by simp, fun _ => hlen⟩⟩
          · simp only [hfull, if_false]
            obtain ⟨w2, h2⟩ := ih r1 (ret ++ selectMatches chunk ms) (by omega) (by omega)
              (hF.sub (fun c hc => List.mem_cons_of_mem _ hc)) w1
            refine ⟨w2, ?_⟩
            rcases h2 with ⟨e, p1, p2⟩ | ⟨X, R, r2, d, p1, p2, p3, p4⟩
            · exact .inl ⟨e, p1, p2⟩
            · exact .inr ⟨X, R, r2, d, p1, p2, p3, fun hd => by have := p4 hd; omega⟩

theorem scanTraceLoop_done_cursor (cls : Option Project.PErr) (node : ScanNode) (hc : node.isCursorScan = true)
    (filter : Filter) (bs fuel : Nat) (w0 : Storage.World) (snap rest : List SPair) (kl : List Bytes)
    (acc : List (List SPair × Storage.World)) (w : Storage.World) :
    scanTraceLoop cls .batch bs w0 (fuel + 1) (.select node filter (cursorSt snap rest kl true)) w acc =
      { w0 := w0, polls := acc, fin := (none, w) } := by
  obtain ⟨_, h2⟩ := scan_done node hc filter bs snap rest kl
  simp [scanTraceLoop, Plan.poll, h2]

/-- what the storage side hands out, and how it ends, in terms of `pollsOfE` -/
def TraceIs (cls : Option Project.PErr) (t : Trace SPair) (acc : List (List SPair × Storage.World))
    (r : List (List SPair) × Option Project.PErr) : Prop :=
  t.polls.map (·.1) = acc.map (·.1) ++ r.1 ∧ t.fin.1 = r.2.map (fun _ => pollFail cls .eval)

/-- the batch drain of a cursor scan, call by call -/
theorem scanTraceLoop_cursor_pollsE (cls : Option Project.PErr) (node : ScanNode) (hc : node.isCursorScan = true)
    (filter : Filter) (V : ChunkV) (bs : Nat) (hbs : 1 ≤ bs) (w0 : Storage.World) (snap : List SPair) (kl : List Bytes) :
    ∀ (fuel : Nat) (rest : List SPair) (acc : List (List SPair × Storage.World)), rest.length + 2 ≤ fuel →
    FilterV filter V (Run.chunksOf bs (rest.takeWhile (fun p => !node.stop p.1))) →
    ∀ w, TraceIs cls (scanTraceLoop cls .batch bs w0 fuel (.select node filter (cursorSt snap rest kl false)) w acc) acc
      (pollsOfE bs V fuel (Run.chunksOf bs (rest.takeWhile (fun p => !node.stop p.1)))) := by
  intro fuel
  induction fuel with
  | zero => intro rest acc h; omega
  | succ fuel ih =>
    intro rest acc hfuel hF w
    obtain ⟨w1, h1⟩ := cursorBatchLoop_pollE node.stop filter V bs hbs (rest.length + 1) rest [] (by omega)
      (by simp; omega) hF w
    simp only [scanTraceLoop, Plan.poll, scanBatch_cursor node hc, run_bind, pollsOfE]
    rcases h1 with ⟨e, p1, p2⟩ | ⟨X, R, r', d, p1, p2, p3, p4⟩
    · rw [p1, p2]
      simp [TraceIs]
    · rw [p1, p2]
      simp only [run_pure]
      cases X with
      | nil => simp [TraceIs]
      | cons x xs =>
        simp only [List.map_cons]
        have hpr : pairsOfRows (Row.pair x :: xs.map Row.pair) = x :: xs := pairsOfRows_map (x :: xs)
        rw [hpr]
        cases d with
        | true =>
          obtain ⟨fuel', hf⟩ : ∃ f', fuel = f' + 1 := ⟨fuel - 1, by omega⟩
          subst hf
          simp only [if_true] at p3
          subst p3
          rw [scanTraceLoop_done_cursor cls node hc, pollsOfE_nil]
          simp [TraceIs]
        | false =>
          simp only [Bool.false_eq_true, if_false] at p3
          subst p3
          have hlt := p4 rfl
          have hmem := pollLoopE_rest_mem bs V _ _ _ _ p1
          obtain ⟨q1, q2⟩ := ih r' (acc ++ [(x :: xs, w1)]) (by omega) (hF.sub hmem) w1
          refine ⟨?_, q2⟩
          rw [q1]; simp

/-! ### MultiGet -/

theorem mgetChunks_nil (s : Store) (bs : Nat) : mgetChunks s bs [] = [] := by
  simp [mgetChunks, chunksOf_nil]

theorem mgetChunks_cons (s : Store) (bs : Nat) (hbs : 1 ≤ bs) (ks : List Bytes) (hne : ks ≠ []) :
    mgetChunks s bs ks = (ks.take bs).filterMap (lk s) :: mgetChunks s bs (ks.drop bs) := by
  by_cases hlen : ks.length < bs
  · have htake : ks.take bs = ks := List.take_of_length_le (by omega)
    have hdrop : ks.drop bs = [] := List.drop_of_length_le (by omega)
    rw [htake, hdrop, mgetChunks_nil]
    unfold mgetChunks
    rw [chunksOf_short bs ks hne (by omega)]
    rfl
  · have hsplit : ks = ks.take bs ++ ks.drop bs := (List.take_append_drop bs ks).symm
    have htl : (ks.take bs).length = bs := by rw [List.length_take]; omega
    unfold mgetChunks
    conv => lhs; rw [hsplit]
    rw [chunksOf_append bs hbs _ _ htl]
    rfl

/-- `MultiGetPlan.Batch` computes `pollLoopE` on the inner chunks of the keys left -/
theorem mgetBatchLoop_pollE (s : Store) (filter : Filter) (V : ChunkV) (bs : Nat) (hbs : 1 ≤ bs) :
    ∀ (fuel : Nat) (ks : List Bytes) (ret : List SPair), ks.length < fuel → ret.length < bs →
    FilterV filter V (mgetChunks s bs ks) →
    ∀ w, w.store = s → ∃ w',
      (∃ e, pollLoopE bs V (mgetChunks s bs ks) ret = .error e ∧
        mgetBatchLoop filter bs fuel ks ret none w = (.error .eval, w')) ∨
      (∃ X R ks', pollLoopE bs V (mgetChunks s bs ks) ret = .ok (X, R) ∧
        mgetBatchLoop filter bs fuel ks ret none w = (.ok (X, ks'), w') ∧ w'.store = s ∧
        R = mgetChunks s bs ks' ∧ ks'.length ≤ ks.length ∧ (ks ≠ [] → ks'.length < ks.length)) := by
  intro fuel
  induction fuel with
  | zero => intro ks ret h; omega
  | succ fuel ih =>
    intro ks ret hfuel hret hF w hw
    obtain ⟨w1, h1, hs1⟩ := mgetReadChunk_spec s bs ks [] w hw
    simp only [mgetBatchLoop, run_bind, h1, List.nil_append, pureMgetChunk_eq]
    by_cases hks : ks = []
    · subst hks
      have hb : decide (([] : List Bytes).length < bs) = true := by simp; omega
      simp only [List.take_nil, List.filterMap_nil, List.isEmpty_nil, if_true, hb, Bool.true_or,
        List.drop_nil, mgetChunks_nil, pollLoopE]
      exact ⟨w1, .inr ⟨ret, [], [], rfl, rfl, hs1, (mgetChunks_nil s bs).symm, by simp, fun h => absurd rfl h⟩⟩
    · have hdl : (ks.drop bs).length < ks.length := by
        have : 0 < ks.length := List.length_pos_iff.mpr hks
        rw [List.length_drop]; omega
      rw [mgetChunks_cons s bs hbs ks hks] at hF ⊢
      have hFd : FilterV filter V (mgetChunks s bs (ks.drop bs)) := hF.sub (fun c hc => List.mem_cons_of_mem _ hc)
      -- what follows the `if len(filterBatch) > 0 { … }`, with the new `ret'`
      have key : ∀ ret' : List SPair, ∃ w',
          (∃ e, (if ret'.length ≥ bs then .ok (ret', mgetChunks s bs (ks.drop bs))
                  else pollLoopE bs V (mgetChunks s bs (ks.drop bs)) ret') = Except.error e ∧
            (if (decide (ks.length < bs) || decide (ret'.length ≥ bs)) = true
              then (pure (ret', ks.drop bs) : Storage.M (List SPair × List Bytes))
              else mgetBatchLoop filter bs fuel (ks.drop bs) ret') none w1 = (.error .eval, w')) ∨
          (∃ X R ks', (if ret'.length ≥ bs then .ok (ret', mgetChunks s bs (ks.drop bs))
                  else pollLoopE bs V (mgetChunks s bs (ks.drop bs)) ret') = Except.ok (X, R) ∧
            (if (decide (ks.length < bs) || decide (ret'.length ≥ bs)) = true
              then (pure (ret', ks.drop bs) : Storage.M (List SPair × List Bytes))
              else mgetBatchLoop filter bs fuel (ks.drop bs) ret') none w1 = (.ok (X, ks'), w') ∧ w'.store = s ∧
            R = mgetChunks s bs ks' ∧ ks'.length ≤ ks.length ∧ (ks ≠ [] → ks'.length < ks.length)) := by
        intro ret'
        by_cases hfull : ret'.length ≥ bs
        · simp only [hfull, if_true, decide_true, Bool.or_true, run_pure]
          exact ⟨w1, .inr ⟨ret', _, ks.drop bs, rfl, rfl, hs1, rfl, by omega, fun _ => hdl⟩⟩
        · simp only [hfull, if_false, decide_false, Bool.or_false]
          by_cases hlen : ks.length < bs
          · have hdrop : ks.drop bs = [] := List.drop_of_length_le (by omega)
            simp only [hlen, decide_true, if_true, run_pure, hdrop, mgetChunks_nil, pollLoopE]
            exact ⟨w1, .inr ⟨ret', [], [], rfl, rfl, hs1, (mgetChunks_nil s bs).symm, by simp,
              fun _ => by simpa using List.length_pos_iff.mpr hks⟩⟩
          · simp only [hlen, decide_false, Bool.false_eq_true, if_false]
            obtain ⟨w2, h2⟩ := ih (ks.drop bs) ret' (by omega) (by omega) hFd w1 hs1
            refine ⟨w2, ?_⟩
            rcases h2 with ⟨e, p1, p2⟩ | ⟨X, R, ks2, p1, p2, p3, p4, p5, p6⟩
            · exact .inl ⟨e, p1, p2⟩
            · exact .inr ⟨X, R, ks2, p1, p2, p3, p4, by omega, fun _ => by omega⟩
      rw [pollLoopE]
      cases hce : ((ks.take bs).filterMap (lk s)).isEmpty with
      | true =>
        have hr : ¬ bs ≤ ret.length := by omega
        simpa [hr] using key ret
      | false =>
        have hne : (ks.take bs).filterMap (lk s) ≠ [] := by intro h; rw [h] at hce; simp at hce
        have hfc := hF _ List.mem_cons_self hne
        simp only [Bool.false_eq_true, if_false]
        cases hv : V ((ks.take bs).filterMap (lk s)) with
        | error e =>
          rw [hv] at hfc
          simp only [hfc, run_ofExcept_error, run_bind, run_throw]
          exact ⟨w1, .inl ⟨e, rfl, rfl⟩⟩
        | ok ms =>
          rw [hv] at hfc
          simp only [hfc, run_ofExcept_ok, run_bind, run_pure]
          exact key _

/-- the batch drain of a MultiGet, call by call -/
theorem scanTraceLoop_mget_pollsE (cls : Option Project.PErr) (s : Store) (K : List Bytes) (filter : Filter)
    (V : ChunkV) (bs : Nat) (hbs : 1 ≤ bs) (w0 : Storage.World) :
    ∀ (fuel : Nat) (ks : List Bytes) (acc : List (List SPair × Storage.World)), ks.length + 2 ≤ fuel →
    FilterV filter V (mgetChunks s bs ks) →
    ∀ w, w.store = s →
      TraceIs cls (scanTraceLoop cls .batch bs w0 fuel (.select (.mget K) filter (mgetSt ks)) w acc) acc
        (pollsOfE bs V fuel (mgetChunks s bs ks)) := by
  intro fuel
  induction fuel with
  | zero => intro ks acc h; omega
  | succ fuel ih =>
    intro ks acc hfuel hF w hw
    obtain ⟨w1, h1⟩ := mgetBatchLoop_pollE s filter V bs hbs (ks.length + 1) ks [] (by omega) (by simp; omega) hF w hw
    simp only [scanTraceLoop, Plan.poll, ScanNode.batch, run_bind, pollsOfE]
    rcases h1 with ⟨e, p1, p2⟩ | ⟨X, R, ks', p1, p2, p3, p4, p5, p6⟩
    · rw [p1, p2]
      simp [TraceIs]
    · rw [p1, p2]
      simp only [run_pure]
      cases X with
      | nil => simp [TraceIs]
      | cons x xs =>
        simp only [List.map_cons]
        have hpr : pairsOfRows (Row.pair x :: xs.map Row.pair) = x :: xs := pairsOfRows_map (x :: xs)
        rw [hpr]
        subst p4
        have hne : ks ≠ [] := by
          intro h
          subst h
          simp [mgetChunks_nil, pollLoopE] at p1
        have hlt := p6 hne
        have hmem := pollLoopE_rest_mem bs V _ _ _ _ p1
        obtain ⟨q1, q2⟩ := ih ks' (acc ++ [(x :: xs, w1)]) (by omega) (hF.sub hmem) w1 p3
        refine ⟨?_, q2⟩
        rw [q1]; simp

/-! ### `scanTrace` in batch mode -/

/-- **the storage side of batch mode, call by call, failures included** -/
theorem scanTrace_batch_pollsE (node : ScanNode) (store : Store) (v : Verdicts) (V : ChunkV) (bs : Nat) (hbs : 1 ≤ bs)
    (hF : FilterV (filterOfV v) V (innerChunks node bs store)) :
    TraceIs (firstErr v) (scanTrace node v .batch bs store) []
      (pollsOfE bs V ((innerChunks node bs store).length + 1) (innerChunks node bs store)) := by
  by_cases hc : node.isCursorScan = true
  · obtain ⟨w0, hb, _⟩ := buildPlan_cursor node hc (filterOfV v) { store := store }
    have hchunks : Run.chunksOf bs ((node.startRest store).takeWhile (fun p => !node.stop p.1)) =
        innerChunks node bs store := by
      cases node with
      | mget ks => simp [ScanNode.isCursorScan] at hc
      | empty => simp [ScanNode.isCursorScan] at hc
      | full => simp only [innerChunks, yielded, startRest_eq]
      | «prefix» pre => simp only [innerChunks, yielded, startRest_eq]
      | range a b => simp only [innerChunks, yielded, startRest_eq]
    have h1 := scanTraceLoop_cursor_pollsE (firstErr v) node hc (filterOfV v) V bs hbs w0 store []
      ((node.startRest store).length + 2) (node.startRest store) [] (by omega) (by rw [hchunks]; exact hF) w0
    rw [hchunks] at h1
    unfold scanTrace
    rw [hb]
    simp only [Plan.size, ScanSt.size, List.length_nil, Nat.add_zero]
    rw [pollsOfE_fuel bs V ((innerChunks node bs store).length + 1) ((node.startRest store).length + 2)]
    · exact h1
    · omega
    · have h1 := chunksOf_length_le bs hbs ((node.startRest store).takeWhile (fun p => !node.stop p.1))
      have h2 : ((node.startRest store).takeWhile (fun p => !node.stop p.1)).length ≤ (node.startRest store).length :=
        (List.takeWhile_sublist _).length_le
      rw [hchunks] at h1
      omega
  · cases node with
    | full => simp [ScanNode.isCursorScan] at hc
    | «prefix» pre => simp [ScanNode.isCursorScan] at hc
    | range a b => simp [ScanNode.isCursorScan] at hc
    | empty =>
      have hch : innerChunks .empty bs store = [] := by simp [innerChunks, yielded, chunksOf_nil]
      rw [hch]
      simp [scanTrace, buildPlan_empty, scanTraceLoop, Plan.poll, ScanNode.batch, pollsOfE, pollLoopE, TraceIs]
    | mget ks =>
      have hchunks : mgetChunks store bs ks = innerChunks (.mget ks) bs store := rfl
      have h1 := scanTraceLoop_mget_pollsE (firstErr v) store ks (filterOfV v) V bs hbs { store := store }
        (ks.length + 2) ks [] (by omega) (by rw [hchunks]; exact hF) { store := store } rfl
      rw [hchunks] at h1
      unfold scanTrace
      rw [buildPlan_mget]
      simp only [Plan.size, ScanSt.size, Nat.zero_add]
      rw [pollsOfE_fuel bs V ((innerChunks (.mget ks) bs store).length + 1) (ks.length + 2)]
      · exact h1
      · omega
      · have : (innerChunks (.mget ks) bs store).length = (Run.chunksOf bs ks).length := by
          simp [innerChunks]
        have h2 := chunksOf_length_le bs hbs ks
        omega

end Kvql.Proofs.RunNoPanic.LockBatch
