/-
  Aggregated SELECT, end to end — part 8: LIMIT without ORDER BY (optimizer.go pushes the limit into the
  AggregatePlan: `Run.limitTrace` over the rows the plan hands out).  In either mode the statement returns
  rows `start … start+count-1` of the unlimited result (C08 for the whole aggregated statement).

    * `limitTrace_gen`     `RunLimit.limitTrace_rows` for traces of any row type, with the final world;
    * `traceValues_conv`   `Run.traceValues` on a trace whose values are column values;
    * `runAggrSelect_limit_next`, `runAggrSelect_limit_batch`.
-/
import Kvql.Proofs.RunAggrStmt

set_option linter.unusedSimpArgs false
set_option linter.unusedVariables false

namespace Kvql.Proofs.RunAggr
open Kvql Kvql.Run Kvql.Aggr Kvql.Proofs.Aggr Kvql.Generated Kvql.Proofs.Typing Kvql.Cache
open Kvql.Plans Kvql.Storage Kvql.Proofs.Scan Kvql.Proofs.RunScan Kvql.Proofs.RunTables Kvql.Proofs.RunLimit
open Kvql.PlanCheck (listAggrCalls isAggrCallee isAggr planStage finalPlanCheck)

/-! ### LIMIT over a trace of any row type -/

theorem limitTrace_gen {α : Type} (start count : Nat) (kind : PollKind) (bs : Nat) (t : Trace α)
    (hfin : t.fin.1 = none) (hne : ∀ p ∈ t.polls, p.1 ≠ []) :
    (limitTrace start count kind bs t).fin.1 = none ∧
    allRows (limitTrace start count kind bs t) = ((allRows t).drop start).take count ∧
    (∃ k, (limitTrace start count kind bs t).fin.2 = t.worldAfter k) := by
  cases kind with
  | next =>
    have hrows := limitNextLoop_rows start count (allRows t) (((allRows t).map some ++ [none]).length + 2) (by simp)
    have hdef : (limitTrace start count .next bs t) =
        (let child : List (Option α) := (allRows t).map some ++ [none]
         let r := limitNextLoop start count (child.length + 2) {} child []
         let w := t.worldAfter (child.length - r.2.length)
         let polls := r.1.map (fun x => ([x], w))
         if r.2.isEmpty then { w0 := t.w0, polls := polls, fin := (t.fin.1, w) }
         else { w0 := t.w0, polls := polls, fin := (none, w) }) := rfl
    rw [hdef]
    simp only
    rw [hrows]
    have key : ∀ (w : Storage.World) (l : List α),
        allRows { w0 := t.w0, polls := l.map (fun x => ([x], w)), fin := ((none : Option Fail), w) } = l := by
      intro w l
      simp only [allRows, List.flatMap_def, List.map_map, Function.comp_def]
      exact flatten_single l
    refine ⟨?_, ?_, ?_⟩
    · split <;> simp [hfin]
    · split
      · rw [hfin]; exact key _ _
      · exact key _ _
    · split <;> exact ⟨_, rfl⟩
  | batch =>
    have hne' : ∀ c ∈ t.polls.map (fun (x : List α × Storage.World) => x.1), c ≠ [] := by
      intro c hc
      obtain ⟨p, hp, rfl⟩ := List.mem_map.mp hc
      exact hne p hp
    have hrows := limitBatchLoop_rows start count bs (t.polls.map (fun (x : List α × Storage.World) => x.1)) hne'
      ((t.polls.map (fun (x : List α × Storage.World) => x.1) ++ [[]]).length + 2) (by simp)
    have hall : (t.polls.map (fun (x : List α × Storage.World) => x.1)).flatten = allRows t := by
      simp [allRows, List.flatMap_def]
    rw [hall] at hrows
    have hdef : (limitTrace start count .batch bs t) =
        (let child : List (List α) := t.polls.map (fun (x : List α × Storage.World) => x.1) ++ [[]]
         let r := limitBatchLoop start count bs (child.length + 2) {} child []
         let w := t.worldAfter (t.polls.length + 1 - r.2.2.length)
         if r.2.2.isEmpty then
           match t.fin.1 with
           | some f => { w0 := t.w0, polls := r.1.map (fun b => (b, w)), fin := (some f, w) }
           | none => { w0 := t.w0, polls := (r.1 ++ (if r.2.1.isEmpty then [] else [r.2.1])).map (fun b => (b, w)), fin := (none, w) }
         else { w0 := t.w0, polls := r.1.map (fun b => (b, w)), fin := (none, w) }) := rfl
    rw [hdef]
    simp only
    generalize limitBatchLoop start count bs ((t.polls.map (fun (x : List α × Storage.World) => x.1) ++ [[]]).length + 2) {}
      (t.polls.map (fun (x : List α × Storage.World) => x.1) ++ [[]]) [] = r at hrows ⊢
    obtain ⟨batches, last, rest⟩ := r
    simp only at hrows ⊢
    have key : ∀ (w : Storage.World) (l : List (List α)) (o : Option Fail),
        allRows { w0 := t.w0, polls := l.map (fun b => (b, w)), fin := (o, w) } = l.flatten := by
      intro w l o
      simp [allRows, List.flatMap_def, List.map_map, Function.comp_def]
    by_cases hr : rest.isEmpty = true
    · simp only [hr, if_true] at hrows ⊢
      rw [hfin]
      simp only
      refine ⟨trivial, ?_, ⟨_, rfl⟩⟩
      rw [key, ← hrows]
      by_cases hlast : last.isEmpty = true
      · have : last = [] := List.isEmpty_iff.mp hlast
        simp [this]
      · simp [hlast]
    · simp only [hr, Bool.false_eq_true, if_false, List.append_nil] at hrows ⊢
      refine ⟨trivial, ?_, ⟨_, rfl⟩⟩
      rw [key, ← hrows]

/-! ### `traceValues` on a trace of column values -/

theorem option_mapM_of_forall {α β : Type} (f : α → Option β) (g : α → β) : ∀ (l : List α),
    (∀ x ∈ l, f x = some (g x)) → l.mapM f = some (l.map g)
  | [], _ => rfl
  | a :: l, h => by
    simp only [List.mapM_cons, h a (by simp), option_mapM_of_forall f g l (fun x hx => h x (by simp [hx])),
      Option.bind_eq_bind, Option.bind_some, Option.pure_def, List.map_cons]

theorem traceValues_conv (t : Trace (List AVal)) (h : ∀ row ∈ allRows t, ∀ v ∈ row, v ≠ .other) :
    traceValues t =
      some { w0 := t.w0, polls := t.polls.map (fun p => (p.1.map (List.map toValue), p.2)), fin := t.fin } := by
  unfold traceValues
  have hp : t.polls.mapM (fun (p : List (List AVal) × Storage.World) =>
      (p.1.mapM (fun (r : List AVal) => r.mapM ofAVal)).bind (fun rows => some (rows, p.2))) =
      some (t.polls.map (fun p => (p.1.map (List.map toValue), p.2))) := by
    apply option_mapM_of_forall
    intro p hp
    have : p.1.mapM (fun (r : List AVal) => r.mapM ofAVal) = some (p.1.map (List.map toValue)) := by
      apply mapM_mapM_ofAVal
      intro row hrow
      exact h row (by
        simp only [allRows, List.mem_flatMap]
        exact ⟨p, hp, hrow⟩)
    rw [this]
    rfl
  simp only [Option.bind_eq_bind, Option.pure_def]
  rw [hp]
  rfl

theorem allRows_map_polls (t : Trace (List AVal)) (w0 : Storage.World) (fin : Option Fail × Storage.World) :
    (({ w0 := w0, polls := t.polls.map (fun p => (p.1.map (List.map toValue), p.2)), fin := fin } :
      Trace (List Value)).polls.map (·.1)).flatten = (allRows t).map (List.map toValue) := by
  simp only [allRows, List.flatMap_def, List.map_map, Function.comp_def, List.map_flatten]

/-! ### what the AggregatePlan hands out, as a trace -/

theorem aggrInner_next_facts {rows : List Aggr.Row} {outs : List (List AVal)} (hdrain : drainNext rows = (outs, none))
    (bs : Nat) (w : Storage.World) :
    (aggrInner rows .next bs w).fin.1 = none ∧ allRows (aggrInner rows .next bs w) = outs ∧
    (∀ p ∈ (aggrInner rows .next bs w).polls, p.1 ≠ []) ∧ (∀ k, (aggrInner rows .next bs w).worldAfter k = w) := by
  unfold aggrInner
  simp only [hdrain]
  refine ⟨rfl, ?_, ?_, ?_⟩
  · simp only [allRows, List.flatMap_def, List.map_map, Function.comp_def]
    exact flatten_single outs
  · intro p hp
    obtain ⟨r, _, rfl⟩ := List.mem_map.mp hp
    simp
  · intro k
    cases k with
    | zero => rfl
    | succ k =>
      simp only [Trace.worldAfter]
      cases h : (outs.map (fun r => ([r], w)))[k]? with
      | none => rfl
      | some p =>
        have := List.mem_of_getElem? h
        obtain ⟨r, _, rfl⟩ := List.mem_map.mp this
        rfl

theorem aggrInner_batch_facts {rows : List Aggr.Row} {outs : List (List AVal)} (hdrain : drainNext rows = (outs, none))
    (bs : Nat) (hbs : 1 ≤ bs) (w : Storage.World) :
    (aggrInner rows .batch bs w).fin.1 = none ∧ allRows (aggrInner rows .batch bs w) = outs ∧
    (∀ p ∈ (aggrInner rows .batch bs w).polls, p.1 ≠ []) ∧ (∀ k, (aggrInner rows .batch bs w).worldAfter k = w) := by
  obtain ⟨d1, _, d3, d4⟩ := drainBatch_spec bs hbs (rows.length + 1) rows (by omega)
  rw [hdrain] at d1 d3
  simp only at d1 d3
  have hflat := d3 trivial
  unfold aggrInner
  simp only
  rcases hd : drainBatch bs (rows.length + 1) rows with ⟨bss, err⟩
  rw [hd] at d1 d4 hflat
  simp only at d1 d4 hflat
  subst d1
  refine ⟨rfl, ?_, ?_, ?_⟩
  · simp only [allRows, List.flatMap_def, List.map_map, Function.comp_def, List.map_id']
    exact hflat
  · intro p hp
    obtain ⟨b, hb, rfl⟩ := List.mem_map.mp hp
    exact (d4 b hb).1
  · intro k
    cases k with
    | zero => rfl
    | succ k =>
      simp only [Trace.worldAfter]
      cases h : (bss.map (fun b => (b, w)))[k]? with
      | none => rfl
      | some p =>
        have := List.mem_of_getElem? h
        obtain ⟨r, _, rfl⟩ := List.mem_map.mp this
        rfl

/-- the limited trace of the AggregatePlan, converted: no failure, the slice of the rows, the same world -/
theorem limited_inner {inner : Trace (List AVal)} {outs : List (List AVal)} {w : Storage.World}
    (h1 : inner.fin.1 = none) (h2 : allRows inner = outs) (h3 : ∀ p ∈ inner.polls, p.1 ≠ [])
    (h4 : ∀ k, inner.worldAfter k = w) (hconv : ∀ row ∈ outs, ∀ v ∈ row, v ≠ .other)
    (start count : Nat) (kind : PollKind) (bs : Nat) :
    ∃ t : Trace (List Value), traceValues (limitTrace start count kind bs inner) = some t ∧
      t.fin = (none, w) ∧ (t.polls.map (·.1)).flatten = ((outs.map (List.map toValue)).drop start).take count := by
  obtain ⟨l1, l2, k, l3⟩ := limitTrace_gen start count kind bs inner h1 h3
  rw [h2] at l2
  have hc : ∀ row ∈ allRows (limitTrace start count kind bs inner), ∀ v ∈ row, v ≠ .other := by
    intro row hrow
    rw [l2] at hrow
    exact hconv row (List.mem_of_mem_drop (List.mem_of_mem_take hrow))
  refine ⟨_, traceValues_conv _ hc, ?_, ?_⟩
  · simp only
    apply Prod.ext
    · exact l1
    · simp only; rw [l3, h4]
  · rw [allRows_map_polls, l2, List.map_take, List.map_drop]

/-! ### the statement with LIMIT -/

/-- **`Run.runAggrSelect` with LIMIT (no ORDER BY), row mode**: rows `start … start+count-1` of the rows of
    the specification -/
theorem runAggrSelect_limit_next (s : SelectS) (f : FoldedSelect) (store : Store) (hs : store.Sorted)
    (bs : Nat) (hbs : 1 ≤ bs) (cache : Bool)
    (hord : s.order = none) {l : LimitS} (hlim : s.limit = some l)
    {groups : List Expr} (hg : groupExprs s f = some groups)
    (hcov : ∃ afields, f.fields.mapM (aggrField Ctx.off) = some afields)
    (hafg : ∀ e ∈ groups, aliasFree e = true) (haff : ∀ fe ∈ f.fields, aliasFree fe = true)
    (g : SPair → Bool) (hx : ∀ p ∈ store, exec f.where_ (toKv p) Ctx.off = (.ok (.bool (g p)), Ctx.off))
    (hev : ∀ p ∈ store.filter g, Evaluable groups f.fields p)
    {out : List (List AVal)} (hspec : specRows groups f.fields (store.filter g) = .ok out) :
    (runAggrSelect s f store .next bs cache).fail = none ∧
    (runAggrSelect s f store .next bs cache).rows =
      ((out.map (List.map toValue)).drop l.start.toInt.toNat).take l.count.toInt.toNat ∧
    (runAggrSelect s f store .next bs cache).world.store = store ∧
    (∀ e ∈ (runAggrSelect s f store .next bs cache).world.log, e.call.isRead = true) := by
  obtain ⟨afields0, hcov⟩ := hcov
  obtain ⟨afields, hfields⟩ := mapM_aggrField_indep Ctx.off (Ctx.new cache) _ _ hcov
  have hy : ∀ p ∈ yielded (nodeOf (Scan.optimize f.where_)) store, p ∈ store := by
    intro p hp
    have hwf : ScanNode.WellFormed (nodeOf (Scan.optimize f.where_)) := by
      rw [Kvql.Proofs.Run.nodeOf_eq]; exact Select.nodeOf_wellFormed _
    rw [yielded_eq_filter _ hwf hs] at hp
    exact (List.mem_filter.mp hp).1
  obtain ⟨t1, t2, _, t4, t5⟩ := scan_pairs_where hs g hx
    (rowVerdicts f.where_ Ctx.none (yielded (nodeOf (Scan.optimize f.where_)) store))
    (rowVerdicts_none_eq g _ (fun p hp => hx p (hy p hp))) .next bs hbs
  obtain ⟨gs, hprep, hfin⟩ := prepare_spec (kind := .next) (cacheInvisible_new cache) hfields haff s.groupBy.isNone
    (groupExprs_none hg) (store.filter g)
    (fun p hp => evaluableK_next (cacheInvisible_new cache) hafg (hev p hp)) hspec
  have hdrain := (drainNext_ok_iff _ _).mpr hfin
  have hconv : ∀ row ∈ out, ∀ v ∈ row, v ≠ .other := by
    intro row hrow
    obtain ⟨hl, hget⟩ := mapM_ok_get _ _ out hspec
    obtain ⟨n, hn, rfl⟩ := List.getElem_of_mem hrow
    obtain ⟨b, hb, hf⟩ := hget n _ (List.getElem?_eq_getElem (by omega))
    rw [List.getElem?_eq_getElem hn] at hb
    injection hb with hb
    rw [hb]
    exact rowOf_not_other hf
  obtain ⟨i1, i2, i3, i4⟩ := aggrInner_next_facts hdrain bs
    (scanTrace (nodeOf (Scan.optimize f.where_))
      (rowVerdicts f.where_ Ctx.none (yielded (nodeOf (Scan.optimize f.where_)) store)) .next bs store).fin.2
  obtain ⟨t, ht, htf, htr⟩ := limited_inner i1 i2 i3 i4 hconv (limitNat l).1 (limitNat l).2 .next bs
  unfold runAggrSelect
  simp only [new_clear, hfields, hg, hord, hlim, t1, t2, hprep, Option.isSome_some, Option.isNone_none, Bool.and_self, ht]
  refine ⟨by simp [Trace.outcome, htf], ?_, by simp only [Trace.outcome, htf]; exact t4,
    by simp only [Trace.outcome, htf]; exact t5⟩
  simp only [Trace.outcome]
  exact htr

/-- … batch mode -/
theorem runAggrSelect_limit_batch (s : SelectS) (f : FoldedSelect) (store : Store) (hs : store.Sorted)
    (bs : Nat) (hbs : 1 ≤ bs) (cache : Bool)
    (hord : s.order = none) {l : LimitS} (hlim : s.limit = some l)
    {groups : List Expr} (hg : groupExprs s f = some groups)
    (hcov : ∃ afields, f.fields.mapM (aggrField Ctx.off) = some afields)
    (hafw : aliasFree f.where_ = true)
    (hafg : ∀ e ∈ groups, aliasFree e = true) (haff : ∀ fe ∈ f.fields, aliasFree fe = true)
    (hokw : f.where_.vecOk = true)
    (hbatchw : ∀ p ∈ store, ∃ b, (execBatch f.where_ [⟨p.1, p.2⟩] Ctx.off).1 = .ok [.bool b])
    (hokg : ∀ e ∈ groups, e.vecOk = true)
    (hbatchg : ∀ p ∈ store.filter (Select.accepted f.where_), ∀ e ∈ groups,
      ∃ v, (execBatch e [⟨p.1, p.2⟩] Ctx.off).1 = .ok [v])
    (hev : ∀ p ∈ store.filter (Select.accepted f.where_), Evaluable groups f.fields p)
    {out : List (List AVal)} (hspec : specRows groups f.fields (store.filter (Select.accepted f.where_)) = .ok out) :
    (runAggrSelect s f store .batch bs cache).fail = none ∧
    (runAggrSelect s f store .batch bs cache).rows =
      ((out.map (List.map toValue)).drop l.start.toInt.toNat).take l.count.toInt.toNat ∧
    (runAggrSelect s f store .batch bs cache).world.store = store ∧
    (∀ e ∈ (runAggrSelect s f store .batch bs cache).world.log, e.call.isRead = true) := by
  obtain ⟨afields0, hcov⟩ := hcov
  obtain ⟨afields, hfields⟩ := mapM_aggrField_indep Ctx.off (Ctx.new cache) _ _ hcov
  have hwf : ScanNode.WellFormed (nodeOf (Scan.optimize f.where_)) := by
    rw [Kvql.Proofs.Run.nodeOf_eq]; exact Select.nodeOf_wellFormed _
  have hyield := yielded_eq_filter (nodeOf (Scan.optimize f.where_)) hwf hs
  have hx : ∀ p ∈ store, exec f.where_ (toKv p) Ctx.off = (.ok (.bool (Select.accepted f.where_ p)), Ctx.off) :=
    fun p hp => (where_batch_facts hokw (hbatchw p hp)).2
  have htable : batchVerdicts f.where_ (Ctx.new cache) (innerChunks (nodeOf (Scan.optimize f.where_)) bs store) =
      (yielded (nodeOf (Scan.optimize f.where_)) store).map
        (fun p => (p.1, Except.ok (Select.accepted f.where_ p))) := by
    rw [← innerChunks_flatten _ bs hbs store]
    apply batchVerdicts_eq hafw cache
    intro p hp
    rw [innerChunks_flatten _ bs hbs store, hyield] at hp
    exact (where_batch_facts hokw (hbatchw p (List.mem_filter.mp hp).1)).1
  obtain ⟨t1, t2, t3, t4, t5⟩ := scan_pairs_where hs (Select.accepted f.where_) hx _ htable .batch bs hbs
  have hevK : ∀ p ∈ store.filter (Select.accepted f.where_), EvaluableK .batch (Ctx.new cache) groups f.fields p := by
    intro p hp
    refine ⟨hev p hp, fun e he => ?_⟩
    obtain ⟨v, hv⟩ := hbatchg p hp e he
    obtain ⟨vr, b, h1, h2⟩ := (hev p hp).group e he
    exact groupBytes_batch cache (hafg e he) (hokg e he) hv h1 h2
  obtain ⟨gs, hprep, hfin⟩ := prepare_spec (kind := .batch) (cacheInvisible_new cache) hfields haff s.groupBy.isNone
    (groupExprs_none hg) (store.filter (Select.accepted f.where_)) hevK hspec
  have hchunks : ∀ c ∈ (scanTrace (nodeOf (Scan.optimize f.where_))
      (batchVerdicts f.where_ (Ctx.new cache) (innerChunks (nodeOf (Scan.optimize f.where_)) bs store)) .batch bs
        store).polls.map (fun (p : List SPair × Storage.World) => p.1), c ≠ [] := by
    intro c hc
    obtain ⟨q, hq, rfl⟩ := List.mem_map.mp hc
    exact t3 q hq
  have hprepB := (prepareBatch_iff (aggrEval .batch (Ctx.new cache) groups f.fields)
    ⟨s.groupBy.isNone, groups.length, afields⟩ [] gs _).mpr (by
      rw [takeWhile_nonempty _ hchunks, ← List.flatMap_def, t2]; exact hprep)
  have hdrain := (drainNext_ok_iff _ _).mpr hfin
  have hconv : ∀ row ∈ out, ∀ v ∈ row, v ≠ .other := by
    intro row hrow
    obtain ⟨hl, hget⟩ := mapM_ok_get _ _ out hspec
    obtain ⟨n, hn, rfl⟩ := List.getElem_of_mem hrow
    obtain ⟨b, hb, hf⟩ := hget n _ (List.getElem?_eq_getElem (by omega))
    rw [List.getElem?_eq_getElem hn] at hb
    injection hb with hb
    rw [hb]
    exact rowOf_not_other hf
  obtain ⟨i1, i2, i3, i4⟩ := aggrInner_batch_facts hdrain bs hbs
    (scanTrace (nodeOf (Scan.optimize f.where_))
      (batchVerdicts f.where_ (Ctx.new cache) (innerChunks (nodeOf (Scan.optimize f.where_)) bs store)) .batch bs
        store).fin.2
  obtain ⟨t, ht, htf, htr⟩ := limited_inner i1 i2 i3 i4 hconv (limitNat l).1 (limitNat l).2 .batch bs
  unfold runAggrSelect
  simp only [new_clear, hfields, hg, hord, hlim, t1, hprepB, Option.isSome_some, Option.isNone_none, Bool.and_self, ht]
  refine ⟨by simp [Trace.outcome, htf], ?_, by simp only [Trace.outcome, htf]; exact t4,
    by simp only [Trace.outcome, htf]; exact t5⟩
  simp only [Trace.outcome]
  exact htr

/-- **LIMIT for the whole aggregated statement**: any mode, any batch size, cache on or off -/
theorem run_aggr_limit {query : Bytes} {pf : Bytes → F64} {s : SelectS} {f : FoldedSelect}
    (hplan : planStage pf (Lexer.split query) = .ok (.select s)) (hagg : finalPlanCheck s = .ok true)
    (hfold : foldSelect s = .ok f) (hord : s.order = none) {l : LimitS} (hlim : s.limit = some l)
    {groups : List Expr} (hg : groupExprs s f = some groups)
    (hcov : ∃ afields, f.fields.mapM (aggrField Ctx.off) = some afields)
    (hafw : aliasFree f.where_ = true)
    (hafg : ∀ e ∈ groups, aliasFree e = true) (haff : ∀ fe ∈ f.fields, aliasFree fe = true)
    (store : Store) (hs : store.Sorted)
    (hokw : f.where_.vecOk = true)
    (hbatchw : ∀ p ∈ store, ∃ b, (execBatch f.where_ [⟨p.1, p.2⟩] Ctx.off).1 = .ok [.bool b])
    (hokg : ∀ e ∈ groups, e.vecOk = true)
    (hbatchg : ∀ p ∈ store.filter (Select.accepted f.where_), ∀ e ∈ groups,
      ∃ v, (execBatch e [⟨p.1, p.2⟩] Ctx.off).1 = .ok [v])
    (hev : ∀ p ∈ store.filter (Select.accepted f.where_), Evaluable groups f.fields p)
    {out : List (List AVal)} (hspec : specRows groups f.fields (store.filter (Select.accepted f.where_)) = .ok out)
    (kind : PollKind) (bs : Nat) (hbs : 1 ≤ bs) (cache : Bool) :
    (runQuery query pf store kind bs cache).fail = none ∧
    (runQuery query pf store kind bs cache).rows =
      ((out.map (List.map toValue)).drop l.start.toInt.toNat).take l.count.toInt.toNat ∧
    (runQuery query pf store kind bs cache).world.store = store ∧
    (∀ e ∈ (runQuery query pf store kind bs cache).world.log, e.call.isRead = true) := by
  rw [runQuery_aggr hplan hagg hfold store kind hbs cache]
  cases kind with
  | next =>
    have hx : ∀ p ∈ store, exec f.where_ (toKv p) Ctx.off = (.ok (.bool (Select.accepted f.where_ p)), Ctx.off) :=
      fun p hp => (where_batch_facts hokw (hbatchw p hp)).2
    exact runAggrSelect_limit_next s f store hs bs hbs cache hord hlim hg hcov hafg haff _ hx hev hspec
  | batch =>
    exact runAggrSelect_limit_batch s f store hs bs hbs cache hord hlim hg hcov hafw hafg haff hokw hbatchw hokg
      hbatchg hev hspec

/-- LIMIT, row mode, WHERE judged by the reference evaluator -/
theorem run_aggr_limit_ref {query : Bytes} {pf : Bytes → F64} {s : SelectS} {f : FoldedSelect}
    (hplan : planStage pf (Lexer.split query) = .ok (.select s)) (hagg : finalPlanCheck s = .ok true)
    (hfold : foldSelect s = .ok f) (hord : s.order = none) {l : LimitS} (hlim : s.limit = some l)
    (haf : aliasFree s.where_ = true) (hside : sideOk s.where_ = true) (hcore : Refine.core s.where_ = true)
    {groups : List Expr} (hg : groupExprs s f = some groups)
    (hcov : ∃ afields, f.fields.mapM (aggrField Ctx.off) = some afields)
    (hafg : ∀ e ∈ groups, aliasFree e = true) (haff : ∀ fe ∈ f.fields, aliasFree fe = true)
    (store : Store) (hs : store.Sorted)
    (hevw : ∀ p ∈ store, Spec.evaluable s.where_ ⟨p.1, p.2⟩ = true)
    (hev : ∀ p ∈ store.filter (fun p => Spec.holds s.where_ ⟨p.1, p.2⟩), Evaluable groups f.fields p)
    {out : List (List AVal)}
    (hspec : specRows groups f.fields (store.filter (fun p => Spec.holds s.where_ ⟨p.1, p.2⟩)) = .ok out)
    (bs : Nat) (hbs : 1 ≤ bs) (cache : Bool) :
    (runQuery query pf store .next bs cache).fail = none ∧
    (runQuery query pf store .next bs cache).rows =
      ((out.map (List.map toValue)).drop l.start.toInt.toNat).take l.count.toInt.toNat ∧
    (runQuery query pf store .next bs cache).world.store = store ∧
    (∀ e ∈ (runQuery query pf store .next bs cache).world.log, e.call.isRead = true) := by
  obtain ⟨n, hw⟩ := foldSelect_where hfold haf
  obtain ⟨hx, _⟩ := Kvql.Proofs.Run.star_facts hplan haf hside hcore hevw hw
  rw [runQuery_aggr hplan hagg hfold store .next hbs cache]
  exact runAggrSelect_limit_next s f store hs bs hbs cache hord hlim hg hcov hafg haff
    (Select.specHolds s.where_) hx hev hspec

end Kvql.Proofs.RunAggr
