/-
  C01 (4): the composition.

  (i)   `exec_is_sem`        the engine's row evaluator, read as "the filter says true on (k, v)",
                             satisfies `Scan.Sem`: C02's `scan_sound` applies to the REAL evaluator.
  (ii)  `select_star_rows`   `select * where f` over a sorted store: the scan node the planner builds
                             from `f`, with `f` as its filter, returns exactly the stored pairs on
                             which `exec f` says true, in store (= key) order, in both modes, for
                             every batch size ≥ 1 — when `exec f` evaluates on every stored pair.
  (iii) `select_star_correct` with the reference evaluator as the judge (`exec_refines_spec`).
  The folded WHERE `f` and the parsed WHERE `P` are tied by the explicit hypothesis `hfold`, to be
  discharged by the constant-folding theorem (C04, another component).
-/
import Kvql.Proofs.ExecRefinesSpec
import Kvql.Proofs.ScanTraffic
import Kvql.Properties.C02

namespace Kvql.Select
open Kvql Kvql.Refine Generated
open Kvql.Bytes (Pre)

/-! ### (i) the engine's evaluator satisfies `Sem` -/

/-- "the filter `e` says true on the pair (k, v)" for the engine's row evaluator, cache off -/
def execTrue (v : Bytes) (e : Expr) (k : Bytes) : Bool :=
  match (exec e ⟨k, v⟩ Ctx.off).1 with
  | .ok (.bool true) => true
  | _ => false

theorem exec_off (e : Expr) (kv : Pair) : exec e kv Ctx.off = ((exec e kv Ctx.off).1, Ctx.off) := by
  have := exec_inert e kv Ctx.off rfl
  rcases h : exec e kv Ctx.off with ⟨r, c⟩
  rw [h] at this; simp at this; rw [this]

theorem execTrue_iff {v : Bytes} {e : Expr} {k : Bytes} :
    execTrue v e k = true ↔ exec e ⟨k, v⟩ Ctx.off = (.ok (.bool true), Ctx.off) := by
  unfold execTrue
  constructor
  · intro h
    rw [exec_off]
    split at h
    · rename_i heq; rw [heq]
    · cases h
  · intro h; rw [h]

theorem asBool_ok {a : Value} {x : Bool} (h : asBool a = .ok x) : a = .bool x := by
  cases a <;> simp [asBool] at h; rw [h]

/-- `l & r` true ⇒ both true -/
theorem and_true_inv {p : Nat} {op : Op} (hop : op = .and ∨ op = .kwAnd) {l r : Expr} {kv : Pair}
    (h : exec (.binop p op l r) kv Ctx.off = (.ok (.bool true), Ctx.off)) :
    exec l kv Ctx.off = (.ok (.bool true), Ctx.off) ∧ exec r kv Ctx.off = (.ok (.bool true), Ctx.off) := by
  have key : ((do
      let a ← exec l kv
      let x ← M.lift (asBool a)
      if (!x) = true then Pure.pure (Value.bool false)
      else
        let b ← exec r kv
        let y ← M.lift (asBool b)
        Pure.pure (Value.bool y)) : M Value) Ctx.off = (.ok (.bool true), Ctx.off) := by
    rcases hop with rfl | rfl <;> (rw [exec] at h; exact h)
  obtain ⟨a, c0, ha, h1⟩ := bind_ok_inv key
  have e0 : c0 = Ctx.off := (exec_inert l kv).ctx_eq rfl ha
  subst e0
  obtain ⟨x, c1, hx, h2⟩ := bind_ok_inv h1
  simp only [M.lift_run, Prod.mk.injEq] at hx
  obtain ⟨hx, rfl⟩ := hx
  have ea := asBool_ok hx; subst ea
  cases x with
  | false => simp at h2
  | true =>
    simp only [Bool.not_true, Bool.false_eq_true, if_false] at h2
    obtain ⟨b, c2, hb, h3⟩ := bind_ok_inv h2
    have e2 : c2 = Ctx.off := (exec_inert r kv).ctx_eq rfl hb
    subst e2
    obtain ⟨y, c3, hy, h4⟩ := bind_ok_inv h3
    simp only [M.lift_run, Prod.mk.injEq] at hy
    obtain ⟨hy, rfl⟩ := hy
    have eb := asBool_ok hy; subst eb
    cases y with
    | false => simp at h4
    | true => exact ⟨ha, hb⟩

/-- `l | r` true ⇒ one of them true -/
theorem or_true_inv {p : Nat} {op : Op} (hop : op = .or ∨ op = .kwOr) {l r : Expr} {kv : Pair}
    (h : exec (.binop p op l r) kv Ctx.off = (.ok (.bool true), Ctx.off)) :
    exec l kv Ctx.off = (.ok (.bool true), Ctx.off) ∨ exec r kv Ctx.off = (.ok (.bool true), Ctx.off) := by
  have key : ((do
      let a ← exec l kv
      let x ← M.lift (asBool a)
      if x = true then Pure.pure (Value.bool true)
      else
        let b ← exec r kv
        let y ← M.lift (asBool b)
        Pure.pure (Value.bool y)) : M Value) Ctx.off = (.ok (.bool true), Ctx.off) := by
    rcases hop with rfl | rfl <;> (rw [exec] at h; exact h)
  obtain ⟨a, c0, ha, h1⟩ := bind_ok_inv key
  have e0 : c0 = Ctx.off := (exec_inert l kv).ctx_eq rfl ha
  subst e0
  obtain ⟨x, c1, hx, h2⟩ := bind_ok_inv h1
  simp only [M.lift_run, Prod.mk.injEq] at hx
  obtain ⟨hx, rfl⟩ := hx
  have ea := asBool_ok hx; subst ea
  cases x with
  | true => exact .inl ha
  | false =>
    simp only [Bool.false_eq_true, if_false] at h2
    obtain ⟨b, c2, hb, h3⟩ := bind_ok_inv h2
    have e2 : c2 = Ctx.off := (exec_inert r kv).ctx_eq rfl hb
    subst e2
    obtain ⟨y, c3, hy, h4⟩ := bind_ok_inv h3
    simp only [M.lift_run, Prod.mk.injEq] at hy
    obtain ⟨hy, rfl⟩ := hy
    have eb := asBool_ok hy; subst eb
    cases y with
    | false => simp at h4
    | true => exact .inr hb

section atoms
variable (p p1 p2 : Nat) (lit k v : Bytes)

theorem rt_field (q : Nat) (kw : KW) : (retType (.field q kw) == tyTSTR) = true := rfl
theorem rt_str (q : Nat) (d : Bytes) : (retType (.str q d) == tyTSTR) = true := rfl
theorem rt_str_ne (q : Nat) (d : Bytes) : (retType (.str q d) != tyTSTR) = false := rfl

/-- a comparison atom between `key` and a literal, either way round, is the byte comparison -/
theorem exec_key_cmp_r (op : Op) (cop : CmpOp) (hop : cmpOpOf op = some cop) (c : Ctx) :
    exec (.binop p op (.field p1 .key) (.str p2 lit)) ⟨k, v⟩ c = (.ok (.bool (ordCmp cop (Bytes.cmp k lit))), c) := by
  cases op <;> simp [cmpOpOf] at hop <;> subst hop <;> rw [exec] <;>
    simp [exec, rt_field, M.bind_run, compareBy, execStringCompare, convertToByteArray]

theorem exec_key_cmp_l (op : Op) (cop : CmpOp) (hop : cmpOpOf op = some cop) (c : Ctx) :
    exec (.binop p op (.str p1 lit) (.field p2 .key)) ⟨k, v⟩ c = (.ok (.bool (ordCmp cop (Bytes.cmp lit k))), c) := by
  cases op <;> simp [cmpOpOf] at hop <;> subst hop <;> rw [exec] <;>
    simp [exec, rt_str, M.bind_run, compareBy, execStringCompare, convertToByteArray]

theorem exec_key_eq_r (c : Ctx) :
    exec (.binop p .eq (.field p1 .key) (.str p2 lit)) ⟨k, v⟩ c = (.ok (.bool (k == lit)), c) := by
  rw [exec]; simp [exec, M.bind_run, equalRow, convertToByteArray]

theorem exec_key_eq_l (c : Ctx) :
    exec (.binop p .eq (.str p1 lit) (.field p2 .key)) ⟨k, v⟩ c = (.ok (.bool (lit == k)), c) := by
  rw [exec]; simp [exec, M.bind_run, equalRow, convertToByteArray]

theorem exec_key_prefix (c : Ctx) :
    exec (.binop p .prefixMatch (.field p1 .key) (.str p2 lit)) ⟨k, v⟩ c = (.ok (.bool (lit.isPrefixOf k)), c) := by
  rw [exec]; simp [exec, M.bind_run, convertToByteArray]

end atoms

/-- `key in ('a', 'b', …)` (all items literals): the loop says true only for a listed key -/
theorem execInItems_literals (k : Bytes) (kv : Pair) (c : Ctx) :
    ∀ (items : List Expr), (Scan.stringItems items).2 = true →
      execInItems false (.bytes k) items kv c = (.ok (.bool true), c) → k ∈ (Scan.stringItems items).1
  | [], _, h => by rw [execInItems] at h; simp at h
  | .str q d :: rest, hs, h => by
    have hs' : (Scan.stringItems rest).2 = true := by simpa [Scan.stringItems] using hs
    have hc : compareBy false (.bytes k) (.bytes d) .eq = .ok (decide (k = d)) := by
      simp [compareBy, execStringCompare, convertToByteArray, ordCmp_eq]
    have step : execInItems false (.bytes k) (.str q d :: rest) kv c =
        (if decide (k = d) = true then (.ok (.bool true), c) else execInItems false (.bytes k) rest kv c) := by
      rw [execInItems]
      simp only [rt_str_ne, Bool.false_eq_true, if_false]
      rw [M.bind_ok (a := Value.bytes d) (c' := c) (by rw [exec]; rfl), M.bind_run]
      simp only [M.lift_run, hc]
      split <;> rfl
    rw [step] at h
    by_cases e : k = d
    · subst e; simp [Scan.stringItems]
    · simp only [e, decide_false, Bool.false_eq_true, if_false] at h
      have := execInItems_literals k kv c rest hs' h
      simp [Scan.stringItems, this]
  | .binop .. :: rest, hs, _ => by simp [Scan.stringItems] at hs
  | .field .. :: rest, hs, _ => by simp [Scan.stringItems] at hs
  | .not .. :: rest, hs, _ => by simp [Scan.stringItems] at hs
  | .call .. :: rest, hs, _ => by simp [Scan.stringItems] at hs
  | .name .. :: rest, hs, _ => by simp [Scan.stringItems] at hs
  | .ref .. :: rest, hs, _ => by simp [Scan.stringItems] at hs
  | .cycle :: rest, hs, _ => by simp [Scan.stringItems] at hs
  | .num .. :: rest, hs, _ => by simp [Scan.stringItems] at hs
  | .float .. :: rest, hs, _ => by simp [Scan.stringItems] at hs
  | .bool .. :: rest, hs, _ => by simp [Scan.stringItems] at hs
  | .list .. :: rest, hs, _ => by simp [Scan.stringItems] at hs
  | .access .. :: rest, hs, _ => by simp [Scan.stringItems] at hs

/-- **(i)** for every stored value `v`: the engine's verdict "true" on a key atom implies the
    documented meaning of the atom; `&` / `|` as documented; `false` is never true -/
theorem exec_is_sem (v : Bytes) : Scan.Sem (execTrue v) where
  and_ p l r k h := by
    rw [execTrue_iff] at h
    obtain ⟨h1, h2⟩ := and_true_inv (.inl rfl) h
    exact ⟨execTrue_iff.mpr h1, execTrue_iff.mpr h2⟩
  kwAnd p l r k h := by
    rw [execTrue_iff] at h
    obtain ⟨h1, h2⟩ := and_true_inv (.inr rfl) h
    exact ⟨execTrue_iff.mpr h1, execTrue_iff.mpr h2⟩
  or_ p l r k h := by
    rw [execTrue_iff] at h
    rcases or_true_inv (.inl rfl) h with h1 | h1
    · exact .inl (execTrue_iff.mpr h1)
    · exact .inr (execTrue_iff.mpr h1)
  kwOr p l r k h := by
    rw [execTrue_iff] at h
    rcases or_true_inv (.inr rfl) h with h1 | h1
    · exact .inl (execTrue_iff.mpr h1)
    · exact .inr (execTrue_iff.mpr h1)
  false_ p d k := by simp [execTrue, exec]
  eq_r p p1 p2 lit k h := by
    rw [execTrue_iff, exec_key_eq_r] at h
    simpa using h
  eq_l p p1 p2 lit k h := by
    rw [execTrue_iff, exec_key_eq_l] at h
    have : lit = k := by simpa using h
    exact this.symm
  pre_r p p1 p2 lit k h := by
    rw [execTrue_iff, exec_key_prefix] at h
    have : lit.isPrefixOf k = true := by simpa using h
    exact List.isPrefixOf_iff_prefix.mp this
  gt_r p p1 p2 lit k h := by
    rw [execTrue_iff, exec_key_cmp_r p p1 p2 lit k v .gt .gt rfl, ordCmp_gt] at h
    simpa using h
  gt_l p p1 p2 lit k h := by
    rw [execTrue_iff, exec_key_cmp_l p p1 p2 lit k v .gt .gt rfl, ordCmp_gt] at h
    simpa using h
  gte_r p p1 p2 lit k h := by
    rw [execTrue_iff, exec_key_cmp_r p p1 p2 lit k v .gte .gte rfl, ordCmp_gte] at h
    simpa using h
  gte_l p p1 p2 lit k h := by
    rw [execTrue_iff, exec_key_cmp_l p p1 p2 lit k v .gte .gte rfl, ordCmp_gte] at h
    simpa using h
  lt_r p p1 p2 lit k h := by
    rw [execTrue_iff, exec_key_cmp_r p p1 p2 lit k v .lt .lt rfl, ordCmp_lt] at h
    simpa using h
  lt_l p p1 p2 lit k h := by
    rw [execTrue_iff, exec_key_cmp_l p p1 p2 lit k v .lt .lt rfl, ordCmp_lt] at h
    simpa using h
  lte_r p p1 p2 lit k h := by
    rw [execTrue_iff, exec_key_cmp_r p p1 p2 lit k v .lte .lte rfl, ordCmp_lte] at h
    simpa using h
  lte_l p p1 p2 lit k h := by
    rw [execTrue_iff, exec_key_cmp_l p p1 p2 lit k v .lte .lte rfl, ordCmp_lte] at h
    simpa using h
  in_ p p1 p2 items k hs h := by
    rw [execTrue_iff, exec] at h
    rw [M.bind_ok (a := Value.bytes k) (c' := Ctx.off) (by rw [exec]; rfl)] at h
    simp only [rt_field, Bool.not_true] at h
    exact execInItems_literals k ⟨k, v⟩ Ctx.off items hs h
  between_ p p1 p2 p3 p4 lo hi k h := by
    rw [execTrue_iff, exec] at h
    rw [M.bind_ok (a := Value.bytes k) (c' := Ctx.off) (by rw [exec]; rfl)] at h
    simp only [rt_field, rt_str_ne, if_true, Bool.false_eq_true, if_false] at h
    rw [M.bind_ok (a := Value.bytes lo) (c' := Ctx.off) (by rw [exec]; rfl),
      M.bind_ok (a := Value.bytes hi) (c' := Ctx.off) (by rw [exec]; rfl)] at h
    simp only [M.lift_run, Bool.not_true, betweenKernel, compareBy, Bool.false_eq_true, if_false,
      execStringCompare, convertToByteArray, bind, Except.bind, ordCmp_lt, ordCmp_lte] at h
    by_cases h1 : lo < hi <;> by_cases h2 : lo ≤ k <;> by_cases h3 : k ≤ hi <;> simp [h1, h2, h3] at h
    exact ⟨h2, h3⟩

/-! ### (ii) `select *` over the scan node the planner builds -/

open Kvql.Plans Kvql.Proofs.Scan
open Kvql.Scan (Scan region optimizeExpr optimize)

/-- the WHERE expression as the filter of a scan plan (`FilterExec.Filter`): the row evaluator on
    the pair, cache off; a result that is not a Boolean is an error -/
def filterOf (f : Expr) : Plans.Filter := fun p =>
  match (exec f ⟨p.1, p.2⟩ Ctx.off).1 with
  | .ok (.bool b) => .ok b
  | _ => .error .eval

/-- `exec f` says true on the stored pair -/
def accepted (f : Expr) (p : Storage.Pair) : Bool := execTrue p.2 f p.1

/-- the plan node `Optimize()` builds from a scan type (`NewMultiGetPlan` sorts the keys and keeps
    one of each) -/
def nodeOf : Scan → ScanNode
  | .empty => .empty
  | .mget ks => .mget (newMultiGetKeys ks)
  | .pre p => .prefix p
  | .range lo hi => .range lo hi
  | .full => .full

theorem nodeOf_wellFormed (s : Scan) : ScanNode.WellFormed (nodeOf s) := by
  cases s <;> first | exact newMultiGet_wellFormed _ | trivial

/-- bridge: a key of the `Scan` region is in the region of the plan node -/
theorem inRegion_of_region {s : Scan} {k : Bytes} (h : region s k) : (nodeOf s).inRegion k = true := by
  cases s with
  | empty => exact h.elim
  | mget ks =>
    have : k ∈ ks := h
    simpa [nodeOf, ScanNode.inRegion, mem_newMultiGetKeys] using this
  | pre p =>
    have : p <+: k := h
    simpa [nodeOf, ScanNode.inRegion] using List.isPrefixOf_iff_prefix.mpr this
  | range lo hi =>
    obtain ⟨h1, h2⟩ := h
    cases lo <;> cases hi <;> simp [nodeOf, ScanNode.inRegion, ScanNode.aboveLow, ScanNode.belowHigh] <;>
      first | exact ⟨h1 _ rfl, h2 _ rfl⟩ | exact h1 _ rfl | exact h2 _ rfl
  | full => rfl

theorem accepts_filterOf (f : Expr) (p : Storage.Pair) : accepts (filterOf f) p = accepted f p := by
  unfold accepts filterOf accepted execTrue
  rcases (exec f ⟨p.1, p.2⟩ Ctx.off).1 with e | v
  · rfl
  · cases v <;> first | rfl | (rename_i b; cases b <;> rfl)

/-- the filter evaluates on the pair iff `exec` yields a Boolean -/
theorem evaluable_filterOf {f : Expr} {p : Storage.Pair} {b : Bool}
    (h : exec f ⟨p.1, p.2⟩ Ctx.off = (.ok (.bool b), Ctx.off)) : Evaluable (filterOf f) p :=
  ⟨b, by unfold filterOf; rw [h]⟩

/-- rows of a run as pairs -/
def pairsOf (rows : List Row) : List Storage.Pair :=
  rows.filterMap (fun r => match r with | .pair p => some p | .count _ => none)

theorem pairsOf_map (l : List Storage.Pair) : pairsOf (l.map Row.pair) = l := by
  induction l with
  | nil => rfl
  | cons x r ih => simp [pairsOf] at ih ⊢; exact ih

/-- **(ii)** general form: any scan type whose region covers the accepted pairs -/
theorem select_rows_of_cover (f : Expr) (s : Scan) (store : Storage.Store) (hs : store.Sorted)
    (hcover : ∀ p ∈ store, accepted f p = true → region s p.1)
    (hev : ∀ p ∈ store, ∃ b, exec f ⟨p.1, p.2⟩ Ctx.off = (.ok (.bool b), Ctx.off))
    (kind : PollKind) (bs : Nat) (hbs : 1 ≤ bs) :
    (run (.select (nodeOf s) (filterOf f)) kind bs none store).1.outcome = .ok ∧
    rowsOf (run (.select (nodeOf s) (filterOf f)) kind bs none store) = (store.filter (accepted f)).map Row.pair ∧
    (run (.select (nodeOf s) (filterOf f)) kind bs none store).2.store = store := by
  have hev' : ∀ p ∈ store, (nodeOf s).inRegion p.1 = true → Evaluable (filterOf f) p := by
    intro p hp _
    obtain ⟨b, hb⟩ := hev p hp
    exact evaluable_filterOf hb
  obtain ⟨h1, h2, h3⟩ := scan_rows (nodeOf s) (nodeOf_wellFormed s) (filterOf f) store hs hev' kind bs hbs
  refine ⟨h1, ?_, h3⟩
  rw [h2, expectedRows, List.filter_filter]
  congr 1
  apply List.filter_congr
  intro p hp
  rw [accepts_filterOf]
  cases ha : accepted f p with
  | false => rfl
  | true => simp [inRegion_of_region (hcover p hp ha)]

/-- **(ii)** `select * where f`: the scan node is the one inferred from `f` itself
    (`optimizeExpr f`, C02), the filter is `f`.  In either mode, for every batch size ≥ 1: the run
    succeeds, returns exactly the stored pairs accepted by `exec f`, in store (= key) order, and
    leaves the store as it was -/
theorem select_star_rows (f : Expr) (store : Storage.Store) (hs : store.Sorted)
    (hev : ∀ p ∈ store, ∃ b, exec f ⟨p.1, p.2⟩ Ctx.off = (.ok (.bool b), Ctx.off))
    (kind : PollKind) (bs : Nat) (hbs : 1 ≤ bs) :
    (run (.select (nodeOf (optimizeExpr f)) (filterOf f)) kind bs none store).1.outcome = .ok ∧
    rowsOf (run (.select (nodeOf (optimizeExpr f)) (filterOf f)) kind bs none store) =
      (store.filter (accepted f)).map Row.pair ∧
    (run (.select (nodeOf (optimizeExpr f)) (filterOf f)) kind bs none store).2.store = store :=
  select_rows_of_cover f (optimizeExpr f) store hs
    (fun p _ ha => Kvql.Properties.C02.scan_sound (exec_is_sem p.2) f p.1 ha) hev kind bs hbs

/-- the same through `Scan.optimize` (= `Scan.plan (optimizeExpr f)`, the MGET keys already sorted
    and deduplicated by the scan model): the node reads the same keys -/
theorem select_star_rows_plan (f : Expr) (store : Storage.Store) (hs : store.Sorted)
    (hev : ∀ p ∈ store, ∃ b, exec f ⟨p.1, p.2⟩ Ctx.off = (.ok (.bool b), Ctx.off))
    (kind : PollKind) (bs : Nat) (hbs : 1 ≤ bs) :
    rowsOf (run (.select (nodeOf (optimize f)) (filterOf f)) kind bs none store) =
      (store.filter (accepted f)).map Row.pair :=
  (select_rows_of_cover f (optimize f) store hs
    (fun p _ ha => Kvql.Properties.C02.scan_plan_sound (exec_is_sem p.2) f p.1 ha) hev kind bs hbs).2.1

/-! ### (iii) against the reference evaluator -/

/-- `P` is true on the stored pair according to the reference evaluator -/
def specHolds (P : Expr) (p : Storage.Pair) : Bool := Spec.holds P ⟨p.1, p.2⟩

/-- what the constant-folding theorem (C04) has to provide about the folded WHERE `f` and the
    parsed WHERE `P`: wherever `P` evaluates to a Boolean, `f` evaluates to the same Boolean.
    This is exactly `Kvql.Properties.C04.fold_preserves_where` at `c := Ctx.off`.  (Only Booleans:
    for texts folding changes the Go kind, `'a' + 'b'` is a `string`, its folded literal a
    `[]byte`; and only the implication: the equation `exec f = exec P` fails when folding removes
    a failing operand, as in `x & false`.) -/
def FoldPreserves (P f : Expr) : Prop :=
  ∀ (kv : Pair) (b : Bool), exec P kv Ctx.off = (.ok (.bool b), Ctx.off) →
    exec f kv Ctx.off = (.ok (.bool b), Ctx.off)

theorem FoldPreserves.of_eq {P f : Expr} (h : ∀ kv, exec f kv Ctx.off = exec P kv Ctx.off) : FoldPreserves P f :=
  fun kv b hv => by rw [h kv]; exact hv

/-- on a pair where the reference evaluates `P` as a condition, the folded filter gives that verdict -/
theorem exec_of_spec {P f : Expr} (hfold : FoldPreserves P f) (hP : CoreLang P) {p : Storage.Pair}
    (h : Spec.evaluable P ⟨p.1, p.2⟩ = true) :
    exec f ⟨p.1, p.2⟩ Ctx.off = (.ok (.bool (specHolds P p)), Ctx.off) := by
  obtain ⟨b, hb⟩ := evaluable_iff.mp h
  have := hfold _ _ (exec_refines_spec_bool P hP _ hb)
  rw [this]
  unfold specHolds Spec.holds
  rw [hb]
  cases b <;> rfl

/-- **(iii) C01 over the models**: `select * where P`, with `f` the folded WHERE the plan is built
    from.  If `P` is in the core language and the reference evaluator finds it evaluable (as a
    condition) on every stored pair, then in either iteration mode and for every batch size ≥ 1 the
    run succeeds and returns exactly the stored pairs on which the REFERENCE says `P` is true, with
    their stored values, in store order; the store is unchanged. -/
theorem select_star_correct (P f : Expr) (hfold : FoldPreserves P f) (hP : CoreLang P)
    (store : Storage.Store) (hs : store.Sorted)
    (hev : ∀ p ∈ store, Spec.evaluable P ⟨p.1, p.2⟩ = true)
    (kind : PollKind) (bs : Nat) (hbs : 1 ≤ bs) :
    (run (.select (nodeOf (optimizeExpr f)) (filterOf f)) kind bs none store).1.outcome = .ok ∧
    rowsOf (run (.select (nodeOf (optimizeExpr f)) (filterOf f)) kind bs none store) =
      (store.filter (specHolds P)).map Row.pair ∧
    (run (.select (nodeOf (optimizeExpr f)) (filterOf f)) kind bs none store).2.store = store := by
  have hev' : ∀ p ∈ store, ∃ b, exec f ⟨p.1, p.2⟩ Ctx.off = (.ok (.bool b), Ctx.off) :=
    fun p hp => ⟨_, exec_of_spec hfold hP (hev p hp)⟩
  obtain ⟨h1, h2, h3⟩ := select_star_rows f store hs hev' kind bs hbs
  refine ⟨h1, ?_, h3⟩
  rw [h2]
  congr 1
  apply List.filter_congr
  intro p hp
  have := exec_of_spec hfold hP (hev p hp)
  unfold accepted execTrue
  rw [this]
  cases specHolds P p <;> rfl

/-- both iteration modes, every batch size, every repetition: the same rows (the model is a
    function, so a repetition is the same term) -/
theorem select_star_modes_agree (P f : Expr) (hfold : FoldPreserves P f) (hP : CoreLang P)
    (store : Storage.Store) (hs : store.Sorted) (hev : ∀ p ∈ store, Spec.evaluable P ⟨p.1, p.2⟩ = true)
    (bs bs' : Nat) (hbs : 1 ≤ bs) (hbs' : 1 ≤ bs') :
    rowsOf (run (.select (nodeOf (optimizeExpr f)) (filterOf f)) .next bs none store) =
    rowsOf (run (.select (nodeOf (optimizeExpr f)) (filterOf f)) .batch bs' none store) := by
  rw [(select_star_correct P f hfold hP store hs hev .next bs hbs).2.1,
    (select_star_correct P f hfold hP store hs hev .batch bs' hbs').2.1]

/-- the rows come in strictly ascending key order — hence every pair at most once — and every row
    is a stored pair (with its stored value) on which the reference says true, and conversely -/
theorem select_star_shape (P : Expr) (store : Storage.Store) (hs : store.Sorted) :
    (store.filter (specHolds P)).Pairwise (fun a b => a.1 < b.1) ∧
    (store.filter (specHolds P)).Nodup ∧
    (∀ p, p ∈ store.filter (specHolds P) ↔ p ∈ store ∧ Spec.holds P ⟨p.1, p.2⟩ = true) := by
  have hp : (store.filter (specHolds P)).Pairwise (fun a b => a.1 < b.1) := List.Pairwise.filter _ hs
  refine ⟨hp, ?_, fun p => by simp [List.mem_filter, specHolds]⟩
  exact hp.imp (fun {a b} h e => by subst e; exact List.lt_irrefl _ h)

/-! ### non-vacuity: `select * where key > 'a' & int(value) + 1 > 2` -/

section example_

/-- the WHERE as parsed -/
def exP : Expr :=
  .binop 0 .and (.binop 0 .gt (.field 0 .key) (.str 0 [97]))
    (.binop 0 .gt (.binop 0 .add (.call 0 (.name 0 (Spec.ascii "int")) [.field 0 .value]) (.num 0 [] 1)) (.num 0 [] 2))

/-- store: a=9, ab=5, b=1, c=7 -/
def exStore : Storage.Store := [([97], [57]), ([97, 98], [53]), ([98], [49]), ([99], [55])]

example : CoreLang exP := by decide
example : exStore.Sorted := by decide
example : ∀ p ∈ exStore, Spec.evaluable exP ⟨p.1, p.2⟩ = true := by decide
/-- the planner narrows the scan to RANGE["a", nil] -/
example : nodeOf (optimizeExpr exP) = .range (some [97]) none := by decide
/-- a (not above 'a') and b (1 + 1 > 2 is false, between two accepted rows) are rejected -/
example : exStore.filter (specHolds exP) = [([97, 98], [53]), ([99], [55])] := by decide
/-- … and that is what the model of the engine returns, row by row and in batches of 2 (with `f = P`:
    nothing to fold) -/
example : rowsOf (run (.select (nodeOf (optimizeExpr exP)) (filterOf exP)) .batch 2 none exStore) =
    [.pair ([97, 98], [53]), .pair ([99], [55])] :=
  (select_star_correct exP exP (fun _ _ h => h) (by decide) exStore (by decide) (by decide) .batch 2 (by decide)).2.1
/-- `exec_is_sem` is about the real evaluator: on (b, 1) the atom `key > 'a'` is true, the filter is not -/
example : execTrue [49] (.binop 0 .gt (.field 0 .key) (.str 0 [97])) [98] = true ∧ execTrue [49] exP [98] = false := by
  decide

end example_

end Kvql.Select
