/-
  C15 — the expression parser never looks at a position: on two token lists that agree up to
  the `pos` fields it succeeds on both or on neither, with trees that agree up to positions
  (`erasePos`) and remainders that agree up to positions.
-/
import Kvql.Proofs.ParsePrecThm

set_option linter.unusedSimpArgs false
set_option linter.unusedVariables false

namespace Kvql.Proofs.ParsePrec

open Kvql Kvql.Parser Kvql.Generated Kvql.Proofs.PrintLex Kvql.Proofs.PrintParse

/-- the token without its position -/
def er (t : Token) : Token := { t with pos := 0 }
/-- equal up to positions -/
def TEq (a b : Toks) : Prop := a.map er = b.map er

theorem er_eq {t t' : Token} (h : er t = er t') : t'.tp = t.tp ∧ t'.data = t.data := by
  cases t; cases t'
  simp only [er, Token.mk.injEq] at h
  exact ⟨h.1.symm, h.2.1.symm⟩

theorem er_str {t t' : Token} (h : er t = er t') : t'.str = t.str := by
  unfold Token.str; rw [(er_eq h).2]
theorem er_prec {t t' : Token} (h : er t = er t') : t'.prec = t.prec := by
  unfold Token.prec; rw [(er_eq h).1, er_str h]

theorem teq_refl (a : Toks) : TEq a a := rfl
theorem teq_nil_left {b : Toks} (h : TEq [] b) : b = [] := by
  cases b <;> simp_all [TEq]
theorem teq_cons_left {t : Token} {r b : Toks} (h : TEq (t :: r) b) :
    ∃ t' r', b = t' :: r' ∧ er t = er t' ∧ TEq r r' := by
  cases b with
  | nil => simp [TEq] at h
  | cons t' r' =>
    simp only [TEq, List.map_cons, List.cons.injEq] at h
    exact ⟨t', r', rfl, h.1, h.2⟩
theorem teq_cons {t t' : Token} {r r' : Toks} (h1 : er t = er t') (h2 : TEq r r') : TEq (t :: r) (t' :: r') := by
  simp only [TEq, List.map_cons, h1] at h2 ⊢
  rw [h2]

/-- if the left run succeeds, so does the right one, with related results -/
def Sim {α : Type} (R : α → α → Prop) (r r' : Res α) : Prop :=
  match r with
  | .ok a => ∃ a', r' = .ok a' ∧ R a a'
  | _ => True

theorem Sim.bind {α β : Type} {R : α → α → Prop} {Q : β → β → Prop} {r r' : Res α} {f f' : α → Res β}
    (h : Sim R r r') (hf : ∀ a a', R a a' → Sim Q (f a) (f' a')) : Sim Q (r >>= f) (r' >>= f') := by
  cases r with
  | ok a =>
    obtain ⟨a', rfl, ha⟩ := h
    exact hf a a' ha
  | _ => simp [Sim, Bind.bind, Res.bind]

theorem sim_ok {α : Type} {R : α → α → Prop} {a a' : α} (h : R a a') : Sim R (.ok a) (.ok a') :=
  ⟨a', rfl, h⟩
theorem sim_pure {α : Type} {R : α → α → Prop} {a a' : α} (h : R a a') :
    Sim R (pure a : Res α) (pure a' : Res α) := ⟨a', rfl, h⟩
theorem sim_err {α : Type} {R : α → α → Prop} (e : PErr) (r' : Res α) : Sim R (.err e) r' := trivial
theorem sim_unsup {α : Type} {R : α → α → Prop} (s : String) (r' : Res α) : Sim R (.unsupported s) r' := trivial
theorem sim_panic {α : Type} {R : α → α → Prop} (s : String) (r' : Res α) : Sim R (.panic s) r' := trivial
theorem sim_fuel {α : Type} {R : α → α → Prop} (r' : Res α) : Sim R .outOfFuel r' := trivial

/-- results: trees equal up to positions, remaining tokens equal up to positions -/
def RE (a b : Expr × Toks) : Prop := erasePos a.1 = erasePos b.1 ∧ TEq a.2 b.2
def RL (a b : List Expr × Toks) : Prop := erasePosList a.1 = erasePosList b.1 ∧ TEq a.2 b.2

theorem sim_expect (tp : Nat) {ts ts' : Toks} (h : TEq ts ts') : Sim TEq (expect tp ts) (expect tp ts') := by
  cases ts with
  | nil => rw [teq_nil_left h]; simp [expect, eofErr, Sim]
  | cons t r =>
    obtain ⟨t', r', rfl, ht, hr⟩ := teq_cons_left h
    unfold expect
    simp only [(er_eq ht).1]
    split
    · simp [synErr, Sim]
    · exact sim_ok hr

theorem erasePos_newNumber (p p' : Nat) (d : Bytes) :
    erasePos (Expr.newNumber p d) = erasePos (Expr.newNumber p' d) := by
  simp [Expr.newNumber, erasePos]

variable (pf : Bytes → F64)

structure PosIH (fuel : Nat) : Prop where
  binary : ∀ lev prec ts ts', TEq ts ts' →
    Sim RE (parseBinaryExpr pf fuel lev prec ts) (parseBinaryExpr pf fuel lev prec ts')
  bloop : ∀ lev prec x x' ts ts', erasePos x = erasePos x' → TEq ts ts' →
    Sim RE (binaryLoop pf fuel lev prec x ts) (binaryLoop pf fuel lev prec x' ts')
  unary : ∀ lev ts ts', TEq ts ts' → Sim RE (parseUnaryExpr pf fuel lev ts) (parseUnaryExpr pf fuel lev ts')
  primary : ∀ lev ts ts', TEq ts ts' → Sim RE (parsePrimaryExpr pf fuel lev ts) (parsePrimaryExpr pf fuel lev ts')
  ploop : ∀ lev x x' ts ts', erasePos x = erasePos x' → TEq ts ts' →
    Sim RE (primaryLoop pf fuel lev x ts) (primaryLoop pf fuel lev x' ts')
  operand : ∀ lev ts ts', TEq ts ts' → Sim RE (parseOperand pf fuel lev ts) (parseOperand pf fuel lev ts')
  items : ∀ lev close strict acc acc' ts ts', erasePosList acc = erasePosList acc' → TEq ts ts' →
    Sim RL (parseItems pf fuel lev close strict acc ts) (parseItems pf fuel lev close strict acc' ts')
  call : ∀ lev fn fn' ts ts', erasePos fn = erasePos fn' → TEq ts ts' →
    Sim RE (parseFuncCall pf fuel lev fn ts) (parseFuncCall pf fuel lev fn' ts')
  access : ∀ lev pos pos' l l' ts ts', erasePos l = erasePos l' → TEq ts ts' →
    Sim RE (parseFieldAccess pf fuel lev pos l ts) (parseFieldAccess pf fuel lev pos' l' ts')
  list : ∀ lev pos pos' ts ts', TEq ts ts' → Sim RE (parseList pf fuel lev pos ts) (parseList pf fuel lev pos' ts')
  between : ∀ lev pos pos' oprec ts ts', TEq ts ts' →
    Sim RE (parseBetween pf fuel lev pos oprec ts) (parseBetween pf fuel lev pos' oprec ts')

theorem pos_zero : PosIH pf 0 := by
  constructor <;> intros <;>
    simp [parseBinaryExpr, binaryLoop, parseUnaryExpr, parsePrimaryExpr, primaryLoop, parseOperand,
      parseItems, parseFuncCall, parseFieldAccess, parseList, parseBetween, Sim]

theorem sim_buildOp (p p' : Nat) (s : String) : Sim (fun a b => a = b) (buildOp p s) (buildOp p' s) := by
  unfold buildOp
  split
  · exact sim_ok rfl
  · simp [synErr, Sim]

theorem pos_step {fuel : Nat} (ih : PosIH pf fuel) : PosIH pf (fuel + 1) := by
  constructor
  · -- binary
    intro lev prec ts ts' h
    unfold parseBinaryExpr
    apply Sim.bind (ih.unary lev ts ts' h)
    rintro ⟨x, r⟩ ⟨x', r'⟩ ⟨hx, hr⟩
    exact ih.bloop _ _ _ _ _ _ hx hr
  · -- bloop
    intro lev prec x x' ts ts' hx h
    unfold binaryLoop
    by_cases hlev : lev > maxNest
    · simp only [hlev, if_true]; exact sim_err _ _
    · simp only [hlev, Bool.false_eq_true, if_false]
      cases ts with
      | nil => rw [teq_nil_left h]; exact sim_ok ⟨hx, teq_refl _⟩
      | cons t rest =>
        obtain ⟨t', rest', rfl, ht, hr⟩ := teq_cons_left h
        dsimp only
        rw [er_prec ht, er_str ht]
        by_cases hlt : t.prec < prec
        · simp only [hlt, if_true]
          exact sim_ok ⟨hx, teq_cons ht hr⟩
        · simp only [hlt, Bool.false_eq_true, if_false]
          apply Sim.bind (R := RE)
          · by_cases hin : t.str == "in"
            · simp only [hin, if_true]
              cases rest with
              | nil => rw [teq_nil_left hr]; exact sim_err _ _
              | cons t2 r2 =>
                obtain ⟨t2', r2', rfl, ht2, hr2⟩ := teq_cons_left hr
                dsimp only
                rw [(er_eq ht2).1]
                by_cases hlp : t2.tp == tkLPAREN
                · simp only [hlp, if_true]
                  exact ih.list _ _ _ _ _ (teq_cons ht2 hr2)
                · simp only [hlp, Bool.false_eq_true, if_false]
                  exact ih.binary _ _ _ _ (teq_cons ht2 hr2)
            · simp only [hin, Bool.false_eq_true, if_false]
              by_cases hbt : t.str == "between"
              · simp only [hbt, if_true]
                exact ih.between _ _ _ _ _ _ hr
              · simp only [hbt, Bool.false_eq_true, if_false]
                exact ih.binary _ _ _ _ hr
          · rintro ⟨y, r⟩ ⟨y', r'⟩ ⟨hy, hr'⟩
            apply Sim.bind (sim_buildOp t.pos t'.pos t.str)
            rintro op op' rfl
            refine ih.bloop _ _ _ _ _ _ ?_ hr'
            simp only [erasePos, hx, hy]
  · -- unary
    intro lev ts ts' h
    unfold parseUnaryExpr
    cases ts with
    | nil => rw [teq_nil_left h]; exact sim_err _ _
    | cons t rest =>
      obtain ⟨t', rest', rfl, ht, hr⟩ := teq_cons_left h
      dsimp only
      rw [(er_eq ht).1, er_str ht]
      by_cases hb : (t.tp == tkOPERATOR && t.str == "!") = true
      · simp only [hb, if_true]
        apply Sim.bind (ih.unary _ _ _ hr)
        rintro ⟨y, r⟩ ⟨y', r'⟩ ⟨hy, hr'⟩
        exact sim_pure ⟨by simp only [erasePos, hy], hr'⟩
      · simp only [hb, Bool.false_eq_true, if_false]
        exact ih.primary _ _ _ (teq_cons ht hr)
  · -- primary
    intro lev ts ts' h
    unfold parsePrimaryExpr
    apply Sim.bind (ih.operand lev ts ts' h)
    rintro ⟨x, r⟩ ⟨x', r'⟩ ⟨hx, hr⟩
    exact ih.ploop _ _ _ _ _ hx hr
  · -- ploop
    intro lev x x' ts ts' hx h
    unfold primaryLoop
    cases ts with
    | nil => rw [teq_nil_left h]; exact sim_ok ⟨hx, teq_refl _⟩
    | cons t rest =>
      obtain ⟨t', rest', rfl, ht, hr⟩ := teq_cons_left h
      dsimp only
      rw [(er_eq ht).1, ← calleeAtomic_erase hx]
      by_cases hlp : t.tp == tkLPAREN
      · simp only [hlp, if_true]
        by_cases hat : x.calleeAtomic
        · simp only [hat, Bool.not_true, Bool.false_eq_true, if_false]
          apply Sim.bind (ih.call _ _ _ _ _ hx (teq_cons ht hr))
          rintro ⟨y, r⟩ ⟨y', r'⟩ ⟨hy, hr'⟩
          exact ih.ploop _ _ _ _ _ hy hr'
        · simp only [hat, Bool.not_false, if_true]
          exact sim_unsup _ _
      · simp only [hlp, Bool.false_eq_true, if_false]
        by_cases hlb : t.tp == tkLBRACK
        · simp only [hlb, if_true]
          apply Sim.bind (ih.access _ _ _ _ _ _ _ hx (teq_cons ht hr))
          rintro ⟨y, r⟩ ⟨y', r'⟩ ⟨hy, hr'⟩
          exact ih.ploop _ _ _ _ _ hy hr'
        · simp only [hlb, Bool.false_eq_true, if_false]
          exact sim_ok ⟨hx, teq_cons ht hr⟩
  · -- operand
    intro lev ts ts' h
    unfold parseOperand
    cases ts with
    | nil => rw [teq_nil_left h]; exact sim_panic _ _
    | cons t rest =>
      obtain ⟨t', rest', rfl, ht, hr⟩ := teq_cons_left h
      dsimp only
      rw [(er_eq ht).1, (er_eq ht).2]
      repeat' split
      all_goals try (first
        | exact sim_ok ⟨erasePos_newNumber _ _ _, hr⟩
        | exact sim_ok ⟨rfl, hr⟩
        | exact sim_err _ _)
      apply Sim.bind (ih.binary _ _ _ _ hr)
      rintro ⟨y, r⟩ ⟨y', r'⟩ ⟨hy, hr'⟩
      apply Sim.bind (sim_expect _ hr')
      intro r2 r2' hr2
      exact sim_pure ⟨hy, hr2⟩
  · -- items
    intro lev close strict acc acc' ts ts' hacc h
    unfold parseItems
    cases ts with
    | nil => rw [teq_nil_left h]; exact sim_ok ⟨hacc, teq_refl _⟩
    | cons t rest =>
      obtain ⟨t', rest', rfl, ht, hr⟩ := teq_cons_left h
      dsimp only
      rw [(er_eq ht).1]
      by_cases hc : t.tp == close
      · simp only [hc, if_true]
        exact sim_ok ⟨hacc, teq_cons ht hr⟩
      · simp only [hc, Bool.false_eq_true, if_false]
        apply Sim.bind (ih.binary _ _ _ _ (teq_cons ht hr))
        rintro ⟨y, r⟩ ⟨y', r'⟩ ⟨hy, hr'⟩
        dsimp only at hy hr' ⊢
        have hacc' : erasePosList (acc ++ [y]) = erasePosList (acc' ++ [y']) := by
          simp only [erasePosList_append, hacc, erasePosList, hy]
        cases r with
        | nil => rw [teq_nil_left hr']; exact sim_pure ⟨hacc', teq_refl _⟩
        | cons t1 r1 =>
          obtain ⟨t1', r1', rfl, ht1, hr1⟩ := teq_cons_left hr'
          dsimp only
          rw [(er_eq ht1).1, er_str ht1]
          by_cases hc1 : t1.tp == close
          · simp only [hc1, if_true]
            exact sim_pure ⟨hacc', teq_cons ht1 hr1⟩
          · simp only [hc1, Bool.false_eq_true, if_false]
            split
            · exact sim_err _ _
            · exact ih.items _ _ _ _ _ _ _ hacc' hr1
  · -- call
    intro lev fn fn' ts ts' hfn h
    unfold parseFuncCall
    apply Sim.bind (sim_expect _ h)
    intro r1 r1' h1
    apply Sim.bind (ih.items _ _ _ [] [] _ _ rfl h1)
    rintro ⟨args, r2⟩ ⟨args', r2'⟩ ⟨ha, h2⟩
    apply Sim.bind (sim_expect _ h2)
    intro r3 r3' h3
    exact sim_pure ⟨by simp only [erasePos, hfn, ha], h3⟩
  · -- access
    intro lev pos pos' l l' ts ts' hl h
    unfold parseFieldAccess
    apply Sim.bind (sim_expect _ h)
    intro r1 r1' h1
    apply Sim.bind (ih.items _ _ _ [] [] _ _ rfl h1)
    rintro ⟨names, r2⟩ ⟨names', r2'⟩ ⟨ha, h2⟩
    apply Sim.bind (sim_expect _ h2)
    intro r3 r3' h3
    dsimp only at ha
    match names, names', ha with
    | [f], [f'], ha =>
      simp only [erasePosList, List.cons.injEq, and_true] at ha
      exact sim_pure ⟨by simp only [erasePos, hl, ha], h3⟩
    | [], _, _ => exact sim_err _ _
    | _ :: _ :: _, _, _ => exact sim_err _ _
    | [f], [], ha => simp [erasePosList] at ha
    | [f], _ :: _ :: _, ha => simp [erasePosList] at ha
  · -- list
    intro lev pos pos' ts ts' h
    unfold parseList
    apply Sim.bind (sim_expect _ h)
    intro r1 r1' h1
    apply Sim.bind (ih.items _ _ _ [] [] _ _ rfl h1)
    rintro ⟨items, r2⟩ ⟨items', r2'⟩ ⟨ha, h2⟩
    apply Sim.bind (sim_expect _ h2)
    intro r3 r3' h3
    exact sim_pure ⟨by simp only [erasePos]; exact congrArg _ ha, h3⟩
  · -- between
    intro lev pos pos' oprec ts ts' h
    unfold parseBetween
    apply Sim.bind (ih.binary _ _ _ _ h)
    rintro ⟨lo, r1⟩ ⟨lo', r1'⟩ ⟨hlo, h1⟩
    apply Sim.bind (sim_expect _ h1)
    intro r2 r2' h2
    apply Sim.bind (ih.binary _ _ _ _ h2)
    rintro ⟨hi, r3⟩ ⟨hi', r3'⟩ ⟨hhi, h3⟩
    exact sim_pure ⟨by simp only [erasePos, erasePosList, hlo, hhi], h3⟩

theorem pos_all : ∀ fuel, PosIH pf fuel
  | 0 => pos_zero pf
  | n + 1 => pos_step pf (pos_all n)

/-- **Positions are never looked at.**  If `parseExpr` succeeds on `ts`, it succeeds on every
    token list that differs from `ts` only in positions, with the same tree up to positions. -/
theorem parseExpr_pos_invariant {fuel : Nat} {ts ts' rest : Toks} {x : Expr} (h : TEq ts ts')
    (hp : parseExpr pf fuel ts = .ok (x, rest)) :
    ∃ x' rest', parseExpr pf fuel ts' = .ok (x', rest') ∧ erasePos x = erasePos x' ∧ TEq rest rest' := by
  have := (pos_all pf fuel).binary 0 1 ts ts' h
  unfold parseExpr at hp ⊢
  rw [hp] at this
  obtain ⟨⟨x', rest'⟩, h1, h2, h3⟩ := this
  exact ⟨x', rest', h1, h2, h3⟩

end Kvql.Proofs.ParsePrec
