/-
  C14 through alias references, part 5: ACCEPTED ⇒ NO OPERAND-TYPE ERROR, with alias references.

  For a SELECT `planStage` accepts, the filter and every select field that is not an aggregate —
  alias references allowed: backward, forward, chains — are well-kinded by the README typing, their
  kind is their static `ReturnType()`; hence (C14Exec `progress_row` / `progress_batch`) neither
  evaluator fails with an operand-type error and the values have the static type: cache off, and —
  through C05's cache simulation — cache on.
-/
import Kvql.Proofs.TypingAliasTable
import Kvql.Proofs.CacheBatchInd

namespace Kvql.Proofs.Typing

open Kvql Kvql.Generated Kvql.PlanCheck Kvql.Parser

variable {pf : Bytes → F64}

/-- a tree of the accepted table, resolved: well-kinded, with the type the checker computed -/
theorem resolved_kind {tbl : Tbl} (hok : TblOK tbl) {ctx : CheckCtx} (hctx : ctx.tbl = tbl) {e : Expr}
    (hnode : NodeOK ctx false e) (hf : Found tbl e = true)
    (hs : sideOkD (resolveTop tbl e) = true) (hc : callsOk (resolveTop tbl e)) :
    ∃ k, kindOf (resolveTop tbl e) = some k ∧ k.code = (resolveTop tbl e).retType ∧
      ∀ t, ctx.rt e = .ok t → k.code = t := by
  subst hctx
  have hn := callsOk_noCyc hc
  obtain ⟨hdeep, hsim⟩ := resolveTop_deep ctx hok e hnode hf hn
  obtain ⟨k, hk, hcode⟩ := deep0_sound _ hdeep hs hc
  refine ⟨k, hk, hcode, fun t ht => ?_⟩
  rw [rt_ok_iff] at ht
  rw [hcode]
  exact hsim.rtImp _ _ ht

/-- the WHERE expression of an accepted SELECT — alias references allowed — is Boolean by the README
    typing -/
theorem accepted_select_where_kind_alias {toks : Toks} {s : SelectS} (h : planStage pf toks = .ok (.select s))
    (hs : sideOkD s.where_ = true) : kindOf s.where_ = some .bool := by
  obtain ⟨tbl', expr', hok, hnode, hfound, hrt, hwh, _, hc, _⟩ := accepted_select_table h
  rw [hwh] at hs hc ⊢
  obtain ⟨k, hk, _, hrt'⟩ := resolved_kind hok (ctx := { tbl := tbl' }) rfl hnode hfound hs hc
  rw [hk, kind_of_code_bool (hrt' _ hrt)]

/-- a select field of an accepted SELECT that is not an aggregate — alias references allowed — is
    well-kinded, and its kind is its static type -/
theorem accepted_select_field_kind_alias {toks : Toks} {s : SelectS} (h : planStage pf toks = .ok (.select s))
    (f : Expr) (hf : f ∈ s.fields) (hs : sideOkD f = true) (hn : noSiteAggr f = true) :
    ∃ k, kindOf f = some k ∧ k.code = f.retType := by
  obtain ⟨tbl', expr', hok, _, _, _, _, hfl, _, hwf, _⟩ := accepted_select_table h
  have hcalls : callsOk f := walkCalls_false_of_true f (walkFields_ok hwf f hf) hn
  rw [hfl] at hf
  obtain ⟨⟨nm, e⟩, hp, rfl⟩ := List.mem_map.mp hf
  obtain ⟨j, hj⟩ := List.mem_iff_getElem?.mp hp
  obtain ⟨⟨cx, hcx, hnode⟩, hfound⟩ := hok j nm e hj
  obtain ⟨k, hk, hcode, _⟩ := resolved_kind hok hcx hnode hfound hs hcalls
  exact ⟨k, hk, hcode⟩

/-! ### evaluation -/

open Kvql.Cache in
/-- never an operand-type error and results of kind `k`, with the field cache ON: the row evaluator
    from any context that satisfies C05's cache invariant `CacheOK` (in particular a cleared one), the
    batch evaluator on a chunk `E.ch` from any context that satisfies C05's chunk-cache invariant
    `BInv E` — for every alias table `A` (one target per name) that contains the references of `e` -/
def NoOperandTypeErrorCacheOn (e : Expr) (k : Kind) : Prop :=
  (∀ (A : Aliases), Functional A → WF A e → ∀ (kv : Pair) (c : Ctx), CtxOn c → CacheOK A c kv →
      (∀ v, (exec e kv c).1 = .ok v → v.hasKind k = true) ∧ (exec e kv c).1 ≠ .error .operandType) ∧
  (∀ (E : BEnv), E.Ok → WF E.A e → ∀ (c : Ctx), BInv E c →
      (∀ vs, (execBatch e E.ch c).1 = .ok vs → vs.length = E.ch.length ∧ ∀ v ∈ vs, v.hasKind k = true) ∧
      (execBatch e E.ch c).1 ≠ .error .operandType)

theorem noOperandTypeErrorCacheOn_of_kind {e : Expr} {k : Kind} (hk : kindOf e = some k) :
    NoOperandTypeErrorCacheOn e k := by
  constructor
  · intro A hfun hw kv c hon hok
    obtain ⟨heq, _, _⟩ := Kvql.Cache.row_cache_ok hfun e hw kv c hon hok
    have hoff := Kvql.Proofs.C14.progress_row e k hk kv Ctx.off rfl
    rw [heq, Kvql.Cache.nocache_def]
    constructor
    · intro v hv
      exact hoff.1 v (exec e kv Ctx.off).2 (by rw [← hv])
    · intro he
      exact hoff.2 .operandType (exec e kv Ctx.off).2 (by rw [← he]) rfl
  · intro E hE hw c hinv
    obtain ⟨heq, _, _⟩ := (Kvql.Cache.execBatch_bs hE e hw).2 c hinv
    have hoff := Kvql.Proofs.C14.progress_batch e k hk E.ch Ctx.off rfl
    rw [heq]
    constructor
    · intro vs hv
      exact hoff.1 vs (execBatch e E.ch Ctx.off).2 (by rw [← hv])
    · intro he
      exact hoff.2 .operandType (execBatch e E.ch Ctx.off).2 (by rw [← he]) rfl

/-- ACCEPTED ⇒ NO OPERAND-TYPE ERROR, filter of a SELECT, alias references allowed: cache off (any
    pair, any chunk) and cache on -/
theorem accepted_select_where_alias (toks : Toks) (s : SelectS) (h : planStage pf toks = .ok (.select s))
    (hs : sideOkD s.where_ = true) :
    NoOperandTypeError s.where_ .bool ∧ NoOperandTypeErrorCacheOn s.where_ .bool :=
  ⟨noOperandTypeError_of_kind (accepted_select_where_kind_alias h hs),
   noOperandTypeErrorCacheOn_of_kind (accepted_select_where_kind_alias h hs)⟩

/-- … every select field that is not an aggregate: values of the field's static type -/
theorem accepted_select_field_alias (toks : Toks) (s : SelectS) (h : planStage pf toks = .ok (.select s))
    (f : Expr) (hf : f ∈ s.fields) (hs : sideOkD f = true) (hn : noSiteAggr f = true) :
    ∃ k, k.code = f.retType ∧ NoOperandTypeError f k ∧ NoOperandTypeErrorCacheOn f k := by
  obtain ⟨k, hk, hc⟩ := accepted_select_field_kind_alias h f hf hs hn
  exact ⟨k, hc, noOperandTypeError_of_kind hk, noOperandTypeErrorCacheOn_of_kind hk⟩

end Kvql.Proofs.Typing
