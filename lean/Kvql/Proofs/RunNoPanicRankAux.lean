/-
  RunNoPanic, part 1 (helpers of RunNoPanicRank.lean): bounded sums, the indices `Expr.refIdx`
  returns, the cost function behind the sufficiency of `rtFuel`.
-/
import Kvql.Proofs.RunNoPanicBase

namespace Kvql.Proofs.RunNoPanic

open Kvql Kvql.Parser Kvql.Proofs.Typing

/-! ### bounded sums -/

/-- `f 0 + … + f (n-1)` -/
def sumTo (f : Nat → Nat) : Nat → Nat
  | 0 => 0
  | n + 1 => sumTo f n + f n

theorem sumTo_le {f g : Nat → Nat} : ∀ (n : Nat), (∀ i, i < n → f i ≤ g i) → sumTo f n ≤ sumTo g n
  | 0, _ => Nat.le_refl _
  | n + 1, h => by
    have h1 := sumTo_le n (fun i hi => h i (by omega))
    have h2 := h n (by omega)
    simp only [sumTo]; omega

theorem sumTo_lt {f g : Nat → Nat} {j c : Nat} : ∀ (n : Nat), (∀ i, i < n → f i ≤ g i) → j < n →
    f j + c ≤ g j → sumTo f n + c ≤ sumTo g n
  | 0, _, hj, _ => by omega
  | n + 1, h, hj, hc => by
    simp only [sumTo]
    by_cases hjn : j = n
    · subst hjn
      have h1 := sumTo_le (f := f) (g := g) j (fun i hi => h i (by omega))
      omega
    · have h1 := sumTo_lt n (fun i hi => h i (by omega)) (by omega) hc
      have h2 := h n (by omega)
      omega

/-- a strict upper bound of `rank` on the indices below `n` -/
def rankBound (rank : Nat → Nat) : Nat → Nat
  | 0 => 0
  | n + 1 => max (rankBound rank n) (rank n + 1)

theorem rankBound_gt (rank : Nat → Nat) : ∀ (n i : Nat), i < n → rank i < rankBound rank n
  | 0, i, h => by omega
  | n + 1, i, h => by
    simp only [rankBound]
    by_cases hin : i = n
    · subst hin; omega
    · have := rankBound_gt rank n i (by omega); omega

/-! ### the indices `refIdx` returns are indices of the table -/

mutual
  theorem refIdx_lt (tbl : Tbl) : ∀ (e : Expr) (j : Nat), j ∈ e.refIdx tbl → j < tbl.length
    | .binop _ _ l r, j, h => by
      simp only [Expr.refIdx, List.mem_append] at h
      rcases h with h | h
      · exact refIdx_lt tbl l j h
      · exact refIdx_lt tbl r j h
    | .not _ r, j, h => by
      simp only [Expr.refIdx] at h; exact refIdx_lt tbl r j h
    | .call _ n args, j, h => by
      simp only [Expr.refIdx, List.mem_append] at h
      rcases h with h | h
      · exact refIdx_lt tbl n j h
      · exact refIdxList_lt tbl args j h
    | .ref _ nm _, j, h => by
      simp only [Expr.refIdx] at h
      split at h
      · rename_i i cur hfind
        simp only [List.mem_singleton] at h
        subst h
        exact ParserTotal.Tbl.find_lt hfind
      · simp at h
    | .list _ items, j, h => by
      simp only [Expr.refIdx] at h; exact refIdxList_lt tbl items j h
    | .access _ l f, j, h => by
      simp only [Expr.refIdx, List.mem_append] at h
      rcases h with h | h
      · exact refIdx_lt tbl l j h
      · exact refIdx_lt tbl f j h
    | .field .., j, h => by simp [Expr.refIdx] at h
    | .str .., j, h => by simp [Expr.refIdx] at h
    | .name .., j, h => by simp [Expr.refIdx] at h
    | .cycle, j, h => by simp [Expr.refIdx] at h
    | .num .., j, h => by simp [Expr.refIdx] at h
    | .float .., j, h => by simp [Expr.refIdx] at h
    | .bool .., j, h => by simp [Expr.refIdx] at h
  theorem refIdxList_lt (tbl : Tbl) : ∀ (es : List Expr) (j : Nat), j ∈ Expr.refIdx.refIdxList tbl es →
      j < tbl.length
    | [], j, h => by simp [Expr.refIdx.refIdxList] at h
    | e :: es, j, h => by
      simp only [Expr.refIdx.refIdxList, List.mem_append] at h
      rcases h with h | h
      · exact refIdx_lt tbl e j h
      · exact refIdxList_lt tbl es j h
end

theorem edge_lt {tbl : Tbl} {a b : Nat} (h : Edge tbl a b) : a < tbl.length ∧ b < tbl.length := by
  obtain ⟨nm, e, ha, hb⟩ := h
  refine ⟨?_, refIdx_lt tbl e b hb⟩
  have := List.getElem?_eq_some_iff.mp ha
  exact this.1

/-! ### the cost function behind `rtFuel` -/

/-- what visiting entry `i` costs: its nodes, and the step into it -/
def entryW (tbl : Tbl) (i : Nat) : Nat :=
  match tbl[i]? with
  | some p => p.2.size + 1
  | none => 0

theorem nodes_foldl (l : Tbl) : ∀ (acc : Nat),
    l.foldl (fun acc p => acc + p.2.size + 1) acc = acc + l.foldl (fun acc p => acc + p.2.size + 1) 0 := by
  induction l with
  | nil => intro acc; simp
  | cons p rest ih =>
    intro acc
    simp only [List.foldl_cons]
    rw [ih (acc + p.2.size + 1), ih (0 + p.2.size + 1)]
    omega

theorem nodes_take (tbl : Tbl) : ∀ (n : Nat), n ≤ tbl.length → Tbl.nodes (tbl.take n) = sumTo (entryW tbl) n
  | 0, _ => by simp [Tbl.nodes, sumTo]
  | n + 1, h => by
    have ih := nodes_take tbl n (by omega)
    have hn : n < tbl.length := by omega
    rw [List.take_add_one, List.getElem?_eq_getElem hn]
    simp only [Tbl.nodes, Option.toList_some, List.foldl_append, List.foldl_cons, List.foldl_nil, sumTo]
    simp only [Tbl.nodes] at ih
    rw [ih]
    simp only [entryW, List.getElem?_eq_getElem hn]
    omega

theorem nodes_eq (tbl : Tbl) : tbl.nodes = sumTo (entryW tbl) tbl.length := by
  have := nodes_take tbl tbl.length (Nat.le_refl _)
  rwa [List.take_length] at this

/-- the cost of all entries of rank below `r` -/
def cost (tbl : Tbl) (rank : Nat → Nat) (r : Nat) : Nat :=
  sumTo (fun i => if rank i < r then entryW tbl i else 0) tbl.length

theorem cost_le_nodes (tbl : Tbl) (rank : Nat → Nat) (r : Nat) : cost tbl rank r ≤ tbl.nodes := by
  rw [nodes_eq]
  apply sumTo_le
  intro i _
  split <;> omega

theorem cost_step {tbl : Tbl} {rank : Nat → Nat} {r j : Nat} {nm : Bytes} {cur : Expr}
    (hr : rank j < r) (hj : tbl[j]? = some (nm, cur)) :
    cost tbl rank (rank j) + cur.size + 1 ≤ cost tbl rank r := by
  have hlt : j < tbl.length := (List.getElem?_eq_some_iff.mp hj).1
  have := sumTo_lt (f := fun i => if rank i < rank j then entryW tbl i else 0)
    (g := fun i => if rank i < r then entryW tbl i else 0) (j := j) (c := cur.size + 1) tbl.length
    (by
      intro i _
      split
      · rw [if_pos (by omega)]; omega
      · omega)
    hlt
    (by
      rw [if_neg (by omega), if_pos hr]
      simp only [entryW, hj]; omega)
  simp only [cost]
  omega

/-! ### `rtF` with enough fuel -/

/-- the inner induction (on the tree) of `rtF_sufficient`: `ih` is the statement for the entries of
    smaller rank -/
theorem rtF_inner {tbl : Tbl} {rank : Nat → Nat} {r : Nat}
    (ih : ∀ (i : Nat) (nm : Bytes) (cur : Expr), tbl[i]? = some (nm, cur) → rank i < r →
      ∀ fuel, cur.size + cost tbl rank (rank i) + 1 ≤ fuel → (rtF tbl fuel cur).isSome = true) :
    ∀ (x : Expr), Found tbl x = true → noCyc x = true → (∀ j ∈ x.refIdx tbl, rank j < r) →
      ∀ fuel, x.size + cost tbl rank r + 1 ≤ fuel → (rtF tbl fuel x).isSome = true
  | .binop p op l r0, hf, hn, hr, fuel, hfuel => by
    simp only [Expr.size] at hfuel
    obtain ⟨f, rfl⟩ : ∃ f, fuel = f + 1 := ⟨fuel - 1, by omega⟩
    simp only [rtF]
    cases hop : Expr.opRetType op with
    | some t => simp
    | none =>
      simp only [Option.isSome_map]
      simp only [Found, FoundP, Bool.and_eq_true] at hf
      simp only [noCyc, Bool.and_eq_true] at hn
      exact rtF_inner ih l hf.1 hn.1
        (fun j hj => hr j (by simp only [Expr.refIdx, List.mem_append]; exact .inl hj)) f (by omega)
  | .ref p nm t, hf, hn, hr, fuel, hfuel => by
    simp only [Expr.size] at hfuel
    obtain ⟨f, rfl⟩ : ∃ f, fuel = f + 1 := ⟨fuel - 1, by omega⟩
    simp only [Found, FoundP, aliasP] at hf
    simp only [rtF]
    cases hfind : tbl.find nm with
    | none => simp [hfind] at hf
    | some ic =>
      obtain ⟨i, cur⟩ := ic
      dsimp only
      obtain ⟨n, hget⟩ := find_get hfind
      have hri : rank i < r := hr i (by simp [Expr.refIdx, hfind])
      have hc := cost_step (tbl := tbl) (rank := rank) hri hget
      exact ih i n cur hget hri f (by omega)
  | .cycle, _, hn, _, _, _ => by simp [noCyc] at hn
  | .field .., _, _, _, fuel, hfuel => by
    obtain ⟨f, rfl⟩ : ∃ f, fuel = f + 1 := ⟨fuel - 1, by omega⟩
    simp [rtF]
  | .str .., _, _, _, fuel, hfuel => by
    obtain ⟨f, rfl⟩ : ∃ f, fuel = f + 1 := ⟨fuel - 1, by omega⟩
    simp [rtF]
  | .not .., _, _, _, fuel, hfuel => by
    obtain ⟨f, rfl⟩ : ∃ f, fuel = f + 1 := ⟨fuel - 1, by omega⟩
    simp [rtF]
  | .call .., _, _, _, fuel, hfuel => by
    obtain ⟨f, rfl⟩ : ∃ f, fuel = f + 1 := ⟨fuel - 1, by omega⟩
    simp [rtF]
  | .name .., _, _, _, fuel, hfuel => by
    obtain ⟨f, rfl⟩ : ∃ f, fuel = f + 1 := ⟨fuel - 1, by omega⟩
    simp [rtF]
  | .num .., _, _, _, fuel, hfuel => by
    obtain ⟨f, rfl⟩ : ∃ f, fuel = f + 1 := ⟨fuel - 1, by omega⟩
    simp [rtF]
  | .float .., _, _, _, fuel, hfuel => by
    obtain ⟨f, rfl⟩ : ∃ f, fuel = f + 1 := ⟨fuel - 1, by omega⟩
    simp [rtF]
  | .bool .., _, _, _, fuel, hfuel => by
    obtain ⟨f, rfl⟩ : ∃ f, fuel = f + 1 := ⟨fuel - 1, by omega⟩
    simp [rtF]
  | .list .., _, _, _, fuel, hfuel => by
    obtain ⟨f, rfl⟩ : ∃ f, fuel = f + 1 := ⟨fuel - 1, by omega⟩
    simp [rtF]
  | .access .., _, _, _, fuel, hfuel => by
    obtain ⟨f, rfl⟩ : ∃ f, fuel = f + 1 := ⟨fuel - 1, by omega⟩
    simp [rtF]

/-- the outer induction (on the rank bound) -/
theorem rtF_ranked {tbl : Tbl} {rank : Nat → Nat} (hrk : Ranked tbl rank)
    (hent : ∀ (j : Nat) (nm : Bytes) (f : Expr), tbl[j]? = some (nm, f) → Found tbl f = true ∧ noCyc f = true) :
    ∀ (r : Nat) (x : Expr), Found tbl x = true → noCyc x = true → (∀ j ∈ x.refIdx tbl, rank j < r) →
      ∀ fuel, x.size + cost tbl rank r + 1 ≤ fuel → (rtF tbl fuel x).isSome = true := by
  intro r
  induction r using Nat.strongRecOn with
  | _ r IH =>
    apply rtF_inner
    intro i nm cur hget hri fuel hfuel
    obtain ⟨hf, hn⟩ := hent i nm cur hget
    exact IH (rank i) hri cur hf hn (fun j hj => hrk i j ⟨nm, cur, hget, hj⟩) fuel hfuel

/-! ### the depth-first search of `Tbl.reaches` -/

/-- number of indices below `n` not in `seen` -/
def unseen (n : Nat) (seen : List Nat) : Nat := sumTo (fun i => if i ∈ seen then 0 else 1) n

theorem unseen_mono {n : Nat} {s s' : List Nat} (h : ∀ x ∈ s, x ∈ s') : unseen n s' ≤ unseen n s := by
  apply sumTo_le
  intro i _
  by_cases hi : i ∈ s
  · rw [if_pos (h i hi)]; omega
  · rw [if_neg hi]; split <;> omega

theorem unseen_cons {n j : Nat} {s : List Nat} (hj : j < n) (hs : j ∉ s) : unseen n (j :: s) + 1 ≤ unseen n s := by
  apply sumTo_lt (j := j) n _ hj
  · rw [if_neg hs, if_pos (by simp)]; omega
  · intro i _
    by_cases hi : i ∈ s
    · rw [if_pos hi, if_pos (by simp [hi])]; omega
    · rw [if_neg hi]; split <;> omega

/-- `k` is finished: it is not the target and all its successors are in `S` -/
def Black (tbl : Tbl) (target : Nat) (S : List Nat) (k : Nat) : Prop := k ≠ target ∧ ∀ m, Edge tbl k m → m ∈ S

theorem Black.mono {tbl : Tbl} {target k : Nat} {S S' : List Nat} (h : Black tbl target S k)
    (hs : ∀ x ∈ S, x ∈ S') : Black tbl target S' k := ⟨h.1, fun m hm => hs m (h.2 m hm)⟩

/-- what a call of `reaches` that answers "no" guarantees -/
def ReachSpec (tbl : Tbl) (target fuel : Nat) : Prop :=
  ∀ (j : Nat) (seen seen' : List Nat), j < tbl.length → unseen tbl.length seen < fuel →
    tbl.reaches target fuel j seen = (false, seen') →
    (∀ x ∈ seen, x ∈ seen') ∧ j ∈ seen' ∧ j ≠ target ∧ ∀ k ∈ seen', k ∉ seen → Black tbl target seen' k

/-- the loop body of `reaches` -/
def reachStep (tbl : Tbl) (target fuel : Nat) (acc : Bool × List Nat) (k : Nat) : Bool × List Nat :=
  if acc.1 then acc else Tbl.reaches tbl target fuel k acc.2

theorem reachStep_true (tbl : Tbl) (target fuel : Nat) : ∀ (l : List Nat) (s : List Nat),
    l.foldl (reachStep tbl target fuel) (true, s) = (true, s)
  | [], s => rfl
  | k :: l, s => by
    simp only [List.foldl_cons, reachStep, if_true]
    exact reachStep_true tbl target fuel l s

theorem reachFold_spec {tbl : Tbl} {target fuel : Nat} (hP : ReachSpec tbl target fuel) :
    ∀ (next : List Nat), (∀ k ∈ next, k < tbl.length) → ∀ (b : Bool) (s : List Nat) (res : Bool × List Nat),
      unseen tbl.length s < fuel → next.foldl (reachStep tbl target fuel) (b, s) = res → res.1 = false →
      b = false ∧ (∀ x ∈ s, x ∈ res.2) ∧ (∀ k ∈ next, k ∈ res.2) ∧
        ∀ k ∈ res.2, k ∉ s → Black tbl target res.2 k
  | [], _, b, s, res, _, hres, hfalse => by
    simp only [List.foldl_nil] at hres
    subst hres
    exact ⟨hfalse, fun x hx => hx, by simp, fun k hk hnk => absurd hk hnk⟩
  | k :: rest, hlt, b, s, res, hun, hres, hfalse => by
    cases b with
    | true =>
      rw [reachStep_true] at hres
      subst hres
      cases hfalse
    | false =>
      simp only [List.foldl_cons] at hres
      have hstep : reachStep tbl target fuel (false, s) k = Tbl.reaches tbl target fuel k s := by
        simp [reachStep]
      rw [hstep] at hres
      cases hr : Tbl.reaches tbl target fuel k s with
      | mk b' s' =>
        rw [hr] at hres
        have hklt : k < tbl.length := hlt k (by simp)
        -- the rest of the loop first: it tells that `b' = false`
        have hb' : b' = false := by
          cases b' with
          | false => rfl
          | true =>
            rw [reachStep_true] at hres
            subst hres
            cases hfalse
        subst hb'
        obtain ⟨hsub1, hk1, _, hblack1⟩ := hP k s s' hklt hun hr
        have hun' : unseen tbl.length s' < fuel := Nat.lt_of_le_of_lt (unseen_mono hsub1) hun
        obtain ⟨_, hsub2, hall2, hblack2⟩ :=
          reachFold_spec hP rest (fun x hx => hlt x (by simp [hx])) false s' res hun' hres hfalse
        refine ⟨rfl, fun x hx => hsub2 x (hsub1 x hx), ?_, ?_⟩
        · intro x hx
          simp only [List.mem_cons] at hx
          rcases hx with rfl | hx
          · exact hsub2 _ hk1
          · exact hall2 x hx
        · intro x hx hxs
          by_cases hxs' : x ∈ s'
          · exact (hblack1 x hxs' hxs).mono hsub2
          · exact hblack2 x hx hxs'

theorem reachSpec_all (tbl : Tbl) (target : Nat) : ∀ (fuel : Nat), ReachSpec tbl target fuel
  | 0 => by
    intro j seen seen' _ hun _
    omega
  | fuel + 1 => by
    have ih := reachSpec_all tbl target fuel
    intro j seen seen' hj hun h
    unfold Tbl.reaches at h
    split at h
    · cases h
    · rename_i hjt
      have hjt' : j ≠ target := by simpa using hjt
      split at h
      · rename_i hc
        have hmem : j ∈ seen := by simpa using hc
        cases h
        exact ⟨fun x hx => hx, hmem, hjt', fun k hk hnk => absurd hk hnk⟩
      · rename_i hc
        have hmem : j ∉ seen := by simpa using hc
        have hun1 := unseen_cons hj hmem
        have hlt : ∀ k ∈ (match tbl[j]? with | some (_, e) => e.refIdx tbl | none => []), k < tbl.length := by
          intro k hk
          split at hk
          · exact refIdx_lt tbl _ k hk
          · simp at hk
        obtain ⟨_, hsub, hall, hblack⟩ := reachFold_spec ih _ hlt false (j :: seen) (false, seen') (by omega) h rfl
        dsimp only at hsub hall hblack
        have hjs : j ∈ seen' := hsub j (by simp)
        refine ⟨fun x hx => hsub x (by simp [hx]), hjs, hjt', ?_⟩
        intro k hk hks
        by_cases hkj : k = j
        · subst hkj
          refine ⟨hjt', ?_⟩
          intro m hm
          obtain ⟨nm, e, hget, hme⟩ := hm
          apply hall
          rw [hget]
          exact hme
        · exact hblack k hk (by simp [hkj, hks])

/-- a set closed under `Edge` contains everything reachable from its members -/
theorem reach_closed {tbl : Tbl} {S : List Nat} (hS : ∀ k ∈ S, ∀ m, Edge tbl k m → m ∈ S) {a c : Nat}
    (h : Reach tbl a c) : a ∈ S → c ∈ S := by
  induction h with
  | refl a => exact fun h => h
  | step he _ ih => exact fun ha => ih (hS _ ha _ he)

/-! ### `refIdx` only depends on the names of the table -/

theorem find_go_idx_congr (nm : Bytes) : ∀ (tbl tbl' : Tbl) (k : Nat), tbl'.map (·.1) = tbl.map (·.1) →
    (Tbl.find.go nm tbl' k).map (·.1) = (Tbl.find.go nm tbl k).map (·.1)
  | [], [], _, _ => rfl
  | [], _ :: _, _, h => by simp at h
  | _ :: _, [], _, h => by simp at h
  | (n, x) :: rest, (n', x') :: rest', k, h => by
    simp only [List.map_cons, List.cons.injEq] at h
    obtain ⟨h1, h2⟩ := h
    subst h1
    simp only [Tbl.find.go]
    split
    · rfl
    · exact find_go_idx_congr nm rest rest' (k + 1) h2

theorem find_idx_congr {tbl tbl' : Tbl} (h : tbl'.map (·.1) = tbl.map (·.1)) (nm : Bytes) :
    (tbl'.find nm).map (·.1) = (tbl.find nm).map (·.1) := find_go_idx_congr nm tbl tbl' 0 h

mutual
  theorem refIdx_congr_aux {tbl tbl' : Tbl} (h : tbl'.map (·.1) = tbl.map (·.1)) :
      ∀ (e : Expr), e.refIdx tbl' = e.refIdx tbl
    | .binop _ _ l r => by
      simp only [Expr.refIdx, refIdx_congr_aux h l, refIdx_congr_aux h r]
    | .not _ r => by simp only [Expr.refIdx, refIdx_congr_aux h r]
    | .call _ n args => by
      simp only [Expr.refIdx, refIdx_congr_aux h n, refIdxList_congr_aux h args]
    | .ref _ nm _ => by
      have := find_idx_congr h nm
      simp only [Expr.refIdx]
      cases h1 : tbl'.find nm with
      | none =>
        cases h2 : tbl.find nm with
        | none => rfl
        | some q => simp [h1, h2] at this
      | some q' =>
        cases h2 : tbl.find nm with
        | none => simp [h1, h2] at this
        | some q =>
          obtain ⟨i', c'⟩ := q'
          obtain ⟨i, c⟩ := q
          simp only [h1, h2, Option.map_some, Option.some.injEq] at this
          simp [this]
    | .list _ items => by simp only [Expr.refIdx, refIdxList_congr_aux h items]
    | .access _ l f => by
      simp only [Expr.refIdx, refIdx_congr_aux h l, refIdx_congr_aux h f]
    | .field .. => by simp [Expr.refIdx]
    | .str .. => by simp [Expr.refIdx]
    | .name .. => by simp [Expr.refIdx]
    | .cycle => by simp [Expr.refIdx]
    | .num .. => by simp [Expr.refIdx]
    | .float .. => by simp [Expr.refIdx]
    | .bool .. => by simp [Expr.refIdx]
  theorem refIdxList_congr_aux {tbl tbl' : Tbl} (h : tbl'.map (·.1) = tbl.map (·.1)) :
      ∀ (es : List Expr), Expr.refIdx.refIdxList tbl' es = Expr.refIdx.refIdxList tbl es
    | [] => by simp [Expr.refIdx.refIdxList]
    | e :: es => by
      simp only [Expr.refIdx.refIdxList, refIdx_congr_aux h e, refIdxList_congr_aux h es]
end

/-! ### `mapRefs` -/

mutual
  theorem mapRefs_noCyc {tbl : Tbl} {R : Nat → Prop} {g : Nat → Bytes → Expr → Expr}
      (hg : ∀ p nm t, noCyc t = true → (∀ j ∈ (Expr.ref p nm t).refIdx tbl, R j) → noCyc (g p nm t) = true) :
      ∀ (x : Expr), noCyc x = true → (∀ j ∈ x.refIdx tbl, R j) → noCyc (mapRefs g x) = true
    | .binop _ _ l r, hn, hr => by
      simp only [noCyc, Bool.and_eq_true] at hn
      simp only [Expr.refIdx, List.mem_append] at hr
      simp only [mapRefs, noCyc, Bool.and_eq_true]
      exact ⟨mapRefs_noCyc hg l hn.1 (fun j hj => hr j (.inl hj)),
        mapRefs_noCyc hg r hn.2 (fun j hj => hr j (.inr hj))⟩
    | .not _ r, hn, hr => by
      simp only [noCyc] at hn
      simp only [Expr.refIdx] at hr
      simp only [mapRefs, noCyc]
      exact mapRefs_noCyc hg r hn hr
    | .call _ n args, hn, hr => by
      simp only [noCyc, Bool.and_eq_true] at hn
      simp only [Expr.refIdx, List.mem_append] at hr
      simp only [mapRefs, noCyc, Bool.and_eq_true]
      exact ⟨mapRefs_noCyc hg n hn.1 (fun j hj => hr j (.inl hj)),
        mapRefsList_noCyc hg args hn.2 (fun j hj => hr j (.inr hj))⟩
    | .ref p nm t, hn, hr => by
      simp only [noCyc] at hn
      simp only [mapRefs]
      exact hg p nm t hn hr
    | .list _ items, hn, hr => by
      simp only [noCyc] at hn
      simp only [Expr.refIdx] at hr
      simp only [mapRefs, noCyc]
      exact mapRefsList_noCyc hg items hn hr
    | .access _ l f, hn, hr => by
      simp only [noCyc, Bool.and_eq_true] at hn
      simp only [Expr.refIdx, List.mem_append] at hr
      simp only [mapRefs, noCyc, Bool.and_eq_true]
      exact ⟨mapRefs_noCyc hg l hn.1 (fun j hj => hr j (.inl hj)),
        mapRefs_noCyc hg f hn.2 (fun j hj => hr j (.inr hj))⟩
    | .cycle, hn, _ => by simp [noCyc] at hn
    | .field .., _, _ => by simp [mapRefs, noCyc]
    | .str .., _, _ => by simp [mapRefs, noCyc]
    | .name .., _, _ => by simp [mapRefs, noCyc]
    | .num .., _, _ => by simp [mapRefs, noCyc]
    | .float .., _, _ => by simp [mapRefs, noCyc]
    | .bool .., _, _ => by simp [mapRefs, noCyc]
  theorem mapRefsList_noCyc {tbl : Tbl} {R : Nat → Prop} {g : Nat → Bytes → Expr → Expr}
      (hg : ∀ p nm t, noCyc t = true → (∀ j ∈ (Expr.ref p nm t).refIdx tbl, R j) → noCyc (g p nm t) = true) :
      ∀ (xs : List Expr), noCycList xs = true → (∀ j ∈ Expr.refIdx.refIdxList tbl xs, R j) →
        noCycList (mapRefsList g xs) = true
    | [], _, _ => by simp [mapRefsList, noCycList]
    | x :: xs, hn, hr => by
      simp only [noCycList, Bool.and_eq_true] at hn
      simp only [Expr.refIdx.refIdxList, List.mem_append] at hr
      simp only [mapRefsList, noCycList, Bool.and_eq_true]
      exact ⟨mapRefs_noCyc hg x hn.1 (fun j hj => hr j (.inl hj)),
        mapRefsList_noCyc hg xs hn.2 (fun j hj => hr j (.inr hj))⟩
end

/-- the index test of `Expr.wf` on an `access` node -/
def idxOK : Expr → Bool
  | .num _ _ n => decide (0 ≤ n.toInt)
  | _ => true

theorem wf_access (p : Nat) (l f : Expr) : (Expr.access p l f).wf = (l.wf && idxOK f) := by
  cases f <;> simp [Expr.wf, idxOK]

theorem idxOK_mapRefs {g : Nat → Bytes → Expr → Expr} (hg : ∀ p nm t, idxOK (g p nm t) = true) :
    ∀ (f : Expr), idxOK f = true → idxOK (mapRefs g f) = true
  | .ref p nm t, _ => by simp only [mapRefs]; exact hg p nm t
  | .num .., h => by simpa [mapRefs] using h
  | .binop .., _ => by simp [mapRefs, idxOK]
  | .not .., _ => by simp [mapRefs, idxOK]
  | .call .., _ => by simp [mapRefs, idxOK]
  | .list .., _ => by simp [mapRefs, idxOK]
  | .access .., _ => by simp [mapRefs, idxOK]
  | .cycle, _ => by simp [mapRefs, idxOK]
  | .field .., _ => by simp [mapRefs, idxOK]
  | .str .., _ => by simp [mapRefs, idxOK]
  | .name .., _ => by simp [mapRefs, idxOK]
  | .float .., _ => by simp [mapRefs, idxOK]
  | .bool .., _ => by simp [mapRefs, idxOK]

mutual
  theorem mapRefs_wf {tbl : Tbl} {R : Nat → Prop} {g : Nat → Bytes → Expr → Expr}
      (hg : ∀ p nm t, t.wf = true → (∀ j ∈ (Expr.ref p nm t).refIdx tbl, R j) →
        (g p nm t).wf = true)
      (hi : ∀ p nm t, idxOK (g p nm t) = true) :
      ∀ (x : Expr), x.wf = true → (∀ j ∈ x.refIdx tbl, R j) → (mapRefs g x).wf = true
    | .binop _ _ l r, hn, hr => by
      simp only [Expr.wf, Bool.and_eq_true] at hn
      simp only [Expr.refIdx, List.mem_append] at hr
      simp only [mapRefs, Expr.wf, Bool.and_eq_true]
      exact ⟨mapRefs_wf hg hi l hn.1 (fun j hj => hr j (.inl hj)),
        mapRefs_wf hg hi r hn.2 (fun j hj => hr j (.inr hj))⟩
    | .not _ r, hn, hr => by
      simp only [Expr.wf] at hn
      simp only [Expr.refIdx] at hr
      simp only [mapRefs, Expr.wf]
      exact mapRefs_wf hg hi r hn hr
    | .call _ n args, hn, hr => by
      simp only [Expr.wf] at hn
      simp only [Expr.refIdx, List.mem_append] at hr
      simp only [mapRefs, Expr.wf]
      exact mapRefsList_wf hg hi args hn (fun j hj => hr j (.inr hj))
    | .ref p nm t, hn, hr => by
      simp only [Expr.wf] at hn
      simp only [mapRefs]
      exact hg p nm t hn hr
    | .list _ items, hn, hr => by
      simp only [Expr.wf] at hn
      simp only [Expr.refIdx] at hr
      simp only [mapRefs, Expr.wf]
      exact mapRefsList_wf hg hi items hn hr
    | .access p l f, hn, hr => by
      rw [wf_access, Bool.and_eq_true] at hn
      simp only [Expr.refIdx, List.mem_append] at hr
      simp only [mapRefs]
      rw [wf_access, Bool.and_eq_true]
      exact ⟨mapRefs_wf hg hi l hn.1 (fun j hj => hr j (.inl hj)), idxOK_mapRefs hi f hn.2⟩
    | .cycle, hn, _ => by simp [Expr.wf] at hn
    | .field .., _, _ => by simp [mapRefs, Expr.wf]
    | .str .., _, _ => by simp [mapRefs, Expr.wf]
    | .name .., _, _ => by simp [mapRefs, Expr.wf]
    | .num .., _, _ => by simp [mapRefs, Expr.wf]
    | .float .., _, _ => by simp [mapRefs, Expr.wf]
    | .bool .., _, _ => by simp [mapRefs, Expr.wf]
  theorem mapRefsList_wf {tbl : Tbl} {R : Nat → Prop} {g : Nat → Bytes → Expr → Expr}
      (hg : ∀ p nm t, t.wf = true → (∀ j ∈ (Expr.ref p nm t).refIdx tbl, R j) →
        (g p nm t).wf = true)
      (hi : ∀ p nm t, idxOK (g p nm t) = true) :
      ∀ (xs : List Expr), Expr.wfList xs = true → (∀ j ∈ Expr.refIdx.refIdxList tbl xs, R j) →
        Expr.wfList (mapRefsList g xs) = true
    | [], _, _ => by simp [mapRefsList, Expr.wfList]
    | x :: xs, hn, hr => by
      simp only [Expr.wfList, Bool.and_eq_true] at hn
      simp only [Expr.refIdx.refIdxList, List.mem_append] at hr
      simp only [mapRefsList, Expr.wfList, Bool.and_eq_true]
      exact ⟨mapRefs_wf hg hi x hn.1 (fun j hj => hr j (.inl hj)),
        mapRefsList_wf hg hi xs hn.2 (fun j hj => hr j (.inr hj))⟩
end

mutual
  theorem mapRefs_numsOK {g : Nat → Bytes → Expr → Expr}
      (hg : ∀ p nm t, numsOK t = true → numsOK (g p nm t) = true) :
      ∀ (x : Expr), numsOK x = true → numsOK (mapRefs g x) = true
    | .binop _ _ l r, hn => by
      simp only [numsOK, Bool.and_eq_true] at hn
      simp only [mapRefs, numsOK, Bool.and_eq_true]
      exact ⟨mapRefs_numsOK hg l hn.1, mapRefs_numsOK hg r hn.2⟩
    | .not _ r, hn => by
      simp only [numsOK] at hn
      simp only [mapRefs, numsOK]
      exact mapRefs_numsOK hg r hn
    | .call _ n args, hn => by
      simp only [numsOK, Bool.and_eq_true] at hn
      simp only [mapRefs, numsOK, Bool.and_eq_true]
      exact ⟨mapRefs_numsOK hg n hn.1, mapRefsList_numsOK hg args hn.2⟩
    | .ref p nm t, hn => by
      simp only [numsOK] at hn
      simp only [mapRefs]
      exact hg p nm t hn
    | .list _ items, hn => by
      simp only [numsOK] at hn
      simp only [mapRefs, numsOK]
      exact mapRefsList_numsOK hg items hn
    | .access _ l f, hn => by
      simp only [numsOK, Bool.and_eq_true] at hn
      simp only [mapRefs, numsOK, Bool.and_eq_true]
      exact ⟨mapRefs_numsOK hg l hn.1, mapRefs_numsOK hg f hn.2⟩
    | .cycle, _ => by simp [mapRefs, numsOK]
    | .field .., _ => by simp [mapRefs, numsOK]
    | .str .., _ => by simp [mapRefs, numsOK]
    | .name .., _ => by simp [mapRefs, numsOK]
    | .num .., hn => by simpa [mapRefs] using hn
    | .float .., _ => by simp [mapRefs, numsOK]
    | .bool .., _ => by simp [mapRefs, numsOK]
  theorem mapRefsList_numsOK {g : Nat → Bytes → Expr → Expr}
      (hg : ∀ p nm t, numsOK t = true → numsOK (g p nm t) = true) :
      ∀ (xs : List Expr), numsOKList xs = true → numsOKList (mapRefsList g xs) = true
    | [], _ => by simp [mapRefsList, numsOKList]
    | x :: xs, hn => by
      simp only [numsOKList, Bool.and_eq_true] at hn
      simp only [mapRefsList, numsOKList, Bool.and_eq_true]
      exact ⟨mapRefs_numsOK hg x hn.1, mapRefsList_numsOK hg xs hn.2⟩
end

mutual
  theorem mapRefs_refIdx {tbl2 : Tbl} {g : Nat → Bytes → Expr → Expr}
      (hg : ∀ p nm t, ∃ T, g p nm t = .ref p nm T) :
      ∀ (x : Expr), (mapRefs g x).refIdx tbl2 = x.refIdx tbl2
    | .binop _ _ l r => by
      simp only [mapRefs, Expr.refIdx, mapRefs_refIdx hg l, mapRefs_refIdx hg r]
    | .not _ r => by simp only [mapRefs, Expr.refIdx, mapRefs_refIdx hg r]
    | .call _ n args => by
      simp only [mapRefs, Expr.refIdx, mapRefs_refIdx hg n, mapRefsList_refIdx hg args]
    | .ref p nm t => by
      obtain ⟨T, hT⟩ := hg p nm t
      simp only [mapRefs, hT, Expr.refIdx]
    | .list _ items => by simp only [mapRefs, Expr.refIdx, mapRefsList_refIdx hg items]
    | .access _ l f => by
      simp only [mapRefs, Expr.refIdx, mapRefs_refIdx hg l, mapRefs_refIdx hg f]
    | .cycle => by simp [mapRefs]
    | .field .. => by simp [mapRefs]
    | .str .. => by simp [mapRefs]
    | .name .. => by simp [mapRefs]
    | .num .. => by simp [mapRefs]
    | .float .. => by simp [mapRefs]
    | .bool .. => by simp [mapRefs]
  theorem mapRefsList_refIdx {tbl2 : Tbl} {g : Nat → Bytes → Expr → Expr}
      (hg : ∀ p nm t, ∃ T, g p nm t = .ref p nm T) :
      ∀ (xs : List Expr), Expr.refIdx.refIdxList tbl2 (mapRefsList g xs) = Expr.refIdx.refIdxList tbl2 xs
    | [] => by simp [mapRefsList]
    | x :: xs => by
      simp only [mapRefsList, Expr.refIdx.refIdxList, mapRefs_refIdx hg x, mapRefsList_refIdx hg xs]
end

mutual
  theorem wf_of_clean_aux : ∀ (e : Expr), noCyc e = true → numsOK e = true → e.wf = true
    | .binop _ _ l r, hn, hm => by
      simp only [noCyc, Bool.and_eq_true] at hn
      simp only [numsOK, Bool.and_eq_true] at hm
      simp only [Expr.wf, Bool.and_eq_true]
      exact ⟨wf_of_clean_aux l hn.1 hm.1, wf_of_clean_aux r hn.2 hm.2⟩
    | .not _ r, hn, hm => by
      simp only [noCyc] at hn
      simp only [numsOK] at hm
      simp only [Expr.wf]
      exact wf_of_clean_aux r hn hm
    | .call _ n args, hn, hm => by
      simp only [noCyc, Bool.and_eq_true] at hn
      simp only [numsOK, Bool.and_eq_true] at hm
      simp only [Expr.wf]
      exact wfList_of_clean_aux args hn.2 hm.2
    | .ref _ _ t, hn, hm => by
      simp only [noCyc] at hn
      simp only [numsOK] at hm
      simp only [Expr.wf]
      exact wf_of_clean_aux t hn hm
    | .list _ items, hn, hm => by
      simp only [noCyc] at hn
      simp only [numsOK] at hm
      simp only [Expr.wf]
      exact wfList_of_clean_aux items hn hm
    | .access p l f, hn, hm => by
      simp only [noCyc, Bool.and_eq_true] at hn
      simp only [numsOK, Bool.and_eq_true] at hm
      rw [wf_access, Bool.and_eq_true]
      refine ⟨wf_of_clean_aux l hn.1 hm.1, ?_⟩
      have := hm.2
      cases f <;> first | rfl | (simpa [idxOK, numsOK] using this)
    | .cycle, hn, _ => by simp [noCyc] at hn
    | .field .., _, _ => by simp [Expr.wf]
    | .str .., _, _ => by simp [Expr.wf]
    | .name .., _, _ => by simp [Expr.wf]
    | .num .., _, _ => by simp [Expr.wf]
    | .float .., _, _ => by simp [Expr.wf]
    | .bool .., _, _ => by simp [Expr.wf]
  theorem wfList_of_clean_aux : ∀ (es : List Expr), noCycList es = true → numsOKList es = true →
      Expr.wfList es = true
    | [], _, _ => by simp [Expr.wfList]
    | e :: es, hn, hm => by
      simp only [noCycList, Bool.and_eq_true] at hn
      simp only [numsOKList, Bool.and_eq_true] at hm
      simp only [Expr.wfList, Bool.and_eq_true]
      exact ⟨wf_of_clean_aux e hn.1 hm.1, wfList_of_clean_aux es hn.2 hm.2⟩
end

/-! ### `resolve` over a ranked table -/

theorem idxOK_rg (tbl : Tbl) (fuel : Nat) (path : List Nat) (p : Nat) (nm : Bytes) (t : Expr) :
    idxOK (rg tbl fuel path p nm t) = true := by
  simp only [rg]
  split
  · split <;> rfl
  · rfl

/-- the shape of the induction for `noCyc` and `Expr.wf`: `W` is one of the two -/
theorem resolve_ranked {tbl : Tbl} {rank : Nat → Nat} (hrk : Ranked tbl rank) (W : Expr → Bool)
    (hWref : ∀ p nm t, W (.ref p nm t) = W t)
    (hmap : ∀ (R : Nat → Prop) (g : Nat → Bytes → Expr → Expr),
      (∀ p nm t, W t = true → (∀ j ∈ (Expr.ref p nm t).refIdx tbl, R j) → W (g p nm t) = true) →
      (∀ p nm t, idxOK (g p nm t) = true) →
      ∀ (x : Expr), W x = true → (∀ j ∈ x.refIdx tbl, R j) → W (mapRefs g x) = true)
    (hent : ∀ (j : Nat) (nm : Bytes) (f : Expr), tbl[j]? = some (nm, f) → W f = true) :
    ∀ (fuel : Nat) (path : List Nat) (x : Expr), W x = true →
      (∀ j ∈ x.refIdx tbl, ∀ q ∈ path, rank j < rank q) → W (resolve tbl fuel path x) = true
  | 0, _, x, hx, _ => by simpa [resolve] using hx
  | fuel + 1, path, x, hx, hr => by
    rw [resolve_succ]
    refine hmap (fun j => ∀ q ∈ path, rank j < rank q) _ ?_ (idxOK_rg tbl fuel path) x hx hr
    intro p nm t ht hR
    simp only [rg]
    cases hfind : tbl.find nm with
    | none => dsimp only; rw [hWref]; exact ht
    | some ic =>
      obtain ⟨i, cur⟩ := ic
      dsimp only
      have hi : ∀ q ∈ path, rank i < rank q := hR i (by simp [Expr.refIdx, hfind])
      have hc : path.contains i = false := by
        cases hcc : path.contains i with
        | false => rfl
        | true =>
          have := hi i (by simpa using hcc)
          omega
      rw [hc]
      simp only [Bool.false_eq_true, if_false]
      rw [hWref]
      obtain ⟨n, hget⟩ := find_get hfind
      apply resolve_ranked hrk W hWref hmap hent fuel (i :: path) cur (hent i n cur hget)
      intro j hj q hq
      have hji : rank j < rank i := hrk i j ⟨n, cur, hget, hj⟩
      simp only [List.mem_cons] at hq
      rcases hq with rfl | hq
      · exact hji
      · exact Nat.lt_trans hji (hi q hq)

theorem resolve_numsOK {tbl : Tbl}
    (hent : ∀ (j : Nat) (nm : Bytes) (f : Expr), tbl[j]? = some (nm, f) → numsOK f = true) :
    ∀ (fuel : Nat) (path : List Nat) (x : Expr), numsOK x = true → numsOK (resolve tbl fuel path x) = true
  | 0, _, x, hx => by simpa [resolve] using hx
  | fuel + 1, path, x, hx => by
    rw [resolve_succ]
    refine mapRefs_numsOK ?_ x hx
    intro p nm t ht
    simp only [rg]
    cases hfind : tbl.find nm with
    | none => dsimp only; simpa [numsOK] using ht
    | some ic =>
      obtain ⟨i, cur⟩ := ic
      dsimp only
      split
      · simp [numsOK]
      · simp only [numsOK]
        obtain ⟨n, hget⟩ := find_get hfind
        exact resolve_numsOK hent fuel (i :: path) cur (hent i n cur hget)

theorem rg_nil_ref (tbl : Tbl) (fuel : Nat) (p : Nat) (nm : Bytes) (t : Expr) :
    ∃ T, rg tbl fuel [] p nm t = .ref p nm T := by
  simp only [rg]
  split
  · rename_i i cur _
    exact ⟨resolve tbl fuel [i] cur, by simp only [List.contains_nil, Bool.false_eq_true, if_false]⟩
  · exact ⟨_, rfl⟩

end Kvql.Proofs.RunNoPanic
