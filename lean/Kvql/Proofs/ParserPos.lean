/-
  parse_err_pos (C17, first half): every position carried by an error of the front end is
  -1 (`none`), 0, or the offset of one of the query's tokens.

  Invariant: every `Pos` stored in a node the parser or the checker produces satisfies `S`,
  where `S p` is "p = 0 or p is the offset of a token of the input"; errors only ever take
  their position from a token or from a node (`GetPos()`).
-/
import Kvql.Proofs.ParserBasic

namespace Kvql.Proofs.ParserPos

open Kvql Kvql.Parser Kvql.Generated

section
variable (S : Nat → Prop)

mutual
  /-- every position stored in the tree satisfies `S` -/
  def PosOK : Expr → Prop
    | .binop p _ l r => S p ∧ PosOK l ∧ PosOK r
    | .field p _ => S p
    | .str p _ => S p
    | .not p r => S p ∧ PosOK r
    | .call p n args => S p ∧ PosOK n ∧ PosOKs args
    | .name p _ => S p
    | .ref p _ t => S p ∧ PosOK t
    | .cycle => True
    | .num p _ _ => S p
    | .float p _ _ => S p
    | .bool p _ _ => S p
    | .list p items => S p ∧ PosOKs items
    | .access p l f => S p ∧ PosOK l ∧ PosOK f
  def PosOKs : List Expr → Prop
    | [] => True
    | e :: es => PosOK e ∧ PosOKs es
end

theorem posOKs_iff (es : List Expr) : PosOKs S es ↔ ∀ e ∈ es, PosOK S e := by
  induction es with
  | nil => simp [PosOKs]
  | cons a rest ih => simp [PosOKs, ih]

theorem posOKs_append {a b : List Expr} (ha : PosOKs S a) (hb : PosOKs S b) : PosOKs S (a ++ b) := by
  rw [posOKs_iff] at *
  intro e he
  rcases List.mem_append.mp he with h | h
  · exact ha e h
  · exact hb e h

theorem pos_of_posOK (h0 : S 0) {e : Expr} (h : PosOK S e) : S e.pos := by
  cases e <;> simp_all [PosOK, Expr.pos]

/-- every token of the list has a position in `S` -/
def TokS (ts : Toks) : Prop := ∀ t ∈ ts, S t.pos

theorem TokS.tail {t : Token} {rest : Toks} (h : TokS S (t :: rest)) : TokS S rest :=
  fun x hx => h x (List.mem_cons_of_mem _ hx)
theorem TokS.head {t : Token} {rest : Toks} (h : TokS S (t :: rest)) : S t.pos :=
  h t (List.mem_cons_self ..)
theorem TokS.nil : TokS S [] := fun _ h => by simp at h

/-- the positions an error may carry -/
def EOK : PErr → Prop
  | .syntax none => True
  | .syntax (some p) => S p
  | .cycle p => S p
  | .nest => True

/-- `Q` on success, a position in `S` on error; panics and fuel are not this file's business -/
abbrev Pos {α : Type} (r : Res α) (Q : α → Prop) : Prop := r.Holds Q (EOK S) (fun _ => True) True

def XT (p : Expr × Toks) : Prop := PosOK S p.1 ∧ TokS S p.2

theorem expect_pos (tp : Nat) {ts : Toks} (h : TokS S ts) : Pos S (expect tp ts) (TokS S) := by
  unfold expect
  split
  · simp [EOK]
  · split
    · simpa [EOK] using h.head
    · simpa using h.tail

theorem buildOp_pos {p : Nat} (hp : S p) (s : String) : Pos S (buildOp p s) (fun _ => True) := by
  unfold buildOp; split <;> simp [EOK, hp]

variable (pf : Bytes → F64)

structure IH (fuel : Nat) : Prop where
  binary : ∀ lev prec ts, TokS S ts → Pos S (parseBinaryExpr pf fuel lev prec ts) (XT S)
  bloop : ∀ lev prec x ts, PosOK S x → TokS S ts → Pos S (binaryLoop pf fuel lev prec x ts) (XT S)
  unary : ∀ lev ts, TokS S ts → Pos S (parseUnaryExpr pf fuel lev ts) (XT S)
  primary : ∀ lev ts, TokS S ts → Pos S (parsePrimaryExpr pf fuel lev ts) (XT S)
  ploop : ∀ lev x ts, PosOK S x → TokS S ts → Pos S (primaryLoop pf fuel lev x ts) (XT S)
  operand : ∀ lev ts, TokS S ts → Pos S (parseOperand pf fuel lev ts) (XT S)
  items : ∀ lev close strict acc ts, PosOKs S acc → TokS S ts →
    Pos S (parseItems pf fuel lev close strict acc ts) (fun p => PosOKs S p.1 ∧ TokS S p.2)
  call : ∀ lev fn ts, PosOK S fn → TokS S ts → Pos S (parseFuncCall pf fuel lev fn ts) (XT S)
  access : ∀ lev pos l ts, S pos → PosOK S l → TokS S ts →
    Pos S (parseFieldAccess pf fuel lev pos l ts) (XT S)
  list : ∀ lev pos ts, S pos → TokS S ts → Pos S (parseList pf fuel lev pos ts) (XT S)
  between : ∀ lev pos oprec ts, S pos → TokS S ts → Pos S (parseBetween pf fuel lev pos oprec ts) (XT S)

theorem ih_zero : IH S pf 0 := by
  constructor <;> intros <;>
    simp [parseBinaryExpr, binaryLoop, parseUnaryExpr, parsePrimaryExpr, primaryLoop, parseOperand,
      parseItems, parseFuncCall, parseFieldAccess, parseList, parseBetween]

theorem step_binary {fuel : Nat} (ih : IH S pf fuel) (lev prec : Nat) (ts : Toks) (h : TokS S ts) :
    Pos S (parseBinaryExpr pf (fuel + 1) lev prec ts) (XT S) := by
  unfold parseBinaryExpr
  apply Res.Holds.bind (ih.unary lev ts h)
  rintro ⟨x, ts'⟩ ⟨hx, ht⟩
  exact ih.bloop _ _ _ _ hx ht

theorem step_bloop {fuel : Nat} (ih : IH S pf fuel) (lev prec : Nat) (x : Expr) (ts : Toks)
    (hx : PosOK S x) (h : TokS S ts) : Pos S (binaryLoop pf (fuel + 1) lev prec x ts) (XT S) := by
  unfold binaryLoop
  split
  · simp [EOK]
  · split
    · exact ⟨hx, TokS.nil S⟩
    · rename_i t rest
      dsimp only
      by_cases hp : t.prec < prec
      · rw [if_pos hp]; exact ⟨hx, h⟩
      · rw [if_neg hp]
        apply Res.Holds.bind (R := XT S)
        · split
          · split
            · simp [EOK]
            · split
              · exact ih.list _ _ _ h.head h.tail
              · exact ih.binary _ _ _ h.tail
          · split
            · exact ih.between _ _ _ _ h.head h.tail
            · exact ih.binary _ _ _ h.tail
        · rintro ⟨y, ts'⟩ ⟨hy, ht⟩
          apply Res.Holds.bind (buildOp_pos S h.head _)
          intro op _
          exact ih.bloop _ _ _ _ ⟨h.head, hx, hy⟩ ht

theorem step_unary {fuel : Nat} (ih : IH S pf fuel) (lev : Nat) (ts : Toks) (h : TokS S ts) :
    Pos S (parseUnaryExpr pf (fuel + 1) lev ts) (XT S) := by
  unfold parseUnaryExpr
  split
  · simp [EOK]
  · rename_i t rest
    split
    · apply Res.Holds.bind (ih.unary _ rest h.tail)
      rintro ⟨y, ts'⟩ ⟨hy, ht⟩
      exact ⟨⟨h.head, hy⟩, ht⟩
    · exact ih.primary _ _ h

theorem step_primary {fuel : Nat} (ih : IH S pf fuel) (lev : Nat) (ts : Toks) (h : TokS S ts) :
    Pos S (parsePrimaryExpr pf (fuel + 1) lev ts) (XT S) := by
  unfold parsePrimaryExpr
  apply Res.Holds.bind (ih.operand lev ts h)
  rintro ⟨x, ts'⟩ ⟨hx, ht⟩
  exact ih.ploop _ _ _ hx ht

theorem step_ploop {fuel : Nat} (ih : IH S pf fuel) (lev : Nat) (x : Expr) (ts : Toks)
    (hx : PosOK S x) (h : TokS S ts) : Pos S (primaryLoop pf (fuel + 1) lev x ts) (XT S) := by
  unfold primaryLoop
  split
  · exact ⟨hx, TokS.nil S⟩
  · rename_i t rest
    split
    · split
      · simp
      · apply Res.Holds.bind (ih.call _ _ _ hx h)
        rintro ⟨y, ts'⟩ ⟨hy, ht⟩
        exact ih.ploop _ _ _ hy ht
    · split
      · apply Res.Holds.bind (ih.access _ _ _ _ h.head hx h)
        rintro ⟨y, ts'⟩ ⟨hy, ht⟩
        exact ih.ploop _ _ _ hy ht
      · exact ⟨hx, h⟩

theorem step_operand {fuel : Nat} (ih : IH S pf fuel) (lev : Nat) (ts : Toks) (h : TokS S ts) :
    Pos S (parseOperand pf (fuel + 1) lev ts) (XT S) := by
  unfold parseOperand
  split
  · simp
  · rename_i t rest
    have hh := h.head
    have ht := h.tail
    repeat' split
    all_goals try (first
      | exact ⟨hh, ht⟩
      | (simpa [EOK] using hh))
    apply Res.Holds.bind (ih.binary _ _ rest ht)
    rintro ⟨y, ts'⟩ ⟨hy, ht'⟩
    apply Res.Holds.bind (expect_pos S _ ht')
    intro ts'' h2
    exact ⟨hy, h2⟩

theorem step_items {fuel : Nat} (ih : IH S pf fuel) (lev close : Nat) (strict : Bool) (acc : List Expr)
    (ts : Toks) (hacc : PosOKs S acc) (h : TokS S ts) :
    Pos S (parseItems pf (fuel + 1) lev close strict acc ts) (fun p => PosOKs S p.1 ∧ TokS S p.2) := by
  unfold parseItems
  split
  · exact ⟨hacc, TokS.nil S⟩
  · rename_i t rest
    split
    · exact ⟨hacc, h⟩
    · apply Res.Holds.bind (ih.binary _ _ _ h)
      rintro ⟨y, ts'⟩ ⟨hy, ht⟩
      dsimp only
      have hacc' : PosOKs S (acc ++ [y]) := posOKs_append S hacc ⟨hy, trivial⟩
      split
      · exact ⟨hacc', TokS.nil S⟩
      · rename_i t1 rest1
        split
        · exact ⟨hacc', ht⟩
        · split
          · simpa [EOK] using TokS.head S ht
          · exact ih.items _ _ _ _ rest1 hacc' (TokS.tail S ht)

theorem step_call {fuel : Nat} (ih : IH S pf fuel) (lev : Nat) (fn : Expr) (ts : Toks)
    (h0 : S 0) (hfn : PosOK S fn) (h : TokS S ts) :
    Pos S (parseFuncCall pf (fuel + 1) lev fn ts) (XT S) := by
  unfold parseFuncCall
  apply Res.Holds.bind (expect_pos S _ h)
  intro ts1 h1
  apply Res.Holds.bind (ih.items _ _ _ [] ts1 (by simp [PosOKs]) h1)
  rintro ⟨args, ts2⟩ ⟨ha, h2⟩
  apply Res.Holds.bind (expect_pos S _ h2)
  intro ts3 h3
  exact ⟨⟨pos_of_posOK S h0 hfn, hfn, ha⟩, h3⟩

theorem step_access {fuel : Nat} (ih : IH S pf fuel) (lev pos : Nat) (l : Expr) (ts : Toks)
    (hp : S pos) (hl : PosOK S l) (h : TokS S ts) :
    Pos S (parseFieldAccess pf (fuel + 1) lev pos l ts) (XT S) := by
  unfold parseFieldAccess
  apply Res.Holds.bind (expect_pos S _ h)
  intro ts1 h1
  apply Res.Holds.bind (ih.items _ _ _ [] ts1 (by simp [PosOKs]) h1)
  rintro ⟨args, ts2⟩ ⟨ha, h2⟩
  apply Res.Holds.bind (expect_pos S _ h2)
  intro ts3 h3
  split
  · exact ⟨⟨hp, hl, ha.1⟩, h3⟩
  · simpa [EOK] using hp

theorem step_list {fuel : Nat} (ih : IH S pf fuel) (lev pos : Nat) (ts : Toks) (hp : S pos)
    (h : TokS S ts) : Pos S (parseList pf (fuel + 1) lev pos ts) (XT S) := by
  unfold parseList
  apply Res.Holds.bind (expect_pos S _ h)
  intro ts1 h1
  apply Res.Holds.bind (ih.items _ _ _ [] ts1 (by simp [PosOKs]) h1)
  rintro ⟨args, ts2⟩ ⟨ha, h2⟩
  apply Res.Holds.bind (expect_pos S _ h2)
  intro ts3 h3
  exact ⟨⟨hp, ha⟩, h3⟩

theorem step_between {fuel : Nat} (ih : IH S pf fuel) (lev pos oprec : Nat) (ts : Toks) (hp : S pos)
    (h : TokS S ts) : Pos S (parseBetween pf (fuel + 1) lev pos oprec ts) (XT S) := by
  unfold parseBetween
  apply Res.Holds.bind (ih.binary _ _ ts h)
  rintro ⟨lo, ts1⟩ ⟨hlo, h1⟩
  apply Res.Holds.bind (expect_pos S _ h1)
  intro ts2 h2
  apply Res.Holds.bind (ih.binary _ _ ts2 h2)
  rintro ⟨hi, ts3⟩ ⟨hhi, h3⟩
  exact ⟨⟨hp, hlo, hhi, trivial⟩, h3⟩

theorem expr_pos (h0 : S 0) : ∀ fuel, IH S pf fuel := by
  intro fuel
  induction fuel with
  | zero => exact ih_zero S pf
  | succ n ih =>
    exact {
      binary := step_binary S pf ih, bloop := step_bloop S pf ih, unary := step_unary S pf ih,
      primary := step_primary S pf ih, ploop := step_ploop S pf ih,
      operand := step_operand S pf ih, items := step_items S pf ih,
      call := fun lev fn ts => step_call S pf ih lev fn ts h0,
      access := step_access S pf ih, list := step_list S pf ih, between := step_between S pf ih }

end

end Kvql.Proofs.ParserPos
