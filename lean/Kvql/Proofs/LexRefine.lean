/-
  Refinement proof: the statement-by-statement model of `Lexer.Split`
  (`Kvql.Lexer.split`) computes exactly the reference tokenizer `Kvql.Spec.lex`,
  for every byte string; and the slice bounds used by the Go code are in range.
-/
import Kvql.Spec.Lex

namespace Kvql.Proofs.LexRefine

open Kvql Kvql.Lexer Kvql.Spec Kvql.Generated

/-! ### Byte classes -/

theorem forall_uint8 {P : UInt8 → Prop} (h : ∀ n, n < 256 → P (UInt8.ofNat n)) : ∀ c, P c := by
  intro c
  have := h c.toNat (UInt8.toNat_lt c)
  simpa using this

set_option maxRecDepth 100000 in
theorem blank_spec : ∀ c : UInt8, specBlank c = isBlank c := by
  apply forall_uint8; decide

set_option maxRecDepth 100000 in
theorem blank_space : ∀ c : UInt8, isSpaceByte c = isBlank c := by
  apply forall_uint8; decide

set_option maxRecDepth 100000 in
theorem blank_excl : ∀ c : UInt8, isBlank c = true →
    (isQuote c || isBackquote c) = false ∧ isOpChar c = false ∧ isPunct c = false ∧
    isSep c = false ∧ isOp2Lead c = false := by
  apply forall_uint8; decide

set_option maxRecDepth 100000 in
theorem quote_excl : ∀ c : UInt8, (isQuote c || isBackquote c) = true →
    isBlank c = false ∧ isOp2Lead c = false := by
  apply forall_uint8; decide

set_option maxRecDepth 100000 in
theorem op_excl : ∀ c : UInt8, isOpChar c = true →
    isBlank c = false ∧ (isQuote c || isBackquote c) = false := by
  apply forall_uint8; decide

set_option maxRecDepth 100000 in
theorem op2_excl : ∀ c : UInt8, isOp2Lead c = true →
    isOpChar c = true ∧ (c == 61) = false := by
  apply forall_uint8; decide

set_option maxRecDepth 100000 in
theorem op1_excl : ∀ c : UInt8, isOp1 c = true → (c == 61) = false := by
  apply forall_uint8; decide

set_option maxRecDepth 100000 in
theorem punct_excl : ∀ c : UInt8, (isPunct c || isSep c) = true →
    isBlank c = false ∧ (isQuote c || isBackquote c) = false ∧ isOpChar c = false ∧
    isOp2Lead c = false := by
  apply forall_uint8; decide

set_option maxRecDepth 100000 in
theorem punct_tp : ∀ c : UInt8, isPunct c = true →
    (if c == 40 then tkLPAREN else if c == 41 then tkRPAREN
      else if c == 91 then tkLBRACK else if c == 93 then tkRBRACK else tkOPERATOR) = punctTp c := by
  apply forall_uint8; decide

set_option maxRecDepth 100000 in
theorem sep_tp : ∀ c : UInt8, isPunct c = false → isSep c = true →
    (if c == 44 then tkSEP else tkSEMI) = punctTp c := by
  apply forall_uint8; decide

set_option maxRecDepth 100000 in
theorem word_excl : ∀ c : UInt8, isOpChar c = false → isOp2Lead c = false := by
  apply forall_uint8; decide

/-! ### `trimSpace`, `buildToken`, `slice` -/

theorem dropWhile_self {p : UInt8 → Bool} {l : Bytes} (h : ∀ c ∈ l, p c = false) :
    l.dropWhile p = l := by
  cases l with
  | nil => rfl
  | cons a t => simp [h a (by simp)]

theorem trimSpace_self {w : Bytes} (h : ∀ c ∈ w, isBlank c = false) : trimSpace w = w := by
  have h' : ∀ c ∈ w, isSpaceByte c = false := fun c hc => by rw [blank_space]; exact h c hc
  unfold trimSpace
  rw [dropWhile_self h', dropWhile_self (by simpa using h')]
  simp

theorem pushOpt_build (r : List Token) (x : Bytes) (p : Nat) :
    pushOpt r (buildToken x p) = r ++ wordTok (trimSpace x) p := by
  unfold buildToken wordTok
  generalize trimSpace x = t
  cases t <;> simp [pushOpt, toLower]

theorem slice_zero (q : Bytes) (s : Nat) : slice q s 0 = [] := by simp [slice]

theorem slice_pre (pre rest : Bytes) (s l : Nat) (h : s + l = pre.length) :
    slice (pre ++ rest) s l = pre.drop s := by
  unfold slice
  rw [List.drop_append_of_le_length (by omega)]
  rw [List.take_append_of_le_length (by simp; omega)]
  rw [List.take_of_length_le (by simp; omega)]

theorem slice_mid (a b d : Bytes) (s l : Nat) (hs : s = a.length) (hl : l = b.length) :
    slice (a ++ (b ++ d)) s l = b := by
  subst hs; subst hl; simp [slice]

theorem flush_zero (q : Bytes) (st : State) (h : st.tokLen = 0) : flushWord q st = st.ret := by
  simp [flushWord, h, slice_zero, buildToken, trimSpace, toLower, pushOpt]

theorem literalBody_eq {qc : UInt8} {s body after : Bytes}
    (h : literalBody qc s = some (body, after)) : s = body ++ qc :: after := by
  induction s generalizing body after with
  | nil => simp [literalBody] at h
  | cons c rest ih =>
    unfold literalBody at h
    split at h
    · rename_i hc
      cases h
      simp at hc
      simp [hc]
    · cases hb : literalBody qc rest with
      | none => simp [hb] at h
      | some p =>
        obtain ⟨b, a⟩ := p
        simp [hb] at h
        obtain ⟨h1, h2⟩ := h
        subst h1; subst h2
        simp [ih hb]

/-! ### One step of the model, by case -/

theorem step_blank (q : Bytes) (st : State) (i : Nat) (c n : UInt8)
    (hb : isBlank c = true) (hs : st.strStart = false) :
    step q st i c n =
      { st with ret := flushWord q st, tokLen := 0, tokStartPos := i + 1, tokStart := i + 1,
                prev := c } := by
  simp [step, hb, hs]

theorem step_open (q : Bytes) (st : State) (i : Nat) (c n : UInt8)
    (hqt : (isQuote c || isBackquote c) = true) (hs : st.strStart = false) :
    step q st i c n =
      { st with ret := flushWord q st, tokLen := 0, strStart := true, strStartChar := c,
                tokStartPos := i, tokStart := i + 1, prev := c } := by
  have hb := (quote_excl c hqt).1
  simp only [step, hb, hqt, hs]
  simp

theorem step_lit_other (q : Bytes) (st : State) (i : Nat) (c n : UInt8)
    (hs : st.strStart = true) (hne : (st.strStartChar == c) = false) :
    step q st i c n = { st with tokLen := st.tokLen + 1, prev := c } := by
  simp only [step, hs, hne]
  simp

theorem step_lit_close (q : Bytes) (st : State) (i : Nat) (c n : UInt8)
    (hqt : (isQuote c || isBackquote c) = true)
    (hs : st.strStart = true) (he : st.strStartChar = c) :
    step q st i c n =
      { st with strStart := false,
                ret := st.ret ++ [{ tp := if isQuote c then tkSTRING else tkNAME,
                                    data := slice q st.tokStart st.tokLen, pos := st.tokStartPos }],
                tokLen := 0, tokStartPos := i + 1, tokStart := i + 1, prev := c } := by
  have hb := (quote_excl c hqt).1
  simp only [step, hb, hqt, hs, he]
  simp

theorem step_op (q : Bytes) (st : State) (i : Nat) (c n : UInt8)
    (ho : isOpChar c = true) (hs : st.strStart = false) :
    step q st i c n =
      if (n != 61 && isOp1 c) = true then
        { st with ret := flushWord q st ++ [{ tp := tkOPERATOR, data := [c], pos := i }],
                  tokLen := 0, tokStartPos := i + 1, tokStart := i + 1, prev := c }
      else if (c == 61) = true then
        { st with ret := flushWord q st ++
                    [if isOp2Lead st.prev = true then
                       { tp := tkOPERATOR, data := [st.prev, 61], pos := i - 1 }
                     else { tp := tkOPERATOR, data := [61], pos := i }],
                  tokLen := 0, tokStartPos := i + 1, tokStart := i + 1, prev := c }
      else
        { st with ret := flushWord q st, tokLen := 0, tokStartPos := i + 1, tokStart := i + 1,
                  prev := c } := by
  obtain ⟨hb, hqt⟩ := op_excl c ho
  by_cases h1 : (n != 61 && isOp1 c) = true
  · rw [if_pos h1]
    simp only [isOp1] at h1
    simp [step, hb, hqt, ho, hs, h1]
  · rw [if_neg h1]
    simp only [isOp1] at h1
    by_cases h2 : (c == 61) = true
    · rw [if_pos h2]
      simp [step, hb, hqt, ho, hs, h1, h2, isOp2Lead]
    · rw [if_neg h2]
      simp [step, hb, hqt, ho, hs, h1, h2]

theorem step_punct (q : Bytes) (st : State) (i : Nat) (c n : UInt8)
    (hp : (isPunct c || isSep c) = true) (hs : st.strStart = false) :
    step q st i c n =
      { st with ret := flushWord q st ++ [{ tp := punctTp c, data := [c], pos := i }],
                tokLen := 0, tokStartPos := i + 1, tokStart := i + 1, prev := c } := by
  obtain ⟨hb, hqt, ho, _⟩ := punct_excl c hp
  by_cases hpp : isPunct c = true
  · simp only [step, hb, hqt, ho, hs, hpp, punct_tp c hpp]
    simp
  · have hpp' : isPunct c = false := by simpa using hpp
    have hse : isSep c = true := by simpa [hpp'] using hp
    simp only [step, hb, hqt, ho, hs, hpp', hse, sep_tp c hpp' hse]
    simp

theorem step_word (q : Bytes) (st : State) (i : Nat) (c n : UInt8)
    (hb : isBlank c = false) (hqt : (isQuote c || isBackquote c) = false)
    (ho : isOpChar c = false) (hp : (isPunct c || isSep c) = false) :
    step q st i c n = { st with tokLen := st.tokLen + 1, prev := c } := by
  have hp1 : isPunct c = false := by
    cases h : isPunct c <;> simp [h] at hp ⊢
  have hp2 : isSep c = false := by
    cases h : isSep c <;> simp [h] at hp ⊢
  simp only [step, hb, hqt, ho, hp1, hp2]
  simp

/-! ### Running the model through a literal -/

theorem run_lit_some (q : Bytes) (qc : UInt8) (hqt : (isQuote qc || isBackquote qc) = true) :
    ∀ (rest : Bytes) (st : State) (i : Nat) (body after : Bytes),
      st.strStart = true → st.strStartChar = qc →
      literalBody qc rest = some (body, after) →
      run q st i rest =
        run q { strStart := false, strStartChar := qc, tokStart := i + body.length + 1,
                tokLen := 0, tokStartPos := i + body.length + 1, prev := qc,
                ret := st.ret ++ [{ tp := if isQuote qc then tkSTRING else tkNAME,
                                    data := slice q st.tokStart (st.tokLen + body.length),
                                    pos := st.tokStartPos }] }
          (i + body.length + 1) after := by
  intro rest
  induction rest with
  | nil => intro st i body after _ _ h; simp [literalBody] at h
  | cons c rest ih =>
    intro st i body after hs hc h
    unfold literalBody at h
    split at h
    · rename_i hcq
      simp at hcq
      subst hcq
      cases h
      simp only [run]
      rw [step_lit_close q st i c _ hqt hs hc]
      simp [hc]
    · rename_i hcq
      cases hb : literalBody qc rest with
      | none => simp [hb] at h
      | some p =>
        obtain ⟨b, a⟩ := p
        simp [hb] at h
        obtain ⟨h1, h2⟩ := h
        subst h1; subst h2
        simp only [run]
        have hne : (st.strStartChar == c) = false := by
          rw [hc]; simp at hcq ⊢; exact fun h => hcq h.symm
        rw [step_lit_other q st i c _ hs hne]
        rw [ih _ (i + 1) b a (by simpa using hs) (by simpa using hc) hb]
        have e1 : i + 1 + b.length + 1 = i + (b.length + 1) + 1 := by omega
        have e2 : st.tokLen + 1 + b.length = st.tokLen + (b.length + 1) := by omega
        simp [e1, e2]

theorem run_lit_none (q : Bytes) (qc : UInt8) :
    ∀ (rest : Bytes) (st : State) (i : Nat),
      st.strStart = true → st.strStartChar = qc →
      literalBody qc rest = none →
      (run q st i rest).strStart = true ∧ (run q st i rest).tokStartPos = st.tokStartPos ∧
        (run q st i rest).ret = st.ret := by
  intro rest
  induction rest with
  | nil => intro st i hs _ _; simp [run, hs]
  | cons c rest ih =>
    intro st i hs hc h
    unfold literalBody at h
    split at h
    · simp at h
    · rename_i hcq
      cases hb : literalBody qc rest with
      | some p => simp [hb] at h
      | none =>
        simp only [run]
        have hne : (st.strStartChar == c) = false := by
          rw [hc]; simp at hcq ⊢; exact fun h => hcq h.symm
        rw [step_lit_other q st i c _ hs hne]
        have := ih { st with tokLen := st.tokLen + 1, prev := c } (i + 1) (by simpa using hs)
          (by simpa using hc) hb
        simpa using this

/-! ### The simulation invariant -/

/-- the tail of `split` after the loop -/
def finish (q : Bytes) (st : State) : List Token :=
  if st.strStart then pushOpt st.ret (buildToken (q.drop st.tokStartPos) st.tokStartPos)
  else if st.tokLen > 0 then flushWord q st else st.ret

theorem split_eq_finish (q : Bytes) : split q = finish q (run q {} 0 q) := rfl

/-- outside a literal, after consuming `pre`, with `rest` still to come and pending word `w` -/
structure Clean (pre rest : Bytes) (st : State) (w : Bytes) : Prop where
  hstr : st.strStart = false
  hpos : st.tokStartPos = st.tokStart
  hlen : st.tokStart + st.tokLen = pre.length
  hw : w = pre.drop st.tokStart
  hns : ∀ c ∈ w, isBlank c = false
  hprev : ∀ r, rest = 61 :: r → isOp2Lead st.prev = false

theorem Clean.fresh {pre rest : Bytes} {st : State} (h1 : st.strStart = false)
    (h2 : st.tokStartPos = pre.length) (h3 : st.tokStart = pre.length) (h4 : st.tokLen = 0)
    (h5 : ∀ r, rest = 61 :: r → isOp2Lead st.prev = false) : Clean pre rest st [] where
  hstr := h1
  hpos := by rw [h2, h3]
  hlen := by rw [h3, h4]; rfl
  hw := by rw [h3]; simp
  hns := by simp
  hprev := h5

theorem flush_eq {q pre rest : Bytes} {st : State} {w : Bytes} (hq : q = pre ++ rest)
    (hc : Clean pre rest st w) : flushWord q st = st.ret ++ wordTok w st.tokStartPos := by
  unfold flushWord
  rw [pushOpt_build, hq, slice_pre pre rest _ _ hc.hlen, ← hc.hw, trimSpace_self hc.hns]

theorem finish_clean {q pre rest : Bytes} {st : State} {w : Bytes} (hq : q = pre ++ rest)
    (hc : Clean pre rest st w) : finish q st = st.ret ++ wordTok w st.tokStartPos := by
  unfold finish
  rw [if_neg (by simp [hc.hstr])]
  split
  · exact flush_eq hq hc
  · rename_i h
    have h0 : st.tokLen = 0 := by omega
    have hl := hc.hlen
    have : w = [] := by rw [hc.hw]; apply List.drop_eq_nil_of_le; omega
    simp [this, wordTok]

/-! ### Specialised operator steps -/

theorem step_op_single (q : Bytes) (st : State) (i : Nat) (c n : UInt8)
    (ho : isOpChar c = true) (hs : st.strStart = false)
    (hn : (n != 61) = true) (h1 : isOp1 c = true) :
    step q st i c n =
      { st with ret := flushWord q st ++ [{ tp := tkOPERATOR, data := [c], pos := i }],
                tokLen := 0, tokStartPos := i + 1, tokStart := i + 1, prev := c } := by
  rw [step_op q st i c n ho hs, if_pos (by simp [hn, h1])]

theorem step_op_skip (q : Bytes) (st : State) (i : Nat) (c n : UInt8)
    (ho : isOpChar c = true) (hs : st.strStart = false)
    (h1 : (n != 61 && isOp1 c) = false) (h2 : (c == 61) = false) :
    step q st i c n =
      { st with ret := flushWord q st, tokLen := 0, tokStartPos := i + 1, tokStart := i + 1,
                prev := c } := by
  rw [step_op q st i c n ho hs, if_neg (by simp [h1]), if_neg (by simp [h2])]

theorem step_op_eq (q : Bytes) (st : State) (i : Nat) (n : UInt8)
    (hs : st.strStart = false) (hp : isOp2Lead st.prev = false) :
    step q st i 61 n =
      { st with ret := flushWord q st ++ [{ tp := tkOPERATOR, data := [61], pos := i }],
                tokLen := 0, tokStartPos := i + 1, tokStart := i + 1, prev := 61 } := by
  have h1 : isOp1 61 = false := by decide
  rw [step_op q st i 61 n (by decide) hs, if_neg (by simp [h1]), if_pos (by rfl),
    if_neg (by simp [hp])]

theorem step_op_eq2 (q : Bytes) (st : State) (i : Nat) (n : UInt8)
    (hs : st.strStart = false) (hp : isOp2Lead st.prev = true) :
    step q st i 61 n =
      { st with ret := flushWord q st ++ [{ tp := tkOPERATOR, data := [st.prev, 61], pos := i - 1 }],
                tokLen := 0, tokStartPos := i + 1, tokStart := i + 1, prev := 61 } := by
  have h1 : isOp1 61 = false := by decide
  rw [step_op q st i 61 n (by decide) hs, if_neg (by simp [h1]), if_pos (by rfl),
    if_pos hp]

/-! ### Unfolding the reference scanner on an operator byte -/

theorem lexFrom_op_A (fuel : Nat) (c : UInt8) (r : Bytes) (i : Nat) (w : Bytes) (p : Nat)
    (ho : isOpChar c = true) :
    lexFrom (fuel + 1) (c :: 61 :: r) i w p =
      if isOp2Lead c then
        wordTok w p ++ { tp := tkOPERATOR, data := [c, 61], pos := i } ::
          lexFrom fuel r (i + 2) [] (i + 2)
      else if c == 61 then
        wordTok w p ++ { tp := tkOPERATOR, data := [61], pos := i } ::
          lexFrom fuel (61 :: r) (i + 1) [] (i + 1)
      else wordTok w p ++ lexFrom fuel (61 :: r) (i + 1) [] (i + 1) := by
  obtain ⟨hb, hqt⟩ := op_excl c ho
  simp [lexFrom, blank_spec, hb, hqt, ho]

theorem lexFrom_op_B (fuel : Nat) (c : UInt8) (rest' : Bytes) (i : Nat) (w : Bytes) (p : Nat)
    (ho : isOpChar c = true) (hr : ¬ ∃ r, rest' = 61 :: r) :
    lexFrom (fuel + 1) (c :: rest') i w p =
      if isOp1 c || c == 61 then
        wordTok w p ++ { tp := tkOPERATOR, data := [c], pos := i } ::
          lexFrom fuel rest' (i + 1) [] (i + 1)
      else wordTok w p ++ lexFrom fuel rest' (i + 1) [] (i + 1) := by
  obtain ⟨hb, hqt⟩ := op_excl c ho
  cases rest' with
  | nil => simp [lexFrom, blank_spec, hb, hqt, ho]
  | cons d r =>
    have hd : d ≠ 61 := fun h => hr ⟨r, by rw [h]⟩
    simp [lexFrom, blank_spec, hb, hqt, ho, hd]

theorem headD_ne (rest' : Bytes) (hr : ¬ ∃ r, rest' = 61 :: r) : (rest'.headD 0 != 61) = true := by
  cases rest' with
  | nil => decide
  | cons d r =>
    have hd : d ≠ 61 := fun h => hr ⟨r, by rw [h]⟩
    simp [hd]

theorem op2_61 : isOp2Lead 61 = false := by decide

/-! ### The main simulation -/

/-- the shape of the induction hypothesis of `main` -/
def IH (q : Bytes) (fuel : Nat) : Prop :=
  ∀ (pre rest : Bytes) (st : State) (w : Bytes) (i : Nat),
    rest.length < fuel → q = pre ++ rest → i = pre.length → Clean pre rest st w →
    finish q (run q st i rest) = st.ret ++ lexFrom fuel rest i w st.tokStartPos

/-- continue after a byte that leaves no pending word -/
theorem advance_fresh {q : Bytes} {fuel : Nat} (ih : IH q fuel) {pre : Bytes} {c : UInt8}
    {rest' : Bytes} {i : Nat} (hq : q = pre ++ c :: rest') (hi : i = pre.length)
    (hfuel : rest'.length < fuel) (st' : State)
    (hF : st'.strStart = false ∧ st'.tokStartPos = i + 1 ∧ st'.tokStart = i + 1 ∧
      st'.tokLen = 0 ∧ ∀ r, rest' = 61 :: r → isOp2Lead st'.prev = false) :
    finish q (run q st' (i + 1) rest') = st'.ret ++ lexFrom fuel rest' (i + 1) [] (i + 1) := by
  obtain ⟨h1, h2, h3, h4, h5⟩ := hF
  have hi' : i + 1 = (pre ++ [c]).length := by simp [hi]
  have := ih (pre ++ [c]) rest' st' [] (i + 1) hfuel (by simp [hq]) hi'
    (Clean.fresh h1 (h2.trans hi') (h3.trans hi') h4 h5)
  rw [this, h2]

theorem main_op {q : Bytes} {fuel : Nat} (ih : IH q fuel) {pre : Bytes} {c : UInt8}
    {rest' : Bytes} {st : State} {w : Bytes} {i : Nat}
    (hfuel : rest'.length < fuel) (hq : q = pre ++ c :: rest') (hi : i = pre.length)
    (hc : Clean pre (c :: rest') st w) (ho : isOpChar c = true) :
    finish q (run q (step q st i c (rest'.headD 0)) (i + 1) rest') =
      st.ret ++ lexFrom (fuel + 1) (c :: rest') i w st.tokStartPos := by
  have hfl := flush_eq hq hc
  by_cases hr : ∃ r, rest' = 61 :: r
  · obtain ⟨r, rfl⟩ := hr
    rw [lexFrom_op_A fuel c r i w _ ho]
    by_cases h2 : isOp2Lead c = true
    · obtain ⟨_, hc61⟩ := op2_excl c h2
      rw [step_op_skip q st i c _ ho hc.hstr (by simp) hc61]
      simp only [run]
      rw [step_op_eq2 q { st with ret := flushWord q st, tokLen := 0, tokStartPos := i + 1,
                                   tokStart := i + 1, prev := c } (i + 1) _ hc.hstr h2,
        flush_zero q { st with ret := flushWord q st, tokLen := 0, tokStartPos := i + 1,
                                   tokStart := i + 1, prev := c } rfl]
      have hq2 : q = (pre ++ [c]) ++ 61 :: r := by simp [hq]
      have hi2 : i + 1 = (pre ++ [c]).length := by simp [hi]
      rw [advance_fresh ih hq2 hi2 (by simp at hfuel; omega)]
      · simp [h2, hfl]
      · exact ⟨hc.hstr, rfl, rfl, rfl, fun _ _ => op2_61⟩
    · have h2 : isOp2Lead c = false := by simpa using h2
      by_cases h61 : c = 61
      · subst h61
        rw [step_op_eq q st i _ hc.hstr (hc.hprev _ rfl)]
        rw [advance_fresh ih hq hi hfuel]
        · simp [h2, hfl]
        · exact ⟨hc.hstr, rfl, rfl, rfl, fun _ _ => op2_61⟩
      · have h61' : (c == 61) = false := by simpa using h61
        rw [step_op_skip q st i c _ ho hc.hstr (by simp) h61']
        rw [advance_fresh ih hq hi hfuel]
        · simp [h2, h61', hfl]
        · exact ⟨hc.hstr, rfl, rfl, rfl, fun _ _ => h2⟩
  · have hn := headD_ne rest' hr
    rw [lexFrom_op_B fuel c rest' i w _ ho hr]
    by_cases h1 : isOp1 c = true
    · rw [step_op_single q st i c _ ho hc.hstr hn h1]
      rw [advance_fresh ih hq hi hfuel]
      · simp [h1, hfl]
      · exact ⟨hc.hstr, rfl, rfl, rfl, fun r h => absurd ⟨r, h⟩ hr⟩
    · have h1 : isOp1 c = false := by simpa using h1
      by_cases h61 : c = 61
      · subst h61
        rw [step_op_eq q st i _ hc.hstr (hc.hprev _ rfl)]
        rw [advance_fresh ih hq hi hfuel]
        · simp [hfl]
        · exact ⟨hc.hstr, rfl, rfl, rfl, fun r h => absurd ⟨r, h⟩ hr⟩
      · have h61' : (c == 61) = false := by simpa using h61
        rw [step_op_skip q st i c _ ho hc.hstr (by simp [h1]) h61']
        rw [advance_fresh ih hq hi hfuel]
        · simp [h1, h61', hfl]
        · exact ⟨hc.hstr, rfl, rfl, rfl, fun r h => absurd ⟨r, h⟩ hr⟩

theorem main_quote {q : Bytes} {fuel : Nat} (ih : IH q fuel) {pre : Bytes} {c : UInt8}
    {rest' : Bytes} {st : State} {w : Bytes} {i : Nat}
    (hfuel : rest'.length < fuel) (hq : q = pre ++ c :: rest') (hi : i = pre.length)
    (hc : Clean pre (c :: rest') st w) (hqt : (isQuote c || isBackquote c) = true) :
    finish q (run q (step q st i c (rest'.headD 0)) (i + 1) rest') =
      st.ret ++ lexFrom (fuel + 1) (c :: rest') i w st.tokStartPos := by
  have hfl := flush_eq hq hc
  have hb := (quote_excl c hqt).1
  rw [step_open q st i c _ hqt hc.hstr]
  cases hlb : literalBody c rest' with
  | none =>
    obtain ⟨r1, r2, r3⟩ := run_lit_none q c rest'
      { st with ret := flushWord q st, tokLen := 0, strStart := true, strStartChar := c,
                tokStartPos := i, tokStart := i + 1, prev := c } (i + 1) rfl rfl hlb
    unfold finish
    rw [if_pos r1, r2, r3, pushOpt_build]
    have hd : q.drop i = c :: rest' := by rw [hq, hi]; simp
    simp [lexFrom, blank_spec, hb, hqt, hlb, hfl, hd]
  | some p =>
    obtain ⟨body, after⟩ := p
    rw [run_lit_some q c hqt rest' _ (i + 1) body after rfl rfl hlb]
    have hre := literalBody_eq hlb
    have hlen := literalBody_length hlb
    have hq2 : q = (pre ++ c :: body ++ [c]) ++ after := by simp [hq, hre]
    have hi2 : i + 1 + body.length + 1 = (pre ++ c :: body ++ [c]).length := by
      simp [hi]; omega
    have hsl : slice q (i + 1) body.length = body := by
      have : q = (pre ++ [c]) ++ (body ++ c :: after) := by simp [hq, hre]
      rw [this]
      exact slice_mid _ _ _ _ _ (by simp [hi]) (by simp)
    refine (ih (pre ++ c :: body ++ [c]) after _ [] _ (by omega) hq2 hi2
      (Clean.fresh rfl hi2 hi2 rfl (fun _ _ => (quote_excl c hqt).2))).trans ?_
    have e : i + 1 + body.length + 1 = i + body.length + 2 := by omega
    simp [lexFrom, blank_spec, hb, hqt, hlb, hfl, hsl, e]

theorem main (q : Bytes) : ∀ fuel, IH q fuel := by
  intro fuel
  induction fuel with
  | zero => intro _ _ _ _ _ h; omega
  | succ fuel ih =>
    intro pre rest st w i hfuel hq hi hc
    cases rest with
    | nil =>
      simp only [run, lexFrom]
      exact finish_clean hq hc
    | cons c rest' =>
      have hfl := flush_eq hq hc
      have hfuel' : rest'.length < fuel := by simpa using hfuel
      simp only [run]
      by_cases hb : isBlank c = true
      · -- blank
        rw [step_blank q st i c _ hb hc.hstr]
        rw [advance_fresh ih hq hi hfuel']
        · simp [lexFrom, blank_spec, hb, hfl]
        · exact ⟨hc.hstr, rfl, rfl, rfl, fun r _ => (blank_excl c hb).2.2.2.2⟩
      · have hb : isBlank c = false := by simpa using hb
        by_cases hqt : (isQuote c || isBackquote c) = true
        · exact main_quote ih hfuel' hq hi hc hqt
        · have hqt : (isQuote c || isBackquote c) = false := by simpa using hqt
          by_cases ho : isOpChar c = true
          · exact main_op ih hfuel' hq hi hc ho
          · have ho : isOpChar c = false := by simpa using ho
            by_cases hp : (isPunct c || isSep c) = true
            · rw [step_punct q st i c _ hp hc.hstr]
              rw [advance_fresh ih hq hi hfuel']
              · simp [lexFrom, blank_spec, hb, hqt, ho, hp, hfl]
              · exact ⟨hc.hstr, rfl, rfl, rfl, fun r _ => (punct_excl c hp).2.2.2⟩
            · have hp : (isPunct c || isSep c) = false := by simpa using hp
              rw [step_word q st i c _ hb hqt ho hp]
              have hq' : q = (pre ++ [c]) ++ rest' := by simp [hq]
              have hi' : i + 1 = (pre ++ [c]).length := by simp [hi]
              have hcl : Clean (pre ++ [c]) rest' { st with tokLen := st.tokLen + 1, prev := c }
                  (w ++ [c]) := by
                have hl := hc.hlen
                refine ⟨hc.hstr, hc.hpos, ?_, ?_, ?_, fun r _ => word_excl c ho⟩
                · simp; omega
                · show w ++ [c] = (pre ++ [c]).drop st.tokStart
                  rw [List.drop_append_of_le_length (by omega), ← hc.hw]
                · intro d hd
                  simp at hd
                  rcases hd with hd | hd
                  · exact hc.hns d hd
                  · rw [hd]; exact hb
              rw [ih _ _ _ _ _ hfuel' hq' hi' hcl]
              simp [lexFrom, blank_spec, hb, hqt, ho, hp]

theorem split_eq_spec (q : Bytes) : Kvql.Lexer.split q = Kvql.Spec.lex q := by
  rw [split_eq_finish, Kvql.Spec.lex]
  have h := main q (q.length + 1) [] q {} [] 0 (by omega) (by simp) (by simp)
    (Clean.fresh rfl rfl rfl rfl (fun _ _ => by decide))
  simpa using h

/-! ### Slice bounds: `tokStart + tokLen = i` at the top of every loop iteration -/

theorem step_inv (q : Bytes) (st : State) (i : Nat) (c n : UInt8)
    (h : st.tokStart + st.tokLen = i) :
    (step q st i c n).tokStart + (step q st i c n).tokLen = i + 1 := by
  unfold step
  dsimp only
  repeat' split
  all_goals (simp only [] <;> omega)

theorem run_inv (q : Bytes) : ∀ (rest : Bytes) (st : State) (i : Nat),
    st.tokStart + st.tokLen = i →
    (run q st i rest).tokStart + (run q st i rest).tokLen = i + rest.length := by
  intro rest
  induction rest with
  | nil => intro st i h; simpa [run] using h
  | cons c rest ih =>
    intro st i h
    simp only [run]
    rw [ih _ (i + 1) (step_inv q st i c _ h)]
    simp; omega

/-- the sequence of loop states: element `k` is the state at the top of iteration `i + k`
    (the last one is the state after the loop) -/
def trace (q : Bytes) : State → Nat → Bytes → List State
  | st, _, [] => [st]
  | st, i, c :: rest => st :: trace q (step q st i c (rest.headD 0)) (i + 1) rest

theorem trace_length (q : Bytes) : ∀ (rest : Bytes) (st : State) (i : Nat),
    (trace q st i rest).length = rest.length + 1 := by
  intro rest
  induction rest with
  | nil => intro st i; rfl
  | cons c rest ih => intro st i; simp [trace, ih]

theorem trace_getLast (q : Bytes) : ∀ (rest : Bytes) (st : State) (i : Nat),
    (trace q st i rest).getLast? = some (run q st i rest) := by
  intro rest
  induction rest with
  | nil => intro st i; rfl
  | cons c rest ih =>
    intro st i
    have hne : trace q (step q st i c (rest.headD 0)) (i + 1) rest ≠ [] := by
      intro h
      have := trace_length q rest (step q st i c (rest.headD 0)) (i + 1)
      rw [h] at this; simp at this
    simp only [trace, run]
    rw [List.getLast?_cons_of_ne_nil hne]
    exact ih _ _

theorem trace_zero (q : Bytes) (rest : Bytes) (st : State) (i : Nat) :
    (trace q st i rest)[0]? = some st := by
  cases rest <;> rfl

/-- `trace` really is the sequence of loop states: each one is `step` of the previous one on
    the byte at that index, with the following byte (or 0) as look-ahead -/
theorem trace_succ (q : Bytes) : ∀ (rest : Bytes) (st : State) (i k : Nat) (hk : k < rest.length),
    ∃ s, (trace q st i rest)[k]? = some s ∧
      (trace q st i rest)[k + 1]? = some (step q s (i + k) rest[k] ((rest.drop (k + 1)).headD 0)) := by
  intro rest
  induction rest with
  | nil => intro st i k hk; simp at hk
  | cons c rest ih =>
    intro st i k hk
    cases k with
    | zero =>
      refine ⟨st, by simp [trace], ?_⟩
      simp [trace, trace_zero]
    | succ k =>
      obtain ⟨s, h1, h2⟩ := ih (step q st i c (rest.headD 0)) (i + 1) k (by simpa using hk)
      refine ⟨s, by simpa [trace] using h1, ?_⟩
      have e : i + 1 + k = i + (k + 1) := by omega
      simpa [trace, e] using h2

theorem trace_inv (q : Bytes) : ∀ (rest : Bytes) (st : State) (i : Nat),
    st.tokStart + st.tokLen = i →
    ∀ (k : Nat) (s : State), (trace q st i rest)[k]? = some s → s.tokStart + s.tokLen = i + k := by
  intro rest
  induction rest with
  | nil =>
    intro st i h k s hs
    cases k with
    | zero => simp [trace] at hs; subst hs; simpa using h
    | succ k => simp [trace] at hs
  | cons c rest ih =>
    intro st i h k s hs
    cases k with
    | zero => simp [trace] at hs; subst hs; simpa using h
    | succ k =>
      simp only [trace, List.getElem?_cons_succ] at hs
      have := ih _ (i + 1) (step_inv q st i c _ h) k s hs
      omega

/-- Every state the loop of `Split` goes through on input `q` — `k` bytes consumed — satisfies
    `tokStart + tokLen = k ≤ len(q)`; in particular `tokStart ≤ len(q)` and
    `min(tokLen, len(q) - tokStart) = tokLen`, so the Go slice expression
    `Query[tokStart : tokStart+min(tokLen, len-tokStart)]` is in range and equals `slice`. -/
theorem tokStart_le_all (q : Bytes) (k : Nat) (s : State)
    (hs : (trace q {} 0 q)[k]? = some s) :
    s.tokStart + s.tokLen = k ∧ k ≤ q.length ∧ s.tokStart ≤ q.length := by
  have h1 := trace_inv q q {} 0 rfl k s hs
  have h2 : k < (trace q {} 0 q).length := by
    rcases Nat.lt_or_ge k (trace q {} 0 q).length with h | h
    · exact h
    · rw [List.getElem?_eq_none h] at hs; cases hs
  rw [trace_length] at h2
  omega

theorem tokStart_le (q : Bytes) : (run q {} 0 q).tokStart ≤ q.length := by
  have := run_inv q q {} 0 rfl
  omega

theorem tokStart_add_tokLen (q : Bytes) :
    (run q {} 0 q).tokStart + (run q {} 0 q).tokLen = q.length := by
  simpa using run_inv q q {} 0 rfl

end Kvql.Proofs.LexRefine

