/-
  Whole-statement proofs for PUT and REMOVE over the end-to-end model (`Kvql.Run.runStmt` /
  `Kvql.Run.runQuery`, Model/Run.lean).

  `runStmt (.put pos pairs)` is `Plans.run (.put (putPairs c0 pairs))` — the plan model of C12 with its
  evaluation tables instantiated by the row evaluator `exec` under the statement's context
  `c0 = Ctx.new cache` — followed by `writeOutcome`.  The proofs
    * evaluate the tables: for an expression without alias reference `exec e kv (Ctx.new cache)` has the
      cache-free value, with the field cache on or off (C05 `row_cache_ok` on the empty cache);
    * identify `Plans.evalPairs ∘ putPairs` with the specification `putEval` (in order; each value on
      the pair (its own evaluated key, "")) and `putFirstErr` with its error;
    * apply C12 `run_put_ok` / `run_put_error` / `run_remove_ok` / `run_remove_error`.
-/
import Kvql.Model.Run
import Kvql.Proofs.PlanProofsWrite
import Kvql.Proofs.RunTables

namespace Kvql.Proofs.RunWrite
open Kvql Kvql.Run Kvql.Plans Kvql.Proofs.Plan Kvql.Proofs.Typing Kvql.Cache Kvql.Proofs.RunTables

/-! ### the specification: what the expressions of a PUT / REMOVE evaluate to -/

/-- `[]byte(toString(e.Execute(kv, ctx)))` with the cache switched off: the bytes an expression
    evaluates to on a pair, or the evaluator's error -/
def bytesOf (e : Expr) (kv : Kvql.Pair) : Except Kvql.Err Bytes :=
  match nocache e kv with
  | .ok v => .ok (toStringV v)
  | .error x => .error x

/-- the pairs a PUT writes: in order, the key expression on the empty pair, the value expression on
    the pair (ITS OWN evaluated key, ""); the first failure wins -/
def putEval : List (Expr × Expr) → Except Kvql.Err (List Storage.Pair)
  | [] => .ok []
  | (k, v) :: rest =>
    match bytesOf k emptyKv with
    | .error e => .error e
    | .ok key =>
      match bytesOf v ⟨key, []⟩ with
      | .error e => .error e
      | .ok val =>
        match putEval rest with
        | .error e => .error e
        | .ok kvs => .ok ((key, val) :: kvs)

/-- the keys a REMOVE names: in order, each key expression on the empty pair; the first failure wins -/
def removeEval : List Expr → Except Kvql.Err (List Bytes)
  | [] => .ok []
  | k :: rest =>
    match bytesOf k emptyKv with
    | .error e => .error e
    | .ok key =>
      match removeEval rest with
      | .error e => .error e
      | .ok ks => .ok (key :: ks)

/-- `putEval` read element by element: position by position the written pair is (value of the key
    expression, value of the value expression ON THAT KEY) -/
theorem putEval_forall2 : ∀ (pairs : List (Expr × Expr)) (kvps : List Storage.Pair), putEval pairs = .ok kvps →
    Forall2 (fun (e : Expr × Expr) (kv : Storage.Pair) =>
      bytesOf e.1 emptyKv = .ok kv.1 ∧ bytesOf e.2 ⟨kv.1, []⟩ = .ok kv.2) pairs kvps
  | [], kvps, h => by simp [putEval] at h; subst h; exact .nil
  | (k, v) :: rest, kvps, h => by
    simp only [putEval] at h
    split at h
    · cases h
    · rename_i key hk
      split at h
      · cases h
      · rename_i val hv
        split at h
        · cases h
        · rename_i kvs hr
          cases h
          exact .cons ⟨hk, hv⟩ (putEval_forall2 rest kvs hr)

theorem putEval_of_forall2 : ∀ (pairs : List (Expr × Expr)) (kvps : List Storage.Pair),
    Forall2 (fun (e : Expr × Expr) (kv : Storage.Pair) =>
      bytesOf e.1 emptyKv = .ok kv.1 ∧ bytesOf e.2 ⟨kv.1, []⟩ = .ok kv.2) pairs kvps → putEval pairs = .ok kvps
  | _, _, .nil => rfl
  | (k, v) :: rest, kv :: kvs, .cons h hr => by
    simp only [putEval, h.1, h.2, putEval_of_forall2 rest kvs hr]

theorem removeEval_forall2 : ∀ (keys : List Expr) (ks : List Bytes), removeEval keys = .ok ks →
    Forall2 (fun (e : Expr) (k : Bytes) => bytesOf e emptyKv = .ok k) keys ks
  | [], ks, h => by simp [removeEval] at h; subst h; exact .nil
  | k :: rest, ks, h => by
    simp only [removeEval] at h
    split at h
    · cases h
    · rename_i key hk
      split at h
      · cases h
      · rename_i ks' hr
        cases h
        exact .cons hk (removeEval_forall2 rest ks' hr)

/-! ### the evaluation tables of `runStmt` -/

theorem cacheOK_new (cache : Bool) (kv : Kvql.Pair) : CacheOK [] (Ctx.new cache) kv := .of_empty rfl

/-- the row evaluator under the statement's context, field cache on or off, has the cache-free value
    on an expression without alias reference (C05 `row_cache_ok`: the cache is empty) -/
theorem exec_new {e : Expr} (haf : aliasFree e = true) (kv : Kvql.Pair) (cache : Bool) :
    (exec e kv (Ctx.new cache)).1 = nocache e kv := by
  cases cache with
  | false => rfl
  | true => exact (row_cache_ok functional_nil e (wf_nil_of_af haf) kv (Ctx.new true) ctxOn_new (cacheOK_new true kv)).1

theorem evalBytes_new {e : Expr} (haf : aliasFree e = true) (kv : Kvql.Pair) (cache : Bool) :
    evalBytes e kv (Ctx.new cache) = bytesOf e kv := by
  unfold evalBytes bytesOf
  rw [exec_new haf kv cache]
  cases nocache e kv <;> rfl

/-- every key and value expression of the PUT is free of alias references -/
def putAliasFree (pairs : List (Expr × Expr)) : Bool := pairs.all (fun p => aliasFree p.1 && aliasFree p.2)

def removeAliasFree (keys : List Expr) : Bool := keys.all aliasFree

theorem putAliasFree_cons {p : Expr × Expr} {rest : List (Expr × Expr)} (h : putAliasFree (p :: rest) = true) :
    aliasFree p.1 = true ∧ aliasFree p.2 = true ∧ putAliasFree rest = true := by
  simp only [putAliasFree, List.all_cons, Bool.and_eq_true] at h ⊢
  exact ⟨h.1.1, h.1.2, h.2⟩

/-- the plan model's evaluation of the table `putPairs` is `putEval` -/
theorem evalPairs_putPairs (cache : Bool) : ∀ (pairs : List (Expr × Expr)), putAliasFree pairs = true →
    evalPairs (putPairs (Ctx.new cache) pairs) =
      (match putEval pairs with
       | .ok kvps => .ok kvps
       | .error _ => .error .eval)
  | [], _ => rfl
  | (k, v) :: rest, h => by
    obtain ⟨hk, hv, hr⟩ := putAliasFree_cons h
    have ih := evalPairs_putPairs cache rest hr
    simp only [putPairs, List.map_cons] at ih ⊢
    simp only [evalPairs, putEval, evalBytes_new hk, ih]
    cases h1 : bytesOf k emptyKv with
    | error e => rfl
    | ok key =>
      simp only [toPlanErr, evalBytes_new hv]
      cases h2 : bytesOf v ⟨key, []⟩ with
      | error e => rfl
      | ok val =>
        cases h3 : putEval rest <;> rfl

/-- the evaluation `PutPlan.execute` stops at, as `runStmt` computes it, is the error of `putEval` -/
theorem putFirstErr_eq (cache : Bool) : ∀ (pairs : List (Expr × Expr)), putAliasFree pairs = true →
    putFirstErr (Ctx.new cache) pairs =
      (match putEval pairs with
       | .ok _ => none
       | .error e => some e)
  | [], _ => rfl
  | (k, v) :: rest, h => by
    obtain ⟨hk, hv, hr⟩ := putAliasFree_cons h
    have ih := putFirstErr_eq cache rest hr
    simp only [putFirstErr, putEval, evalBytes_new hk]
    cases h1 : bytesOf k emptyKv with
    | error e => rfl
    | ok key =>
      simp only [evalBytes_new hv]
      cases h2 : bytesOf v ⟨key, []⟩ with
      | error e => rfl
      | ok val =>
        simp only [ih]
        cases h3 : putEval rest <;> rfl

theorem removeAliasFree_cons {k : Expr} {rest : List Expr} (h : removeAliasFree (k :: rest) = true) :
    aliasFree k = true ∧ removeAliasFree rest = true := by
  simp only [removeAliasFree, List.all_cons, Bool.and_eq_true] at h ⊢
  exact h

theorem evalKeys_removeKeys (cache : Bool) : ∀ (keys : List Expr), removeAliasFree keys = true →
    evalKeys (removeKeys (Ctx.new cache) keys) =
      (match removeEval keys with
       | .ok ks => .ok ks
       | .error _ => .error .eval)
  | [], _ => rfl
  | k :: rest, h => by
    obtain ⟨hk, hr⟩ := removeAliasFree_cons h
    have ih := evalKeys_removeKeys cache rest hr
    simp only [removeKeys, List.map_cons] at ih ⊢
    simp only [evalKeys, removeEval, evalBytes_new hk, ih]
    cases h1 : bytesOf k emptyKv with
    | error e => rfl
    | ok key =>
      simp only [toPlanErr]
      cases h3 : removeEval rest <;> rfl

theorem removeFirstErr_eq (cache : Bool) : ∀ (keys : List Expr), removeAliasFree keys = true →
    removeFirstErr (Ctx.new cache) keys =
      (match removeEval keys with
       | .ok _ => none
       | .error e => some e)
  | [], _ => rfl
  | k :: rest, h => by
    obtain ⟨hk, hr⟩ := removeAliasFree_cons h
    have ih := removeFirstErr_eq cache rest hr
    simp only [removeFirstErr] at ih ⊢
    simp only [List.findSome?_cons, removeEval, evalBytes_new hk]
    cases h1 : bytesOf k emptyKv with
    | error e => rfl
    | ok key =>
      simp only [ih]
      cases h3 : removeEval rest <;> rfl

/-! ### `runStmt` on PUT / REMOVE -/

theorem bs_ne_zero {bs : Nat} (hbs : 1 ≤ bs) : (bs == 0) = false := by
  cases bs with
  | zero => omega
  | succ k => rfl

/-- the call log of a write statement that issued the calls `cs`, none of them failing -/
def logOf (cs : List Storage.Call) : List Storage.Entry := cs.map (⟨·, false⟩)

/-- PUT whose expressions evaluate -/
theorem runStmt_put_ok {pos : Nat} {pairs : List (Expr × Expr)} (haf : putAliasFree pairs = true)
    {kvps : List Storage.Pair} (h : putEval pairs = .ok kvps)
    (store : Storage.Store) (kind : PollKind) {bs : Nat} (hbs : 1 ≤ bs) (cache : Bool) :
    (runStmt (.put pos pairs) store kind bs cache).fail = none ∧
    (runStmt (.put pos pairs) store kind bs cache).rows = [[Value.goInt (Int64.ofNat kvps.length)]] ∧
    (runStmt (.put pos pairs) store kind bs cache).world.store = store.insertMany kvps ∧
    (runStmt (.put pos pairs) store kind bs cache).world.log = logOf (putCall kvps) := by
  have he : evalPairs (putPairs (Ctx.new cache) pairs) = .ok kvps := by
    rw [evalPairs_putPairs cache pairs haf, h]
  simp only [runStmt, bs_ne_zero hbs, Bool.false_eq_true, if_false, run_put_ok he kind bs store, writeOutcome,
    writeRows, List.flatten_cons, List.flatten_nil, List.append_nil, List.map_cons, List.map_nil, logOf]
  exact ⟨trivial, trivial, trivial, trivial⟩

/-- PUT with a failing key or value expression: all or nothing -/
theorem runStmt_put_error {pos : Nat} {pairs : List (Expr × Expr)} (haf : putAliasFree pairs = true)
    {e : Kvql.Err} (h : putEval pairs = .error e)
    (store : Storage.Store) (kind : PollKind) {bs : Nat} (hbs : 1 ≤ bs) (cache : Bool) :
    (runStmt (.put pos pairs) store kind bs cache).fail = some (errFail e) ∧
    (runStmt (.put pos pairs) store kind bs cache).rows = [] ∧
    (runStmt (.put pos pairs) store kind bs cache).world.store = store ∧
    (runStmt (.put pos pairs) store kind bs cache).world.log = [] := by
  have he : evalPairs (putPairs (Ctx.new cache) pairs) = .error .eval := by
    rw [evalPairs_putPairs cache pairs haf, h]
  have hf : putFirstErr (Ctx.new cache) pairs = some e := by
    rw [putFirstErr_eq cache pairs haf, h]
  simp only [runStmt, bs_ne_zero hbs, Bool.false_eq_true, if_false, run_put_error he kind bs none store,
    writeOutcome, hf, Option.map_some, Option.getD_some]
  exact ⟨trivial, trivial, trivial, trivial⟩

/-- REMOVE whose key expressions evaluate -/
theorem runStmt_remove_ok {pos : Nat} {keys : List Expr} (haf : removeAliasFree keys = true)
    {ks : List Bytes} (h : removeEval keys = .ok ks)
    (store : Storage.Store) (kind : PollKind) {bs : Nat} (hbs : 1 ≤ bs) (cache : Bool) :
    (runStmt (.remove pos keys) store kind bs cache).fail = none ∧
    (runStmt (.remove pos keys) store kind bs cache).rows = [[Value.goInt (Int64.ofNat ks.length)]] ∧
    (runStmt (.remove pos keys) store kind bs cache).world.store = store.eraseMany ks ∧
    (runStmt (.remove pos keys) store kind bs cache).world.log = logOf (removeCall ks) := by
  have he : evalKeys (removeKeys (Ctx.new cache) keys) = .ok ks := by
    rw [evalKeys_removeKeys cache keys haf, h]
  simp only [runStmt, bs_ne_zero hbs, Bool.false_eq_true, if_false, run_remove_ok he kind bs store, writeOutcome,
    writeRows, List.flatten_cons, List.flatten_nil, List.append_nil, List.map_cons, List.map_nil, logOf]
  exact ⟨trivial, trivial, trivial, trivial⟩

/-- REMOVE with a failing key expression: all or nothing -/
theorem runStmt_remove_error {pos : Nat} {keys : List Expr} (haf : removeAliasFree keys = true)
    {e : Kvql.Err} (h : removeEval keys = .error e)
    (store : Storage.Store) (kind : PollKind) {bs : Nat} (hbs : 1 ≤ bs) (cache : Bool) :
    (runStmt (.remove pos keys) store kind bs cache).fail = some (errFail e) ∧
    (runStmt (.remove pos keys) store kind bs cache).rows = [] ∧
    (runStmt (.remove pos keys) store kind bs cache).world.store = store ∧
    (runStmt (.remove pos keys) store kind bs cache).world.log = [] := by
  have he : evalKeys (removeKeys (Ctx.new cache) keys) = .error .eval := by
    rw [evalKeys_removeKeys cache keys haf, h]
  have hf : removeFirstErr (Ctx.new cache) keys = some e := by
    rw [removeFirstErr_eq cache keys haf, h]
  simp only [runStmt, bs_ne_zero hbs, Bool.false_eq_true, if_false, run_remove_error he kind bs none store,
    writeOutcome, hf, Option.map_some, Option.getD_some]
  exact ⟨trivial, trivial, trivial, trivial⟩

/-- `runQuery` on a text `planStage` accepts is `runStmt` on the accepted statement -/
theorem runQuery_of_plan {query : Bytes} {pf : Bytes → F64} {stmt : Stmt}
    (hplan : PlanCheck.planStage pf (Lexer.split query) = .ok stmt) (store : Storage.Store) (kind : PollKind)
    (bs : Nat) (cache : Bool) : runQuery query pf store kind bs cache = runStmt stmt store kind bs cache := by
  unfold runQuery
  rw [hplan]

end Kvql.Proofs.RunWrite
