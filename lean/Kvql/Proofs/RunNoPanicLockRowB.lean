/-
  RunNoPanic, part 9b (helper of RunNoPanicLockRow): the STORAGE side of `Run.projTrace` in row mode,
  exactly, for an ARBITRARY filter — also one that fails.  The `Next` drain of `select *` over a scan node
  hands out, poll by poll, the singleton `[p]` for every pair `p` the scan yields and the filter accepts,
  until the end of the scan or the first yielded pair on which the filter fails (`fSpec`).  With the
  verdict table of the yielded pairs as filter this is `sSpec` of the verdicts, and the failure reported
  is the failure of that first pair (`firstErr`).
-/
import Kvql.Proofs.RunNoPanicBase
import Kvql.Proofs.RunFieldsTrace

namespace Kvql.Proofs.RunNoPanic
namespace LockRowNP

open Kvql Kvql.Run Kvql.Plans Kvql.Storage Kvql.Proofs.Scan Kvql.Proofs.Plan
open Kvql.Proofs.RunTables Kvql.Proofs.RunScan

/-! ### the specification -/

/-- the polls of a `Next` drain over the pairs `l` the scan still yields, and the error it ends in -/
def fSpec (flt : Filter) : List SPair → List (List SPair) × Option Storage.Err
  | [] => ([], none)
  | p :: r =>
    match flt p with
    | .error e => ([], some e)
    | .ok true => ([p] :: (fSpec flt r).1, (fSpec flt r).2)
    | .ok false => fSpec flt r

/-- the same from a verdict function; the error is the verdict of the pair the drain stops at -/
def sSpec (vd : SPair → Except Project.PErr Bool) : List SPair → List (List SPair) × Option Project.PErr
  | [] => ([], none)
  | p :: r =>
    match vd p with
    | .error e => ([], some e)
    | .ok true => ([p] :: (sSpec vd r).1, (sSpec vd r).2)
    | .ok false => sSpec vd r

/-- a verdict as the plan layer sees it -/
def toSE : Except Project.PErr Bool → Except Storage.Err Bool
  | .ok b => .ok b
  | .error _ => .error .eval

theorem fSpec_of_verdicts (flt : Filter) (vd : SPair → Except Project.PErr Bool) : ∀ (l : List SPair),
    (∀ p ∈ l, flt p = toSE (vd p)) →
    (fSpec flt l).1 = (sSpec vd l).1 ∧ (fSpec flt l).2 = (sSpec vd l).2.map (fun _ => Storage.Err.eval)
  | [], _ => ⟨rfl, rfl⟩
  | p :: r, h => by
    obtain ⟨i1, i2⟩ := fSpec_of_verdicts flt vd r (fun q hq => h q (List.mem_cons_of_mem _ hq))
    have hp := h p List.mem_cons_self
    simp only [fSpec, sSpec, hp]
    cases hv : vd p with
    | error e => exact ⟨rfl, rfl⟩
    | ok b =>
      cases b with
      | true => simp only [toSE]; exact ⟨by rw [i1], i2⟩
      | false => simp only [toSE]; exact ⟨i1, i2⟩

/-- the failure `firstErr` finds in the table of the yielded pairs is the one the drain stops at -/
theorem firstErr_of_sSpec (vd : SPair → Except Project.PErr Bool) : ∀ (l : List SPair) (e : Project.PErr),
    (sSpec vd l).2 = some e → firstErr (l.map (fun p => (p.1, vd p))) = some e
  | [], e, h => by simp [sSpec] at h
  | p :: r, e, h => by
    simp only [sSpec] at h
    simp only [firstErr, List.map_cons, List.findSome?_cons]
    cases hv : vd p with
    | error x =>
      rw [hv] at h
      simp only [Option.some.injEq] at h
      subst h
      rfl
    | ok b =>
      rw [hv] at h
      have ih := firstErr_of_sSpec vd r e (by cases b <;> exact h)
      simpa [firstErr] using ih

/-! ### one `Next` of a cursor scan -/

/-- the pairs a cursor standing at `rest` still yields -/
abbrev tw (stop : Bytes → Bool) (rest : List SPair) : List SPair := rest.takeWhile (fun p => !stop p.1)

theorem cursorNext_fSpec (stop : Bytes → Bool) (flt : Filter) : ∀ (rest : List SPair) (w : Storage.World), ∃ w',
    (∃ e, cursorNext stop flt rest none w = (.error e, w') ∧ fSpec flt (tw stop rest) = ([], some e)) ∨
    (∃ r', cursorNext stop flt rest none w = (.ok (none, r', true), w') ∧ fSpec flt (tw stop rest) = ([], none)) ∨
    (∃ p r', cursorNext stop flt rest none w = (.ok (some p, r', false), w') ∧
      fSpec flt (tw stop rest) = ([p] :: (fSpec flt (tw stop r')).1, (fSpec flt (tw stop r')).2) ∧
      r'.length < rest.length)
  | [], w => by
    refine ⟨{ w with log := w.log ++ [⟨.next none, false⟩] }, Or.inr (Or.inl ⟨[], ?_, rfl⟩)⟩
    simp only [cursorNext, run_bind, run_call_none, run_pure]
  | p :: r, w => by
    simp only [cursorNext, run_bind, run_call_none]
    generalize hw1 : ({ w with log := w.log ++ [⟨.next (some p.1), false⟩] } : Storage.World) = w1
    cases hs : stop p.1 with
    | true =>
      refine ⟨w1, Or.inr (Or.inl ⟨r, ?_, ?_⟩)⟩
      · simp only [if_true, run_pure]
      · simp [tw, hs, fSpec]
    | false =>
      have htw : tw stop (p :: r) = p :: tw stop r := by simp [tw, hs]
      simp only [Bool.false_eq_true, if_false, htw, fSpec]
      cases hf : flt p with
      | error e => exact ⟨w1, Or.inl ⟨e, rfl, rfl⟩⟩
      | ok b =>
        cases b with
        | true => exact ⟨w1, Or.inr (Or.inr ⟨p, r, rfl, rfl, by simp⟩)⟩
        | false =>
          dsimp only
          obtain ⟨w', h⟩ := cursorNext_fSpec stop flt r w1
          refine ⟨w', ?_⟩
          rcases h with h | h | ⟨q, r', h1, h2, h3⟩
          · exact Or.inl h
          · exact Or.inr (Or.inl h)
          · exact Or.inr (Or.inr ⟨q, r', h1, h2, by simp only [List.length_cons]; omega⟩)

/-! ### one `Next` of a MultiGet -/

theorem mgetNext_fSpec (s : Store) (flt : Filter) : ∀ (ks : List Bytes) (w : Storage.World), w.store = s → ∃ w', w'.store = s ∧
    ((∃ e, mgetNext flt ks none w = (.error e, w') ∧ fSpec flt (found s ks) = ([], some e)) ∨
    (∃ ks', mgetNext flt ks none w = (.ok (none, ks'), w') ∧ fSpec flt (found s ks) = ([], none)) ∨
    (∃ p ks', mgetNext flt ks none w = (.ok (some p, ks'), w') ∧
      fSpec flt (found s ks) = ([p] :: (fSpec flt (found s ks')).1, (fSpec flt (found s ks')).2) ∧
      ks'.length < ks.length))
  | [], w, hw => ⟨w, hw, Or.inr (Or.inl ⟨[], rfl, rfl⟩)⟩
  | k :: ks, w, hw => by
    obtain ⟨w1, h1, hs1⟩ := get_spec k w
    have hs1' : w1.store = s := by rw [hs1, hw]
    simp only [mgetNext, run_bind, h1, found_cons, hw]
    cases hl : s.lookup k with
    | none =>
      dsimp only
      obtain ⟨w', hw', h⟩ := mgetNext_fSpec s flt ks w1 hs1'
      refine ⟨w', hw', ?_⟩
      rcases h with h | h | ⟨q, r', h1, h2, h3⟩
      · exact Or.inl h
      · exact Or.inr (Or.inl h)
      · exact Or.inr (Or.inr ⟨q, r', h1, h2, by simp only [List.length_cons]; omega⟩)
    | some v =>
      dsimp only
      simp only [fSpec]
      cases hf : flt (k, v) with
      | error e => exact ⟨w1, hs1', Or.inl ⟨e, rfl, rfl⟩⟩
      | ok b =>
        cases b with
        | true => exact ⟨w1, hs1', Or.inr (Or.inr ⟨(k, v), ks, rfl, rfl, by simp⟩)⟩
        | false =>
          dsimp only
          obtain ⟨w', hw', h⟩ := mgetNext_fSpec s flt ks w1 hs1'
          refine ⟨w', hw', ?_⟩
          rcases h with h | h | ⟨q, r', h1, h2, h3⟩
          · exact Or.inl h
          · exact Or.inr (Or.inl h)
          · exact Or.inr (Or.inr ⟨q, r', h1, h2, by simp only [List.length_cons]; omega⟩)

/-! ### the trace loop over a plan that stands for a list of pairs -/

/-- the loop of `scanTrace` in `Next` mode, for a family of plans `R plan l n` ("`plan` still yields `l`,
    at most `n` polls hand out a row") closed under a poll as `fSpec` describes it -/
theorem scanTraceLoop_fSpec (flt : Filter) (cls : Option Project.PErr) (bs : Nat) (w0 : Storage.World)
    (R : Plan → List SPair → Nat → Prop) (W : Storage.World → Prop)
    (hstep : ∀ plan l n, R plan l n → ∀ w, W w → ∃ w', W w' ∧
      ((∃ e rows plan', plan.poll .next bs none w = (⟨rows, some e, plan'⟩, w') ∧ fSpec flt l = ([], some e)) ∨
       (∃ plan', plan.poll .next bs none w = (⟨[], none, plan'⟩, w') ∧ fSpec flt l = ([], none)) ∨
       (∃ p plan' l' n', plan.poll .next bs none w = (⟨[.pair p], none, plan'⟩, w') ∧
          fSpec flt l = ([p] :: (fSpec flt l').1, (fSpec flt l').2) ∧ R plan' l' n' ∧ n' < n))) :
    ∀ (fuel : Nat) (plan : Plan) (l : List SPair) (n : Nat) (w : Storage.World) (acc : List (List SPair × Storage.World)),
      R plan l n → W w → n + 1 ≤ fuel →
      (scanTraceLoop cls .next bs w0 fuel plan w acc).polls.map (·.1) = acc.map (·.1) ++ (fSpec flt l).1 ∧
      (scanTraceLoop cls .next bs w0 fuel plan w acc).fin.1 = (fSpec flt l).2.map (pollFail cls) ∧
      (scanTraceLoop cls .next bs w0 fuel plan w acc).w0 = w0
  | 0, _, _, _, _, _, _, _, h => by omega
  | fuel + 1, plan, l, n, w, acc, hR, hW, hfuel => by
    obtain ⟨w', hW', h⟩ := hstep plan l n hR w hW
    rcases h with ⟨e, rows, plan', h1, h2⟩ | ⟨plan', h1, h2⟩ | ⟨p, plan', l', n', h1, h2, h3, h4⟩
    · simp only [scanTraceLoop, h1, h2, List.append_nil, Option.map_some, and_self]
    · simp only [scanTraceLoop, h1, h2, List.append_nil, Option.map_none, and_self]
    · have ht : scanTraceLoop cls .next bs w0 (fuel + 1) plan w acc =
          scanTraceLoop cls .next bs w0 fuel plan' w' (acc ++ [(pairsOfRows [.pair p], w')]) := by
        simp only [scanTraceLoop, h1]
      obtain ⟨i1, i2, i3⟩ := scanTraceLoop_fSpec flt cls bs w0 R W hstep fuel plan' l' n' w'
        (acc ++ [(pairsOfRows [.pair p], w')]) h3 hW' (by omega)
      rw [ht, h2]
      refine ⟨?_, i2, i3⟩
      rw [i1]
      simp [pairsOfRows]

/-! ### cursor scans -/

theorem poll_cursor_fSpec (node : ScanNode) (hc : node.isCursorScan = true) (flt : Filter) (bs : Nat)
    (plan : Plan) (l : List SPair) (n : Nat)
    (hR : ∃ snap rest kl, plan = .select node flt (cursorSt snap rest kl false) ∧ l = tw node.stop rest ∧
      n = rest.length) (w : Storage.World) :
    ∃ w', True ∧
      ((∃ e rows plan', plan.poll .next bs none w = (⟨rows, some e, plan'⟩, w') ∧ fSpec flt l = ([], some e)) ∨
       (∃ plan', plan.poll .next bs none w = (⟨[], none, plan'⟩, w') ∧ fSpec flt l = ([], none)) ∨
       (∃ p plan' l' n', plan.poll .next bs none w = (⟨[.pair p], none, plan'⟩, w') ∧
          fSpec flt l = ([p] :: (fSpec flt l').1, (fSpec flt l').2) ∧
          (∃ snap rest kl, plan' = .select node flt (cursorSt snap rest kl false) ∧ l' = tw node.stop rest ∧
            n' = rest.length) ∧ n' < n)) := by
  obtain ⟨snap, rest, kl, rfl, rfl, rfl⟩ := hR
  obtain ⟨w', h⟩ := cursorNext_fSpec node.stop flt rest w
  refine ⟨w', trivial, ?_⟩
  simp only [Plan.poll, scanNext_cursor node hc, run_bind]
  rcases h with ⟨e, h1, h2⟩ | ⟨r', h1, h2⟩ | ⟨p, r', h1, h2, h3⟩
  · rw [h1]; exact Or.inl ⟨e, _, _, rfl, h2⟩
  · rw [h1]; exact Or.inr (Or.inl ⟨_, rfl, h2⟩)
  · rw [h1]; exact Or.inr (Or.inr ⟨p, _, _, _, rfl, h2, ⟨snap, r', kl, rfl, rfl, rfl⟩, h3⟩)

theorem poll_mget_fSpec (s : Store) (K : List Bytes) (flt : Filter) (bs : Nat)
    (plan : Plan) (l : List SPair) (n : Nat)
    (hR : ∃ ks, plan = .select (.mget K) flt (mgetSt ks) ∧ l = found s ks ∧ n = ks.length) (w : Storage.World)
    (hw : w.store = s) :
    ∃ w', w'.store = s ∧
      ((∃ e rows plan', plan.poll .next bs none w = (⟨rows, some e, plan'⟩, w') ∧ fSpec flt l = ([], some e)) ∨
       (∃ plan', plan.poll .next bs none w = (⟨[], none, plan'⟩, w') ∧ fSpec flt l = ([], none)) ∨
       (∃ p plan' l' n', plan.poll .next bs none w = (⟨[.pair p], none, plan'⟩, w') ∧
          fSpec flt l = ([p] :: (fSpec flt l').1, (fSpec flt l').2) ∧
          (∃ ks, plan' = .select (.mget K) flt (mgetSt ks) ∧ l' = found s ks ∧ n' = ks.length) ∧ n' < n)) := by
  obtain ⟨ks, rfl, rfl, rfl⟩ := hR
  obtain ⟨w', hw', h⟩ := mgetNext_fSpec s flt ks w hw
  refine ⟨w', hw', ?_⟩
  simp only [Plan.poll, ScanNode.next, run_bind]
  rcases h with ⟨e, h1, h2⟩ | ⟨r', h1, h2⟩ | ⟨p, r', h1, h2, h3⟩
  · rw [h1]; exact Or.inl ⟨e, _, _, rfl, h2⟩
  · rw [h1]; exact Or.inr (Or.inl ⟨_, rfl, h2⟩)
  · rw [h1]; exact Or.inr (Or.inr ⟨p, _, _, _, rfl, h2, ⟨r', rfl, rfl, rfl⟩, h3⟩)

/-! ### the trace of `select *` in `Next` mode, any filter -/

/-- **the storage side, exactly**: the polls and the terminal failure of the `Next` drain of `select *`
    over `node` with the filter `filterOfV v`, whatever the table `v` -/
theorem scanTrace_next_fSpec (node : ScanNode) (v : Verdicts) (bs : Nat) (store : Store) :
    (scanTrace node v .next bs store).polls.map (·.1) = (fSpec (filterOfV v) (yielded node store)).1 ∧
    (scanTrace node v .next bs store).fin.1 =
      (fSpec (filterOfV v) (yielded node store)).2.map (pollFail (firstErr v)) := by
  by_cases hc : node.isCursorScan = true
  · obtain ⟨w0, hb, _⟩ := buildPlan_cursor node hc (filterOfV v) { store := store }
    have hy : yielded node store = tw node.stop (node.startRest store) := by
      cases node with
      | mget ks => simp [ScanNode.isCursorScan] at hc
      | empty => simp [ScanNode.isCursorScan] at hc
      | full => simp only [yielded, startRest_eq, tw]
      | «prefix» pre => simp only [yielded, startRest_eq, tw]
      | range a b => simp only [yielded, startRest_eq, tw]
    unfold scanTrace
    rw [hb]
    simp only [Plan.size, ScanSt.size, List.length_nil, Nat.add_zero]
    obtain ⟨i1, i2, _⟩ := scanTraceLoop_fSpec (filterOfV v) (firstErr v) bs w0
      (fun plan l n => ∃ snap rest kl, plan = .select node (filterOfV v) (cursorSt snap rest kl false) ∧
        l = tw node.stop rest ∧ n = rest.length) (fun _ => True)
      (fun plan l n hR w _ => poll_cursor_fSpec node hc (filterOfV v) bs plan l n hR w)
      ((node.startRest store).length + 2) _ _ _ w0 []
      ⟨store, node.startRest store, [], rfl, rfl, rfl⟩ trivial (by omega)
    rw [hy]
    exact ⟨by simpa using i1, i2⟩
  · cases node with
    | full => simp [ScanNode.isCursorScan] at hc
    | «prefix» pre => simp [ScanNode.isCursorScan] at hc
    | range a b => simp [ScanNode.isCursorScan] at hc
    | empty =>
      simp [scanTrace, buildPlan_empty, scanTraceLoop, Plan.poll, ScanNode.next, yielded, fSpec]
    | mget ks =>
      have hy : yielded (.mget ks) store = found store ks := rfl
      unfold scanTrace
      rw [buildPlan_mget]
      simp only [Plan.size, ScanSt.size, Nat.zero_add]
      obtain ⟨i1, i2, _⟩ := scanTraceLoop_fSpec (filterOfV v) (firstErr v) bs { store := store }
        (fun plan l n => ∃ ks', plan = .select (.mget ks) (filterOfV v) (mgetSt ks') ∧
          l = found store ks' ∧ n = ks'.length) (fun w => w.store = store)
        (fun plan l n hR w hw => poll_mget_fSpec store ks (filterOfV v) bs plan l n hR w hw)
        (ks.length + 2) _ _ _ { store := store } []
        ⟨ks, rfl, rfl, rfl⟩ rfl (by omega)
      rw [hy]
      exact ⟨by simpa using i1, i2⟩

/-! ### with the table of the verdicts on the yielded pairs -/

theorem filterOfV_table {l : List SPair} (hd : l.Pairwise (fun a b => a.1 ≠ b.1))
    (vd : SPair → Except Project.PErr Bool) {p : SPair} (hp : p ∈ l) :
    filterOfV (l.map (fun q => (q.1, vd q))) p = toSE (vd p) := by
  unfold filterOfV
  rw [lookup_map_of_mem vd hd hp]
  cases vd p with
  | error e => rfl
  | ok b => rfl

/-- **the storage side of row mode in terms of the verdicts**: the polls are the accepted pairs, one by one,
    up to the first pair whose verdict is a failure; the trace ends in that failure (as `perrFail` classes
    it), or cleanly -/
theorem scanTrace_next_sSpec (node : ScanNode) (hwf : ScanNode.WellFormed node) (store : Store) (hs : store.Sorted)
    (vd : SPair → Except Project.PErr Bool) (bs : Nat) :
    (scanTrace node ((yielded node store).map (fun q => (q.1, vd q))) .next bs store).polls.map (·.1) =
      (sSpec vd (yielded node store)).1 ∧
    (scanTrace node ((yielded node store).map (fun q => (q.1, vd q))) .next bs store).fin.1 =
      (sSpec vd (yielded node store)).2.map perrFail := by
  have hd : (yielded node store).Pairwise (fun a b => a.1 ≠ b.1) := by
    rw [yielded_eq_filter node hwf hs]
    exact keys_distinct hs _
  obtain ⟨h1, h2⟩ := scanTrace_next_fSpec node ((yielded node store).map (fun q => (q.1, vd q))) bs store
  obtain ⟨k1, k2⟩ := fSpec_of_verdicts (filterOfV ((yielded node store).map (fun q => (q.1, vd q)))) vd
    (yielded node store) (fun p hp => filterOfV_table hd vd hp)
  refine ⟨by rw [h1, k1], ?_⟩
  rw [h2, k2]
  cases he : (sSpec vd (yielded node store)).2 with
  | none => rfl
  | some e =>
    rw [firstErr_of_sSpec vd _ e he]
    rfl

end LockRowNP
end Kvql.Proofs.RunNoPanic
