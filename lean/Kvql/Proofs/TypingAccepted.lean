/-
  C14 (d): an ACCEPTED statement does not fail with an operand-type error.

  Composition of `check_sound` (the checker is sound for the README typing `kindOf`) with
  `progress_row` / `progress_batch` (a well-kinded expression never raises an operand-type error in
  `Execute` / `ExecuteBatch`), for the WHERE expression of SELECT and DELETE and for the select
  fields of a statement `planStage` accepts.

  Coverage.  The theorems speak about expressions of the accepted statement that contain no alias
  reference (`aliasFree`; a statement without `as`-names used elsewhere), stay within the side
  condition `sideOk` of `check_sound`, and — for select fields — are not aggregates (aggregate
  calls are evaluated by the aggregation plan, not by `Execute`).  Expressions that go through
  alias references are covered by `check_sound` under `TblSound` only at the level of one `Check`
  call, not at the level of the statement (see the report).
-/
import Kvql.Proofs.TypingParse
import Kvql.Proofs.ParserTotalStmt

namespace Kvql.Proofs.Typing

open Kvql Kvql.Generated Kvql.PlanCheck Kvql.Parser

theorem setField_get_eq : ∀ (tbl : Tbl) (i : Nat) (e : Expr) (n : Bytes) (x : Expr),
    tbl[i]? = some (n, x) → (tbl.setField i e)[i]? = some (n, e)
  | [], i, e, n, x, h => by simp at h
  | (n0, x0) :: rest, 0, e, n, x, h => by
    simp at h
    simp [Tbl.setField, h.1]
  | p :: rest, i + 1, e, n, x, h => by
    simp at h
    simp [Tbl.setField, setField_get_eq rest i e n x h]

theorem setField_get_ne : ∀ (tbl : Tbl) (i j : Nat) (e : Expr), j ≠ i → (tbl.setField i e)[j]? = tbl[j]?
  | [], i, j, e, _ => by simp [Tbl.setField]
  | (n0, x0) :: rest, 0, j, e, h => by
    cases j with
    | zero => exact absurd rfl h
    | succ j => simp [Tbl.setField]
  | p :: rest, i + 1, j, e, h => by
    cases j with
    | zero => simp [Tbl.setField]
    | succ j => simp [Tbl.setField, setField_get_ne rest i j e (by omega)]

/-- every field `ValidateFields` went over is an output of `Check` -/
theorem validateFields_entries : ∀ (n i : Nat) (tbl tbl' : Tbl), validateFields n i tbl = .ok tbl' →
    (∀ j, j < i → tbl'[j]? = tbl[j]?) ∧
    (∀ j nm f, i ≤ j → j < i + n → tbl'[j]? = some (nm, f) →
      ∃ (T : Tbl) (f0 : Expr), ({ tbl := T, cur := some j } : CheckCtx).check f0 = .ok f) ∧
    tbl'.length = tbl.length
  | 0, i, tbl, tbl', h => by
    simp only [validateFields] at h
    cases h
    exact ⟨fun _ _ => rfl, fun j nm f h1 h2 _ => by omega, rfl⟩
  | n + 1, i, tbl, tbl', h => by
    unfold validateFields at h
    split at h
    · cases h
      rename_i hnone
      refine ⟨fun _ _ => rfl, fun j nm f h1 _ hj => ?_, rfl⟩
      have : tbl[j]? = none := by
        rw [List.getElem?_eq_none_iff] at hnone ⊢; omega
      rw [this] at hj; cases hj
    · rename_i nm0 f0 hget
      obtain ⟨f', hf', h⟩ := bind_ok_iff.mp h
      obtain ⟨u, _, h⟩ := bind_ok_iff.mp h
      obtain ⟨ih1, ih2, ih3⟩ := validateFields_entries n (i + 1) (tbl.setField i f') tbl' h
      refine ⟨fun j hj => ?_, fun j nm f h1 h2 hj => ?_, ?_⟩
      · rw [ih1 j (by omega), setField_get_ne _ _ _ _ (by omega)]
      · by_cases hji : j = i
        · subst hji
          rw [ih1 j (by omega), setField_get_eq _ _ _ _ _ hget] at hj
          cases hj
          exact ⟨tbl, f0, hf'⟩
        · exact ih2 j nm f (by omega) (by omega) hj
      · rw [ih3, ParserTotal.Tbl.setField_length]


/-! ### aggregates -/

/-- no aggregate call at the places of a field where the aggregation plan looks for one -/
def noSiteAggr : Expr → Bool
  | .binop _ _ l r => noSiteAggr l && noSiteAggr r
  | .call _ (.name _ d) _ => (scalarSig (toLower d)).isSome
  | _ => true

theorem walkCalls_false_of_true : ∀ e : Expr, walkCalls true e = .ok () → noSiteAggr e = true →
    walkCalls false e = .ok ()
  | .binop _ _ l r, h, hn => by
    simp only [walkCalls] at h ⊢
    simp only [noSiteAggr, Bool.and_eq_true] at hn
    obtain ⟨u, h1, h2⟩ := bind_ok_iff.mp h
    rw [walkCalls_false_of_true l h1 hn.1, walkCalls_false_of_true r h2 hn.2]
    rfl
  | .call p nm args, h, hn => by
    cases nm with
    | name q d =>
      simp only [noSiteAggr] at hn
      simp only [walkCalls, callCheck, findSig] at h ⊢
      cases hs : scalarSig (toLower d) with
      | none => simp [hs] at hn
      | some sg => simpa [hs] using h
    | _ =>
      simp only [walkCalls, callCheck] at h
      obtain ⟨u, h1, _⟩ := bind_ok_iff.mp h
      cases h1
  | .not .., h, _ => by simpa only [walkCalls] using h
  | .ref .., h, _ => by simpa only [walkCalls] using h
  | .list .., h, _ => by simpa only [walkCalls] using h
  | .access .., h, _ => by simpa only [walkCalls] using h
  | .cycle, h, _ => by simp [walkCalls] at h
  | .field .., _, _ | .str .., _, _ | .name .., _, _ | .num .., _, _ | .float .., _, _ | .bool .., _, _ => by
    simp [walkCalls]

theorem walkFields_ok : ∀ {fs : List Expr}, walkFields fs = .ok () → ∀ f ∈ fs, walkCalls true f = .ok ()
  | [], _, f, hf => by simp at hf
  | g :: gs, h, f, hf => by
    simp only [walkFields] at h
    obtain ⟨u, h1, h2⟩ := bind_ok_iff.mp h
    rcases List.mem_cons.mp hf with rfl | hf'
    · exact h1
    · exact walkFields_ok h2 f hf'

/-! ### the accepted statement -/

variable {pf : Bytes → F64}

/-- the accepted SELECT: its parts as `Parse` produced them, and the call validation -/
theorem planStage_select_inv {toks : Toks} {s : SelectS} (h : planStage pf toks = .ok (.select s)) :
    (∃ (tbl' : Tbl) (expr expr' : Expr),
      ({ tbl := tbl' } : CheckCtx).check expr = .ok expr' ∧
      ({ tbl := tbl' } : CheckCtx).rt expr' = .ok tyTBOOL ∧
      s.where_ = resolveTop tbl' expr' ∧
      s.fields = tbl'.map (fun p => resolveTop tbl' p.2) ∧
      (∀ j nm f, tbl'[j]? = some (nm, f) →
        ∃ (T : Tbl) (f0 : Expr), ({ tbl := T, cur := some j } : CheckCtx).check f0 = .ok f)) ∧
    walkCalls false s.where_ = .ok () ∧ walkFields s.fields = .ok () := by
  obtain ⟨hp, hc, _⟩ := planStage_ok_iff.mp h
  simp only [checkStmtCalls] at hc
  obtain ⟨u, hw, hf⟩ := bind_ok_iff.mp hc
  refine ⟨?_, hw, hf⟩
  rcases parse_inv hp with ⟨_, _, _, h1⟩ | ⟨_, _, _, h1⟩ | ⟨_, _, _, h1⟩ | ⟨ef, lf, spos, sel, wpos, ts, h1⟩
  · obtain ⟨_, _, _, _, _, _, he⟩ := parsePut_inv h1; cases he
  · obtain ⟨_, _, _, _, _, _, he⟩ := parseRemove_inv h1; cases he
  · obtain ⟨_, _, _, _, _, _, _, _, _, _, he⟩ := parseDelete_inv h1; cases he
  · obtain ⟨expr, rest, tbl, types, c, tbl1, tbl', expr', s', _, _, _, _, hv2, hck, hrt, he, hwh, hfl⟩ :=
      parseWhere_inv h1
    cases he
    refine ⟨tbl', expr, expr', hck, hrt, hwh, hfl, ?_⟩
    intro j nm f hj
    obtain ⟨_, h2, h3⟩ := validateFields_entries _ _ _ _ hv2
    have hjl : j < tbl'.length := by
      rcases Nat.lt_or_ge j tbl'.length with hlt | hge
      · exact hlt
      · rw [List.getElem?_eq_none_iff.mpr hge] at hj; cases hj
    exact h2 j nm f (Nat.zero_le _) (by omega) hj

/-- the WHERE expression of an accepted SELECT is Boolean by the README typing -/
theorem accepted_select_where_kind {toks : Toks} {s : SelectS} (h : planStage pf toks = .ok (.select s))
    (ha : aliasFree s.where_ = true) (hs : sideOk s.where_ = true) : kindOf s.where_ = some .bool := by
  obtain ⟨⟨tbl', expr, expr', hck, hrt, hwh, _, _⟩, hw, _⟩ := planStage_select_inv h
  have he : s.where_ = expr' := by
    rw [hwh]; rw [hwh] at ha; exact resolveTop_aliasFree tbl' expr' ha
  rw [← he] at hck hrt
  obtain ⟨k, hk, _, hr⟩ := check_sound_out_refFree _ expr s.where_ hck hw hs (refFree_of_aliasFree _ ha)
  rw [hr] at hrt
  have hcode : k.code = tyTBOOL := by injection hrt
  rw [hk, kind_of_code_bool hcode]

/-- a select field of an accepted SELECT that is not an aggregate is well-kinded -/
theorem accepted_select_field_kind {toks : Toks} {s : SelectS} (h : planStage pf toks = .ok (.select s))
    (f : Expr) (hf : f ∈ s.fields) (ha : aliasFree f = true) (hs : sideOk f = true)
    (hn : noSiteAggr f = true) : ∃ k, kindOf f = some k ∧ k.code = f.retType := by
  obtain ⟨⟨tbl', _, _, _, _, _, hfl, hent⟩, _, hwf⟩ := planStage_select_inv h
  have hcalls : callsOk f := walkCalls_false_of_true f (walkFields_ok hwf f hf) hn
  rw [hfl] at hf
  obtain ⟨⟨nm, e⟩, hp, rfl⟩ := List.mem_map.mp hf
  have he : resolveTop tbl' e = e := resolveTop_aliasFree tbl' e ha
  rw [he] at ha hs hn hcalls ⊢
  obtain ⟨j, hj⟩ := List.mem_iff_getElem?.mp hp
  obtain ⟨T, f0, hck⟩ := hent j nm e hj
  obtain ⟨k, hk, hc, _⟩ := check_sound_out_refFree _ f0 e hck hcalls hs (refFree_of_aliasFree _ ha)
  exact ⟨k, hk, hc⟩

/-- the WHERE expression of an accepted DELETE is Boolean by the README typing -/
theorem accepted_delete_where_kind {toks : Toks} {pos wpos : Nat} {w : Expr} {lim : Option LimitS}
    (h : planStage pf toks = .ok (.delete pos wpos w lim))
    (ha : aliasFree w = true) (hs : sideOk w = true) : kindOf w = some .bool := by
  obtain ⟨hp, hc, _⟩ := planStage_ok_iff.mp h
  simp only [checkStmtCalls] at hc
  rcases parse_inv hp with ⟨_, _, _, h1⟩ | ⟨_, _, _, h1⟩ | ⟨_, _, _, h1⟩ | ⟨_, _, _, _, _, _, h1⟩
  · obtain ⟨_, _, _, _, _, _, he⟩ := parsePut_inv h1; cases he
  · obtain ⟨_, _, _, _, _, _, he⟩ := parseRemove_inv h1; cases he
  · obtain ⟨wexpr, w', _, _, _, _, _, _, hck, hrt, he⟩ := parseDelete_inv h1
    cases he
    obtain ⟨k, hk, _, hr⟩ := check_sound_out_refFree _ wexpr w hck hc hs (refFree_of_aliasFree _ ha)
    rw [hr] at hrt
    have hcode : k.code = tyTBOOL := by injection hrt
    rw [hk, kind_of_code_bool hcode]
  · obtain ⟨_, _, _, _, _, _, _, _, _, _, _, _, _, _, _, _, he, _⟩ := parseWhere_inv h1
    cases he

/-! ### C14 (d): composition with progress -/

/-- never an operand-type error, row by row and on a chunk, and results of kind `k` -/
def NoOperandTypeError (e : Expr) (k : Kind) : Prop :=
  ∀ (c : Ctx), c.enable = false →
    (∀ (kv : Pair),
      (∀ v c', exec e kv c = (.ok v, c') → v.hasKind k = true) ∧
      (∀ err c', exec e kv c = (.error err, c') → err ≠ .operandType)) ∧
    (∀ (chunk : List Pair),
      (∀ vs c', execBatch e chunk c = (.ok vs, c') → vs.length = chunk.length ∧ ∀ v ∈ vs, v.hasKind k = true) ∧
      (∀ err c', execBatch e chunk c = (.error err, c') → err ≠ .operandType))

theorem noOperandTypeError_of_kind {e : Expr} {k : Kind} (hk : kindOf e = some k) : NoOperandTypeError e k :=
  fun c hc => ⟨fun kv => Kvql.Proofs.C14.progress_row e k hk kv c hc,
    fun chunk => Kvql.Proofs.C14.progress_batch e k hk chunk c hc⟩

/-- ACCEPTED ⇒ NO OPERAND-TYPE ERROR (filter of a SELECT): evaluating the WHERE expression of a
    statement `BuildPlan` accepts — on any pair, on any chunk, cache off — never fails with an
    operand-type error and yields a Boolean. -/
theorem accepted_select_where (toks : Toks) (s : SelectS) (h : planStage pf toks = .ok (.select s))
    (ha : aliasFree s.where_ = true) (hs : sideOk s.where_ = true) : NoOperandTypeError s.where_ .bool :=
  noOperandTypeError_of_kind (accepted_select_where_kind h ha hs)

/-- … every select field that is not an aggregate: a value of the field's static type -/
theorem accepted_select_field (toks : Toks) (s : SelectS) (h : planStage pf toks = .ok (.select s))
    (f : Expr) (hf : f ∈ s.fields) (ha : aliasFree f = true) (hs : sideOk f = true)
    (hn : noSiteAggr f = true) : ∃ k, k.code = f.retType ∧ NoOperandTypeError f k := by
  obtain ⟨k, hk, hc⟩ := accepted_select_field_kind h f hf ha hs hn
  exact ⟨k, hc, noOperandTypeError_of_kind hk⟩

/-- … the filter of a DELETE -/
theorem accepted_delete_where (toks : Toks) (pos wpos : Nat) (w : Expr) (lim : Option LimitS)
    (h : planStage pf toks = .ok (.delete pos wpos w lim))
    (ha : aliasFree w = true) (hs : sideOk w = true) : NoOperandTypeError w .bool :=
  noOperandTypeError_of_kind (accepted_delete_where_kind h ha hs)

end Kvql.Proofs.Typing
