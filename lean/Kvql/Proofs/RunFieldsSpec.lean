/-
  End-to-end proofs for SELECT statements WITH A FIELD LIST, part 5: alias-free statements judged on the
  PARSED statement — by the row evaluator `exec` with an empty cache (C04 carries the verdicts and the
  field values across constant folding), and, on the `core` sub-language, by the reference evaluator
  `Spec.eval` (C01 `exec_refines_spec`, C14 `accepted_select_where_kind` / `accepted_select_field_kind`).
-/
import Kvql.Proofs.RunFieldsOrder
import Kvql.Properties.C04

namespace Kvql.Proofs.RunFields
open Kvql Kvql.Run Kvql.Plans Kvql.Storage Kvql.Cache Kvql.Project Kvql.Proofs.Scan Kvql.Proofs.Typing
open Kvql.Proofs.RunTables Kvql.Proofs.RunScan Kvql.Proofs.RunLimit Kvql.Proofs.RunFold
open Kvql.PlanCheck (planStage finalPlanCheck)
open Kvql.Refine

/-- the hypotheses of (1) on the PARSED statement and a store, judged by the row evaluator with an empty
    cache: the WHERE is Boolean on every stored pair, and every select field has a value (of a Go type
    the projection supports: anything but a bare list literal) on every stored pair the WHERE accepts -/
structure ExecOK (s : SelectS) (store : Store) : Prop where
  filter : ∀ p ∈ store, ∃ b, exec s.where_ (toKv p) Ctx.off = (.ok (.bool b), Ctx.off)
  fields : ∀ p ∈ store, Select.accepted s.where_ p = true →
    ∀ e ∈ s.fields, ∃ v, exec e (toKv p) Ctx.off = (.ok v, Ctx.off) ∧ rowSupported v = true

theorem accepted_of_exec {w : Expr} {p : SPair} {b : Bool} {c' : Ctx}
    (h : exec w (toKv p) Ctx.off = (.ok (.bool b), c')) : Select.accepted w p = b := by
  unfold Select.accepted Select.execTrue
  have e : (⟨p.1, p.2⟩ : Kvql.Pair) = toKv p := rfl
  rw [e, h]
  cases b <;> rfl

theorem nocache_of_exec {e : Expr} {kv : Kvql.Pair} {v : Value} {c' : Ctx} (h : exec e kv Ctx.off = (.ok v, c')) :
    nocache e kv = .ok v := by
  unfold nocache; rw [h]

theorem rowSupported_rel {v' v : Value} (h : Kvql.Rel v' v) (hs : rowSupported v = true) : rowSupported v' = true := by
  rcases h with rfl | ⟨b, rfl, _⟩
  · exact hs
  · rfl

theorem rows_map_left {α β γ : Type} {P : γ → β → Prop} (φ : α → γ) : ∀ {as : List α} {bs : List β},
    Rows (fun a b => P (φ a) b) as bs → Rows P (as.map φ) bs
  | _, _, .nil => .nil
  | _, _, .cons hp hr => .cons hp (rows_map_left φ hr)

theorem rows_weaken {α β : Type} {P Q : α → β → Prop} : ∀ {as : List α} {bs : List β}, Rows P as bs →
    (∀ a b, b ∈ bs → P a b → Q a b) → Rows Q as bs
  | _, _, .nil, _ => .nil
  | _, _, .cons hp hr, h => .cons (h _ _ List.mem_cons_self hp)
      (rows_weaken hr (fun a b hb => h a b (List.mem_cons_of_mem _ hb)))

/-- the select list's expressions are the folded fields when every field has a name -/
theorem selFields_exprs {s : SelectS} {f : FoldedSelect} (h : f.fields.length ≤ s.fieldNames.length) :
    (selFields s f).map (·.expr) = f.fields := by
  unfold selFields
  rw [List.map_map]
  exact List.map_snd_zip h

/-- **alias-free statements: from the parsed statement to the folded one.**  Under `ExecOK` the folded
    statement meets `EvalOK`, accepts the same stored pairs, and its row on an accepted pair is, column by
    column, the value of the parsed field — the same value, or the same text held as `[]byte` where the
    un-folded `+` / function call holds a Go string (`Kvql.Rel`, C04). -/
theorem folded_of_execOK {s : SelectS} (haf : afStmt s = true) {f : FoldedSelect} (hf : foldSelect s = .ok f)
    (hnames : s.fieldNames.length = s.fields.length) {store : Store} (h : ExecOK s store) :
    EvalOK s f store ∧
    (∀ p ∈ store, Select.accepted f.where_ p = Select.accepted s.where_ p) ∧
    (∀ p ∈ store, Select.accepted s.where_ p = true →
      Rows (fun col e => ∃ v, exec e (toKv p) Ctx.off = (.ok v, Ctx.off) ∧ Kvql.Rel col v)
        ((selFields s f).map (fun g => colVal g.expr p)) s.fields) := by
  obtain ⟨_, _, hw, hfs⟩ := foldSelect_af haf hf
  have hlen : f.fields.length = s.fields.length := hfs.length_eq
  have hexprs : (selFields s f).map (·.expr) = f.fields := selFields_exprs (by omega)
  have hacc : ∀ p ∈ store, Select.accepted f.where_ p = Select.accepted s.where_ p := by
    intro p hp
    obtain ⟨b, hb⟩ := h.filter p hp
    have hb' := Kvql.Properties.C04.fold_preserves_where hw rfl hb
    rw [accepted_of_exec hb, accepted_of_exec hb']
  -- a folded field on an accepted pair
  have hcol : ∀ p ∈ store, Select.accepted s.where_ p = true → ∀ e' e, e ∈ s.fields → Fold.optimize e = .ok e' →
      ∃ v v', exec e (toKv p) Ctx.off = (.ok v, Ctx.off) ∧ rowSupported v = true ∧
        nocache e' (toKv p) = .ok v' ∧ Kvql.Rel v' v := by
    intro p hp ha e' e he hopt
    obtain ⟨v, hv, hsup⟩ := h.fields p hp ha e he
    obtain ⟨v', hv', hrel⟩ := Kvql.Properties.C04.fold_preserves hopt rfl hv
    exact ⟨v, v', hv, hsup, nocache_of_exec hv', hrel⟩
  refine ⟨⟨?_, ?_⟩, hacc, ?_⟩
  · intro p hp
    obtain ⟨b, hb⟩ := h.filter p hp
    exact ⟨b, nocache_of_exec (Kvql.Properties.C04.fold_preserves_where hw rfl hb)⟩
  · intro p hp ha g hg
    rw [hacc p hp] at ha
    have hge : g.expr ∈ f.fields := by rw [← hexprs]; exact List.mem_map.mpr ⟨g, hg, rfl⟩
    obtain ⟨e, he, hopt⟩ := Kvql.Cache.Rows.mem_left hfs g.expr hge
    obtain ⟨v, v', _, hsup, hv', hrel⟩ := hcol p hp ha g.expr e he hopt
    exact ⟨v', hv', rowSupported_rel hrel hsup⟩
  · intro p hp ha
    have hmap : (selFields s f).map (fun g => colVal g.expr p) = f.fields.map (colVal · p) := by
      rw [← hexprs, List.map_map]; rfl
    rw [hmap]
    apply rows_map_left
    refine rows_weaken hfs ?_
    intro e' e he hopt
    obtain ⟨v, v', hv, _, hv', hrel⟩ := hcol p hp ha e' e he hopt
    refine ⟨v, hv, ?_⟩
    unfold colVal
    rw [hv']
    exact hrel

/-! ### against the reference evaluator -/

/-- the hypotheses of (1) on the parsed statement and a store, judged by the REFERENCE evaluator
    (decidable on the statement and the store): WHERE and fields within the places where the engine's
    typing coincides with the README's (`sideOk`, C14) and within the operators and functions the
    reference covers (`core`); no aggregate call site in a field; the reference evaluates the WHERE as a
    condition on every stored pair and every field on every pair the WHERE holds on -/
structure SpecOK (s : SelectS) (store : Store) : Prop where
  sideW : sideOk s.where_ = true
  coreW : Refine.core s.where_ = true
  evalW : ∀ p ∈ store, Spec.evaluable s.where_ ⟨p.1, p.2⟩ = true
  sideF : ∀ e ∈ s.fields, sideOk e = true
  coreF : ∀ e ∈ s.fields, Refine.core e = true
  siteF : ∀ e ∈ s.fields, noSiteAggr e = true
  evalF : ∀ p ∈ store, Spec.holds s.where_ ⟨p.1, p.2⟩ = true → ∀ e ∈ s.fields, (Spec.eval e ⟨p.1, p.2⟩).isSome = true

theorem rowSupported_of_refines {v : Value} {sv : Spec.SVal} (h : v ≈ sv) : rowSupported v = true := by
  cases v <;> first | rfl | (cases sv <;> simp [Refine.Rel] at h)

theorem refines_of_rel {col v : Value} {sv : Spec.SVal} (h1 : Kvql.Rel col v) (h2 : v ≈ sv) : col ≈ sv := by
  rcases h1 with rfl | ⟨b, rfl, rfl⟩
  · exact h2
  · cases sv <;> simp [Refine.Rel] at h2 ⊢
    exact h2

/-- the reference's hypotheses give the evaluator's (C01 `exec_refines_spec`; the well-kindedness half of
    `CoreLang` from the accepted statement, C14) -/
theorem execOK_of_specOK {query : Bytes} {pf : Bytes → F64} {s : SelectS}
    (hplan : planStage pf (Lexer.split query) = .ok (.select s)) (haf : afStmt s = true) {store : Store}
    (h : SpecOK s store) :
    ExecOK s store ∧ (∀ p ∈ store, Select.accepted s.where_ p = Select.specHolds s.where_ p) ∧
    (∀ e ∈ s.fields, CoreLang e) := by
  unfold afStmt at haf
  simp only [Bool.and_eq_true, List.all_eq_true] at haf
  obtain ⟨haw, hafs⟩ := haf
  have hP : CoreLang s.where_ := ⟨h.coreW, by rw [accepted_select_where_kind hplan haw h.sideW]; rfl⟩
  have hF : ∀ e ∈ s.fields, CoreLang e := by
    intro e he
    obtain ⟨k, hk, _⟩ := accepted_select_field_kind hplan e he (hafs e he) (h.sideF e he) (h.siteF e he)
    exact ⟨h.coreF e he, by rw [hk]; rfl⟩
  have hx : ∀ p ∈ store, exec s.where_ (toKv p) Ctx.off = (.ok (.bool (Select.specHolds s.where_ p)), Ctx.off) :=
    fun p hp => Select.exec_of_spec (fun kv b hv => hv) hP (h.evalW p hp)
  have hacc : ∀ p ∈ store, Select.accepted s.where_ p = Select.specHolds s.where_ p :=
    fun p hp => accepted_of_exec (hx p hp)
  refine ⟨⟨fun p hp => ⟨_, hx p hp⟩, ?_⟩, hacc, hF⟩
  intro p hp ha e he
  rw [hacc p hp] at ha
  obtain ⟨sv, hsv⟩ := Option.isSome_iff_exists.mp (h.evalF p hp ha e he)
  obtain ⟨v, hv, hr⟩ := exec_refines_spec e (hF e he) _ hsv
  exact ⟨v, hv, rowSupported_of_refines hr⟩

end Kvql.Proofs.RunFields
