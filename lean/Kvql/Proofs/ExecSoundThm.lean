import Kvql.Proofs.ExecSound

namespace Kvql
open Generated

theorem isScalar_cases {k : Option Kind} (h : isScalar k = true) : k = some .text ∨ k = some .num ∨ k = some .bool := by
  simp [isScalar] at h; rcases h with (h | h) | h <;> simp [h]

theorem isList_cases {k : Option Kind} (h : isList k = true) : k = some .listText ∨ k = some .listNum := by
  simp [isList] at h; exact h

theorem in_kinds {kl kr : Option Kind}
    (h : ((kl == some .text && kr == some .listText) || (kl == some .num && kr == some .listNum)) = true) :
    (kl = some .text ∧ kr = some .listText) ∨ (kl = some .num ∧ kr = some .listNum) := by simpa using h

theorem SndP.congr {α} {P : α → Prop} {x y : M α} {c : Ctx} (h : x c = y c) (hy : SndP P y c) : SndP P x c :=
  ⟨fun a c' ha => hy.1 a c' (by rw [← h]; exact ha), fun e c' he => hy.2 e c' (by rw [← h]; exact he)⟩

theorem list_arg_sound {a : Expr} {kv : Pair} {c : Ctx} (ih : ∀ k, kindOf a = some k → RowSound a k)
    (hl : isList (kindOf a) = true) (hc : c.enable = false) :
    SndP (fun (v : Value) => v.hasKind .listText = true ∨ v.hasKind .listNum = true) (exec a kv) c := by
  rcases isList_cases hl with hk | hk
  · exact (ih _ hk kv c hc).weaken fun _ hv => .inl hv
  · exact (ih _ hk kv c hc).weaken fun _ hv => .inr hv

theorem scalar_arg_sound {a : Expr} {kv : Pair} {c : Ctx} (ih : ∀ k, kindOf a = some k → RowSound a k)
    (hs : isScalar (kindOf a) = true) (hc : c.enable = false) : SndP (fun (_ : Value) => True) (exec a kv) c := by
  rcases isScalar_cases hs with hk | hk | hk <;> exact (ih _ hk kv c hc).weaken fun _ _ => trivial

theorem and_true {a b : Bool} (h : (a && b) = true) : a = true ∧ b = true := by simpa using h

mutual
  theorem exec_sound : ∀ (e : Expr) (k : Kind), kindOf e = some k → RowSound e k
    | .str .., k, h => by
      simp [kindOf] at h; subst h
      intro kv c _; rw [exec]; exact .pureK rfl c
    | .field _ f, k, h => by
      simp [kindOf] at h; subst h
      intro kv c _; cases f <;> rw [exec] <;> exact .pureK rfl c
    | .num .., k, h => by
      simp [kindOf] at h; subst h
      intro kv c _; rw [exec]; exact .pureK rfl c
    | .float .., k, h => by
      simp [kindOf] at h; subst h
      intro kv c _; rw [exec]; exact .pureK rfl c
    | .bool .., k, h => by
      simp [kindOf] at h; subst h
      intro kv c _; rw [exec]; exact .pureK rfl c
    | .name .., k, h => by simp [kindOf] at h
    | .cycle, k, h => by simp [kindOf] at h
    | .list .., k, h => by simp [kindOf] at h
    | .access .., k, h => by simp [kindOf] at h
    | .not p r, k, h => by
      simp only [kindOf] at h
      obtain ⟨hc, rfl⟩ := if_some h
      have ih := exec_sound r .bool (beq_some hc)
      intro kv c hc
      rw [exec]
      refine .bind (ih kv c hc) (inertAt hc) fun a ha => ?_
      obtain ⟨b, rfl, hb⟩ := asBool_of ha
      exact .bind (.liftBool ⟨b, hb⟩ c) liftInert fun _ _ => .pureK rfl c
    | .ref p name t, k, h => by
      simp only [kindOf] at h
      have ih := exec_sound t k h
      intro kv c hc
      exact .congr (exec_ref_off p name t kv hc (exec_inert t kv c hc)) (ih kv c hc)
    | .call p nm args, k, h => by
      simp only [kindOf] at h
      cases hn : funcNameOf nm with
      | error e => simp [hn] at h
      | ok fname =>
        simp only [hn] at h
        cases hf : lookupFunc fname with
        | none => simp [hf] at h
        | some fo =>
          simp only [hf] at h
          split at h
          · cases h
          · rename_i h1
            split at h
            · cases h
            · rename_i h2
              cases hb : fo.body with
              | none => simp [hb] at h
              | some b =>
                simp only [hb] at h
                obtain ⟨hargs, rfl⟩ := if_some h
                intro kv c hc
                rw [exec_call_eq' hn hf h1 h2 hb]
                exact rowBody_sound b args hargs kv c hc
    | .binop p op l r, k, h => by
      have ihr : ∀ k, kindOf r = some k → RowSound r k := fun k hk => exec_sound r k hk
      cases op with
      | not => rw [kindOf] at h; cases h
      | and =>
        simp only [kindOf] at h; obtain ⟨hc, rfl⟩ := if_some h; obtain ⟨h1, h2⟩ := and_true hc
        exact logic_sound (.inl rfl) (exec_sound l .bool (beq_some h1)) (exec_sound r .bool (beq_some h2))
      | kwAnd =>
        simp only [kindOf] at h; obtain ⟨hc, rfl⟩ := if_some h; obtain ⟨h1, h2⟩ := and_true hc
        exact logic_sound (.inr (.inl rfl)) (exec_sound l .bool (beq_some h1)) (exec_sound r .bool (beq_some h2))
      | or =>
        simp only [kindOf] at h; obtain ⟨hc, rfl⟩ := if_some h; obtain ⟨h1, h2⟩ := and_true hc
        exact logic_sound (.inr (.inr (.inl rfl))) (exec_sound l .bool (beq_some h1)) (exec_sound r .bool (beq_some h2))
      | kwOr =>
        simp only [kindOf] at h; obtain ⟨hc, rfl⟩ := if_some h; obtain ⟨h1, h2⟩ := and_true hc
        exact logic_sound (.inr (.inr (.inr rfl))) (exec_sound l .bool (beq_some h1)) (exec_sound r .bool (beq_some h2))
      | eq =>
        simp only [kindOf] at h; obtain ⟨hc, rfl⟩ := if_some h; obtain ⟨h1, h2⟩ := and_true hc
        have h2' : kindOf r = kindOf l := by simpa using (by simpa using h2 : kindOf l = kindOf r).symm
        rcases isScalar_cases h1 with hk | hk | hk <;>
          exact eq_sound (.inl rfl) rfl (exec_sound l _ hk) (exec_sound r _ (by rw [h2', hk]))
      | neq =>
        simp only [kindOf] at h; obtain ⟨hc, rfl⟩ := if_some h; obtain ⟨h1, h2⟩ := and_true hc
        have h2' : kindOf r = kindOf l := by simpa using (by simpa using h2 : kindOf l = kindOf r).symm
        rcases isScalar_cases h1 with hk | hk | hk <;>
          exact eq_sound (.inr rfl) rfl (exec_sound l _ hk) (exec_sound r _ (by rw [h2', hk]))
      | prefixMatch =>
        simp only [kindOf] at h; obtain ⟨hc, rfl⟩ := if_some h; obtain ⟨h1, h2⟩ := and_true hc
        exact match_sound (.inl rfl) (exec_sound l .text (beq_some h1)) (exec_sound r .text (beq_some h2))
      | regexMatch =>
        simp only [kindOf] at h; obtain ⟨hc, rfl⟩ := if_some h; obtain ⟨h1, h2⟩ := and_true hc
        exact match_sound (.inr rfl) (exec_sound l .text (beq_some h1)) (exec_sound r .text (beq_some h2))
      | gt =>
        simp only [kindOf] at h; obtain ⟨hc, rfl⟩ := if_some h; obtain ⟨h1, h2⟩ := and_true hc
        have h2' : kindOf r = kindOf l := by simpa using (by simpa using h2 : kindOf l = kindOf r).symm
        have h1' : kindOf l = some .text ∨ kindOf l = some .num := by simpa using h1
        rcases h1' with hk | hk
        · exact compare_sound (.inl rfl) (.inl rfl) hk (exec_sound l _ hk) (exec_sound r _ (by rw [h2', hk]))
        · exact compare_sound (.inl rfl) (.inr rfl) hk (exec_sound l _ hk) (exec_sound r _ (by rw [h2', hk]))
      | gte =>
        simp only [kindOf] at h; obtain ⟨hc, rfl⟩ := if_some h; obtain ⟨h1, h2⟩ := and_true hc
        have h2' : kindOf r = kindOf l := by simpa using (by simpa using h2 : kindOf l = kindOf r).symm
        have h1' : kindOf l = some .text ∨ kindOf l = some .num := by simpa using h1
        rcases h1' with hk | hk
        · exact compare_sound (.inr (.inl rfl)) (.inl rfl) hk (exec_sound l _ hk) (exec_sound r _ (by rw [h2', hk]))
        · exact compare_sound (.inr (.inl rfl)) (.inr rfl) hk (exec_sound l _ hk) (exec_sound r _ (by rw [h2', hk]))
      | lt =>
        simp only [kindOf] at h; obtain ⟨hc, rfl⟩ := if_some h; obtain ⟨h1, h2⟩ := and_true hc
        have h2' : kindOf r = kindOf l := by simpa using (by simpa using h2 : kindOf l = kindOf r).symm
        have h1' : kindOf l = some .text ∨ kindOf l = some .num := by simpa using h1
        rcases h1' with hk | hk
        · exact compare_sound (.inr (.inr (.inl rfl))) (.inl rfl) hk (exec_sound l _ hk) (exec_sound r _ (by rw [h2', hk]))
        · exact compare_sound (.inr (.inr (.inl rfl))) (.inr rfl) hk (exec_sound l _ hk) (exec_sound r _ (by rw [h2', hk]))
      | lte =>
        simp only [kindOf] at h; obtain ⟨hc, rfl⟩ := if_some h; obtain ⟨h1, h2⟩ := and_true hc
        have h2' : kindOf r = kindOf l := by simpa using (by simpa using h2 : kindOf l = kindOf r).symm
        have h1' : kindOf l = some .text ∨ kindOf l = some .num := by simpa using h1
        rcases h1' with hk | hk
        · exact compare_sound (.inr (.inr (.inr rfl))) (.inl rfl) hk (exec_sound l _ hk) (exec_sound r _ (by rw [h2', hk]))
        · exact compare_sound (.inr (.inr (.inr rfl))) (.inr rfl) hk (exec_sound l _ hk) (exec_sound r _ (by rw [h2', hk]))
      | sub =>
        simp only [kindOf] at h; obtain ⟨hc, rfl⟩ := if_some h; obtain ⟨h1, h2⟩ := and_true hc
        exact arith_sound (.inl rfl) (beq_some h1) (exec_sound l .num (beq_some h1)) (exec_sound r .num (beq_some h2))
      | mul =>
        simp only [kindOf] at h; obtain ⟨hc, rfl⟩ := if_some h; obtain ⟨h1, h2⟩ := and_true hc
        exact arith_sound (.inr (.inl rfl)) (beq_some h1) (exec_sound l .num (beq_some h1)) (exec_sound r .num (beq_some h2))
      | div =>
        simp only [kindOf] at h; obtain ⟨hc, rfl⟩ := if_some h; obtain ⟨h1, h2⟩ := and_true hc
        exact arith_sound (.inr (.inr (.inl rfl))) (beq_some h1) (exec_sound l .num (beq_some h1)) (exec_sound r .num (beq_some h2))
      | add =>
        simp only [kindOf] at h
        split at h
        · rename_i hc; cases h; obtain ⟨h1, h2⟩ := and_true hc
          exact concat_sound (beq_some h1) (exec_sound l .text (beq_some h1)) (exec_sound r .text (beq_some h2))
        · split at h
          · rename_i hc; cases h; obtain ⟨h1, h2⟩ := and_true hc
            exact arith_sound (.inr (.inr (.inr rfl))) (beq_some h1) (exec_sound l .num (beq_some h1)) (exec_sound r .num (beq_some h2))
          · cases h
      | between =>
        cases r with
        | list q items =>
          match items, h with
          | [lo, hi], h =>
            simp only [kindOf] at h; obtain ⟨hc, rfl⟩ := if_some h
            obtain ⟨h12, h3⟩ := and_true hc; obtain ⟨h1, h2⟩ := and_true h12
            have h1' : kindOf l = some .text ∨ kindOf l = some .num := by simpa using h1
            have hlo : kindOf lo = kindOf l := by simpa using h2
            have hhi : kindOf hi = kindOf l := by simpa using h3
            rcases h1' with hk | hk
            · exact between_sound (.inl rfl) hk (by rw [hlo, hk]) (by rw [hhi, hk]) (exec_sound l _ hk)
                (exec_sound lo _ (by rw [hlo, hk])) (exec_sound hi _ (by rw [hhi, hk]))
            · exact between_sound (.inr rfl) hk (by rw [hlo, hk]) (by rw [hhi, hk]) (exec_sound l _ hk)
                (exec_sound lo _ (by rw [hlo, hk])) (exec_sound hi _ (by rw [hhi, hk]))
          | [], h => simp [kindOf] at h
          | [_], h => simp [kindOf] at h
          | _ :: _ :: _ :: _, h => simp [kindOf] at h
        | _ => simp [kindOf] at h
      | in_ =>
        cases r with
        | list q items =>
          simp only [kindOf] at h
          split at h
          · rename_i hk
            obtain ⟨hit, rfl⟩ := if_some h
            have hkl := beq_some hk
            intro kv c hc
            rw [exec]
            refine .bind (exec_sound l .text hkl kv c hc) (inertAt hc) fun a ha => ?_
            exact execInItems_sound (hk_of hkl (.inl rfl)) ha items hit kv c hc
          · split at h
            · rename_i hk
              obtain ⟨hit, rfl⟩ := if_some h
              have hkl := beq_some hk
              intro kv c hc
              rw [exec]
              refine .bind (exec_sound l .num hkl kv c hc) (inertAt hc) fun a ha => ?_
              exact execInItems_sound (hk_of hkl (.inr rfl)) ha items hit kv c hc
            · cases h
        | call q nm args =>
          rw [kindOf] at h; obtain ⟨hc, rfl⟩ := if_some h
          rcases in_kinds hc with ⟨h1, h2⟩ | ⟨h1, h2⟩
          · exact in_list_sound (.inl ⟨q, nm, args, rfl⟩) (.inl ⟨rfl, rfl⟩) h2 (exec_sound l _ h1) (ihr _ h2)
          · exact in_list_sound (.inl ⟨q, nm, args, rfl⟩) (.inr ⟨rfl, rfl⟩) h2 (exec_sound l _ h1) (ihr _ h2)
        | ref q nm t =>
          rw [kindOf] at h; obtain ⟨hc, rfl⟩ := if_some h
          rcases in_kinds hc with ⟨h1, h2⟩ | ⟨h1, h2⟩
          · exact in_list_sound (.inr ⟨q, nm, t, rfl⟩) (.inl ⟨rfl, rfl⟩) h2 (exec_sound l _ h1) (ihr _ h2)
          · exact in_list_sound (.inr ⟨q, nm, t, rfl⟩) (.inr ⟨rfl, rfl⟩) h2 (exec_sound l _ h1) (ihr _ h2)
        | _ => simp [kindOf] at h

  theorem execInItems_sound : ∀ {number : Bool} {k : Kind}, ((number = true ∧ k = .num) ∨ (number = false ∧ k = .text)) →
      ∀ {left : Value}, left.hasKind k = true → ∀ (items : List Expr), allKind k items = true →
      ∀ (kv : Pair) (c : Ctx), c.enable = false →
        SndP (fun (v : Value) => v.hasKind .bool = true) (execInItems number left items kv) c
    | number, k, hk, left, hl, [], _, kv, c, _ => by rw [execInItems]; exact .pureK rfl c
    | number, k, hk, left, hl, e :: es, hit, kv, c, hc => by
      simp only [allKind] at hit
      obtain ⟨he, hes⟩ := and_true hit
      have hke := beq_some he
      rw [execInItems]
      have tw : (retType e != if number = true then tyTNUMBER else tyTSTR) = false := by
        rw [retType_of_kind e k hke]
        rcases hk with ⟨rfl, rfl⟩ | ⟨rfl, rfl⟩ <;> rfl
      simp only [tw, Bool.false_eq_true, if_false]
      refine .bind (exec_sound e k hke kv c hc) (inertAt hc) fun v hv => ?_
      refine .bind (.liftBool (compareBy_ok hk hl hv .eq) c) liftInert fun cc _ => ?_
      exact .ite (.pureK rfl c) (execInItems_sound hk hl es hes kv c hc)

  theorem execArgs_sound : ∀ (es : List Expr), allScalar es = true → ∀ (kv : Pair) (c : Ctx), c.enable = false →
      SndP (fun (_ : List Value) => True) (execArgs es kv) c
    | [], _, kv, c, _ => by rw [execArgs]; exact .pure trivial c
    | e :: es, h, kv, c, hc => by
      simp only [allScalar] at h
      obtain ⟨he, hes⟩ := and_true h
      rw [execArgs]
      have hx : SndP (fun (_ : Value) => True) (exec e kv) c := scalar_arg_sound (fun k hk => exec_sound e k hk) he hc
      refine .bind hx (inertAt hc) fun v _ => ?_
      refine .bind (execArgs_sound es hes kv c hc) (fun a c1 h => (execArgs_inert es kv).ctx_eq hc h) fun vs _ => ?_
      exact .pure trivial c

  theorem rowBody_sound : ∀ (b : Body) (args : List Expr), argsOk b args = true → ∀ (kv : Pair) (c : Ctx),
      c.enable = false → SndP (fun (v : Value) => v.hasKind b.res = true) (rowBody b args kv) c
    | .lower, [a], h, kv, c, hc => by
      simp only [argsOk] at h; rw [rowBody]
      exact .bind (exec_sound a .text (beq_some h) kv c hc) (inertAt hc) fun _ _ => .pureK rfl c
    | .upper, [a], h, kv, c, hc => by
      simp only [argsOk] at h; rw [rowBody]
      exact .bind (exec_sound a .text (beq_some h) kv c hc) (inertAt hc) fun _ _ => .pureK rfl c
    | .json, [a], h, kv, c, hc => by
      simp only [argsOk] at h; rw [rowBody]
      refine .bind (exec_sound a .text (beq_some h) kv c hc) (inertAt hc) fun v hv => ?_
      obtain ⟨x, hx⟩ := text_conv hv
      rw [hx]; exact .pureK rfl c
    | .toInt, [a], h, kv, c, hc => by
      simp only [argsOk] at h; rw [rowBody]
      rcases isScalar_cases h with hk | hk | hk <;>
        exact .bind (exec_sound a _ hk kv c hc) (inertAt hc) fun _ _ => .pureK rfl c
    | .toFloat, [a], h, kv, c, hc => by
      simp only [argsOk] at h; rw [rowBody]
      rcases isScalar_cases h with hk | hk | hk <;>
        exact .bind (exec_sound a _ hk kv c hc) (inertAt hc) fun _ _ => .pureK rfl c
    | .toStr, [a], h, kv, c, hc => by
      simp only [argsOk] at h; rw [rowBody]
      rcases isScalar_cases h with hk | hk | hk <;>
        exact .bind (exec_sound a _ hk kv c hc) (inertAt hc) fun _ _ => .pureK rfl c
    | .strlen, [a], h, kv, c, hc => by
      simp only [argsOk] at h; rw [rowBody]
      rcases isScalar_cases h with hk | hk | hk <;>
        exact .bind (exec_sound a _ hk kv c hc) (inertAt hc) fun _ _ => .pureK rfl c
    | .isInt, [a], h, kv, c, hc => by
      simp only [argsOk] at h; rw [rowBody]
      rcases isScalar_cases h with hk | hk | hk <;>
        exact .bind (exec_sound a _ hk kv c hc) (inertAt hc) fun _ _ => .pureK rfl c
    | .isFloat, [a], h, kv, c, hc => by
      simp only [argsOk] at h; rw [rowBody]
      rcases isScalar_cases h with hk | hk | hk <;>
        exact .bind (exec_sound a _ hk kv c hc) (inertAt hc) fun _ _ => .pureK rfl c
    | .subStr, [a0, a1, a2], h, kv, c, hc => by
      simp only [argsOk] at h
      obtain ⟨h01, h2⟩ := and_true h; obtain ⟨h0, h1⟩ := and_true h01
      rw [rowBody]
      refine .bind (exec_sound a0 .text (beq_some h0) kv c hc) (inertAt hc) fun v _ => ?_
      rw [retType_of_kind a1 .num (beq_some h1), retType_of_kind a2 .num (beq_some h2)]
      simp only [Kind.code, bne_self_eq_false, Bool.false_eq_true, if_false]
      exact .bind (exec_sound a1 .num (beq_some h1) kv c hc) (inertAt hc) fun s _ =>
        .bind (exec_sound a2 .num (beq_some h2) kv c hc) (inertAt hc) fun l _ => .liftK (ks_ok rfl) c
    | .split, [a0, a1], h, kv, c, hc => by
      simp only [argsOk] at h
      obtain ⟨h0, h1⟩ := and_true h
      rw [rowBody]
      refine .bind (exec_sound a0 .text (beq_some h0) kv c hc) (inertAt hc) fun v _ => ?_
      rw [retType_of_kind a1 .text (beq_some h1)]
      simp only [Kind.code, bne_self_eq_false, Bool.false_eq_true, if_false]
      exact .bind (exec_sound a1 .text (beq_some h1) kv c hc) (inertAt hc) fun s _ => .pureK rfl c
    | .join, a0 :: rest, h, kv, c, hc => by
      simp only [argsOk] at h
      obtain ⟨h0, h1⟩ := and_true h
      rw [rowBody, retType_of_kind a0 .text (beq_some h0)]
      simp only [Kind.code, bne_self_eq_false, Bool.false_eq_true, if_false]
      exact .bind (exec_sound a0 .text (beq_some h0) kv c hc) (inertAt hc) fun _ _ =>
        .bind (execArgs_sound rest h1 kv c hc) (fun a c1 h => (execArgs_inert rest kv).ctx_eq hc h) fun _ _ => .pureK rfl c
    | .len, [a], h, kv, c, hc => by
      simp only [argsOk] at h; rw [rowBody]
      have hx : SndP (fun (v : Value) => v.hasKind .listText = true ∨ v.hasKind .listNum = true ∨ v.hasKind .text = true)
          (exec a kv) c := by
        have h' : isList (kindOf a) = true ∨ kindOf a = some .text := by simpa using h
        rcases h' with hl | hk
        · rcases isList_cases hl with hk | hk
          · exact (exec_sound a _ hk kv c hc).weaken fun _ hv => .inl hv
          · exact (exec_sound a _ hk kv c hc).weaken fun _ hv => .inr (.inl hv)
        · exact (exec_sound a _ hk kv c hc).weaken fun _ hv => .inr (.inr hv)
      refine .bind hx (inertAt hc) fun v hv => ?_
      obtain ⟨n, hn⟩ := getListLength_of hv
      rw [hn]
      exact .bind (Q := fun _ => True) (.lift (fun _ _ => trivial) (by simp) c) liftInert fun _ _ => .pureK rfl c
    | .cosine, [a0, a1], h, kv, c, hc => by
      simp only [argsOk] at h
      obtain ⟨h0, h1⟩ := and_true h
      rw [rowBody]
      refine .bind (list_arg_sound (fun k hk => exec_sound a0 k hk) h0 hc) (inertAt hc) fun l hl =>
        .bind (list_arg_sound (fun k hk => exec_sound a1 k hk) h1 hc) (inertAt hc) fun r hr => ?_
      refine .bind (Q := fun _ => True) (.lift (fun _ _ => trivial) (toFloatList_of hl) c) liftInert fun lv _ => ?_
      refine .bind (Q := fun _ => True) (.lift (fun _ _ => trivial) (toFloatList_of hr) c) liftInert fun rv _ => ?_
      refine .bind (Q := fun _ => True) (.lift (fun _ _ => trivial) ?_ c) liftInert fun _ _ => .pureK rfl c
      unfold cosineDistance; split <;> simp
    | .l2, [a0, a1], h, kv, c, hc => by
      simp only [argsOk] at h
      obtain ⟨h0, h1⟩ := and_true h
      rw [rowBody]
      refine .bind (list_arg_sound (fun k hk => exec_sound a0 k hk) h0 hc) (inertAt hc) fun l hl =>
        .bind (list_arg_sound (fun k hk => exec_sound a1 k hk) h1 hc) (inertAt hc) fun r hr => ?_
      refine .bind (Q := fun _ => True) (.lift (fun _ _ => trivial) (toFloatList_of hl) c) liftInert fun lv _ => ?_
      refine .bind (Q := fun _ => True) (.lift (fun _ _ => trivial) (toFloatList_of hr) c) liftInert fun rv _ => ?_
      refine .bind (Q := fun _ => True) (.lift (fun _ _ => trivial) ?_ c) liftInert fun _ _ => .pureK rfl c
      unfold l2Distance; split <;> simp
    | .intList, a :: rest, h, kv, c, hc => by
      simp only [argsOk] at h
      obtain ⟨h0, h1⟩ := and_true h
      rw [rowBody]
      have hx : SndP (fun (_ : Value) => True) (exec a kv) c := scalar_arg_sound (fun k hk => exec_sound a k hk) h0 hc
      exact .bind hx (inertAt hc) fun _ _ =>
        .bind (execArgs_sound rest h1 kv c hc) (fun a c1 h => (execArgs_inert rest kv).ctx_eq hc h) fun _ _ => .pureK rfl c
    | .floatList, a :: rest, h, kv, c, hc => by
      simp only [argsOk] at h
      obtain ⟨h0, h1⟩ := and_true h
      rw [rowBody]
      have hx : SndP (fun (_ : Value) => True) (exec a kv) c := scalar_arg_sound (fun k hk => exec_sound a k hk) h0 hc
      exact .bind hx (inertAt hc) fun _ _ =>
        .bind (execArgs_sound rest h1 kv c hc) (fun a c1 h => (execArgs_inert rest kv).ctx_eq hc h) fun _ _ => .pureK rfl c
    | .toList, a :: rest, h, kv, c, hc => by
      simp only [argsOk] at h
      obtain ⟨h0, h1⟩ := and_true h
      rw [rowBody]
      have hx : SndP (fun (_ : Value) => True) (exec a kv) c := scalar_arg_sound (fun k hk => exec_sound a k hk) h0 hc
      refine .bind hx (inertAt hc) fun _ _ => .bind hx (inertAt hc) fun _ _ =>
        .bind (execArgs_sound rest h1 kv c hc) (fun a c1 h => (execArgs_inert rest kv).ctx_eq hc h) fun _ _ => ?_
      exact .ite (.pureK rfl c) (.pureK rfl c)
    | .lower, [], h, _, _, _ | .lower, _ :: _ :: _, h, _, _, _
    | .upper, [], h, _, _, _ | .upper, _ :: _ :: _, h, _, _, _
    | .json, [], h, _, _, _ | .json, _ :: _ :: _, h, _, _, _
    | .toInt, [], h, _, _, _ | .toInt, _ :: _ :: _, h, _, _, _
    | .toFloat, [], h, _, _, _ | .toFloat, _ :: _ :: _, h, _, _, _
    | .toStr, [], h, _, _, _ | .toStr, _ :: _ :: _, h, _, _, _
    | .strlen, [], h, _, _, _ | .strlen, _ :: _ :: _, h, _, _, _
    | .isInt, [], h, _, _, _ | .isInt, _ :: _ :: _, h, _, _, _
    | .isFloat, [], h, _, _, _ | .isFloat, _ :: _ :: _, h, _, _, _
    | .len, [], h, _, _, _ | .len, _ :: _ :: _, h, _, _, _
    | .subStr, [], h, _, _, _ | .subStr, [_], h, _, _, _ | .subStr, [_, _], h, _, _, _
    | .subStr, _ :: _ :: _ :: _ :: _, h, _, _, _
    | .split, [], h, _, _, _ | .split, [_], h, _, _, _ | .split, _ :: _ :: _ :: _, h, _, _, _
    | .cosine, [], h, _, _, _ | .cosine, [_], h, _, _, _ | .cosine, _ :: _ :: _ :: _, h, _, _, _
    | .l2, [], h, _, _, _ | .l2, [_], h, _, _, _ | .l2, _ :: _ :: _ :: _, h, _, _, _
    | .join, [], h, _, _, _ | .intList, [], h, _, _, _ | .floatList, [], h, _, _, _ | .toList, [], h, _, _, _ => by
      simp [argsOk] at h
end

end Kvql
