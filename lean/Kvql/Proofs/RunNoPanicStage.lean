/-
  RunNoPanic, part 11: `planStage` — everything `BuildPlan` decides before the first storage call — on
  the tokens of the lexer never panics and never runs out of fuel:
    * `Parse`: RunNoPanicParse (`parse_no_panic`, `parse_no_fuel`);
    * `checkStatementFunctionCalls` (`walkCalls`): its one panic site is the cycle marker, which the
      trees of a parsed statement do not contain;
    * `buildFinalPlan` (`finalPlanCheck`): no panic site;
    * the aggregate constructors (`aggrCtor`: `args[1]`): the arity was validated by `walkCalls`.
-/
import Kvql.Proofs.RunNoPanicParse
import Kvql.Proofs.RunWriteAliasFree

namespace Kvql.Proofs.RunNoPanic

open Kvql Kvql.Parser Kvql.PlanCheck Kvql.Proofs.Typing Kvql.Generated

variable {pf : Bytes → F64}

/-- neither a panic nor out of fuel -/
def Tame {α : Type} (r : Res α) : Prop := (∀ s, r ≠ .panic s) ∧ r ≠ .outOfFuel

theorem Tame.ok {α : Type} (a : α) : Tame (.ok a : Res α) := by unfold Tame; simp
theorem Tame.pure {α : Type} (a : α) : Tame (pure a : Res α) := Tame.ok a
theorem Tame.err {α : Type} (e : PErr) : Tame (.err e : Res α) := by unfold Tame; simp
theorem Tame.synErr {α : Type} (p : Nat) : Tame (synErr p : Res α) := Tame.err _
theorem Tame.eofErr {α : Type} : Tame (eofErr : Res α) := Tame.err _
theorem Tame.unsup {α : Type} (w : String) : Tame (.unsupported w : Res α) := by unfold Tame; simp

theorem Tame.bind {α β : Type} {x : Res α} {f : α → Res β} (hx : Tame x) (hf : ∀ a, x = .ok a → Tame (f a)) :
    Tame (x >>= f) := by
  cases x with
  | ok a => exact hf a rfl
  | err e => exact Tame.err e
  | panic s => exact absurd rfl (hx.1 s)
  | outOfFuel => exact absurd rfl hx.2
  | unsupported w => exact Tame.unsup w

/-! ### `checkStatementFunctionCalls` -/

theorem argTypeCheck_tame : ∀ (tps : List Nat) (args : List Expr), Tame (argTypeCheck tps args)
  | [], _ => by unfold argTypeCheck; exact Tame.pure _
  | _ :: _, [] => by unfold argTypeCheck; exact Tame.pure _
  | tp :: tps, a :: as => by
    unfold argTypeCheck
    split
    · exact Tame.synErr _
    · exact argTypeCheck_tame tps as

theorem callCheck_tame (site : Bool) (pos : Nat) (nm : Expr) (args : List Expr) : Tame (callCheck site pos nm args) := by
  unfold callCheck
  split
  · split
    · exact Tame.synErr _
    · split
      · split
        · exact argTypeCheck_tame _ _
        · exact Tame.pure _
      · exact Tame.synErr _
  · exact Tame.synErr _

mutual
  theorem walkCalls_tame : ∀ (e : Expr) (site : Bool), noCyc e = true → Tame (walkCalls site e)
    | .binop _ _ l r, site, h => by
      simp only [noCyc, Bool.and_eq_true] at h
      simp only [walkCalls]
      exact Tame.bind (walkCalls_tame l site h.1) (fun _ _ => walkCalls_tame r site h.2)
    | .not _ r, _, h => by
      simp only [noCyc] at h
      simp only [walkCalls]
      exact walkCalls_tame r false h
    | .call pos nm args, site, h => by
      simp only [noCyc, Bool.and_eq_true] at h
      simp only [walkCalls]
      exact Tame.bind (callCheck_tame _ _ _ _) (fun _ _ =>
        Tame.bind (walkCalls_tame nm false h.1) (fun _ _ => walkCallsList_tame args h.2))
    | .ref _ _ t, _, h => by
      simp only [noCyc] at h
      simp only [walkCalls]
      exact walkCalls_tame t false h
    | .cycle, _, h => by simp [noCyc] at h
    | .list _ items, _, h => by
      simp only [noCyc] at h
      simp only [walkCalls]
      exact walkCallsList_tame items h
    | .access _ l f, _, h => by
      simp only [noCyc, Bool.and_eq_true] at h
      simp only [walkCalls]
      exact Tame.bind (walkCalls_tame l false h.1) (fun _ _ => walkCalls_tame f false h.2)
    | .field .., _, _ | .str .., _, _ | .name .., _, _ | .num .., _, _ | .float .., _, _ | .bool .., _, _ => by
      simp only [walkCalls]; exact Tame.pure _
  theorem walkCallsList_tame : ∀ (es : List Expr), noCycList es = true → Tame (walkCallsList es)
    | [], _ => by simp only [walkCallsList]; exact Tame.pure _
    | e :: es, h => by
      simp only [noCycList, Bool.and_eq_true] at h
      simp only [walkCallsList]
      exact Tame.bind (walkCalls_tame e false h.1) (fun _ _ => walkCallsList_tame es h.2)
end

theorem walkFields_tame : ∀ (fs : List Expr), (∀ f ∈ fs, noCyc f = true) → Tame (walkFields fs)
  | [], _ => by simp only [walkFields]; exact Tame.pure _
  | f :: fs, h => by
    simp only [walkFields]
    exact Tame.bind (walkCalls_tame f true (h f (by simp))) (fun _ _ =>
      walkFields_tame fs (fun g hg => h g (by simp [hg])))

theorem walkKeys_tame : ∀ (ks : List Expr), (∀ k ∈ ks, noCyc k = true) → Tame (walkKeys ks)
  | [], _ => by simp only [walkKeys]; exact Tame.pure _
  | k :: ks, h => by
    simp only [walkKeys]
    exact Tame.bind (walkCalls_tame k false (h k (by simp))) (fun _ _ =>
      walkKeys_tame ks (fun g hg => h g (by simp [hg])))

theorem walkPairs_tame : ∀ (ps : List (Expr × Expr)), (∀ p ∈ ps, noCyc p.1 = true ∧ noCyc p.2 = true) →
    Tame (walkPairs ps)
  | [], _ => by simp only [walkPairs]; exact Tame.pure _
  | (k, v) :: ps, h => by
    simp only [walkPairs]
    have hkv := h (k, v) (by simp)
    exact Tame.bind (walkCalls_tame k false hkv.1) (fun _ _ =>
      Tame.bind (walkCalls_tame v false hkv.2) (fun _ _ =>
        walkPairs_tame ps (fun g hg => h g (by simp [hg]))))

/-! ### the trees of a parsed statement carry no cycle marker -/

/-- the statement's trees have no cycle marker and no negative literal -/
def StmtClean : Stmt → Prop
  | .select s => Clean s.where_ ∧ ∀ f ∈ s.fields, Clean f
  | .put _ pairs => ∀ kv ∈ pairs, Clean kv.1 ∧ Clean kv.2
  | .remove _ keys => ∀ k ∈ keys, Clean k
  | .delete _ _ w _ => Clean w

open Kvql.Proofs.RunWrite in
theorem parse_delete_aliasFree {toks : Toks} {pos wpos : Nat} {w : Expr} {lim : Option LimitS}
    (hp : Parse pf toks = .ok (.delete pos wpos w lim)) : aliasFree w = true := by
  rcases parse_inv hp with ⟨_, _, _, h1⟩ | ⟨_, _, _, h1⟩ | ⟨_, _, _, h1⟩ | ⟨_, _, _, _, _, _, h1⟩
  · obtain ⟨_, _, _, _, _, _, he⟩ := parsePut_inv h1; cases he
  · obtain ⟨_, _, _, _, _, _, he⟩ := parseRemove_inv h1; cases he
  · obtain ⟨_, _, wexpr, _, w', _, _, _, _, _, hpe, hck, _, he⟩ := parseDelete_inv' h1
    cases he
    exact check_af (ctx := {}) rfl wexpr w (parseExpr_aliasFree pf hpe) hck
  · obtain ⟨_, _, _, _, _, _, _, _, _, _, _, _, _, _, _, _, he, _⟩ := parseWhere_inv h1
    cases he

open Kvql.Proofs.RunWrite in
theorem parse_put_aliasFree {toks : Toks} {pos : Nat} {pairs : List (Expr × Expr)}
    (hp : Parse pf toks = .ok (.put pos pairs)) : putAliasFree pairs = true := by
  rcases parse_inv hp with ⟨ef, lf, _, h1⟩ | ⟨_, _, _, h1⟩ | ⟨_, _, _, h1⟩ | ⟨_, _, _, _, _, _, h1⟩
  · obtain ⟨_, ps, ps', ts1, hloop, hval, he⟩ := parsePut_inv h1
    cases he
    exact validatePut_af (ctx := { notAllowValue := true }) rfl ps _
      (putLoop_af ef lf [] ts1 ps (fun _ hp => by cases hp) hloop) hval
  · obtain ⟨_, _, _, _, _, _, he⟩ := parseRemove_inv h1; cases he
  · obtain ⟨_, _, _, _, _, _, _, _, _, _, he⟩ := parseDelete_inv h1; cases he
  · obtain ⟨_, _, _, _, _, _, _, _, _, _, _, _, _, _, _, _, he, _⟩ := parseWhere_inv h1
    cases he

open Kvql.Proofs.RunWrite in
theorem parse_remove_aliasFree {toks : Toks} {pos : Nat} {keys : List Expr}
    (hp : Parse pf toks = .ok (.remove pos keys)) : removeAliasFree keys = true := by
  rcases parse_inv hp with ⟨_, _, _, h1⟩ | ⟨ef, lf, _, h1⟩ | ⟨_, _, _, h1⟩ | ⟨_, _, _, _, _, _, h1⟩
  · obtain ⟨_, _, _, _, _, _, he⟩ := parsePut_inv h1; cases he
  · obtain ⟨_, ks, ks', ts1, hloop, hval, he⟩ := parseRemove_inv h1
    cases he
    exact validateRemove_af (ctx := { notAllowKey := true, notAllowValue := true }) rfl ks _
      (removeLoop_af ef lf [] ts1 ks (fun _ hp => by cases hp) hloop) hval
  · obtain ⟨_, _, _, _, _, _, _, _, _, _, he⟩ := parseDelete_inv h1; cases he
  · obtain ⟨_, _, _, _, _, _, _, _, _, _, _, _, _, _, _, _, he, _⟩ := parseWhere_inv h1
    cases he

/-- what `Parse` accepts is clean -/
theorem parse_stmt_clean {toks : Toks} {stmt : Stmt} (hp : Parse pf toks = .ok stmt) (hnum : NumToksOK toks) :
    StmtClean stmt := by
  cases stmt with
  | select s =>
    obtain ⟨_, hw, hf, _⟩ := parse_select_good hp hnum
    exact ⟨hw, hf⟩
  | put pos pairs =>
    intro kv hkv
    have haf := parse_put_aliasFree hp
    have hn := parse_put_good hp hnum kv hkv
    simp only [Kvql.Proofs.RunWrite.putAliasFree, List.all_eq_true, Bool.and_eq_true] at haf
    exact ⟨⟨noCyc_of_aliasFree _ (haf kv hkv).1, hn.1⟩, ⟨noCyc_of_aliasFree _ (haf kv hkv).2, hn.2⟩⟩
  | remove pos keys =>
    intro k hk
    have haf := parse_remove_aliasFree hp
    simp only [Kvql.Proofs.RunWrite.removeAliasFree, List.all_eq_true] at haf
    exact ⟨noCyc_of_aliasFree _ (haf k hk), parse_remove_good hp hnum k hk⟩
  | delete pos wpos w lim =>
    exact ⟨noCyc_of_aliasFree _ (parse_delete_aliasFree hp), parse_delete_good hp hnum⟩

theorem checkStmtCalls_tame {stmt : Stmt} (h : StmtClean stmt) : Tame (checkStmtCalls stmt) := by
  cases stmt with
  | select s =>
    simp only [checkStmtCalls]
    exact Tame.bind (walkCalls_tame _ _ h.1.1) (fun _ _ => walkFields_tame _ (fun f hf => (h.2 f hf).1))
  | put pos pairs =>
    simp only [checkStmtCalls]
    exact walkPairs_tame _ (fun p hp => ⟨(h p hp).1.1, (h p hp).2.1⟩)
  | remove pos keys =>
    simp only [checkStmtCalls]
    exact walkKeys_tame _ (fun k hk => (h k hk).1)
  | delete pos wpos w lim =>
    simp only [checkStmtCalls]
    exact walkCalls_tame _ _ h.1

/-! ### `buildFinalPlan` and the aggregate constructors -/

theorem finalPlanCheck_tame (s : SelectS) : Tame (finalPlanCheck s) := by
  unfold finalPlanCheck
  split
  · exact Tame.unsup _
  dsimp only
  repeat' split
  all_goals first
    | exact Tame.unsup _
    | exact Tame.synErr _
    | exact Tame.eofErr
    | exact Tame.pure _

/-- the two constructors that index `args[1]` belong to functions of exactly two arguments, and no
    aggregate function is a scalar function as well (regenerated tables) -/
theorem aggrTable_facts :
    (∀ e ∈ aggrTable, (e.2.2.2.2 = ["newAggrQuantileFunc"] ∨ e.2.2.2.2 = ["newAggrGroupConcatFunc"]) →
      e.2.1 = 2 ∧ e.2.2.1 = false) ∧
    (∀ e ∈ aggrTable, lookupFunc (asciiBytes e.1) = none) := by
  constructor <;> decide +kernel

theorem aggrEntry_mem {fname : Bytes} {e : String × Nat × Bool × Nat × List String} (h : aggrEntry fname = some e) :
    e ∈ aggrTable ∧ asciiBytes e.1 = fname := by
  unfold aggrEntry at h
  have h1 := List.mem_of_find?_eq_some h
  have h2 := List.find?_some h
  exact ⟨h1, by simpa using h2⟩

/-- the constructor of an aggregate call whose argument count is the declared one -/
theorem aggrCtor_tame (fname : Bytes) (args : List Expr)
    (h : ∀ e, aggrEntry fname = some e → e.2.2.1 = false → args.length = e.2.1) : Tame (aggrCtor fname args) := by
  unfold aggrCtor
  split
  · rename_i a b c d heq
    obtain ⟨hm, _⟩ := aggrEntry_mem heq
    have hf := aggrTable_facts.1 _ hm (.inl rfl)
    have hl := h _ heq hf.2
    simp only at hf hl
    split
    · split
      · exact Tame.synErr _
      · split
        · split
          · exact Tame.unsup _
          · exact Tame.pure _
        · exact Tame.unsup _
        · exact Tame.unsup _
    · rename_i hne
      exfalso
      rw [hf.1] at hl
      match args, hl with
      | [x, y], _ => exact hne x y rfl
  · rename_i a b c d heq
    obtain ⟨hm, _⟩ := aggrEntry_mem heq
    have hf := aggrTable_facts.1 _ hm (.inr rfl)
    have hl := h _ heq hf.2
    simp only at hf hl
    split
    · split
      · exact Tame.synErr _
      · split
        · exact Tame.pure _
        · exact Tame.pure _
        · exact Tame.unsup _
    · rename_i hne
      exfalso
      rw [hf.1] at hl
      match args, hl with
      | [x, y], _ => exact hne x y rfl
  · exact Tame.pure _

/-- a validated field: every aggregate call `aggrInit` will construct has the declared argument count -/
theorem listAggrCalls_arity : ∀ (f : Expr), walkCalls true f = .ok () →
    ∀ c ∈ listAggrCalls f, ∀ e, aggrEntry c.1 = some e → e.2.2.1 = false → c.2.length = e.2.1
  | .binop _ _ l r, h, c, hc, e, he, hv => by
    simp only [walkCalls] at h
    obtain ⟨_, h1, h2⟩ := bind_ok_iff.mp h
    simp only [listAggrCalls, List.mem_append] at hc
    rcases hc with hc | hc
    · exact listAggrCalls_arity l h1 c hc e he hv
    · exact listAggrCalls_arity r h2 c hc e he hv
  | .call pos nm args, h, c, hc, e, he, hv => by
    cases nm with
    | name q d =>
      simp only [listAggrCalls] at hc
      split at hc
      · simp only [List.mem_singleton] at hc
        subst hc
        replace he : aggrEntry (toLower d) = some e := he
        show args.length = e.2.1
        simp only [walkCalls] at h
        obtain ⟨_, h1, _⟩ := bind_ok_iff.mp h
        obtain ⟨hm, hnm⟩ := aggrEntry_mem he
        have hsc : scalarSig (toLower d) = none := by
          unfold scalarSig
          rw [← hnm, aggrTable_facts.2 _ hm]
          rfl
        unfold callCheck at h1
        simp only [findSig, hsc, if_true, aggrSig, he, Option.map_some] at h1
        split at h1
        · rename_i hok
          simp only [arityOk, hv, Bool.not_false, Bool.true_and, Bool.false_and, Bool.not_false,
            Bool.and_true, Bool.not_eq_eq_eq_not, Bool.not_true, bne_eq_false_iff_eq] at hok
          exact hok
        · simp [synErr] at h1
      · simp at hc
    | _ => simp [listAggrCalls] at hc
  | .field .., _, c, hc, _, _, _ | .str .., _, c, hc, _, _, _ | .name .., _, c, hc, _, _, _
  | .num .., _, c, hc, _, _, _ | .float .., _, c, hc, _, _, _ | .bool .., _, c, hc, _, _, _
  | .not .., _, c, hc, _, _, _ | .ref .., _, c, hc, _, _, _ | .cycle, _, c, hc, _, _, _
  | .list .., _, c, hc, _, _, _ | .access .., _, c, hc, _, _, _ => by
    simp [listAggrCalls] at hc

theorem aggrCtors_tame : ∀ (cs : List (Bytes × List Expr)),
    (∀ c ∈ cs, ∀ e, aggrEntry c.1 = some e → e.2.2.1 = false → c.2.length = e.2.1) → Tame (aggrCtors cs)
  | [], _ => by simp only [aggrCtors]; exact Tame.pure _
  | (n, args) :: rest, h => by
    simp only [aggrCtors]
    exact Tame.bind (aggrCtor_tame n args (h (n, args) (by simp))) (fun _ _ =>
      aggrCtors_tame rest (fun c hc => h c (by simp [hc])))

theorem aggrInit_tame : ∀ (fs : List Expr), walkFields fs = .ok () → Tame (aggrInit fs)
  | [], _ => by simp only [aggrInit]; exact Tame.pure _
  | f :: fs, h => by
    simp only [walkFields] at h
    obtain ⟨_, h1, h2⟩ := bind_ok_iff.mp h
    simp only [aggrInit]
    exact Tame.bind (aggrCtors_tame _ (listAggrCalls_arity f h1)) (fun _ _ => aggrInit_tame fs h2)

theorem buildStage_tame {stmt : Stmt} (h : checkStmtCalls stmt = .ok ()) : Tame (buildStage stmt) := by
  cases stmt with
  | select s =>
    simp only [checkStmtCalls] at h
    obtain ⟨_, _, h2⟩ := bind_ok_iff.mp h
    simp only [buildStage]
    refine Tame.bind (finalPlanCheck_tame s) (fun b _ => ?_)
    split
    · exact aggrInit_tame _ h2
    · exact Tame.pure _
  | put _ _ => simp only [buildStage]; exact Tame.pure _
  | remove _ _ => simp only [buildStage]; exact Tame.pure _
  | delete _ _ _ _ => simp only [buildStage]; exact Tame.pure _

/-! ### the function-call validation never leaves the modelled fragment -/

def NoUnsup {α : Type} (r : Res α) : Prop := ∀ w, r ≠ .unsupported w

theorem NoUnsup.ok {α : Type} (a : α) : NoUnsup (.ok a : Res α) := by intro w h; cases h
theorem NoUnsup.pure {α : Type} (a : α) : NoUnsup (pure a : Res α) := NoUnsup.ok a
theorem NoUnsup.err {α : Type} (e : PErr) : NoUnsup (.err e : Res α) := by intro w h; cases h
theorem NoUnsup.panic {α : Type} (s : String) : NoUnsup (.panic s : Res α) := by intro w h; cases h

theorem NoUnsup.bind {α β : Type} {x : Res α} {f : α → Res β} (hx : NoUnsup x) (hf : ∀ a, NoUnsup (f a)) :
    NoUnsup (x >>= f) := by
  cases x with
  | ok a => exact hf a
  | err e => exact NoUnsup.err e
  | panic s => exact NoUnsup.panic s
  | outOfFuel => intro w h; cases h
  | unsupported w => exact absurd rfl (hx w)

theorem argTypeCheck_noUnsup : ∀ (tps : List Nat) (args : List Expr), NoUnsup (argTypeCheck tps args)
  | [], _ => by unfold argTypeCheck; exact NoUnsup.pure _
  | _ :: _, [] => by unfold argTypeCheck; exact NoUnsup.pure _
  | tp :: tps, a :: as => by
    unfold argTypeCheck
    split
    · exact NoUnsup.err _
    · exact argTypeCheck_noUnsup tps as

theorem callCheck_noUnsup (site : Bool) (pos : Nat) (nm : Expr) (args : List Expr) :
    NoUnsup (callCheck site pos nm args) := by
  unfold callCheck
  split
  · split
    · exact NoUnsup.err _
    · split
      · split
        · exact argTypeCheck_noUnsup _ _
        · exact NoUnsup.pure _
      · exact NoUnsup.err _
  · exact NoUnsup.err _

mutual
  theorem walkCalls_noUnsup : ∀ (e : Expr) (site : Bool), NoUnsup (walkCalls site e)
    | .binop _ _ l r, site => by
      simp only [walkCalls]
      exact NoUnsup.bind (walkCalls_noUnsup l site) (fun _ => walkCalls_noUnsup r site)
    | .not _ r, _ => by simp only [walkCalls]; exact walkCalls_noUnsup r false
    | .call pos nm args, site => by
      simp only [walkCalls]
      exact NoUnsup.bind (callCheck_noUnsup _ _ _ _) (fun _ =>
        NoUnsup.bind (walkCalls_noUnsup nm false) (fun _ => walkCallsList_noUnsup args))
    | .ref _ _ t, _ => by simp only [walkCalls]; exact walkCalls_noUnsup t false
    | .cycle, _ => by simp only [walkCalls]; exact NoUnsup.panic _
    | .list _ items, _ => by simp only [walkCalls]; exact walkCallsList_noUnsup items
    | .access _ l f, _ => by
      simp only [walkCalls]
      exact NoUnsup.bind (walkCalls_noUnsup l false) (fun _ => walkCalls_noUnsup f false)
    | .field .., _ | .str .., _ | .name .., _ | .num .., _ | .float .., _ | .bool .., _ => by
      simp only [walkCalls]; exact NoUnsup.pure _
  theorem walkCallsList_noUnsup : ∀ (es : List Expr), NoUnsup (walkCallsList es)
    | [] => by simp only [walkCallsList]; exact NoUnsup.pure _
    | e :: es => by
      simp only [walkCallsList]
      exact NoUnsup.bind (walkCalls_noUnsup e false) (fun _ => walkCallsList_noUnsup es)
end

theorem checkStmtCalls_noUnsup (stmt : Stmt) : NoUnsup (checkStmtCalls stmt) := by
  cases stmt with
  | select s =>
    simp only [checkStmtCalls]
    refine NoUnsup.bind (walkCalls_noUnsup _ _) (fun _ => ?_)
    generalize s.fields = fs
    induction fs with
    | nil => simp only [walkFields]; exact NoUnsup.pure _
    | cons f fs ih => simp only [walkFields]; exact NoUnsup.bind (walkCalls_noUnsup f true) (fun _ => ih)
  | put pos pairs =>
    simp only [checkStmtCalls]
    induction pairs with
    | nil => simp only [walkPairs]; exact NoUnsup.pure _
    | cons p ps ih =>
      obtain ⟨k, v⟩ := p
      simp only [walkPairs]
      exact NoUnsup.bind (walkCalls_noUnsup k false) (fun _ => NoUnsup.bind (walkCalls_noUnsup v false) (fun _ => ih))
  | remove pos keys =>
    simp only [checkStmtCalls]
    induction keys with
    | nil => simp only [walkKeys]; exact NoUnsup.pure _
    | cons k ks ih => simp only [walkKeys]; exact NoUnsup.bind (walkCalls_noUnsup k false) (fun _ => ih)
  | delete pos wpos w lim =>
    simp only [checkStmtCalls]
    exact walkCalls_noUnsup _ _

/-! ### the theorem -/

/-- `planStage` on tokens without negative NUMBER never panics and never runs out of fuel -/
theorem planStage_tame_of_nums {toks : Toks} (hnum : NumToksOK toks) : Tame (planStage pf toks) := by
  unfold planStage frontStage
  have hparse : Tame (Parse pf toks) := ⟨fun s => parse_no_panic toks s hnum, parse_no_fuel toks⟩
  refine Tame.bind (Tame.bind hparse (fun stmt hp => ?_)) (fun stmt hfront => ?_)
  · exact Tame.bind (checkStmtCalls_tame (parse_stmt_clean hp hnum)) (fun _ _ => Tame.pure _)
  · obtain ⟨s0, _, h3⟩ := bind_ok_iff.mp hfront
    obtain ⟨u, hc, h4⟩ := bind_ok_iff.mp h3
    cases h4
    exact Tame.bind (buildStage_tame hc) (fun _ _ => Tame.pure _)

/-- **`planStage` ON A STATEMENT TEXT NEVER PANICS AND NEVER RUNS OUT OF FUEL.** -/
theorem planStage_tame (query : Bytes) : Tame (planStage pf (Lexer.split query)) :=
  planStage_tame_of_nums (split_numToksOK query)

/-- what `planStage` accepts is clean -/
theorem accepted_stmt_clean {query : Bytes} {stmt : Stmt} (h : planStage pf (Lexer.split query) = .ok stmt) :
    StmtClean stmt :=
  parse_stmt_clean (planStage_ok_iff.mp h).1 (split_numToksOK query)

end Kvql.Proofs.RunNoPanic
