/-
  RunNoPanic, part 7b: an evaluation failure of a scan is the failure of the filter on a pair the
  scan yields (`select_evalErr_covered'`, `delete_evalErr_covered'`; the statements are those of
  `select_evalErr_covered`, `delete_evalErr_covered` of RunNoPanicPlans.lean).

  A Hoare-style lifting `Tr` over the storage monad without fault: from a world whose store is an
  ERASURE of the original store (`SubStore`: every binding of it is a binding of the original), a
  success keeps that and establishes a post-condition on the value; a failure with `Err.eval` proves
  the blame `∃ p ∈ yielded node store, filter p = .error .eval`.  One `tr_*` lemma per function of
  Plans.lean, from the state invariant `StOK`:
    * the pairs of the cursor's `rest` before the first key with `node.stop` are yielded pairs
      (the cursor is a snapshot taken by `Init` of the original store);
    * every key still to read by `MultiGetPlan`, with the value the ORIGINAL store has for it, is a
      yielded pair (the current store is an erasure of the original one).
-/
import Kvql.Proofs.RunNoPanicBase
import Kvql.Proofs.RunScan

namespace Kvql.Proofs.RunNoPanic
namespace PlansCover

open Kvql Kvql.Plans Kvql.Storage Kvql.Run Kvql.Proofs.Plan

/-! ### erasures of a store -/

/-- every binding of `s` is a binding of `t` -/
def SubStore (s t : Store) : Prop := ∀ k v, s.lookup k = some v → t.lookup k = some v

theorem SubStore.refl (s : Store) : SubStore s s := fun _ _ h => h

theorem SubStore.trans {a b c : Store} (h1 : SubStore a b) (h2 : SubStore b c) : SubStore a c :=
  fun k v h => h2 k v (h1 k v h)

theorem lookup_erase : ∀ (s : Store) (k' k v : Bytes), (s.erase k').lookup k = some v → s.lookup k = some v ∧ k ≠ k'
  | [], _, _, _, h => by simp [Store.erase, Store.lookup] at h
  | (k0, v0) :: r, k', k, v, h => by
    by_cases hk : k0 = k'
    · have e : Store.erase ((k0, v0) :: r) k' = Store.erase r k' := by
        simp [Store.erase, hk]
      rw [e] at h
      obtain ⟨h1, h2⟩ := lookup_erase r k' k v h
      refine ⟨?_, h2⟩
      have : k0 ≠ k := fun e => h2 (e.symm.trans hk)
      simp [Store.lookup, this, h1]
    · have e : Store.erase ((k0, v0) :: r) k' = (k0, v0) :: Store.erase r k' := by
        simp [Store.erase, hk]
      rw [e] at h
      by_cases hkk : k0 = k
      · simp only [Store.lookup, hkk, if_true] at h ⊢
        exact ⟨h, fun e => hk (hkk.trans e)⟩
      · simp only [Store.lookup, hkk, if_false] at h ⊢
        exact lookup_erase r k' k v h

theorem SubStore.erase (s : Store) (k : Bytes) : SubStore (s.erase k) s :=
  fun k' v h => (lookup_erase s k k' v h).1

theorem SubStore.eraseMany : ∀ (ks : List Bytes) (s : Store), SubStore (s.eraseMany ks) s
  | [], s => SubStore.refl s
  | k :: ks, s => by
    have : Store.eraseMany s (k :: ks) = Store.eraseMany (s.erase k) ks := rfl
    rw [this]
    exact (SubStore.eraseMany ks (s.erase k)).trans (SubStore.erase s k)

/-! ### the lifting -/

/-- from an erasure of `store`: success keeps that and gives `Q`; an `eval` failure gives `B` -/
def Tr (store : Store) (B : Prop) (m : Storage.M α) (Q : α → Prop) : Prop :=
  ∀ w, SubStore w.store store →
    (∀ a w', m none w = (.ok a, w') → Q a ∧ SubStore w'.store store) ∧
    (∀ w', m none w = (.error .eval, w') → B)

section tr
variable {store : Store} {B : Prop}

theorem Tr.pure {Q : α → Prop} (a : α) (h : Q a) : Tr store B (pure a : Storage.M α) Q := by
  intro w hw
  refine ⟨fun a' w' e => ?_, fun w' e => ?_⟩
  · simp only [run_pure, Prod.mk.injEq, Except.ok.injEq] at e
    obtain ⟨rfl, rfl⟩ := e
    exact ⟨h, hw⟩
  · simp at e

theorem Tr.throw {Q : α → Prop} (e : Storage.Err) (h : e = .eval → B) : Tr store B (Storage.M.throw e : Storage.M α) Q := by
  intro w hw
  refine ⟨fun a' w' e' => ?_, fun w' e' => ?_⟩
  · simp at e'
  · simp only [run_throw, Prod.mk.injEq, Except.error.injEq] at e'
    exact h e'.1

theorem Tr.ofExcept {Q : α → Prop} (x : Except Storage.Err α) (hok : ∀ a, x = .ok a → Q a)
    (herr : x = .error .eval → B) : Tr store B (Storage.M.ofExcept x) Q := by
  cases x with
  | ok a => exact Tr.pure a (hok a rfl)
  | error e => exact Tr.throw e (fun h => herr (by rw [h]))

theorem Tr.bind {m : Storage.M α} {k : α → Storage.M β} {Q : α → Prop} {R : β → Prop}
    (hm : Tr store B m Q) (hk : ∀ a, Q a → Tr store B (k a) R) : Tr store B (m >>= k) R := by
  intro w hw
  obtain ⟨h1, h2⟩ := hm w hw
  simp only [run_bind]
  rcases hmw : m none w with ⟨r, w1⟩
  cases r with
  | error e =>
    refine ⟨fun a' w' e' => ?_, fun w' e' => ?_⟩
    · simp at e'
    · simp only [Prod.mk.injEq, Except.error.injEq] at e'
      exact h2 w1 (by rw [hmw, e'.1])
  | ok a =>
    obtain ⟨hq, hw1⟩ := h1 a w1 hmw
    exact hk a hq w1 hw1

theorem Tr.mono {m : Storage.M α} {Q R : α → Prop} (hm : Tr store B m Q) (h : ∀ a, Q a → R a) : Tr store B m R := by
  intro w hw
  obtain ⟨h1, h2⟩ := hm w hw
  exact ⟨fun a w' e => ⟨h a (h1 a w' e).1, (h1 a w' e).2⟩, h2⟩

theorem Tr.call (c : Call) : Tr store B (call c) (fun _ => True) := by
  intro w hw
  rw [run_call_none]
  refine ⟨fun a' w' e => ?_, fun w' e => ?_⟩
  · simp only [Prod.mk.injEq] at e
    obtain ⟨_, rfl⟩ := e
    exact ⟨trivial, hw⟩
  · simp at e

theorem run_get_none (k : Bytes) (w : Storage.World) :
    Storage.get k none w = (.ok (w.store.lookup k), { w with log := w.log ++ [⟨.get k, false⟩] }) := by
  simp [Storage.get, run_call_none]

theorem run_batchDelete_none' (ks : List Bytes) (w : Storage.World) :
    batchDelete ks none w = (.ok (), { store := w.store.eraseMany ks, log := w.log ++ [⟨.batchDelete ks, false⟩] }) := by
  simp [batchDelete, run_call_none]

theorem run_delete_none (k : Bytes) (w : Storage.World) :
    Storage.delete k none w = (.ok (), { store := w.store.erase k, log := w.log ++ [⟨.delete k, false⟩] }) := by
  simp [Storage.delete, run_call_none]

/-- `Get` in an erasure of `store`: a value found is the value of `store` -/
theorem Tr.get (k : Bytes) : Tr store B (Storage.get k) (fun o => ∀ v, o = some v → store.lookup k = some v) := by
  intro w hw
  rw [run_get_none]
  refine ⟨fun a' w' e => ?_, fun w' e => ?_⟩
  · simp only [Prod.mk.injEq, Except.ok.injEq] at e
    obtain ⟨rfl, rfl⟩ := e
    exact ⟨fun v hv => hw k v hv, hw⟩
  · simp at e

theorem Tr.batchDelete (ks : List Bytes) : Tr store B (batchDelete ks) (fun _ => True) := by
  intro w hw
  rw [run_batchDelete_none']
  refine ⟨fun a' w' e => ?_, fun w' e => ?_⟩
  · simp only [Prod.mk.injEq] at e
    obtain ⟨_, rfl⟩ := e
    exact ⟨trivial, (SubStore.eraseMany ks w.store).trans hw⟩
  · simp at e

theorem Tr.delete (k : Bytes) : Tr store B (Storage.delete k) (fun _ => True) := by
  intro w hw
  rw [run_delete_none]
  refine ⟨fun a' w' e => ?_, fun w' e => ?_⟩
  · simp only [Prod.mk.injEq] at e
    obtain ⟨_, rfl⟩ := e
    exact ⟨trivial, (SubStore.erase w.store k).trans hw⟩
  · simp at e

end tr

/-! ### the filter on a chunk -/

theorem filterChunk_error (filter : Filter) : ∀ (chunk : List SPair) (e : Storage.Err),
    filterChunk filter chunk = .error e → ∃ p ∈ chunk, filter p = .error e
  | [], e, h => by simp [filterChunk] at h
  | p :: r, e, h => by
    unfold filterChunk at h
    split at h
    · next e' he' =>
      simp only [Except.error.injEq] at h
      subst h
      exact ⟨p, List.mem_cons_self, he'⟩
    · split at h
      · next e' he' =>
        simp only [Except.error.injEq] at h
        subst h
        obtain ⟨q, hq, hf⟩ := filterChunk_error filter r _ he'
        exact ⟨q, List.mem_cons_of_mem _ hq, hf⟩
      · cases h

/-! ### the scans -/

section scan
variable (node : ScanNode) (filter : Filter) (store : Store)

/-- the conclusion: the filter fails on a pair the scan of the original store yields -/
def Blame : Prop := ∃ p ∈ yielded node store, filter p = .error .eval

/-- what is left of the snapshot, up to the end of the region, is yielded -/
def CurOK (rest : List SPair) : Prop :=
  ∀ p ∈ rest.takeWhile (fun p => !node.stop p.1), p ∈ yielded node store

/-- the keys still to read, with the values the original store has for them, are yielded -/
def KeysOK (ks : List Bytes) : Prop :=
  ∀ k ∈ ks, ∀ v, store.lookup k = some v → (k, v) ∈ yielded node store

/-- invariant of the state of a scan -/
def StOK (st : ScanSt) : Prop :=
  (∀ c, st.iter = some c → st.done = false → node.isCursorScan = true → CurOK node store c.rest) ∧
  KeysOK node store st.keysLeft

variable {node filter store}

theorem CurOK.cons {p : SPair} {r : List SPair} (h : CurOK node store (p :: r)) (hs : ¬ node.stop p.1 = true) :
    p ∈ yielded node store ∧ CurOK node store r := by
  have e : (p :: r).takeWhile (fun p => !node.stop p.1) = p :: r.takeWhile (fun p => !node.stop p.1) := by
    simp [hs]
  unfold CurOK at h
  rw [e] at h
  exact ⟨h p List.mem_cons_self, fun q hq => h q (List.mem_cons_of_mem _ hq)⟩

theorem KeysOK.tail {k : Bytes} {ks : List Bytes} (h : KeysOK node store (k :: ks)) : KeysOK node store ks :=
  fun k' hk' => h k' (List.mem_cons_of_mem _ hk')

theorem KeysOK.head {k : Bytes} {ks : List Bytes} (h : KeysOK node store (k :: ks)) {v : Bytes}
    (hv : store.lookup k = some v) : (k, v) ∈ yielded node store :=
  h k List.mem_cons_self v hv

local notation "TrB" => Tr store (Blame node filter store)

theorem tr_cursorNext : ∀ (rest : List SPair), CurOK node store rest →
    Tr store (Blame node filter store) (cursorNext node.stop filter rest)
      (fun x => x.2.2 = false → CurOK node store x.2.1)
  | [], _ => by
    unfold cursorNext
    refine Tr.bind (Tr.call _) (fun _ _ => Tr.pure _ ?_)
    intro h; cases h
  | p :: r, h => by
    unfold cursorNext
    refine Tr.bind (Tr.call _) (fun _ _ => ?_)
    split
    · refine Tr.pure _ ?_
      intro h; cases h
    · next hs =>
      obtain ⟨hp, hr⟩ := h.cons hs
      split
      · next e he =>
        refine Tr.throw e (fun h => ?_)
        subst h
        exact ⟨p, hp, he⟩
      · exact Tr.pure _ (fun _ => hr)
      · exact tr_cursorNext r hr

theorem tr_readChunk : ∀ (i : Nat) (rest acc : List SPair), CurOK node store rest →
    (∀ p ∈ acc, p ∈ yielded node store) →
    Tr store (Blame node filter store) (readChunk node.stop i rest acc)
      (fun x => (∀ p ∈ x.1, p ∈ yielded node store) ∧ (x.2.1 = false → CurOK node store x.2.2))
  | 0, rest, acc, h, ha => by
    unfold readChunk
    exact Tr.pure _ ⟨ha, fun _ => h⟩
  | i + 1, [], acc, h, ha => by
    unfold readChunk
    refine Tr.bind (Tr.call _) (fun _ _ => Tr.pure _ ⟨ha, ?_⟩)
    intro h; cases h
  | i + 1, p :: r, acc, h, ha => by
    unfold readChunk
    refine Tr.bind (Tr.call _) (fun _ _ => ?_)
    split
    · refine Tr.pure _ ⟨ha, ?_⟩
      intro h; cases h
    · next hs =>
      obtain ⟨hp, hr⟩ := h.cons hs
      refine tr_readChunk i r (acc ++ [p]) hr ?_
      intro q hq
      rcases List.mem_append.mp hq with h | h
      · exact ha q h
      · simp only [List.mem_singleton] at h
        subst h
        exact hp

theorem tr_filterChunk {chunk : List SPair} (h : ∀ p ∈ chunk, p ∈ yielded node store) :
    Tr store (Blame node filter store) (Storage.M.ofExcept (filterChunk filter chunk)) (fun _ => True) := by
  refine Tr.ofExcept _ (fun _ _ => trivial) (fun he => ?_)
  obtain ⟨p, hp, hf⟩ := filterChunk_error filter chunk _ he
  exact ⟨p, h p hp, hf⟩

theorem tr_cursorBatchLoop (bs : Nat) : ∀ (fuel : Nat) (rest ret : List SPair), CurOK node store rest →
    Tr store (Blame node filter store) (cursorBatchLoop node.stop filter bs fuel rest ret)
      (fun x => x.2.2 = false → CurOK node store x.2.1)
  | 0, rest, ret, _ => by
    unfold cursorBatchLoop
    exact Tr.throw _ (fun h => by cases h)
  | fuel + 1, rest, ret, h => by
    unfold cursorBatchLoop
    refine Tr.bind (tr_readChunk bs rest [] h (by simp)) ?_
    intro x hx
    obtain ⟨chunk, done, rest'⟩ := x
    obtain ⟨hc, hr⟩ := hx
    simp only at hc hr ⊢
    split
    · split
      · next hd => exact Tr.pure _ (fun h => by simp at h)
      · next hd =>
        exact tr_cursorBatchLoop bs fuel rest' ret (hr (by simpa using hd))
    · refine Tr.bind (tr_filterChunk hc) ?_
      intro ms _
      try simp only
      split
      · next hd => exact Tr.pure _ (fun h => by simp at h)
      · next hd =>
        have hr' := hr (by simpa using hd)
        split
        · exact Tr.pure _ (fun _ => hr')
        · exact tr_cursorBatchLoop bs fuel rest' _ hr'

theorem tr_mgetNext : ∀ (ks : List Bytes), KeysOK node store ks →
    Tr store (Blame node filter store) (mgetNext filter ks) (fun x => KeysOK node store x.2)
  | [], h => by
    unfold mgetNext
    exact Tr.pure _ h
  | k :: ks, h => by
    unfold mgetNext
    refine Tr.bind (Tr.get k) ?_
    intro o ho
    cases o with
    | none => exact tr_mgetNext ks h.tail
    | some v =>
      have hp := h.head (ho v rfl)
      simp only
      split
      · next e he =>
        refine Tr.throw e (fun h => ?_)
        subst h
        exact ⟨_, hp, he⟩
      · exact Tr.pure _ h.tail
      · exact tr_mgetNext ks h.tail

theorem tr_mgetReadChunk : ∀ (i : Nat) (ks : List Bytes) (acc : List SPair), KeysOK node store ks →
    (∀ p ∈ acc, p ∈ yielded node store) →
    Tr store (Blame node filter store) (mgetReadChunk i ks acc)
      (fun x => (∀ p ∈ x.1, p ∈ yielded node store) ∧ KeysOK node store x.2.2)
  | 0, ks, acc, h, ha => by
    unfold mgetReadChunk
    exact Tr.pure _ ⟨ha, h⟩
  | i + 1, [], acc, h, ha => by
    unfold mgetReadChunk
    exact Tr.pure _ ⟨ha, h⟩
  | i + 1, k :: ks, acc, h, ha => by
    unfold mgetReadChunk
    refine Tr.bind (Tr.get k) ?_
    intro o ho
    cases o with
    | none => exact tr_mgetReadChunk i ks acc h.tail ha
    | some v =>
      have hp := h.head (ho v rfl)
      refine tr_mgetReadChunk i ks _ h.tail ?_
      intro q hq
      rcases List.mem_append.mp hq with h | h
      · exact ha q h
      · simp only [List.mem_singleton] at h
        subst h
        exact hp

theorem tr_mgetBatchLoop (bs : Nat) : ∀ (fuel : Nat) (ks : List Bytes) (ret : List SPair), KeysOK node store ks →
    Tr store (Blame node filter store) (mgetBatchLoop filter bs fuel ks ret) (fun x => KeysOK node store x.2)
  | 0, ks, ret, _ => by
    unfold mgetBatchLoop
    exact Tr.throw _ (fun h => by cases h)
  | fuel + 1, ks, ret, h => by
    unfold mgetBatchLoop
    refine Tr.bind (tr_mgetReadChunk bs ks [] h (by simp)) ?_
    intro x hx
    obtain ⟨chunk, fin, ks'⟩ := x
    obtain ⟨hc, hk⟩ := hx
    simp only at hc hk ⊢
    split
    · refine Tr.bind (Tr.pure (Q := fun _ => True) _ trivial) ?_
      intro ret' _
      split
      · exact Tr.pure _ hk
      · exact tr_mgetBatchLoop bs fuel ks' ret' hk
    · refine Tr.bind (tr_filterChunk hc) ?_
      intro ms _
      refine Tr.bind (Tr.pure (Q := fun _ => True) _ trivial) ?_
      intro ret' _
      split
      · exact Tr.pure _ hk
      · exact tr_mgetBatchLoop bs fuel ks' ret' hk

theorem cursor_of_ne {node : ScanNode} (h1 : ∀ ks, node = .mget ks → False) (h2 : node = .empty → False) :
    node.isCursorScan = true := by
  cases node with
  | mget ks => exact (h1 ks rfl).elim
  | empty => exact (h2 rfl).elim
  | _ => rfl

theorem tr_scanNext (st : ScanSt) (h : StOK node store st) :
    Tr store (Blame node filter store) (node.next filter st) (fun x => StOK node store x.2) := by
  unfold ScanNode.next
  split
  · refine Tr.bind (tr_mgetNext _ h.2) ?_
    intro x hx
    obtain ⟨r, ks⟩ := x
    exact Tr.pure _ ⟨fun c hc hd hn => (by cases hn), hx⟩
  · exact Tr.pure _ h
  · next h1 h2 =>
    have hn : node.isCursorScan = true := cursor_of_ne (fun ks e => h1 ks e) (fun e => h2 e)
    split
    · exact Tr.pure _ h
    · next hd =>
      split
      · exact Tr.throw _ (fun h => by cases h)
      · next c hc =>
        refine Tr.bind (tr_cursorNext _ (h.1 c hc (by simpa using hd) hn)) ?_
        intro x hx
        obtain ⟨r, rest, done⟩ := x
        refine Tr.pure _ ⟨?_, h.2⟩
        intro c' hc' hd' _
        simp only [Option.some.injEq] at hc'
        subst hc'
        exact hx hd'

theorem tr_scanBatch (bs : Nat) (st : ScanSt) (h : StOK node store st) :
    Tr store (Blame node filter store) (node.batch filter bs st) (fun x => StOK node store x.2) := by
  unfold ScanNode.batch
  split
  · refine Tr.bind (tr_mgetBatchLoop bs _ _ _ h.2) ?_
    intro x hx
    obtain ⟨r, ks⟩ := x
    exact Tr.pure _ ⟨fun c hc hd hn => (by cases hn), hx⟩
  · exact Tr.pure _ h
  · next h1 h2 =>
    have hn : node.isCursorScan = true := cursor_of_ne (fun ks e => h1 ks e) (fun e => h2 e)
    split
    · exact Tr.pure _ h
    · next hd =>
      split
      · exact Tr.throw _ (fun h => by cases h)
      · next c hc =>
        refine Tr.bind (tr_cursorBatchLoop bs _ _ _ (h.1 c hc (by simpa using hd) hn)) ?_
        intro x hx
        obtain ⟨r, rest, done⟩ := x
        refine Tr.pure _ ⟨?_, h.2⟩
        intro c' hc' hd' _
        simp only [Option.some.injEq] at hc'
        subst hc'
        exact hx hd'

end scan

/-! ### LimitPlan and DeletePlan over a child -/

section limit
variable {σ : Type} {store : Store} {B : Prop} {c : Child σ} {I : σ → Prop}

/-- `Batch` of the child keeps the invariant of its state; an `eval` failure proves `B` -/
def BatchOK (store : Store) (B : Prop) (c : Child σ) (I : σ → Prop) : Prop :=
  ∀ bs s, I s → Tr store B (c.batch bs s) (fun x => I x.2)

theorem tr_skipBatch (hc : BatchOK store B c I) (start bs : Nat) : ∀ (fuel skips : Nat) (s : σ), I s →
    Tr store B (LimitPlan.skipBatch start bs c fuel skips s) (fun x => I x.2.2)
  | 0, skips, s, h => by
    unfold LimitPlan.skipBatch
    split
    · exact Tr.throw _ (fun h => by cases h)
    · exact Tr.pure _ h
  | fuel + 1, skips, s, h => by
    unfold LimitPlan.skipBatch
    split
    · refine Tr.bind (hc bs s h) ?_
      intro x hx
      obtain ⟨rows, s'⟩ := x
      simp only at hx ⊢
      split
      · exact Tr.pure _ hx
      · split
        · exact tr_skipBatch hc start bs fuel _ s' hx
        · exact Tr.pure _ hx
    · exact Tr.pure _ h

theorem tr_fillBatch (hc : BatchOK store B c I) (count bs : Nat) : ∀ (fuel current : Nat) (acc : List SPair) (s : σ), I s →
    Tr store B (LimitPlan.fillBatch count bs c fuel current acc s) (fun x => I x.2.2)
  | 0, current, acc, s, h => by
    unfold LimitPlan.fillBatch
    exact Tr.throw _ (fun h => by cases h)
  | fuel + 1, current, acc, s, h => by
    unfold LimitPlan.fillBatch
    refine Tr.bind (hc bs s h) ?_
    intro x hx
    obtain ⟨rows, s'⟩ := x
    simp only at hx ⊢
    split
    · exact Tr.pure _ hx
    · split
      · exact Tr.pure _ hx
      · split
        · exact Tr.pure _ hx
        · exact tr_fillBatch hc count bs fuel _ _ s' hx

theorem tr_limitBatch (hc : BatchOK store B c I) (start count : Nat) :
    BatchOK store B (LimitPlan.child start count c) (fun st => I st.child) := by
  intro bs st h
  show Tr store B (LimitPlan.batch start count c bs st) _
  unfold LimitPlan.batch
  refine Tr.bind (tr_skipBatch hc start bs _ _ _ h) ?_
  intro x hx
  obtain ⟨rows?, skips, s1⟩ := x
  simp only at hx ⊢
  split
  · exact Tr.pure _ hx
  · split
    · exact Tr.pure _ hx
    · refine Tr.bind (tr_fillBatch hc count bs _ _ _ _ hx) ?_
      intro y hy
      obtain ⟨out, current2, s2⟩ := y
      exact Tr.pure _ hy

/-- `DeletePlan.execute`: an `eval` failure is one of the child's; a success keeps the invariants -/
theorem deleteLoop_ok (hc : BatchOK store B c I) (bs : Nat) : ∀ (fuel count : Nat) (s : σ) (w : Storage.World),
    I s → SubStore w.store store →
    ((DeletePlan.loop c bs fuel count s none w).1.1.1 = .error .eval → B) ∧
    (∀ n, (DeletePlan.loop c bs fuel count s none w).1.1.1 = .ok n →
      I (DeletePlan.loop c bs fuel count s none w).1.2 ∧
      SubStore (DeletePlan.loop c bs fuel count s none w).2.store store)
  | 0, count, s, w, _, _ => by
    simp [DeletePlan.loop]
  | fuel + 1, count, s, w, hs, hw => by
    obtain ⟨h1, h2⟩ := hc bs s hs w hw
    unfold DeletePlan.loop
    rcases hb : c.batch bs s none w with ⟨r, w'⟩
    cases r with
    | error e =>
      simp only
      refine ⟨fun h => ?_, fun n h => by cases h⟩
      simp only [Except.error.injEq] at h
      exact h2 w' (by rw [hb, h])
    | ok x =>
      obtain ⟨rows, s'⟩ := x
      obtain ⟨hs', hw'⟩ := h1 _ _ hb
      simp only at hs' ⊢
      split
      · refine ⟨fun h => (by cases h), fun n _ => ⟨hs', hw'⟩⟩
      · rw [run_batchDelete_none']
        simp only
        exact deleteLoop_ok hc bs fuel _ s' _ hs' ((SubStore.eraseMany _ _).trans hw')

end limit

/-! ### the final plans -/

theorem evalKeys_ok : ∀ (ks : List Bytes), evalKeys (ks.map .ok) = .ok ks
  | [] => rfl
  | k :: ks => by simp [evalKeys, evalKeys_ok ks]

theorem tr_removeExecute {store : Store} {B : Prop} (ks : List Bytes) :
    Tr store B (RemovePlan.execute (ks.map .ok)) (fun _ => True) := by
  unfold RemovePlan.execute
  rw [evalKeys_ok]
  refine Tr.bind (Tr.pure (Q := fun _ => True) _ trivial) ?_
  intro ks' _
  split
  · exact Tr.pure _ trivial
  · exact Tr.bind (Tr.delete _) (fun _ _ => Tr.pure _ trivial)
  · exact Tr.bind (Tr.batchDelete _) (fun _ _ => Tr.pure _ trivial)

section plan
variable (node : ScanNode) (filter : Filter) (store : Store)

/-- invariant of the final plan of `select *` / DELETE over `node` with `filter` -/
def PlanOK : Plan → Prop
  | .select n f st => n = node ∧ f = filter ∧ StOK node store st
  | .deleteScan n f _ st => n = node ∧ f = filter ∧ StOK node store st
  | .deleteLimit n f _ _ _ st => n = node ∧ f = filter ∧ StOK node store st.child
  | .put _ _ => False
  | .remove keys _ => ∃ ks : List Bytes, keys = ks.map .ok

variable {node filter store}

theorem scanBatchOK : BatchOK store (Blame node filter store) (node.child filter) (StOK node store) :=
  fun bs st h => tr_scanBatch bs st h

theorem poll_ok (kind : PollKind) (bs : Nat) (plan : Plan) (w : Storage.World)
    (hp : PlanOK node filter store plan) (hw : SubStore w.store store) :
    ((plan.poll kind bs none w).1.err = some .eval → Blame node filter store) ∧
    ((plan.poll kind bs none w).1.err = none →
      PlanOK node filter store (plan.poll kind bs none w).1.plan ∧ SubStore (plan.poll kind bs none w).2.store store) := by
  cases plan with
  | select n f st =>
    obtain ⟨rfl, rfl, hst⟩ := hp
    cases kind with
    | next =>
      obtain ⟨h1, h2⟩ := tr_scanNext (filter := f) st hst w hw
      simp only [Plan.poll]
      rcases hn : n.next f st none w with ⟨r, w'⟩
      cases r with
      | error e =>
        refine ⟨fun h => ?_, fun h => by cases h⟩
        simp only [Option.some.injEq] at h
        exact h2 w' (by rw [hn, h])
      | ok x =>
        obtain ⟨o, st'⟩ := x
        obtain ⟨hs', hw'⟩ := h1 _ _ hn
        cases o with
        | none => exact ⟨fun h => (by cases h), fun _ => ⟨⟨rfl, rfl, hs'⟩, hw'⟩⟩
        | some p => exact ⟨fun h => (by cases h), fun _ => ⟨⟨rfl, rfl, hs'⟩, hw'⟩⟩
    | batch =>
      obtain ⟨h1, h2⟩ := tr_scanBatch (filter := f) bs st hst w hw
      simp only [Plan.poll]
      rcases hn : n.batch f bs st none w with ⟨r, w'⟩
      cases r with
      | error e =>
        refine ⟨fun h => ?_, fun h => by cases h⟩
        simp only [Option.some.injEq] at h
        exact h2 w' (by rw [hn, h])
      | ok x =>
        obtain ⟨rows, st'⟩ := x
        obtain ⟨hs', hw'⟩ := h1 _ _ hn
        exact ⟨fun h => (by cases h), fun _ => ⟨⟨rfl, rfl, hs'⟩, hw'⟩⟩
  | put pairs ex => exact hp.elim
  | remove keys ex =>
    obtain ⟨ks, rfl⟩ := hp
    simp only [Plan.poll]
    split
    · exact ⟨fun h => (by cases h), fun _ => ⟨⟨ks, rfl⟩, hw⟩⟩
    · obtain ⟨h1, h2⟩ := tr_removeExecute (store := store) (B := Blame node filter store) ks w hw
      unfold writePoll
      rcases hn : RemovePlan.execute (ks.map .ok) none w with ⟨r, w'⟩
      cases r with
      | error e =>
        refine ⟨fun h => ?_, fun h => by cases h⟩
        simp only [Option.some.injEq] at h
        exact h2 w' (by rw [hn, h])
      | ok n => exact ⟨fun h => (by cases h), fun _ => ⟨⟨ks, rfl⟩, (h1 _ _ hn).2⟩⟩
  | deleteScan n f ex st =>
    obtain ⟨rfl, rfl, hst⟩ := hp
    simp only [Plan.poll]
    split
    · exact ⟨fun h => (by cases h), fun _ => ⟨⟨rfl, rfl, hst⟩, hw⟩⟩
    · obtain ⟨h1, h2⟩ := deleteLoop_ok (scanBatchOK (node := n) (filter := f) (store := store)) bs (st.size + 2) 0 st w hst hw
      rcases hl : DeletePlan.loop (n.child f) bs (st.size + 2) 0 st none w with ⟨⟨⟨r, cnt⟩, st'⟩, w'⟩
      rw [hl] at h1 h2
      cases r with
      | error e =>
        refine ⟨fun h => ?_, fun h => by cases h⟩
        simp only [Option.some.injEq] at h
        exact h1 (by rw [h])
      | ok m => exact ⟨fun h => (by cases h), fun _ => ⟨⟨rfl, rfl, (h2 m rfl).1⟩, (h2 m rfl).2⟩⟩
  | deleteLimit n f start count ex st =>
    obtain ⟨rfl, rfl, hst⟩ := hp
    simp only [Plan.poll]
    split
    · exact ⟨fun h => (by cases h), fun _ => ⟨⟨rfl, rfl, hst⟩, hw⟩⟩
    · obtain ⟨h1, h2⟩ := deleteLoop_ok (tr_limitBatch (scanBatchOK (node := n) (filter := f) (store := store)) start count)
        bs (st.child.size + 2) 0 st w hst hw
      rcases hl : DeletePlan.loop (LimitPlan.child start count (n.child f)) bs (st.child.size + 2) 0 st none w with
        ⟨⟨⟨r, cnt⟩, st'⟩, w'⟩
      rw [hl] at h1 h2
      cases r with
      | error e =>
        refine ⟨fun h => ?_, fun h => by cases h⟩
        simp only [Option.some.injEq] at h
        exact h1 (by rw [h])
      | ok m => exact ⟨fun h => (by cases h), fun _ => ⟨⟨rfl, rfl, (h2 m rfl).1⟩, (h2 m rfl).2⟩⟩

theorem drain_ok (kind : PollKind) (bs : Nat) : ∀ (fuel : Nat) (plan : Plan) (acc : List (List Row)) (w : Storage.World),
    PlanOK node filter store plan → SubStore w.store store →
    (drain kind bs fuel plan acc none w).1.outcome = .execErr .eval → Blame node filter store
  | 0, plan, acc, w, _, _, h => by simp [drain] at h
  | fuel + 1, plan, acc, w, hp, hw, h => by
    obtain ⟨h1, h2⟩ := poll_ok kind bs plan w hp hw
    rcases hpoll : plan.poll kind bs none w with ⟨⟨rows, err, plan'⟩, w'⟩
    rw [hpoll] at h1 h2
    simp only at h1 h2
    cases err with
    | some e =>
      simp only [drain, hpoll, Outcome.execErr.injEq] at h
      exact h1 (by rw [h])
    | none =>
      cases rows with
      | nil => simp [drain, hpoll] at h
      | cons r rs =>
        have hd : drain kind bs (fuel + 1) plan acc none w = drain kind bs fuel plan' (acc ++ [r :: rs]) none w' := by
          simp [drain, hpoll]
        rw [hd] at h
        exact drain_ok kind bs fuel plan' _ w' (h2 rfl).1 (h2 rfl).2 h

/-! ### `BuildPlan` -/

theorem init_spec (n : ScanNode) (st : ScanSt) (w : Storage.World) :
    ∃ st' w', n.init st none w = (.ok st', w') ∧ w'.store = w.store ∧ st'.keysLeft = st.keysLeft ∧
      (n.isCursorScan = true → ∃ c, st'.iter = some c ∧ c.rest = startRest n w.store) := by
  cases n with
  | full =>
    simp only [ScanNode.init, cursor, Cursor.seek, run_call_none, startRest, run_bind, run_pure, run_getStore]
    exact ⟨_, _, rfl, rfl, rfl, fun _ => ⟨_, rfl, rfl⟩⟩
  | «prefix» p =>
    simp only [ScanNode.init, cursor, Cursor.seek, run_call_none, startRest, run_bind, run_pure, run_getStore]
    exact ⟨_, _, rfl, rfl, rfl, fun _ => ⟨_, rfl, rfl⟩⟩
  | range a b =>
    cases a with
    | none =>
      simp only [ScanNode.init, cursor, run_call_none, startRest, run_bind, run_pure, run_getStore]
      exact ⟨_, _, rfl, rfl, rfl, fun _ => ⟨_, rfl, rfl⟩⟩
    | some s =>
      simp only [ScanNode.init, cursor, Cursor.seek, run_call_none, startRest, run_bind, run_pure, run_getStore]
      exact ⟨_, _, rfl, rfl, rfl, fun _ => ⟨_, rfl, rfl⟩⟩
  | mget ks => exact ⟨_, _, rfl, rfl, rfl, fun h => by cases h⟩
  | empty => exact ⟨_, _, rfl, rfl, rfl, fun h => by cases h⟩

theorem curOK_start (h : node.isCursorScan = true) : CurOK node store (startRest node store) := by
  intro p hp
  cases node with
  | mget ks => cases h
  | empty => cases h
  | _ => exact hp

theorem scanInit_ok (st : ScanSt) (w : Storage.World) (hk : KeysOK node store st.keysLeft) (hw : w.store = store) :
    ∃ st' w', node.init st none w = (.ok st', w') ∧ w'.store = store ∧ StOK node store st' := by
  obtain ⟨st', w', h1, h2, h3, h4⟩ := init_spec node st w
  refine ⟨st', w', h1, h2.trans hw, ?_, by rw [h3]; exact hk⟩
  intro c hc _ hn
  obtain ⟨c', hc', hr⟩ := h4 hn
  rw [hc] at hc'
  simp only [Option.some.injEq] at hc'
  subst hc'
  rw [hr, hw]
  exact curOK_start hn

theorem planInit_ok (plan : Plan) (w : Storage.World) (hp : PlanOK node filter store plan) (hw : w.store = store) :
    ∃ plan' w', plan.init none w = (.ok plan', w') ∧ PlanOK node filter store plan' ∧ w'.store = store := by
  cases plan with
  | select n f st =>
    obtain ⟨rfl, rfl, hst⟩ := hp
    obtain ⟨st', w', h1, h2, h3⟩ := scanInit_ok st w hst.2 hw
    exact ⟨.select n f st', w', by simp [Plan.init, h1], ⟨rfl, rfl, h3⟩, h2⟩
  | deleteScan n f ex st =>
    obtain ⟨rfl, rfl, hst⟩ := hp
    obtain ⟨st', w', h1, h2, h3⟩ := scanInit_ok st w hst.2 hw
    exact ⟨.deleteScan n f false st', w', by simp [Plan.init, h1], ⟨rfl, rfl, h3⟩, h2⟩
  | deleteLimit n f start count ex st =>
    obtain ⟨rfl, rfl, hst⟩ := hp
    obtain ⟨st', w', h1, h2, h3⟩ := scanInit_ok st.child w hst.2 hw
    exact ⟨.deleteLimit n f start count false { child := st' }, w',
      by simp [Plan.init, LimitPlan.init, ScanNode.child, h1], ⟨rfl, rfl, h3⟩, h2⟩
  | put pairs ex => exact hp.elim
  | remove keys ex => exact ⟨_, w, rfl, hp, hw⟩

theorem keysOK_new : KeysOK node store node.newState.keysLeft := by
  cases node with
  | mget ks =>
    intro k hk v hv
    simp only [yielded, List.mem_filterMap]
    exact ⟨k, hk, by rw [hv]; rfl⟩
  | _ => intro k hk; cases hk

theorem stOK_new : StOK node store node.newState := by
  refine ⟨fun c hc => ?_, keysOK_new⟩
  cases node <;> cases hc

/-- the statements over `node` with `filter` -/
def IsScanStmt (node : ScanNode) (filter : Filter) : Plans.Stmt → Prop
  | .select n f => n = node ∧ f = filter
  | .delete n f _ _ => n = node ∧ f = filter
  | _ => False

theorem buildPlan1_ok (stmt : Plans.Stmt) (hs : IsScanStmt node filter stmt) (w : Storage.World) (hw : w.store = store) :
    ∃ plan w', buildPlan1 stmt none w = (.ok plan, w') ∧ PlanOK node filter store plan ∧ w'.store = store := by
  cases stmt with
  | select n f =>
    obtain ⟨rfl, rfl⟩ := hs
    exact planInit_ok (.select n f n.newState) w ⟨rfl, rfl, stOK_new⟩ hw
  | delete n f hasAnd limit =>
    obtain ⟨rfl, rfl⟩ := hs
    have hrm : ∀ keys : List Bytes, PlanOK n f store (.remove (keys.map .ok) false) := fun keys => ⟨keys, rfl⟩
    cases limit with
    | none =>
      cases n with
      | mget keys =>
        simp only [buildPlan1]
        split
        · exact planInit_ok _ w (hrm keys) hw
        · refine planInit_ok _ w ?_ hw
          exact ⟨rfl, rfl, stOK_new⟩
      | _ =>
        simp only [buildPlan1]
        refine planInit_ok _ w ?_ hw
        exact ⟨rfl, rfl, stOK_new⟩
    | some x =>
      obtain ⟨start, count⟩ := x
      cases n with
      | _ =>
        simp only [buildPlan1]
        refine planInit_ok _ w ?_ hw
        exact ⟨rfl, rfl, stOK_new⟩
  | put _ => exact hs.elim
  | remove _ => exact hs.elim

theorem run_evalErr_blame (stmt : Plans.Stmt) (hs : IsScanStmt node filter stmt) (kind : PollKind) (bs : Nat)
    (h : (Plans.run stmt kind bs none store).1.outcome = .execErr .eval) : Blame node filter store := by
  unfold Plans.run runG at h
  obtain ⟨p1, w1, e1, hp1, hw1⟩ := buildPlan1_ok (store := store) stmt hs { store := store } rfl
  obtain ⟨p2, w2, e2, hp2, hw2⟩ := planInit_ok p1 w1 hp1 hw1
  have hb : buildPlan stmt none { store := store } = (.ok p2, w2) := by
    simp [buildPlan, e1, e2]
  rw [hb] at h
  exact drain_ok kind bs _ p2 [] w2 hp2 (by rw [hw2]; exact SubStore.refl _) h

end plan

/-! ### the exported theorems -/

/-- an evaluation failure of `select *` is the failure of the filter on a pair the scan yields -/
theorem select_evalErr_covered' (node : ScanNode) (filter : Filter) (kind : PollKind) (bs : Nat) (store : Store)
    (h : (Plans.run (.select node filter) kind bs none store).1.outcome = .execErr .eval) :
    ∃ p ∈ yielded node store, filter p = .error .eval :=
  run_evalErr_blame (.select node filter) ⟨rfl, rfl⟩ kind bs h

/-- DELETE, strong form: the failing pair is itself a pair the scan of the ORIGINAL store yields -/
theorem delete_evalErr_covered_mem (node : ScanNode) (filter : Filter) (hasAnd : Bool) (limit : Option (Nat × Nat))
    (kind : PollKind) (bs : Nat) (store : Store)
    (h : (Plans.run (.delete node filter hasAnd limit) kind bs none store).1.outcome = .execErr .eval) :
    ∃ p ∈ yielded node store, filter p = .error .eval :=
  run_evalErr_blame (.delete node filter hasAnd limit) ⟨rfl, rfl⟩ kind bs h

/-- … of DELETE (a cursor is a snapshot; `MultiGetPlan` reads the store as the deletions left it): the
    failing pair has the key of a pair the scan of the ORIGINAL store yields -/
theorem delete_evalErr_covered' (node : ScanNode) (filter : Filter) (hasAnd : Bool) (limit : Option (Nat × Nat))
    (kind : PollKind) (bs : Nat) (store : Store)
    (h : (Plans.run (.delete node filter hasAnd limit) kind bs none store).1.outcome = .execErr .eval) :
    ∃ p, p.1 ∈ (yielded node store).map (·.1) ∧ filter p = .error .eval := by
  obtain ⟨p, hp, hf⟩ := delete_evalErr_covered_mem node filter hasAnd limit kind bs store h
  exact ⟨p, List.mem_map.mpr ⟨p, hp, rfl⟩, hf⟩

end PlansCover
end Kvql.Proofs.RunNoPanic
