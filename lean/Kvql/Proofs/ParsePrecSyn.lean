/-
  C15, precedence and parentheses — concrete syntax.

  `Syn` is a concrete syntax tree of the expression language: the abstract tree `Expr` plus
  explicit parenthesis nodes, with the four syntactic forms of a binary node kept apart
  (`l op r`, `l in ( items )`, `l in r`, `l between lo and hi`).

  * `Syn.toks s`   the token list of `s`, printed as it stands (a `paren` node prints `( … )`,
                   nothing else adds a parenthesis);
  * `Syn.strip s`  the tree the parser is to build: parenthesis nodes vanish, positions are the
                   ones the parser computes from the tokens (a binary node carries the position
                   of its operator token, the list of `in` / `between` that of the operator as
                   well, a call that of its callee, an index that of `[`, `!x` that of `!`);
  * `Syn.ok s`     decidable: the parentheses that are *present* suffice.  Each un-parenthesised
                   node has a strength seen from the left (`lpr`: the highest threshold of the
                   climbing loop that still reads the whole node) and from the right (`rpr`:
                   the highest precedence of a following operator that is not swallowed by it).

  Proofs/ParsePrecMain.lean proves `ok s → parseExpr (toks s) = strip s`.
-/
import Kvql.Proofs.ParserPrec

set_option linter.unusedSimpArgs false

namespace Kvql.Proofs.ParsePrec

open Kvql Kvql.Parser Kvql.Generated Kvql.Proofs.PrintLex Kvql.Proofs.PrintParse
open Kvql.Proofs.Prec (atomTok opOK)

inductive Syn
  | atom (e : Expr)                              -- a single-token operand (`Prec.atomTok`)
  | paren (s : Syn)                              -- `( s )`
  | bin (p : Nat) (op : Op) (l r : Syn)          -- `l op r`, `op` none of `!`, `in`, `between`
  | inList (p : Nat) (l : Syn) (items : List Syn)   -- `l in ( item, … )`
  | inExpr (p : Nat) (l r : Syn)                 -- `l in r`, the text of `r` not starting with `(`
  | between (p : Nat) (l lo hi : Syn)            -- `l between lo and hi`
  | not (p : Nat) (r : Syn)                      -- `! r`
  | call (fn : Syn) (args : List Syn)            -- `fn ( arg, … )`
  | access (p : Nat) (l f : Syn)                 -- `l [ f ]`
deriving Inhabited

/-! ### the punctuation tokens (their positions are never looked at by the parser) -/

def LP : Token := tok tkLPAREN [40] 0
def RP : Token := tok tkRPAREN [41] 0
def COMMA : Token := tok tkSEP [44] 0
def LB (p : Nat) : Token := tok tkLBRACK [91] p
def RB : Token := tok tkRBRACK [93] 0
def opTok (op : Op) (p : Nat) : Token := tok tkOPERATOR (Expr.opText op) p
def BANG (p : Nat) : Token := tok tkOPERATOR [33] p

namespace Syn

/-- the four binary forms -/
def isBin : Syn → Bool
  | .bin .. | .inList .. | .inExpr .. | .between .. => true
  | _ => false

/-- what `parsePrimaryExpr` reads: an operand with its call / index suffixes -/
def isPrimary : Syn → Bool
  | .atom .. | .paren .. | .call .. | .access .. => true
  | _ => false

/-- strength seen from the left: the climbing loop entered with a threshold `≤ lpr s` reads all
    of `s` (7: an operand) -/
def lpr : Syn → Nat
  | .bin _ op l _ => min (lpr l) (opPrec op)
  | .inList _ l _ => min (lpr l) 3
  | .inExpr _ l _ => min (lpr l) 3
  | .between _ l _ _ => min (lpr l) 3
  | _ => 7

/-- strength seen from the right: an operator of precedence `≤ rpr s` that follows `s` takes all
    of `s` as its left operand.  After the closing parenthesis of `in ( … )` the loop of
    `parseBinaryExpr` goes on with whatever operator comes: 7. -/
def rpr : Syn → Nat
  | .bin _ op _ _ => opPrec op
  | .inList .. => 7
  | .inExpr .. => 3
  | .between .. => 3
  | _ => 7

/-- the text starts with `(` -/
def headParen : Syn → Bool
  | .atom _ => false
  | .paren _ => true
  | .bin _ _ l _ => headParen l
  | .inList _ l _ => headParen l
  | .inExpr _ l _ => headParen l
  | .between _ l _ _ => headParen l
  | .not .. => false
  | .call fn _ => headParen fn
  | .access _ l _ => headParen l

mutual
  /-- the tree the parser builds -/
  def strip : Syn → Expr
    | .atom e => e
    | .paren s => strip s
    | .bin p op l r => .binop p op (strip l) (strip r)
    | .inList p l items => .binop p .in_ (strip l) (.list p (stripList items))
    | .inExpr p l r => .binop p .in_ (strip l) (strip r)
    | .between p l lo hi => .binop p .between (strip l) (.list p [strip lo, strip hi])
    | .not p r => .not p (strip r)
    | .call fn args => .call (strip fn).pos (strip fn) (stripList args)
    | .access p l f => .access p (strip l) (strip f)
  def stripList : List Syn → List Expr
    | [] => []
    | s :: ss => strip s :: stripList ss
end

section
variable (pf : Bytes → F64)

mutual
  /-- the tokens of `s` -/
  def toks : Syn → Toks
    | .atom e => match atomTok pf e with
      | some t => [t]
      | none => []
    | .paren s => LP :: (toks s ++ [RP])
    | .bin p op l r => toks l ++ opTok op p :: toks r
    | .inList p l items => toks l ++ opTok .in_ p :: LP :: (toksList items ++ [RP])
    | .inExpr p l r => toks l ++ opTok .in_ p :: toks r
    | .between p l lo hi => toks l ++ opTok .between p :: (toks lo ++ opTok .kwAnd 0 :: toks hi)
    | .not p r => BANG p :: toks r
    | .call fn args => toks fn ++ LP :: (toksList args ++ [RP])
    | .access p l f => toks l ++ LB p :: (toks f ++ [RB])
  /-- comma-separated -/
  def toksList : List Syn → Toks
    | [] => []
    | [s] => toks s
    | s :: s2 :: ss => toks s ++ COMMA :: toksList (s2 :: ss)
end

mutual
  /-- the parentheses present in `s` suffice -/
  def ok : Syn → Bool
    | .atom e => (atomTok pf e).isSome
    | .paren s => ok s
    | .bin _ op l r => opOK op && ok l && ok r && decide (opPrec op ≤ rpr l) && decide (opPrec op + 1 ≤ lpr r)
    | .inList _ l items => ok l && okList items && decide (3 ≤ rpr l)
    | .inExpr _ l r => ok l && ok r && decide (3 ≤ rpr l) && decide (4 ≤ lpr r) && !headParen r
    | .between _ l lo hi =>
      ok l && ok lo && ok hi && decide (3 ≤ rpr l) && decide (4 ≤ lpr lo) && decide (4 ≤ lpr hi)
    | .not _ r => ok r && !isBin r
    | .call fn args => ok fn && isPrimary fn && (strip fn).calleeAtomic && okList args
    | .access _ l f => ok l && isPrimary l && ok f
  def okList : List Syn → Bool
    | [] => true
    | s :: ss => ok s && okList ss
end

end

theorem lpr_le_rpr (s : Syn) : lpr s ≤ rpr s := by
  cases s <;> simp only [lpr, rpr] <;> omega

theorem opPrec_le5 (op : Op) : opPrec op ≤ 5 := by
  cases op <;> decide

theorem lpr_le7 (s : Syn) : lpr s ≤ 7 := by
  cases s <;> simp only [lpr] <;> try omega
  case bin p op l r => have := opPrec_le5 op; omega

theorem lpr_of_not_bin {s : Syn} (h : isBin s = false) : lpr s = 7 ∧ rpr s = 7 := by
  cases s <;> simp_all [isBin, lpr, rpr]

theorem not_bin_of_primary {s : Syn} (h : isPrimary s = true) : isBin s = false := by
  cases s <;> simp_all [isBin, isPrimary]

end Syn

end Kvql.Proofs.ParsePrec
