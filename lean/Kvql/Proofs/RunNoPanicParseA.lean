/-
  RunNoPanic, part 3a (helper file of RunNoPanicParse): the Hoare layer `NC` ("no cyclic-alias panic,
  and `Q` on success"), the expression parser under it, alias-free trees are good in every table,
  the initial select-field table is good.
-/
import Kvql.Proofs.RunNoPanicCheck
import Kvql.Proofs.RunNoPanicNums
import Kvql.Proofs.ParserTotalStmt

namespace Kvql.Proofs.RunNoPanic

open Kvql Kvql.Parser Kvql.Proofs.Typing Kvql.Generated

/-- `Q` on success; the panic site is not the cyclic-alias recursion of `ReturnType()`; errors, other
    panics (excluded by ParserTotalStmt `parse_safe`) and fuel are not this pass's business -/
abbrev NC {α : Type} (r : Res α) (Q : α → Prop) : Prop :=
  r.Holds Q (fun _ => True) (fun s => s ≠ cyclicPanic) True

theorem NC.of_ok {α : Type} {r : Res α} {Q : α → Prop} (hp : r ≠ .panic cyclicPanic)
    (h : ∀ a, r = .ok a → Q a) : NC r Q := by
  cases r with
  | ok a => exact h a rfl
  | panic s => intro hs; subst hs; exact hp rfl
  | _ => trivial

theorem NC.no_panic {α : Type} {r : Res α} {Q : α → Prop} (h : NC r Q) : r ≠ .panic cyclicPanic := by
  intro hr; rw [hr] at h; exact h rfl

theorem NC.ok {α : Type} {r : Res α} {Q : α → Prop} (h : NC r Q) {a : α} (hr : r = .ok a) : Q a := by
  rw [hr] at h; exact h

/-! ### the expression parser never names the cyclic-alias site -/

/-- no `cyclicPanic`, nothing claimed on success -/
abbrev NPc {α : Type} (r : Res α) : Prop := NC r (fun _ => True)

theorem NPc.bind {α β : Type} {r : Res α} {f : α → Res β} (h : NPc r) (hf : ∀ a, NPc (f a)) :
    NPc (r >>= f) := Res.Holds.bind h (fun a _ => hf a)

variable (pf : Bytes → F64)

structure NpIH (fuel : Nat) : Prop where
  binary : ∀ lev prec ts, NPc (parseBinaryExpr pf fuel lev prec ts)
  bloop : ∀ lev prec x ts, NPc (binaryLoop pf fuel lev prec x ts)
  unary : ∀ lev ts, NPc (parseUnaryExpr pf fuel lev ts)
  primary : ∀ lev ts, NPc (parsePrimaryExpr pf fuel lev ts)
  ploop : ∀ lev x ts, NPc (primaryLoop pf fuel lev x ts)
  operand : ∀ lev ts, NPc (parseOperand pf fuel lev ts)
  items : ∀ lev close strict acc ts, NPc (parseItems pf fuel lev close strict acc ts)
  call : ∀ lev fn ts, NPc (parseFuncCall pf fuel lev fn ts)
  access : ∀ lev pos l ts, NPc (parseFieldAccess pf fuel lev pos l ts)
  list : ∀ lev pos ts, NPc (parseList pf fuel lev pos ts)
  between : ∀ lev pos oprec ts, NPc (parseBetween pf fuel lev pos oprec ts)

theorem np_zero : NpIH pf 0 := by
  constructor <;> intros <;>
    simp [parseBinaryExpr, binaryLoop, parseUnaryExpr, parsePrimaryExpr, primaryLoop, parseOperand,
      parseItems, parseFuncCall, parseFieldAccess, parseList, parseBetween]

theorem expect_np (tp : Nat) (ts : Toks) : NPc (expect tp ts) := by
  unfold expect; split
  · simp [eofErr]
  · split <;> simp [synErr]

theorem buildOp_np (p : Nat) (s : String) : NPc (buildOp p s) := by
  unfold buildOp; split <;> simp [synErr]

theorem operand_site : "parseOperand: p.tok is nil" ≠ cyclicPanic := by decide

theorem np_step {fuel : Nat} (ih : NpIH pf fuel) : NpIH pf (fuel + 1) := by
  constructor
  · -- binary
    intro lev prec ts
    unfold parseBinaryExpr
    apply NPc.bind (ih.unary lev ts)
    rintro ⟨x, ts'⟩
    exact ih.bloop _ _ _ _
  · -- bloop
    intro lev prec x ts
    unfold binaryLoop
    split
    · simp
    · split
      · simp
      · rename_i t rest
        dsimp only
        by_cases hp : t.prec < prec
        · rw [if_pos hp]; simp
        · rw [if_neg hp]
          apply NPc.bind
          · split
            · split
              · simp [eofErr]
              · split
                · exact ih.list _ _ _
                · exact ih.binary _ _ _
            · split
              · exact ih.between _ _ _ _
              · exact ih.binary _ _ _
          · rintro ⟨y, ts'⟩
            apply NPc.bind (buildOp_np _ _)
            intro op
            exact ih.bloop _ _ _ _
  · -- unary
    intro lev ts
    unfold parseUnaryExpr
    split
    · simp [eofErr]
    · split
      · apply NPc.bind (ih.unary _ _)
        rintro ⟨y, ts'⟩
        simp
      · exact ih.primary _ _
  · -- primary
    intro lev ts
    unfold parsePrimaryExpr
    apply NPc.bind (ih.operand lev ts)
    rintro ⟨x, ts'⟩
    exact ih.ploop _ _ _
  · -- ploop
    intro lev x ts
    unfold primaryLoop
    split
    · simp
    · split
      · split
        · simp
        · apply NPc.bind (ih.call _ _ _)
          rintro ⟨y, ts'⟩
          exact ih.ploop _ _ _
      · split
        · apply NPc.bind (ih.access _ _ _ _)
          rintro ⟨y, ts'⟩
          exact ih.ploop _ _ _
        · simp
  · -- operand
    intro lev ts
    unfold parseOperand
    split
    · simpa using operand_site
    · rename_i t rest
      repeat' split
      all_goals try (simp; done)
      apply NPc.bind (ih.binary _ _ rest)
      rintro ⟨y, ts'⟩
      apply NPc.bind (expect_np _ _)
      intro ts''
      simp
  · -- items
    intro lev close strict acc ts
    unfold parseItems
    split
    · simp
    · split
      · simp
      · apply NPc.bind (ih.binary _ _ _)
        rintro ⟨y, ts'⟩
        dsimp only
        split
        · simp
        · split
          · simp
          · split
            · simp [synErr]
            · exact ih.items _ _ _ _ _
  · -- call
    intro lev fn ts
    unfold parseFuncCall
    apply NPc.bind (expect_np _ _)
    intro ts1
    apply NPc.bind (ih.items _ _ _ [] ts1)
    rintro ⟨args, ts2⟩
    apply NPc.bind (expect_np _ _)
    intro ts3
    simp
  · -- access
    intro lev pos l ts
    unfold parseFieldAccess
    apply NPc.bind (expect_np _ _)
    intro ts1
    apply NPc.bind (ih.items _ _ _ [] ts1)
    rintro ⟨args, ts2⟩
    apply NPc.bind (expect_np _ _)
    intro ts3
    split
    · simp
    · simp [synErr]
  · -- list
    intro lev pos ts
    unfold parseList
    apply NPc.bind (expect_np _ _)
    intro ts1
    apply NPc.bind (ih.items _ _ _ [] ts1)
    rintro ⟨args, ts2⟩
    apply NPc.bind (expect_np _ _)
    intro ts3
    simp
  · -- between
    intro lev pos oprec ts
    unfold parseBetween
    apply NPc.bind (ih.binary _ _ ts)
    rintro ⟨lo, ts1⟩
    apply NPc.bind (expect_np _ _)
    intro ts2
    apply NPc.bind (ih.binary _ _ ts2)
    rintro ⟨hi, ts3⟩
    simp

theorem np_all : ∀ fuel, NpIH pf fuel
  | 0 => np_zero pf
  | n + 1 => np_step pf (np_all n)

/-! ### what a parsed expression is -/

/-- a parsed tree: no alias reference, no cycle marker, no negative literal -/
def AFN (x : Expr) : Prop := aliasFree x = true ∧ numsOK x = true

/-- the expression parser under `NC` -/
theorem parseExpr_nc {efuel : Nat} {ts : Toks} (hts : NumToksOK ts) :
    NC (parseExpr pf efuel ts) (fun p => AFN p.1 ∧ NumToksOK p.2) := by
  apply NC.of_ok
  · exact NC.no_panic ((np_all pf efuel).binary 0 1 ts)
  · rintro ⟨x, rest⟩ h
    obtain ⟨h1, h2⟩ := parseExpr_numsOK hts h
    exact ⟨⟨parseExpr_aliasFree pf h, h1⟩, numToksOK_of_subset hts h2⟩

variable {pf}

mutual
  theorem noCyc_of_aliasFree : ∀ e : Expr, aliasFree e = true → noCyc e = true
    | .binop _ _ l r, h => by
      simp only [aliasFree, Bool.and_eq_true] at h
      simp [noCyc, noCyc_of_aliasFree l h.1, noCyc_of_aliasFree r h.2]
    | .not _ r, h => by
      simp only [aliasFree] at h
      simp [noCyc, noCyc_of_aliasFree r h]
    | .call _ n args, h => by
      simp only [aliasFree, Bool.and_eq_true] at h
      simp [noCyc, noCyc_of_aliasFree n h.1, noCycList_of_aliasFree args h.2]
    | .list _ items, h => by
      simp only [aliasFree] at h
      simp [noCyc, noCycList_of_aliasFree items h]
    | .access _ l f, h => by
      simp only [aliasFree, Bool.and_eq_true] at h
      simp [noCyc, noCyc_of_aliasFree l h.1, noCyc_of_aliasFree f h.2]
    | .ref .., h => by simp [aliasFree] at h
    | .cycle, h => by simp [aliasFree] at h
    | .field .., _ | .str .., _ | .name .., _ | .num .., _ | .float .., _ | .bool .., _ => by simp [noCyc]
  theorem noCycList_of_aliasFree : ∀ es : List Expr, aliasFree.aliasFreeList es = true → noCycList es = true
    | [], _ => by simp [noCycList]
    | e :: es, h => by
      simp only [aliasFree.aliasFreeList, Bool.and_eq_true] at h
      simp [noCycList, noCyc_of_aliasFree e h.1, noCycList_of_aliasFree es h.2]
end

mutual
  theorem refIdx_of_refFree (tbl : Tbl) : ∀ e : Expr, refFree e = true → e.refIdx tbl = []
    | .binop _ _ l r, h => by
      simp only [refFree, Bool.and_eq_true] at h
      simp [Expr.refIdx, refIdx_of_refFree tbl l h.1, refIdx_of_refFree tbl r h.2]
    | .not _ r, h => by
      simp only [refFree] at h
      simp [Expr.refIdx, refIdx_of_refFree tbl r h]
    | .call _ n args, h => by
      simp only [refFree, Bool.and_eq_true] at h
      simp [Expr.refIdx, refIdx_of_refFree tbl n h.1, refIdxList_of_refFree tbl args h.2]
    | .list _ items, h => by
      simp only [refFree] at h
      simp [Expr.refIdx, refIdxList_of_refFree tbl items h]
    | .access _ l f, h => by
      simp only [refFree, Bool.and_eq_true] at h
      simp [Expr.refIdx, refIdx_of_refFree tbl l h.1, refIdx_of_refFree tbl f h.2]
    | .ref .., h => by simp [refFree] at h
    | .cycle, _ | .field .., _ | .str .., _ | .name .., _ | .num .., _ | .float .., _ | .bool .., _ => by
      simp [Expr.refIdx]
  theorem refIdxList_of_refFree (tbl : Tbl) : ∀ es : List Expr, refFree.refFreeList es = true →
      Expr.refIdx.refIdxList tbl es = []
    | [], _ => by simp [Expr.refIdx.refIdxList]
    | e :: es, h => by
      simp only [refFree.refFreeList, Bool.and_eq_true] at h
      simp [Expr.refIdx.refIdxList, refIdx_of_refFree tbl e h.1, refIdxList_of_refFree tbl es h.2]
end

/-- a parsed tree is good in the context of every table -/
theorem AFN.egood {x : Expr} (h : AFN x) (tbl : Tbl) : EGood tbl x :=
  ⟨foundP_of_refFree _ x (refFree_of_aliasFree x h.1), noCyc_of_aliasFree x h.1, h.2⟩

theorem AFN.field (q : Nat) (k : KW) : AFN (.field q k) := ⟨rfl, by simp [numsOK]⟩

/-- a table of parsed trees is good: it has no reference at all -/
theorem tgood_of_afn {tbl : Tbl} (h : ∀ (j : Nat) (nm : Bytes) (f : Expr), tbl[j]? = some (nm, f) → AFN f) :
    TGood tbl where
  found := fun j nm f hj => ((h j nm f hj).egood tbl).1
  clean := fun j nm f hj => ((h j nm f hj).egood tbl).2
  acyclic := by
    refine ⟨fun _ => 0, ?_⟩
    rintro a b ⟨nm, e, ha, hb⟩
    rw [refIdx_of_refFree tbl e (refFree_of_aliasFree e (h a nm e ha).1)] at hb
    simp at hb

theorem tgood_nil : TGood [] := tgood_of_afn (by intro j nm f h; simp at h)

/-- an entry of a good table is a good tree -/
theorem TGood.entry {tbl : Tbl} (hg : TGood tbl) {j : Nat} {nm : Bytes} {f : Expr} (h : tbl[j]? = some (nm, f)) :
    EGood tbl f := ⟨hg.found j nm f h, hg.clean j nm f h⟩

theorem TGood.find {tbl : Tbl} (hg : TGood tbl) {d : Bytes} {j : Nat} {f : Expr} (h : tbl.find d = some (j, f)) :
    EGood tbl f := by
  obtain ⟨n, hn⟩ := find_get h
  exact hg.entry hn

/-- `rt` over a good table, under `NC` -/
theorem rt_nc (ctx : CheckCtx) (hg : TGood ctx.tbl) {e : Expr} (he : EGood ctx.tbl e) :
    NC (ctx.rt e) (fun _ => True) := by
  obtain ⟨t, ht⟩ := rt_ok ctx hg he
  rw [ht]; trivial

/-- `check` over a good table, under `NC` -/
theorem check_nc (ctx : CheckCtx) (hg : TGood ctx.tbl) {e : Expr} (he : EGood ctx.tbl e) :
    NC (ctx.check e) (fun e' => EGood ctx.tbl e') :=
  NC.of_ok (check_no_panic ctx hg e he _) (fun _ h => check_egood ctx hg he h)

theorem rewrite_nc (ctx : CheckCtx) (hg : TGood ctx.tbl) {e : Expr} (he : EGood ctx.tbl e) :
    NC (ctx.rewrite e) (fun e' => EGood ctx.tbl e') := by
  apply NC.of_ok
  · unfold CheckCtx.rewrite
    repeat' split
    all_goals simp
  · exact fun _ h => rewrite_egood ctx hg he h

end Kvql.Proofs.RunNoPanic
