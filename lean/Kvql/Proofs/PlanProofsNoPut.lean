/-
  C11, second half: a DELETE (whichever strategy) — and likewise a SELECT or a REMOVE — never issues
  `Put` / `BatchPut`.
-/
import Kvql.Proofs.PlanProofsSelect

namespace Kvql.Proofs.Plan

open Kvql Kvql.Storage Kvql.Plans

/-- the entry is not a `Put` / `BatchPut` -/
def NotPut (e : Entry) : Prop := e.call.isPut = false

theorem allowsReads_notPut : AllowsReads NotPut := by
  intro c b h
  cases c <;> simp_all [NotPut, Call.isPut, Call.isRead, Call.isWrite]

def Plan.isPut : Plan → Bool
  | .put .. => true
  | _ => false

theorem em_removeExecute (keys : List (Except Err Bytes)) : Emits NotPut (RemovePlan.execute keys) := by
  unfold RemovePlan.execute
  apply Emits.bind (Emits.ofExcept _)
  intro ks
  split
  · exact Emits.pure _
  · exact Emits.bind (Emits.write _ rfl (fun _ => rfl) _) (fun _ => Emits.pure _)
  · exact Emits.bind (Emits.write _ rfl (fun _ => rfl) _) (fun _ => Emits.pure _)

theorem em_writePoll {P : Entry → Prop} {exec : M Nat} (h : Emits P exec) (plan' : Plan) :
    Emits P (writePoll exec plan') := by
  refine Emits.seq (g1 := exec)
    (fun r => match r with
      | .ok n => fun _ w => (⟨[.count n], none, plan'⟩, w)
      | .error e => fun _ w => (⟨[.count 0], some e, plan'⟩, w)) ?_ h ?_
  · intro f w
    simp only [writePoll]
    rcases h : exec f w with ⟨r, w'⟩
    cases r <;> rfl
  · intro r
    cases r <;> exact Emits.const' _

theorem em_deletePoll {P : Entry → Prop} {c : Child σ} (hc : ChildEmits P c) (hdel : ∀ ks b, P ⟨.batchDelete ks, b⟩)
    (bs fuel : Nat) (s : σ) (mk : σ → Plan) :
    Emits P (fun f w =>
      match DeletePlan.loop c bs fuel 0 s f w with
      | (((.ok n, _), st'), w') => ((⟨[.count n], none, mk st'⟩ : Polled), w')
      | (((.error e, n), st'), w') => (⟨[.count n], some e, mk st'⟩, w')) := by
  refine Emits.seq (g1 := DeletePlan.loop c bs fuel 0 s)
    (fun r => match r with
      | ((.ok n, _), st') => fun _ w => (⟨[.count n], none, mk st'⟩, w)
      | ((.error e, n), st') => fun _ w => (⟨[.count n], some e, mk st'⟩, w)) ?_ (em_deleteLoop hc hdel bs fuel 0 s) ?_
  · intro f w
    rcases h : DeletePlan.loop c bs fuel 0 s f w with ⟨⟨⟨r, n⟩, st'⟩, w'⟩
    cases r <;> rfl
  · intro r
    obtain ⟨⟨r, n⟩, st'⟩ := r
    cases r <;> exact Emits.const' _

/-- a poll of any plan other than a PUT issues no put, and leaves a plan other than a PUT -/
theorem em_poll_notPut (plan : Plan) (hp : Plan.isPut plan = false) (kind : PollKind) (bs : Nat) :
    Emits NotPut (plan.poll kind bs) := by
  cases plan with
  | select node filter st => exact em_pollSelect allowsReads_notPut node filter st kind bs
  | put pairs ex => simp [Plan.isPut] at hp
  | remove keys ex =>
    cases ex with
    | true => exact Emits.const' _
    | false => exact em_writePoll (em_removeExecute keys) _
  | deleteScan node filter ex st =>
    cases ex with
    | true => exact Emits.const' _
    | false =>
      refine Emits.congr ?_ (em_deletePoll (em_scanChild allowsReads_notPut node filter) (fun _ _ => rfl) bs
        (st.size + 2) st (fun st' => .deleteScan node filter true st'))
      intro f w
      simp only [Plan.poll, Bool.false_eq_true, if_false]
      generalize DeletePlan.loop _ _ _ _ _ f w = x
      obtain ⟨⟨⟨r, n⟩, st'⟩, w'⟩ := x
      cases r <;> rfl
  | deleteLimit node filter start count ex st =>
    cases ex with
    | true => exact Emits.const' _
    | false =>
      refine Emits.congr ?_ (em_deletePoll (em_limitChild (em_scanChild allowsReads_notPut node filter) start count)
        (fun _ _ => rfl) bs (st.child.size + 2) st (fun st' => .deleteLimit node filter start count true st'))
      intro f w
      simp only [Plan.poll, Bool.false_eq_true, if_false]
      generalize DeletePlan.loop _ _ _ _ _ f w = x
      obtain ⟨⟨⟨r, n⟩, st'⟩, w'⟩ := x
      cases r <;> rfl

theorem poll_notPut_plan (plan : Plan) (hp : Plan.isPut plan = false) (kind : PollKind) (bs : Nat)
    (f : Option Nat) (w : World) : Plan.isPut (plan.poll kind bs f w).1.plan = false := by
  cases plan with
  | put pairs ex => simp [Plan.isPut] at hp
  | select node filter st =>
    obtain ⟨st', h⟩ := poll_select_plan node filter st kind bs f w
    rw [h]; rfl
  | remove keys ex =>
    cases ex with
    | true => simp [Plan.poll, Plan.isPut]
    | false =>
      simp only [Plan.poll, Bool.false_eq_true, if_false, writePoll]
      rcases RemovePlan.execute keys f w with ⟨r, w'⟩
      cases r <;> rfl
  | deleteScan node filter ex st =>
    cases ex with
    | true => simp [Plan.poll, Plan.isPut]
    | false =>
      simp only [Plan.poll, Bool.false_eq_true, if_false]
      rcases DeletePlan.loop (node.child filter) bs (st.size + 2) 0 st f w with ⟨⟨⟨r, n⟩, st'⟩, w'⟩
      cases r <;> rfl
  | deleteLimit node filter start count ex st =>
    cases ex with
    | true => simp [Plan.poll, Plan.isPut]
    | false =>
      simp only [Plan.poll, Bool.false_eq_true, if_false]
      rcases DeletePlan.loop (LimitPlan.child start count (node.child filter)) bs (st.child.size + 2) 0 st f w with ⟨⟨⟨r, n⟩, st'⟩, w'⟩
      cases r <;> rfl

theorem em_drain_notPut (kind : PollKind) (bs fuel : Nat) :
    ∀ plan acc, Plan.isPut plan = false → Emits NotPut (drain kind bs fuel plan acc) := by
  induction fuel with
  | zero => intro plan acc _; exact Emits.const' _
  | succ fuel ih =>
    intro plan acc hp
    refine Emits.seq' (g1 := plan.poll kind bs)
      (fun r => match r with
        | ⟨rows, some e, _⟩ => fun _ w => (⟨.execErr e, if rows.isEmpty then acc else acc ++ [rows]⟩, w)
        | ⟨[], none, _⟩ => fun _ w => (⟨.ok, acc⟩, w)
        | ⟨rows, none, plan'⟩ => drain kind bs fuel plan' (acc ++ [rows])) ?_ (em_poll_notPut plan hp kind bs) ?_
    · intro f w
      simp only [drain]
      rcases h : plan.poll kind bs f w with ⟨⟨rows, e, p'⟩, w'⟩
      cases e with
      | some e => rfl
      | none => cases rows <;> rfl
    · intro f w
      have hnp := poll_notPut_plan plan hp kind bs f w
      rcases h : plan.poll kind bs f w with ⟨⟨rows, e, p'⟩, w'⟩
      rw [h] at hnp
      cases e with
      | some e => exact Emits.const' _
      | none =>
        cases rows with
        | nil => exact Emits.const' _
        | cons r rs => exact ih _ _ hnp

theorem em_planInit_notPut (p : Plan) : Emits NotPut p.init := by
  have hP := allowsReads_notPut
  unfold Plan.init
  cases p with
  | select node filter st => exact Emits.bind (em_scanInit hP _ _) (fun _ => Emits.pure _)
  | deleteScan node filter ex st => exact Emits.bind (em_scanInit hP _ _) (fun _ => Emits.pure _)
  | deleteLimit node filter start count ex st =>
    exact Emits.bind (em_limitInit (em_scanChild hP node filter) _) (fun _ => Emits.pure _)
  | put pairs ex => exact Emits.pure _
  | remove keys ex => exact Emits.pure _

def Stmt.isPut : Stmt → Bool
  | .put .. => true
  | _ => false

theorem planInit_isPut (p : Plan) (f : Option Nat) (w : World) (p' : Plan) (w' : World)
    (h : p.init f w = (.ok p', w')) : Plan.isPut p' = Plan.isPut p := by
  cases p with
  | select node filter st =>
    simp only [Plan.init, run_bind] at h
    rcases hh : node.init st f w with ⟨r, w1⟩
    rw [hh] at h
    cases r with
    | error e => simp at h
    | ok st' => simp only [run_pure, Prod.mk.injEq, Except.ok.injEq] at h; rw [← h.1]; rfl
  | deleteScan node filter ex st =>
    simp only [Plan.init, run_bind] at h
    rcases hh : node.init st f w with ⟨r, w1⟩
    rw [hh] at h
    cases r with
    | error e => simp at h
    | ok st' => simp only [run_pure, Prod.mk.injEq, Except.ok.injEq] at h; rw [← h.1]; rfl
  | deleteLimit node filter start count ex st =>
    simp only [Plan.init, run_bind] at h
    rcases hh : LimitPlan.init (node.child filter) st f w with ⟨r, w1⟩
    rw [hh] at h
    cases r with
    | error e => simp at h
    | ok st' => simp only [run_pure, Prod.mk.injEq, Except.ok.injEq] at h; rw [← h.1]; rfl
  | put pairs ex => simp only [Plan.init, run_pure, Prod.mk.injEq, Except.ok.injEq] at h; rw [← h.1]; rfl
  | remove keys ex => simp only [Plan.init, run_pure, Prod.mk.injEq, Except.ok.injEq] at h; rw [← h.1]; rfl

/-- the shape of the plan before its first `Init` -/
theorem buildPlan1_eq_init (stmt : Stmt) : ∃ p0, buildPlan1 stmt = Plan.init p0 ∧ Plan.isPut p0 = Stmt.isPut stmt := by
  cases stmt with
  | select node filter => exact ⟨.select node filter node.newState, rfl, rfl⟩
  | put pairs => exact ⟨.put pairs false, rfl, rfl⟩
  | remove keys => exact ⟨.remove keys false, rfl, rfl⟩
  | delete node filter hasAnd limit =>
    cases limit with
    | none =>
      cases node with
      | empty => exact ⟨.deleteScan .empty filter false {}, rfl, rfl⟩
      | mget ks =>
        cases hasAnd with
        | false => exact ⟨.remove (ks.map .ok) false, rfl, rfl⟩
        | true => exact ⟨.deleteScan (.mget ks) filter false (ScanNode.mget ks).newState, rfl, rfl⟩
      | full => exact ⟨.deleteScan .full filter false ScanNode.full.newState, rfl, rfl⟩
      | «prefix» p => exact ⟨.deleteScan (.prefix p) filter false (ScanNode.prefix p).newState, rfl, rfl⟩
      | range a b => exact ⟨.deleteScan (.range a b) filter false (ScanNode.range a b).newState, rfl, rfl⟩
    | some l =>
      obtain ⟨start, count⟩ := l
      cases node with
      | empty => exact ⟨.deleteScan .empty filter false {}, rfl, rfl⟩
      | mget ks => exact ⟨.deleteLimit (.mget ks) filter start count false { child := (ScanNode.mget ks).newState }, rfl, rfl⟩
      | full => exact ⟨.deleteLimit .full filter start count false { child := ScanNode.full.newState }, rfl, rfl⟩
      | «prefix» p =>
        exact ⟨.deleteLimit (.prefix p) filter start count false { child := (ScanNode.prefix p).newState }, rfl, rfl⟩
      | range a b =>
        exact ⟨.deleteLimit (.range a b) filter start count false { child := (ScanNode.range a b).newState }, rfl, rfl⟩

/-- a statement other than PUT never issues `Put` / `BatchPut` -/
theorem em_run_notPut (stmt : Stmt) (hs : Stmt.isPut stmt = false) (kind : PollKind) (bs : Nat) :
    Emits NotPut (runG stmt kind bs) := by
  obtain ⟨p0, hb1, hp0⟩ := buildPlan1_eq_init stmt
  have hbuild : Emits NotPut (buildPlan stmt) := by
    unfold buildPlan
    rw [hb1]
    exact Emits.bind (em_planInit_notPut p0) (fun p => em_planInit_notPut p)
  refine Emits.seq' (g1 := buildPlan stmt)
    (fun r => match r with
      | .error e => fun _ w => (⟨.planErr e, []⟩, w)
      | .ok plan => drain kind bs (plan.size + 2) plan []) ?_ hbuild ?_
  · intro f w
    simp only [runG]
    rcases h : buildPlan stmt f w with ⟨r, w'⟩
    cases r <;> rfl
  · intro f w
    rcases h : buildPlan stmt f w with ⟨r, w'⟩
    cases r with
    | error e => exact Emits.const' _
    | ok plan =>
      simp only []
      apply em_drain_notPut
      -- the plan built is not a PUT plan
      simp only [buildPlan, hb1, run_bind] at h
      rcases h1 : p0.init f w with ⟨r1, w1⟩
      rw [h1] at h
      cases r1 with
      | error e => simp at h
      | ok p1 =>
        simp only [] at h
        rw [planInit_isPut p1 f w1 plan w' h, planInit_isPut p0 f w p1 w1 h1, hp0, hs]

end Kvql.Proofs.Plan
