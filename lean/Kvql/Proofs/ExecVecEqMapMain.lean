import Kvql.Proofs.ExecVecEqMap
import Kvql.Proofs.ExecOffConst

namespace Kvql
open Generated

/-- the statement proved for every covered expression -/
def VecEqMap (e : Expr) : Prop :=
  ∀ (chunk : List Pair) (c : Ctx), c.enable = false →
    ∀ (vs : List Value) (c' : Ctx), execBatch e chunk c = (.ok vs, c') → c' = c ∧ RowsOk e c vs chunk

def VecBodyEqMap (b : Body) (args : List Expr) : Prop :=
  ∀ (chunk : List Pair) (c : Ctx), c.enable = false →
    ∀ (vs : List Value) (c' : Ctx), vecBody b args chunk c = (.ok vs, c') → c' = c ∧ BodyRowsOk b args c vs chunk

theorem leaf_case {e : Expr} (f : Pair → Value) (hb : ∀ chunk, execBatch e chunk = pure (chunk.map f))
    (hr : ∀ kv, exec e kv = pure (f kv)) : VecEqMap e := by
  intro chunk c _ vs c' h
  rw [hb] at h
  obtain ⟨rfl, rfl⟩ := pure_ok_inv h
  exact ⟨rfl, leaf_rows chunk (fun kv => by rw [hr]; rfl)⟩

/-- one-argument bodies whose batch form maps a total function over the argument's values -/
theorem unary_body {b : Body} {f : Value → Value} (hb : unaryOf b = some f) {a0 : Expr} {rest : List Expr}
    (ih : VecEqMap a0) : VecBodyEqMap b (a0 :: rest) := by
  intro chunk c hc vs c' h
  have hv : vecBody b (a0 :: rest) chunk = (do
      let rarg ← execBatch a0 chunk
      M.lift (mapRowsFresh f chunk.length rarg)) := by
    cases b <;> simp [unaryOf] at hb <;> subst hb <;> rw [vecBody]
  rw [hv] at h
  obtain ⟨rarg, c1, ha, h1⟩ := bind_ok_inv h
  obtain ⟨e1, Ra⟩ := ih chunk c hc _ _ ha
  rw [e1] at h1
  obtain ⟨hm, e2⟩ := lift_ok_inv h1
  refine ⟨e2, (mapRowsFresh_forall₂ Ra hm).imp ?_⟩
  rintro y kv ⟨x, ⟨x', hx, rx⟩, rfl⟩
  refine ⟨f x', row_unary hb hx, ?_⟩
  rw [unaryOf_congr hb rx]; exact .refl _

/-- the bodies whose vector form is the row form pair by pair -/
theorem rowwise_body (b : Body) (hb : b = .join ∨ b = .toList ∨ b = .intList ∨ b = .floatList) (args : List Expr) :
    VecBodyEqMap b args := by
  intro chunk c hc vs c' h
  rw [vec_rowwise b hb] at h
  unfold rowWiseNoCtx at h
  rcases hf : forPairs (rowBody b args) chunk Ctx.none with ⟨r, d⟩
  rw [hf] at h; simp at h; obtain ⟨rfl, rfl⟩ := h
  obtain ⟨_, R⟩ := forPairs_forall₂ (fun kv => rowBody_inert b args kv) (c := Ctx.none) rfl hf
  exact ⟨rfl, R.imp (fun v kv hv => ⟨v, (rowBody_off b args kv).run_eq rfl hc hv, .refl v⟩)⟩

theorem len_body {a0 : Expr} {rest : List Expr} (ih : VecEqMap a0) : VecBodyEqMap .len (a0 :: rest) := by
  intro chunk c hc vs c' h
  rw [vecBody] at h
  obtain ⟨rarg, c1, ha, h1⟩ := bind_ok_inv h
  obtain ⟨e1, Ra⟩ := ih chunk c hc _ _ ha
  rw [e1] at h1
  obtain ⟨hm, e2⟩ := lift_ok_inv h1
  refine ⟨e2, (mapRows_forall₂ Ra hm).imp ?_⟩
  rintro y kv ⟨x, ⟨x', hx, rx⟩, hk⟩
  cases hn : getListLength x with
  | error e => simp [hn, Except.map] at hk
  | ok n =>
    simp [hn, Except.map] at hk
    subst hk
    exact ⟨.goInt n, row_len hx (by rw [← rx.getListLength_congr]; exact hn), .refl _⟩

theorem json_body {a0 : Expr} {rest : List Expr} (ih : VecEqMap a0) : VecBodyEqMap .json (a0 :: rest) := by
  intro chunk c hc vs c' h
  rw [vecBody] at h
  obtain ⟨rarg, c1, ha, h1⟩ := bind_ok_inv h
  obtain ⟨e1, Ra⟩ := ih chunk c hc _ _ ha
  rw [e1] at h1
  obtain ⟨hm, e2⟩ := lift_ok_inv h1
  refine ⟨e2, (mapRows_forall₂ Ra hm).imp ?_⟩
  rintro y kv ⟨x, ⟨x', hx, rx⟩, hk⟩
  cases hb : convertToByteArray x with
  | none => simp [hb] at hk
  | some b =>
    simp [hb] at hk
    subst hk
    exact ⟨_, row_json hx (by rw [← rx.convertToByteArray_congr]; exact hb), .refl _⟩

theorem substr_body {a0 a1 a2 : Expr} {rest : List Expr} (ih0 : VecEqMap a0) (ih1 : VecEqMap a1) (ih2 : VecEqMap a2) :
    VecBodyEqMap .subStr (a0 :: a1 :: a2 :: rest) := by
  intro chunk c hc vs c' h
  rw [vecBody] at h
  split at h
  · cases h
  · rename_i t1
    split at h
    · cases h
    · rename_i t2
      obtain ⟨vals, c1, h0, h1⟩ := bind_ok_inv h
      obtain ⟨e1, R0⟩ := ih0 chunk c hc _ _ h0
      rw [e1] at h1
      obtain ⟨starts, c2, h1', h2⟩ := bind_ok_inv h1
      obtain ⟨e2, R1⟩ := ih1 chunk c hc _ _ h1'
      rw [e2] at h2
      obtain ⟨lens, c3, h2', h3⟩ := bind_ok_inv h2
      obtain ⟨e3, R2⟩ := ih2 chunk c hc _ _ h2'
      rw [e3] at h3
      obtain ⟨hm, e4⟩ := lift_ok_inv h3
      refine ⟨e4, (zip3Rows_forall₂ R0 R1 R2 hm).imp ?_⟩
      rintro y kv ⟨v, s, l, ⟨v', hv, rv⟩, ⟨s', hs, rs⟩, ⟨l', hl, rl⟩, hk⟩
      have t1' : retType a1 = tyTNUMBER := by simpa using t1
      have t2' : retType a2 = tyTNUMBER := by simpa using t2
      rw [substrRow_congr rv rs rl] at hk
      simp [substrRow, substrKernel] at hk
      subst hk
      exact ⟨_, row_substr hv t1' t2' hs hl, .refl _⟩

theorem split_body {a0 a1 : Expr} {rest : List Expr} (ih0 : VecEqMap a0) (ih1 : VecEqMap a1) :
    VecBodyEqMap .split (a0 :: a1 :: rest) := by
  intro chunk c hc vs c' h
  rw [vecBody] at h
  split at h
  · cases h
  · rename_i t1
    obtain ⟨vals, c1, h0, h1⟩ := bind_ok_inv h
    obtain ⟨e1, R0⟩ := ih0 chunk c hc _ _ h0
    rw [e1] at h1
    obtain ⟨sps, c2, h1', h2⟩ := bind_ok_inv h1
    obtain ⟨e2, R1⟩ := ih1 chunk c hc _ _ h1'
    rw [e2] at h2
    obtain ⟨hm, e3⟩ := lift_ok_inv h2
    refine ⟨e3, (zipRows_forall₂ R0 R1 hm).imp ?_⟩
    rintro y kv ⟨v, sp, ⟨v', hv, rv⟩, ⟨sp', hs, rs⟩, hk⟩
    have t1' : retType a1 = tyTSTR := by simpa using t1
    simp at hk
    subst hk
    refine ⟨_, row_split hv t1' hs, ?_⟩
    rw [rv.toStringV_congr, rs.toStringV_congr]; exact .refl _

theorem distance_body {b : Body} {dist : List F64 → List F64 → Except Err F64}
    (hb : (b = .l2 ∧ dist = l2Distance) ∨ (b = .cosine ∧ dist = cosineDistance))
    {a0 a1 : Expr} {rest : List Expr} (ih0 : VecEqMap a0) (ih1 : VecEqMap a1) :
    VecBodyEqMap b (a0 :: a1 :: rest) := by
  intro chunk c hc vs c' h
  have hv : vecBody b (a0 :: a1 :: rest) chunk = (do
      let largs ← execBatch a0 chunk
      let rargs ← execBatch a1 chunk
      M.lift (zipRowsLazy (distanceRow dist) chunk.length largs rargs)) := by
    rcases hb with ⟨rfl, rfl⟩ | ⟨rfl, rfl⟩ <;> rw [vecBody]
  rw [hv] at h
  obtain ⟨ls, c1, h0, h1⟩ := bind_ok_inv h
  obtain ⟨e1, R0⟩ := ih0 chunk c hc _ _ h0
  rw [e1] at h1
  obtain ⟨rs, c2, h1', h2⟩ := bind_ok_inv h1
  obtain ⟨e2, R1⟩ := ih1 chunk c hc _ _ h1'
  rw [e2] at h2
  obtain ⟨hm, e3⟩ := lift_ok_inv h2
  refine ⟨e3, (zipRowsLazy_forall₂ R0 R1 hm).imp ?_⟩
  rintro y kv ⟨l, r, ⟨l', hl, rl⟩, ⟨r', hr, rr⟩, hk⟩
  rw [distanceRow_congr dist rl rr, distanceRow_some] at hk
  cases hlv : toFloatList l' with
  | error e => rw [hlv] at hk; cases hk
  | ok lv =>
    cases hrv : toFloatList r' with
    | error e => rw [hlv, hrv] at hk; cases hk
    | ok rv =>
      cases hd : dist lv rv with
      | error e => rw [hlv, hrv] at hk; simp only [bind, Except.bind] at hk; rw [hd] at hk; cases hk
      | ok d =>
        rw [hlv, hrv] at hk; simp only [bind, Except.bind] at hk; rw [hd] at hk
        have hy : y = .float d := by cases hk; rfl
        subst hy
        refine ⟨.float d, ?_, .refl _⟩
        rcases hb with ⟨rfl, rfl⟩ | ⟨rfl, rfl⟩
        · rw [row_l2 hl hr hlv hrv, hd]; rfl
        · rw [row_cosine hl hr hlv hrv, hd]; rfl

theorem math_case {p : Nat} {op : Op} {mop : MathOp} {l r : Expr}
    (hop : (op = .sub ∧ mop = .sub) ∨ (op = .mul ∧ mop = .mul) ∨ (op = .div ∧ mop = .div) ∨
      (op = .add ∧ mop = .add ∧ (retType l == tyTSTR) = false))
    (ihl : VecEqMap l) (ihr : VecEqMap r) : VecEqMap (.binop p op l r) := by
  intro chunk c hc vs c' h
  refine binop_step (K := fun x y => executeMathOp x y mop) (K' := fun x y => executeMathOp x y mop)
    (F := zipRows (fun x y => executeMathOp x y mop)) ?_ zipRows_F (row_math hop)
    (same_kernel fun _ _ _ _ rx rz => rx.executeMathOp_congr rz mop) (ihl chunk c hc) (ihr chunk c hc) h
  rcases hop with ⟨rfl, rfl⟩ | ⟨rfl, rfl⟩ | ⟨rfl, rfl⟩ | ⟨rfl, rfl, hs⟩ <;> rw [execBatch] <;> simp [*]

theorem compare_case {p : Nat} {op : Op} {cop : CmpOp} {l r : Expr}
    (hop : (op = .gt ∧ cop = .gt) ∨ (op = .gte ∧ cop = .gte) ∨ (op = .lt ∧ cop = .lt) ∨ (op = .lte ∧ cop = .lte))
    (ihl : VecEqMap l) (ihr : VecEqMap r) : VecEqMap (.binop p op l r) := by
  intro chunk c hc vs c' h
  refine binop_step (K := fun x y => boolV (compareBy (!(retType l == tyTSTR)) x y cop))
    (K' := fun x y => boolV (compareBy (!(retType l == tyTSTR)) x y cop))
    (F := zipRows (fun x y => boolV (compareBy (!(retType l == tyTSTR)) x y cop))) ?_ zipRows_F (row_compare hop)
    (same_kernel fun _ _ _ _ rx rz => by rw [rx.compareBy_congr rz]) (ihl chunk c hc) (ihr chunk c hc) h
  rcases hop with ⟨rfl, rfl⟩ | ⟨rfl, rfl⟩ | ⟨rfl, rfl⟩ | ⟨rfl, rfl⟩ <;> rw [execBatch]

theorem eq_case {p : Nat} {op : Op} {not : Bool} {l r : Expr}
    (hop : (op = .eq ∧ not = false) ∨ (op = .neq ∧ not = true))
    (ihl : VecEqMap l) (ihr : VecEqMap r) : VecEqMap (.binop p op l r) := by
  intro chunk c hc vs c' h
  refine binop_step (K := fun a b => boolV ((equalRow a b).map (fun c => if not then !c else c)))
    (K' := fun a b => boolV ((equalRow a b).map (fun c => if not then !c else c)))
    (F := equalBatchFinish not) ?_ equalBatchFinish_F (row_eq hop)
    (same_kernel fun _ _ _ _ rx rz => by rw [rx.equalRow_congr rz]) (ihl chunk c hc) (ihr chunk c hc) h
  rcases hop with ⟨rfl, rfl⟩ | ⟨rfl, rfl⟩ <;> rw [execBatch]

theorem prefix_case {p : Nat} {l r : Expr} (ihl : VecEqMap l) (ihr : VecEqMap r) :
    VecEqMap (.binop p .prefixMatch l r) := by
  intro chunk c hc vs c' h
  refine binop_step (K := prefixK) (K' := prefixK) (F := zipRows prefixK) ?_ zipRows_F row_prefix
    (same_kernel prefixK_congr) (ihl chunk c hc) (ihr chunk c hc) h
  rw [execBatch]; rfl

theorem regex_case {p : Nat} {l r : Expr} (ihl : VecEqMap l) (ihr : VecEqMap r) :
    VecEqMap (.binop p .regexMatch l r) := by
  intro chunk c hc vs c' h
  refine binop_step (K := regexK) (K' := regexK) (F := zipRows regexK) ?_ zipRows_F row_regex
    (same_kernel regexK_congr) (ihl chunk c hc) (ihr chunk c hc) h
  rw [execBatch]; rfl

theorem and_case {p : Nat} {op : Op} {l r : Expr} (hop : op = .and ∨ op = .kwAnd)
    (ihl : VecEqMap l) (ihr : VecEqMap r) : VecEqMap (.binop p op l r) := by
  intro chunk c hc vs c' h
  refine binop_step (K := andK) (K' := andK) (F := zipRows andK) ?_ zipRows_F (row_and hop)
    andK_rel (ihl chunk c hc) (ihr chunk c hc) h
  rcases hop with rfl | rfl <;> rw [execBatch] <;> rfl

theorem or_case {p : Nat} {op : Op} {l r : Expr} (hop : op = .or ∨ op = .kwOr)
    (ihl : VecEqMap l) (ihr : VecEqMap r) : VecEqMap (.binop p op l r) := by
  intro chunk c hc vs c' h
  refine binop_step (K := orK) (K' := orK) (F := zipRows orK) ?_ zipRows_F (row_or hop)
    orK_rel (ihl chunk c hc) (ihr chunk c hc) h
  rcases hop with rfl | rfl <;> rw [execBatch] <;> rfl

theorem concat_case {p : Nat} {l r : Expr} (hs : (retType l == tyTSTR) = true)
    (ihl : VecEqMap l) (ihr : VecEqMap r) : VecEqMap (.binop p .add l r) := by
  intro chunk c hc vs c' h
  refine binop_step (K := concatK) (K' := concatK') (F := zipRows concatK) ?_ zipRows_F (row_concat hs)
    concatK_rel (ihl chunk c hc) (ihr chunk c hc) h
  rw [execBatch]; simp [hs]; rfl

theorem not_case {p : Nat} {r : Expr} (ih : VecEqMap r) : VecEqMap (.not p r) := by
  intro chunk c hc vs c' h
  rw [execBatch] at h
  obtain ⟨right, c1, ha, h1⟩ := bind_ok_inv h
  obtain ⟨e1, Ra⟩ := ih chunk c hc _ _ ha
  rw [e1] at h1
  obtain ⟨hm, e2⟩ := lift_ok_inv h1
  refine ⟨e2, (mapRows_forall₂ Ra hm).imp ?_⟩
  rintro y kv ⟨x, ⟨x', hx, rx⟩, hk⟩
  rw [rx.asBool_congr] at hk
  cases hb : asBool x' with
  | error e => simp [hb, boolV, Except.map] at hk
  | ok b =>
    simp [hb, boolV, Except.map] at hk
    subst hk
    refine ⟨_, ?_, .refl _⟩
    rw [exec]; simp [M.bind_ok hx, hb, M.bind_run]

theorem ref_case {p : Nat} {name : Bytes} {t : Expr} (ih : VecEqMap t) : VecEqMap (.ref p name t) := by
  intro chunk c hc vs c' h
  rw [execBatch] at h
  dsimp only at h
  split at h
  · cases h
  · simp only [Ctx.getChunkFieldResult_off hc, ite_self] at h
    rcases hx : execBatch t chunk c with ⟨r, c1⟩
    rw [hx] at h
    cases r with
    | error e => cases h
    | ok vs0 =>
      obtain ⟨e1, R⟩ := ih chunk c hc _ _ hx
      subst e1
      simp only [Ctx.setChunkFieldResult_off hc, ite_self] at h
      cases h
      refine ⟨rfl, R.imp ?_⟩
      rintro y kv ⟨y', hy, ry⟩
      refine ⟨y', ?_, ry⟩
      rw [exec_ref_off p name t kv hc (exec_inert t kv _ hc)]
      exact hy

theorem access_case {p : Nat} {l f : Expr} (ih : VecEqMap l) : VecEqMap (.access p l f) := by
  intro chunk c hc vs c' h
  rw [execBatch] at h
  obtain ⟨left, c1, ha, h1⟩ := bind_ok_inv h
  obtain ⟨e1, Ra⟩ := ih chunk c hc _ _ ha
  rw [e1] at h1
  have hlen : left.length = chunk.length := Ra.length_eq
  split at h1
  · rename_i q d
    obtain ⟨hm, e2⟩ := lift_ok_inv h1
    rw [hlen] at hm
    refine ⟨e2, (mapRows_forall₂ Ra hm).imp ?_⟩
    rintro y kv ⟨x, ⟨x', hx, rx⟩, hk⟩
    exact ⟨y, by rw [row_dictAccess hx, rx.dictAccess_congr d hk], .refl _⟩
  · rename_i q d n
    obtain ⟨hm, e2⟩ := lift_ok_inv h1
    rw [hlen] at hm
    refine ⟨e2, (mapRows_forall₂ Ra hm).imp ?_⟩
    rintro y kv ⟨x, ⟨x', hx, rx⟩, hk⟩
    exact ⟨y, by rw [row_listAccess hx, rx.listAccess_congr n hk], .refl _⟩
  · cases h1

/-- `x in f(..)` / `x in alias` with a statically list-typed right operand -/
theorem in_call_case {p : Nat} {l r : Expr} (hr : (∃ q nm args, r = .call q nm args) ∨ (∃ q nm t, r = .ref q nm t))
    (ht : retType r = tyTLIST) (ihl : VecEqMap l) (ihr : VecEqMap r) : VecEqMap (.binop p .in_ l r) := by
  intro chunk c hc vs c' h
  rw [execBatch] at h
  obtain ⟨rleft, c1, ha, h1⟩ := bind_ok_inv h
  obtain ⟨e1, Ra⟩ := ihl chunk c hc _ _ ha
  rw [e1] at h1
  have hfr : ∃ frets c2, execBatch r chunk c = (.ok frets, c2) ∧
      M.lift (inCallRows (!(retType l == tyTSTR)) chunk.length rleft frets) c2 = (.ok vs, c') := by
    rcases hr with ⟨q, nm, args, rfl⟩ | ⟨q, nm, t, rfl⟩ <;> exact bind_ok_inv h1
  obtain ⟨frets, c2, hb, h2⟩ := hfr
  obtain ⟨e2, Rb⟩ := ihr chunk c hc _ _ hb
  rw [e2] at h2
  obtain ⟨hm, e3⟩ := lift_ok_inv h2
  refine ⟨e3, (inCallRows_forall₂ Ra Rb hm).imp ?_⟩
  rintro y kv ⟨a, b, vals, cc, ⟨a', hx, rx⟩, ⟨b', hz, rz⟩, hu, hv, rfl⟩
  refine ⟨.bool cc, ?_, .refl _⟩
  have hu' : unpackArray b' = some vals := by rw [← rz.unpackArray_congr]; exact hu
  have hin : inAnyList (!(retType l == tyTSTR)) a' vals = cc := by
    rw [← inAnyList_rel rx]; exact inValues_ok hv
  rcases hr with ⟨q, nm, args, rfl⟩ | ⟨q, nm, t, rfl⟩ <;> rw [exec] <;>
    simp [M.bind_ok hx, ht, M.bind_ok hz, hu', hin]

theorem between_case {p q : Nat} {l lo hi : Expr} (ihl : VecEqMap l) (ihlo : VecEqMap lo) (ihhi : VecEqMap hi) :
    VecEqMap (.binop p .between l (.list q [lo, hi])) := by
  intro chunk c hc vs c' h
  rw [execBatch] at h
  obtain ⟨rleft, c1, ha, h1⟩ := bind_ok_inv h
  obtain ⟨e1, Ra⟩ := ihl chunk c hc _ _ ha
  rw [e1] at h1
  dsimp only at h1
  split at h1
  · cases h1
  · rename_i t1
    split at h1
    · cases h1
    · rename_i t2
      split at h1
      · cases h1
      · rename_i t3
        split at h1
        · cases h1
        · rename_i t4
          obtain ⟨lb, c2, hb, h2⟩ := bind_ok_inv h1
          obtain ⟨e2, Rb⟩ := ihlo chunk c hc _ _ hb
          rw [e2] at h2
          obtain ⟨ub, c3, hu, h3⟩ := bind_ok_inv h2
          obtain ⟨e3, Rc⟩ := ihhi chunk c hc _ _ hu
          rw [e3] at h3
          obtain ⟨hm, e4⟩ := lift_ok_inv h3
          refine ⟨e4, (betweenRows_forall₂ Ra Rb Rc hm).imp ?_⟩
          rintro y kv ⟨a, b, cc, ⟨a', hx, rx⟩, ⟨b', hy, ry⟩, ⟨c'', hz, rz⟩, hk⟩
          refine ⟨y, ?_, .refl _⟩
          have hk' : betweenKernel (!(retType l == tyTSTR)) a' b' c'' = .ok y := by
            rw [← rx.betweenKernel_congr ry rz]; exact betweenRow_ok hk
          rw [exec]
          simp only [M.bind_ok hx]
          cases hs : (retType l == tyTSTR) <;> simp [hs] at t1 t2 t3 t4 hk' <;>
            simp [hs, t1, t2, t3, t4, M.bind_ok hy, M.bind_ok hz, hk']

theorem between_bad_case {p : Nat} {l r : Expr} (hr : ∀ q lo hi, r ≠ .list q [lo, hi]) (ihl : VecEqMap l) :
    VecEqMap (.binop p .between l r) := by
  intro chunk c hc vs c' h
  rw [execBatch] at h
  obtain ⟨rleft, c1, ha, h1⟩ := bind_ok_inv h
  split at h1
  · rename_i q lo hi; exact absurd rfl (hr q lo hi)
  · cases h1

theorem in_other_case {p : Nat} {l r : Expr} (hr1 : ∀ q items, r ≠ .list q items) (hr2 : ∀ q nm args, r ≠ .call q nm args)
    (hr3 : ∀ q nm t, r ≠ .ref q nm t) : VecEqMap (.binop p .in_ l r) := by
  intro chunk c hc vs c' h
  rw [execBatch] at h
  obtain ⟨rleft, c1, ha, h1⟩ := bind_ok_inv h
  split at h1
  · rename_i q items; exact absurd rfl (hr1 q items)
  · rename_i q nm args; exact absurd rfl (hr2 q nm args)
  · rename_i q nm t; exact absurd rfl (hr3 q nm t)
  · cases h1

end Kvql
