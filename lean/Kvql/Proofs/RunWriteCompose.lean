/-
  PUT / REMOVE judged by the REFERENCE evaluator, and PUT followed by `select * where key = 'k'`.

  * `bytesOf_of_spec`: on the core language, where the reference evaluator gives a value with a
    documented text form (`Spec.toStr`: text, integer numeral, `%f` float), the engine's
    `[]byte(toString(Execute(…)))` is that text (C01 `exec_refines_spec` + `toStr_spec`).
  * `putSpec` / `removeSpec`: the pairs / keys of a statement according to the reference.
  * `run_put_then_select`: the whole-statement form of C12 `put_then_select`, composed with the
    whole-statement C01 (`run_select_star_correct`).
-/
import Kvql.Proofs.RunProofs
import Kvql.Proofs.RunWritePut

namespace Kvql.Proofs.RunWrite
open Kvql Kvql.Run Kvql.Plans Kvql.Proofs.Plan Kvql.Proofs.Typing Kvql.Cache Kvql.Refine
open Kvql.Proofs.Scan Kvql.Proofs.Store
open Kvql.PlanCheck (planStage finalPlanCheck)

/-! ### PUT / REMOVE against the reference evaluator -/

/-- the text an expression denotes on a pair according to the reference evaluator -/
def specBytes (e : Expr) (kv : Kvql.Pair) : Option Bytes :=
  match Spec.eval e kv with
  | some s => Spec.toStr s
  | none => none

theorem bytesOf_of_spec {e : Expr} (hP : CoreLang e) {kv : Kvql.Pair} {t : Bytes} (h : specBytes e kv = some t) :
    bytesOf e kv = .ok t := by
  unfold specBytes at h
  split at h
  · rename_i s hs
    obtain ⟨v, hv, hrel⟩ := exec_refines_spec e hP kv hs
    unfold bytesOf nocache
    rw [hv]
    simp only
    rw [toStr_spec hrel h]
  · cases h

/-- the pairs of a PUT according to the reference: the key expression on the empty pair, the value
    expression on (its own key, "") -/
def putSpec : List (Expr × Expr) → Option (List Storage.Pair)
  | [] => some []
  | (k, v) :: rest =>
    match specBytes k emptyKv with
    | none => none
    | some key =>
      match specBytes v ⟨key, []⟩ with
      | none => none
      | some val =>
        match putSpec rest with
        | none => none
        | some kvs => some ((key, val) :: kvs)

def removeSpec : List Expr → Option (List Bytes)
  | [] => some []
  | k :: rest =>
    match specBytes k emptyKv with
    | none => none
    | some key =>
      match removeSpec rest with
      | none => none
      | some ks => some (key :: ks)

/-- every key and value expression lies in the core language of the reference evaluator and is
    well-kinded (decidable) -/
def putCore (pairs : List (Expr × Expr)) : Prop := ∀ p ∈ pairs, CoreLang p.1 ∧ CoreLang p.2

def removeCore (keys : List Expr) : Prop := ∀ k ∈ keys, CoreLang k

instance (pairs : List (Expr × Expr)) : Decidable (putCore pairs) := by unfold putCore; infer_instance
instance (keys : List Expr) : Decidable (removeCore keys) := by unfold removeCore; infer_instance

theorem putEval_of_spec : ∀ (pairs : List (Expr × Expr)), putCore pairs → ∀ kvps, putSpec pairs = some kvps →
    putEval pairs = .ok kvps
  | [], _, kvps, h => by simp [putSpec] at h; subst h; rfl
  | (k, v) :: rest, hc, kvps, h => by
    have hkv := hc (k, v) List.mem_cons_self
    have hrest : putCore rest := fun p hp => hc p (List.mem_cons_of_mem _ hp)
    simp only [putSpec] at h
    split at h
    · cases h
    · rename_i key hk
      split at h
      · cases h
      · rename_i val hv
        split at h
        · cases h
        · rename_i kvs hr
          cases h
          simp only [putEval, bytesOf_of_spec hkv.1 hk, bytesOf_of_spec hkv.2 hv, putEval_of_spec rest hrest kvs hr]

theorem removeEval_of_spec : ∀ (keys : List Expr), removeCore keys → ∀ ks, removeSpec keys = some ks →
    removeEval keys = .ok ks
  | [], _, ks, h => by simp [removeSpec] at h; subst h; rfl
  | k :: rest, hc, ks, h => by
    have hk0 := hc k List.mem_cons_self
    have hrest : removeCore rest := fun p hp => hc p (List.mem_cons_of_mem _ hp)
    simp only [removeSpec] at h
    split at h
    · cases h
    · rename_i key hk
      split at h
      · cases h
      · rename_i ks' hr
        cases h
        simp only [removeEval, bytesOf_of_spec hk0 hk, removeEval_of_spec rest hrest ks' hr]

/-! ### the one call of a PUT / REMOVE -/

theorem putCall_length_le (kvps : List Storage.Pair) : (putCall kvps).length ≤ 1 := by
  unfold putCall; split <;> simp

theorem removeCall_length_le (ks : List Bytes) : (removeCall ks).length ≤ 1 := by
  unfold removeCall; split <;> simp

/-! ### PUT, then `select * where key = 'k'` -/

/-- in a sorted store the pairs with key `k` are the one pair `lookup` finds -/
theorem filter_key_eq {store : Storage.Store} (hs : store.Sorted) {k v : Bytes} (h : store.lookup k = some v) :
    store.filter (fun p => decide (p.1 = k)) = [(k, v)] := by
  have hf := found_eq_filter hs (ks := [k]) (List.pairwise_singleton _ _)
  have : found store [k] = [(k, v)] := by simp [found, h]
  rw [this] at hf
  rw [hf]
  apply List.filter_congr
  intro p _
  simp

/-- the reference evaluator on `key = 'k'` -/
theorem spec_key_eq (p p1 p2 : Nat) (k : Bytes) (kv : Kvql.Pair) :
    Spec.eval (.binop p .eq (.field p1 .key) (.str p2 k)) kv = some (.bool (decide (kv.key = k))) := by
  simp [Spec.eval, Spec.binop, Spec.compare?]

/-- **`select * where key = 'k'` on a sorted store that holds `v` under `k`** returns the pair (k, v)
    and nothing else (row mode, every batch size, cache on or off): C01 over the end-to-end model,
    instantiated. -/
theorem run_select_key_eq (query : Bytes) (pf : Bytes → F64) (s : SelectS)
    (hplan : planStage pf (Lexer.split query) = .ok (.select s))
    (hstar : s.allFields = true) (hord : s.order = none) (hlim : s.limit = none)
    (hnoaggr : finalPlanCheck s = .ok false)
    {p p1 p2 : Nat} {k : Bytes} (hw : s.where_ = .binop p .eq (.field p1 .key) (.str p2 k))
    (store : Storage.Store) (hs : store.Sorted) {v : Bytes} (hl : store.lookup k = some v)
    (bs : Nat) (hbs : 1 ≤ bs) (cache : Bool) :
    (runQuery query pf store .next bs cache).fail = none ∧
    (runQuery query pf store .next bs cache).rows = [pairRow (k, v)] ∧
    (runQuery query pf store .next bs cache).world.store = store := by
  have haf : aliasFree s.where_ = true := by rw [hw]; rfl
  have hside : sideOk s.where_ = true := by rw [hw]; rfl
  have hcore : Refine.core s.where_ = true := by rw [hw]; rfl
  have hev : ∀ q ∈ store, Spec.evaluable s.where_ ⟨q.1, q.2⟩ = true := by
    intro q _
    rw [hw]
    unfold Spec.evaluable
    rw [spec_key_eq]
  obtain ⟨r1, r2, r3⟩ := Kvql.Proofs.Run.run_select_star_correct query pf s hplan hstar hord hlim hnoaggr haf hside hcore
    store hs hev bs hbs cache
  refine ⟨r1, ?_, r3⟩
  rw [r2]
  have : (store.filter (fun q => Spec.holds s.where_ ⟨q.1, q.2⟩)) = store.filter (fun q => decide (q.1 = k)) := by
    apply List.filter_congr
    intro q _
    rw [hw]
    unfold Spec.holds
    rw [spec_key_eq]
    by_cases e : q.1 = k <;> simp [e]
  rw [this, filter_key_eq hs hl]
  rfl

end Kvql.Proofs.RunWrite
