/-
  C17, positions in the tree: constant folding and the trees the end-to-end model evaluates.

  expression_optimizer.go creates nodes in four places; each takes the `Pos` of a node of the tree it
  rewrites, so `NodeOK T F` is preserved (instance of the generic recursion of Proofs/FoldVecGen.lean):
    * `tryOptimizeBinaryOpExecute`: the literal that replaces `l op r` carries `e.Left.GetPos()` — the
      position of the LEFT operand (a literal), not of the operator;
    * `tryOptimizeFunctionCall`: the literal that replaces `f(args)` carries `e.GetPos()`, the call's;
    * `tryOptimizeAndOr`: the Boolean literal carries the position of the Boolean operand that decided;
    * `tryReorderBinaryOp`: the new inner node of `x op (c1 op c2)` carries `e.GetPos()`, the outer node's.
  `Run.foldSelect` then re-points alias references at the folded field nodes (`Parser.resolveTop`).
-/
import Kvql.Proofs.ErrPosStmt
import Kvql.Proofs.FoldVecGen
import Kvql.Model.Run

namespace Kvql.Proofs.ErrPos

open Kvql Kvql.Parser Kvql.Generated Kvql.Fold

section
variable (T F : Nat → Prop)

/-- the rewritten tree satisfies the invariant when the original does -/
def Pres (e e' : Expr) : Prop := NodeOK T F e → NodeOK T F e'

theorem lit_pos {l : Expr} (hl : isLit4 l = true) (h : NodeOK T F l) : T l.pos := by
  cases l <;> simp [isLit4] at hl <;> exact h

theorem nodeOK_mkBool (p : Nat) (b : Bool) : NodeOK T F (mkBool p b) ↔ T p := by
  simp [mkBool, NodeOK]

theorem pres_andOr (e : Expr) : Pres T F e (andOr e).1 := by
  intro h
  cases e with
  | binop p op l r =>
    by_cases hop : op = .and ∨ op = .or
    · have hne : (op != .and && op != .or) = false := by rcases hop with h | h <;> subst h <;> rfl
      rcases notBool_cases l with ⟨pl, dl, lv, rfl⟩ | hl'
      · rcases notBool_cases r with ⟨pr, dr, rv, rfl⟩ | hr'
        · rw [andOr_bothLit pl dl lv pr dr rv hne]
          split <;> exact (nodeOK_mkBool T F _ _).mpr h.2.1
        · rw [andOr_leftLit pl dl lv hne hr']
          split <;> split <;> first | exact h.2.2 | exact (nodeOK_mkBool T F _ _).mpr h.2.1
      · rcases notBool_cases r with ⟨pr, dr, rv, rfl⟩ | hr'
        · rw [andOr_rightLit pr dr rv hne hl']
          split <;> split <;> first | exact h.2.1 | exact (nodeOK_mkBool T F _ _).mpr h.2.2
        · rw [andOr_noLit hl' hr']; exact h
    · have : (op != .and && op != .or) = true := by
        cases op <;> simp at hop <;> rfl
      simp only [andOr, this, if_true]
      exact h
  | _ => simp only [andOr]; exact h

theorem pres_foldBinary {p : Nat} {op : Op} {l r k : Expr} (hl : isLit4 l = true)
    (h : foldBinary (.binop p op l r) = .ok (some k)) : Pres T F (.binop p op l r) k := by
  intro hn
  have hp : T l.pos := lit_pos T F hl hn.2.1
  unfold foldBinary at h
  dsimp only at h
  split at h
  all_goals first
    | (split at h
       · cases h
       · split at h
         all_goals first
           | (cases h; first | exact hp | exact (nodeOK_mkBool T F _ _).mpr hp)
           | cases h)
    | cases h

theorem pres_foldCall {p : Nat} {nm : Expr} {args : List Expr} {k : Expr}
    (h : foldCall (.call p nm args) = .ok (some k)) : Pres T F (.call p nm args) k := by
  intro hn
  have hp : T p := hn.1
  unfold foldCall at h
  dsimp only at h
  split at h
  · cases h
  · split at h
    · cases h
    · split at h
      · split at h
        · cases h; exact hp
        · cases h
      · split at h
        · split at h
          · cases h; exact hp
          · cases h; exact hp
          · cases h
        · split at h
          · split at h
            · cases h; exact (nodeOK_mkBool T F _ _).mpr hp
            · cases h
          · cases h

/-- the literal that replaces `l op r` carries the position of the LEFT operand -/
theorem foldBinary_pos {p : Nat} {op : Op} {l r k : Expr}
    (h : foldBinary (.binop p op l r) = .ok (some k)) : k.pos = l.pos := by
  unfold foldBinary at h
  dsimp only at h
  split at h
  all_goals first
    | (split at h
       · cases h
       · split at h
         all_goals first
           | (cases h; rfl)
           | cases h)
    | cases h

/-- the literal that replaces `f(args)` carries the position of the call -/
theorem foldCall_pos {p : Nat} {nm : Expr} {args : List Expr} {k : Expr}
    (h : foldCall (.call p nm args) = .ok (some k)) : k.pos = p := by
  unfold foldCall at h
  dsimp only at h
  split at h
  · cases h
  · split at h
    · cases h
    · split at h
      · split at h
        · cases h; rfl
        · cases h
      · split at h
        · split at h
          · cases h; rfl
          · cases h; rfl
          · cases h
        · split at h
          · split at h
            · cases h; rfl
            · cases h
          · cases h

theorem pres_rows : ∀ {args args' : List Expr}, Rows (Pres T F) args args' → NodeOKs T F args →
    NodeOKs T F args'
  | _, _, .nil, _ => trivial
  | _, _, .cons ha hr, h => ⟨ha h.1, pres_rows hr h.2⟩

/-- the instance: folding preserves `NodeOK T F` -/
def posSys : Sys where
  F := Pres T F
  S := Pres T F
  F_refl := fun _ h => h
  F_trans := fun h1 h2 h => h2 (h1 h)
  S_of_F := fun h => h
  S_trans := fun h1 h2 h => h2 (h1 h)
  binop := fun _ _ _ _ _ _ hl hr h => ⟨h.1, hl h.2.1, hr h.2.2⟩
  call := fun _ _ _ _ hrows h => ⟨h.1, h.2.1, pres_rows T F (hrows.imp fun _ _ hh => hh.1) h.2.2⟩
  foldBinary := fun hl _ h => pres_foldBinary T F hl h
  foldCall := fun _ h => pres_foldCall T F h
  assoc := fun _ _ _ _ _ _ _ _ h => ⟨h.1, h.2.1.2.1, h.1, h.2.1.2.2, h.2.2⟩
  andOr := pres_andOr T F

/-- **constant folding keeps positions**: both the tree `Optimize()` returns and the state in which it
    leaves the node that was the root satisfy the invariant of the tree it was given -/
theorem optimizeBoth_ok {e r n : Expr} (h : optimizeBoth e = .ok (r, n)) (he : NodeOK T F e) :
    NodeOK T F r ∧ NodeOK T F n :=
  ⟨((posSys T F).optimizeBoth_ok h).1 he, ((posSys T F).optimizeBoth_ok h).2 he⟩

theorem optimize_ok {e e' : Expr} (h : optimize e = .ok e') (he : NodeOK T F e) : NodeOK T F e' :=
  (posSys T F).optimize_ok h he

/-! ### `foldSelect` -/

theorem mapM_optimizeBoth_ok : ∀ (fs : List Expr) (out : List (Expr × Expr)),
    fs.mapM optimizeBoth = .ok out → NodeOKs T F fs →
    ∀ p ∈ out, NodeOK T F p.1 ∧ NodeOK T F p.2 := by
  intro fs
  induction fs with
  | nil =>
    intro out h _ p hp
    simp [List.mapM_nil, pure, Except.pure] at h
    subst h
    simp at hp
  | cons a rest ih =>
    intro out h hn p hp
    rw [List.mapM_cons] at h
    obtain ⟨b, hb, h⟩ := except_bind_ok h
    obtain ⟨bs, hbs, h⟩ := except_bind_ok h
    cases h
    simp only [List.mem_cons] at hp
    rcases hp with rfl | hp
    · obtain ⟨b1, b2⟩ := p
      exact optimizeBoth_ok T F hb hn.1
    · exact ih bs hbs hn.2 p hp

/-- the trees a SELECT is evaluated on: the folded WHERE, the folded fields and the nodes alias
    references and GROUP BY fields point at -/
theorem foldSelect_ok {s : SelectS} {f : Run.FoldedSelect} (h : Run.foldSelect s = .ok f)
    (hw : NodeOK T F s.where_) (hf : NodeOKs T F s.fields) :
    NodeOK T F f.where_ ∧ NodeOKs T F f.fields ∧ NodeOKs T F f.nodes := by
  unfold Run.foldSelect at h
  obtain ⟨w, hwo, h⟩ := except_bind_ok h
  obtain ⟨fs, hfs, h⟩ := except_bind_ok h
  cases h
  obtain ⟨w1, w2⟩ := w
  have hwf := optimizeBoth_ok T F hwo hw
  have hall := mapM_optimizeBoth_ok T F s.fields fs hfs hf
  have htbl : TblOK T F (s.fieldNames.zip (fs.map (·.2))) := by
    intro p hp
    obtain ⟨n, x⟩ := p
    have := (List.of_mem_zip hp).2
    simp only [List.mem_map] at this
    obtain ⟨q, hq, rfl⟩ := this
    exact (hall q hq).2
  refine ⟨resolveTop_ok T F htbl hwf.1, ?_, ?_⟩
  · rw [nodeOKs_iff]
    intro x hx
    simp only [List.mem_map] at hx
    obtain ⟨q, hq, rfl⟩ := hx
    exact resolveTop_ok T F htbl (hall q hq).1
  · rw [nodeOKs_iff]
    intro x hx
    simp only [List.mem_map] at hx
    obtain ⟨q, hq, rfl⟩ := hx
    exact resolveTop_ok T F htbl (hall q hq).2

end

end Kvql.Proofs.ErrPos
