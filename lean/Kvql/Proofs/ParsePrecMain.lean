/-
  C15, precedence and parentheses — the main induction: for every concrete syntax tree `s` whose
  parentheses suffice (`Syn.ok`), the parser reads `Syn.toks s` as `Syn.strip s`, at every level
  of the grammar at which `s` can stand.
-/
import Kvql.Proofs.ParsePrecSteps

set_option linter.unusedSimpArgs false
set_option linter.unusedVariables false

namespace Kvql.Proofs.ParsePrec

open Kvql Kvql.Parser Kvql.Generated Kvql.Proofs.PrintLex Kvql.Proofs.PrintParse
open Kvql.Proofs.Prec (atomTok opOK atom_operand opPrec_pos stopB_mono unary_notbang stopB_op)

variable (pf : Bytes → F64)

/-- what the first token of `s` is -/
def HeadOK (s : Syn) (t : Token) : Prop :=
  t.tp ≠ tkRPAREN ∧ t.tp ≠ tkRBRACK ∧ ((t.tp == tkLPAREN) = s.headParen) ∧
    (s.isPrimary = true → notBang t)

/-- `s` parses back at every level of the grammar at which it can stand -/
structure SOK (s : Syn) : Prop where
  q : QX pf s.lpr s.rpr s.strip (s.toks pf)
  u : s.isBin = false → UX pf s.strip (s.toks pf)
  p : s.isPrimary = true → PX pf s.strip (s.toks pf)
  hd : Head (HeadOK s) (s.toks pf)
  l1 : 1 ≤ s.lpr

theorem hd_mono {P Q : Token → Prop} {a : Toks} (h : Head P a) (hpq : ∀ t, P t → Q t) : Head Q a := by
  obtain ⟨t, r, rfl, ht⟩ := h
  exact ⟨t, r, rfl, hpq t ht⟩

theorem head_len {P : Token → Prop} {ts : Toks} (h : Head P ts) : 1 ≤ ts.length := by
  obtain ⟨t, r, rfl, _⟩ := h
  simp

theorem atomTok_tp {e : Expr} {t : Token} (h : atomTok pf e = some t) :
    t.tp ≠ tkRPAREN ∧ t.tp ≠ tkRBRACK ∧ t.tp ≠ tkLPAREN := by
  cases e <;> simp only [atomTok] at h
  case name p d => cases h; simp only [tok_tp]; decide
  case field p kw => cases kw <;> simp only [atomTok] at h <;> cases h <;> simp only [tok_tp] <;> decide
  case str p d => cases h; simp only [tok_tp]; decide
  case num p d v => split at h <;> cases h; simp only [tok_tp]; decide
  case float p d v => split at h <;> cases h; simp only [tok_tp]; decide
  case bool p d v => cases v <;> simp only [atomTok] at h <;> cases h <;> simp only [tok_tp] <;> decide
  all_goals cases h

/-- a primary expression, from its `PX` -/
theorem sok_prim {s : Syn} (hk : s.isPrimary = true) (hp : PX pf s.strip (s.toks pf))
    (hh : Head (HeadOK s) (s.toks pf)) : SOK pf s := by
  have hnb := Syn.not_bin_of_primary hk
  have hu : UX pf s.strip (s.toks pf) := ux_of_px pf (hd_mono hh (fun t ht => ht.2.2.2 hk)) hp
  exact { q := qx_of_ux pf _ _ (head_len hh) hu, u := fun _ => hu, p := fun _ => hp, hd := hh,
          l1 := by rw [(Syn.lpr_of_not_bin hnb).1]; omega }

theorem mx_of_sok {s : Syn} (h : SOK pf s) {c : Nat} (hc : c ≤ s.lpr) : MX pf c s.strip (s.toks pf) :=
  mx_of_qx pf h.q hc (by have := Syn.lpr_le_rpr s; omega)

theorem mx1_of_sok {s : Syn} (h : SOK pf s) : MX pf 1 s.strip (s.toks pf) := mx_of_sok pf h h.l1

theorem headOK_left (s : Syn) {l : Syn} {tl : Toks} (h : Head (HeadOK l) tl) (hp : s.headParen = l.headParen)
    (hk : s.isPrimary = true → l.isPrimary = true) (rest : Toks) : Head (HeadOK s) (tl ++ rest) := by
  obtain ⟨t, r, rfl, h1, h2, h3, h4⟩ := h
  exact ⟨t, r ++ rest, rfl, h1, h2, by rw [hp]; exact h3, fun hs => h4 (hk hs)⟩

mutual
  theorem sok : ∀ s : Syn, s.ok pf = true → SOK pf s
    | .atom e, h => by
      simp only [Syn.ok, Option.isSome_iff_exists] at h
      obtain ⟨t, ht⟩ := h
      have hts : Syn.toks pf (.atom e) = [t] := by simp [Syn.toks, ht]
      have htp := atomTok_tp pf ht
      refine sok_prim pf rfl (by rw [hts]; exact px_atom pf ht) ?_
      rw [hts]
      refine ⟨t, [], rfl, htp.1, htp.2.1, ?_, fun _ => (atom_operand pf ht).2⟩
      simp only [Syn.headParen]
      simpa using htp.2.2
    | .paren s, h => by
      simp only [Syn.ok] at h
      have ih := sok s h
      refine sok_prim pf rfl ?_ ?_
      · simp only [Syn.toks, Syn.strip]
        exact px_paren pf (mx1_of_sok pf ih)
      · simp only [Syn.toks]
        exact ⟨LP, _, rfl, by decide, by decide, by simp [Syn.headParen, LP, tok_tp],
          fun _ => notBang_of_tp' (by decide)⟩
    | .bin p op l r, h => by
      simp only [Syn.ok, Bool.and_eq_true, decide_eq_true_eq] at h
      obtain ⟨⟨⟨⟨hop, hl⟩, hr⟩, hrp⟩, hlp⟩ := h
      have il := sok l hl
      have ir := sok r hr
      have hP := opPrec_pos hop
      exact {
        q := by
          simp only [Syn.toks, Syn.strip, Syn.lpr, Syn.rpr]
          exact qx_bin pf p op hop il.q hrp (mx_of_sok pf ir hlp)
        u := fun hb => by simp [Syn.isBin] at hb
        p := fun hb => by simp [Syn.isPrimary] at hb
        hd := by
          simp only [Syn.toks]
          exact headOK_left (.bin p op l r) il.hd rfl (fun hb => by simp [Syn.isPrimary] at hb) _
        l1 := by simp only [Syn.lpr]; have := il.l1; omega }
    | .inList p l items, h => by
      simp only [Syn.ok, Bool.and_eq_true, decide_eq_true_eq] at h
      obtain ⟨⟨hl, hi⟩, hrp⟩ := h
      have il := sok l hl
      have ii := sokList items hi
      exact {
        q := by
          simp only [Syn.toks, Syn.strip, Syn.lpr, Syn.rpr]
          exact qx_inList pf p il.q hrp ii
        u := fun hb => by simp [Syn.isBin] at hb
        p := fun hb => by simp [Syn.isPrimary] at hb
        hd := by
          simp only [Syn.toks]
          exact headOK_left (.inList p l items) il.hd rfl (fun hb => by simp [Syn.isPrimary] at hb) _
        l1 := by simp only [Syn.lpr]; have := il.l1; omega }
    | .inExpr p l r, h => by
      simp only [Syn.ok, Bool.and_eq_true, decide_eq_true_eq, Bool.not_eq_true'] at h
      obtain ⟨⟨⟨⟨hl, hr⟩, hrp⟩, hlp⟩, hnp⟩ := h
      have il := sok l hl
      have ir := sok r hr
      exact {
        q := by
          simp only [Syn.toks, Syn.strip, Syn.lpr, Syn.rpr]
          refine qx_inExpr pf p il.q hrp (mx_of_sok pf ir hlp) (hd_mono ir.hd (fun t ht => ?_))
          have := ht.2.2.1
          rw [hnp] at this
          simpa using this
        u := fun hb => by simp [Syn.isBin] at hb
        p := fun hb => by simp [Syn.isPrimary] at hb
        hd := by
          simp only [Syn.toks]
          exact headOK_left (.inExpr p l r) il.hd rfl (fun hb => by simp [Syn.isPrimary] at hb) _
        l1 := by simp only [Syn.lpr]; have := il.l1; omega }
    | .between p l lo hi, h => by
      simp only [Syn.ok, Bool.and_eq_true, decide_eq_true_eq] at h
      obtain ⟨⟨⟨⟨⟨hl, hlo⟩, hhi⟩, hrp⟩, hlpo⟩, hlph⟩ := h
      have il := sok l hl
      have ilo := sok lo hlo
      have ihi := sok hi hhi
      exact {
        q := by
          simp only [Syn.toks, Syn.strip, Syn.lpr, Syn.rpr]
          exact qx_between pf p il.q hrp (mx_of_sok pf ilo hlpo) (mx_of_sok pf ihi hlph)
        u := fun hb => by simp [Syn.isBin] at hb
        p := fun hb => by simp [Syn.isPrimary] at hb
        hd := by
          simp only [Syn.toks]
          exact headOK_left (.between p l lo hi) il.hd rfl (fun hb => by simp [Syn.isPrimary] at hb) _
        l1 := by simp only [Syn.lpr]; have := il.l1; omega }
    | .not p r, h => by
      simp only [Syn.ok, Bool.and_eq_true, Bool.not_eq_true'] at h
      have ir := sok r h.1
      have hu : UX pf (Syn.strip (.not p r)) (Syn.toks pf (.not p r)) := by
        simp only [Syn.toks, Syn.strip]
        exact ux_not pf p (ir.u h.2)
      have hh : Head (HeadOK (.not p r)) (Syn.toks pf (.not p r)) := by
        simp only [Syn.toks]
        exact ⟨BANG p, _, rfl, by simp only [BANG, tok_tp]; decide, by simp only [BANG, tok_tp]; decide,
          by simp only [Syn.headParen, BANG, tok_tp]; decide,
          fun hb => by simp [Syn.isPrimary] at hb⟩
      exact {
        q := qx_of_ux pf _ _ (head_len hh) hu
        u := fun _ => hu
        p := fun hb => by simp [Syn.isPrimary] at hb
        hd := hh
        l1 := by simp [Syn.lpr] }
    | .call fn args, h => by
      simp only [Syn.ok, Bool.and_eq_true] at h
      obtain ⟨⟨⟨hf, hk⟩, hat⟩, ha⟩ := h
      have ifn := sok fn hf
      have ia := sokList args ha
      refine sok_prim pf rfl ?_ ?_
      · simp only [Syn.toks, Syn.strip]
        exact px_call pf (ifn.p hk) hat ia
      · simp only [Syn.toks]
        exact headOK_left (.call fn args) ifn.hd rfl (fun _ => hk) _
    | .access p l f, h => by
      simp only [Syn.ok, Bool.and_eq_true] at h
      obtain ⟨⟨hl, hk⟩, hf⟩ := h
      have il := sok l hl
      have iff := sok f hf
      refine sok_prim pf rfl ?_ ?_
      · simp only [Syn.toks, Syn.strip]
        exact px_access pf p (il.p hk) (mx1_of_sok pf iff) (hd_mono iff.hd (fun t ht => ht.2.1))
      · simp only [Syn.toks]
        exact headOK_left (.access p l f) il.hd rfl (fun _ => hk) _
  theorem sokList : ∀ ss : List Syn, Syn.okList pf ss = true →
      IX pf (Syn.stripList ss) (Syn.toksList pf ss)
    | [], _ => by
      simp only [Syn.stripList, Syn.toksList]
      exact ix_nil pf
    | [s], h => by
      simp only [Syn.okList, Bool.and_eq_true] at h
      have is := sok s h.1
      simp only [Syn.stripList, Syn.toksList]
      exact ix_one pf (mx1_of_sok pf is) (hd_mono is.hd (fun t ht => ht.1))
    | s :: s2 :: ss, h => by
      simp only [Syn.okList, Bool.and_eq_true] at h
      have is := sok s h.1
      have ih := sokList (s2 :: ss) (by simp only [Syn.okList, Bool.and_eq_true]; exact h.2)
      simp only [Syn.stripList, Syn.toksList] at ih ⊢
      exact ix_cons pf (mx1_of_sok pf is) (hd_mono is.hd (fun t ht => ht.1)) ih
end

/-- **Round trip, with a continuation.**  The tokens of `s`, followed by anything that does not
    continue an expression (no `(`, `[`, no binary operator), are read by `parseBinaryExpr` at
    any nesting level as `strip s`, with any fuel from `8·|tokens| + 4` on, below the nesting
    limit. -/
theorem parse_syn_rest (s : Syn) (h : s.ok pf = true) (fuel lev : Nat) (rest : Toks)
    (hstop : StopB 1 rest) (hf : 8 * (s.toks pf).length + 4 ≤ fuel) (hl : lev + fuel ≤ maxNestLevel) :
    parseBinaryExpr pf fuel lev 1 (s.toks pf ++ rest) = .ok (s.strip, rest) :=
  mx1_of_sok pf (sok pf s h) fuel lev rest hstop hf hl

/-- **Round trip.**  `parseExpr` on the tokens of `s` gives `strip s`. -/
theorem parse_syn (s : Syn) (h : s.ok pf = true) (hsize : 8 * (s.toks pf).length + 8 ≤ maxNestLevel) :
    parseExpr pf (exprFuel (s.toks pf)) (s.toks pf) = .ok (s.strip, []) := by
  have := parse_syn_rest pf s h (exprFuel (s.toks pf)) 0 [] (stopB_nil 1) (by simp [exprFuel])
    (by simp only [exprFuel]; omega)
  simpa [parseExpr] using this

end Kvql.Proofs.ParsePrec
