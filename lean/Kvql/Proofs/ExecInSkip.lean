/-
  `x in f(..)` / `x in alias`: both evaluators end the membership loop at the first element that
  cannot be compared with the left operand, without a match and without an error (`inAnyList`).
  On the values a list-valued function returns this is the same as SKIPPING incomparable elements:
  such lists are homogeneous (`[]string`, `[]int64`, `[]float64`), so either every element is
  comparable with the left operand or none is.
-/
import Kvql.Model.ExecVec

namespace Kvql

/-- membership that skips the elements that cannot be compared -/
def inSkipping (number : Bool) (left : Value) (vals : List Value) : Bool :=
  vals.any fun v => match compareBy number left v .eq with
    | .ok true => true
    | _ => false

/-- all elements have the same comparability with `left` -/
def Uniform (number : Bool) (left : Value) (vals : List Value) : Prop :=
  (∀ v ∈ vals, ∃ e, compareBy number left v .eq = .error e) ∨ (∀ v ∈ vals, ∃ b, compareBy number left v .eq = .ok b)

theorem inAnyList_eq_skipping {number : Bool} {left : Value} :
    ∀ {vals : List Value}, Uniform number left vals → inAnyList number left vals = inSkipping number left vals
  | [], _ => rfl
  | v :: vs, h => by
    unfold inAnyList inSkipping
    rcases h with h | h
    · obtain ⟨e, he⟩ := h v (by simp)
      rw [he]
      have : ∀ w ∈ v :: vs, (match compareBy number left w .eq with | .ok true => true | _ => false) = false := by
        intro w hw; obtain ⟨e', he'⟩ := h w hw; rw [he']
      exact (List.any_eq_false.mpr fun w hw => by simp [this w hw]).symm
    · obtain ⟨b, hb⟩ := h v (by simp)
      have ih := inAnyList_eq_skipping (number := number) (left := left) (vals := vs)
        (.inr fun w hw => h w (by simp [hw]))
      rw [hb]
      cases b
      · simp only [List.any_cons, hb, Bool.false_or]
        simpa [inSkipping] using ih
      · simp [hb]

theorem compare_str_uniform (number : Bool) (left : Value) (b b' : Bytes) :
    (∃ e, compareBy number left (.str b) .eq = .error e) ↔ (∃ e, compareBy number left (.str b') .eq = .error e) := by
  cases number <;> cases left <;>
    simp [compareBy, execNumberCompare, execStringCompare, convertToInt, convertToFloat, convertToByteArray]

theorem compare_int_uniform (number : Bool) (left : Value) (i i' : Int64) :
    (∃ e, compareBy number left (.int i) .eq = .error e) ↔ (∃ e, compareBy number left (.int i') .eq = .error e) := by
  cases number <;> cases left <;>
    simp [compareBy, execNumberCompare, execStringCompare, convertToInt, convertToFloat, convertToByteArray]

theorem compare_float_uniform (number : Bool) (left : Value) (f f' : F64) :
    (∃ e, compareBy number left (.float f) .eq = .error e) ↔ (∃ e, compareBy number left (.float f') .eq = .error e) := by
  cases number <;> cases left <;>
    simp [compareBy, execNumberCompare, execStringCompare, convertToInt, convertToFloat, convertToByteArray]

theorem uniform_map {α} (number : Bool) (left : Value) (w : α → Value)
    (hw : ∀ a a', (∃ e, compareBy number left (w a) .eq = .error e) ↔ (∃ e, compareBy number left (w a') .eq = .error e)) :
    ∀ (l : List α), Uniform number left (l.map w)
  | [] => .inl (by simp)
  | a :: l => by
    cases h : compareBy number left (w a) .eq with
    | error e =>
      refine .inl fun v hv => ?_
      obtain ⟨a', _, rfl⟩ := List.mem_map.mp hv
      exact (hw a a').mp ⟨e, h⟩
    | ok b =>
      refine .inr fun v hv => ?_
      obtain ⟨a', _, rfl⟩ := List.mem_map.mp hv
      cases h' : compareBy number left (w a') .eq with
      | ok b' => exact ⟨b', rfl⟩
      | error e' =>
        obtain ⟨e, he⟩ := (hw a' a).mp ⟨e', h'⟩
        rw [h] at he; cases he

/-- on an unpacked list value the two readings of "an incomparable element does not match" coincide -/
theorem in_unpacked_skips {number : Bool} {left fret : Value} {vals : List Value} (h : unpackArray fret = some vals) :
    inAnyList number left vals = inSkipping number left vals := by
  apply inAnyList_eq_skipping
  cases fret <;> simp [unpackArray] at h <;> subst h
  · exact uniform_map number left .str (compare_str_uniform number left) _
  · exact uniform_map number left .int (compare_int_uniform number left) _
  · exact uniform_map number left .float (compare_float_uniform number left) _

end Kvql
