/-
  C14, dynamic half (lemma file, to be combined with the checker-level statements):
  an expression that is well-kinded by the README rules (`kindOf e = some k`: operands of `& | !`
  Boolean; `^= ~=` text; `= !=` same scalar kind; `< <= > >=`, `between` text or number, same kind;
  `+` two numbers or two texts; `- * /` numbers; `in` over items of the left kind or over a
  list-valued call / alias with elements of the left kind; every function of `funcTable` on arguments
  of its documented kinds) never fails with an operand-type error — row by row (`exec`) and on
  a chunk (`execBatch`) — and its value has the inferred kind (preservation), which is also the
  engine's static `ReturnType()`.
  Dynamically typed field access (`x['f']`, `x[n]`) is outside `kindOf`, as the property exempts
  it.  Cache off (the cache is C05's subject).  Model = patched code (before patches 04 and 06
  `x in split(..)` row by row and `float(value) = 1.5` were counter-examples).

  What remains for C14(4) at the level of statements: `kindOf` is this file's reading of the README
  typing; that the engine's checker accepts exactly the `kindOf`-typable expressions (and rewrites
  aliases everywhere) is the static half (`check_sound` / `check_complete`), not proved here.
-/
import Kvql.Proofs.ExecVecSoundThm

namespace Kvql.Proofs.C14
open Kvql

/-- progress + preservation, row mode -/
theorem progress_row (e : Expr) (k : Kind) (hk : kindOf e = some k) (kv : Pair) (c : Ctx)
    (hc : c.enable = false) :
    (∀ v c', exec e kv c = (.ok v, c') → v.hasKind k = true) ∧
    (∀ err c', exec e kv c = (.error err, c') → err ≠ .operandType) :=
  exec_sound e k hk kv c hc

/-- progress + preservation, batch mode -/
theorem progress_batch (e : Expr) (k : Kind) (hk : kindOf e = some k) (chunk : List Pair) (c : Ctx)
    (hc : c.enable = false) :
    (∀ vs c', execBatch e chunk c = (.ok vs, c') → vs.length = chunk.length ∧ ∀ v ∈ vs, v.hasKind k = true) ∧
    (∀ err c', execBatch e chunk c = (.error err, c') → err ≠ .operandType) :=
  ⟨fun _ _ h => (batch_ok_kinds hk hc h).2, batch_sound_core e k hk chunk c hc⟩

/-- the inferred kind is the engine's static type -/
theorem kind_is_static_type (e : Expr) (k : Kind) (hk : kindOf e = some k) : retType e = k.code :=
  retType_of_kind e k hk

/-- theorem (4) of the design, for both evaluators -/
theorem progress (e : Expr) (k : Kind) (hk : kindOf e = some k) (chunk : List Pair) (c : Ctx) (hc : c.enable = false) :
    (∀ kv, ∀ err c', exec e kv c = (.error err, c') → err ≠ .operandType) ∧
    (∀ err c', execBatch e chunk c = (.error err, c') → err ≠ .operandType) :=
  ⟨fun kv => (exec_sound e k hk kv c hc).2, batch_sound_core e k hk chunk c hc⟩

/-- non-vacuity: `float(value) = 1.5` and `value in split(key, ',')` are well-kinded (the
    expressions that used to fail) -/
example : kindOf (.binop 0 .eq (.call 0 (.name 0 (asciiBytes "float")) [.field 0 .value])
    (.float 0 [] ⟨0x3FF8000000000000⟩)) = some .bool := by decide

example : kindOf (.binop 0 .in_ (.field 0 .value)
    (.call 0 (.name 0 (asciiBytes "split")) [.field 0 .key, .str 0 [44]])) = some .bool := by decide

end Kvql.Proofs.C14
