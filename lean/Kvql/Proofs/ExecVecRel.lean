/-
  Ingredients of `vec_eq_map`: the content relation between a batch value and the row value, the
  kernels' behaviour under it, and what the batch loops say about each pair.
-/
import Kvql.Proofs.ExecInert
import Kvql.Proofs.ExecFuncs

namespace Kvql
open Generated

/-- a value produced by batch evaluation (`vb`) against the value row evaluation produces (`vr`):
    the same, or the same text as `[]byte` where the row evaluator has a Go `string` (`+`).
    Implies `Value.contentEq`. -/
def Rel (vb vr : Value) : Prop := vb = vr ∨ ∃ b, vb = .bytes b ∧ vr = .str b

theorem Rel.refl (v : Value) : Rel v v := .inl rfl

/-- two lists related element by element (and hence of the same length) -/
inductive Rows {α β : Type} (P : α → β → Prop) : List α → List β → Prop
  | nil : Rows P [] []
  | cons {a : α} {b : β} {as : List α} {bs : List β} : P a b → Rows P as bs → Rows P (a :: as) (b :: bs)

theorem Rows.imp {α β : Type} {P Q : α → β → Prop} (h : ∀ a b, P a b → Q a b) :
    ∀ {as : List α} {bs : List β}, Rows P as bs → Rows Q as bs
  | _, _, .nil => .nil
  | _, _, .cons hp hr => .cons (h _ _ hp) (Rows.imp h hr)

theorem Rows.length_eq {α β : Type} {P : α → β → Prop} :
    ∀ {as : List α} {bs : List β}, Rows P as bs → as.length = bs.length
  | _, _, .nil => rfl
  | _, _, .cons _ hr => by simp [Rows.length_eq hr]

theorem Rows.get {α β : Type} {P : α → β → Prop} :
    ∀ {as : List α} {bs : List β}, Rows P as bs → ∀ (i : Nat) (h : i < bs.length),
      ∃ a, as[i]? = some a ∧ P a bs[i]
  | _, _, .cons hp _, 0, _ => ⟨_, rfl, hp⟩
  | _, _, .cons _ hr, i + 1, h => by
    obtain ⟨a, ha, hp⟩ := Rows.get hr i (by simpa using h)
    exact ⟨a, by simpa using ha, by simpa using hp⟩

theorem Rel.contentEq {vb vr : Value} (h : Rel vb vr) : Value.contentEq vb vr := by
  rcases h with rfl | ⟨b, rfl, rfl⟩
  · rfl
  · rfl

theorem Rel.convertToByteArray_congr {x x' : Value} (h : Rel x x') : convertToByteArray x = convertToByteArray x' := by
  rcases h with rfl | ⟨b, rfl, rfl⟩ <;> rfl
theorem Rel.convertToInt_congr {x x' : Value} (h : Rel x x') : convertToInt x = convertToInt x' := by
  rcases h with rfl | ⟨b, rfl, rfl⟩ <;> rfl
theorem Rel.convertToFloat_congr {x x' : Value} (h : Rel x x') : convertToFloat x = convertToFloat x' := by
  rcases h with rfl | ⟨b, rfl, rfl⟩ <;> rfl
theorem Rel.toStringV_congr {x x' : Value} (h : Rel x x') : toStringV x = toStringV x' := by
  rcases h with rfl | ⟨b, rfl, rfl⟩ <;> rfl
theorem Rel.toIntV_congr {x x' : Value} (h : Rel x x') (d : Int64) : toIntV x d = toIntV x' d := by
  rcases h with rfl | ⟨b, rfl, rfl⟩ <;> rfl
theorem Rel.toFloatV_congr {x x' : Value} (h : Rel x x') (d : F64) : toFloatV x d = toFloatV x' d := by
  rcases h with rfl | ⟨b, rfl, rfl⟩ <;> rfl
theorem Rel.isIntV_congr {x x' : Value} (h : Rel x x') : isIntV x = isIntV x' := by
  rcases h with rfl | ⟨b, rfl, rfl⟩ <;> rfl
theorem Rel.isFloatV_congr {x x' : Value} (h : Rel x x') : isFloatV x = isFloatV x' := by
  rcases h with rfl | ⟨b, rfl, rfl⟩ <;> rfl
theorem Rel.asBool_congr {x x' : Value} (h : Rel x x') : asBool x = asBool x' := by
  rcases h with rfl | ⟨b, rfl, rfl⟩ <;> rfl
theorem Rel.getListLength_congr {x x' : Value} (h : Rel x x') : getListLength x = getListLength x' := by
  rcases h with rfl | ⟨b, rfl, rfl⟩ <;> rfl
theorem Rel.toFloatList_congr {x x' : Value} (h : Rel x x') : toFloatList x = toFloatList x' := by
  rcases h with rfl | ⟨b, rfl, rfl⟩ <;> rfl
theorem Rel.listUseInt_congr {x x' : Value} (h : Rel x x') : listUseInt x = listUseInt x' := by
  rcases h with rfl | ⟨b, rfl, rfl⟩ <;> rfl
theorem Rel.unpackArray_congr {x x' : Value} (h : Rel x x') : unpackArray x = unpackArray x' := by
  rcases h with rfl | ⟨b, rfl, rfl⟩ <;> rfl

theorem Rel.executeMathOp_congr {x x' z z' : Value} (hx : Rel x x') (hz : Rel z z') (op : MathOp) :
    executeMathOp x z op = executeMathOp x' z' op := by
  unfold executeMathOp
  rw [hx.convertToInt_congr, hz.convertToInt_congr, hx.convertToFloat_congr, hz.convertToFloat_congr]

theorem Rel.execNumberCompare_congr {x x' z z' : Value} (hx : Rel x x') (hz : Rel z z') (op : CmpOp) :
    execNumberCompare x z op = execNumberCompare x' z' op := by
  unfold execNumberCompare
  rw [hx.convertToInt_congr, hz.convertToInt_congr, hx.convertToFloat_congr, hz.convertToFloat_congr]

theorem Rel.execStringCompare_congr {x x' z z' : Value} (hx : Rel x x') (hz : Rel z z') (op : CmpOp) :
    execStringCompare x z op = execStringCompare x' z' op := by
  unfold execStringCompare
  rw [hx.convertToByteArray_congr, hz.convertToByteArray_congr]

theorem Rel.compareBy_congr {x x' z z' : Value} (hx : Rel x x') (hz : Rel z z') (n : Bool) (op : CmpOp) :
    compareBy n x z op = compareBy n x' z' op := by
  unfold compareBy
  rw [hx.execNumberCompare_congr hz, hx.execStringCompare_congr hz]

theorem Rel.numberEqual_congr {x x' z z' : Value} (hx : Rel x x') (hz : Rel z z') :
    numberEqual x z = numberEqual x' z' := by
  unfold numberEqual
  rw [hx.execNumberCompare_congr hz]

theorem Rel.equalRow_congr {x x' z z' : Value} (hx : Rel x x') (hz : Rel z z') : equalRow x z = equalRow x' z' := by
  rcases hx with rfl | ⟨b, rfl, rfl⟩
  · rcases hz with rfl | ⟨b', rfl, rfl⟩
    · rfl
    · cases x <;> simp [equalRow, convertToByteArray, numberEqual, execNumberCompare, convertToInt, convertToFloat]
  · rcases hz with rfl | ⟨b', rfl, rfl⟩
    · simp [equalRow, convertToByteArray]
    · simp [equalRow, convertToByteArray]

theorem Rel.betweenKernel_congr {x x' lo lo' hi hi' : Value} (hx : Rel x x') (hl : Rel lo lo') (hh : Rel hi hi') (n : Bool) :
    betweenKernel n x lo hi = betweenKernel n x' lo' hi' := by
  unfold betweenKernel
  rw [hl.compareBy_congr hh, hl.compareBy_congr hx, hx.compareBy_congr hh]

/-- field access: where batch succeeds the row evaluator succeeds with the same member -/
theorem Rel.dictAccess_congr {x x' y : Value} (k : Bytes) (h : Rel x x') (hy : dictAccess k x = .ok y) :
    dictAccess k x' = .ok y := by
  rcases h with rfl | ⟨b, rfl, rfl⟩
  · exact hy
  · simp [dictAccess] at hy

theorem Rel.listAccess_congr {x x' y : Value} (n : Int64) (h : Rel x x') (hy : listAccess n x = .ok y) :
    listAccess n x' = .ok y := by
  rcases h with rfl | ⟨b, rfl, rfl⟩
  · exact hy
  · simp [listAccess] at hy

/-! ### what a successful batch loop says pair by pair -/

theorem mapRows_forall₂ {f : Value → Except Err Value} {P : Value → Pair → Prop} :
    ∀ {xs : List Value} {chunk : List Pair} {ys : List Value}, Rows P xs chunk →
      mapRows f chunk.length xs = .ok ys →
      Rows (fun y kv => ∃ x, P x kv ∧ f x = .ok y) ys chunk
  | [], [], ys, _, h => by simp [mapRows] at h; subst h; exact .nil
  | x :: xs, kv :: chunk, ys, .cons hp hrest, h => by
    simp only [List.length_cons, mapRows] at h
    cases hf : f x with
    | error e => simp [hf] at h; cases h
    | ok y =>
      cases hm : mapRows f chunk.length xs with
      | error e => simp [hf, hm] at h; cases h
      | ok ys' =>
        simp [hf, hm] at h
        have : ys = y :: ys' := by cases h; rfl
        subst this
        exact .cons ⟨x, hp, hf⟩ (mapRows_forall₂ hrest hm)

theorem mapRowsFresh_forall₂ {f : Value → Value} {P : Value → Pair → Prop} :
    ∀ {xs : List Value} {chunk : List Pair} {ys : List Value}, Rows P xs chunk →
      mapRowsFresh f chunk.length xs = .ok ys →
      Rows (fun y kv => ∃ x, P x kv ∧ y = f x) ys chunk
  | [], [], ys, _, h => by simp [mapRowsFresh] at h; subst h; exact .nil
  | x :: xs, kv :: chunk, ys, .cons hp hrest, h => by
    simp only [List.length_cons, mapRowsFresh] at h
    cases hm : mapRowsFresh f chunk.length xs with
    | error e => simp [hm] at h; cases h
    | ok ys' =>
      simp [hm] at h
      have : ys = f x :: ys' := by cases h; rfl
      subst this
      exact .cons ⟨x, hp, rfl⟩ (mapRowsFresh_forall₂ hrest hm)

theorem zipRows_forall₂ {f : Value → Value → Except Err Value} {Pa Pb : Value → Pair → Prop}
    {as bs : List Value} {chunk : List Pair} {ys : List Value}
    (ha : Rows Pa as chunk) (hb : Rows Pb bs chunk) (h : zipRows f chunk.length as bs = .ok ys) :
    Rows (fun y kv => ∃ a b, Pa a kv ∧ Pb b kv ∧ f a b = .ok y) ys chunk := by
  induction ha generalizing bs ys with
  | nil => cases hb; simp [zipRows] at h; subst h; exact .nil
  | @cons a kv as chunk hp hr ih =>
    cases hb with
    | @cons b _ bs _ hq hrb =>
      simp only [List.length_cons, zipRows] at h
      cases hf : f a b with
      | error e => simp [hf] at h; cases h
      | ok y =>
        cases hm : zipRows f chunk.length as bs with
        | error e => simp [hf, hm] at h; cases h
        | ok ys' =>
          simp [hf, hm] at h
          have : ys = y :: ys' := by cases h; rfl
          subst this
          exact .cons ⟨a, b, hp, hq, hf⟩ (ih hrb hm)

theorem zip3Rows_forall₂ {f : Value → Value → Value → Except Err Value} {Pa Pb Pc : Value → Pair → Prop}
    {as bs cs : List Value} {chunk : List Pair} {ys : List Value}
    (ha : Rows Pa as chunk) (hb : Rows Pb bs chunk) (hc : Rows Pc cs chunk)
    (h : zip3Rows f chunk.length as bs cs = .ok ys) :
    Rows (fun y kv => ∃ a b c, Pa a kv ∧ Pb b kv ∧ Pc c kv ∧ f a b c = .ok y) ys chunk := by
  induction ha generalizing bs cs ys with
  | nil => cases hb; cases hc; simp [zip3Rows] at h; subst h; exact .nil
  | @cons a kv as chunk hp hr ih =>
    cases hb with
    | @cons b _ bs _ hq hrb =>
      cases hc with
      | @cons c _ cs _ hs hrc =>
        simp only [List.length_cons, zip3Rows] at h
        cases hf : f a b c with
        | error e => simp [hf] at h; cases h
        | ok y =>
          cases hm : zip3Rows f chunk.length as bs cs with
          | error e => simp [hf, hm] at h; cases h
          | ok ys' =>
            simp [hf, hm] at h
            have : ys = y :: ys' := by cases h; rfl
            subst this
            exact .cons ⟨a, b, c, hp, hq, hs, hf⟩ (ih hrb hrc hm)

theorem zipRowsLazy_forall₂ {f : Value → Option Value → Except Err Value} {Pa Pb : Value → Pair → Prop}
    {as bs : List Value} {chunk : List Pair} {ys : List Value}
    (ha : Rows Pa as chunk) (hb : Rows Pb bs chunk) (h : zipRowsLazy f chunk.length as bs = .ok ys) :
    Rows (fun y kv => ∃ a b, Pa a kv ∧ Pb b kv ∧ f a (some b) = .ok y) ys chunk := by
  induction ha generalizing bs ys with
  | nil => cases hb; simp [zipRowsLazy] at h; subst h; exact .nil
  | @cons a kv as chunk hp hr ih =>
    cases hb with
    | @cons b _ bs _ hq hrb =>
      simp only [List.length_cons, zipRowsLazy, List.head?_cons, List.tail_cons] at h
      cases hf : f a (some b) with
      | error e => simp [hf] at h; cases h
      | ok y =>
        cases hm : zipRowsLazy f chunk.length as bs with
        | error e => simp [hf, hm] at h; cases h
        | ok ys' =>
          simp [hf, hm] at h
          have : ys = y :: ys' := by cases h; rfl
          subst this
          exact .cons ⟨a, b, hp, hq, hf⟩ (ih hrb hm)

theorem betweenRows_forall₂ {number : Bool} {Pa Pb Pc : Value → Pair → Prop}
    {as bs cs : List Value} {chunk : List Pair} {ys : List Value}
    (ha : Rows Pa as chunk) (hb : Rows Pb bs chunk) (hc : Rows Pc cs chunk)
    (h : betweenRows number chunk.length as bs cs = .ok ys) :
    Rows (fun y kv => ∃ a b c, Pa a kv ∧ Pb b kv ∧ Pc c kv ∧ betweenRow number (some a) b c = .ok y) ys chunk := by
  induction ha generalizing bs cs ys with
  | nil => cases hb; cases hc; simp [betweenRows] at h; subst h; exact .nil
  | @cons a kv as chunk hp hr ih =>
    cases hb with
    | @cons b _ bs _ hq hrb =>
      cases hc with
      | @cons c _ cs _ hs hrc =>
        simp only [List.length_cons, betweenRows, List.head?_cons, List.tail_cons] at h
        cases hf : betweenRow number (some a) b c with
        | error e => simp [hf] at h; cases h
        | ok y =>
          cases hm : betweenRows number chunk.length as bs cs with
          | error e => simp [hf, hm] at h; cases h
          | ok ys' =>
            simp [hf, hm] at h
            have : ys = y :: ys' := by cases h; rfl
            subst this
            exact .cons ⟨a, b, c, hp, hq, hs, hf⟩ (ih hrb hrc hm)

theorem inCallRows_forall₂ {number : Bool} {Pa Pb : Value → Pair → Prop}
    {as bs : List Value} {chunk : List Pair} {ys : List Value}
    (ha : Rows Pa as chunk) (hb : Rows Pb bs chunk) (h : inCallRows number chunk.length as bs = .ok ys) :
    Rows (fun y kv => ∃ a b vals c, Pa a kv ∧ Pb b kv ∧ unpackArray b = some vals ∧
      inValues number a vals = .ok c ∧ y = .bool c) ys chunk := by
  induction ha generalizing bs ys with
  | nil => cases hb; simp [inCallRows] at h; subst h; exact .nil
  | @cons a kv as chunk hp hr ih =>
    cases hb with
    | @cons b _ bs _ hq hrb =>
      simp only [List.length_cons, inCallRows] at h
      cases hu : unpackArray b with
      | none => simp [hu] at h
      | some vals =>
        simp only [hu] at h
        cases hf : inValues number a vals with
        | error e => simp [hf] at h; cases h
        | ok cc =>
          cases hm : inCallRows number chunk.length as bs with
          | error e => simp [hf, hm] at h; cases h
          | ok ys' =>
            simp [hf, hm] at h
            have : ys = .bool cc :: ys' := by cases h; rfl
            subst this
            exact .cons ⟨a, b, vals, cc, hp, hq, hu, hf, rfl⟩ (ih hrb hm)

/-- the row loop swallows comparison errors, the batch loop reports them: where batch succeeds they agree -/
theorem inValues_ok {number : Bool} {left : Value} {vals : List Value} {c : Bool}
    (h : inValues number left vals = .ok c) : inAnyList number left vals = c := by
  unfold inValues at h; cases h; rfl

theorem inAnyList_rel {number : Bool} {x x' : Value} (h : Rel x x') (vals : List Value) :
    inAnyList number x vals = inAnyList number x' vals := by
  induction vals with
  | nil => rfl
  | cons v vs ih => unfold inAnyList; rw [h.compareBy_congr (Rel.refl v), ih]

/-- the batch `between` loop and the row `between` kernel -/
theorem betweenRow_ok {number : Bool} {left lo hi y : Value} (h : betweenRow number (some left) lo hi = .ok y) :
    betweenKernel number left lo hi = .ok y := h

/-- row results of a `forPairs` loop over an inert body -/
theorem forPairs_forall₂ {f : Pair → M Value} (hf : ∀ kv, Inert (f kv)) {c : Ctx} (hc : c.enable = false) :
    ∀ {chunk : List Pair} {vs : List Value} {c' : Ctx}, forPairs f chunk c = (.ok vs, c') →
      c' = c ∧ Rows (fun v kv => f kv c = (.ok v, c)) vs chunk
  | [], vs, c', h => by
    simp [forPairs] at h; obtain ⟨rfl, rfl⟩ := h; exact ⟨rfl, .nil⟩
  | kv :: chunk, vs, c', h => by
    rw [forPairs] at h
    obtain ⟨v, c0, hv, h⟩ := bind_ok_inv h
    have e0 : c0 = c := (hf kv).ctx_eq hc hv
    rw [e0] at hv h
    obtain ⟨vs', c1, hvs, h⟩ := bind_ok_inv h
    obtain ⟨e1, ih⟩ := forPairs_forall₂ hf hc hvs
    rw [e1] at h
    simp at h
    obtain ⟨rfl, rfl⟩ := h
    exact ⟨rfl, .cons hv ih⟩

end Kvql
