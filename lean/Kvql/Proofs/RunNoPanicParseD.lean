/-
  RunNoPanic, part 3d: the field list of an accepted `select * …` (or of a bare `where …`) only holds
  `key` / `value` trees (`parse_select_star`).  No token hypothesis.
-/
import Kvql.Proofs.RunNoPanicParse

namespace Kvql.Proofs.RunNoPanic

open Kvql Kvql.Parser Kvql.Proofs.Typing Kvql.Generated

variable {pf : Bytes → F64}

/-- every entry of the table is a bare `key` / `value` -/
def AllF (tbl : Tbl) : Prop :=
  ∀ (j : Nat) (nm : Bytes) (f : Expr), tbl[j]? = some (nm, f) → ∃ q k, f = .field q k

theorem AllF.setField {tbl : Tbl} (h : AllF tbl) (i : Nat) (q : Nat) (k : KW) :
    AllF (tbl.setField i (.field q k)) := by
  intro j nm f hj
  rcases setField_get_cases tbl i j _ nm f hj with ⟨_, h2⟩ | ⟨_, rfl⟩
  · exact h j nm f h2
  · exact ⟨q, k, rfl⟩

/-- `RewriteFieldNames` only touches entries that are bare names -/
theorem rewriteFieldNames_allF : ∀ (n i : Nat) (tbl : Tbl) (tys : List Nat) (r : Tbl × List Nat),
    rewriteFieldNames n i tbl tys = .ok r → AllF tbl → r.1 = tbl
  | 0, i, tbl, tys, r, h, _ => by
    simp only [rewriteFieldNames] at h; cases h; rfl
  | n + 1, i, tbl, tys, r, h, hh => by
    unfold rewriteFieldNames at h
    split at h
    · cases h; rfl
    · rename_i nm0 f hget
      obtain ⟨q, k, rfl⟩ := hh i nm0 f hget
      exact rewriteFieldNames_allF n (i + 1) tbl tys r h hh

theorem groupCheck_allF : ∀ (gs : List (Bytes × GTarget)) (tbl : Tbl) (r : Tbl × List (Bytes × GTarget)),
    groupCheck tbl gs = .ok r → AllF tbl → AllF r.1
  | [], tbl, r, h, hh => by
    simp only [groupCheck] at h; cases h; exact hh
  | (n, .sel i) :: rest, tbl, r, h, hh => by
    simp only [groupCheck] at h
    split at h
    · cases h
    · rename_i nm0 e hget
      obtain ⟨e', hck, h2⟩ := bind_ok_iff.mp h
      obtain ⟨⟨tbl', rest'⟩, h3, h4⟩ := bind_ok_iff.mp h2
      cases h4
      obtain ⟨q, k, rfl⟩ := hh i nm0 e hget
      have := check_field hck
      subst this
      exact groupCheck_allF rest _ (tbl', rest') h3 (hh.setField i q k)
  | (n, .own e) :: rest, tbl, r, h, hh => by
    simp only [groupCheck] at h
    obtain ⟨e', _, h2⟩ := bind_ok_iff.mp h
    obtain ⟨⟨tbl', rest'⟩, h3, h4⟩ := bind_ok_iff.mp h2
    cases h4
    exact groupCheck_allF rest tbl (tbl', rest') h3 hh

theorem clauseLoop_allF {ef lf : Nat} : ∀ (fuel : Nat) (c c' : Clauses) (ts : Toks),
    clauseLoop pf ef lf fuel c ts = .ok c' → AllF c.tbl → AllF c'.tbl
  | 0, c, c', ts, h, _ => by simp [clauseLoop] at h
  | fuel + 1, c, c', ts, h, hh => by
    unfold clauseLoop at h
    split at h
    · cases h; exact hh
    · split at h
      · split at h
        · cases h
        · obtain ⟨⟨o, ts'⟩, _, h2⟩ := bind_ok_iff.mp h
          dsimp only at h2
          split at h2
          · cases h2
          · exact clauseLoop_allF fuel _ c' ts' h2 hh
      · split at h
        · split at h
          · cases h
          · obtain ⟨⟨⟨gpos, gfields, tbl'⟩, ts'⟩, hg, h2⟩ := bind_ok_iff.mp h
            dsimp only at h2
            split at h2
            · cases h2
            · refine clauseLoop_allF fuel _ c' ts' h2 ?_
              dsimp only
              unfold parseGroupBy at hg
              split at hg
              · cases hg
              · obtain ⟨ts1, _, hg2⟩ := bind_ok_iff.mp hg
                obtain ⟨ts2, _, hg3⟩ := bind_ok_iff.mp hg2
                obtain ⟨⟨fields, ts3⟩, _, hg4⟩ := bind_ok_iff.mp hg3
                dsimp only at hg4
                obtain ⟨⟨tbl2, fields2⟩, hgc, hg5⟩ := bind_ok_iff.mp hg4
                cases hg5
                exact groupCheck_allF fields c.tbl _ hgc hh
        · split at h
          · split at h
            · cases h
            · obtain ⟨⟨l, ts'⟩, _, h2⟩ := bind_ok_iff.mp h
              dsimp only at h2
              split at h2
              · cases h2
              · exact clauseLoop_allF fuel _ c' [] h2 hh
          · cases h

theorem validateFields_allF : ∀ (n i : Nat) (tbl tbl' : Tbl), validateFields n i tbl = .ok tbl' →
    AllF tbl → AllF tbl'
  | 0, i, tbl, tbl', h, hh => by
    simp only [validateFields] at h; cases h; exact hh
  | n + 1, i, tbl, tbl', h, hh => by
    unfold validateFields at h
    split at h
    · cases h; exact hh
    · rename_i nm0 f hget
      obtain ⟨f', hck, h⟩ := bind_ok_iff.mp h
      obtain ⟨u, _, h⟩ := bind_ok_iff.mp h
      obtain ⟨q, k, rfl⟩ := hh i nm0 f hget
      have := check_field hck
      subst this
      exact validateFields_allF n (i + 1) _ tbl' h (hh.setField i q k)

/-- `AllFields` of the accepted statement is the flag of the select list -/
theorem parseWhere_allFields {ef lf spos : Nat} {sel : SelAcc} {wpos : Nat} {ts : Toks} {s : SelectS}
    (h : parseWhere pf ef lf spos sel wpos ts = .ok (.select s)) : s.allFields = sel.all := by
  unfold parseWhere at h
  split at h
  · cases h
  · obtain ⟨⟨expr, rest⟩, _, h⟩ := bind_ok_iff.mp h
    dsimp only at h
    obtain ⟨⟨tbl, types⟩, _, h⟩ := bind_ok_iff.mp h
    dsimp only at h
    obtain ⟨c, _, h⟩ := bind_ok_iff.mp h
    obtain ⟨tbl1, _, h⟩ := bind_ok_iff.mp h
    obtain ⟨tbl', _, h⟩ := bind_ok_iff.mp h
    obtain ⟨types', _, h⟩ := bind_ok_iff.mp h
    obtain ⟨expr', _, h⟩ := bind_ok_iff.mp h
    obtain ⟨wt, _, h⟩ := bind_ok_iff.mp h
    split at h
    · cases h
    · cases h; rfl

/-- the select list with `all`: `key`, `value` (the `*`), or nothing (a bare `where`) -/
theorem parseSelect_star {ef lf : Nat} {ts rest : Toks} {spos : Nat} {sel : SelAcc}
    (h : parseSelect pf ef lf ts = .ok ((spos, sel), rest)) (hall : sel.all = true) :
    ∀ f ∈ sel.fields, ∃ q k, f = .field q k := by
  unfold parseSelect at h
  split at h
  · cases h
  · obtain ⟨ts1, _, h⟩ := bind_ok_iff.mp h
    obtain ⟨⟨acc, ts2⟩, _, h⟩ := bind_ok_iff.mp h
    dsimp only at h
    split at h
    · cases h
    · split at h
      · cases h
        intro f hf
        simp at hf
        rcases hf with rfl | rfl <;> exact ⟨_, _, rfl⟩
      · rename_i hn
        cases h
        exact absurd hall hn

theorem parse_select_inv_star {toks : Toks} {s : SelectS} (h : Parse pf toks = .ok (.select s)) :
    ∃ ef lf spos sel wpos ts, parseWhere pf ef lf spos sel wpos ts = .ok (.select s) ∧
      (sel.all = true → ∀ f ∈ sel.fields, ∃ q k, f = .field q k) := by
  unfold Parse at h
  dsimp only at h
  split at h
  · cases h
  · split at h
    · obtain ⟨_, _, _, _, _, _, he⟩ := parsePut_inv h; cases he
    · split at h
      · obtain ⟨_, _, _, _, _, _, he⟩ := parseRemove_inv h; cases he
      · split at h
        · obtain ⟨_, _, _, _, _, _, _, _, _, _, he⟩ := parseDelete_inv h; cases he
        · split at h
          · obtain ⟨⟨⟨spos, sel⟩, ts⟩, hps, h⟩ := bind_ok_iff.mp h
            dsimp only at h
            split at h
            · cases h
            · exact ⟨_, _, _, _, _, _, h, parseSelect_star hps⟩
          · split at h
            · exact ⟨_, _, _, _, _, _, h, by simp⟩
            · cases h

/-- THE FIELD LIST OF `select *`: only `key` / `value` trees -/
theorem parse_select_star {pf : Bytes → F64} {toks : Toks} {s : SelectS} (h : Parse pf toks = .ok (.select s))
    (hall : s.allFields = true) : ∀ f ∈ s.fields, ∃ q k, f = .field q k := by
  obtain ⟨ef, lf, spos, sel, wpos, ts, h1, hstar⟩ := parse_select_inv_star h
  rw [parseWhere_allFields h1] at hall
  obtain ⟨expr, rest, tbl, types, c, tbl1, tbl', expr', s', hpe, hrw, hcl, hv1, hv2, hck, hrt, he, hwh, hfl⟩ :=
    parseWhere_inv h1
  cases he
  have h0 : AllF (sel.names.zip sel.fields) := fun j nm f hj => hstar hall f (zip_mem_snd hj)
  have ht : tbl = sel.names.zip sel.fields := rewriteFieldNames_allF _ _ _ _ _ hrw h0
  subst ht
  have hc : AllF c.tbl := clauseLoop_allF _ _ _ _ hcl h0
  have h1' : AllF tbl1 := validateFields_allF _ _ _ _ hv1 hc
  have h2' : AllF tbl' := validateFields_allF _ _ _ _ hv2 h1'
  intro f hf
  rw [hfl] at hf
  obtain ⟨⟨nm, e⟩, hp, rfl⟩ := List.mem_map.mp hf
  obtain ⟨j, hj⟩ := List.getElem?_of_mem hp
  obtain ⟨q, k, rfl⟩ := h2' j nm e hj
  exact ⟨q, k, resolveTop_field tbl' q k⟩

/-! ### an accepted GROUP BY has at least one field -/

theorem clauseLoop_groupNonempty {ef lf : Nat} : ∀ (fuel : Nat) (c c' : Clauses) (ts : Toks),
    clauseLoop pf ef lf fuel c ts = .ok c' → (∀ g, c.group = some g → g.2 ≠ []) →
    ∀ g, c'.group = some g → g.2 ≠ []
  | 0, c, c', ts, h, _ => by simp [clauseLoop] at h
  | fuel + 1, c, c', ts, h, hh => by
    unfold clauseLoop at h
    split at h
    · cases h; exact hh
    · split at h
      · split at h
        · cases h
        · obtain ⟨⟨o, ts'⟩, _, h2⟩ := bind_ok_iff.mp h
          dsimp only at h2
          split at h2
          · cases h2
          · exact clauseLoop_groupNonempty fuel _ c' ts' h2 hh
      · split at h
        · split at h
          · cases h
          · obtain ⟨⟨⟨gpos, gfields, tbl'⟩, ts'⟩, _, h2⟩ := bind_ok_iff.mp h
            dsimp only at h2
            split at h2
            · cases h2
            · rename_i hne
              refine clauseLoop_groupNonempty fuel _ c' ts' h2 ?_
              intro g hg
              cases hg
              intro he
              dsimp only at he
              rw [he] at hne
              exact hne rfl
        · split at h
          · split at h
            · cases h
            · obtain ⟨⟨l, ts'⟩, _, h2⟩ := bind_ok_iff.mp h
              dsimp only at h2
              split at h2
              · cases h2
              · exact clauseLoop_groupNonempty fuel _ c' [] h2 hh
          · cases h

/-- `GroupBy` of the accepted statement is the final form of the group the clause loop stored -/
theorem parseWhere_groupBy {ef lf spos : Nat} {sel : SelAcc} {wpos : Nat} {ts : Toks} {s : SelectS}
    (h : parseWhere pf ef lf spos sel wpos ts = .ok (.select s)) :
    ∃ (tbl tbl' : Tbl) (rest : Toks) (c : Clauses), clauseLoop pf ef lf lf { tbl := tbl } rest = .ok c ∧
      s.groupBy = c.group.map (finalGroup tbl') := by
  unfold parseWhere at h
  split at h
  · cases h
  · obtain ⟨⟨expr, rest⟩, _, h⟩ := bind_ok_iff.mp h
    dsimp only at h
    obtain ⟨⟨tbl, types⟩, _, h⟩ := bind_ok_iff.mp h
    dsimp only at h
    obtain ⟨c, hc, h⟩ := bind_ok_iff.mp h
    obtain ⟨tbl1, _, h⟩ := bind_ok_iff.mp h
    obtain ⟨tbl', _, h⟩ := bind_ok_iff.mp h
    obtain ⟨types', _, h⟩ := bind_ok_iff.mp h
    obtain ⟨expr', _, h⟩ := bind_ok_iff.mp h
    obtain ⟨wt, _, h⟩ := bind_ok_iff.mp h
    split at h
    · cases h
    · cases h; exact ⟨tbl, tbl', rest, c, hc, rfl⟩

/-- AN ACCEPTED GROUP BY IS NOT EMPTY -/
theorem parse_select_group_nonempty {pf : Bytes → F64} {toks : Toks} {s : SelectS}
    (h : Parse pf toks = .ok (.select s)) {g : GroupS} (hg : s.groupBy = some g) : g.fields ≠ [] := by
  obtain ⟨ef, lf, spos, sel, wpos, ts, h1, _⟩ := parse_select_inv h
  obtain ⟨tbl, tbl', rest, c, hc, hgb⟩ := parseWhere_groupBy h1
  rw [hgb] at hg
  cases hcg : c.group with
  | none => rw [hcg] at hg; cases hg
  | some g0 =>
    rw [hcg] at hg
    simp only [Option.map_some, Option.some.injEq] at hg
    subst hg
    have hne := clauseLoop_groupNonempty (pf := pf) lf { tbl := tbl } c rest hc (by intro g hg; cases hg) g0 hcg
    simp only [finalGroup, ne_eq, List.map_eq_nil_iff]
    exact hne

end Kvql.Proofs.RunNoPanic
