/-
  RunNoPanic, part 3c (helper file of RunNoPanicParse): `parseWhere`, PUT / REMOVE / DELETE and `Parse`
  under `NC`; what the accepted statement is made of (`StmtGood`).
-/
import Kvql.Proofs.RunNoPanicParseB

namespace Kvql.Proofs.RunNoPanic

open Kvql Kvql.Parser Kvql.Proofs.Typing Kvql.Generated

variable {pf : Bytes → F64}

/-! ### the references of a tree only depend on the names of the table -/

theorem find_go_idx_names (nm : Bytes) : ∀ (tbl tbl2 : Tbl) (k : Nat), tbl.map (·.1) = tbl2.map (·.1) →
    (Tbl.find.go nm tbl k).map (·.1) = (Tbl.find.go nm tbl2 k).map (·.1)
  | [], [], k, _ => rfl
  | [], _ :: _, k, h => by simp at h
  | _ :: _, [], k, h => by simp at h
  | (n, x) :: rest, (n2, x2) :: rest2, k, h => by
    simp only [List.map_cons, List.cons.injEq] at h
    obtain ⟨h1, h2⟩ := h
    subst h1
    unfold Tbl.find.go
    split
    · rfl
    · exact find_go_idx_names nm rest rest2 (k + 1) h2

theorem find_idx_names {tbl tbl2 : Tbl} (h : tbl.map (·.1) = tbl2.map (·.1)) (nm : Bytes) :
    (tbl.find nm).map (·.1) = (tbl2.find nm).map (·.1) := find_go_idx_names nm tbl tbl2 0 h

mutual
  theorem refIdx_names {tbl tbl2 : Tbl} (h : tbl.map (·.1) = tbl2.map (·.1)) :
      ∀ e : Expr, e.refIdx tbl = e.refIdx tbl2
    | .binop _ _ l r => by simp [Expr.refIdx, refIdx_names h l, refIdx_names h r]
    | .not _ r => by simp [Expr.refIdx, refIdx_names h r]
    | .call _ n args => by simp [Expr.refIdx, refIdx_names h n, refIdxList_names h args]
    | .list _ items => by simp [Expr.refIdx, refIdxList_names h items]
    | .access _ l f => by simp [Expr.refIdx, refIdx_names h l, refIdx_names h f]
    | .ref _ nm _ => by
      have := find_idx_names h nm
      simp only [Expr.refIdx]
      cases h1 : tbl.find nm <;> cases h2 : tbl2.find nm <;> simp_all
    | .cycle | .field .. | .str .. | .name .. | .num .. | .float .. | .bool .. => by simp [Expr.refIdx]
  theorem refIdxList_names {tbl tbl2 : Tbl} (h : tbl.map (·.1) = tbl2.map (·.1)) :
      ∀ es : List Expr, Expr.refIdx.refIdxList tbl es = Expr.refIdx.refIdxList tbl2 es
    | [] => by simp [Expr.refIdx.refIdxList]
    | e :: es => by simp [Expr.refIdx.refIdxList, refIdx_names h e, refIdxList_names h es]
end

/-! ### the resolved trees of a good table -/

theorem TGood.resolve_clean {tbl : Tbl} (hg : TGood tbl) {e : Expr} (he : Clean e) : Clean (resolveTop tbl e) :=
  ⟨resolveTop_noCyc hg.acyclic (fun j nm f h => (hg.clean j nm f h).1) he.1,
   resolveTop_numsOK (fun j nm f h => (hg.clean j nm f h).2) he.2⟩

/-- the table of the resolved fields has the alias graph of the table -/
theorem TGood.resolved_acyclic {tbl : Tbl} (hg : TGood tbl) :
    Acyclic (tbl.map (fun p => (p.1, resolveTop tbl p.2))) := by
  have hnames : (tbl.map (fun p => (p.1, resolveTop tbl p.2))).map (·.1) = tbl.map (·.1) := by
    simp [List.map_map]
  refine Acyclic.mono hg.acyclic hnames ?_
  intro i nm e' hi
  rw [List.getElem?_map] at hi
  cases hget : tbl[i]? with
  | none => rw [hget] at hi; cases hi
  | some p =>
    obtain ⟨nm0, e⟩ := p
    rw [hget] at hi
    simp only [Option.map_some, Option.some.injEq, Prod.mk.injEq] at hi
    obtain ⟨rfl, rfl⟩ := hi
    refine ⟨e, rfl, ?_⟩
    intro j hj
    rw [refIdx_resolveTop tbl _ e (hg.resolve_clean (hg.clean i nm0 e hget)).1, refIdx_names hnames] at hj
    exact hj

theorem resolveTop_field (tbl : Tbl) (q : Nat) (k : KW) : resolveTop tbl (.field q k) = .field q k := by
  simp [resolveTop, resolve, mapRefs]

/-! ### the accepted statement -/

/-- what an accepted SELECT is made of (the conclusion of `parse_select_good`) -/
def SelGood (s : SelectS) : Prop :=
  Acyclic (s.fieldNames.zip s.fields) ∧
  Clean s.where_ ∧ (∀ f ∈ s.fields, Clean f) ∧
  s.fieldNames.length = s.fields.length ∧
  (s.allFields = false → s.fieldTypes.length = s.fieldNames.length) ∧
  (s.allFields = true → s.fieldNames.length ≤ 2) ∧
  (∀ o, s.order = some o → ∀ p ∈ o.orders, p.1 ∈ s.fieldNames) ∧
  (∀ g, s.groupBy = some g → ∀ p ∈ g.fields, (∃ q k, p.2 = .field q k) ∨ p.1 ∈ s.fieldNames)

def StmtGood : Stmt → Prop
  | .select s => SelGood s
  | .put _ pairs => ∀ kv ∈ pairs, numsOK kv.1 = true ∧ numsOK kv.2 = true
  | .remove _ keys => ∀ k ∈ keys, numsOK k = true
  | .delete _ _ w _ => numsOK w = true

theorem zip_names {sel : SelAcc} (h : sel.names.length = sel.fields.length) :
    (sel.names.zip sel.fields).map (·.1) = sel.names := by
  have := List.map_fst_zip (l₁ := sel.names) (l₂ := sel.fields) (by omega)
  exact this

theorem selGood_final {sel : SelAcc} (hsel : SelOK' sel) {tbl' : Tbl} (hg : TGood tbl')
    (hnm : tbl'.map (·.1) = sel.names) {expr' : Expr} (he : EGood tbl' expr') {types : List Nat}
    (hty : types.length = sel.types.length) {c : Clauses} (hc : COK sel.names c)
    (spos wpos : Nat) :
    SelGood { pos := spos, allFields := sel.all, fields := tbl'.map (fun p => resolveTop tbl' p.2),
              fieldNames := sel.names, fieldTypes := types,
              wherePos := wpos, where_ := resolveTop tbl' expr',
              order := c.order, groupBy := c.group.map (finalGroup tbl'), limit := c.limit } := by
  have hz := zip_names hsel.len1
  have hzip : sel.names.zip (tbl'.map (fun p => resolveTop tbl' p.2)) =
      tbl'.map (fun p => (p.1, resolveTop tbl' p.2)) :=
    zip_names_map (resolveTop tbl') sel.names sel.fields tbl' (by rw [hnm, hz])
  have hlen : tbl'.length = sel.names.length := by
    rw [← hnm, List.length_map]
  refine ⟨?_, hg.resolve_clean he.2, ?_, ?_, ?_, hsel.len3, hc.order, ?_⟩
  · show Acyclic (sel.names.zip (tbl'.map (fun p => resolveTop tbl' p.2)))
    rw [hzip]; exact hg.resolved_acyclic
  · intro f hf
    obtain ⟨⟨nm, e⟩, hp, rfl⟩ := List.mem_map.mp hf
    obtain ⟨j, hj⟩ := List.getElem?_of_mem hp
    exact hg.resolve_clean (hg.clean j nm e hj)
  · show sel.names.length = (tbl'.map (fun p => resolveTop tbl' p.2)).length
    rw [List.length_map, hlen]
  · intro hall
    show types.length = sel.names.length
    rw [hty]; exact hsel.len2 hall
  · intro g hgq p hp
    show _ ∨ p.1 ∈ sel.names
    dsimp only at hgq
    cases hcg : c.group with
    | none => rw [hcg] at hgq; cases hgq
    | some g0 =>
      rw [hcg] at hgq
      simp only [Option.map_some, Option.some.injEq] at hgq
      subst hgq
      have hall := hc.group g0 hcg
      simp only [finalGroup] at hp
      obtain ⟨⟨n, tgt⟩, hp0, rfl⟩ := List.mem_map.mp hp
      have h0 := hall (n, tgt) hp0
      cases tgt with
      | sel i =>
        right
        have : n ∈ sel.names := h0
        dsimp only
        split <;> exact this
      | own e =>
        left
        obtain ⟨q, k, rfl⟩ := h0
        exact ⟨q, k, resolveTop_field tbl' q k⟩

theorem parseWhere_nc (ef lf spos : Nat) {sel : SelAcc} (hsel : SelOK' sel) (wpos : Nat) {ts : Toks}
    (hts : NumToksOK ts) : NC (parseWhere pf ef lf spos sel wpos ts) StmtGood := by
  unfold parseWhere
  split
  · simp [eofErr]
  · apply Res.Holds.bind (parseExpr_nc pf hts)
    rintro ⟨e, ts1⟩ ⟨hafn, h1⟩
    dsimp only at hafn h1 ⊢
    have hz := zip_names hsel.len1
    have hg0 : TGood (sel.names.zip sel.fields) :=
      tgood_of_afn (fun j nm f hj => hsel.afn f (zip_mem_snd hj))
    apply Res.Holds.bind (rewriteFieldNames_nc _ 0 _ sel.types hg0)
    rintro ⟨tbl1, tys1⟩ ⟨hg1, hn1, hl1⟩
    dsimp only at hg1 hn1 hl1 ⊢
    rw [hz] at hn1
    apply Res.Holds.bind (clauseLoop_nc (pf := pf) ef lf (names := sel.names) lf { tbl := tbl1 } ts1 h1
      ⟨hg1, hn1, (by intro o ho; cases ho), (by intro g hg; cases hg)⟩)
    intro c hc
    apply Res.Holds.bind (validateFields_nc _ 0 _ hc.good)
    rintro tbl2 ⟨hg2, hn2⟩
    apply Res.Holds.bind (validateFields_nc _ 0 _ hg2)
    rintro tbl' ⟨hg', hn'⟩
    apply Res.Holds.bind (refreshTypes_nc hg' tys1 0)
    intro types hty
    apply Res.Holds.bind (check_nc { tbl := tbl' } hg' (hafn.egood tbl'))
    intro expr' he'
    apply Res.Holds.bind (rt_nc { tbl := tbl' } hg' he')
    intro wt _
    split
    · simp [synErr]
    · simp only [Res.holds_pure]
      exact selGood_final hsel hg' (by rw [hn', hn2, hc.nms]) he' (by rw [hty, hl1]) hc spos wpos

/-! ### PUT, REMOVE, DELETE: the empty table -/

theorem parsePutKVPair_nc (ef : Nat) {ts : Toks} (hts : NumToksOK ts) :
    NC (parsePutKVPair pf ef ts) (fun p => (AFN p.1.1 ∧ AFN p.1.2) ∧ NumToksOK p.2) := by
  unfold parsePutKVPair
  apply Res.Holds.bind (expect_nc _ hts)
  intro ts1 h1
  apply Res.Holds.bind (parseExpr_nc pf h1)
  rintro ⟨k, ts2⟩ ⟨hk, h2⟩
  dsimp only at hk h2 ⊢
  split
  · simp [eofErr]
  · split
    · apply Res.Holds.bind (parseExpr_nc pf (numToksOK_tail h2))
      rintro ⟨v, ts3⟩ ⟨hv, h3⟩
      apply Res.Holds.bind (expect_nc _ h3)
      intro ts4 h4
      exact ⟨⟨hk, hv⟩, h4⟩
    · simp [synErr]

theorem putLoop_nc (ef : Nat) : ∀ (fuel : Nat) (acc : List (Expr × Expr)) (ts : Toks), NumToksOK ts →
    (∀ kv ∈ acc, AFN kv.1 ∧ AFN kv.2) →
    NC (putLoop pf ef fuel acc ts) (fun r => ∀ kv ∈ r, AFN kv.1 ∧ AFN kv.2) := by
  intro fuel
  induction fuel with
  | zero => intros; simp [putLoop]
  | succ n ih =>
    intro acc ts hts hacc
    unfold putLoop
    split
    · exact hacc
    · apply Res.Holds.bind (parsePutKVPair_nc (pf := pf) ef hts)
      rintro ⟨kv, ts1⟩ ⟨hkv, h1⟩
      dsimp only at hkv h1 ⊢
      have hacc' : ∀ x ∈ acc ++ [kv], AFN x.1 ∧ AFN x.2 := by
        intro x hx
        rcases List.mem_append.mp hx with hx | hx
        · exact hacc x hx
        · simp at hx; subst hx; exact hkv
      split
      · exact hacc'
      · apply Res.Holds.bind (expect_nc _ h1)
        intro ts2 h2
        exact ih _ ts2 h2 hacc'

theorem validatePut_nc (ctx : CheckCtx) (hg : TGood ctx.tbl) : ∀ ps : List (Expr × Expr),
    (∀ kv ∈ ps, EGood ctx.tbl kv.1 ∧ EGood ctx.tbl kv.2) →
    NC (validatePut ctx ps) (fun r => ∀ kv ∈ r, EGood ctx.tbl kv.1 ∧ EGood ctx.tbl kv.2) := by
  intro ps
  induction ps with
  | nil => intro _; simp [validatePut]
  | cons p rest ih =>
    intro hps
    obtain ⟨k, v⟩ := p
    have hkv := hps (k, v) (by simp)
    unfold validatePut
    apply Res.Holds.bind (check_nc ctx hg hkv.1)
    intro k' hk'
    apply Res.Holds.bind (rt_nc ctx hg hk')
    intro _ _
    split
    · simp [synErr]
    · apply Res.Holds.bind (check_nc ctx hg hkv.2)
      intro v' hv'
      apply Res.Holds.bind (rt_nc ctx hg hv')
      intro _ _
      split
      · simp [synErr]
      · apply Res.Holds.bind (ih (fun kv h => hps kv (by simp [h])))
        intro rest' hr
        simp only [Res.holds_pure]
        intro kv hkv'
        rcases List.mem_cons.mp hkv' with rfl | hkv'
        · exact ⟨hk', hv'⟩
        · exact hr kv hkv'

theorem parsePut_nc (ef lf : Nat) {ts : Toks} (hts : NumToksOK ts) : NC (parsePut pf ef lf ts) StmtGood := by
  unfold parsePut
  split
  · simpa using site_put
  · apply Res.Holds.bind (expect_nc _ hts)
    intro ts1 h1
    apply Res.Holds.bind (putLoop_nc (pf := pf) ef lf [] ts1 h1 (by simp))
    intro ps hps
    apply Res.Holds.bind (validatePut_nc { notAllowValue := true } tgood_nil ps
      (fun kv h => ⟨(hps kv h).1.egood _, (hps kv h).2.egood _⟩))
    intro ps' hps'
    simp only [Res.holds_pure, StmtGood]
    exact fun kv h => ⟨(hps' kv h).1.2.2, (hps' kv h).2.2.2⟩

theorem removeLoop_nc (ef : Nat) : ∀ (fuel : Nat) (acc : List Expr) (ts : Toks), NumToksOK ts →
    (∀ k ∈ acc, AFN k) → NC (removeLoop pf ef fuel acc ts) (fun r => ∀ k ∈ r, AFN k) := by
  intro fuel
  induction fuel with
  | zero => intros; simp [removeLoop]
  | succ n ih =>
    intro acc ts hts hacc
    unfold removeLoop
    split
    · exact hacc
    · apply Res.Holds.bind (parseExpr_nc pf hts)
      rintro ⟨k, ts1⟩ ⟨hk, h1⟩
      dsimp only at hk h1 ⊢
      have hacc' : ∀ x ∈ acc ++ [k], AFN x := by
        intro x hx
        rcases List.mem_append.mp hx with hx | hx
        · exact hacc x hx
        · simp at hx; subst hx; exact hk
      split
      · exact hacc'
      · apply Res.Holds.bind (expect_nc _ h1)
        intro ts2 h2
        exact ih _ ts2 h2 hacc'

theorem validateRemove_nc (ctx : CheckCtx) (hg : TGood ctx.tbl) : ∀ ks : List Expr,
    (∀ k ∈ ks, EGood ctx.tbl k) → NC (validateRemove ctx ks) (fun r => ∀ k ∈ r, EGood ctx.tbl k) := by
  intro ks
  induction ks with
  | nil => intro _; simp [validateRemove]
  | cons k rest ih =>
    intro hks
    have hk := hks k (by simp)
    unfold validateRemove
    apply Res.Holds.bind (rt_nc ctx hg hk)
    intro _ _
    split
    · simp [synErr]
    · apply Res.Holds.bind (check_nc ctx hg hk)
      intro k' hk'
      apply Res.Holds.bind (ih (fun x h => hks x (by simp [h])))
      intro rest' hr
      simp only [Res.holds_pure]
      intro x hx
      rcases List.mem_cons.mp hx with rfl | hx
      · exact hk'
      · exact hr x hx

theorem parseRemove_nc (ef lf : Nat) {ts : Toks} (hts : NumToksOK ts) : NC (parseRemove pf ef lf ts) StmtGood := by
  unfold parseRemove
  split
  · simpa using site_remove
  · apply Res.Holds.bind (expect_nc _ hts)
    intro ts1 h1
    apply Res.Holds.bind (removeLoop_nc (pf := pf) ef lf [] ts1 h1 (by simp))
    intro ks hks
    apply Res.Holds.bind (validateRemove_nc { notAllowKey := true, notAllowValue := true } tgood_nil ks
      (fun k h => (hks k h).egood _))
    intro ks' hks'
    simp only [Res.holds_pure, StmtGood]
    exact fun k h => (hks' k h).2.2

theorem parseDelete_nc (ef lf : Nat) {ts : Toks} (hts : NumToksOK ts) : NC (parseDelete pf ef lf ts) StmtGood := by
  unfold parseDelete
  split
  · simpa using site_delete
  · apply Res.Holds.bind (expect_nc _ hts)
    intro ts1 h1
    split
    · simp [eofErr]
    · apply Res.Holds.bind (expect_nc _ h1)
      intro ts2 h2
      apply Res.Holds.bind (parseExpr_nc pf h2)
      rintro ⟨w, ts3⟩ ⟨hw, _⟩
      dsimp only at hw ⊢
      apply Res.Holds.bind (R := fun _ => True)
      · split
        · simp
        · split
          · apply Res.Holds.bind (parseLimit_np lf _)
            intro _ _; simp
          · simp [synErr]
      · rintro ⟨lim, ts4⟩ _
        dsimp only
        split
        · simp [synErr]
        · apply Res.Holds.bind (check_nc {} tgood_nil (hw.egood _))
          intro w' hw'
          apply Res.Holds.bind (rt_nc {} tgood_nil hw')
          intro _ _
          split
          · simp [synErr]
          · simp only [Res.holds_pure, StmtGood]
            exact hw'.2.2

/-! ### `Parse` -/

theorem trimEndSemis_subset (toks : Toks) : ∀ t ∈ trimEndSemis toks, t ∈ toks := by
  intro t ht
  cases toks with
  | nil => simp [trimEndSemis] at ht
  | cons t0 rest =>
    simp only [trimEndSemis, List.mem_cons, List.mem_reverse] at ht ⊢
    rcases ht with h | h
    · exact .inl h
    · exact .inr (List.mem_reverse.mp ((List.dropWhile_sublist _).subset h))

/-- `Parse` over tokens without negative NUMBER: never the cyclic-alias panic, and the accepted
    statement is good -/
theorem parse_nc {toks : Toks} (hnum : NumToksOK toks) : NC (Parse pf toks) StmtGood := by
  have hts : NumToksOK (trimEndSemis toks) := numToksOK_of_subset hnum (trimEndSemis_subset toks)
  unfold Parse
  dsimp only
  generalize trimEndSemis toks = ts at hts
  split
  · simp [eofErr]
  · rename_i t rest
    split
    · exact parsePut_nc _ _ hts
    · split
      · exact parseRemove_nc _ _ hts
      · split
        · exact parseDelete_nc _ _ hts
        · split
          · apply Res.Holds.bind (parseSelect_nc (pf := pf) _ _ hts)
            rintro ⟨⟨spos, sel⟩, ts1⟩ ⟨hsel, h1⟩
            dsimp only at hsel h1 ⊢
            split
            · simp [eofErr]
            · exact parseWhere_nc _ _ _ hsel _ (numToksOK_tail h1)
          · split
            · refine parseWhere_nc _ _ _ ⟨by simp, rfl, ?_, ?_⟩ _ (numToksOK_tail hts)
              · intro h; cases h
              · intro _; simp
            · simp [synErr]

end Kvql.Proofs.RunNoPanic
