/-
  RunNoPanic, part 10b/B: batch mode with a field list, field cache ON — the EVALUATION side
  (`Project.drainBatchFuel` from a context whose cache is on) against the common specification `pollsOfE`
  with the chunk verdict `VOn w` (= the verdict from the FRESH context `Ctx.new true`, which is what the
  verdict table `batchVerdicts w (Ctx.new true)` of the storage side holds).

  * `chunk_step`: one inner chunk, evaluated in the threaded context, when no column is cached under its first
    key: the verdict is the fresh one; columns under other first keys stay; every name of the static set
    `T0 w = touch w ∅` gets a column of the chunk's length appended to `FieldChunkCaches`, no other entry moves;
  * `LInv`: the invariant of a scan's `Batch` between two inner chunks (columns only under first keys of
    processed chunks; every entry of `FieldChunkCaches` has `bidx` values and the entries are those of `T0 w`;
    `chooseIdxes` are the positions of a mask of length `bidx` with `len(ret)` hits);
  * after `AdjustChunkCache` every entry has `len(ret)` values, so `processProjectionBatch` never indexes a
    column out of range;
  * `drainBatchFuel_lock_on`: the lock step with `pollsOfE`.
-/
import Kvql.Proofs.RunNoPanicLockBatchOnA
import Kvql.Proofs.RunNoPanicScan

set_option linter.unusedSectionVars false
set_option linter.unusedSimpArgs false
set_option linter.unusedVariables false

namespace Kvql.Proofs.RunNoPanic.LockBatchOn

open Kvql Kvql.Run Kvql.Project Kvql.Cache Kvql.Proofs.RunNoPanic.LockBatch

/-! ### the verdict of a chunk -/

/-- the verdict of `FilterExec.FilterBatch` on an inner chunk from a FRESH context, field cache on -/
def VOn (w : Expr) : ChunkV := fun c => (Project.filterChunk w (c.map toKv) (Ctx.new true)).1

theorem VOn_len {w : Expr} (hw : w.wf = true) {c : List SPair} (hne : c ≠ []) {ms : List Bool}
    (h : VOn w c = .ok ms) : ms.length = c.length := by
  have := filterChunk_good hw (c.map toKv) (by simpa using hne) true
  unfold VOn at h
  rw [h] at this
  simpa using this

theorem pbenign_of_okErr {pe : Project.PErr} (h : okErr pe) : PBenign pe := isExec_of_okErr h

theorem VOn_benign {w : Expr} (hw : w.wf = true) {c : List SPair} (hne : c ≠ []) {e : Project.PErr}
    (h : VOn w c = .error e) : PBenign e := by
  have := filterChunk_good hw (c.map toKv) (by simpa using hne) true
  unfold VOn at h
  rw [h] at this
  exact pbenign_of_okErr this

/-- `FilterBatch` after `ExecuteBatch` -/
def verdictOf : Except Err (List Value) → Except Project.PErr (List Bool)
  | .error e => .error (.eval e)
  | .ok vs =>
    match vs.mapM boolOf? with
    | some ms => .ok ms
    | none => .error .whereNotBool

theorem filterChunk_fst (w : Expr) (ch : List Pair) (c : Ctx) :
    (filterChunk w ch c).1 = verdictOf (execBatch w ch c).1 := by
  unfold filterChunk verdictOf
  rcases execBatch w ch c with ⟨r, c1⟩
  cases r with
  | error e => rfl
  | ok vs => simp only; cases vs.mapM boolOf? <;> rfl

theorem filterChunk_snd (w : Expr) (ch : List Pair) (c : Ctx) :
    (filterChunk w ch c).2 = (execBatch w ch c).2 := by
  unfold filterChunk
  rcases execBatch w ch c with ⟨r, c1⟩
  cases r with
  | error e => rfl
  | ok vs => simp only; cases vs.mapM boolOf? <;> rfl

theorem verdictOf_ok {r : Except Err (List Value)} {ms : List Bool} (h : verdictOf r = .ok ms) : ∃ vs, r = .ok vs := by
  cases r with
  | error e => cases h
  | ok vs => exact ⟨vs, rfl⟩

/-! ### one inner chunk in the threaded context -/

theorem chunk_step {w : Expr} (hw : w.wf = true) {ch : List Pair} (hne : ch ≠ []) {c : Ctx} (hon : CtxOn c)
    (hfresh : ∀ n, assocGet c.chunkKeyCache (Ctx.chunkKey n (fk ch)) = none) :
    (filterChunk w ch c).1 = (filterChunk w ch (Ctx.new true)).1 ∧
    CtxOn (filterChunk w ch c).2 ∧ Other (fk ch) c (filterChunk w ch c).2 ∧
    (∀ ms, (filterChunk w ch c).1 = .ok ms → ∀ n,
      (T0 w n = true → ∃ col, col.length = ch.length ∧
        assocGet (filterChunk w ch c).2.chunkCache n = some ((assocGet c.chunkCache n).getD [] ++ col)) ∧
      (T0 w n = false → assocGet (filterChunk w ch c).2.chunkCache n = assocGet c.chunkCache n)) := by
  have hag : AgreeAt (fk ch) c (Ctx.new true) := by
    refine ⟨hon.1, hon.2, fun n => ?_⟩
    rw [get_on hon.2, hfresh n]
    rfl
  obtain ⟨f1, f2⟩ := execBatch_frame w hne hag
  have safe := execBatch_safe w hw ch (Ctx.new true) (fun _ => hne) (colsLen_new true _)
  obtain ⟨u1, u2, u3, u4⟩ := (execBatch_fs hne (C0 := fun n => assocGet c.chunkCache n) w).un c hon
    (by intro n; rw [hfresh n])
  rw [filterChunk_fst, filterChunk_fst, filterChunk_snd, f1]
  refine ⟨rfl, u1, u3, fun ms hms n => ?_⟩
  obtain ⟨vs, hvs⟩ := verdictOf_ok hms
  have hflag : flagAt (fk ch) (execBatch w ch c).2 = T0 w := by
    rw [u4 vs (by rw [f1, hvs])]
    have : flagAt (fk ch) c = fun _ => false := by funext m; simp [flagAt, hfresh m]
    rw [this]; rfl
  have hl := u2 n
  have hfl := congrFun hflag n
  constructor
  · intro hT
    rw [hT] at hfl
    cases hg : assocGet (execBatch w ch c).2.chunkKeyCache (Ctx.chunkKey n (fk ch)) with
    | none => simp [flagAt, hg] at hfl
    | some col =>
      rw [hg] at hl
      refine ⟨col, ?_, hl⟩
      -- the length: the same column sits in the context the fresh evaluation leaves
      have e1 : (execBatch w ch c).2.enable = true := u1.2
      have e2 : (execBatch w ch (Ctx.new true)).2.enable = true := by rw [safe.2.2.2]; rfl
      have := f2.2.2 n
      rw [get_on e1, get_on e2, hg] at this
      exact safe.2.1 _ _ this.symm
  · intro hT
    rw [hT] at hfl
    cases hg : assocGet (execBatch w ch c).2.chunkKeyCache (Ctx.chunkKey n (fk ch)) with
    | some col => simp [flagAt, hg] at hfl
    | none => rw [hg] at hl; exact hl

/-! ### the invariant of a scan's `Batch` between two inner chunks -/

theorem maskFilter_length {α : Type} : ∀ (m : List Bool) (l : List α), l.length = m.length →
    (maskFilter m l).length = m.count true
  | [], [], _ => rfl
  | [], _ :: _, h => by simp at h
  | _ :: _, [], h => by simp at h
  | true :: m, x :: l, h => by
    simp [maskFilter, maskFilter_length m l (by simpa using h)]
  | false :: m, x :: l, h => by
    simp [maskFilter, maskFilter_length m l (by simpa using h)]

structure LInv (w : Expr) (PK : List Bytes) (s : Sel) (c : Ctx) : Prop where
  on : CtxOn c
  fresh : ∀ n k, k ∉ PK → assocGet c.chunkKeyCache (Ctx.chunkKey n k) = none
  cc1 : ∀ n col, assocGet c.chunkCache n = some col → T0 w n = true ∧ col.length = s.bidx
  cc2 : ∀ n, 0 < s.bidx → T0 w n = true → (assocGet c.chunkCache n).isSome = true
  sel : ∃ mask : List Bool, mask.length = s.bidx ∧ s.ret.length = mask.count true ∧ s.choose = idxsFrom 0 mask

theorem LInv.start (w : Expr) {c : Ctx} (hon : CtxOn c) : LInv w [] {} c.clear := by
  have hc : c.clear = { c with fieldCache := [], chunkCache := [], chunkKeyCache := [] } := by
    simp [Ctx.clear, hon.2]
  refine ⟨hon.clear, ?_, ?_, ?_, ⟨[], rfl, rfl, rfl⟩⟩
  · intro n k _; rw [hc]; simp [assocGet]
  · intro n col h; rw [hc] at h; simp [assocGet] at h
  · intro n h; simp at h

theorem LInv.step {w : Expr} (hw : w.wf = true) {PK : List Bytes} {s : Sel} {c : Ctx} (inv : LInv w PK s c)
    {ch : List Pair} (hne : ch ≠ []) (hk : fk ch ∉ PK) :
    (filterChunk w ch c).1 = (filterChunk w ch (Ctx.new true)).1 ∧
    ∀ ms, (filterChunk w ch c).1 = .ok ms → ms.length = ch.length →
      LInv w (fk ch :: PK)
        { ret := s.ret ++ maskFilter ms ch, choose := s.choose ++ idxsFrom s.bidx ms, bidx := s.bidx + ms.length }
        (filterChunk w ch c).2 := by
  obtain ⟨g1, g2, g3, g4⟩ := chunk_step hw hne inv.on (fun n => inv.fresh n (fk ch) hk)
  refine ⟨g1, fun ms hms hlen => ?_⟩
  have g5 := g4 ms hms
  have hpos : 0 < ch.length := List.length_pos_iff.mpr hne
  refine ⟨g2, ?_, ?_, ?_, ?_⟩
  · intro n k hkk
    have h1 : k ≠ fk ch := fun e => hkk (by rw [e]; exact List.mem_cons_self)
    have h2 : k ∉ PK := fun e => hkk (List.mem_cons_of_mem _ e)
    rw [g3 n k h1]
    exact inv.fresh n k h2
  · intro n col hcol
    cases hT : T0 w n with
    | true =>
      obtain ⟨col', hl, hg⟩ := (g5 n).1 hT
      rw [hg] at hcol
      simp only [Option.some.injEq] at hcol
      subst hcol
      refine ⟨rfl, ?_⟩
      simp only [List.length_append, hl, hlen]
      cases h0 : assocGet c.chunkCache n with
      | some col0 =>
        simp [(inv.cc1 n col0 h0).2]
      | none =>
        have : s.bidx = 0 := by
          cases hb : s.bidx with
          | zero => rfl
          | succ b =>
            have := inv.cc2 n (by omega) hT
            rw [h0] at this; cases this
        simp [this]
    | false =>
      rw [(g5 n).2 hT] at hcol
      have := (inv.cc1 n col hcol).1
      rw [hT] at this; cases this
  · intro n _ hT
    obtain ⟨col', _, hg⟩ := (g5 n).1 hT
    rw [hg]; rfl
  · obtain ⟨mask, m1, m2, m3⟩ := inv.sel
    refine ⟨mask ++ ms, ?_, ?_, ?_⟩
    · simp [m1]
    · simp only [List.length_append, List.count_append, m2, maskFilter_length ms ch hlen.symm]
    · rw [idxsFrom_append, m3, m1]; simp

/-! ### the chunk loop of a scan's `Batch` computes `pollLoopE` -/

theorem fk_map_toKv (p : SPair) (ps : List SPair) : fk ((p :: ps).map toKv) = p.1 := rfl

theorem scanBatchLoop_poll_on {w : Expr} (hw : w.wf = true) {bs : Nat} :
    ∀ (chunks : List (List SPair)) (PK : List Bytes) (s : Sel) (c : Ctx) (acc : List SPair), s.ret = acc.map toKv →
    LInv w PK s c → DistinctFk (chunks.map (·.map toKv)) →
    (∀ k ∈ PK, ∀ ch ∈ chunks, ch ≠ [] → k ≠ fk (ch.map toKv)) →
    (∀ e, pollLoopE bs (VOn w) chunks acc = .error e →
      ∃ c1, scanBatchLoop w bs (chunks.map (·.map toKv)) s c = (.error e, c1)) ∧
    (∀ X R, pollLoopE bs (VOn w) chunks acc = .ok (X, R) →
      ∃ s' c1 PK', scanBatchLoop w bs (chunks.map (·.map toKv)) s c = (.ok (s', R.map (·.map toKv)), c1) ∧
        s'.ret = X.map toKv ∧ LInv w PK' s' c1)
  | [], PK, s, c, acc, hs, inv, _, _ => by
    refine ⟨fun e h => by simp [pollLoopE] at h, fun X R h => ?_⟩
    simp only [pollLoopE, Except.ok.injEq, Prod.mk.injEq] at h
    obtain ⟨rfl, rfl⟩ := h
    exact ⟨s, c, PK, by simp [scanBatchLoop], hs, inv⟩
  | [] :: rest, PK, s, c, acc, hs, inv, hd, hp => by
    have ih := scanBatchLoop_poll_on hw (bs := bs) rest PK s c acc hs inv (List.Pairwise.of_cons hd)
      (fun k hk ch hc => hp k hk ch (List.mem_cons_of_mem _ hc))
    rw [pollLoopE]
    simp only [List.isEmpty_nil, if_true, List.map_cons, List.map_nil, scanBatchLoop]
    exact ih
  | (p :: ps) :: rest, PK, s, c, acc, hs, inv, hd, hp => by
    have hmap : ((p :: ps) :: rest).map (·.map toKv) = (toKv p :: ps.map toKv) :: rest.map (·.map toKv) := rfl
    have hc : (p :: ps).map toKv = toKv p :: ps.map toKv := rfl
    have hne : (p :: ps).map toKv ≠ [] := by simp
    have hk : fk ((p :: ps).map toKv) ∉ PK := fun hmem =>
      hp _ hmem (p :: ps) List.mem_cons_self (by simp) rfl
    obtain ⟨g1, g2⟩ := inv.step hw hne hk
    rw [hmap, scanBatchLoop, ← hc, pollLoopE]
    simp only [List.isEmpty_cons, Bool.false_eq_true, if_false]
    rcases hx : Project.filterChunk w ((p :: ps).map toKv) c with ⟨r, c1⟩
    rw [hx] at g1 g2
    simp only at g1 g2
    have hv : VOn w (p :: ps) = r := g1.symm
    rw [hv]
    cases r with
    | error e' =>
      simp only
      refine ⟨fun e h => ?_, fun X R h => by cases h⟩
      simp only [Except.error.injEq] at h
      subst h
      exact ⟨c1, rfl⟩
    | ok ms =>
      simp only
      have hlen : ms.length = ((p :: ps).map toKv).length := by
        have := VOn_len hw (c := p :: ps) (by simp) hv
        simpa using this
      have inv1 := g2 ms rfl hlen
      rw [selectLoop_spec ms ((p :: ps).map toKv) s hlen, maskFilter_selectMatches]
      rw [maskFilter_selectMatches] at inv1
      simp only
      have hret : (s.ret ++ (Plans.selectMatches (p :: ps) ms).map toKv).length =
          (acc ++ Plans.selectMatches (p :: ps) ms).length := by rw [hs]; simp
      by_cases hge : (acc ++ Plans.selectMatches (p :: ps) ms).length ≥ bs
      · simp only [hge, if_true, hret]
        refine ⟨fun e h => (by cases h), fun X R h => ?_⟩
        simp only [Except.ok.injEq, Prod.mk.injEq] at h
        obtain ⟨rfl, rfl⟩ := h
        exact ⟨_, c1, _, rfl, by simp [hs], inv1⟩
      · simp only [hge, if_false, hret]
        have hrel := (List.pairwise_cons.mp hd).1
        refine scanBatchLoop_poll_on hw rest _ _ c1 (acc ++ Plans.selectMatches (p :: ps) ms) (by simp [hs]) inv1
          (List.Pairwise.of_cons hd) (fun k hkm ch hch hchne => ?_)
        rcases List.mem_cons.mp hkm with rfl | hkm
        · exact hrel (ch.map toKv) (List.mem_map.mpr ⟨ch, hch, rfl⟩) hne (by simpa using hchne)
        · exact hp k hkm ch (List.mem_cons_of_mem _ hch) hchne

/-! ### the projection of the accepted pairs -/

/-- every entry of `FieldChunkCaches` has `n` values -/
def CLen (c : Ctx) (n : Nat) : Prop :=
  ∀ name col, c.getChunkFieldFinalResult name = some col → col.length = n

theorem CLen.updateHit {c : Ctx} {n : Nat} (h : CLen c n) : CLen c.updateHit n := h

/-- `processProjectionBatch`, first loop, from a context whose final columns have the chunk's length: one column
    per field, each as long as the chunk, or a failure that is an error value -/
theorem projectColsFrom_on_safe : ∀ (seen : List Bytes) (fields : List Field), (∀ fld ∈ fields, fld.expr.wf = true) →
    ∀ (ch : List Kvql.Pair) (c : Ctx), CtxOn c → CLen c ch.length →
    (∃ pe c1, projectColsFrom seen fields ch c = (.error pe, c1) ∧ PBenign pe) ∨
    (∃ cols c1, projectColsFrom seen fields ch c = (.ok cols, c1) ∧ CtxOn c1 ∧ cols.length = fields.length ∧
      ∀ col ∈ cols, col.length = ch.length)
  | _, [], _, _, c, hon, _ => .inr ⟨[], c, rfl, hon, rfl, by simp⟩
  | seen, f :: fs, hf, ch, c, hon, hcl => by
    have safe := (execBatch_safe f.expr (hf f List.mem_cons_self) ch Ctx.none (fun h => by cases h)
      (colsLen_none _)).1
    -- the column of this field, and the context after it
    have key : ∃ r c1, fieldCol seen f ch c = (r, c1) ∧ CtxOn c1 ∧ CLen c1 ch.length ∧
        (match r with
          | .ok col => col.length = ch.length
          | .error err => err.isPanic = false ∧ err ≠ .outOfFuel) := by
      unfold fieldCol
      cases hg : (if seen.contains f.name = true then none else c.getChunkFieldFinalResult f.name) with
      | none => exact ⟨_, c, rfl, hon, hcl, safe⟩
      | some col =>
        refine ⟨.ok col, c.updateHit, rfl, hon.updateHit, hcl.updateHit, ?_⟩
        split at hg
        · cases hg
        · exact hcl _ _ hg
    obtain ⟨r, c1, hfc, hon1, hcl1, hr⟩ := key
    rw [projectColsFrom, hfc]
    cases r with
    | error err => exact .inl ⟨_, c1, rfl, pbenign_eval hr⟩
    | ok col =>
      simp only at hr ⊢
      rcases projectColsFrom_on_safe (seen ++ [f.name]) fs (fun g hg => hf g (List.mem_cons_of_mem _ hg)) ch c1
        hon1 hcl1 with ⟨pe, c2, h1, h2⟩ | ⟨cols, c2, h1, h2, h3, h4⟩
      · rw [h1]; exact .inl ⟨pe, c2, rfl, h2⟩
      · rw [h1]
        refine .inr ⟨col :: cols, c2, rfl, h2, by simp [h3], ?_⟩
        intro x hx
        rcases List.mem_cons.mp hx with rfl | hx
        · exact hr
        · exact h4 x hx

/-- after `AdjustChunkCache` every entry of `FieldChunkCaches` has as many values as pairs were accepted -/
theorem LInv.final {w : Expr} {PK : List Bytes} {s : Sel} {c : Ctx} (inv : LInv w PK s c) :
    CtxOn (c.adjustChunkCache s.choose) ∧ CLen (c.adjustChunkCache s.choose) s.ret.length := by
  refine ⟨CtxOn.adjust inv.on _, fun name col h => ?_⟩
  have he : (c.adjustChunkCache s.choose).enable = true := (CtxOn.adjust inv.on _).2
  simp only [Ctx.getChunkFieldFinalResult, he, Bool.not_true, Bool.false_eq_true, ↓reduceIte] at h
  rw [adjust_on inv.on] at h
  cases hg : assocGet c.chunkCache name with
  | none => rw [hg] at h; cases h
  | some col0 =>
    rw [hg] at h
    simp only [Option.map_some, Option.some.injEq] at h
    subst h
    obtain ⟨mask, m1, m2, m3⟩ := inv.sel
    have hl : col0.length = mask.length := by rw [(inv.cc1 name col0 hg).2, m1]
    rw [m3, pickIdx_mask mask col0 hl, maskFilter_length mask col0 hl, m2]

/-- one `Batch` call of the projection against `pollLoopE` -/
theorem nextBatch_poll_on {w : Expr} (hw : w.wf = true) {fields : List Field} (hf : ∀ fld ∈ fields, fld.expr.wf = true)
    {bs : Nat} (chunks : List (List SPair)) (hd : DistinctFk (chunks.map (·.map toKv))) {c : Ctx} (hon : CtxOn c) :
    (∀ e, pollLoopE bs (VOn w) chunks [] = .error e →
      ∃ c1, nextBatch w fields bs (chunks.map (·.map toKv)) c = (.error e, c1)) ∧
    (∀ X R, pollLoopE bs (VOn w) chunks [] = .ok (X, R) →
      (X = [] ∧ ∃ c1, nextBatch w fields bs (chunks.map (·.map toKv)) c = (.ok ([], R.map (·.map toKv)), c1)) ∨
      (X ≠ [] ∧ ∃ pe c1, nextBatch w fields bs (chunks.map (·.map toKv)) c = (.error pe, c1) ∧ PBenign pe) ∨
      (X ≠ [] ∧ ∃ rows c1, nextBatch w fields bs (chunks.map (·.map toKv)) c =
          (.ok (rows, R.map (·.map toKv)), c1) ∧ CtxOn c1 ∧ rows.length = X.length ∧
          ∀ r ∈ rows, r.length = fields.length)) := by
  obtain ⟨g1, g2⟩ := scanBatchLoop_poll_on hw (bs := bs) chunks [] {} c.clear [] rfl (LInv.start w hon) hd
    (fun k hk => by cases hk)
  refine ⟨fun e h => ?_, fun X R h => ?_⟩
  · obtain ⟨c1, h1⟩ := g1 e h
    exact ⟨c1, by unfold nextBatch scanBatch; rw [h1]⟩
  · obtain ⟨s', c1, PK', h1, h2, inv⟩ := g2 X R h
    obtain ⟨fon, fcl⟩ := inv.final
    unfold nextBatch scanBatch
    rw [h1]
    simp only [h2]
    rw [h2] at fcl
    cases X with
    | nil => exact .inl ⟨rfl, _, rfl⟩
    | cons x xs =>
      simp only [List.map_cons]
      simp only [List.map_cons] at fcl
      unfold projectCols
      rcases projectColsFrom_on_safe [] fields hf (toKv x :: xs.map toKv) _ fon fcl with
        ⟨pe, c2, p1, p2⟩ | ⟨cols, c2, p1, p2, p3, p4⟩
      · rw [p1]
        exact .inr (.inl ⟨by simp, pe, c2, rfl, p2⟩)
      · rw [p1]
        simp only
        obtain ⟨rows, hr⟩ := Kvql.Proofs.RunFields.rowsOfCols_ok (toKv x :: xs.map toKv).length cols p4
        rw [hr]
        obtain ⟨q1, q2⟩ := rowsOfCols_shape' hr
        exact .inr (.inr ⟨by simp, rows, c2, rfl, p2, by simpa using q1, fun r hr' => by rw [q2 r hr', p3]⟩)

/-! ### the drain -/

/-- what a `Batch` call leaves is a suffix of the inner chunks it was given -/
theorem pollLoopE_rest_suffix (bs : Nat) (V : ChunkV) : ∀ (chunks : List (List SPair)) (acc X : List SPair)
    (R : List (List SPair)), pollLoopE bs V chunks acc = .ok (X, R) → ∃ pre, chunks = pre ++ R
  | [], acc, X, R, h => by simp [pollLoopE] at h; exact ⟨[], by simp [h.2.symm]⟩
  | c :: rest, acc, X, R, h => by
    rw [pollLoopE] at h
    split at h
    · obtain ⟨pre, hp⟩ := pollLoopE_rest_suffix bs V rest acc X R h
      exact ⟨c :: pre, by simp [hp]⟩
    · split at h
      · cases h
      · split at h
        · simp only [Except.ok.injEq, Prod.mk.injEq] at h
          exact ⟨[c], by simp [h.2.symm]⟩
        · obtain ⟨pre, hp⟩ := pollLoopE_rest_suffix bs V rest _ X R h
          exact ⟨c :: pre, by simp [hp]⟩

/-- **the evaluation side, cache on**: `Project.drainBatchFuel` from a context whose cache is on is in lock step
    with `pollsOfE` for the fresh verdicts -/
theorem drainBatchFuel_lock_on {w : Expr} (hw : w.wf = true) {fields : List Field}
    (hf : ∀ fld ∈ fields, fld.expr.wf = true) {bs : Nat} : ∀ (n : Nat) (chunks : List (List SPair)), chunks.length < n →
    DistinctFk (chunks.map (·.map toKv)) → ∀ (c : Ctx), CtxOn c →
    Lock fields.length (pollsOfE bs (VOn w) n chunks).1 (pollsOfE bs (VOn w) n chunks).2
      (drainBatchFuel w fields bs n (chunks.map (·.map toKv)) c).1
      (drainBatchFuel w fields bs n (chunks.map (·.map toKv)) c).2.1
  | 0, _, h, _, _, _ => by omega
  | n + 1, chunks, hn, hd, c, hon => by
    obtain ⟨g1, g2⟩ := nextBatch_poll_on hw hf (bs := bs) chunks hd hon
    rw [pollsOfE, drainBatchFuel]
    cases hp : pollLoopE bs (VOn w) chunks [] with
    | error e =>
      obtain ⟨c1, h1⟩ := g1 e hp
      rw [h1]
      obtain ⟨c', hc, hne, hv⟩ := pollLoopE_error_mem bs (VOn w) chunks [] e hp
      exact .scanErr e (VOn_benign hw hne hv)
    | ok r =>
      obtain ⟨X, R⟩ := r
      rcases g2 X R hp with ⟨rfl, c1, h1⟩ | ⟨hne, pe, c1, h1, hpe⟩ | ⟨hne, rows, c1, h1, hon1, hl, hr⟩
      · rw [h1]; exact .done
      · rw [h1]
        cases X with
        | nil => exact absurd rfl hne
        | cons x xs => exact .projErr _ _ _ pe hpe
      · rw [h1]
        cases X with
        | nil => exact absurd rfl hne
        | cons x xs =>
          cases rows with
          | nil => simp at hl
          | cons r rs =>
            simp only
            have hc := pollLoopE_consumes bs (VOn w) chunks [] _ _ hp (by simp)
            obtain ⟨pre, hpre⟩ := pollLoopE_rest_suffix bs (VOn w) chunks [] _ _ hp
            have hdR : DistinctFk (R.map (·.map toKv)) := by
              rw [hpre, List.map_append] at hd
              exact DistinctFk.suffix hd
            have ih := drainBatchFuel_lock_on hw hf (bs := bs) n R (by omega) hdR c1 hon1
            exact .step hl hr ih

end Kvql.Proofs.RunNoPanic.LockBatchOn
