/-
  C03, evaluator half (lemma file, to be combined with the plan-level statements):
  `vec_eq_map` — with the field cache switched off, whenever `ExecuteBatch` succeeds on a chunk,
  `Execute` succeeds on every pair of it and returns the same value by content (`[]byte` vs `string`
  is the only difference that occurs: batch `+`), and the context is left untouched.
  The converse is not claimed (batch evaluates both operands of `&` / `|`, row mode short-circuits).

  Covered: EVERY node kind and every function of `funcTable` (patched code).  Static side condition
  `Expr.vecOk`: in `x in f(..)` / `x in alias` the right operand has static type list — what
  `checkWithIn` enforces for checked expressions (the batch code never tests it, the row code does).
-/
import Kvql.Proofs.ExecVecEqMapThm

namespace Kvql.Proofs.C03
open Kvql

/-- batch = map of row, by content; batch ok ⇒ every row ok; cache-off context untouched -/
theorem vec_eq_map (e : Expr) (hok : e.vecOk = true) (chunk : List Pair) (c : Ctx) (hc : c.enable = false)
    {vs : List Value} {c' : Ctx} (hb : execBatch e chunk c = (.ok vs, c')) :
    c' = c ∧ vs.length = chunk.length ∧
      ∀ (i : Nat) (hi : i < chunk.length), ∃ vb vr, vs[i]? = some vb ∧
        exec e chunk[i] c = (.ok vr, c) ∧ Value.contentEq vb vr := by
  obtain ⟨e1, R⟩ := vec_eq_map_core e hok chunk c hc vs c' hb
  refine ⟨e1, R.length_eq, fun i hi => ?_⟩
  obtain ⟨vb, hvb, vr, hvr, rel⟩ := R.get i hi
  exact ⟨vb, vr, hvb, hvr, rel.contentEq⟩

/-- with the cache off (nil context or EnableCache = false) row evaluation never touches the context -/
theorem exec_ctx_untouched (e : Expr) (kv : Pair) (c : Ctx) (hc : c.enable = false) : (exec e kv c).2 = c :=
  exec_inert e kv c hc

/-- non-vacuity: `key + 'x'` on one pair — batch yields `[]byte`, row yields the same text as `string` -/
example :
    let e := Expr.binop 0 .add (.field 0 .key) (.str 0 [120])
    e.vecOk = true ∧
    execBatch e [⟨[97], [49]⟩] Ctx.off = (.ok [.bytes [97, 120]], Ctx.off) ∧
    exec e ⟨[97], [49]⟩ Ctx.off = (.ok (.str [97, 120]), Ctx.off) := by
  refine ⟨by decide, by rfl, by rfl⟩

end Kvql.Proofs.C03
